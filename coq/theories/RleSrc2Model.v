(* RleSrc2Model.v — the regenerated varintRLEDecode (coq/gen/Src_rle.v) on the
   byte image of a run list computes the expansion of the runs, clipped to the
   capacity (C02 about the regenerated decoder).  Exact versions of the loop
   lemmas of RleSrc2Decode.v: the output list is tracked as done ++ rest. *)
Require Import VV.Base VV.BaseProofs VV.Tagged VV.TaggedProofs VV.TaggedFixed VV.CSem VV.CSemProofs
  VV.TaggedSrcGet VV.TaggedSrcAdd VV.RLE VV.RLESpec VV.RLELemmas VV.RLEProofs VV.LeafSrcLemmas
  VV.RleSrcProofs VV.RleSrc2Lemmas VV.RleSrc2Decode.
Require Import VVgen.Src_tagged VVgen.Src_rle.
From Coq Require Import Lia ZifyBool ZifyN ZifyNat.
Local Open Scope Z_scope.
Ltac Zify.zify_post_hook ::= Z.div_mod_to_equations.

Lemma zupd_app_here a y c x : zupd (a ++ y :: c) (length a) x = a ++ x :: c.
Proof. induction a as [|h t IH]; cbn [app length zupd]; [reflexivity|]. rewrite IH. reflexivity. Qed.

Lemma skipn_cons_nth (l : list Z) k : (k < length l)%nat -> skipn k l = nth k l 0 :: skipn (S k) l.
Proof.
  revert k. induction l as [|h t IH]; intros k H; cbn [length] in H; [lia|].
  destruct k as [|k]; [reflexivity|]. cbn [skipn nth]. rewrite IH by lia. reflexivity.
Qed.

Lemma map_repeat' {A B} (f : A -> B) x k : map f (repeat x k) = repeat (f x) k.
Proof. induction k as [|k IH]; [reflexivity|]. cbn [repeat map]. rewrite IH. reflexivity. Qed.

Lemma repeat_snoc {A} (x : A) k : repeat x k ++ [x] = repeat x (S k).
Proof. induction k as [|k IH]; [reflexivity|]. cbn [repeat app]. rewrite IH. reflexivity. Qed.

(* the inner store loop, exactly: n copies of x after the `done` elements *)
Lemma decode_inner_loop_exact fuel n x (done rest : list Z) : 0 <= n <= Z.of_nat (length rest) ->
  Z.of_nat (length (done ++ rest)) < 18446744073709551616 -> (Z.to_nat n < fuel)%nat ->
  c_while fuel decode_inner_step (0, n, Z.of_nat (length done), Some x, done ++ rest) =
  COk (LBreak (n, n, Z.of_nat (length done), Some x, done ++ repeat x (Z.to_nat n) ++ skipn (Z.to_nat n) rest)).
Proof.
  intros Hn Hl Hf. rewrite app_length in Hl.
  pose (st := fun k : nat => (Z.of_nat k, n, Z.of_nat (length done), Some x, done ++ repeat x k ++ skipn k rest)).
  change (0, n, Z.of_nat (length done), Some x, done ++ rest) with (st 0%nat).
  replace (n, n, Z.of_nat (length done), Some x, done ++ repeat x (Z.to_nat n) ++ skipn (Z.to_nat n) rest)
    with (st (Z.to_nat n)) by (unfold st; rewrite Z2Nat.id by lia; reflexivity).
  apply c_while_count; [|unfold st; apply decode_inner_break; lia|exact Hf].
  intros k Hk. unfold st.
  rewrite decode_inner_next by (rewrite ?app_length, ?repeat_length, ?skipn_length; lia).
  f_equal. f_equal. f_equal; [f_equal; f_equal; f_equal; lia|].
  rewrite (skipn_cons_nth rest k) by lia.
  rewrite app_assoc.
  replace (Z.to_nat (Z.of_nat (length done) + Z.of_nat k)) with (length (done ++ repeat x k))
    by (rewrite app_length, repeat_length; lia).
  rewrite zupd_app_here. rewrite <- app_assoc. f_equal.
  rewrite <- repeat_snoc, <- app_assoc. reflexivity.
Qed.

(* ---------- one outer iteration, exactly ---------- *)

Ltac run_inner_exact :=
  match goal with
  | |- context [c_while ?fuel decode_inner_step (?i0, ?n, Z.of_nat (length ?done), Some ?x, ?done ++ ?rest)] =>
      change i0 with 0;
      rewrite (decode_inner_loop_exact fuel n x done rest) by (rewrite ?app_length in *; lia)
  end.

Lemma decode_outer_step_full fuel z td cap p m : cap <= td ->
  decode_outer_step fuel z (td, cap, p, m) = COk (LBreak (td, cap, p, m)).
Proof.
  intro H. unfold decode_outer_step. fold decode_inner_step. cbv beta iota.
  c_unfold. repeat c_step. c_simp. reflexivity.
Qed.

Section Step.
Variables (fuel : nat) (z : list N) (cap p c r x : Z) (done rest : list Z).
Hypothesis E : src_varintRLEDecodeRun (skipn (Z.to_nat p) z) None None = COk (c, Some r, Some x).
Hypothesis Hp : 0 <= p <= Z.of_nat (length z).
Hypothesis Htd : Z.of_nat (length done) < cap <= Z.of_nat (length (done ++ rest)).
Hypothesis Hlen : Z.of_nat (length (done ++ rest)) < 18446744073709551616.
Hypothesis Hf : (Z.to_nat cap < fuel)%nat.
Hypothesis Hr : 1 <= r < 18446744073709551616.

(* the run fits in the room left: all of it is stored, the loop goes on *)
Lemma decode_outer_step_fit : r <= cap - Z.of_nat (length done) ->
  decode_outer_step fuel z (Z.of_nat (length done), cap, p, done ++ rest) =
  COk (LNext (Z.of_nat (length done) + r, cap, p + c, done ++ repeat x (Z.to_nat r) ++ skipn (Z.to_nat r) rest)).
Proof.
  intro Hfit. unfold decode_outer_step. fold decode_inner_step. cbv beta iota.
  c_unfold. repeat (first [rewrite E; c_simp | run_inner_exact | c_step]). c_simp.
  rewrite ?Z.mod_small by (rewrite ?app_length in *; lia). reflexivity.
Qed.

(* the run is longer than the room left: clipped, the loop stops at the capacity *)
Lemma decode_outer_step_clip : cap - Z.of_nat (length done) < r ->
  decode_outer_step fuel z (Z.of_nat (length done), cap, p, done ++ rest) =
  COk (LBreak (cap, cap, p + c, done ++ repeat x (Z.to_nat (cap - Z.of_nat (length done))) ++
                                  skipn (Z.to_nat (cap - Z.of_nat (length done))) rest)).
Proof.
  intro Hclip. unfold decode_outer_step. fold decode_inner_step. cbv beta iota.
  c_unfold. repeat (first [rewrite E; c_simp | run_inner_exact | c_step]). c_simp.
  rewrite ?Z.mod_small by (rewrite ?app_length in *; lia).
  replace (Z.of_nat (length done) + (cap - Z.of_nat (length done))) with cap by lia. reflexivity.
Qed.
End Step.

(* ---------- the run reader on the bytes of a run ---------- *)
Require Import VV.TaggedSpecProofs.

Lemma src_varintRLEDecodeRun_run_bytes r tl : bytes_ok (run_bytes r ++ tl) -> u64_ok (fst r) -> u64_ok (snd r) ->
  src_varintRLEDecodeRun (run_bytes r ++ tl) None None =
  COk (Z.of_N (tagged_len (fst r) + tagged_len (snd r)), Some (Z.of_N (fst r)), Some (Z.of_N (snd r))).
Proof.
  intros Hz H1 H2.
  assert (G1 : tagged_getlen (run_bytes r ++ tl) = tagged_len (fst r))
    by (unfold run_bytes; rewrite <- app_assoc; apply tagged_getlen_put; exact H1).
  assert (S1 : skipn (N.to_nat (tagged_len (fst r))) (run_bytes r ++ tl) = tagged_put64 (snd r) ++ tl)
    by (unfold run_bytes; rewrite <- app_assoc; apply skipn_put).
  assert (L : length (run_bytes r ++ tl) = (N.to_nat (tagged_len (fst r)) + N.to_nat (tagged_len (snd r)) + length tl)%nat)
    by (unfold run_bytes; rewrite !app_length, !tagged_put_len_nat; lia).
  rewrite src_varintRLEDecodeRun_is_model.
  - rewrite decode_run_bytes by assumption. reflexivity.
  - exact Hz.
  - rewrite G1, L. lia.
  - rewrite G1, S1, tagged_getlen_put by exact H2. rewrite L. lia.
Qed.

(* ---------- the loop on the byte image of a run list ---------- *)

Lemma c_while_break {S R} f (step : S -> cres (lstep S R)) s s' :
  step s = COk (LBreak s') -> c_while (Datatypes.S f) step s = COk (LBreak s').
Proof. intro E. rewrite c_while_S, E. reflexivity. Qed.

Lemma decode_loop_runs fuel0 z cap tl : bytes_ok z -> (Z.to_nat cap < fuel0)%nat ->
  forall rs k pre done rest,
  z = pre ++ enc_runs rs ++ tl -> runs_wf rs ->
  Z.of_nat (length done) <= cap <= Z.of_nat (length done) + Z.of_N (runs_total rs) ->
  Z.of_nat (length done) + Z.of_N (runs_total rs) < 18446744073709551616 ->
  cap <= Z.of_nat (length (done ++ rest)) < 18446744073709551616 ->
  (length rs < k)%nat ->
  exists p', c_while k (decode_outer_step fuel0 z) (Z.of_nat (length done), cap, Z.of_nat (length pre), done ++ rest) =
    COk (LBreak (cap, cap, p',
      done ++ map Z.of_N (firstn (Z.to_nat (cap - Z.of_nat (length done))) (expand_runs rs)) ++
              skipn (Z.to_nat (cap - Z.of_nat (length done))) rest)).
Proof.
  intros Hz Hf. induction rs as [|r rs IH]; intros k pre done rest Ez Hwf Hcap Hno Hlen Hk.
  all: destruct k as [|k]; [cbn [length] in Hk; lia|].
  all: destruct (Z.eq_dec (Z.of_nat (length done)) cap) as [Eq|Ne].
  1,3: exists (Z.of_nat (length pre)); rewrite (c_while_break k _ _ _ (decode_outer_step_full fuel0 z (Z.of_nat (length done)) cap (Z.of_nat (length pre)) (done ++ rest) ltac:(lia)));
    subst cap; rewrite Z.sub_diag; change (Z.to_nat 0) with 0%nat; cbn [firstn map skipn app]; reflexivity.
  - cbn [runs_total fold_right] in Hcap. lia.
  - pose proof (Forall_inv Hwf) as HH; cbv beta in HH; destruct HH as [Hn Hv]. pose proof (Forall_inv_tail Hwf) as Hwf'.
    rewrite runs_total_cons in Hcap, Hno.
    assert (U1 : u64_ok (fst r)) by (unfold u64_ok; lia).
    set (c := Z.of_N (tagged_len (fst r) + tagged_len (snd r))).
    assert (Sk : skipn (Z.to_nat (Z.of_nat (length pre))) z = run_bytes r ++ enc_runs rs ++ tl).
    { rewrite Nat2Z.id, Ez, enc_runs_cons, <- app_assoc. apply skipn_app_len. }
    assert (E : src_varintRLEDecodeRun (skipn (Z.to_nat (Z.of_nat (length pre))) z) None None
                = COk (c, Some (Z.of_N (fst r)), Some (Z.of_N (snd r)))).
    { rewrite Sk. apply src_varintRLEDecodeRun_run_bytes; try assumption.
      rewrite <- Sk. apply bytes_ok_skipn. exact Hz. }
    assert (Hp : 0 <= Z.of_nat (length pre) <= Z.of_nat (length z)) by (rewrite Ez, app_length; lia).
    rewrite expand_runs_cons.
    destruct (Z.lt_ge_cases (cap - Z.of_nat (length done)) (Z.of_N (fst r))) as [Clip|Fit].
    + exists (Z.of_nat (length pre) + c).
      rewrite (c_while_break k _ _ _ (decode_outer_step_clip fuel0 z cap (Z.of_nat (length pre)) c (Z.of_N (fst r)) (Z.of_N (snd r)) done rest E Hp ltac:(lia) ltac:(lia) Hf ltac:(lia) Clip)).
      rewrite firstn_repeat_app by lia. rewrite map_repeat'. reflexivity.
    + rewrite c_while_S.
      rewrite (decode_outer_step_fit fuel0 z cap (Z.of_nat (length pre)) c (Z.of_N (fst r)) (Z.of_N (snd r)) done rest E Hp ltac:(lia) ltac:(lia) Hf ltac:(lia) ltac:(lia)).
      cbn [bind].
      set (n := N.to_nat (fst r)). fold n in Hlen.
      replace (Z.to_nat (Z.of_N (fst r))) with n by lia.
      assert (Ln : (n <= length rest)%nat) by (rewrite app_length in Hlen; lia).
      destruct (IH k (pre ++ run_bytes r) (done ++ repeat (Z.of_N (snd r)) n) (skipn n rest)) as (p' & EI).
      { rewrite Ez, enc_runs_cons, <- !app_assoc. reflexivity. }
      { exact Hwf'. }
      { rewrite app_length, repeat_length. lia. }
      { rewrite app_length, repeat_length. lia. }
      { rewrite !app_length, repeat_length, skipn_length in *. lia. }
      { cbn [length] in Hk. lia. }
      exists p'.
      assert (A1 : Z.of_nat (length done) + Z.of_N (fst r) = Z.of_nat (length (done ++ repeat (Z.of_N (snd r)) n)))
        by (rewrite app_length, repeat_length; lia).
      assert (A2 : Z.of_nat (length pre) + c = Z.of_nat (length (pre ++ run_bytes r)))
        by (rewrite app_length, run_bytes_len; unfold c; lia).
      rewrite A1, A2, (app_assoc done). rewrite EI. f_equal. f_equal. f_equal.
      rewrite firstn_repeat_app_ge by lia. rewrite map_app, map_repeat', <- !app_assoc.
      f_equal. f_equal. rewrite skipn_skipn_add.
      rewrite app_length, repeat_length.
      f_equal; [f_equal; f_equal; lia|f_equal; lia].
Qed.

(* ---------- the regenerated decoder on the image of a run list / of rle_encode ---------- *)
Require Import VV.TaggedSrcPropsPut.

Lemma src_varintRLEDecode_runs : forall fuel rs tl vals cap,
  bytes_ok (enc_runs rs ++ tl) -> runs_wf rs ->
  0 <= cap <= Z.of_N (runs_total rs) -> Z.of_N (runs_total rs) < 18446744073709551616 ->
  cap <= Z.of_nat (length vals) < 18446744073709551616 ->
  (Z.to_nat cap < fuel)%nat -> (length rs < fuel)%nat ->
  src_varintRLEDecode fuel (enc_runs rs ++ tl) vals cap =
  COk (cap, map Z.of_N (firstn (Z.to_nat cap) (expand_runs rs)) ++ skipn (Z.to_nat cap) vals).
Proof.
  intros fuel rs tl vals cap Hz Hwf Hcap Hno Hlen Hf Hk.
  rewrite src_varintRLEDecode_eq.
  destruct (decode_loop_runs fuel (enc_runs rs ++ tl) cap tl Hz Hf rs fuel [] [] vals) as (p' & E);
    try assumption; try reflexivity; try (cbn [length app]; lia).
  cbn [length app] in E. change (Z.of_nat 0) with 0 in E. rewrite Z.sub_0_r in E.
  rewrite E. reflexivity.
Qed.

Lemma bytes_ok_enc_runs rs : bytes_ok (enc_runs rs).
Proof.
  induction rs as [|r rs IH]; [constructor|]. rewrite enc_runs_cons. unfold run_bytes.
  repeat apply bytes_ok_app; try apply bytes_ok_tagged_put64. exact IH.
Qed.

Lemma runs_len_le_total rs : Forall (fun r => (1 <= fst r)%N) rs -> (N.of_nat (length rs) <= runs_total rs)%N.
Proof.
  induction 1 as [|r rs H1 H IH]; [cbn; lia|]. rewrite runs_total_cons. cbn [length]. lia.
Qed.

(* C02 about the regenerated decoder: what rle_encode produced (followed by any
   bytes), decoded into a capacity cap <= count, is the first cap values — written
   at indices 0..cap-1 of the output list, the rest of which is untouched *)
Lemma src_varintRLEDecode_is_model : forall fuel xs tl vals (cap : nat),
  Forall (fun x => (x < 18446744073709551616)%N) xs -> Z.of_nat (length xs) < 18446744073709551616 ->
  bytes_ok tl -> (cap <= length xs)%nat ->
  (cap <= length vals)%nat -> Z.of_nat (length vals) < 18446744073709551616 -> (length xs < fuel)%nat ->
  src_varintRLEDecode fuel (fst (rle_encode xs) ++ tl) vals (Z.of_nat cap) =
  COk (Z.of_nat cap, map Z.of_N (firstn cap xs) ++ skipn cap vals).
Proof.
  intros fuel xs tl vals cap Hxs Hlx Htl Hcap Hv Hlv Hf.
  destruct (rle_encode_is_spec xs) as (E & _). rewrite E.
  pose proof (runs_total_rle xs) as T.
  pose proof (runs_len_le_total _ (rle_runs_len_ge1 xs)) as LR.
  rewrite src_varintRLEDecode_runs.
  - rewrite Nat2Z.id, expand_rle_runs. reflexivity.
  - apply bytes_ok_app; [apply bytes_ok_enc_runs|exact Htl].
  - apply rle_runs_wf. exact Hxs.
  - lia.
  - lia.
  - lia.
  - lia.
  - lia.
Qed.
