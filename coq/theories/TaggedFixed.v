(* TaggedFixed.v — fixed-width, quick-macro and 32-bit forms of the tagged
   codec; length agreement; bounded reader; in-place add. *)
Require Import VV.Base VV.BaseProofs VV.Tagged VV.TaggedProofs VV.TaggedSpec VV.TaggedSpecProofs.
From Coq Require Import Lia ZifyBool ZifyN ZifyNat.
Local Open Scope N_scope.
Ltac Zify.zify_post_hook ::= Z.div_mod_to_equations.

(* which (value, width) pairs the fixed-width writer encodes faithfully *)
Definition tagged_fixed_legal (x w : N) : Prop :=
  (w = 1 /\ x <= 240) \/ (w = 2 /\ 240 <= x <= 2287) \/ (w = 3 /\ 2288 <= x <= 67823) \/
  (4 <= w <= 9 /\ x < 256 ^ (w - 1)).

Ltac open_fixed := unfold tagged_put64_fixed; cbv zeta; unfold u32, shr, sub64.

Lemma fixed_1 x tl n : x <= 240 -> (1 <= n)%Z ->
  exists bs, tagged_put64_fixed x 1 = Some bs /\ length bs = 1%nat /\ tagged_get (bs ++ tl) n = (1, x).
Proof.
  intros Hx Hn. eexists. split; [reflexivity|]. split; [reflexivity|].
  open_get. unfold u8. kill_ifs. f_equal; lia.
Qed.

Lemma fixed_2 x tl n : 240 <= x <= 2287 -> (2 <= n)%Z ->
  exists bs, tagged_put64_fixed x 2 = Some bs /\ length bs = 2%nat /\ tagged_get (bs ++ tl) n = (2, x).
Proof.
  intros Hx Hn. eexists. split; [reflexivity|]. split; [reflexivity|].
  open_get. unfold u8, u32, sub64. kill_ifs. f_equal; lia.
Qed.

Lemma fixed_3 x tl n : 2288 <= x <= 67823 -> (3 <= n)%Z ->
  exists bs, tagged_put64_fixed x 3 = Some bs /\ length bs = 3%nat /\ tagged_get (bs ++ tl) n = (3, x).
Proof.
  intros Hx Hn. eexists. split; [reflexivity|]. split; [reflexivity|].
  open_get. unfold u8, u32, sub64. kill_ifs. f_equal; lia.
Qed.

Lemma fixed_4 x tl n : x < 16777216 -> (4 <= n)%Z ->
  exists bs, tagged_put64_fixed x 4 = Some bs /\ length bs = 4%nat /\ tagged_get (bs ++ tl) n = (4, x).
Proof.
  intros Hx Hn. eexists. split; [reflexivity|]. split; [reflexivity|].
  unfold u32. open_get. kill_ifs.
  rewrite be3 by apply u8_lt.
  rewrite be3_of by lia. f_equal. lia.
Qed.

Lemma fixed_5 x tl n : x < 4294967296 -> (5 <= n)%Z ->
  exists bs, tagged_put64_fixed x 5 = Some bs /\ length bs = 5%nat /\ tagged_get (bs ++ tl) n = (5, x).
Proof.
  intros Hx Hn. eexists. split; [reflexivity|]. split; [reflexivity|].
  unfold u32. open_get. kill_ifs.
  rewrite (be4 (u8 _) (u8 _) (u8 _) (u8 _)) by apply u8_lt. rewrite be4_of by lia. f_equal. lia.
Qed.

Ltac fixed_setup x :=
  pose proof (be4_of (x mod 4294967296)) as Hy;
  pose proof (split32 x) as Hs.

Lemma fixed_6 x tl n : x < 1099511627776 -> (6 <= n)%Z ->
  exists bs, tagged_put64_fixed x 6 = Some bs /\ length bs = 6%nat /\ tagged_get (bs ++ tl) n = (6, x).
Proof.
  intros Hx Hn. eexists. split; [reflexivity|]. split; [reflexivity|].
  unfold u32; change (shr x 32) with (x / 2 ^ 32). open_get. kill_ifs.
  rewrite (be4 (u8 _) (u8 _) (u8 _) (u8 _)) by apply u8_lt.
  fixed_setup x. pose proof (be1_of ((x / 2 ^ 32) mod 4294967296)) as Hw.
  set (w := (x / 2 ^ 32) mod 4294967296) in *. set (y := x mod 4294967296) in *.
  assert (y < 4294967296) by (subst y; lia). assert (w <= 255) by (subst w; lia).
  clearbody w y.
  pose proof (u8_lt w); pose proof (u8_lt y); pose proof (u8_lt (shr y 8));
  pose proof (u8_lt (shr y 16)); pose proof (u8_lt (shr y 24)).
  rewrite shl_lor_small by lia. f_equal. lia.
Qed.

Lemma fixed_7 x tl n : x < 281474976710656 -> (7 <= n)%Z ->
  exists bs, tagged_put64_fixed x 7 = Some bs /\ length bs = 7%nat /\ tagged_get (bs ++ tl) n = (7, x).
Proof.
  intros Hx Hn. eexists. split; [reflexivity|]. split; [reflexivity|].
  unfold u32; change (shr x 32) with (x / 2 ^ 32). open_get. kill_ifs.
  rewrite (be4 (u8 _) (u8 _) (u8 _) (u8 _)) by apply u8_lt.
  fixed_setup x. pose proof (be2_of ((x / 2 ^ 32) mod 4294967296)) as Hw.
  set (w := (x / 2 ^ 32) mod 4294967296) in *. set (y := x mod 4294967296) in *.
  assert (y < 4294967296) by (subst y; lia). assert (w <= 65535) by (subst w; lia).
  clearbody w y.
  pose proof (u8_lt w); pose proof (u8_lt (shr w 8)); pose proof (u8_lt y); pose proof (u8_lt (shr y 8));
  pose proof (u8_lt (shr y 16)); pose proof (u8_lt (shr y 24)).
  rewrite shl_lor2 by lia. f_equal. lia.
Qed.

Lemma fixed_8 x tl n : x < 72057594037927936 -> (8 <= n)%Z ->
  exists bs, tagged_put64_fixed x 8 = Some bs /\ length bs = 8%nat /\ tagged_get (bs ++ tl) n = (8, x).
Proof.
  intros Hx Hn. eexists. split; [reflexivity|]. split; [reflexivity|].
  unfold u32; change (shr x 32) with (x / 2 ^ 32). open_get. kill_ifs.
  rewrite (be4 (u8 _) (u8 _) (u8 _) (u8 _)) by apply u8_lt.
  fixed_setup x. pose proof (be3_of ((x / 2 ^ 32) mod 4294967296)) as Hw.
  set (w := (x / 2 ^ 32) mod 4294967296) in *. set (y := x mod 4294967296) in *.
  assert (y < 4294967296) by (subst y; lia). assert (w <= 16777215) by (subst w; lia).
  clearbody w y.
  pose proof (u8_lt w); pose proof (u8_lt (shr w 8)); pose proof (u8_lt (shr w 16));
  pose proof (u8_lt y); pose proof (u8_lt (shr y 8));
  pose proof (u8_lt (shr y 16)); pose proof (u8_lt (shr y 24)).
  rewrite shl_lor3 by lia. f_equal. lia.
Qed.

Lemma fixed_9 x tl n : x < 18446744073709551616 -> (9 <= n)%Z ->
  exists bs, tagged_put64_fixed x 9 = Some bs /\ length bs = 9%nat /\ tagged_get (bs ++ tl) n = (9, x).
Proof.
  intros Hx Hn. eexists. split; [reflexivity|]. split; [reflexivity|].
  unfold u32; change (shr x 32) with (x / 2 ^ 32). open_get. kill_ifs.
  rewrite !(be4 (u8 _) (u8 _) (u8 _) (u8 _)) by apply u8_lt. rewrite !be4_of by lia.
  rewrite land_ones32 by lia. rewrite shl_lor_small by lia. f_equal. lia.
Qed.

Theorem tagged_fixed_roundtrip x w tl : x < 18446744073709551616 -> tagged_fixed_legal x w ->
  exists bs, tagged_put64_fixed x w = Some bs /\ N.of_nat (length bs) = w /\
             tagged_get (bs ++ tl) (Z.of_N w) = (w, x).
Proof.
  intros Hx [ [ -> H ] | [ [ -> H ] | [ [ -> H ] | [ Hw H ] ] ] ].
  - destruct (fixed_1 x tl 1 H ltac:(lia)) as (bs & A & B & C). exists bs. rewrite B. auto.
  - destruct (fixed_2 x tl 2 H ltac:(lia)) as (bs & A & B & C). exists bs. rewrite B. auto.
  - destruct (fixed_3 x tl 3 H ltac:(lia)) as (bs & A & B & C). exists bs. rewrite B. auto.
  - assert (w = 4 \/ w = 5 \/ w = 6 \/ w = 7 \/ w = 8 \/ w = 9) as [ -> | [ -> | [ -> | [ -> | [ -> | -> ] ] ] ] ] by lia.
    + destruct (fixed_4 x tl 4 ltac:(vm_compute (256 ^ (4 - 1)) in H; lia) ltac:(lia)) as (bs & A & B & C). exists bs. rewrite B. auto.
    + destruct (fixed_5 x tl 5 ltac:(vm_compute (256 ^ (5 - 1)) in H; lia) ltac:(lia)) as (bs & A & B & C). exists bs. rewrite B. auto.
    + destruct (fixed_6 x tl 6 ltac:(vm_compute (256 ^ (6 - 1)) in H; lia) ltac:(lia)) as (bs & A & B & C). exists bs. rewrite B. auto.
    + destruct (fixed_7 x tl 7 ltac:(vm_compute (256 ^ (7 - 1)) in H; lia) ltac:(lia)) as (bs & A & B & C). exists bs. rewrite B. auto.
    + destruct (fixed_8 x tl 8 ltac:(vm_compute (256 ^ (8 - 1)) in H; lia) ltac:(lia)) as (bs & A & B & C). exists bs. rewrite B. auto.
    + destruct (fixed_9 x tl 9 Hx ltac:(lia)) as (bs & A & B & C). exists bs. rewrite B. auto.
Qed.

(* ---------- quick macros, 32-bit entry points, length agreement ---------- *)

Lemma tagged_len_quick_eq x : tagged_len_quick x = tagged_len x.
Proof.
  unfold tagged_len_quick, tagged_len, u32, shr. cbv zeta. kill_ifs; lia.
Qed.

Lemma tagged_put64_fixed_quick_eq x w : tagged_put64_fixed_quick x w = tagged_put64_fixed x w.
Proof.
  unfold tagged_put64_fixed_quick, tagged_put64_fixed. cbv zeta.
  repeat match goal with |- context [match ?p with _ => _ end] => destruct p end; reflexivity.
Qed.

Lemma tagged_get64_quick_put x tl : x < 18446744073709551616 ->
  tagged_get64_quick (tagged_put64 x ++ tl) = x.
Proof.
  intro Hx. unfold tagged_get64_quick, tagged_get64_return_value. cbv zeta.
  rewrite (tagged_roundtrip x tl 9 Hx) by (pose proof (tagged_len_range x); lia).
  unfold tagged_put64. cbv zeta.
  destruct (x <=? 240) eqn:E1.
  { cbn [byte_at nth app]. unfold u8. kill_ifs; lia. }
  destruct (x <=? 2287) eqn:E2.
  { cbn [byte_at nth app]. unfold u8, u32. kill_ifs; lia. }
  destruct (x <=? 67823) eqn:E3.
  { cbn [byte_at nth app]. unfold u8, u32. kill_ifs; lia. }
  unfold write32.
  destruct (_ =? 0) eqn:E4; [destruct (_ <=? 16777215) eqn:E5|
    destruct (_ <=? 255) eqn:E5; [|destruct (_ <=? 65535) eqn:E6; [|destruct (_ <=? 16777215) eqn:E7]]];
  cbn [byte_at nth app snd]; reflexivity.
Qed.

Lemma tagged_get32_put32 x tl : x < 4294967296 ->
  tagged_get32 (tagged_put32 x ++ tl) = (tagged_len x, x).
Proof.
  intro Hx. unfold tagged_get32, tagged_put32. cbv zeta.
  rewrite (tagged_roundtrip x tl 9) by (try (pose proof (tagged_len_range x)); lia).
  cbn [fst snd]. unfold u32. f_equal. lia.
Qed.

(* ---------- the bounded reader: reads nothing at or beyond n ---------- *)

Lemma firstn_byte_at z z' k i : firstn k z = firstn k z' -> (i < k)%nat -> byte_at z i = byte_at z' i.
Proof.
  unfold byte_at. revert z z' i. induction k as [|k IH]; intros z z' i H Hi; [lia|].
  destruct z as [|a z], z' as [|a' z']; cbn [firstn] in H.
  - reflexivity.
  - discriminate.
  - discriminate.
  - injection H as -> H. destruct i as [|i]; [reflexivity|]. cbn [nth]. apply IH; [exact H|lia].
Qed.

Theorem tagged_get_noninterference z z' n :
  firstn (Z.to_nat n) z = firstn (Z.to_nat n) z' -> tagged_get z n = tagged_get z' n.
Proof.
  intro H.
  assert (B : forall i, (Z.of_nat i < n)%Z -> byte_at z i = byte_at z' i).
  { intros i Hi. apply (firstn_byte_at z z' (Z.to_nat n) i H). lia. }
  unfold tagged_get. cbv zeta.
  destruct (n <? 1)%Z eqn:E0; [reflexivity|].
  rewrite <- (B 0%nat) by lia.
  destruct (byte_at z 0 <=? 240) eqn:E1; [reflexivity|].
  destruct (byte_at z 0 <=? 248) eqn:E2.
  { destruct (n <? 2)%Z eqn:E3; [reflexivity|]. rewrite <- (B 1%nat) by lia. reflexivity. }
  destruct (n <? Z.of_N (byte_at z 0) - 246)%Z eqn:E4; [reflexivity|].
  destruct (byte_at z 0 =? 249) eqn:E5.
  { rewrite <- (B 1%nat), <- (B 2%nat) by lia. reflexivity. }
  destruct (byte_at z 0 =? 250) eqn:E6.
  { rewrite <- (B 1%nat), <- (B 2%nat), <- (B 3%nat) by lia. reflexivity. }
  destruct (byte_at z 0 =? 251) eqn:E7.
  { rewrite <- (B 1%nat), <- (B 2%nat), <- (B 3%nat), <- (B 4%nat) by lia. reflexivity. }
  destruct (byte_at z 0 =? 252) eqn:E8.
  { rewrite <- (B 1%nat), <- (B 2%nat), <- (B 3%nat), <- (B 4%nat), <- (B 5%nat) by lia. reflexivity. }
  destruct (byte_at z 0 =? 253) eqn:E9.
  { rewrite <- (B 1%nat), <- (B 2%nat), <- (B 3%nat), <- (B 4%nat), <- (B 5%nat), <- (B 6%nat) by lia. reflexivity. }
  destruct (byte_at z 0 =? 254) eqn:E10.
  { rewrite <- (B 1%nat), <- (B 2%nat), <- (B 3%nat), <- (B 4%nat), <- (B 5%nat), <- (B 6%nat), <- (B 7%nat) by lia. reflexivity. }
  destruct (byte_at z 0 =? 255) eqn:E11.
  { rewrite <- (B 1%nat), <- (B 2%nat), <- (B 3%nat), <- (B 4%nat), <- (B 5%nat), <- (B 6%nat), <- (B 7%nat), <- (B 8%nat) by lia. reflexivity. }
  reflexivity.
Qed.

(* a varint cut short of its announced length is reported as length 0 *)
Theorem tagged_get_short z n : byte_at z 0 < 256 ->
  (n < Z.of_N (tagged_getlen z))%Z -> fst (tagged_get z n) = 0.
Proof.
  intros Hb. unfold tagged_getlen, tagged_get. cbv zeta.
  destruct (byte_at z 0 <=? 240) eqn:E1.
  { intro H. destruct (n <? 1)%Z eqn:E0; [reflexivity|lia]. }
  destruct (byte_at z 0 <=? 248) eqn:E2.
  { intro H. destruct (n <? 1)%Z eqn:E0; [reflexivity|]. destruct (n <? 2)%Z eqn:E3; [reflexivity|lia]. }
  intro H. destruct (n <? 1)%Z eqn:E0; [reflexivity|].
  destruct (n <? Z.of_N (byte_at z 0) - 246)%Z eqn:E4; [reflexivity|lia].
Qed.

(* and when the announced length fits, the returned width is the announced one *)
Theorem tagged_get_width z n : byte_at z 0 < 256 ->
  (Z.of_N (tagged_getlen z) <= n)%Z -> fst (tagged_get z n) = tagged_getlen z.
Proof.
  intros Hb. unfold tagged_getlen, tagged_get. cbv zeta.
  destruct (byte_at z 0 <=? 240) eqn:E1.
  { intro H. destruct (n <? 1)%Z eqn:E0; [lia|reflexivity]. }
  destruct (byte_at z 0 <=? 248) eqn:E2.
  { intro H. destruct (n <? 1)%Z eqn:E0; [lia|]. destruct (n <? 2)%Z eqn:E3; [lia|reflexivity]. }
  intro H. destruct (n <? 1)%Z eqn:E0; [lia|].
  destruct (n <? Z.of_N (byte_at z 0) - 246)%Z eqn:E4; [lia|].
  kill_ifs; cbn [fst]; lia.
Qed.

Lemma tagged_put_length_nat x : length (tagged_put64 x) = N.to_nat (tagged_len x).
Proof.
  unfold tagged_put64, tagged_len, write32. cbv zeta.
  kill_ifs; reflexivity.
Qed.

(* ---------- in-place add ---------- *)

Lemma store_0_length p bs : (length bs <= length p)%nat -> length (store p 0 bs) = length p.
Proof. intro H. unfold store. cbn [firstn app plus]. rewrite app_length, skipn_length. lia. Qed.

Lemma skipn_add {A} a b (l : list A) : skipn a (skipn b l) = skipn (b + a) l.
Proof.
  revert l. induction b as [|b IH]; intro l; [reflexivity|].
  destruct l as [|x l]; [cbn [skipn plus]; destruct a; reflexivity|]. cbn [skipn plus]. apply IH.
Qed.

Lemma store_0_skipn p bs k : (length bs <= k)%nat -> skipn k (store p 0 bs) = skipn k p.
Proof.
  intro H. unfold store. cbn [firstn app plus].
  rewrite skipn_app. rewrite skipn_all2 by exact H. cbn [app].
  rewrite skipn_add. f_equal. lia.
Qed.

Lemma store_0_prefix p bs : exists t, store p 0 bs = bs ++ t.
Proof. unfold store. cbn [firstn app plus]. eexists. reflexivity. Qed.

Section Add.
  Variable p : list N.
  Variable add : Z.
  Let old := snd (tagged_get64 p).
  Let orig := fst (tagged_get64 p).
  Let sum := (to_s64 old + add)%Z.

  Theorem tagged_add_overflow force : in_s64 sum = false -> tagged_add p add force = (0, p).
  Proof. intro H. unfold tagged_add. cbv zeta. fold old sum. rewrite H. reflexivity. Qed.

  Theorem tagged_add_nogrow_too_big : in_s64 sum = true ->
    orig < tagged_len (of_s64 sum) -> tagged_add p add false = (tagged_len (of_s64 sum), p).
  Proof.
    intros H L. unfold tagged_add. cbv zeta. fold old sum orig. rewrite H. cbn [negb].
    destruct (orig <? tagged_len (of_s64 sum)) eqn:E; [reflexivity|lia].
  Qed.

  Theorem tagged_add_stores force : in_s64 sum = true ->
    (force = true \/ tagged_len (of_s64 sum) <= orig) ->
    let nv := of_s64 sum in
    let r := tagged_add p add force in
    fst r = tagged_len nv /\ 1 <= fst r <= 9 /\
    tagged_get (snd r) 9 = (tagged_len nv, nv) /\
    skipn (N.to_nat (tagged_len nv)) (snd r) = skipn (N.to_nat (tagged_len nv)) p.
  Proof.
    intros H C. cbv zeta. unfold tagged_add. cbv zeta. fold old sum orig. rewrite H. cbn [negb].
    set (nv := of_s64 sum) in *.
    assert (Hnv : nv < 18446744073709551616).
    { subst nv. unfold of_s64. lia. }
    assert (E : (orig <? tagged_len nv) && negb force = false).
    { destruct C as [->|C]; [apply andb_false_r|]. destruct (orig <? tagged_len nv) eqn:E; [lia|reflexivity]. }
    rewrite E. cbn [fst snd]. pose proof (tagged_len_range nv) as R.
    split; [reflexivity|]. split; [exact R|]. split.
    - destruct (store_0_prefix p (tagged_put64 nv)) as [t ->].
      apply tagged_roundtrip; [exact Hnv|lia].
    - apply store_0_skipn. pose proof (tagged_put_length_nat nv). lia.
  Qed.
End Add.
