(* Properties_C13_rledict.v — property C13 (decoders never write beyond the
   caller's output capacity) for the run-length and dictionary decoders.
   A decoder's result is the sequence of values it stores at indices 0,1,2,...
   of the output array: "no store at an index >= cap" is `length stores <= cap`. *)
Require Import VV.Base VV.Tagged VV.RLE VV.RLESpec VV.RLELemmas VV.RLEProofs VV.Dict VV.DictProofs
  VV.DictSafety VV.RLEDictTheorems.
Local Open Scope N_scope.

(* varintRLEDecode on a valid encoding with capacity cap <= count stores exactly
   the first cap elements (a correct prefix; the test suite's documented
   behaviour) and nothing else *)
Theorem C13_rle_decode_prefix : forall xs tl cap,
  Forall (fun x => x < 18446744073709551616) xs -> N.of_nat (length xs) < 18446744073709551616 ->
  cap <= N.of_nat (length xs) ->
  rle_decode (fst (rle_encode xs) ++ tl) cap = RleOk (firstn (N.to_nat cap) xs) /\
  N.of_nat (length (firstn (N.to_nat cap) xs)) = cap.
Proof. exact rle_decode_prefix. Qed.
Print Assumptions C13_rle_decode_prefix.

(* on ANY input bytes (valid or hostile) varintRLEDecode stores below the
   capacity only — after the fix of the wrapping `totalDecoded + runLen`
   comparison there is no other outcome in the model *)
Theorem C13_rle_decode_cap_any_input : forall z cap,
  N.of_nat (length (rle_stores (rle_decode z cap))) <= cap.
Proof. exact rle_decode_cap. Qed.
Print Assumptions C13_rle_decode_cap_any_input.

(* varintRLEDecodeWithHeader is all-or-nothing: capacity below the stored count
   -> returns 0 without a store; otherwise the whole array *)
Theorem C13_rle_header_all_or_nothing : forall xs tl cap,
  Forall (fun x => x < 18446744073709551616) xs -> N.of_nat (length xs) < 18446744073709551616 ->
  rle_decode_with_header (fst (rle_encode_with_header xs) ++ tl) cap
  = if cap <? N.of_nat (length xs) then RleOk [] else RleOk xs.
Proof. exact rle_decode_with_header_roundtrip. Qed.
Print Assumptions C13_rle_header_all_or_nothing.

(* on ANY input bytes the header decoder stores below the capacity only *)
Theorem C13_rle_header_cap_any_input : forall z cap,
  N.of_nat (length (rle_stores (rle_decode_with_header z cap))) <= cap.
Proof. exact rle_decode_with_header_cap. Qed.
Print Assumptions C13_rle_header_cap_any_input.

(* varintDictDecodeInto is all-or-nothing on valid encodings *)
Theorem C13_dict_into_all_or_nothing : forall xs d,
  dict_build xs = DictBuildOk d -> Forall (fun x => x < 18446744073709551616) xs ->
  N.of_nat (length xs) < 18446744073709551616 ->
  forall tl cap,
  dict_dec_stores (dict_decode_into (fst (dict_encode xs) ++ tl) (N.of_nat (length (fst (dict_encode xs)))) cap)
  = if cap <? N.of_nat (length xs) then [] else xs.
Proof. exact dict_into_all_or_nothing. Qed.
Print Assumptions C13_dict_into_all_or_nothing.

(* on ANY input bytes and any declared length varintDictDecodeInto stores at
   most maxValues elements (also when it finally returns 0) *)
Theorem C13_dict_into_cap_any_input : forall z n cap,
  N.of_nat (length (dict_dec_stores (dict_decode_into z n cap))) <= cap.
Proof. exact dict_decode_into_cap. Qed.
Print Assumptions C13_dict_into_cap_any_input.

Example C13_example :
  rle_decode (fst (rle_encode [1; 1; 1; 2; 2; 2; 3; 3; 3; 4; 4; 4])) 5 = RleOk [1; 1; 1; 2; 2] /\
  rle_decode_with_header (fst (rle_encode_with_header [1; 1; 1; 2; 2; 2; 3; 3; 3; 4; 4; 4])) 5 = RleOk [] /\
  dict_decode_into (fst (dict_encode [30; 10; 20; 10; 30; 30])) 11 5 = DictNull [24].
Proof. vm_compute. repeat split; reflexivity. Qed.
