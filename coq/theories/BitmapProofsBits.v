(* BitmapProofsBits.v — the BITMAP bm_container: bit get/set/clear on the byte
   memory, the bm_ascending scan, popcount. *)
Require Import VV.Base VV.BaseProofs VV.Bitmap VV.BitmapLemmas.
From Coq Require Import Lia ZifyBool ZifyN ZifyNat Sorted FMapPositive Arith.
Local Open Scope N_scope.
Ltac Zify.zify_post_hook ::= Z.div_mod_to_equations.

(* bit v of the bm_state memory *)
Definition bit_of (m : bm_mem8) (v : N) : bool := N.testbit (bm_mget m (v / 8)) (v mod 8).
Definition bytes_in (m : bm_mem8) : Prop := forall i, bm_mget m i < 256.

Lemma bit_of_zero v : bit_of bm_mzero v = false.
Proof. unfold bit_of. rewrite mget_zero. apply N.bits_0. Qed.

Lemma bytes_in_zero : bytes_in bm_mzero.
Proof. intro i. rewrite mget_zero. lia. Qed.

Lemma bits_contains_spec m v : bm_bits_contains m v = bit_of m v.
Proof. unfold bm_bits_contains, bit_of. rewrite land_pow2_testbit, negb_involutive. reflexivity. Qed.

Lemma split8 x v : x = v <-> (x / 8 = v / 8 /\ x mod 8 = v mod 8).
Proof. lia. Qed.

Lemma bits_set_bit m v x : bit_of (fst (bm_bits_set m v)) x = (x =? v) || bit_of m x.
Proof.
  unfold bm_bits_set, bit_of. cbn [fst]. rewrite mget_mset.
  destruct (N.eqb_spec (x / 8) (v / 8)) as [E|E].
  - rewrite testbit_lor_pow2, <- E.
    destruct (N.eqb_spec (x mod 8) (v mod 8)) as [F|F], (N.eqb_spec x v) as [G|G]; try reflexivity; exfalso; lia.
  - destruct (N.eqb_spec x v) as [G|G]; [exfalso; subst; lia|reflexivity].
Qed.

Lemma bits_set_flag m v : snd (bm_bits_set m v) = negb (bit_of m v).
Proof. unfold bm_bits_set, bit_of. cbn [snd]. rewrite land_pow2_testbit, negb_involutive. reflexivity. Qed.

Lemma bits_clear_bit m v x : bit_of (fst (bm_bits_clear m v)) x = bit_of m x && negb (x =? v).
Proof.
  unfold bm_bits_clear, bit_of. cbn [fst]. rewrite mget_mset.
  destruct (N.eqb_spec (x / 8) (v / 8)) as [E|E].
  - rewrite testbit_ldiff_pow2, <- E.
    destruct (N.eqb_spec (x mod 8) (v mod 8)) as [F|F], (N.eqb_spec x v) as [G|G]; try reflexivity; exfalso; lia.
  - destruct (N.eqb_spec x v) as [G|G]; [exfalso; subst; lia|]. cbn [negb]. rewrite andb_true_r. reflexivity.
Qed.

Lemma bits_clear_flag m v : snd (bm_bits_clear m v) = bit_of m v.
Proof. unfold bm_bits_clear, bit_of. cbn [snd]. rewrite land_pow2_testbit, negb_involutive. reflexivity. Qed.

Lemma mod8_lt v : v mod 8 < 8. Proof. lia. Qed.

Lemma bits_set_bytes m v : bytes_in m -> bytes_in (fst (bm_bits_set m v)).
Proof.
  intros H i. unfold bm_bits_set. cbn [fst]. rewrite mget_mset.
  destruct (i =? v / 8); [|apply H]. apply lor_pow2_byte; [apply H|apply mod8_lt].
Qed.

Lemma bits_clear_bytes m v : bytes_in m -> bytes_in (fst (bm_bits_clear m v)).
Proof.
  intros H i. unfold bm_bits_clear. cbn [fst]. rewrite mget_mset.
  destruct (i =? v / 8); [|apply H]. apply ldiff_pow2_byte. apply H.
Qed.

(* ---- sums over index lists ---- *)
Fixpoint sumN (l : list N) : N := match l with [] => 0 | x :: t => x + sumN t end.

Lemma fold_sum {A} (f : A -> N) l a : fold_left (fun c i => c + f i) l a = a + sumN (map f l).
Proof.
  revert a. induction l as [|x l IH]; intro a; cbn [fold_left map sumN]; [lia|]. rewrite IH. lia.
Qed.

Lemma sum_update (f f' : N -> N) l i :
  NoDup l -> In i l -> (forall j, j <> i -> f' j = f j) ->
  sumN (map f' l) + f i = sumN (map f l) + f' i.
Proof.
  induction l as [|x l IH]; intros ND Hin Hf; [destruct Hin|].
  inversion ND as [|? ? Hx ND']; subst. cbn [map sumN].
  destruct Hin as [->|Hin].
  - assert (E : map f' l = map f l).
    { apply map_ext_in. intros j Hj. apply Hf. intro; subst. contradiction. }
    rewrite E. lia.
  - specialize (IH ND' Hin Hf). rewrite (Hf x) by (intro; subst; contradiction). lia.
Qed.

Lemma sum_bound (f : N -> N) l b : (forall j, In j l -> f j <= b) -> sumN (map f l) <= b * bm_lenN l.
Proof.
  induction l as [|x l IH]; intro H; cbn [map sumN]; [unfold bm_lenN; cbn; lia|].
  rewrite lenN_cons. specialize (IH (fun j Hj => H j (or_intror Hj))). specialize (H x (or_introl eq_refl)). lia.
Qed.

Lemma length_flat_map {A} (g : A -> list N) l : bm_lenN (flat_map g l) = sumN (map (fun j => bm_lenN (g j)) l).
Proof. induction l as [|x l IH]; [reflexivity|]. cbn [flat_map map sumN]. rewrite lenN_app, IH. reflexivity. Qed.

(* ---- popcount ---- *)
Definition popsum (m : bm_mem8) : N := sumN (map (fun i => bm_popcount8 (bm_mget m i)) bm_byte_idx).

Lemma popc_le k b : bm_popc k b <= N.of_nat k.
Proof.
  revert b. induction k as [|k IH]; intro b; cbn [bm_popc]; [lia|]. specialize (IH (N.div2 b)).
  destruct (N.odd b); cbn [N.b2n]; lia.
Qed.

Lemma lenN_byte_idx : bm_lenN bm_byte_idx = 8192.
Proof. rewrite byte_idx_spec. unfold bm_lenN. rewrite nseq_length. lia. Qed.

Lemma popsum_le m : popsum m <= 65536.
Proof.
  unfold popsum. pose proof (sum_bound (fun i => bm_popcount8 (bm_mget m i)) bm_byte_idx 8) as H.
  rewrite lenN_byte_idx in H. change (8 * 8192) with 65536 in H. apply H.
  intros j _. unfold bm_popcount8. pose proof (popc_le 8 (bm_mget m j)). lia.
Qed.

Lemma bitmap_cardinality_spec m : bm_bitmap_cardinality m = popsum m.
Proof.
  unfold bm_bitmap_cardinality. rewrite fold_sum, N.add_0_l. fold (popsum m).
  pose proof (popsum_le m) as H. revert H. generalize (popsum m). intros S H.
  unfold bm_u32. destruct (S <? 4294967296) eqn:E; [reflexivity|lia].
Qed.

Lemma in_byte_idx i : In i bm_byte_idx <-> i < 8192.
Proof. rewrite byte_idx_spec, in_nseq. lia. Qed.

Lemma NoDup_byte_idx : NoDup bm_byte_idx.
Proof. rewrite byte_idx_spec. apply sorted_NoDup, sorted_nseq. Qed.

Lemma popsum_set m v : v < 65536 ->
  popsum (fst (bm_bits_set m v)) = popsum m + (if bit_of m v then 0 else 1).
Proof.
  intro Hv. unfold popsum.
  pose proof (sum_update (fun i => bm_popcount8 (bm_mget m i)) (fun i => bm_popcount8 (bm_mget (fst (bm_bits_set m v)) i))
                bm_byte_idx (v / 8) NoDup_byte_idx) as H.
  cbv beta in H. rewrite in_byte_idx in H.
  assert (Hi : v / 8 < 8192) by lia. specialize (H Hi).
  assert (Hf : forall j, j <> v / 8 -> bm_popcount8 (bm_mget (fst (bm_bits_set m v)) j) = bm_popcount8 (bm_mget m j)).
  { intros j Hj. unfold bm_bits_set. cbn [fst]. rewrite mget_mset_neq by congruence. reflexivity. }
  specialize (H Hf).
  assert (E : bm_popcount8 (bm_mget (fst (bm_bits_set m v)) (v / 8))
              = bm_popcount8 (bm_mget m (v / 8)) + (if bit_of m v then 0 else 1)).
  { unfold bm_bits_set. cbn [fst]. rewrite mget_mset_eq. unfold bm_popcount8.
    rewrite popc_lor by (pose proof (mod8_lt v); lia). reflexivity. }
  rewrite E in H. clear E Hf Hi.
  revert H.
  generalize (sumN (map (fun i => bm_popcount8 (bm_mget (fst (bm_bits_set m v)) i)) bm_byte_idx)).
  generalize (sumN (map (fun i => bm_popcount8 (bm_mget m i)) bm_byte_idx)).
  generalize (bm_popcount8 (bm_mget m (v / 8))).
  intros P B A H. destruct (bit_of m v); lia.
Qed.

Lemma popsum_clear m v : v < 65536 ->
  popsum (fst (bm_bits_clear m v)) + (if bit_of m v then 1 else 0) = popsum m.
Proof.
  intro Hv. unfold popsum.
  pose proof (sum_update (fun i => bm_popcount8 (bm_mget m i)) (fun i => bm_popcount8 (bm_mget (fst (bm_bits_clear m v)) i))
                bm_byte_idx (v / 8) NoDup_byte_idx) as H.
  cbv beta in H. rewrite in_byte_idx in H.
  assert (Hi : v / 8 < 8192) by lia. specialize (H Hi).
  assert (Hf : forall j, j <> v / 8 -> bm_popcount8 (bm_mget (fst (bm_bits_clear m v)) j) = bm_popcount8 (bm_mget m j)).
  { intros j Hj. unfold bm_bits_clear. cbn [fst]. rewrite mget_mset_neq by congruence. reflexivity. }
  specialize (H Hf).
  assert (E : bm_popcount8 (bm_mget (fst (bm_bits_clear m v)) (v / 8)) + (if bit_of m v then 1 else 0)
              = bm_popcount8 (bm_mget m (v / 8))).
  { unfold bm_bits_clear. cbn [fst]. rewrite mget_mset_eq. unfold bm_popcount8.
    apply popc_ldiff. pose proof (mod8_lt v). lia. }
  clear Hf Hi.
  revert H E.
  generalize (sumN (map (fun i => bm_popcount8 (bm_mget (fst (bm_bits_clear m v)) i)) bm_byte_idx)).
  generalize (sumN (map (fun i => bm_popcount8 (bm_mget m i)) bm_byte_idx)).
  generalize (bm_popcount8 (bm_mget (fst (bm_bits_clear m v)) (v / 8))).
  generalize (bm_popcount8 (bm_mget m (v / 8))).
  intros P Q B A H E. destruct (bit_of m v); lia.
Qed.

Lemma popsum_zero : popsum bm_mzero = 0.
Proof.
  unfold popsum. assert (G : forall l, sumN (map (fun i => bm_popcount8 (bm_mget bm_mzero i)) l) = 0).
  { induction l as [|x l IH]; [reflexivity|]. cbn [map sumN]. rewrite IH, mget_zero. reflexivity. }
  apply G.
Qed.

(* ---- the bm_ascending scan ---- *)
Definition byte_list (m : bm_mem8) (j : N) : list N := bm_byte_vals 8 (j * 8) (bm_mget m j).

Lemma bits_values_alt m : bm_bits_values m = flat_map (byte_list m) bm_byte_idx.
Proof.
  unfold bm_bits_values. apply flat_map_ext. intro j. unfold byte_list.
  destruct (bm_mget m j) eqn:E; [rewrite byte_vals_0; reflexivity|reflexivity].
Qed.

Lemma in_byte_list m j x : In x (byte_list m j) <-> (x / 8 = j /\ bit_of m x = true).
Proof.
  unfold byte_list, bit_of. rewrite in_byte_vals. split.
  - intros (k & Hk & -> & T). assert (k < 8) by lia.
    replace ((j * 8 + k) / 8) with j by lia. replace ((j * 8 + k) mod 8) with k by lia. tauto.
  - intros (<- & T). exists (x mod 8). pose proof (mod8_lt x). repeat split; [lia|lia|exact T].
Qed.

Lemma in_bits_values m x : In x (bm_bits_values m) <-> (x < 65536 /\ bit_of m x = true).
Proof.
  rewrite bits_values_alt, in_flat_map. split.
  - intros (j & Hj & Hx). apply (proj1 (in_byte_idx _)) in Hj. apply (proj1 (in_byte_list _ _ _)) in Hx. destruct Hx as [<- T]. split; [lia|exact T].
  - intros (Hx & T). exists (x / 8). split; [apply (proj2 (in_byte_idx _)); lia|apply (proj2 (in_byte_list _ _ _)); tauto].
Qed.

Lemma sorted_byte_vals k base b : sorted (bm_byte_vals k base b).
Proof.
  revert base b. induction k as [|k IH]; intros base b; cbn [bm_byte_vals]; [constructor|].
  apply sorted_app; [destruct (N.odd b); [apply sorted_single|constructor]|apply IH|].
  intros x y Hx Hy. destruct (N.odd b); [|destruct Hx]. destruct Hx as [<-|[]].
  apply in_byte_vals in Hy. destruct Hy as (j & _ & -> & _). lia.
Qed.

Lemma sorted_flat_map (g : N -> list N) l :
  sorted l -> (forall j, sorted (g j)) -> (forall j x, In x (g j) -> x / 8 = j) -> sorted (flat_map g l).
Proof.
  intros S Hg Hk. induction l as [|j l IH]; [constructor|].
  destruct (sorted_cons_inv _ _ S) as [S' Hj]. cbn [flat_map].
  apply sorted_app; [apply Hg|apply IH; exact S'|].
  intros x y Hx Hy. apply in_flat_map in Hy. destruct Hy as (j' & Hj' & Hy).
  apply Hk in Hx. apply Hk in Hy. specialize (Hj _ Hj'). lia.
Qed.

Lemma sorted_bits_values m : sorted (bm_bits_values m).
Proof.
  rewrite bits_values_alt. apply sorted_flat_map.
  - rewrite byte_idx_spec. apply sorted_nseq.
  - intro j. apply sorted_byte_vals.
  - intros j x Hx. apply in_byte_list in Hx. tauto.
Qed.

Lemma length_bits_values m : bm_lenN (bm_bits_values m) = popsum m.
Proof.
  rewrite bits_values_alt, length_flat_map. unfold popsum. f_equal. apply map_ext. intro j.
  unfold byte_list. apply length_byte_vals.
Qed.

(* ---- bm_set_all ---- *)
Lemma set_all_bit l m x : bit_of (bm_set_all m l) x = existsb (N.eqb x) l || bit_of m x.
Proof.
  revert m. induction l as [|v l IH]; intro m; [reflexivity|].
  unfold bm_set_all in *. cbn [fold_left existsb]. rewrite IH, bits_set_bit.
  destruct (x =? v), (existsb (N.eqb x) l), (bit_of m x); reflexivity.
Qed.

Lemma set_all_bytes l m : bytes_in m -> bytes_in (bm_set_all m l).
Proof.
  revert m. induction l as [|v l IH]; intros m H; [exact H|].
  unfold bm_set_all in *. cbn [fold_left]. apply IH. apply bits_set_bytes. exact H.
Qed.

Lemma existsb_eqb_in x l : existsb (N.eqb x) l = true <-> In x l.
Proof.
  rewrite existsb_exists. split.
  - intros (y & Hy & E). apply N.eqb_eq in E. subst. exact Hy.
  - intro H. exists x. split; [exact H|apply N.eqb_refl].
Qed.

Lemma popsum_set_all l m : NoDup l -> (forall v, In v l -> v < 65536 /\ bit_of m v = false) ->
  popsum (bm_set_all m l) = popsum m + bm_lenN l.
Proof.
  revert m. induction l as [|v l IH]; intros m ND H.
  - unfold bm_lenN. cbn. lia.
  - inversion ND as [|? ? Hv ND']; subst. unfold bm_set_all in *. cbn [fold_left].
    rewrite IH; [|exact ND'|].
    + destruct (H v (or_introl eq_refl)) as [Hlt Hb]. rewrite popsum_set by exact Hlt. rewrite Hb, lenN_cons. lia.
    + intros w Hw. destruct (H w (or_intror Hw)) as [Hlt Hb]. split; [exact Hlt|].
      rewrite bits_set_bit, Hb. destruct (N.eqb_spec w v); [subst; contradiction|reflexivity].
Qed.

Global Opaque bm_bits_values.
