(* SplitDefined.v — exactly which type bytes make the decoders reach the
   undefined external widths (the set the C driver refuses to execute). *)
Require Import VV.Base VV.BaseProofs VV.Split VV.SplitLemmas.
From Coq Require Import Lia ZifyBool ZifyN ZifyNat.
Local Open Scope N_scope.
Ltac Zify.zify_post_hook ::= Z.div_mod_to_equations.

Lemma ext_get_qm_undefined z off w : w = 0 \/ 8 < w -> ext_get_quick_medium z off w = None.
Proof.
  intros [->|H]; [reflexivity|].
  destruct w as [|p]; [lia|].
  unfold ext_get_quick_medium, split_ext_get.
  do 4 (destruct p as [p|p|]; try lia); reflexivity.
Qed.

Lemma ext_get_qm_defined z off w : 1 <= w <= 8 -> ext_get_quick_medium z off w <> None.
Proof.
  intro H.
  assert (C : w = 1 \/ w = 2 \/ w = 3 \/ w = 4 \/ w = 5 \/ w = 6 \/ w = 7 \/ w = 8) by lia.
  destruct C as [C|[C|[C|[C|[C|[C|[C|C]]]]]]]; subst w; discriminate.
Qed.

(* the driver's split_type_ub / split16_type_ub predicates *)
Definition split_type_ub (b0 : N) : bool :=
  (b0 / 64 =? 2) && ((b0 mod 64 <? 1) || (8 <? b0 mod 64)).
Definition split16_type_ub (b0 : N) : bool :=
  (b0 / 64 =? 3) && ((b0 mod 16 <? 1) || (8 <? b0 mod 16)).

Theorem split_get_undefined_iff z p : byte_atz z p < 256 ->
  (split_get_at z p = None <-> split_type_ub (byte_atz z p) = true).
Proof.
  intro Hb. unfold split_get_at, split_type_ub. cbv zeta.
  set (b0 := byte_atz z p) in *.
  unfold split_width_ext, split_encoding2, SPLIT_MASK, SPLIT_6, SPLIT_14, SPLIT_VAR.
  rewrite land192 by exact Hb.
  destruct (64 * (b0 / 64) =? 0) eqn:E0; [split; [discriminate|lia]|].
  destruct (64 * (b0 / 64) =? 64) eqn:E1; [split; [discriminate|lia]|].
  destruct (64 * (b0 / 64) =? 128) eqn:E2; [|split; [discriminate|lia]].
  replace (1 + (b0 - 64 * (b0 / 64)) - 1) with (b0 mod 64) by lia.
  destruct (N.le_gt_cases 1 (b0 mod 64)) as [L|L].
  - destruct (N.le_gt_cases (b0 mod 64) 8) as [U|U].
    + pose proof (ext_get_qm_defined z (p + 1) (b0 mod 64) (conj L U)) as D.
      destruct (ext_get_quick_medium z (p + 1) (b0 mod 64)); [split; [discriminate|lia]|congruence].
    + rewrite ext_get_qm_undefined by lia. split; [lia|reflexivity].
  - rewrite ext_get_qm_undefined by lia. split; [lia|reflexivity].
Qed.

Theorem split_rev_get_undefined_iff z p : byte_atz z p < 256 ->
  (split_rev_get_at z p = None <-> split_type_ub (byte_atz z p) = true).
Proof.
  intro Hb. unfold split_rev_get_at, split_type_ub. cbv zeta.
  set (b0 := byte_atz z p) in *.
  unfold split_width_ext, split_encoding2, SPLIT_MASK, SPLIT_6, SPLIT_14, SPLIT_VAR.
  rewrite land192 by exact Hb.
  destruct (64 * (b0 / 64) =? 0) eqn:E0; [split; [discriminate|lia]|].
  destruct (64 * (b0 / 64) =? 64) eqn:E1; [split; [discriminate|lia]|].
  destruct (64 * (b0 / 64) =? 128) eqn:E2; [|split; [discriminate|lia]].
  replace (b0 - 64 * (b0 / 64)) with (b0 mod 64) by lia.
  destruct (N.le_gt_cases 1 (b0 mod 64)) as [L|L].
  - destruct (N.le_gt_cases (b0 mod 64) 8) as [U|U].
    + pose proof (ext_get_qm_defined z (p - Z.of_N (b0 mod 64)) (b0 mod 64) (conj L U)) as D.
      destruct (ext_get_quick_medium z (p - Z.of_N (b0 mod 64)) (b0 mod 64));
        [split; [discriminate|lia]|congruence].
    + rewrite ext_get_qm_undefined by lia. split; [lia|reflexivity].
  - rewrite ext_get_qm_undefined by lia. split; [lia|reflexivity].
Qed.

Theorem split16_get_undefined_iff z p : byte_atz z p < 256 ->
  (split16_get_at z p = None <-> split16_type_ub (byte_atz z p) = true).
Proof.
  intro Hb. unfold split16_get_at, split16_type_ub. cbv zeta. rewrite Z.add_0_r.
  set (b0 := byte_atz z p) in *.
  unfold split16_width_ext, split16_encoding2, SPLIT16_MASK, SPLIT16_14, SPLIT16_22, SPLIT16_30, SPLIT16_VAR.
  rewrite land192 by exact Hb. rewrite land15.
  destruct (64 * (b0 / 64) =? 0) eqn:E0; [split; [discriminate|lia]|].
  destruct (64 * (b0 / 64) =? 64) eqn:E1; [split; [discriminate|lia]|].
  destruct (64 * (b0 / 64) =? 128) eqn:E2; [split; [discriminate|lia]|].
  destruct (64 * (b0 / 64) =? 192) eqn:E3; [|split; [discriminate|lia]].
  replace (1 + b0 mod 16 - 1) with (b0 mod 16) by lia.
  destruct (N.le_gt_cases 1 (b0 mod 16)) as [L|L].
  - destruct (N.le_gt_cases (b0 mod 16) 8) as [U|U].
    + pose proof (ext_get_qm_defined z (p + 1) (b0 mod 16) (conj L U)) as D.
      destruct (ext_get_quick_medium z (p + 1) (b0 mod 16)); [split; [discriminate|lia]|congruence].
    + rewrite ext_get_qm_undefined by lia. split; [lia|reflexivity].
  - rewrite ext_get_qm_undefined by lia. split; [lia|reflexivity].
Qed.
