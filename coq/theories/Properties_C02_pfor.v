(* Properties_C02_pfor.v — property C02 for varintPFOR: decoding the encoder's
   output yields the input (both entry paths of varintPFORDecode), the decoder
   reads only the bytes the encoder wrote (a read past them is the outcome
   POob of the model; bytes after them are ignored), varintPFORGetAt returns the
   element at each index.  For EVERY threshold value (90/95/99 included), every
   array of 64-bit values with 1 <= length < 2^32.
   Nothing but statements closed by `exact`, each followed by Print Assumptions. *)
Require Import VV.Base VV.Tagged VV.PFOR VV.PFORTheorems VV.PFORProofsFuel VVgen.Consts.
Local Open Scope N_scope.

(* decode (encode xs) = xs; header parsed by the decoder (meta->width == 0) *)
Theorem C02_pfor_roundtrip : forall xs thr m0,
  (1 <= length xs)%nat -> N.of_nat (length xs) < 4294967296 ->
  Forall (fun x => x < 18446744073709551616) xs -> pm_width m0 = 0 ->
  exists m', pfor_decode (pfor_encode_bytes xs thr) m0 = POk (xs, m').
Proof. exact pfor_roundtrip_exact. Qed.
Print Assumptions C02_pfor_roundtrip.

(* whatever follows the encoding is not looked at *)
Theorem C02_pfor_roundtrip_suffix : forall xs thr tl m0,
  (1 <= length xs)%nat -> N.of_nat (length xs) < 4294967296 ->
  Forall (fun x => x < 18446744073709551616) xs -> pm_width m0 = 0 ->
  exists m', pfor_decode (pfor_encode_bytes xs thr ++ tl) m0 = POk (xs, m').
Proof. exact pfor_roundtrip_fresh. Qed.
Print Assumptions C02_pfor_roundtrip_suffix.

(* decode with the metadata the encoder filled in (meta->width != 0) *)
Theorem C02_pfor_roundtrip_meta : forall xs thr tl,
  (1 <= length xs)%nat -> N.of_nat (length xs) < 4294967296 ->
  Forall (fun x => x < 18446744073709551616) xs ->
  pfor_decode (pfor_encode_bytes xs thr ++ tl) (pfor_encode_meta xs thr)
  = POk (xs, pfor_encode_meta xs thr).
Proof. exact pfor_roundtrip_meta. Qed.
Print Assumptions C02_pfor_roundtrip_meta.

(* random access with the encoder's metadata *)
Theorem C02_pfor_get_at : forall xs thr i,
  (1 <= length xs)%nat -> N.of_nat (length xs) < 4294967296 ->
  Forall (fun x => x < 18446744073709551616) xs -> (i < length xs)%nat ->
  pfor_get_at (pfor_encode_bytes xs thr) (N.of_nat i) (pfor_encode_meta xs thr) = POk (nth i xs 0).
Proof. exact pfor_get_at_exact. Qed.
Print Assumptions C02_pfor_get_at.

(* random access with the metadata read back from the header *)
Theorem C02_pfor_get_at_read_meta : forall xs thr tl i m0 h rm,
  (1 <= length xs)%nat -> N.of_nat (length xs) < 4294967296 ->
  Forall (fun x => x < 18446744073709551616) xs -> (i < length xs)%nat ->
  pfor_read_meta (pfor_encode_bytes xs thr ++ tl) m0 = POk (h, rm) ->
  pfor_get_at (pfor_encode_bytes xs thr ++ tl) (N.of_nat i) rm = POk (nth i xs 0).
Proof. exact pfor_get_at_read_meta. Qed.
Print Assumptions C02_pfor_get_at_read_meta.

(* adequacy of the model's fuel: on EVERY byte string (valid or not) and every
   caller metadata the decoder loops end by themselves, never by exhausting the
   fuel (the input length) *)
Theorem C02_pfor_decode_fuel_suffices : forall z m,
  bytes_ok z -> pfor_decode z m <> PFuel.
Proof. exact pfor_decode_no_fuel. Qed.
Print Assumptions C02_pfor_decode_fuel_suffices.

Theorem C02_pfor_get_at_fuel_suffices : forall z i m,
  bytes_ok z -> pfor_get_at z i m <> PFuel.
Proof. exact pfor_get_at_no_fuel. Qed.
Print Assumptions C02_pfor_get_at_fuel_suffices.

(* non-vacuity: the former marker-collision witness (F04) and an outlier, at
   the header's thresholds *)
Example C02_pfor_example :
  pfor_decode (pfor_encode_bytes [0; 255] VARINT_PFOR_THRESHOLD_95) pfor_meta_zero
    = POk ([0; 255], mk_pfor_meta 0 255 0 1 2 1 95) /\
  pfor_get_at (pfor_encode_bytes [0; 255] VARINT_PFOR_THRESHOLD_95) 1
    (pfor_encode_meta [0; 255] VARINT_PFOR_THRESHOLD_95) = POk 255 /\
  fst (match pfor_decode (pfor_encode_bytes [5; 6; 7; 8; 9; 5; 6; 7; 8; 18446744073709551615]
                            VARINT_PFOR_THRESHOLD_90) pfor_meta_zero with
       | POk r => r | _ => ([], pfor_meta_zero) end)
    = [5; 6; 7; 8; 9; 5; 6; 7; 8; 18446744073709551615] /\
  pm_exc (pfor_encode_meta [5; 6; 7; 8; 9; 5; 6; 7; 8; 18446744073709551615] VARINT_PFOR_THRESHOLD_99) = 0.
Proof. vm_compute. repeat split; reflexivity. Qed.
