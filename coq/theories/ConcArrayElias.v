(* ConcArrayElias.v — C17 instances for the Elias gamma array codec
   (Elias.v).  Footprints: C03_gamma_encode_bound (the call touches exactly
   the varintEliasGammaMaxBytes(count) bytes its varintBitWriterInit zeroes),
   C13_gamma_capacity (at most maxCount stores). *)
Require Import VV.Conc VV.ConcProofs VV.ConcCodec VV.ConcCodec2 VV.ConcArray.
Require Import VV.Base VV.BaseProofs VV.EliasBits VV.Elias VV.EliasSpec VV.EliasProofs.
From Coq Require Import List NArith Arith Lia Bool.
Import ListNotations.
Local Open Scope N_scope.

(* ---------------- varintEliasGammaEncodeArray(dst, values, count, &meta) ----------------
   values: n uint64_t cells at src (shared), every one >= 1 (the documented
   domain of the code; a call outside it is not modelled: result [0], no
   write).  The call leaves dst[0 .. ret) = the code bytes and the rest of the
   MaxBytes(count) bytes it memset to 0; result [1; ret; totalBits]. *)
Definition gamma_enc_fn (vs : list N) : list N * list N :=
  let xs := map u64 vs in
  if forallb (fun x => 1 <=? x) xs then
    let e := elias_gamma_encode_array xs in
    (ee_bytes e ++ repeat 0 (N.to_nat (ee_extent e - ee_ret e)), [1; ee_ret e; ee_totalBits e])
  else ([], [0]).

Lemma gamma_enc_fn_bound vs : N.of_nat (length vs) < 144115188075855872 ->
  (length (fst (gamma_enc_fn vs)) <= N.to_nat (elias_gamma_max_bytes (N.of_nat (length vs))))%nat.
Proof.
  intro Hn. unfold gamma_enc_fn. cbv zeta.
  destruct (forallb (fun x => 1 <=? x) (map u64 vs)) eqn:G; cbn [fst length]; [|lia].
  assert (OK : Forall elias_ok (map u64 vs)).
  { apply Forall_forall. intros x Hx. pose proof (proj1 (forallb_forall _ _) G x Hx) as H1.
    apply in_map_iff in Hx. destruct Hx as (y & <- & _). pose proof (u64_lt y).
    unfold elias_ok. apply N.leb_le in H1. lia. }
  assert (CO : count_ok (map u64 vs)) by (unfold count_ok; rewrite map_length; exact Hn).
  destruct (gamma_encode_bound (map u64 vs) OK CO) as (E1 & _ & E3 & E4).
  rewrite map_length in E1, E3. rewrite app_length, repeat_length. lia.
Qed.

Theorem gamma_encode_threads_safe (ps : list io) (m0 : mem) :
  (forall p, In p ps -> N.of_nat (io_n p) < 144115188075855872) ->
  (forall i j pi pj, i <> j -> nth_error ps i = Some pi -> nth_error ps j = Some pj ->
     forall l, in_range (io_dst pj) (N.to_nat (elias_gamma_max_bytes (N.of_nat (io_n pj)))) l ->
       ~ in_range (io_dst pi) (N.to_nat (elias_gamma_max_bytes (N.of_nat (io_n pi)))) l /\
       ~ in_range (io_src pi) (io_n pi) l) ->
  forall sched,
  let ths := map (fun p => prog1 (io_src p) (io_n p) (io_dst p) gamma_enc_fn) ps in
  ~ races (snd (crun sched (m0, ths))) /\
  forall i p r, nth_error ps i = Some p ->
    nth_error (snd (crun sched (m0, ths))) i = Some (Ret r) ->
    let res := gamma_enc_fn (peek m0 (io_src p) (io_n p)) in
    r = snd res /\
    forall j, (j < length (fst res))%nat ->
      fst (crun sched (m0, ths)) (io_dst p + N.of_nat j) = nth j (fst res) 0.
Proof.
  intros V AP sched.
  refine (family1_safe io io_src io_n io_dst
            (fun p => N.to_nat (elias_gamma_max_bytes (N.of_nat (io_n p))))
            (fun _ => gamma_enc_fn) ps m0 _ AP sched).
  intros p Hp bs Hl. rewrite <- Hl. apply gamma_enc_fn_bound. rewrite Hl. apply V. exact Hp.
Qed.

(* ---------------- varintEliasGammaDecodeArray(src, srcBits, values, maxCount) ----------------
   the code bytes: n byte cells at src (shared); srcBits and maxCount are
   arguments; output: at most maxCount uint64_t cells; result [count] *)
Definition gamma_dec_fn (bc : N * nat) (bs : list N) : list N * list N :=
  (elias_gamma_decode_array bs (fst bc) (snd bc),
   [N.of_nat (length (elias_gamma_decode_array bs (fst bc) (snd bc)))]).

Theorem gamma_decode_threads_safe (ps : list (io * (N * nat))) (m0 : mem) :
  (forall i j pi pj, i <> j -> nth_error ps i = Some pi -> nth_error ps j = Some pj ->
     forall l, in_range (io_dst (fst pj)) (snd (snd pj)) l ->
       ~ in_range (io_dst (fst pi)) (snd (snd pi)) l /\
       ~ in_range (io_src (fst pi)) (io_n (fst pi)) l) ->
  forall sched,
  let ths := map (fun p => prog1 (io_src (fst p)) (io_n (fst p)) (io_dst (fst p)) (gamma_dec_fn (snd p))) ps in
  ~ races (snd (crun sched (m0, ths))) /\
  forall i p r, nth_error ps i = Some p ->
    nth_error (snd (crun sched (m0, ths))) i = Some (Ret r) ->
    let res := gamma_dec_fn (snd p) (peek m0 (io_src (fst p)) (io_n (fst p))) in
    r = snd res /\
    forall j, (j < length (fst res))%nat ->
      fst (crun sched (m0, ths)) (io_dst (fst p) + N.of_nat j) = nth j (fst res) 0.
Proof.
  intros AP sched.
  refine (family1_safe (io * (N * nat)) (fun p => io_src (fst p)) (fun p => io_n (fst p))
            (fun p => io_dst (fst p)) (fun p => snd (snd p))
            (fun p => gamma_dec_fn (snd p)) ps m0 _ AP sched).
  intros p _ bs _. unfold gamma_dec_fn. cbn [fst].
  exact (proj1 (gamma_decode_capacity bs (fst (snd p)) (snd (snd p)))).
Qed.

(* ---------------- the Elias delta array codec: same shape, MaxBytes = ceil(76 count / 8)
   (C03_delta_encode_bound, C13_delta_capacity) ---------------- *)
Definition elias_delta_enc_fn (vs : list N) : list N * list N :=
  let xs := map u64 vs in
  if forallb (fun x => 1 <=? x) xs then
    let e := elias_delta_encode_array xs in
    (ee_bytes e ++ repeat 0 (N.to_nat (ee_extent e - ee_ret e)), [1; ee_ret e; ee_totalBits e])
  else ([], [0]).

Lemma elias_delta_enc_fn_bound vs : N.of_nat (length vs) < 144115188075855872 ->
  (length (fst (elias_delta_enc_fn vs)) <= N.to_nat (elias_delta_max_bytes (N.of_nat (length vs))))%nat.
Proof.
  intro Hn. unfold elias_delta_enc_fn. cbv zeta.
  destruct (forallb (fun x => 1 <=? x) (map u64 vs)) eqn:G; cbn [fst length]; [|lia].
  assert (OK : Forall elias_ok (map u64 vs)).
  { apply Forall_forall. intros x Hx. pose proof (proj1 (forallb_forall _ _) G x Hx) as H1.
    apply in_map_iff in Hx. destruct Hx as (y & <- & _). pose proof (u64_lt y).
    unfold elias_ok. apply N.leb_le in H1. lia. }
  assert (CO : count_ok (map u64 vs)) by (unfold count_ok; rewrite map_length; exact Hn).
  destruct (delta_encode_bound (map u64 vs) OK CO) as (E1 & _ & E3 & E4).
  rewrite map_length in E1, E3. rewrite app_length, repeat_length. lia.
Qed.

Theorem elias_delta_encode_threads_safe (ps : list io) (m0 : mem) :
  (forall p, In p ps -> N.of_nat (io_n p) < 144115188075855872) ->
  (forall i j pi pj, i <> j -> nth_error ps i = Some pi -> nth_error ps j = Some pj ->
     forall l, in_range (io_dst pj) (N.to_nat (elias_delta_max_bytes (N.of_nat (io_n pj)))) l ->
       ~ in_range (io_dst pi) (N.to_nat (elias_delta_max_bytes (N.of_nat (io_n pi)))) l /\
       ~ in_range (io_src pi) (io_n pi) l) ->
  forall sched,
  let ths := map (fun p => prog1 (io_src p) (io_n p) (io_dst p) elias_delta_enc_fn) ps in
  ~ races (snd (crun sched (m0, ths))) /\
  forall i p r, nth_error ps i = Some p ->
    nth_error (snd (crun sched (m0, ths))) i = Some (Ret r) ->
    let res := elias_delta_enc_fn (peek m0 (io_src p) (io_n p)) in
    r = snd res /\
    forall j, (j < length (fst res))%nat ->
      fst (crun sched (m0, ths)) (io_dst p + N.of_nat j) = nth j (fst res) 0.
Proof.
  intros V AP sched.
  refine (family1_safe io io_src io_n io_dst
            (fun p => N.to_nat (elias_delta_max_bytes (N.of_nat (io_n p))))
            (fun _ => elias_delta_enc_fn) ps m0 _ AP sched).
  intros p Hp bs Hl. rewrite <- Hl. apply elias_delta_enc_fn_bound. rewrite Hl. apply V. exact Hp.
Qed.

Definition elias_delta_dec_fn (bc : N * nat) (bs : list N) : list N * list N :=
  (elias_delta_decode_array bs (fst bc) (snd bc),
   [N.of_nat (length (elias_delta_decode_array bs (fst bc) (snd bc)))]).

Theorem elias_delta_decode_threads_safe (ps : list (io * (N * nat))) (m0 : mem) :
  (forall i j pi pj, i <> j -> nth_error ps i = Some pi -> nth_error ps j = Some pj ->
     forall l, in_range (io_dst (fst pj)) (snd (snd pj)) l ->
       ~ in_range (io_dst (fst pi)) (snd (snd pi)) l /\
       ~ in_range (io_src (fst pi)) (io_n (fst pi)) l) ->
  forall sched,
  let ths := map (fun p => prog1 (io_src (fst p)) (io_n (fst p)) (io_dst (fst p)) (elias_delta_dec_fn (snd p))) ps in
  ~ races (snd (crun sched (m0, ths))) /\
  forall i p r, nth_error ps i = Some p ->
    nth_error (snd (crun sched (m0, ths))) i = Some (Ret r) ->
    let res := elias_delta_dec_fn (snd p) (peek m0 (io_src (fst p)) (io_n (fst p))) in
    r = snd res /\
    forall j, (j < length (fst res))%nat ->
      fst (crun sched (m0, ths)) (io_dst (fst p) + N.of_nat j) = nth j (fst res) 0.
Proof.
  intros AP sched.
  refine (family1_safe (io * (N * nat)) (fun p => io_src (fst p)) (fun p => io_n (fst p))
            (fun p => io_dst (fst p)) (fun p => snd (snd p))
            (fun p => elias_delta_dec_fn (snd p)) ps m0 _ AP sched).
  intros p _ bs _. unfold elias_delta_dec_fn. cbn [fst].
  exact (proj1 (delta_decode_capacity bs (fst (snd p)) (snd (snd p)))).
Qed.
