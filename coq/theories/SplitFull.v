(* SplitFull.v — Gallina model of the macro families of
   /repo/src/varintSplitFull.h and /repo/src/varintSplitFullNoZero.h
   (default build: VARINT_SPLIT_FULL[_NO_ZERO]_USE_MAXIMUM_RANGE not defined),
   together with the three macros of varintExternal.h / the function of
   varintExternal.c they expand to.  One definition per macro, same case
   structure, explicit truncations.  No proofs here. *)
Require Import VV.Base.
Local Open Scope N_scope.

(* ------------------------------------------------------------------ *)
(* varintExternal.h pieces used by the split-full macros               *)
(* ------------------------------------------------------------------ *)

(* varintExternalUnsignedEncoding(value, encoding): Base.ext_width (nat). *)

(* varintExternalPutFixedWidthQuickMedium_(dst, val, encoding): the bytes
   written at dst[0..encoding-1].
     case 24B / 16B : explicit shifts and masks;
     default        : varintExternalPutFixedWidth -> (little-endian host)
                      varintExternalCopyToEncodingLittleEndian_(dst, &v, w),
                      which copies bytes 0..w-1 of v for w in {1,4,5,6,7,8}.
   Widths 0 and > 8 hit `assert(NULL); __builtin_unreachable()` / read past
   the 8 bytes of v; the split-full encoders only pass w in 2..8
   (SplitFullProofs.sf_length_var_range), so the default arm is le_bytes. *)
Definition sf_ext_put_medium (v : N) (w : N) : list N :=
  match w with
  | 3 => [N.land v 255; N.land (shr v 8) 255; N.land (shr v 16) 255]
  | 2 => [N.land v 255; N.land (shr v 8) 255]
  | _ => le_bytes (N.to_nat w) v
  end.

(* varintExternalGetQuickMedium_(src, width, result); src[i] is `rd i`.
     case 24B / 16B : shifts and ors of uint64_t;
     default        : varintExternalGet -> LoadFromEncodingLittleEndian_:
                      result = 0; copy w bytes into it, w in {1,4,..,8}.
   None = undefined behaviour in C: width 0 reaches
   `assert(NULL); __builtin_unreachable()`, widths 9..15 store dst[8..14]
   past the 8-byte `result` (the width is a 4-bit field of the input). *)
Definition sf_ext_get_medium (rd : nat -> N) (w : N) : option N :=
  match w with
  | 3 => Some (N.lor (N.lor (shl64 (rd 2%nat) 16) (shl64 (rd 1%nat) 8)) (rd 0%nat))
  | 2 => Some (N.lor (shl64 (rd 1%nat) 8) (rd 0%nat))
  | 1 | 4 | 5 | 6 | 7 | 8 => Some (of_le (map rd (seq 0 (N.to_nat w))))
  | _ => None
  end.

(* ------------------------------------------------------------------ *)
(* varintSplitFull.h                                                   *)
(* ------------------------------------------------------------------ *)

Definition SF_MASK   : N := 192.  (* VARINT_SPLIT_FULL_MASK 0xc0 *)
Definition SF_6_MASK : N := 63.   (* VARINT_SPLIT_FULL_6_MASK 0x3f *)
Definition SF_MAX_6  : N := 63.                   (* 0x3f *)
Definition SF_MAX_14 : N := SF_MAX_6 + 16383.     (* MAX_6 + 0x3fff *)
Definition SF_MAX_22 : N := SF_MAX_14 + 4194303.  (* MAX_14 + 0x3fffff *)
Definition SF_TAG_6   : N := 0.    (* VARINT_SPLIT_FULL_6   0x00 *)
Definition SF_TAG_14  : N := 64.   (* VARINT_SPLIT_FULL_14  0x40 *)
Definition SF_TAG_22  : N := 128.  (* VARINT_SPLIT_FULL_22  0x80 *)
Definition SF_TAG_VAR : N := 192.  (* VARINT_SPLIT_FULL_VAR 0xc0 *)

(* varintSplitFullLengthVAR_ (the #else variant: never shrink).  The value
   assigned to encodedLen is (uint8_t)(1 + width). *)
Definition sf_length_var (v : N) : N :=
  let vl := ext_width v in
  if (vl =? 1)%nat then u8 (1 + 2) else u8 (1 + N.of_nat vl).

(* varintSplitFullLength_ ; (_val) - MAX_22 is evaluated under the guard
   _val > MAX_22. *)
Definition sf_length (x : N) : N :=
  if x <=? SF_MAX_6 then 1 + 0
  else if x <=? SF_MAX_14 then 1 + 1
  else if x <=? SF_MAX_22 then 1 + 2
  else sf_length_var (x - SF_MAX_22).

(* varintSplitFullPut_ : the bytes written at dst[0..]; their number is the
   value left in encodedLen. *)
Definition sf_put (x : N) : list N :=
  if x <=? SF_MAX_6 then [u8 (N.lor SF_TAG_6 x)]
  else if x <=? SF_MAX_14 then
    let v := x - SF_MAX_6 in
    [u8 (N.lor SF_TAG_14 (N.land (shr v 8) SF_6_MASK)); u8 (N.land v 255)]
  else if x <=? SF_MAX_22 then
    let v := x - SF_MAX_14 in
    [u8 (N.lor SF_TAG_22 (N.land (shr v 16) SF_6_MASK)); u8 (N.land (shr v 8) 255);
     u8 (N.land v 255)]
  else
    let v := x - SF_MAX_22 in
    let len := sf_length_var v in
    let w := len - 1 in
    u8 (N.lor SF_TAG_VAR w) :: sf_ext_put_medium v w.

(* varintSplitFullEncoding2_ / varintSplitFullEncodingWidthBytesExternal_ *)
Definition sf_encoding2 (b0 : N) : N := N.land b0 SF_MASK.
Definition sf_width_external (b0 : N) : N := N.land b0 15.

(* varintSplitFullGetLenQuick_ *)
Definition sf_getlen_quick (z : list N) : N :=
  let b0 := byte_at z 0 in
  1 + (if sf_encoding2 b0 =? SF_TAG_VAR then sf_width_external b0 else shr b0 6).

(* varintSplitFullGetLen_ *)
Definition sf_getlen (z : list N) : N :=
  let b0 := byte_at z 0 in
  let e := sf_encoding2 b0 in
  if e =? SF_TAG_6 then 1 + 0
  else if e =? SF_TAG_14 then 1 + 1
  else if e =? SF_TAG_22 then 1 + 2
  else if e =? SF_TAG_VAR then 1 + sf_width_external b0
  else 0.

(* varintSplitFullGet_ : Some (valsize, val); None = the external read is
   undefined (width field 0 or 9..15).  `default: valsize = val = 0`. *)
Definition sf_get (z : list N) : option (N * N) :=
  let b i := byte_at z i in
  let e := sf_encoding2 (b 0%nat) in
  if e =? SF_TAG_6 then Some (1 + 0, N.land (b 0%nat) SF_6_MASK)
  else if e =? SF_TAG_14 then
    Some (1 + 1, add64 (N.lor (shl64 (N.land (b 0%nat) SF_6_MASK) 8) (b 1%nat)) SF_MAX_6)
  else if e =? SF_TAG_22 then
    Some (1 + 2, add64 (N.lor (N.lor (shl64 (N.land (b 0%nat) SF_6_MASK) 16)
                                     (shl64 (b 1%nat) 8)) (b 2%nat)) SF_MAX_14)
  else if e =? SF_TAG_VAR then
    let w := sf_width_external (b 0%nat) in
    match sf_ext_get_medium (fun i => b (1 + i)%nat) w with
    | Some v => Some (1 + w, add64 v SF_MAX_22)
    | None => None
    end
  else Some (0, 0).

(* varintSplitFullReversedPutReversed_(dst, len, val) writes dst[0], dst[-1],
   ... dst[-(len-1)].  Result: the bytes in memory order (lowest address
   first) and the index of dst[0] in that list. *)
Definition sf_rev_put_reversed (x : N) : list N * nat :=
  if x <=? SF_MAX_6 then ([u8 (N.lor SF_TAG_6 x)], 0%nat)
  else if x <=? SF_MAX_14 then
    let v := x - SF_MAX_6 in
    ([u8 (N.land v 255); u8 (N.lor SF_TAG_14 (N.land (shr v 8) SF_6_MASK))], 1%nat)
  else if x <=? SF_MAX_22 then
    let v := x - SF_MAX_14 in
    ([u8 (N.land v 255); u8 (N.land (shr v 8) 255);
      u8 (N.lor SF_TAG_22 (N.land (shr v 16) SF_6_MASK))], 2%nat)
  else
    let v := x - SF_MAX_22 in
    let len := sf_length_var v in
    let w := len - 1 in
    (sf_ext_put_medium v w ++ [u8 (N.lor SF_TAG_VAR w)], N.to_nat w).

(* varintSplitFullReversedPutForward_(dst, len, val) writes dst[0..len-1],
   type byte last. *)
Definition sf_rev_put_forward (x : N) : list N :=
  if x <=? SF_MAX_6 then [u8 (N.lor SF_TAG_6 x)]
  else if x <=? SF_MAX_14 then
    let v := x - SF_MAX_6 in
    [u8 (N.land v 255); u8 (N.lor SF_TAG_14 (N.land (shr v 8) SF_6_MASK))]
  else if x <=? SF_MAX_22 then
    let v := x - SF_MAX_14 in
    [u8 (N.land v 255); u8 (N.land (shr v 8) 255);
     u8 (N.lor SF_TAG_22 (N.land (shr v 16) SF_6_MASK))]
  else
    let v := x - SF_MAX_22 in
    let len := sf_length_var v in
    let w := len - 1 in
    sf_ext_put_medium v w ++ [u8 (N.lor SF_TAG_VAR w)].

(* varintSplitFullReversedGet_(ptr, valsize, val).  `zr` is the memory seen
   from ptr downwards: byte_at zr i = ptr[-i].  The external read starts at
   ptr - width, so its src[i] is ptr[-(width - i)]. *)
Definition sf_rev_get_r (zr : list N) : option (N * N) :=
  let b i := byte_at zr i in
  let e := sf_encoding2 (b 0%nat) in
  if e =? SF_TAG_6 then Some (1 + 0, N.land (b 0%nat) SF_6_MASK)
  else if e =? SF_TAG_14 then
    Some (1 + 1, add64 (N.lor (shl64 (N.land (b 0%nat) SF_6_MASK) 8) (b 1%nat)) SF_MAX_6)
  else if e =? SF_TAG_22 then
    Some (1 + 2, add64 (N.lor (N.lor (shl64 (N.land (b 0%nat) SF_6_MASK) 16)
                                     (shl64 (b 1%nat) 8)) (b 2%nat)) SF_MAX_14)
  else if e =? SF_TAG_VAR then
    let w := sf_width_external (b 0%nat) in
    match sf_ext_get_medium (fun i => b (N.to_nat w - i)%nat) w with
    | Some v => Some (1 + w, add64 v SF_MAX_22)
    | None => None
    end
  else Some (0, 0).

(* the same on memory in address order with ptr = mem + p *)
Definition sf_rev_get (mem : list N) (p : nat) : option (N * N) :=
  sf_rev_get_r (rev (firstn (S p) mem)).

(* ------------------------------------------------------------------ *)
(* varintSplitFullNoZero.h                                             *)
(* ------------------------------------------------------------------ *)

Definition SFNZ_MASK   : N := 192.
Definition SFNZ_6_MASK : N := 63.
Definition SFNZ_MAX_6  : N := 64.                    (* 0x40 *)
Definition SFNZ_MAX_14 : N := SFNZ_MAX_6 + 16383.    (* MAX_6 + 0x3fff *)
Definition SFNZ_MAX_22 : N := SFNZ_MAX_14 + 4194303. (* MAX_14 + 0x3fffff *)
Definition SFNZ_TAG_6   : N := 0.
Definition SFNZ_TAG_14  : N := 64.
Definition SFNZ_TAG_22  : N := 128.
Definition SFNZ_TAG_VAR : N := 192.

(* varintSplitFullNoZeroLengthVAR_ (#else variant) *)
Definition sfnz_length_var (v : N) : N :=
  let vl := ext_width v in
  if (vl =? 1)%nat then u8 (1 + 2) else u8 (1 + N.of_nat vl).

(* varintSplitFullNoZeroLength_ *)
Definition sfnz_length (x : N) : N :=
  if x <=? SFNZ_MAX_6 then 1 + 0
  else if x <=? SFNZ_MAX_14 then 1 + 1
  else if x <=? SFNZ_MAX_22 then 1 + 2
  else sfnz_length_var (x - SFNZ_MAX_22).

(* varintSplitFullNoZeroPut_ ; `_vimp__val -= 1` is a uint64_t subtraction
   reachable with 0 (outside the documented domain), hence sub64. *)
Definition sfnz_put (x : N) : list N :=
  if x <=? SFNZ_MAX_6 then
    let v := sub64 x 1 in [u8 (N.lor SFNZ_TAG_6 v)]
  else if x <=? SFNZ_MAX_14 then
    let v := x - SFNZ_MAX_6 in
    [u8 (N.lor SFNZ_TAG_14 (N.land (shr v 8) SFNZ_6_MASK)); u8 (N.land v 255)]
  else if x <=? SFNZ_MAX_22 then
    let v := x - SFNZ_MAX_14 in
    [u8 (N.lor SFNZ_TAG_22 (N.land (shr v 16) SFNZ_6_MASK)); u8 (N.land (shr v 8) 255);
     u8 (N.land v 255)]
  else
    let v := x - SFNZ_MAX_22 in
    let len := sfnz_length_var v in
    let w := len - 1 in
    u8 (N.lor SFNZ_TAG_VAR w) :: sf_ext_put_medium v w.

Definition sfnz_encoding2 (b0 : N) : N := N.land b0 SFNZ_MASK.
Definition sfnz_width_external (b0 : N) : N := N.land b0 15.

(* varintSplitFullNoZeroGetLenQuick_ *)
Definition sfnz_getlen_quick (z : list N) : N :=
  let b0 := byte_at z 0 in
  1 + (if sfnz_encoding2 b0 =? SFNZ_TAG_VAR then sfnz_width_external b0 else shr b0 6).

(* varintSplitFullNoZeroGetLen_ *)
Definition sfnz_getlen (z : list N) : N :=
  let b0 := byte_at z 0 in
  let e := sfnz_encoding2 b0 in
  if e =? SFNZ_TAG_6 then 1 + 0
  else if e =? SFNZ_TAG_14 then 1 + 1
  else if e =? SFNZ_TAG_22 then 1 + 2
  else if e =? SFNZ_TAG_VAR then 1 + sfnz_width_external b0
  else 0.

(* varintSplitFullNoZeroGet_ ; the 14- and 22-bit cases shift and or in
   `int` (values below 2^22, shl32 never wraps) and then cast to uint64_t. *)
Definition sfnz_get (z : list N) : option (N * N) :=
  let b i := byte_at z i in
  let e := sfnz_encoding2 (b 0%nat) in
  if e =? SFNZ_TAG_6 then Some (1 + 0, add64 (N.land (b 0%nat) SFNZ_6_MASK) 1)
  else if e =? SFNZ_TAG_14 then
    Some (1 + 1, add64 (N.lor (shl32 (N.land (b 0%nat) SFNZ_6_MASK) 8) (b 1%nat)) SFNZ_MAX_6)
  else if e =? SFNZ_TAG_22 then
    Some (1 + 2, add64 (N.lor (N.lor (shl32 (N.land (b 0%nat) SFNZ_6_MASK) 16)
                                     (shl32 (b 1%nat) 8)) (b 2%nat)) SFNZ_MAX_14)
  else if e =? SFNZ_TAG_VAR then
    let w := sfnz_width_external (b 0%nat) in
    match sf_ext_get_medium (fun i => b (1 + i)%nat) w with
    | Some v => Some (1 + w, add64 v SFNZ_MAX_22)
    | None => None
    end
  else Some (0, 0).

(* varintSplitFullNoZeroReversedPutReversed_ *)
Definition sfnz_rev_put_reversed (x : N) : list N * nat :=
  if x <=? SFNZ_MAX_6 then
    let v := sub64 x 1 in ([u8 (N.lor SFNZ_TAG_6 v)], 0%nat)
  else if x <=? SFNZ_MAX_14 then
    let v := x - SFNZ_MAX_6 in
    ([u8 (N.land v 255); u8 (N.lor SFNZ_TAG_14 (N.land (shr v 8) SFNZ_6_MASK))], 1%nat)
  else if x <=? SFNZ_MAX_22 then
    let v := x - SFNZ_MAX_14 in
    ([u8 (N.land v 255); u8 (N.land (shr v 8) 255);
      u8 (N.lor SFNZ_TAG_22 (N.land (shr v 16) SFNZ_6_MASK))], 2%nat)
  else
    let v := x - SFNZ_MAX_22 in
    let len := sfnz_length_var v in
    let w := len - 1 in
    (sf_ext_put_medium v w ++ [u8 (N.lor SFNZ_TAG_VAR w)], N.to_nat w).

(* varintSplitFullNoZeroReversedPutForward_ *)
Definition sfnz_rev_put_forward (x : N) : list N :=
  if x <=? SFNZ_MAX_6 then
    let v := sub64 x 1 in [u8 (N.lor SFNZ_TAG_6 v)]
  else if x <=? SFNZ_MAX_14 then
    let v := x - SFNZ_MAX_6 in
    [u8 (N.land v 255); u8 (N.lor SFNZ_TAG_14 (N.land (shr v 8) SFNZ_6_MASK))]
  else if x <=? SFNZ_MAX_22 then
    let v := x - SFNZ_MAX_14 in
    [u8 (N.land v 255); u8 (N.land (shr v 8) 255);
     u8 (N.lor SFNZ_TAG_22 (N.land (shr v 16) SFNZ_6_MASK))]
  else
    let v := x - SFNZ_MAX_22 in
    let len := sfnz_length_var v in
    let w := len - 1 in
    sf_ext_put_medium v w ++ [u8 (N.lor SFNZ_TAG_VAR w)].

(* varintSplitFullNoZeroReversedGet_ (all shifts on uint64_t here) *)
Definition sfnz_rev_get_r (zr : list N) : option (N * N) :=
  let b i := byte_at zr i in
  let e := sfnz_encoding2 (b 0%nat) in
  if e =? SFNZ_TAG_6 then Some (1 + 0, add64 (N.land (b 0%nat) SFNZ_6_MASK) 1)
  else if e =? SFNZ_TAG_14 then
    Some (1 + 1, add64 (N.lor (shl64 (N.land (b 0%nat) SFNZ_6_MASK) 8) (b 1%nat)) SFNZ_MAX_6)
  else if e =? SFNZ_TAG_22 then
    Some (1 + 2, add64 (N.lor (N.lor (shl64 (N.land (b 0%nat) SFNZ_6_MASK) 16)
                                     (shl64 (b 1%nat) 8)) (b 2%nat)) SFNZ_MAX_14)
  else if e =? SFNZ_TAG_VAR then
    let w := sfnz_width_external (b 0%nat) in
    match sf_ext_get_medium (fun i => b (N.to_nat w - i)%nat) w with
    | Some v => Some (1 + w, add64 v SFNZ_MAX_22)
    | None => None
    end
  else Some (0, 0).

Definition sfnz_rev_get (mem : list N) (p : nat) : option (N * N) :=
  sfnz_rev_get_r (rev (firstn (S p) mem)).

(* EXTRACT: sf_length_var sf_length sf_put sf_getlen_quick sf_getlen sf_get
   sf_rev_put_reversed sf_rev_put_forward sf_rev_get
   sfnz_length_var sfnz_length sfnz_put sfnz_getlen_quick sfnz_getlen sfnz_get
   sfnz_rev_put_reversed sfnz_rev_put_forward sfnz_rev_get *)
