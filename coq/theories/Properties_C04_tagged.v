(* Properties_C04_tagged.v — C04 for the tagged family: byte-exact sqlite4
   format, canonical, length-monotone, published maxima. *)
Require Import VV.Base VV.Tagged VV.TaggedSpec VV.TaggedSpecProofs VV.TaggedCanon.
Require Import VVgen.Consts.
Local Open Scope N_scope.

(* the encoder's bytes are those of the documented ENCODE rules *)
Theorem C04_tagged_put_is_spec : forall x, x < 18446744073709551616 ->
  tagged_put64 x =
    (if x <=? 240 then [x]
     else if x <=? 2287 then [241 + (x - 240) / 256; (x - 240) mod 256]
     else if x <=? 67823 then [249; (x - 2288) / 256; (x - 2288) mod 256]
     else let k := Nat.max 3 (ext_width x) in (N.of_nat k + 247) :: be_bytes k x).
Proof. exact tagged_put_is_spec. Qed.
Print Assumptions C04_tagged_put_is_spec.

(* the documented DECODE rules map the encoder's bytes back to the value *)
Theorem C04_tagged_denote_put : forall x, x < 18446744073709551616 ->
  tagged_denote (tagged_put64 x) = Some x.
Proof. exact tagged_denote_put. Qed.
Print Assumptions C04_tagged_denote_put.

(* one encoding per value, the shortest the format allows *)
Theorem C04_tagged_shortest : forall b x, bytes_ok b -> tagged_denote b = Some x ->
  tagged_len x <= N.of_nat (length b).
Proof. exact tagged_shortest. Qed.
Print Assumptions C04_tagged_shortest.

Theorem C04_tagged_len_mono : forall x y, y < 18446744073709551616 -> x <= y ->
  tagged_len x <= tagged_len y.
Proof. exact tagged_len_mono. Qed.
Print Assumptions C04_tagged_len_mono.

(* per-length maxima: the header constants (regenerated from varintTagged.h
   on every run) are exactly the length-class boundaries *)
Theorem C04_tagged_len_class : forall x k, x < 18446744073709551616 -> 1 <= k <= 9 ->
  (tagged_len x <= k <->
   x <= match k with
        | 1 => VARINT_TAGGED_MAX_1 | 2 => VARINT_TAGGED_MAX_2 | 3 => VARINT_TAGGED_MAX_3
        | 4 => VARINT_TAGGED_MAX_4 | 5 => VARINT_TAGGED_MAX_5 | 6 => VARINT_TAGGED_MAX_6
        | 7 => VARINT_TAGGED_MAX_7 | 8 => VARINT_TAGGED_MAX_8 | 9 => VARINT_TAGGED_MAX_9
        | _ => 0 end).
Proof. exact tagged_len_class. Qed.
Print Assumptions C04_tagged_len_class.

(* … and they are the documented 240, 2287, 67823, 2^24-1, 2^32-1, … *)
Theorem C04_tagged_max_documented :
  [VARINT_TAGGED_MAX_1; VARINT_TAGGED_MAX_2; VARINT_TAGGED_MAX_3; VARINT_TAGGED_MAX_4;
   VARINT_TAGGED_MAX_5; VARINT_TAGGED_MAX_6; VARINT_TAGGED_MAX_7; VARINT_TAGGED_MAX_8;
   VARINT_TAGGED_MAX_9]
  = [240; 2287; 67823; 2^24 - 1; 2^32 - 1; 2^40 - 1; 2^48 - 1; 2^56 - 1; 2^64 - 1].
Proof. exact (eq_refl _). Qed.
Print Assumptions C04_tagged_max_documented.
