(* Properties_C07_float.v — property C07 (float codec) for src/varintFloat.{c,h}.
   Nothing but statements closed by `exact`, each followed by Print Assumptions.

   A double is its 64-bit pattern d < 2^64.  Vocabulary (FloatSpec.v):
     fl_sgn d = d / 2^63, fl_bexp d = (d / 2^52) mod 2048, fl_frac d = d mod 2^52,
     fl_is_special d = (fl_bexp d = 0 or 2047)   zero, subnormal, infinity, NaN
     fl_is_inf d     = (fl_bexp d = 2047 and fl_frac d = 0)
     fl_sig d = 2^52 + fl_frac d,  fl_mag d = fl_sig d * 2^(fl_bexp d)
   so that a normal d has |d| = fl_mag d * 2^-1075 exactly.
   Precisions 0..3 = FULL, HIGH, MEDIUM, LOW (52, 23, 10, 4 mantissa bits);
   modes 0..2 = INDEPENDENT, COMMON_EXPONENT, DELTA_EXPONENT.
   fl_decode returns Some (bytes consumed, decoded array). *)
Require Import VV.Base VV.Float VV.FloatSpec VV.FloatTheorems.
Local Open Scope N_scope.

(* FULL precision reproduces every pattern bit for bit (NaN payloads, +-inf,
   +-0, subnormals included), in the three exponent modes, for every array
   (any spread of magnitudes), whatever follows the stream. *)
Theorem C07_float_full_exact : forall ds mode rest,
  Forall (fun d => d < 18446744073709551616) ds -> mode <= 2 ->
  fl_decode (fl_encode ds 0 mode ++ rest) (length ds)
  = Some (N.of_nat (length (fl_encode ds 0 mode)), ds).
Proof. exact float_full_exact. Qed.
Print Assumptions C07_float_full_exact.

(* Every precision, every mode: special values come back bit for bit. *)
Theorem C07_float_special_exact : forall ds prec mode rest,
  Forall (fun d => d < 18446744073709551616) ds -> mode <= 2 ->
  exists outs,
    fl_decode (fl_encode ds prec mode ++ rest) (length ds)
      = Some (N.of_nat (length (fl_encode ds prec mode)), outs) /\
    Forall2 (fun d d' => fl_is_special d = true -> d' = d) ds outs.
Proof. exact float_special_exact. Qed.
Print Assumptions C07_float_special_exact.

(* Reduced precisions: every normal value comes back with its sign and
   | |d'| - |d| | * 2^mb <= |d|  (both magnitudes scaled by 2^1075), or as the
   infinity of its sign — and that only when d has the largest finite exponent
   and rounds, at mb bits, up to 2^1024.  Any array, the three modes. *)
Theorem C07_float_rel_error : forall ds prec mode rest,
  Forall (fun d => d < 18446744073709551616) ds -> mode <= 2 ->
  prec = 1 \/ prec = 2 \/ prec = 3 ->
  exists outs,
    fl_decode (fl_encode ds prec mode ++ rest) (length ds)
      = Some (N.of_nat (length (fl_encode ds prec mode)), outs) /\
    Forall2 (fun d d' =>
      (fl_is_special d = true -> d' = d) /\
      (fl_is_special d = false ->
         fl_sgn d' = fl_sgn d /\
         ((fl_is_inf d' = true /\ fl_bexp d = 2046 /\
           9007199254740992 <= fl_sig d + 2 ^ (52 - fl_mant_bits prec)) \/
          (fl_is_special d' = false /\
           (fl_mag d' - fl_mag d) * 2 ^ fl_mant_bits prec <= fl_mag d /\
           (fl_mag d - fl_mag d') * 2 ^ fl_mant_bits prec <= fl_mag d)))) ds outs.
Proof. exact float_rel_error. Qed.
Print Assumptions C07_float_rel_error.

(* Automatic selection.  The requested error is a double in (0, 1): a pattern
   strictly between +0 and 1.0 (0x3FF0000000000000 = 4607182418800017408);
   err = fl_mag_any err * 2^-1075 exactly.  Either FULL is selected (lossless
   by C07_float_full_exact) or the selected mode's bound satisfies
   2^-mb <= err, i.e. 2^1075 <= (err * 2^1075) * 2^mb. *)
Theorem C07_float_auto : forall err,
  0 < err < 4607182418800017408 ->
  let p := fl_auto_precision err in
  p = 0 \/ ((p = 1 \/ p = 2 \/ p = 3) /\ 2 ^ 1075 <= fl_mag_any err * 2 ^ fl_mant_bits p).
Proof. exact float_auto. Qed.
Print Assumptions C07_float_auto.

(* End to end: what varintFloatEncodeAuto writes decodes with
   | |d'| - |d| | <= err * |d| for every normal value (scaled by 2^1075 twice),
   specials exactly; infinity only for a value of the largest finite exponent
   whose distance to 2^1024 is within the requested error. *)
Theorem C07_float_auto_error : forall ds err mode rest,
  Forall (fun d => d < 18446744073709551616) ds -> mode <= 2 ->
  0 < err < 4607182418800017408 ->
  exists outs,
    fl_decode (snd (fl_encode_auto ds err mode) ++ rest) (length ds)
      = Some (N.of_nat (length (snd (fl_encode_auto ds err mode))), outs) /\
    Forall2 (fun d d' =>
      (fl_is_special d = true -> d' = d) /\
      (fl_is_special d = false ->
         fl_sgn d' = fl_sgn d /\
         ((fl_is_inf d' = true /\ fl_bexp d = 2046 /\
           (9007199254740992 - fl_sig d) * 2 ^ 1075 <= fl_sig d * fl_mag_any err) \/
          (fl_is_special d' = false /\
           (fl_mag d' - fl_mag d) * 2 ^ 1075 <= fl_mag d * fl_mag_any err /\
           (fl_mag d - fl_mag d') * 2 ^ 1075 <= fl_mag d * fl_mag_any err)))) ds outs.
Proof. exact float_auto_error. Qed.
Print Assumptions C07_float_auto_error.

(* non-vacuity / the former defects on their witnesses:
   F22 {1e-200, 1e200} FULL + COMMON_EXPONENT (falls back to INDEPENDENT: header
   mode byte 0) is exact; F21 1.9999999999 in MEDIUM decodes as 2.0; a NaN with
   payload and a subnormal survive LOW precision; F23 a requested 1e-9 selects
   FULL, 4e-4 selects HIGH. *)
Example C07_examples :
  fl_decode (fl_encode [1614679632300144556; 7598952565167317594] 0 1) 2
    = Some (25, [1614679632300144556; 7598952565167317594]) /\
  nth 3 (fl_encode [1614679632300144556; 7598952565167317594] 0 1) 9 = 0 /\
  fl_decode (fl_encode [4611686018426937544] 2 0) 1 = Some (10, [4611686018427387904]) /\
  fl_decode (fl_encode [9218868437227405317; 1; 4611686018426937544] 3 2) 3
    = Some (25, [9218868437227405317; 1; 4611686018427387904]) /\
  fl_auto_precision 4472406533629990549 = 0 /\
  fl_auto_precision 4556929207315134808 = 1.
Proof. vm_compute. repeat split; reflexivity. Qed.
