(* Properties_C01_csimple_src.v — C01 for varintChainedSimple, stated about the
   functions regenerated from the current src/varintChainedSimple.c by
   gen/c2coq.py (coq/gen/Src_csimple.v).  The loops of the C are rendered with
   c_while and an explicit fuel (iterations any one loop may take): the theorems
   hold for EVERY fuel >= 10, so no outcome is CFuel. *)
Require Import VV.Base VV.CSem VV.CsimpleSrcProps.
Require Import VVgen.Src_csimple.
Local Open Scope Z_scope.

(* every 64-bit x: the encoder writes w bytes, 1 <= w <= 9; varintChainedSimpleLength
   predicts w; the decoder, given those bytes followed by anything, returns w
   and stores x *)
Theorem C01_src_csimple_roundtrip : forall fuel x buf tl r,
  (10 <= fuel)%nat -> 0 <= x < 18446744073709551616 -> (9 <= length buf)%nat -> bytes_ok tl ->
  exists w out,
    src_varintChainedSimpleEncode64 fuel buf x = COk (w, out) /\ 1 <= w <= 9 /\
    src_varintChainedSimpleLength fuel x = COk w /\
    src_varintChainedSimpleDecode64 fuel (firstn (Z.to_nat w) out ++ tl) r = COk (w, Some x).
Proof. exact src_csimple_roundtrip. Qed.
Print Assumptions C01_src_csimple_roundtrip.

(* 32-bit entry points: Encode32 writes what Encode64 writes; Decode32 and
   Decode32Fallback read the value back *)
Theorem C01_src_csimple32_roundtrip : forall fuel x buf tl r,
  (10 <= fuel)%nat -> 0 <= x <= 4294967295 -> (9 <= length buf)%nat -> bytes_ok tl ->
  exists w out,
    src_varintChainedSimpleEncode32 buf x = COk (w, out) /\
    src_varintChainedSimpleEncode64 fuel buf x = COk (w, out) /\
    src_varintChainedSimpleDecode32 fuel (firstn (Z.to_nat w) out ++ tl) r = COk (w, Some x) /\
    src_varintChainedSimpleDecode32Fallback fuel (firstn (Z.to_nat w) out ++ tl) r = COk (w, Some x).
Proof. exact src_csimple32_roundtrip. Qed.
Print Assumptions C01_src_csimple32_roundtrip.

Example C01_src_csimple_example :
  src_varintChainedSimpleEncode64 10 [0; 0; 0; 0; 0; 0; 0; 0; 0; 7]%N 18446744073709551615
    = COk (9, [255; 255; 255; 255; 255; 255; 255; 255; 255; 7]%N) /\
  src_varintChainedSimpleDecode64 10 [255; 255; 255; 255; 255; 255; 255; 255; 255; 7]%N None
    = COk (9, Some 18446744073709551615) /\
  src_varintChainedSimpleLength 10 16384 = COk 3 /\
  src_varintChainedSimpleLength 9 18446744073709551615 = CFuel.
Proof. vm_compute. repeat split; reflexivity. Qed.
