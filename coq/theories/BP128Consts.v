(* BP128Consts.v — ties the literals of BP128.v to the constants of the current
   varintBP128.h (coq/gen/Consts.v is regenerated from the header on every
   run; this file stops compiling if a constant changes). *)
Require Import VV.Base VV.BP128 VVgen.Consts.
Local Open Scope N_scope.

Lemma bp128_block_size : VARINT_BP128_BLOCK_SIZE = 128. Proof. reflexivity. Qed.
Lemma bp128_max_block_bytes : VARINT_BP128_MAX_BLOCK_BYTES = 1 + 128 * 8. Proof. reflexivity. Qed.

(* varintBP128MaxBytes, written with the header's constants (the 9 header bytes are
   VARINT_BP128_MAX_HEADER_BYTES, introduced by the fix of F06; it is not regenerated so
   that a tree without the fix still builds and is reported through a failing input) *)
Lemma max_bytes_consts n :
  max_bytes n =
  9 + n / VARINT_BP128_BLOCK_SIZE * VARINT_BP128_MAX_BLOCK_BYTES +
  (if 0 <? n mod VARINT_BP128_BLOCK_SIZE then 2 + n mod VARINT_BP128_BLOCK_SIZE * 8 else 0).
Proof. reflexivity. Qed.
