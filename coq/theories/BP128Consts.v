(* BP128Consts.v — ties the literals of BP128.v to the constants of the current
   varintBP128.h (coq/gen/Consts.v is regenerated from the header on every
   run; this file stops compiling if a constant changes). *)
Require Import VV.Base VV.BP128 VVgen.Consts.
Local Open Scope N_scope.

Lemma bp128_block_size : VARINT_BP128_BLOCK_SIZE = 128. Proof. reflexivity. Qed.
Lemma bp128_max_block_bytes : VARINT_BP128_MAX_BLOCK_BYTES = 1 + 128 * 8. Proof. reflexivity. Qed.

(* varintBP128MaxBytes, written with the header's constants *)
Lemma max_bytes_consts n :
  max_bytes n =
  VARINT_BP128_MAX_HEADER_BYTES + n / VARINT_BP128_BLOCK_SIZE * VARINT_BP128_MAX_BLOCK_BYTES +
  (if 0 <? n mod VARINT_BP128_BLOCK_SIZE then 2 + n mod VARINT_BP128_BLOCK_SIZE * 8 else 0).
Proof. reflexivity. Qed.
