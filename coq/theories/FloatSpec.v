(* FloatSpec.v — the vocabulary in which the float theorems are stated: the
   IEEE-754 binary64 fields of a bit pattern (no code of the library here). *)
Require Import VV.Base.
Local Open Scope N_scope.

Definition fl_sgn (d : N) : N := d / 9223372036854775808.               (* bit 63 *)
Definition fl_bexp (d : N) : N := (d / 4503599627370496) mod 2048.       (* biased exponent *)
Definition fl_frac (d : N) : N := d mod 4503599627370496.                (* 52 fraction bits *)

(* zero, subnormal (biased exponent 0), infinity, NaN (biased exponent 2047) *)
Definition fl_is_special (d : N) : bool := (fl_bexp d =? 0) || (fl_bexp d =? 2047).
Definition fl_is_inf (d : N) : bool := (fl_bexp d =? 2047) && (fl_frac d =? 0).

(* a normal double d has |d| = fl_sig d * 2^(fl_bexp d - 1075) *)
Definition fl_sig (d : N) : N := 4503599627370496 + fl_frac d.

(* |d| * 2^1075 for a normal d: an integer *)
Definition fl_mag (d : N) : N := fl_sig d * 2 ^ fl_bexp d.

(* |x| * 2^1075 for any finite x >= 0 (subnormals have exponent field 0, no hidden bit) *)
Definition fl_mag_any (x : N) : N :=
  if fl_bexp x =? 0 then fl_frac x * 2 else fl_mag x.
