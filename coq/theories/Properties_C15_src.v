(* Properties_C15_src.v — C15 for the functions of src/varintTagged.c that
   gen/c2coq.py translates.  A translated function is a Gallina function of its
   arguments, so "the result depends on the arguments alone" holds by
   construction PROVIDED the translation is defined: the content is therefore
   that no translated function is undefined (CUB: read of a local that was not
   assigned on the path taken, signed overflow, bad shift, …) or out of bounds
   (COob) on any admissible input, and that the translator met no variable with
   static storage duration. *)
Require Import VV.Base VV.Tagged VV.CSem VV.TaggedSrcProps VV.TaggedSrcPropsAdd.
Require Import VVgen.Src_tagged.
From Coq Require Import String.
Local Open Scope Z_scope.

Theorem C15_src_tagged_defined :
  (forall x, 0 <= x < 18446744073709551616 -> exists w, src_varintTaggedLen x = COk w) /\
  (forall z, z <> [] -> bytes_ok z -> exists w, src_varintTaggedGetLen z = COk w) /\
  (forall buf x, 0 <= x < 18446744073709551616 -> (9 <= List.length buf)%nat ->
     exists w out, src_varintTaggedPut64 buf x = COk (w, out)) /\
  (forall buf x w, 0 <= x < 18446744073709551616 -> 0 <= w <= 4294967295 -> (9 <= List.length buf)%nat ->
     exists w' out, src_varintTaggedPut64FixedWidth buf x w = COk (w', out)) /\
  (forall buf v, 0 <= v <= 4294967295 -> (9 <= List.length buf)%nat ->
     exists w out, src_varintTaggedPutVarint32 buf v = COk (w, out)) /\
  (forall z n r, bytes_ok z -> -2147483648 <= n <= 2147483647 -> n <= Z.of_nat (List.length z) ->
     exists w v, src_varintTaggedGet z n r = COk (w, v)) /\
  (forall z r, bytes_ok z -> 9 <= Z.of_nat (List.length z) ->
     exists w v, src_varintTaggedGet64 z r = COk (w, v)) /\
  (forall z, bytes_ok z -> 9 <= Z.of_nat (List.length z) ->
     exists v, src_varintTaggedGet64ReturnValue z = COk v) /\
  (forall z r, bytes_ok z -> 9 <= Z.of_nat (List.length z) ->
     exists w v, src_varintTaggedGetVarint32 z r = COk (w, v)).
Proof. exact src_tagged_defined. Qed.
Print Assumptions C15_src_tagged_defined.

Theorem C15_src_tagged_add_defined : forall p add,
  bytes_ok p -> -9223372036854775808 <= add <= 9223372036854775807 ->
  Z.of_N (tagged_getlen p) <= Z.of_nat (List.length p) ->
  (exists w out, src_varintTaggedAddNoGrow p add = COk (w, out)) /\
  ((9 <= List.length p)%nat -> exists w out, src_varintTaggedAddGrow p add = COk (w, out)).
Proof. exact src_tagged_add_defined. Qed.
Print Assumptions C15_src_tagged_add_defined.

(* checked facts emitted by the translator: the functions above refer to no
   global or static variable, and every function asked for was translated *)
Theorem C15_src_tagged_no_globals :
  src_tagged_globals_read = []%list /\
  src_tagged_translated =
    ["varintTaggedLen"; "varintTaggedGetLen"; "varintTaggedPut64"; "varintTaggedPut64FixedWidth";
     "varintTaggedGet"; "varintTaggedGet64"; "varintTaggedGet64ReturnValue"; "varintTaggedGetVarint32";
     "varintTaggedPutVarint32"; "varintTaggedAddNoGrow"; "varintTaggedAddGrow";
     "q_varintTaggedLenQuick"; "q_varintTaggedGetLenQuick_"; "q_varintTaggedPut64FixedWidthQuick_";
     "q_varintTaggedGet64Quick_"]%string%list.
Proof. exact (conj eq_refl eq_refl). Qed.
Print Assumptions C15_src_tagged_no_globals.

(* non-vacuity: the semantics does report an unassigned read / an out-of-bounds access *)
Example C15_src_example :
  c_cell_read None = CUB UB_uninit_read /\ c_load [1%N] (COk 1) = COob /\
  src_varintTaggedGet64ReturnValue [241; 5]%N = COk 245.
Proof. vm_compute. repeat split; reflexivity. Qed.
