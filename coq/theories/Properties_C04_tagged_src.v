(* Properties_C04_tagged_src.v — C04 for the tagged family, stated about the
   encoder regenerated from the current src/varintTagged.c (coq/gen/Src_tagged.v). *)
Require Import VV.Base VV.CSem VV.TaggedSrcPropsPut.
Require Import VVgen.Src_tagged.
Local Open Scope Z_scope.

(* the bytes written are exactly those of the documented ENCODE rules, and
   nothing beyond them is modified *)
Theorem C04_src_tagged_put_is_spec : forall buf x,
  0 <= x < 18446744073709551616 -> (9 <= length buf)%nat ->
  exists w out, src_varintTaggedPut64 buf x = COk (w, out) /\
    firstn (Z.to_nat w) out =
      (let x := Z.to_N x in
       if x <=? 240 then [x]
       else if x <=? 2287 then [241 + (x - 240) / 256; (x - 240) mod 256]
       else if x <=? 67823 then [249; (x - 2288) / 256; (x - 2288) mod 256]
       else let k := Nat.max 3 (ext_width x) in (N.of_nat k + 247) :: be_bytes k x)%N /\
    skipn (Z.to_nat w) out = skipn (Z.to_nat w) buf.
Proof. exact src_tagged_put_is_spec. Qed.
Print Assumptions C04_src_tagged_put_is_spec.

Example C04_src_tagged_example :
  src_varintTaggedPut64 [9; 9; 9; 9; 9; 9; 9; 9; 9]%N 67824 = COk (4, [250; 1; 8; 240; 9; 9; 9; 9; 9]%N).
Proof. vm_compute. reflexivity. Qed.
