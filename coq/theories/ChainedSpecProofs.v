(* ChainedSpecProofs.v — the decoder-spec `denote`: the encoder's output
   denotes its value, and no byte string denoting a value is shorter than the
   encoder's output (canonical / shortest), for both formats. *)
Require Import VV.Base VV.BaseProofs VV.Chained VV.ChainedSpec VV.ChainedWiring VV.ChainedLemmas
  VV.ChainedPutProofs.
From Coq Require Import Lia ZifyBool ZifyN ZifyNat Arith.
Local Open Scope N_scope.
Ltac Zify.zify_post_hook ::= Z.div_mod_to_equations.

Lemma rev_snoc {A} (l : list A) a : rev (l ++ [a]) = a :: rev l.
Proof. rewrite rev_app_distr. reflexivity. Qed.

Lemma spec_len_le x k : x < 128 ^ N.of_nat k -> (1 <= k <= 8)%nat -> (chained_spec_len x <= k)%nat.
Proof.
  intros Hx Hk. unfold chained_spec_len.
  pose proof (pow128_mono k 8 ltac:(lia)) as M.
  assert (H8 : x < 128 ^ N.of_nat 8) by lia.
  destruct (x <? 72057594037927936) eqn:T; [|norm_pow128; lia].
  destruct (top_lt_spec_len x ltac:(norm_pow128; lia)) as (A & B & C). rewrite B.
  destruct (nd_bounds 7 x H8) as (R1 & R2 & R3).
  set (n := ndigits128 7 x) in *.
  destruct (le_lt_dec n k) as [L|G]; [exact L|exfalso].
  destruct R3 as [R3|R3]; [lia|].
  pose proof (pow128_mono k (n - 1) ltac:(lia)). lia.
Qed.

Lemma spec_len_le9 x : (chained_spec_len x <= 9)%nat.
Proof.
  unfold chained_spec_len. destruct (x <? 72057594037927936) eqn:T; [|lia].
  destruct (top_lt_spec_len x ltac:(lia)) as (A & B & C). lia.
Qed.

(* ---- chained ---- *)
Theorem chained_denote_spec x : x < 18446744073709551616 ->
  chained_denote (chained_spec x) = Some x.
Proof.
  intro Hx. unfold chained_denote, chained_spec, chained_spec_len.
  destruct (x <? 72057594037927936) eqn:T.
  - destruct (top_lt_spec_len x ltac:(lia)) as (A & B & C).
    assert (H8 : x < 128 ^ N.of_nat 8) by (norm_pow128; lia).
    destruct (nd_bounds 7 x H8) as (R1 & R2 & R3).
    rewrite B in *. set (n := ndigits128 7 x) in *.
    rewrite rev_snoc, rev_involutive. cbv zeta.
    rewrite cont_be128, length_be128.
    fold (horner128 0 (be128 (n - 1) (x / 128))). rewrite horner_be128.
    destruct (Nat.eqb_spec (n - 1) 8) as [E|E]; [lia|].
    destruct (Nat.ltb_spec (n - 1) 8) as [L|L]; [|lia].
    assert (M : x mod 128 < 128) by (apply N.mod_lt; lia).
    destruct (x mod 128 <? 128) eqn:F; [|lia]. cbn [andb].
    assert (Q : x / 128 < 128 ^ N.of_nat (n - 1)).
    { replace n with (S (n - 1)) in R2 by lia. rewrite pow128_S in R2.
      apply N.div_lt_upper_bound; lia. }
    rewrite (N.mod_small _ _ Q). f_equal. lia.
  - rewrite rev_snoc, rev_involutive. cbv zeta.
    rewrite cont_be128, length_be128.
    fold (horner128 0 (be128 8 (x / 256))). rewrite horner_be128.
    cbn [Nat.eqb]. assert (M : x mod 256 < 256) by (apply N.mod_lt; lia).
    destruct (x mod 256 <? 256) eqn:F; [|lia].
    norm_pow128.
    assert (Q : x / 256 < 72057594037927936) by (apply N.div_lt_upper_bound; lia).
    rewrite (N.mod_small _ _ Q). f_equal. lia.
Qed.

Theorem chained_denote_put x : x < 18446744073709551616 ->
  chained_denote (chained_put x) = Some x.
Proof. intro Hx. rewrite chained_put_is_spec by exact Hx. apply chained_denote_spec. exact Hx. Qed.

(* every denoting string: value in range, and at least as long as the encoder's output *)
Theorem chained_denote_shortest b x : chained_denote b = Some x ->
  x < 18446744073709551616 /\ (chained_spec_len x <= length b)%nat.
Proof.
  unfold chained_denote. intro H.
  destruct (rev b) as [|last fr] eqn:R; [discriminate|].
  assert (Lb : length b = S (length (rev fr))).
  { rewrite <- (rev_involutive b), R. cbn [rev]. rewrite app_length, !rev_length. cbn [length]. lia. }
  cbv zeta in H. set (front := rev fr) in *.
  destruct (forallb cont_byte front) eqn:C; [|discriminate].
  fold (horner128 0 front) in H.
  pose proof (horner_bound front 0 C) as HB.
  destruct (Nat.eqb_spec (length front) 8) as [E|E].
  - destruct (last <? 256) eqn:F; [|discriminate]. injection H as <-.
    rewrite E in HB. norm_pow128. split; [lia|].
    pose proof (spec_len_le9 (horner128 0 front * 256 + last)). lia.
  - destruct (Nat.ltb_spec (length front) 8) as [L|L]; [|discriminate].
    destruct (last <? 128) eqn:F; [|discriminate]. cbn [andb] in H. injection H as <-.
    assert (B1 : horner128 0 front * 128 + last < 128 ^ N.of_nat (S (length front))).
    { rewrite pow128_S. lia. }
    pose proof (pow128_mono (S (length front)) 8 ltac:(lia)) as M. norm_pow128.
    split; [lia|]. rewrite Lb. apply spec_len_le; [exact B1|lia].
Qed.

Theorem chained_shortest b x : chained_denote b = Some x ->
  chained_len x <= N.of_nat (length b).
Proof.
  intro H. destruct (chained_denote_shortest b x H) as [Hx L].
  rewrite chained_len_is_spec by exact Hx. lia.
Qed.

(* ---- chained-simple ---- *)
Theorem csimple_denote_spec x : x < 18446744073709551616 ->
  csimple_denote (csimple_spec x) = Some x.
Proof.
  intro Hx. unfold csimple_denote, csimple_spec, chained_spec_len.
  destruct (x <? 72057594037927936) eqn:T.
  - destruct (top_lt_spec_len x ltac:(lia)) as (A & B & C).
    assert (H8 : x < 128 ^ N.of_nat 8) by (norm_pow128; lia).
    destruct (nd_bounds 7 x H8) as (R1 & R2 & R3).
    rewrite B in *. set (n := ndigits128 7 x) in *.
    rewrite rev_snoc, rev_involutive. cbv zeta.
    rewrite cont_le128, length_le128.
    fold (lsum128 (le128 (n - 1) x)). rewrite lsum_le128.
    destruct (Nat.eqb_spec (n - 1) 8) as [E|E]; [lia|].
    destruct (Nat.ltb_spec (n - 1) 8) as [L|L]; [|lia].
    pose proof (pow128_pos (n - 1)) as PP.
    assert (Q : x / 128 ^ N.of_nat (n - 1) < 128).
    { replace n with (S (n - 1)) in R2 by lia. rewrite pow128_S in R2.
      apply N.div_lt_upper_bound; lia. }
    destruct (x / 128 ^ N.of_nat (n - 1) <? 128) eqn:F; [|lia]. cbn [andb].
    set (P := 128 ^ N.of_nat (n - 1)) in *. f_equal.
    pose proof (N.div_mod x P ltac:(lia)) as D.
    set (q := x / P) in *. set (r := x mod P) in *. clearbody P q r. rewrite D at 1. apply N.add_comm.
  - rewrite rev_snoc, rev_involutive. cbv zeta.
    rewrite cont_le128, length_le128.
    fold (lsum128 (le128 8 x)). rewrite lsum_le128. cbn [Nat.eqb].
    assert (Q : x / 72057594037927936 < 256) by (apply N.div_lt_upper_bound; lia).
    destruct (x / 72057594037927936 <? 256) eqn:F; [|lia].
    norm_pow128. f_equal. lia.
Qed.

Theorem csimple_denote_put x : x < 18446744073709551616 ->
  csimple_denote (csimple_encode64 x) = Some x.
Proof. intro Hx. rewrite csimple_put_is_spec by exact Hx. apply csimple_denote_spec. exact Hx. Qed.

Theorem csimple_denote_shortest b x : csimple_denote b = Some x ->
  x < 18446744073709551616 /\ (chained_spec_len x <= length b)%nat.
Proof.
  unfold csimple_denote. intro H.
  destruct (rev b) as [|last fr] eqn:R; [discriminate|].
  assert (Lb : length b = S (length (rev fr))).
  { rewrite <- (rev_involutive b), R. cbn [rev]. rewrite app_length, !rev_length. cbn [length]. lia. }
  cbv zeta in H. set (front := rev fr) in *.
  destruct (forallb cont_byte front) eqn:C; [|discriminate].
  fold (lsum128 front) in H.
  pose proof (lsum_bound front C) as HB.
  destruct (Nat.eqb_spec (length front) 8) as [E|E].
  - destruct (last <? 256) eqn:F; [|discriminate].
    rewrite (N.mul_comm 72057594037927936 last) in H. injection H as <-.
    rewrite E in HB. norm_pow128. split; [lia|].
    pose proof (spec_len_le9 (lsum128 front + last * 72057594037927936)). lia.
  - destruct (Nat.ltb_spec (length front) 8) as [L|L]; [|discriminate].
    destruct (last <? 128) eqn:F; [|discriminate]. cbn [andb] in H. injection H as <-.
    assert (B1 : lsum128 front + 128 ^ N.of_nat (length front) * last
                 < 128 ^ N.of_nat (S (length front))).
    { rewrite pow128_S. set (P := 128 ^ N.of_nat (length front)) in *. nia. }
    pose proof (pow128_mono (S (length front)) 8 ltac:(lia)) as M. norm_pow128.
    split; [lia|]. rewrite Lb. apply spec_len_le; [exact B1|lia].
Qed.

Theorem csimple_shortest b x : csimple_denote b = Some x ->
  csimple_length x <= N.of_nat (length b).
Proof.
  intro H. destruct (csimple_denote_shortest b x H) as [Hx L].
  rewrite csimple_length_eq, chained_len_is_spec by exact Hx. lia.
Qed.

(* ---- uniqueness: the only denoting string of minimal length is the encoder's ---- *)
Lemma be128_horner l : forallb cont_byte l = true -> be128 (length l) (horner128 0 l) = l.
Proof.
  unfold horner128. induction l as [|c l IH] using rev_ind; intro H; [reflexivity|].
  rewrite forallb_app in H. apply andb_true_iff in H. destruct H as [Hl Hc].
  cbn [forallb] in Hc. rewrite andb_true_r in Hc. unfold cont_byte in Hc.
  rewrite app_length, fold_left_app. cbn [length fold_left].
  replace (length l + 1)%nat with (S (length l)) by lia. cbn [be128].
  set (h := fold_left _ l 0) in *.
  replace ((h * 128 + (c - 128)) / 128) with h by lia.
  replace (128 + (h * 128 + (c - 128)) mod 128) with c by lia.
  rewrite (IH Hl). reflexivity.
Qed.

Lemma le128_lsum l : forallb cont_byte l = true -> le128 (length l) (lsum128 l) = l.
Proof.
  unfold lsum128. induction l as [|c l IH]; intro H; [reflexivity|].
  cbn [forallb] in H. apply andb_true_iff in H. destruct H as [Hc Hl].
  unfold cont_byte in Hc. cbn [length fold_right le128].
  set (s := fold_right _ 0 l) in *.
  replace ((c - 128 + 128 * s) / 128) with s by lia.
  replace (128 + (c - 128 + 128 * s) mod 128) with c by lia.
  rewrite (IH Hl). reflexivity.
Qed.

Theorem chained_canonical b x : chained_denote b = Some x ->
  length b = chained_spec_len x -> b = chained_spec x.
Proof.
  unfold chained_denote. intros H HL.
  destruct (rev b) as [|last fr] eqn:R; [discriminate|].
  assert (Eb : b = rev fr ++ [last]).
  { rewrite <- (rev_involutive b), R. reflexivity. }
  assert (Lb : length b = S (length (rev fr))).
  { rewrite Eb, app_length. cbn [length]. lia. }
  cbv zeta in H. set (front := rev fr) in *.
  destruct (forallb cont_byte front) eqn:C; [|discriminate].
  fold (horner128 0 front) in H.
  pose proof (horner_bound front 0 C) as HB.
  pose proof (be128_horner front C) as BH.
  set (h := horner128 0 front) in *.
  destruct (Nat.eqb_spec (length front) 8) as [E|E].
  - destruct (last <? 256) eqn:F; [|discriminate]. injection H as <-.
    rewrite E in *. norm_pow128.
    unfold chained_spec, chained_spec_len in *.
    destruct (h * 256 + last <? 72057594037927936) eqn:T.
    + destruct (top_lt_spec_len (h * 256 + last) ltac:(lia)) as (A & _). lia.
    + replace ((h * 256 + last) / 256) with h by lia.
      replace ((h * 256 + last) mod 256) with last by lia.
      rewrite BH. exact Eb.
  - destruct (Nat.ltb_spec (length front) 8) as [L|L]; [|discriminate].
    destruct (last <? 128) eqn:F; [|discriminate]. cbn [andb] in H. injection H as <-.
    pose proof (pow128_mono (S (length front)) 8 ltac:(lia)) as M.
    rewrite pow128_S in M. norm_pow128.
    unfold chained_spec. unfold chained_spec_len in HL.
    destruct (h * 128 + last <? 72057594037927936) eqn:T; [|lia].
    fold (chained_spec_len (h * 128 + last)). unfold chained_spec_len. rewrite T.
    rewrite <- HL, Lb. replace (S (length front) - 1)%nat with (length front) by lia.
    replace ((h * 128 + last) / 128) with h by lia.
    replace ((h * 128 + last) mod 128) with last by lia.
    rewrite BH. exact Eb.
Qed.

Theorem csimple_canonical b x : csimple_denote b = Some x ->
  length b = chained_spec_len x -> b = csimple_spec x.
Proof.
  unfold csimple_denote. intros H HL.
  destruct (rev b) as [|last fr] eqn:R; [discriminate|].
  assert (Eb : b = rev fr ++ [last]).
  { rewrite <- (rev_involutive b), R. reflexivity. }
  assert (Lb : length b = S (length (rev fr))).
  { rewrite Eb, app_length. cbn [length]. lia. }
  cbv zeta in H. set (front := rev fr) in *.
  destruct (forallb cont_byte front) eqn:C; [|discriminate].
  fold (lsum128 front) in H.
  pose proof (lsum_bound front C) as HB.
  pose proof (le128_lsum front C) as BH.
  set (s := lsum128 front) in *.
  destruct (Nat.eqb_spec (length front) 8) as [E|E].
  - destruct (last <? 256) eqn:F; [|discriminate].
    rewrite (N.mul_comm 72057594037927936 last) in H. injection H as <-.
    rewrite E in *. norm_pow128.
    unfold csimple_spec, chained_spec_len in *.
    destruct (s + last * 72057594037927936 <? 72057594037927936) eqn:T.
    + destruct (top_lt_spec_len (s + last * 72057594037927936) ltac:(lia)) as (A & _). lia.
    + replace ((s + last * 72057594037927936) / 72057594037927936) with last by lia.
      rewrite <- BH in Eb.
      assert (Q : le128 8 (s + last * 72057594037927936) = le128 8 s).
      { rewrite <- (le128_lsum (le128 8 (s + last * 72057594037927936)))
          by apply cont_le128.
        rewrite length_le128, lsum_le128. norm_pow128.
        replace ((s + last * 72057594037927936) mod 72057594037927936) with s by lia.
        reflexivity. }
      rewrite Q. exact Eb.
  - destruct (Nat.ltb_spec (length front) 8) as [L|L]; [|discriminate].
    destruct (last <? 128) eqn:F; [|discriminate]. cbn [andb] in H. injection H as <-.
    pose proof (pow128_mono (S (length front)) 8 ltac:(lia)) as M.
    rewrite pow128_S in M. norm_pow128.
    pose proof (pow128_pos (length front)) as PP.
    set (P := 128 ^ N.of_nat (length front)) in *.
    assert (XB : s + P * last < 72057594037927936).
    { clearbody P s. assert (P * last <= P * 127) by (apply N.mul_le_mono_l; lia). lia. }
    unfold csimple_spec. unfold chained_spec_len in HL.
    destruct (s + P * last <? 72057594037927936) eqn:T; [|lia].
    fold (chained_spec_len (s + P * last)). unfold chained_spec_len. rewrite T.
    rewrite <- HL, Lb. replace (S (length front) - 1)%nat with (length front) by lia.
    fold P.
    assert (D : (s + P * last) / P = last).
    { symmetry. apply N.div_unique with s; [exact HB | lia]. }
    assert (Mo : (s + P * last) mod P = s).
    { symmetry. apply N.mod_unique with last; [exact HB | lia]. }
    rewrite D.
    assert (Q : le128 (length front) (s + P * last) = le128 (length front) s).
    { rewrite <- (le128_lsum (le128 (length front) (s + P * last))) by apply cont_le128.
      rewrite length_le128, lsum_le128. fold P. rewrite Mo. reflexivity. }
    rewrite Q, BH. exact Eb.
Qed.

Theorem chained_unique b x : chained_denote b = Some x ->
  N.of_nat (length b) = chained_len x -> b = chained_put x.
Proof.
  intros H HL. destruct (chained_denote_shortest b x H) as [Hx _].
  rewrite chained_put_is_spec by exact Hx. apply chained_canonical; [exact H|].
  rewrite chained_len_is_spec in HL by exact Hx. lia.
Qed.

Theorem csimple_unique b x : csimple_denote b = Some x ->
  N.of_nat (length b) = csimple_length x -> b = csimple_encode64 x.
Proof.
  intros H HL. destruct (csimple_denote_shortest b x H) as [Hx _].
  rewrite csimple_put_is_spec by exact Hx. apply csimple_canonical; [exact H|].
  rewrite csimple_length_eq, chained_len_is_spec in HL by exact Hx. lia.
Qed.
