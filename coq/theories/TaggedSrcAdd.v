(* TaggedSrcAdd.v — the regenerated renderings of varintTaggedAddNoGrow /
   varintTaggedAddGrow (the static helper varintTaggedAdd inlined by the
   translator, __builtin_saddll_overflow with gcc's documented meaning) compute
   what the hand-written model tagged_add computes. *)
Require Import VV.Base VV.BaseProofs VV.Tagged VV.TaggedProofs VV.TaggedSpecProofs VV.TaggedFixed VV.CSem VV.CSemProofs
  VV.TaggedSrcLen VV.TaggedSrcPut VV.TaggedSrcGet.
Require Import VVgen.Src_tagged.
From Coq Require Import Lia ZifyBool ZifyN ZifyNat.
Local Open Scope Z_scope.
Ltac Zify.zify_post_hook ::= Z.div_mod_to_equations.

Lemma lor_lt64 a b : (a < 18446744073709551616 -> b < 18446744073709551616 -> N.lor a b < 18446744073709551616)%N.
Proof.
  intros Ha Hb. change 18446744073709551616%N with (2 ^ 64)%N in *.
  destruct (N.eq_dec a 0) as [->|Na]; [rewrite N.lor_0_l; exact Hb|].
  destruct (N.eq_dec b 0) as [->|Nb]; [rewrite N.lor_0_r; exact Ha|].
  apply N.log2_lt_pow2; [destruct (N.lor a b) eqn:E; [apply N.lor_eq_0_iff in E; lia|lia]|].
  rewrite N.log2_lor. apply N.max_lub_lt; apply N.log2_lt_pow2; lia.
Qed.
Lemma shl64_lt a k : (shl64 a k < 18446744073709551616)%N.
Proof. unfold shl64. apply N.mod_lt. lia. Qed.
Lemma land32_lt a : (N.land 4294967295 a < 18446744073709551616)%N.
Proof.
  destruct (N.eq_dec (N.land 4294967295 a) 0) as [->|Nz]; [lia|].
  change 18446744073709551616%N with (2 ^ 64)%N. apply N.log2_lt_pow2; [lia|].
  pose proof (N.log2_land 4294967295 a) as H. change (N.log2 4294967295) with 31%N in H. lia.
Qed.

Lemma tagged_get_val_lt z n : bytes_ok z -> (snd (tagged_get z n) < 18446744073709551616)%N.
Proof.
  intro Hz.
  pose proof (bytes_ok_nth z 0 Hz). pose proof (bytes_ok_nth z 1 Hz). pose proof (bytes_ok_nth z 2 Hz).
  pose proof (bytes_ok_nth z 3 Hz). pose proof (bytes_ok_nth z 4 Hz). pose proof (bytes_ok_nth z 5 Hz).
  pose proof (bytes_ok_nth z 6 Hz). pose proof (bytes_ok_nth z 7 Hz). pose proof (bytes_ok_nth z 8 Hz).
  unfold tagged_get. cbv zeta. kill_ifs; cbn [snd]; unfold bor;
    repeat first [apply lor_lt64 | apply shl64_lt | apply land32_lt]; lia.
Qed.

Definition add_result (p : list N) (add : Z) (force : bool) : Z * list N :=
  (Z.of_N (fst (tagged_add p add force)), snd (tagged_add p add force)).

Lemma src_varintTaggedAddNoGrow_is_model p add :
  bytes_ok p -> -9223372036854775808 <= add <= 9223372036854775807 ->
  Z.of_N (tagged_getlen p) <= Z.of_nat (length p) ->
  src_varintTaggedAddNoGrow p add = COk (add_result p add false).
Proof.
  intros Hz Ha Hl.
  pose proof (bytes_ok_nth p 0 Hz) as Hb0.
  assert (G9 : (tagged_getlen p <= 9)%N) by (unfold tagged_getlen; cbv zeta; kill_ifs; lia).
  assert (G1 : (1 <= tagged_getlen p)%N) by (unfold tagged_getlen; cbv zeta; kill_ifs; lia).
  pose proof (tagged_get_width p 9 Hb0 ltac:(lia)) as Hw.
  pose proof (tagged_get_val_lt p 9 Hz) as Hv.
  unfold src_varintTaggedAddNoGrow. c_unfold. c_simp.
  rewrite src_varintTaggedGet64_is_model by (try assumption; lia).
  unfold get_result, add_result, tagged_add, tagged_get64. cbv zeta.
  set (g := tagged_get p 9) in *.
  destruct (fst g =? 0)%N eqn:E0; [lia|]. c_simp.
  unfold to_s64, in_s64, of_s64.
  repeat c_step. all: c_simp.
  all: try (apply cok_pair_eq; [lia|reflexivity]).
  all: match goal with |- context [src_varintTaggedLen ?X] =>
         match goal with |- context [tagged_len (Z.to_N ?Y)] => replace X with Y by lia end end.
  all: rewrite src_varintTaggedLen_is_model by lia.
  all: repeat c_step. all: c_simp.
  all: try (apply cok_pair_eq; [lia|reflexivity]).
  all: rewrite src_varintTaggedPut64_is_model by lia; reflexivity.
Qed.

Lemma src_varintTaggedAddGrow_is_model p add :
  bytes_ok p -> -9223372036854775808 <= add <= 9223372036854775807 ->
  Z.of_N (tagged_getlen p) <= Z.of_nat (length p) -> (9 <= length p)%nat ->
  src_varintTaggedAddGrow p add = COk (add_result p add true).
Proof.
  intros Hz Ha Hl H9.
  pose proof (bytes_ok_nth p 0 Hz) as Hb0.
  assert (G9 : (tagged_getlen p <= 9)%N) by (unfold tagged_getlen; cbv zeta; kill_ifs; lia).
  assert (G1 : (1 <= tagged_getlen p)%N) by (unfold tagged_getlen; cbv zeta; kill_ifs; lia).
  pose proof (tagged_get_width p 9 Hb0 ltac:(lia)) as Hw.
  pose proof (tagged_get_val_lt p 9 Hz) as Hv.
  unfold src_varintTaggedAddGrow. c_unfold. c_simp.
  rewrite src_varintTaggedGet64_is_model by (try assumption; lia).
  unfold get_result, add_result, tagged_add, tagged_get64. cbv zeta.
  set (g := tagged_get p 9) in *.
  destruct (fst g =? 0)%N eqn:E0; [lia|]. c_simp.
  unfold to_s64, in_s64, of_s64.
  repeat c_step. all: c_simp.
  all: try (apply cok_pair_eq; [lia|reflexivity]).
  all: match goal with |- context [src_varintTaggedLen ?X] =>
         match goal with |- context [tagged_len (Z.to_N ?Y)] => replace X with Y by lia end end.
  all: rewrite src_varintTaggedLen_is_model by lia.
  all: repeat c_step. all: c_simp.
  all: try (apply cok_pair_eq; [lia|reflexivity]).
  all: match goal with |- context [tagged_len ?V] => pose proof (tagged_len_range V) end.
  all: rewrite src_varintTaggedPut64_is_model by lia; reflexivity.
Qed.
