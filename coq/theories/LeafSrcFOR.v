(* LeafSrcFOR.v — the regenerated rendering (coq/gen/Src_leaf_for.v, produced by
   gen/c2coq.py from the current src/varintFOR.c + the varintExternalUnsignedEncoding
   macro of varintExternal.h) of varintFORComputeWidth computes what the hand
   model (FOR.v: for_compute_width = ext_width) computes, on all of uint64_t; and the
   width part of C16 for_analyze_truth restated about it.

   The `while ((v >>= 8) != 0) width++` loop takes at most 8 iterations: the
   case split is the model's (the eight byte-width classes), the loop is
   unrolled one iteration at a time and every `if` decided wherever it stands. *)
Require Import VV.Base VV.BaseProofs VV.Tagged VV.Delta VV.FOR VV.FORProofs VV.CSem VV.CSemProofs VV.LeafSrcLemmas.
Require Import VVgen.Src_leaf_for.
From Coq Require Import Lia ZifyBool ZifyN ZifyNat.
Local Open Scope Z_scope.
Ltac Zify.zify_post_hook ::= Z.div_mod_to_equations.

Lemma ext_width_classes v : (v < 18446744073709551616)%N ->
  ((v < 256 /\ ext_width v = 1%nat) \/ (256 <= v < 65536 /\ ext_width v = 2%nat) \/
   (65536 <= v < 16777216 /\ ext_width v = 3%nat) \/ (16777216 <= v < 4294967296 /\ ext_width v = 4%nat) \/
   (4294967296 <= v < 1099511627776 /\ ext_width v = 5%nat) \/
   (1099511627776 <= v < 281474976710656 /\ ext_width v = 6%nat) \/
   (281474976710656 <= v < 72057594037927936 /\ ext_width v = 7%nat) \/
   (72057594037927936 <= v /\ ext_width v = 8%nat))%N.
Proof.
  intro H.
  assert (C : (v < 256 \/ 256 <= v < 65536 \/ 65536 <= v < 16777216 \/ 16777216 <= v < 4294967296 \/
               4294967296 <= v < 1099511627776 \/ 1099511627776 <= v < 281474976710656 \/
               281474976710656 <= v < 72057594037927936 \/ 72057594037927936 <= v)%N) by lia.
  repeat (destruct C as [C|C]).
  1: left. 2: right; left. 3: do 2 right; left. 4: do 3 right; left. 5: do 4 right; left.
  6: do 5 right; left. 7: do 6 right; left. 8: do 7 right.
  all: split; [exact C|]; apply ext_width_unique; try lia.
  all: cbn [Nat.sub N.of_nat Pos.of_succ_nat Pos.succ]; try (right; lia); try (left; reflexivity); lia.
Qed.

Lemma src_varintFORComputeWidth_is_model : forall fuel range, (8 <= fuel)%nat ->
  0 <= range < 18446744073709551616 ->
  src_varintFORComputeWidth fuel range = COk (Z.of_N (for_compute_width (Z.to_N range))).
Proof.
  intros fuel v Hf Hv. peel_fuel fuel 8%nat. unfold for_compute_width.
  destruct (ext_width_classes (Z.to_N v) ltac:(lia)) as [C|[C|[C|[C|[C|[C|[C|C]]]]]]];
    destruct C as [C L]; rewrite L; clear L.
  all: unfold src_varintFORComputeWidth; c_unfold.
  all: repeat c_step; repeat (rewrite c_while_S; unfold bind; repeat c_step); c_simp.
  all: reflexivity.
Qed.

(* ---------- property C16, FOR width part, about the regenerated function ---------- *)

(* the width is the least number of bytes that holds the range *)
Theorem src_for_compute_width_least : forall fuel r, (8 <= fuel)%nat -> (r < 18446744073709551616)%N ->
  exists w, src_varintFORComputeWidth fuel (Z.of_N r) = COk (Z.of_N w) /\
    (1 <= w <= 8 /\ r < 256 ^ w /\ (w = 1 \/ 256 ^ (w - 1) <= r))%N.
Proof.
  intros fuel r Hf Hr. exists (N.of_nat (ext_width r)).
  rewrite src_varintFORComputeWidth_is_model by lia. rewrite N2Z.id.
  split; [reflexivity|]. destruct (ext_width_bounds r Hr) as (A & B & C).
  split; [lia|]. split; [exact B|]. destruct C as [C|C]; [left; lia|right].
  replace (N.of_nat (ext_width r) - 1)%N with (N.of_nat (ext_width r - 1)) by lia. exact C.
Qed.

(* the offsetWidth that varintFORAnalyze stores is varintFORComputeWidth(range) of the
   regenerated source, range = max - min *)
Theorem src_for_analyze_width : forall xs fuel,
  xs <> [] -> Forall (fun x => (x < 18446744073709551616)%N) xs -> (8 <= fuel)%nat ->
  exists m, for_analyze xs = Some m /\
    (fm_range m = fm_max m - fm_min m)%N /\
    src_varintFORComputeWidth fuel (Z.of_N (fm_range m)) = COk (Z.of_N (fm_width m)) /\
    (fm_range m < 256 ^ fm_width m)%N /\
    (fm_width m = 1 \/ 256 ^ (fm_width m - 1) <= fm_range m)%N.
Proof.
  intros xs fuel Hne Hx Hf.
  destruct (for_analyze_truth xs Hne Hx) as (m & A & _ & _ & Imax & Hb & R & _ & W & P & Q).
  exists m. split; [exact A|]. split; [exact R|].
  assert (Hr : (fm_range m < 18446744073709551616)%N).
  { rewrite Forall_forall in Hx. pose proof (Hx _ Imax). lia. }
  rewrite src_varintFORComputeWidth_is_model by lia. rewrite N2Z.id.
  unfold for_compute_width. rewrite W. split; [reflexivity|]. rewrite <- W. split; assumption.
Qed.
