(* DictProofs.v — facts about the dictionary model (Dict.v): indexed arrays,
   the sorted distinct list, binary search, index bytes. *)
Require Import VV.Base VV.BaseProofs VV.Tagged VV.TaggedProofs VV.TaggedSpecProofs.
Require Import VV.RLELemmas VV.RLE VV.RLESpec VV.RLEProofs VV.Dict.
From Coq Require Import Lia ZifyBool ZifyN ZifyNat Sorted Permutation FSets.FMapPositive.
Local Open Scope N_scope.
Ltac Zify.zify_post_hook ::= Z.div_mod_to_equations.

(* ---------------------------------------------------------------- arrays *)
Lemma succ_pos_inj i j : N.succ_pos i = N.succ_pos j -> i = j.
Proof.
  intro H. assert (E : N.pos (N.succ_pos i) = N.pos (N.succ_pos j)) by (rewrite H; reflexivity).
  rewrite !N.succ_pos_spec in E. lia.
Qed.

Lemma dict_arr_get_add i x a j :
  dict_arr_get (PositiveMap.add (N.succ_pos i) x a) j = if j =? i then x else dict_arr_get a j.
Proof.
  unfold dict_arr_get. destruct (j =? i) eqn:E.
  - apply N.eqb_eq in E. subst. rewrite PositiveMap.gss. reflexivity.
  - rewrite PositiveMap.gso; [reflexivity|]. intro H. apply succ_pos_inj in H.
    apply N.eqb_neq in E. congruence.
Qed.

Lemma dict_arr_fill_get l : forall i a j,
  dict_arr_get (dict_arr_fill l i a) j
  = if (i <=? j) && (j <? i + N.of_nat (length l)) then nth (N.to_nat (j - i)) l 0 else dict_arr_get a j.
Proof.
  induction l as [|x t IH]; intros i a j.
  - cbn [dict_arr_fill length]. destruct ((i <=? j) && (j <? i + N.of_nat 0)) eqn:E; [lia|reflexivity].
  - cbn [dict_arr_fill]. rewrite IH, dict_arr_get_add. cbn [length].
    destruct ((i + 1 <=? j) && (j <? i + 1 + N.of_nat (length t))) eqn:E1.
    + replace ((i <=? j) && (j <? i + N.of_nat (S (length t)))) with true by lia.
      replace (N.to_nat (j - i)) with (S (N.to_nat (j - (i + 1)))) by lia. reflexivity.
    + destruct (j =? i) eqn:E2.
      * replace ((i <=? j) && (j <? i + N.of_nat (S (length t)))) with true by lia.
        replace (N.to_nat (j - i)) with 0%nat by lia. reflexivity.
      * replace ((i <=? j) && (j <? i + N.of_nat (S (length t)))) with false by lia. reflexivity.
Qed.

Theorem dict_arr_get_of_list l j : dict_arr_get (dict_arr_of_list l) j = nth (N.to_nat j) l 0.
Proof.
  unfold dict_arr_of_list. rewrite dict_arr_fill_get.
  destruct ((0 <=? j) && (j <? 0 + N.of_nat (length l))) eqn:E.
  - rewrite N.sub_0_r. reflexivity.
  - unfold dict_arr_get. rewrite PositiveMap.gempty. symmetry. apply nth_overflow. lia.
Qed.

(* ---------------------------------------------------------------- sorted distinct list *)
Definition sdist (u : list N) : Prop := StronglySorted N.lt u.

Lemma sdist_nth_lt u : sdist u -> forall i j, (i < j < length u)%nat -> nth i u 0 < nth j u 0.
Proof.
  induction 1 as [|x u Hs IH Hall]; intros i j Hij; [cbn in Hij; lia|].
  destruct j as [|j]; [lia|]. cbn [nth]. destruct i as [|i].
  - rewrite Forall_forall in Hall. apply Hall. apply nth_In. cbn in Hij. lia.
  - apply IH. cbn in Hij. lia.
Qed.

Lemma sdist_nth_inj u : sdist u -> forall i j, (i < length u)%nat -> (j < length u)%nat ->
  nth i u 0 = nth j u 0 -> i = j.
Proof.
  intros Hs i j Hi Hj E. destruct (Nat.lt_trichotomy i j) as [L|[Eq|G]]; [|exact Eq|].
  - pose proof (sdist_nth_lt u Hs i j ltac:(lia)). lia.
  - pose proof (sdist_nth_lt u Hs j i ltac:(lia)). lia.
Qed.

Lemma dict_uniq_loop_spec l : forall prev, StronglySorted N.le (prev :: l) ->
  sdist (dict_uniq_loop prev l) /\ Forall (fun y => prev < y) (dict_uniq_loop prev l) /\
  (forall x, In x (dict_uniq_loop prev l) <-> In x l /\ x <> prev).
Proof.
  induction l as [|x t IH]; intros prev Hs.
  - cbn. split; [constructor|]. split; [constructor|]. intro y. tauto.
  - inversion Hs as [|? ? Hs' Hall]; subst. inversion Hall as [|? ? Hpx Hpt]; subst.
    inversion Hs' as [|? ? Hs'' Hxt]; subst.
    cbn [dict_uniq_loop]. destruct (x =? prev) eqn:E.
    + apply N.eqb_eq in E. subst x. destruct (IH prev) as (A & B & C).
      { constructor; assumption. }
      split; [exact A|]. split; [exact B|]. intro y. split.
      * intro H. apply C in H. destruct H. split; [right; assumption|assumption].
      * intros [[H|H] Hn]; [congruence|]. apply C. split; assumption.
    + apply N.eqb_neq in E. destruct (IH x Hs') as (A & B & C).
      split; [|split].
      * constructor; [exact A|exact B].
      * constructor; [lia|]. eapply Forall_impl; [|exact B]. cbn. intros; lia.
      * intro y. split.
        -- intros [H|H]; [subst; split; [left; reflexivity|lia]|].
           apply C in H. destruct H as [H1 H2]. split; [right; exact H1|].
           rewrite Forall_forall in Hxt. specialize (Hxt _ H1). lia.
        -- intros [[H|H] Hn]; [left; exact H|].
           destruct (N.eq_dec y x) as [->|Hne]; [left; reflexivity|right].
           apply C. split; assumption.
Qed.

Lemma dict_uniq_sorted_spec l : StronglySorted N.le l ->
  sdist (dict_uniq_sorted l) /\ (forall x, In x (dict_uniq_sorted l) <-> In x l).
Proof.
  intro Hs. destruct l as [|x t]; [split; [constructor|tauto]|].
  cbn [dict_uniq_sorted]. destruct (dict_uniq_loop_spec t x Hs) as (A & B & C). split.
  - constructor; assumption.
  - intro y. split.
    + intros [H|H]; [left; exact H|right; apply C in H; tauto].
    + intros [H|H]; [left; exact H|].
      destruct (N.eq_dec y x) as [->|Hne]; [left; reflexivity|right; apply C; tauto].
Qed.

Lemma dict_qsort64_sorted l : StronglySorted N.le (dict_qsort64 l).
Proof.
  unfold dict_qsort64.
  assert (T : Relations_1.Transitive (fun x y : N => is_true (x <=? y))).
  { intros a b c H1 H2. unfold is_true in *. lia. }
  pose proof (DictNSort.StronglySorted_sort l T) as H.
  induction H as [|x u Hs IH Hall]; constructor; [exact IH|].
  eapply Forall_impl; [|exact Hall]. cbn. intros y Hy. unfold is_true in Hy. lia.
Qed.

Lemma dict_qsort64_in l x : In x (dict_qsort64 l) <-> In x l.
Proof.
  unfold dict_qsort64. pose proof (DictNSort.Permuted_sort l) as P. split; intro H.
  - eapply Permutation_in; [apply Permutation_sym; exact P|exact H].
  - eapply Permutation_in; [exact P|exact H].
Qed.

(* the dictionary: strictly increasing, same elements as the input *)
Definition dict_values_of (xs : list N) : list N := dict_uniq_sorted (dict_qsort64 xs).

Lemma dict_values_of_spec xs :
  sdist (dict_values_of xs) /\ (forall x, In x (dict_values_of xs) <-> In x xs).
Proof.
  unfold dict_values_of. destruct (dict_uniq_sorted_spec (dict_qsort64 xs) (dict_qsort64_sorted xs)) as (A & B).
  split; [exact A|]. intro x. rewrite B. apply dict_qsort64_in.
Qed.

(* the sorted distinct list is unique: any strictly increasing list with the
   same elements is this one (qsort's choice among equal keys is invisible) *)
Lemma sdist_unique u v : sdist u -> sdist v -> (forall x, In x u <-> In x v) -> u = v.
Proof.
  intros Hu. revert v. induction Hu as [|a u Hu IH Ha]; intros v Hv Hin.
  - destruct v as [|b v]; [reflexivity|]. exfalso. apply (Hin b). left. reflexivity.
  - destruct v as [|b v]; [exfalso; apply (Hin a); left; reflexivity|].
    inversion Hv as [|? ? Hv' Hb]; subst.
    rewrite Forall_forall in Ha, Hb.
    assert (a = b).
    { assert (Ia : In a (b :: v)) by (apply Hin; left; reflexivity).
      assert (Ib : In b (a :: u)) by (apply Hin; left; reflexivity).
      destruct Ia as [->|Ia]; [reflexivity|]. destruct Ib as [->|Ib]; [reflexivity|].
      specialize (Ha _ Ib). specialize (Hb _ Ia). lia. }
    subst b. f_equal. apply IH; [exact Hv'|]. intro x. split; intro H.
    + assert (Hx : In x (a :: v)) by (apply Hin; right; exact H).
      destruct Hx as [<-|Hx]; [specialize (Ha _ H); lia|exact Hx].
    + assert (Hx : In x (a :: u)) by (apply Hin; right; exact H).
      destruct Hx as [<-|Hx]; [specialize (Hb _ H); lia|exact Hx].
Qed.

(* ---------------------------------------------------------------- binary search *)
Lemma bsearch_found u : sdist u -> forall fuel target left right idx,
  (idx < length u)%nat -> nth idx u 0 = target ->
  (0 <= left <= Z.of_nat idx)%Z -> (Z.of_nat idx <= right < Z.of_nat (length u))%Z ->
  (right - left + 1 < 2 ^ Z.of_nat fuel)%Z ->
  dict_bsearch_loop fuel (dict_arr_of_list u) target left right = Some (Z.of_nat idx).
Proof.
  intros Hs. induction fuel as [|f IH]; intros target left right idx Hi Hn Hl Hr Hf.
  - cbn in Hf. lia.
  - cbn [dict_bsearch_loop]. replace (left <=? right)%Z with true by lia.
    rewrite Z.div2_div. set (mid := (left + (right - left) / 2)%Z).
    rewrite dict_arr_get_of_list.
    assert (Hmid : (left <= mid <= right)%Z) by (subst mid; lia).
    set (m := N.to_nat (Z.to_N mid)). assert (Hm : Z.of_nat m = mid) by lia.
    rewrite Nat2Z.inj_succ, Z.pow_succ_r in Hf by lia.
    set (P := (2 ^ Z.of_nat f)%Z) in *.
    destruct (nth m u 0 =? target) eqn:E1.
    + apply N.eqb_eq in E1. f_equal.
      assert (m = idx) by (apply (sdist_nth_inj u Hs); [lia|lia|congruence]). lia.
    + apply N.eqb_neq in E1. destruct (nth m u 0 <? target) eqn:E2.
      * assert (m < idx)%nat.
        { destruct (Nat.lt_trichotomy m idx) as [L|[Eq|G]]; [exact L|subst; congruence|].
          pose proof (sdist_nth_lt u Hs idx m ltac:(lia)). lia. }
        apply IH; try assumption; try lia; subst mid; lia.
      * assert (idx < m)%nat.
        { destruct (Nat.lt_trichotomy m idx) as [L|[Eq|G]]; [|subst; congruence|exact G].
          pose proof (sdist_nth_lt u Hs m idx ltac:(lia)). lia. }
        apply IH; try assumption; try lia; subst mid; lia.
Qed.

Lemma bsearch_result f : forall a target left right,
  (0 <= left)%Z -> (right - left + 1 < 2 ^ Z.of_nat f)%Z ->
  exists r, dict_bsearch_loop (S f) a target left right = Some r /\
            (r = (-1)%Z \/ ((left <= r <= right)%Z /\ dict_arr_get a (Z.to_N r) = target)).
Proof.
  induction f as [|f IH]; intros a target left right Hl Hf.
  - cbn in Hf. cbn [dict_bsearch_loop]. replace (left <=? right)%Z with false by lia.
    exists (-1)%Z. split; [reflexivity|left; reflexivity].
  - remember (S f) as g. cbn [dict_bsearch_loop]. subst g.
    destruct (left <=? right)%Z eqn:E0; [|exists (-1)%Z; split; [reflexivity|left; reflexivity]].
    rewrite Z.div2_div. set (mid := (left + (right - left) / 2)%Z).
    assert (Hmid : (left <= mid <= right)%Z) by (subst mid; lia).
    rewrite Nat2Z.inj_succ, Z.pow_succ_r in Hf by lia.
    set (P := (2 ^ Z.of_nat f)%Z) in *.
    destruct (dict_arr_get a (Z.to_N mid) =? target) eqn:E1.
    + exists mid. split; [reflexivity|right]. split; [exact Hmid|]. apply N.eqb_eq. exact E1.
    + destruct (dict_arr_get a (Z.to_N mid) <? target).
      * destruct (IH a target (mid + 1)%Z right) as (r & Hr & Hc); [lia|subst mid; lia|].
        exists r. split; [exact Hr|]. destruct Hc as [Hc|[Hc1 Hc2]]; [left; exact Hc|right; split; [lia|exact Hc2]].
      * destruct (IH a target left (mid - 1)%Z) as (r & Hr & Hc); [lia|subst mid; lia|].
        exists r. split; [exact Hr|]. destruct Hc as [Hc|[Hc1 Hc2]]; [left; exact Hc|right; split; [lia|exact Hc2]].
Qed.

Fixpoint dict_find_index (u : list N) (v : N) : nat :=
  match u with
  | [] => 0%nat
  | x :: t => if x =? v then 0%nat else S (dict_find_index t v)
  end.

Lemma dict_find_index_spec u v : In v u -> (dict_find_index u v < length u)%nat /\ nth (dict_find_index u v) u 0 = v.
Proof.
  induction u as [|x t IH]; intro H; [destruct H|].
  cbn [dict_find_index]. destruct (x =? v) eqn:E.
  - apply N.eqb_eq in E. subst. cbn. split; [lia|reflexivity].
  - destruct H as [H|H]; [apply N.eqb_neq in E; congruence|].
    destruct (IH H) as (A & B). cbn [length nth]. split; [lia|exact B].
Qed.

Lemma dict_to_s32_size size : 1 <= size <= 2147483648 ->
  dict_to_s32 (u32 (size + 4294967296 - 1)) = (Z.of_N size - 1)%Z.
Proof. intro H. unfold dict_to_s32, u32. destruct (_ <? 2147483648) eqn:E; lia. Qed.

(* varintDictFind on a dictionary produced by varintDictBuild *)
Theorem dict_find_found u v : sdist u -> 1 <= N.of_nat (length u) <= 1048576 -> In v u ->
  dict_find_arr (dict_arr_of_list u) (N.of_nat (length u)) v = Some (Z.of_nat (dict_find_index u v)).
Proof.
  intros Hs Hlen Hin. destruct (dict_find_index_spec u v Hin) as (A & B).
  unfold dict_find_arr. replace (N.of_nat (length u) =? 0) with false by lia.
  unfold dict_binary_search. rewrite dict_to_s32_size by lia.
  apply bsearch_found; try assumption; try lia;
  change (2 ^ Z.of_nat 33)%Z with 8589934592%Z; lia.
Qed.

Theorem dict_find_absent u v : 1 <= N.of_nat (length u) <= 1048576 -> ~ In v u ->
  dict_find_arr (dict_arr_of_list u) (N.of_nat (length u)) v = Some (-1)%Z.
Proof.
  intros Hlen Hnin.
  unfold dict_find_arr. replace (N.of_nat (length u) =? 0) with false by lia.
  unfold dict_binary_search. rewrite dict_to_s32_size by lia.
  destruct (bsearch_result 32 (dict_arr_of_list u) v 0%Z (Z.of_N (N.of_nat (length u)) - 1)%Z) as (r & Hr & Hc).
  - lia.
  - change (2 ^ Z.of_nat 32)%Z with 4294967296%Z. lia.
  - rewrite Hr. destruct Hc as [->|[Hc1 Hc2]]; [reflexivity|].
    exfalso. apply Hnin. rewrite dict_arr_get_of_list in Hc2. rewrite <- Hc2. apply nth_In. lia.
Qed.

(* ---------------------------------------------------------------- index bytes *)
Lemma land255 x : N.land x 255 = x mod 256.
Proof. change 255 with (N.ones 8). rewrite N.land_ones. reflexivity. Qed.

Lemma dict_ext_put_quick_le v w : dict_ext_put_quick v w = le_bytes w v.
Proof.
  destruct w as [|[|[|[|w]]]]; try reflexivity.
  - cbn [dict_ext_put_quick le_bytes]. rewrite !land255. unfold shr. reflexivity.
  - cbn [dict_ext_put_quick le_bytes]. rewrite !land255. unfold shr.
    rewrite N.div_div by lia. reflexivity.
Qed.

Lemma dict_ext_get_quick_ge4 z w : (4 <= w)%nat -> dict_ext_get_quick z w = of_le (firstn w (z ++ repeat 0 w)).
Proof. intro H. destruct w as [|[|[|[|w]]]]; try lia. reflexivity. Qed.

Lemma firstn_app_len' {A} (a b : list A) k : k = length a -> firstn k (a ++ b) = a.
Proof. intros ->. apply firstn_app_len. Qed.

Lemma dict_ext_get_quick_le w idx rest : (1 <= w <= 8)%nat -> idx < 256 ^ N.of_nat w ->
  dict_ext_get_quick (le_bytes w idx ++ rest) w = idx.
Proof.
  intros Hw Hi. destruct (Nat.le_gt_cases 4 w) as [H4|H4].
  - rewrite dict_ext_get_quick_ge4 by exact H4. rewrite <- app_assoc.
    rewrite firstn_app_len' by (symmetry; apply length_le_bytes).
    rewrite of_le_le_bytes. apply N.mod_small. exact Hi.
  - destruct w as [|[|[|[|w]]]]; try lia.
    + change (256 ^ N.of_nat 1) with 256 in Hi. unfold dict_ext_get_quick. cbn [le_bytes app byte_at nth]. lia.
    + change (256 ^ N.of_nat 2) with 65536 in Hi. unfold dict_ext_get_quick. cbn [le_bytes app byte_at nth].
      rewrite shl_lor_small by lia. lia.
    + change (256 ^ N.of_nat 3) with 16777216 in Hi. unfold dict_ext_get_quick. cbn [le_bytes app byte_at nth].
      rewrite be3 by lia. lia.
Qed.

Lemma dict_index_width_bounds size : 1 <= size < 18446744073709551616 ->
  (1 <= dict_index_width size <= 8)%nat /\ size - 1 < 256 ^ N.of_nat (dict_index_width size).
Proof.
  intro H. unfold dict_index_width. replace (size =? 0) with false by lia.
  destruct (ext_width_bounds (size - 1)) as (A & B & _); [lia|]. split; assumption.
Qed.

Definition index_bytes (u : list N) (w : nat) (vs : list N) : list N :=
  flat_map (fun v => le_bytes w (N.of_nat (dict_find_index u v))) vs.

Lemma index_bytes_len u w vs : length (index_bytes u w vs) = (length vs * w)%nat.
Proof.
  induction vs as [|v t IH]; [reflexivity|].
  unfold index_bytes in *. cbn [flat_map]. rewrite app_length, length_le_bytes, IH. cbn [length]. lia.
Qed.

Lemma dict_encode_indices_ok u w : sdist u -> 1 <= N.of_nat (length u) <= 1048576 ->
  forall vs, (forall v, In v vs -> In v u) ->
  dict_encode_indices (dict_arr_of_list u) (N.of_nat (length u)) w vs = (index_bytes u w vs, true).
Proof.
  intros Hs Hlen. induction vs as [|v t IH]; intro Hin; [reflexivity|].
  cbn [dict_encode_indices]. rewrite dict_find_found by (try assumption; apply Hin; left; reflexivity).
  replace (Z.of_nat (dict_find_index u v) <? 0)%Z with false by lia.
  rewrite IH by (intros; apply Hin; right; assumption). cbn [fst snd].
  rewrite dict_ext_put_quick_le. replace (Z.to_N (Z.of_nat (dict_find_index u v))) with (N.of_nat (dict_find_index u v)) by lia.
  reflexivity.
Qed.

(* a value missing from the dictionary stops the encoder with "return 0";
   the bytes written so far are a prefix of what the predictor allows *)
Lemma dict_encode_indices_len a size w vs :
  (length (fst (dict_encode_indices a size w vs)) <= length vs * w)%nat.
Proof.
  induction vs as [|v t IH]; [cbn; lia|].
  cbn [dict_encode_indices]. destruct (dict_find_arr a size v) as [idx|]; [|cbn; lia].
  destruct (idx <? 0)%Z; [cbn; lia|]. cbn [fst]. rewrite app_length, dict_ext_put_quick_le, length_le_bytes.
  cbn [length]. lia.
Qed.

(* ---------------------------------------------------------------- header *)
Definition entry_bytes (u : list N) : list N := flat_map tagged_put64 u.

Lemma entry_bytes_len_ge u : (length u <= length (entry_bytes u))%nat.
Proof.
  induction u as [|x t IH]; [cbn; lia|]. unfold entry_bytes in *. cbn [flat_map length].
  rewrite app_length. pose proof (tagged_len_ge1 x). rewrite tagged_put_len_nat. lia.
Qed.

Lemma entry_bytes_fold u : forall s,
  fold_left (fun s v => s + tagged_len v) u s = s + N.of_nat (length (entry_bytes u)).
Proof.
  induction u as [|x t IH]; intro s; [cbn; lia|].
  cbn [fold_left]. rewrite IH. unfold entry_bytes. cbn [flat_map]. rewrite app_length, tagged_put_len_nat. lia.
Qed.

Lemma dict_read_entries_ok u : forall fuel rest avail i dictSize,
  all_u64 u -> i + N.of_nat (length u) = dictSize ->
  N.of_nat (length (entry_bytes u)) <= avail -> (length u < fuel)%nat ->
  dict_read_entries fuel (entry_bytes u ++ rest) avail i dictSize
  = Some (Some (u, avail - N.of_nat (length (entry_bytes u)))).
Proof.
  induction u as [|x t IH]; intros fuel rest avail i dictSize Hu Hsum Hav Hf.
  - destruct fuel as [|f]; [lia|]. cbn [dict_read_entries]. cbn [length] in Hsum.
    replace (i <? dictSize) with false by lia. cbn [entry_bytes flat_map length]. rewrite N.sub_0_r. reflexivity.
  - pose proof (Forall_inv Hu) as Hx. pose proof (Forall_inv_tail Hu) as Ht. destruct fuel as [|f]; [cbn in Hf; lia|].
    cbn [dict_read_entries]. cbn [length] in Hsum, Hf. subst dictSize. replace (i <? i + N.of_nat (S (length t))) with true by lia.
    unfold entry_bytes in *. cbn [flat_map] in *. rewrite app_length, tagged_put_len_nat in Hav.
    rewrite <- app_assoc.
    rewrite tagged_roundtrip by (try exact Hx; apply rle_tagged_avail_ge; lia).
    cbn [fst snd]. pose proof (tagged_len_ge1 x). replace (tagged_len x =? 0) with false by lia.
    rewrite skipn_put. rewrite (IH f rest (avail - tagged_len x) (i + 1) (i + N.of_nat (S (length t))))
      by (assumption || lia).
    rewrite app_length, tagged_put_len_nat. f_equal. f_equal. f_equal. lia.
Qed.

Definition header_bytes (u : list N) (count : N) : list N :=
  tagged_put64 (N.of_nat (length u)) ++ entry_bytes u ++ tagged_put64 count.

Lemma header_bytes_len u count :
  N.of_nat (length (header_bytes u count))
  = tagged_len (N.of_nat (length u)) + N.of_nat (length (entry_bytes u)) + tagged_len count.
Proof. unfold header_bytes. rewrite !app_length, !tagged_put_len_nat. lia. Qed.

Lemma dict_read_header_ok u count rest n :
  all_u64 u -> N.of_nat (length u) <= 1048576 -> u64_ok count ->
  N.of_nat (length (header_bytes u count)) <= n ->
  dict_read_header (header_bytes u count ++ rest) n
  = DictHOk u (N.of_nat (length u)) count (n - N.of_nat (length (header_bytes u count)))
        [8 * N.of_nat (length u)].
Proof.
  intros Hu Hlen Hc Hn. rewrite header_bytes_len in *.
  pose proof (tagged_len_ge1 (N.of_nat (length u))). pose proof (tagged_len_ge1 count).
  pose proof (entry_bytes_len_ge u) as Hge.
  unfold dict_read_header, header_bytes. replace (n =? 0) with false by lia.
  rewrite <- !app_assoc.
  rewrite tagged_roundtrip by (try (unfold u64_ok; lia); apply rle_tagged_avail_ge; lia).
  cbn [fst snd]. replace (tagged_len (N.of_nat (length u)) =? 0) with false by lia.
  unfold dict_max_size. replace (1048576 <? N.of_nat (length u)) with false by lia.
  rewrite skipn_put.
  replace (u32 (N.of_nat (length u))) with (N.of_nat (length u)) by (unfold u32; lia).
  rewrite dict_read_entries_ok by (try assumption; lia).
  set (a1 := n - tagged_len (N.of_nat (length u))).
  replace (N.to_nat (a1 - (a1 - N.of_nat (length (entry_bytes u))))) with (length (entry_bytes u)) by lia.
  rewrite skipn_app_len.
  rewrite tagged_roundtrip by (try exact Hc; apply rle_tagged_avail_ge; lia).
  cbn [fst snd]. replace (tagged_len count =? 0) with false by lia.
  f_equal; [lia|]. f_equal. unfold mul64. lia.
Qed.

(* ---------------------------------------------------------------- index decoding *)
Lemma dict_decode_indices_ok u w : (1 <= w <= 8)%nat -> N.of_nat (length u) <= 256 ^ N.of_nat w ->
  forall vs fuel rest i count, (forall v, In v vs -> In v u) ->
  i + N.of_nat (length vs) = count -> (length vs < fuel)%nat ->
  dict_decode_indices fuel (dict_arr_of_list u) (N.of_nat (length u)) w (index_bytes u w vs ++ rest) i count
  = Some (vs, true).
Proof.
  intros Hw Hlen. induction vs as [|v t IH]; intros fuel rest i count Hin Hsum Hf.
  - destruct fuel as [|f]; [lia|]. cbn [dict_decode_indices]. cbn [length] in Hsum.
    replace (i <? count) with false by lia. reflexivity.
  - destruct fuel as [|f]; [cbn in Hf; lia|]. cbn [dict_decode_indices]. cbn [length] in Hsum, Hf.
    replace (i <? count) with true by lia.
    destruct (dict_find_index_spec u v (Hin v (or_introl eq_refl))) as (A & B).
    unfold index_bytes. cbn [flat_map]. rewrite <- app_assoc.
    rewrite dict_ext_get_quick_le by (try exact Hw; lia).
    replace (N.of_nat (length u) <=? N.of_nat (dict_find_index u v)) with false by lia.
    rewrite skipn_app_len' by (symmetry; apply length_le_bytes).
    fold (index_bytes u w t).
    rewrite (IH f rest (i + 1) count) by (try lia; intros; apply Hin; right; assumption).
    rewrite dict_arr_get_of_list. replace (N.to_nat (N.of_nat (dict_find_index u v))) with (dict_find_index u v) by lia.
    rewrite B. reflexivity.
Qed.

(* ---------------------------------------------------------------- build / encode *)
Lemma dict_build_ok xs d : dict_build xs = DictBuildOk d ->
  xs <> [] /\
  d = mk_dict (dict_values_of xs) (N.of_nat (length (dict_values_of xs)))
              (dict_index_width (N.of_nat (length (dict_values_of xs)))) /\
  1 <= N.of_nat (length (dict_values_of xs)) <= 1048576.
Proof.
  unfold dict_build. destruct xs as [|x t]; [discriminate|]. fold (dict_values_of (x :: t)).
  set (u := dict_values_of (x :: t)).
  destruct (4294967296 <=? N.of_nat (length u)) eqn:E1; [discriminate|].
  replace (u32 (N.of_nat (length u))) with (N.of_nat (length u)) by (unfold u32; lia).
  unfold dict_max_size. destruct (1048576 <? N.of_nat (length u)) eqn:E2; [discriminate|].
  intro H. inversion H; subst d. split; [discriminate|]. split; [reflexivity|].
  assert (In x u) by (apply dict_values_of_spec; left; reflexivity).
  destruct u; [contradiction|]. cbn [length]. cbn [length] in E2. lia.
Qed.

(* more than VARINT_DICT_MAX_SIZE distinct values: the encoder refuses *)
Lemma dict_build_refuses xs : 1048576 < N.of_nat (length (dict_values_of xs)) ->
  fst (dict_encode xs) = [] /\ dict_ret (dict_encode xs) = 0 /\ dict_encoded_size xs = 0.
Proof.
  intro H. unfold dict_encode, dict_encoded_size, dict_build. destruct xs as [|x t]; [cbn; auto|].
  fold (dict_values_of (x :: t)). set (u := dict_values_of (x :: t)) in *.
  destruct (4294967296 <=? N.of_nat (length u)) eqn:E0; [cbn; auto|].
  destruct (dict_max_size <? u32 (N.of_nat (length u))) eqn:E; [cbn; auto|].
  unfold dict_max_size, u32 in E. lia.
Qed.

(* ---- encoding with a given well-formed dictionary (shared dictionaries) ---- *)
Definition dict_of (u : list N) : dict :=
  mk_dict u (N.of_nat (length u)) (dict_index_width (N.of_nat (length u))).

Definition dict_bytes_with (u xs : list N) : list N :=
  header_bytes u (N.of_nat (length xs))
  ++ index_bytes u (dict_index_width (N.of_nat (length u))) xs.

Definition dict_bytes (xs : list N) : list N := dict_bytes_with (dict_values_of xs) xs.

Lemma dict_build_is_dict_of xs d : dict_build xs = DictBuildOk d -> d = dict_of (dict_values_of xs).
Proof. intro H. apply dict_build_ok in H. tauto. Qed.

Lemma dict_values_u64 xs : all_u64 xs -> all_u64 (dict_values_of xs).
Proof.
  intro H. unfold all_u64 in *. rewrite Forall_forall in *. intros x Hx.
  apply H. apply dict_values_of_spec. exact Hx.
Qed.

Section WithDict.
  Variable u xs : list N.
  Hypothesis Hs : sdist u.
  Hypothesis Hlen : 1 <= N.of_nat (length u) <= 1048576.
  Hypothesis Hu : all_u64 u.
  Hypothesis Hne : xs <> [].
  Hypothesis Hin : forall v, In v xs -> In v u.
  Hypothesis Hcnt : u64_ok (N.of_nat (length xs)).

  Let w := dict_index_width (N.of_nat (length u)).
  Let count := N.of_nat (length xs).
  Let n := N.of_nat (length (dict_bytes_with u xs)).

  (* varintDictEncodeWithDict writes exactly: [size][entries][count][one
     little-endian index of fixed width per value] *)
  Theorem dict_encode_with_dict_is_spec :
    dict_encode_with_dict (dict_of u) xs = (dict_bytes_with u xs, true).
  Proof.
    unfold dict_encode_with_dict, dict_of. destruct xs as [|x t]; [congruence|].
    cbn [dct_size dct_values dct_index_width]. unfold dict_max_size.
    replace (1048576 <? N.of_nat (length u)) with false by lia.
    rewrite dict_encode_indices_ok by assumption.
    cbn [fst snd]. unfold dict_bytes_with, header_bytes, entry_bytes. rewrite <- !app_assoc. reflexivity.
  Qed.

  Lemma rt_facts :
    (1 <= w <= 8)%nat /\ N.of_nat (length u) <= 256 ^ N.of_nat w /\
    n = N.of_nat (length (header_bytes u count)) + count * N.of_nat w /\ 1 <= count.
  Proof.
    destruct (dict_index_width_bounds (N.of_nat (length u))) as (A & B); [lia|]. fold w in A, B.
    split; [exact A|]. split; [lia|]. split.
    - subst n count w. unfold dict_bytes_with. rewrite app_length, index_bytes_len. lia.
    - subst count. destruct xs; [congruence|]. cbn [length]. lia.
  Qed.

  Lemma rt_header tl :
    dict_read_header (dict_bytes_with u xs ++ tl) n
    = DictHOk u (N.of_nat (length u)) count (count * N.of_nat w) [8 * N.of_nat (length u)].
  Proof.
    destruct rt_facts as (Hw & Hlt & Hn & Hc).
    unfold dict_bytes_with. fold w count. rewrite <- app_assoc.
    rewrite dict_read_header_ok; try exact Hu; try exact Hcnt; try lia.
    f_equal. lia.
  Qed.

  Lemma rt_skip tl :
    skipn (N.to_nat (n - count * N.of_nat w)) (dict_bytes_with u xs ++ tl) = index_bytes u w xs ++ tl.
  Proof.
    destruct rt_facts as (Hw & Hlt & Hn & Hc).
    unfold dict_bytes_with. fold w count. rewrite <- app_assoc. apply skipn_app_len'. lia.
  Qed.

  Lemma rt_indices tl fuel : (length xs < fuel)%nat ->
    dict_decode_indices fuel (dict_arr_of_list u) (N.of_nat (length u)) w (index_bytes u w xs ++ tl) 0 count
    = Some (xs, true).
  Proof.
    destruct rt_facts as (Hw & Hlt & Hn & Hc). intro Hf.
    apply dict_decode_indices_ok; try assumption; try lia.
  Qed.

  Theorem dict_with_decode_roundtrip tl :
    dict_decode (dict_bytes_with u xs ++ tl) n = DictOk xs [8 * N.of_nat (length u); mul64 count 8].
  Proof.
    destruct rt_facts as (Hw & Hlt & Hn & Hc).
    unfold dict_decode. rewrite rt_header. fold w.
    replace (count * N.of_nat w / N.of_nat w) with count by (rewrite N.div_mul; lia).
    rewrite N.ltb_irrefl. rewrite rt_skip. rewrite rt_indices by nia. reflexivity.
  Qed.

  Theorem dict_with_decode_into_roundtrip tl cap :
    dict_decode_into (dict_bytes_with u xs ++ tl) n cap
    = if cap <? count then (if cap =? 0 then DictNull [] else DictNull [8 * N.of_nat (length u)])
      else DictOk xs [8 * N.of_nat (length u)].
  Proof.
    destruct rt_facts as (Hw & Hlt & Hn & Hc).
    unfold dict_decode_into. destruct (cap =? 0) eqn:E0.
    { replace (cap <? count) with true by lia. reflexivity. }
    rewrite rt_header. destruct (cap <? count) eqn:E1; [reflexivity|]. fold w.
    replace (count * N.of_nat w / N.of_nat w) with count by (rewrite N.div_mul; lia).
    rewrite N.ltb_irrefl. rewrite rt_skip. rewrite rt_indices by nia. reflexivity.
  Qed.

  Theorem dict_with_size_exact : 8 * N.of_nat (length xs) < 18446744073709551616 ->
    dict_encoded_size_with_dict (dict_of u) count = n.
  Proof.
    intro Hmem. fold count in Hmem. destruct rt_facts as (Hw & Hlt & Hn & Hc).
    unfold dict_encoded_size_with_dict, dict_of.
    cbn [dct_size dct_values dct_index_width]. fold w.
    replace (count =? 0) with false by lia.
    rewrite entry_bytes_fold. rewrite Hn, header_bytes_len.
    unfold mul64. unfold u64_ok in Hcnt. fold count in Hcnt. rewrite N.mod_small by nia. lia.
  Qed.
End WithDict.

(* ---------------------------------------------------------------- round trips *)
Section RoundTrip.
  Variable xs : list N.
  Variable d : dict.
  Hypothesis Hb : dict_build xs = DictBuildOk d.
  Hypothesis Hxs : all_u64 xs.
  Hypothesis Hcnt : u64_ok (N.of_nat (length xs)).

  Let u := dict_values_of xs.

  Lemma build_facts : sdist u /\ 1 <= N.of_nat (length u) <= 1048576 /\ all_u64 u /\ xs <> [] /\
                      (forall v, In v xs -> In v u) /\ d = dict_of u.
  Proof.
    destruct (dict_build_ok xs d Hb) as (Hne & Hd & Hlen).
    destruct (dict_values_of_spec xs) as (Hs & Hin).
    repeat split; try assumption; try (apply Hlen).
    - apply dict_values_u64. exact Hxs.
    - intros v Hv. apply Hin. exact Hv.
  Qed.

  (* varintDictEncode writes exactly: [size][entries, ascending, distinct]
     [count][one little-endian index of fixed width per value] *)
  Theorem dict_encode_is_spec : dict_encode xs = (dict_bytes xs, true).
  Proof.
    destruct build_facts as (Hs & Hlen & Hu & Hne & Hin & Hd).
    unfold dict_encode. rewrite Hb, Hd. apply dict_encode_with_dict_is_spec; assumption.
  Qed.

  (* varintDictDecode(buffer, n) of the encoder's n bytes (whatever follows
     them in memory) returns the original array *)
  Theorem dict_decode_roundtrip tl :
    dict_decode (fst (dict_encode xs) ++ tl) (N.of_nat (length (fst (dict_encode xs))))
    = DictOk xs [8 * N.of_nat (length u); mul64 (N.of_nat (length xs)) 8].
  Proof.
    destruct build_facts as (Hs & Hlen & Hu & Hne & Hin & Hd).
    rewrite dict_encode_is_spec. cbn [fst]. apply dict_with_decode_roundtrip; assumption.
  Qed.

  (* varintDictDecodeInto: all-or-nothing in the capacity *)
  Theorem dict_decode_into_roundtrip tl cap :
    dict_decode_into (fst (dict_encode xs) ++ tl) (N.of_nat (length (fst (dict_encode xs)))) cap
    = if cap <? N.of_nat (length xs)
      then (if cap =? 0 then DictNull [] else DictNull [8 * N.of_nat (length u)])
      else DictOk xs [8 * N.of_nat (length u)].
  Proof.
    destruct build_facts as (Hs & Hlen & Hu & Hne & Hin & Hd).
    rewrite dict_encode_is_spec. cbn [fst]. apply dict_with_decode_into_roundtrip; assumption.
  Qed.

  (* varintDictEncodedSize is exact (the array of 8-byte values exists in
     memory: 8 * count < 2^64, so `count * indexWidth` does not wrap) *)
  Theorem dict_size_exact : 8 * N.of_nat (length xs) < 18446744073709551616 ->
    dict_encoded_size xs = N.of_nat (length (fst (dict_encode xs))) /\
    dict_ret (dict_encode xs) = dict_encoded_size xs.
  Proof.
    intro Hmem. destruct build_facts as (Hs & Hlen & Hu & Hne & Hin & Hd).
    assert (E : dict_encoded_size xs = N.of_nat (length (dict_bytes xs))).
    { unfold dict_encoded_size. rewrite Hb, Hd. apply dict_with_size_exact; assumption. }
    rewrite dict_encode_is_spec. cbn [fst]. split; [exact E|].
    unfold dict_ret. cbn [fst snd]. lia.
  Qed.
End RoundTrip.

(* a value missing from the dictionary: "return 0" after writing a prefix that
   stays inside the predicted size, for ANY dictionary structure *)
Theorem dict_with_bound d xs : N.of_nat (length xs) * 8 < 18446744073709551616 ->
  (dct_index_width d <= 8)%nat ->
  N.of_nat (length (fst (dict_encode_with_dict d xs)))
  <= dict_encoded_size_with_dict d (N.of_nat (length xs)) /\
  dict_ret (dict_encode_with_dict d xs) <= dict_encoded_size_with_dict d (N.of_nat (length xs)).
Proof.
  intros Hmem Hw.
  assert (A : N.of_nat (length (fst (dict_encode_with_dict d xs)))
              <= dict_encoded_size_with_dict d (N.of_nat (length xs))).
  { unfold dict_encode_with_dict, dict_encoded_size_with_dict. destruct xs as [|x t]; [cbn; lia|].
    replace (N.of_nat (length (x :: t)) =? 0) with false by (cbn [length]; lia).
    destruct (dict_max_size <? dct_size d); [cbn [fst length]; lia|].
    cbn [fst]. rewrite !app_length, !tagged_put_len_nat, entry_bytes_fold.
    fold (entry_bytes (dct_values d)).
    pose proof (dict_encode_indices_len (dict_arr_of_list (dct_values d)) (dct_size d) (dct_index_width d) (x :: t)).
    unfold mul64. rewrite N.mod_small by nia. nia. }
  split; [exact A|]. unfold dict_ret. destruct (snd (dict_encode_with_dict d xs)); lia.
Qed.

Theorem dict_decode_into_full xs d :
  dict_build xs = DictBuildOk d -> all_u64 xs -> u64_ok (N.of_nat (length xs)) ->
  forall tl cap, N.of_nat (length xs) <= cap ->
  dict_decode_into (fst (dict_encode xs) ++ tl) (N.of_nat (length (fst (dict_encode xs)))) cap
  = DictOk xs [8 * N.of_nat (length (dict_values_of xs))].
Proof.
  intros Hb Hx Hc tl cap Hcap. rewrite (dict_decode_into_roundtrip xs d Hb Hx Hc).
  replace (cap <? N.of_nat (length xs)) with false by lia. reflexivity.
Qed.
