(* BP128ProofsD64.v — varintBP128DeltaEncode64 / DeltaDecode64: round trip (for
   every input, the deltas wrap modulo 2^64 on both sides), capacity, size
   bound, metadata. *)
Require Import VV.Base VV.BaseProofs VV.Tagged VV.TaggedProofs VV.TaggedSpecProofs
               VV.BP128 VV.BP128Bits VV.BP128Lemmas.
From Coq Require Import Lia ZifyBool ZifyN ZifyNat.
Local Open Scope N_scope.
Ltac Zify.zify_post_hook ::= Z.div_mod_to_equations.

(* ---------- the encoder's bytes ---------- *)

Lemma denc64_blocks_eq f : forall prev vs, denc64_blocks f prev vs = blocks f (deltas64 prev vs).
Proof.
  induction f as [|f IH]; intros prev vs; [reflexivity|].
  destruct vs as [|v t]; [reflexivity|].
  cbn [denc64_blocks]. rewrite IH.
  change (deltas64 prev (v :: t)) with (sub64 v prev :: deltas64 v t).
  cbn [blocks]. change (sub64 v prev :: deltas64 v t) with (deltas64 prev (v :: t)).
  rewrite firstn_deltas64, skipn_deltas64.
  unfold blk, blk_payload. cbv zeta. rewrite length_deltas64. rewrite <- app_assoc. reflexivity.
Qed.

Lemma delta_encode64_blocks v0 rest :
  delta_encode64 (v0 :: rest) = tagged_put64 v0 ++ blocks (blocks_fuel rest) (deltas64 v0 rest).
Proof. unfold delta_encode64. rewrite denc64_blocks_eq. reflexivity. Qed.

(* ---------- one loop iteration of DeltaDecode64 on one block ---------- *)

Lemma ddec64_step f z room prev : ddec64_loop (S f) z room prev =
  if room =? 0 then Some []
  else
    let '(part, bw, bs, z1) := read_header z in
    let bs := if room <? bs then room else bs in
    if (64 <? bw) && negb (bs =? 0) then None
    else
      let ds := if 0 <? bw then unpack_at bw bs z1 else repeat 0 (N.to_nat bs) in
      let vals := psum64 prev ds in
      let z2 := if 0 <? bw then skipn (N.to_nat (nbytes bs bw)) z1 else z1 in
      if part then Some vals
      else
        match ddec64_loop f z2 (room - bs) (last vals prev) with
        | None => None
        | Some rest => Some (vals ++ rest)
        end.
Proof. reflexivity. Qed.

Lemma ddec64_zero f z prev : ddec64_loop (S f) z 0 prev = Some [].
Proof. reflexivity. Qed.

Lemma payload_decode' vs m rest : m <= N.of_nat (length vs) ->
  (if 0 <? bits_needed (max_val vs) then unpack_at (bits_needed (max_val vs)) m (blk_payload vs ++ rest)
   else repeat 0 (N.to_nat m)) = firstn (N.to_nat m) vs.
Proof.
  intro H. rewrite <- (payload_decode vs m rest H).
  destruct (0 <? bits_needed (max_val vs)) eqn:E; destruct (bits_needed (max_val vs) =? 0) eqn:F; try reflexivity; lia.
Qed.

Section OneBlock.
  Variable dvs : list N.
  Hypothesis Hne : (1 <= length dvs <= 128)%nat.
  Hypothesis Hv : Forall (fun v => v < 2 ^ 64) dvs.

  Let bw := bits_needed (max_val dvs).
  Let b := N.of_nat (length dvs).

  Lemma dblk_bw_le : bw <= 64.
  Proof. apply width_le. exact Hv. Qed.

  Lemma ddec64_block_final f rest room prev : 0 < room -> room <= b ->
    ddec64_loop (S (S f)) (blk dvs ++ rest) room prev = Some (psum64 prev (firstn (N.to_nat room) dvs)).
  Proof.
    intros H0 Hr. pose proof dblk_bw_le as W.
    rewrite ddec64_step. destruct (room =? 0) eqn:E0; [lia|].
    unfold blk. rewrite <- app_assoc. rewrite read_header_block by (fold bw b; lia).
    cbv beta iota zeta. fold bw b.
    replace (if room <? b then room else b) with room by (destruct (room <? b) eqn:E; lia).
    replace (64 <? bw) with false by lia. cbn [andb].
    replace (room - room) with 0 by lia. rewrite ddec64_zero.
    pose proof (payload_decode' dvs room rest Hr) as P. fold bw in P. rewrite P.
    destruct (b <? 128); [reflexivity|]. rewrite app_nil_r. reflexivity.
  Qed.

  Lemma ddec64_block_more f rest room prev : b = 128 -> 128 < room ->
    ddec64_loop (S f) (blk dvs ++ rest) room prev =
    match ddec64_loop f rest (room - 128) (last (psum64 prev dvs) prev) with
    | None => None
    | Some r => Some (psum64 prev dvs ++ r)
    end.
  Proof.
    intros Hb Hr. pose proof dblk_bw_le as W.
    rewrite ddec64_step. destruct (room =? 0) eqn:E0; [lia|].
    unfold blk. rewrite <- app_assoc. rewrite read_header_block by (fold bw b; lia).
    cbv beta iota zeta. fold bw b.
    replace (if room <? b then room else b) with b by (destruct (room <? b) eqn:E; lia).
    replace (64 <? bw) with false by lia. cbn [andb].
    pose proof (payload_decode' dvs b rest ltac:(lia)) as P. fold bw in P.
    assert (Fb : firstn (N.to_nat b) dvs = dvs) by (unfold b; rewrite Nat2N.id; apply firstn_all).
    rewrite Fb in P. rewrite P.
    replace (b <? 128) with false by lia.
    assert (Z2 : (if 0 <? bw then skipn (N.to_nat (nbytes b bw)) (blk_payload dvs ++ rest)
                  else blk_payload dvs ++ rest) = rest).
    { destruct (0 <? bw) eqn:E.
      - unfold b, bw. apply payload_skip.
      - rewrite payload_width0 by (fold bw; lia). reflexivity. }
    rewrite Z2, Hb. reflexivity.
  Qed.
End OneBlock.

(* ---------- the loop on the whole block sequence ---------- *)

Lemma ddec64_blocks f : forall ds tl cap fuel prev,
  (length ds <= 128 * f)%nat -> cap <= N.of_nat (length ds) ->
  Forall (fun v => v < 2 ^ 64) ds ->
  (N.to_nat (cap / 128) + 2 <= fuel)%nat ->
  ddec64_loop fuel (blocks f ds ++ tl) cap prev = Some (psum64 prev (firstn (N.to_nat cap) ds)).
Proof.
  induction f as [|f IH]; intros ds tl cap fuel prev Hl Hc Hv Hf.
  - destruct ds; [|cbn [length] in Hl; lia]. cbn [length] in Hc.
    replace cap with 0 by lia. destruct fuel; [lia|]. reflexivity.
  - destruct fuel as [|fuel]; [lia|]. destruct fuel as [|fuel]; [lia|].
    destruct (N.eq_dec cap 0) as [->|Hc0]; [reflexivity|].
    assert (Hne : ds <> []) by (intro; subst ds; cbn [length] in Hc; lia).
    destruct (Nat.le_gt_cases (length ds) 128) as [Hs|Hg].
    + rewrite blocks_short by assumption.
      apply ddec64_block_final; try assumption; try lia.
    + rewrite blocks_long by assumption. rewrite <- app_assoc.
      assert (L : length (firstn 128 ds) = 128%nat) by (rewrite firstn_length; lia).
      destruct (N.le_gt_cases cap 128) as [Hle|Hgt].
      * rewrite ddec64_block_final; try (rewrite L; lia); try lia.
        2: apply Forall_firstn'; exact Hv.
        rewrite firstn_firstn. f_equal. f_equal. f_equal. lia.
      * rewrite ddec64_block_more; try (rewrite L; lia); try lia.
        2: apply Forall_firstn'; exact Hv.
        rewrite (IH (skipn 128 ds) tl (cap - 128) (S fuel)).
        -- f_equal. rewrite (firstn_split 128 (N.to_nat cap) ds) by lia.
           rewrite psum64_app. f_equal. f_equal. f_equal. lia.
        -- rewrite skipn_length. lia.
        -- rewrite skipn_length. lia.
        -- apply Forall_skipn'. exact Hv.
        -- lia.
Qed.

(* ---------- C02 / C13 ---------- *)

Theorem delta_decode64_cap v0 rest tl cap :
  Forall (fun v => v < 2 ^ 64) (v0 :: rest) ->
  cap <= N.of_nat (length (v0 :: rest)) ->
  delta_decode64 (delta_encode64 (v0 :: rest) ++ tl) cap = Some (firstn (N.to_nat cap) (v0 :: rest)).
Proof.
  intros Hv Hc. inversion Hv as [|? ? Hv0 Hr]; subst.
  change (2 ^ 64) with 18446744073709551616 in *.
  rewrite delta_encode64_blocks. rewrite <- app_assoc. unfold delta_decode64.
  destruct (cap =? 0) eqn:E0; [replace cap with 0 by lia; reflexivity|].
  cbv zeta. rewrite tagged_get64_put by exact Hv0. cbn [fst snd]. rewrite skipn_tagged.
  cbn [length] in Hc.
  rewrite ddec64_blocks.
  - rewrite firstn_deltas64, psum64_deltas64; [|exact Hv0|apply Forall_firstn'; exact Hr].
    replace (N.to_nat cap) with (S (N.to_nat (cap - 1))) by lia. reflexivity.
  - rewrite length_deltas64. apply blocks_fuel_ok.
  - rewrite length_deltas64. lia.
  - apply deltas64_lt.
  - lia.
Qed.

Theorem delta_decode64_roundtrip vs tl :
  vs <> [] -> Forall (fun v => v < 2 ^ 64) vs ->
  delta_decode64 (delta_encode64 vs ++ tl) (N.of_nat (length vs)) = Some vs.
Proof.
  intros Hne Hv. destruct vs as [|v0 rest]; [congruence|].
  rewrite delta_decode64_cap by (assumption || lia). rewrite Nat2N.id, firstn_all. reflexivity.
Qed.

Corollary delta_decode64_reads_inside vs z :
  vs <> [] -> Forall (fun v => v < 2 ^ 64) vs ->
  firstn (length (delta_encode64 vs)) z = delta_encode64 vs ->
  delta_decode64 z (N.of_nat (length vs)) = Some vs.
Proof.
  intros Hne Hv Hz. rewrite <- (firstn_skipn (length (delta_encode64 vs)) z), Hz.
  apply delta_decode64_roundtrip; assumption.
Qed.

Lemma ddec64_loop_length fuel : forall z room prev out,
  ddec64_loop fuel z room prev = Some out -> N.of_nat (length out) <= room.
Proof.
  induction fuel as [|f IH]; intros z room prev out H; [discriminate|].
  rewrite ddec64_step in H. destruct (room =? 0) eqn:E0.
  - injection H as <-. cbn [length]. lia.
  - destruct (read_header z) as [[[part bw] bs] z1]. cbv beta iota zeta in H.
    set (bs' := if room <? bs then room else bs) in *.
    assert (Hb : bs' <= room) by (subst bs'; destruct (room <? bs) eqn:E; lia).
    destruct ((64 <? bw) && negb (bs' =? 0)); [discriminate|].
    set (ds := if 0 <? bw then unpack_at bw bs' z1 else repeat 0 (N.to_nat bs')) in *.
    assert (Ld : length ds = N.to_nat bs').
    { subst ds. destruct (0 <? bw); [apply length_unpack_at|apply repeat_length]. }
    destruct part.
    + injection H as <-. rewrite length_psum64, Ld. lia.
    + destruct (ddec64_loop f _ (room - bs') _) as [r|] eqn:R; [|discriminate].
      injection H as <-. apply IH in R. rewrite app_length, length_psum64, Ld. lia.
Qed.

Theorem delta_decode64_within_cap z cap out : delta_decode64 z cap = Some out -> N.of_nat (length out) <= cap.
Proof.
  unfold delta_decode64. destruct (cap =? 0) eqn:E0.
  - intro H. injection H as <-. cbn [length]. lia.
  - cbv zeta. destruct (ddec64_loop _ _ (cap - 1) _) as [r|] eqn:R; [|discriminate].
    intro H. injection H as <-. apply ddec64_loop_length in R. cbn [length]. lia.
Qed.

(* ---------- C03 ---------- *)

Theorem delta_encode64_bound vs : Forall (fun v => v < 2 ^ 64) vs ->
  N.of_nat (length (delta_encode64 vs)) <= max_bytes (N.of_nat (length vs)).
Proof.
  intro Hv. destruct vs as [|v0 rest]; [vm_compute; discriminate|].
  rewrite delta_encode64_blocks. rewrite app_length, Nat2N.inj_add.
  pose proof (length_tagged_le v0).
  pose proof (length_blocks_le (blocks_fuel rest) (deltas64 v0 rest) (deltas64_lt v0 rest)) as B.
  rewrite length_deltas64 in B. unfold blocks_bound in B. unfold max_bytes. cbv zeta.
  cbn [length]. rewrite Nat2N.inj_succ.
  set (n := N.of_nat (length rest)) in *. clearbody n.
  set (L := N.of_nat (length (blocks (blocks_fuel rest) (deltas64 v0 rest)))) in *. clearbody L.
  destruct (0 <? n mod 128) eqn:E1; destruct (0 <? N.succ n mod 128) eqn:E2; lia.
Qed.

(* ---------- C16 ---------- *)

Lemma denc64_maxbw_eq f : forall prev vs m, (length vs <= 128 * f)%nat ->
  denc64_maxbw f prev vs m = N.max m (bits_needed (max_val (deltas64 prev vs))).
Proof.
  induction f as [|f IH]; intros prev vs m Hl.
  - destruct vs; [|cbn [length] in Hl; lia]. cbn [denc64_maxbw deltas64]. rewrite max_val_nil. unfold bits_needed. cbn. lia.
  - cbn [denc64_maxbw]. destruct vs as [|v0 t0] eqn:Evs.
    + cbn [deltas64]. rewrite max_val_nil. unfold bits_needed. cbn. lia.
    + rewrite <- Evs in *. rewrite IH by (rewrite skipn_length; lia).
      assert (Em : max_val (deltas64 prev vs) =
                   N.max (max_val (deltas64 prev (firstn 128 vs)))
                         (max_val (deltas64 (last (firstn 128 vs) prev) (skipn 128 vs)))).
      { rewrite <- max_val_app, <- deltas64_app, firstn_skipn. reflexivity. }
      rewrite Em, bits_needed_max.
      destruct (m <? bits_needed (max_val (deltas64 prev (firstn 128 vs)))) eqn:E; lia.
Qed.

Theorem delta_encode64_meta_ok v0 rest :
  let vs := v0 :: rest in
  let m := delta_encode64_meta vs in
  let n := N.of_nat (length rest) in
  m_count m = N.of_nat (length vs) /\
  m_encodedBytes m = N.of_nat (length (delta_encode64 vs)) /\
  m_blockCount m = (n + 127) / 128 /\
  (0 < n -> m_lastBlockSize m = n - 128 * ((n + 127) / 128 - 1)) /\
  m_maxBitWidth m = bits_needed (max_val (deltas64 v0 rest)).
Proof.
  cbv zeta. unfold delta_encode64_meta. cbv zeta.
  cbn [m_count m_encodedBytes m_blockCount m_lastBlockSize m_maxBitWidth]. rewrite nlen_eq.
  cbn [length]. rewrite Nat2N.inj_succ.
  set (n := N.of_nat (length rest)) in *.
  repeat split.
  - f_equal. lia.
  - intro Hn. replace (N.succ n - 1) with n by lia. destruct (n mod 128 =? 0) eqn:F; lia.
  - rewrite denc64_maxbw_eq by apply blocks_fuel_ok. lia.
Qed.
