(* Properties_C01_chained_src.v — C01 for varintChained (the sqlite3 varint),
   stated about the functions and macros regenerated from the current
   src/varintChained.{c,h} by gen/c2coq.py (coq/gen/Src_chained.v).  The loops of
   putVarint64 are rendered with c_while and an explicit fuel: the theorems hold
   for EVERY fuel >= 10, so no outcome is CFuel. *)
Require Import VV.Base VV.CSem VV.ChainedSrcProps.
Require Import VVgen.Src_chained.
Local Open Scope Z_scope.

(* every 64-bit x: the encoder writes w bytes, 1 <= w <= 9, and nothing else
   (frame: the bytes from index w on and the length of the buffer are
   unchanged); varintChainedVarintLen predicts w; the decoder, given those
   bytes followed by anything, returns w and stores x *)
Theorem C01_src_chained_roundtrip : forall fuel x buf tl r,
  (10 <= fuel)%nat -> 0 <= x < 18446744073709551616 -> (9 <= length buf)%nat -> bytes_ok tl ->
  exists w out,
    src_varintChainedPutVarint fuel buf x = COk (w, out) /\ 1 <= w <= 9 /\
    src_varintChainedVarintLen fuel x = COk w /\
    skipn (Z.to_nat w) out = skipn (Z.to_nat w) buf /\ length out = length buf /\
    src_varintChainedGetVarint (firstn (Z.to_nat w) out ++ tl) r = COk (w, Some x).
Proof. exact src_chained_roundtrip. Qed.
Print Assumptions C01_src_chained_roundtrip.

(* the 32-bit macros: putVarint32 writes what the function writes, getVarint32 reads the value back *)
Theorem C01_src_chained32_roundtrip : forall fuel x buf tl r,
  (10 <= fuel)%nat -> 0 <= x <= 4294967295 -> (9 <= length buf)%nat -> bytes_ok tl ->
  exists w out,
    src_q_varintChained_putVarint32 fuel buf x = COk (w, out) /\
    src_varintChainedPutVarint fuel buf x = COk (w, out) /\
    src_q_varintChained_getVarint32 (firstn (Z.to_nat w) out ++ tl) r = COk (w, Some x).
Proof. exact src_chained32_roundtrip. Qed.
Print Assumptions C01_src_chained32_roundtrip.

Example C01_src_chained_example :
  src_varintChainedPutVarint 10 [0; 0; 0; 0; 0; 0; 0; 0; 0; 7]%N 18446744073709551615
    = COk (9, [255; 255; 255; 255; 255; 255; 255; 255; 255; 7]%N) /\
  src_varintChainedPutVarint 10 [9; 9; 9; 9]%N 16384 = COk (3, [129; 128; 0; 9]%N) /\
  src_varintChainedGetVarint [129; 128; 0; 9]%N None = COk (3, Some 16384) /\
  src_varintChainedGetVarint [129; 128]%N None = COob.
Proof. vm_compute. repeat split; reflexivity. Qed.
