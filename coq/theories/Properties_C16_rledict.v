(* Properties_C16_rledict.v — property C16 (reported metadata and header
   accessors tell the truth) for the run-length codec: count, runCount =
   number of maximal runs, encodedSize = bytes written, for both encoders and
   for varintRLEAnalyze; varintRLEGetCount; varintRLEGetRunCount. *)
Require Import VV.Base VV.Tagged VV.RLE VV.RLESpec VV.RLELemmas VV.RLEProofs VV.Dict VV.DictProofs
  VV.RLEDictTheorems.
Local Open Scope N_scope.

(* rle_runs xs is the list of maximal runs: it expands to xs, every run is
   non-empty, neighbouring runs carry different values *)
Theorem C16_rle_runs_maximal : forall xs,
  expand_runs (rle_runs xs) = xs /\ Forall (fun r => 1 <= fst r) (rle_runs xs) /\ adj_distinct (rle_runs xs).
Proof. exact rle_runs_maximal. Qed.
Print Assumptions C16_rle_runs_maximal.

(* meta written by varintRLEEncode *)
Theorem C16_rle_encode_meta : forall xs,
  fst (rle_encode xs) = enc_runs (rle_runs xs) /\
  rm_run_count (snd (rle_encode xs)) = N.of_nat (length (rle_runs xs)) /\
  rm_count (snd (rle_encode xs)) = N.of_nat (length xs) /\
  rm_encoded_size (snd (rle_encode xs)) = N.of_nat (length (fst (rle_encode xs))).
Proof. exact rle_encode_is_spec. Qed.
Print Assumptions C16_rle_encode_meta.

(* meta written by varintRLEEncodeWithHeader *)
Theorem C16_rle_header_meta : forall xs,
  N.of_nat (length (fst (rle_encode_with_header xs))) = tagged_len (N.of_nat (length xs)) + rle_size xs /\
  rm_encoded_size (snd (rle_encode_with_header xs)) = N.of_nat (length (fst (rle_encode_with_header xs))) /\
  rm_count (snd (rle_encode_with_header xs)) = N.of_nat (length xs) /\
  rm_run_count (snd (rle_encode_with_header xs)) = N.of_nat (length (rle_runs xs)).
Proof. exact rle_header_size. Qed.
Print Assumptions C16_rle_header_meta.

(* meta written by varintRLEAnalyze (uniqueValues is the number of runs, i.e.
   of value transitions + 1, as the library's own test expects) *)
Theorem C16_rle_analyze_meta : forall xs,
  rm_count (fst (rle_analyze xs)) = N.of_nat (length xs) /\
  rm_run_count (fst (rle_analyze xs)) = N.of_nat (length (rle_runs xs)) /\
  rm_encoded_size (fst (rle_analyze xs)) = N.of_nat (length (fst (rle_encode xs))) /\
  rm_unique_values (fst (rle_analyze xs)) = N.of_nat (length (rle_runs xs)).
Proof. exact rle_analyze_truth. Qed.
Print Assumptions C16_rle_analyze_meta.

(* the reported count is the number of elements decoding yields *)
Theorem C16_rle_count_is_decoded : forall xs tl,
  Forall (fun x => x < 18446744073709551616) xs -> N.of_nat (length xs) < 18446744073709551616 ->
  rle_decode_with_header (fst (rle_encode_with_header xs) ++ tl) (N.of_nat (length xs)) = RleOk xs.
Proof. exact rle_header_roundtrip_full. Qed.
Print Assumptions C16_rle_count_is_decoded.

(* varintRLEGetCount *)
Theorem C16_rle_get_count : forall xs tl, N.of_nat (length xs) < 18446744073709551616 ->
  rle_get_count (fst (rle_encode_with_header xs) ++ tl) = N.of_nat (length xs).
Proof. exact rle_get_count_correct. Qed.
Print Assumptions C16_rle_get_count.

(* varintRLEGetRunCount on the encoder's bytes and their reported size *)
Theorem C16_rle_get_run_count : forall xs tl,
  Forall (fun x => x < 18446744073709551616) xs -> N.of_nat (length xs) < 18446744073709551616 ->
  rle_get_run_count (fst (rle_encode xs) ++ tl) (N.of_nat (length (fst (rle_encode xs))))
  = Some (N.of_nat (length (rle_runs xs))).
Proof. exact rle_get_run_count_correct. Qed.
Print Assumptions C16_rle_get_run_count.

(* ... and on the body of the header format *)
Theorem C16_rle_get_run_count_header : forall xs tl,
  Forall (fun x => x < 18446744073709551616) xs -> N.of_nat (length xs) < 18446744073709551616 ->
  rle_get_run_count
    (skipn (N.to_nat (tagged_len (N.of_nat (length xs)))) (fst (rle_encode_with_header xs) ++ tl))
    (N.of_nat (length (fst (rle_encode_with_header xs))) - tagged_len (N.of_nat (length xs)))
  = Some (N.of_nat (length (rle_runs xs))).
Proof. exact rle_get_run_count_header. Qed.
Print Assumptions C16_rle_get_run_count_header.

(* varintDictGetStats (integer fields): uniqueCount, totalCount, totalBytes =
   the predicted = written size, originalBytes *)
Theorem C16_dict_stats : forall xs d, dict_build xs = DictBuildOk d ->
  exists dictBytes indexBytes,
    dict_get_stats xs = Some (N.of_nat (length (dict_values_of xs)), N.of_nat (length xs),
                              dictBytes, indexBytes, dict_encoded_size xs, mul64 (N.of_nat (length xs)) 8) /\
    dict_encoded_size xs = dictBytes + tagged_len (N.of_nat (length xs)) + indexBytes.
Proof. exact dict_stats_truth. Qed.
Print Assumptions C16_dict_stats.

Example C16_example :
  rle_runs [1; 1; 2; 2; 3; 3; 1; 1] = [(2, 1); (2, 2); (2, 3); (2, 1)] /\
  snd (rle_encode [1; 1; 2; 2; 3; 3; 1; 1]) = mk_rle_meta 8 4 8 0 /\
  fst (rle_analyze [1; 1; 2; 2; 3; 3; 1; 1]) = mk_rle_meta 8 4 8 4.
Proof. vm_compute. repeat split; reflexivity. Qed.
