(* TaggedSrcQuick.v — the function-like macros of varintTagged.h
   (varintTaggedLenQuick, varintTaggedGetLenQuick_, varintTaggedPut64FixedWidthQuick_,
   varintTaggedGet64Quick_), translated by gen/c2coq.py after expansion inside
   tiny wrapper functions q_<macro>, compute what the hand model computes. *)
Require Import VV.Base VV.BaseProofs VV.Tagged VV.TaggedProofs VV.TaggedSpecProofs VV.TaggedFixed VV.CSem VV.CSemProofs
  VV.TaggedSrcLen VV.TaggedSrcPut VV.TaggedSrcGet.
Require Import VVgen.Src_tagged.
From Coq Require Import Lia ZifyBool ZifyN ZifyNat.
Local Open Scope Z_scope.
Ltac Zify.zify_post_hook ::= Z.div_mod_to_equations.

Lemma src_q_varintTaggedLenQuick_is_model : forall x, 0 <= x < 18446744073709551616 ->
  src_q_varintTaggedLenQuick x = COk (Z.of_N (tagged_len_quick (Z.to_N x))).
Proof.
  intros x Hx. split_classes x.
  all: unfold src_q_varintTaggedLenQuick, tagged_len_quick; c_run.
  all: rewrite ?src_varintTaggedLen_is_model by lia; repeat c_step; c_simp; rewrite ?L; f_equal; lia.
Qed.

Lemma getlenq_sweep tl :
  forallb (fun b => cres_eqb Z.eqb (src_q_varintTaggedGetLenQuick_ (b :: tl))
                      (COk (Z.of_N (tagged_getlen_quick (b :: tl))))) bytes256 = true.
Proof. vm_compute. reflexivity. Qed.

Lemma src_q_varintTaggedGetLenQuick__is_model : forall z, z <> [] -> (byte_at z 0 < 256)%N ->
  src_q_varintTaggedGetLenQuick_ z = COk (Z.of_N (tagged_getlen_quick z)).
Proof.
  intros [|b tl] Hz Hb; [contradiction|]. cbn [byte_at nth] in Hb.
  apply (cres_eqb_ok Z.eqb); [intros u v; apply Z.eqb_eq|].
  exact (byte_sweep _ (getlenq_sweep tl) b Hb).
Qed.

Ltac finish_putq :=
  cbn [app]; rewrite <- upds_store by (cbn [length]; lia); cbn [upds];
  f_equal; repeat (apply upd_eq3; [|lia|lia]); reflexivity.

Lemma src_q_varintTaggedPut64FixedWidthQuick__is_model : forall buf x w,
  0 <= x < 18446744073709551616 -> 0 <= w <= 4294967295 ->
  (1 <= w <= 9 -> (Z.to_nat w <= length buf)%nat) ->
  src_q_varintTaggedPut64FixedWidthQuick_ buf x w =
  COk (match tagged_put64_fixed_quick (Z.to_N x) (Z.to_N w) with
       | Some bs => store buf 0 bs
       | None => buf
       end).
Proof.
  intros buf x w Hx Hw Hlen. rewrite tagged_put64_fixed_quick_eq.
  assert (C : w = 1 \/ w = 2 \/ w = 3 \/ ~ (1 <= w <= 3)) by lia.
  repeat (destruct C as [C|C]).
  4:{ unfold src_q_varintTaggedPut64FixedWidthQuick_. c_run.
      rewrite src_varintTaggedPut64FixedWidth_is_model by assumption.
      destruct (tagged_put64_fixed _ _); reflexivity. }
  all: subst w; cbn [Z.to_N]; specialize (Hlen ltac:(lia)).
  all: unfold src_q_varintTaggedPut64FixedWidthQuick_, tagged_put64_fixed, write32, sub64, u32, u8, shr; cbv beta iota zeta.
  all: c_run; finish_putq.
Qed.

Lemma src_q_varintTaggedGet64Quick__is_model : forall z,
  bytes_ok z -> Z.of_N (tagged_getlen z) <= Z.of_nat (length z) ->
  src_q_varintTaggedGet64Quick_ z = COk (Z.of_N (tagged_get64_quick z)).
Proof.
  intros z Hz Hlen.
  pose proof (bytes_ok_nth z 0 Hz) as Hb0. pose proof (bytes_ok_nth z 1 Hz). pose proof (bytes_ok_nth z 2 Hz).
  assert (G9 : (tagged_getlen z <= 9)%N) by (unfold tagged_getlen; cbv zeta; kill_ifs; lia).
  assert (G1 : (1 <= tagged_getlen z)%N) by (unfold tagged_getlen; cbv zeta; kill_ifs; lia).
  pose proof (tagged_get_width z 9 Hb0 ltac:(lia)) as Hw.
  pose proof Hlen as Hlen'. unfold tagged_getlen in Hlen. cbv zeta in Hlen.
  assert (C : (byte_at z 0 <= 240 \/ 241 <= byte_at z 0 <= 248 \/ byte_at z 0 = 249 \/ 250 <= byte_at z 0)%N) by lia.
  repeat (destruct C as [C|C]).
  all: c_decide_in Hlen.
  all: unfold src_q_varintTaggedGet64Quick_, tagged_get64_quick, u32; cbv zeta; c_run.
  4:{ rewrite src_varintTaggedGet64ReturnValue_is_model by (try assumption; lia).
      destruct (fst (tagged_get z 9) =? 0)%N eqn:E0; [lia|]. reflexivity. }
  all: f_equal; lia.
Qed.
