(* Properties_C01_tagged_src.v — C01 for the tagged family, stated about the
   functions regenerated from the current src/varintTagged.c by gen/c2coq.py
   (coq/gen/Src_tagged.v). *)
Require Import VV.Base VV.CSem VV.TaggedSrcProps.
Require Import VVgen.Src_tagged.
Local Open Scope Z_scope.

(* for every 64-bit x: the encoder writes w bytes, 1 <= w <= 9; varintTaggedLen
   predicts w; varintTaggedGetLen reads w back from the first byte; the bounded
   decoder, given those bytes followed by anything and n >= w, returns w and
   stores x (r = previous content of *pResult) *)
Theorem C01_src_tagged_roundtrip : forall x buf tl n r,
  0 <= x < 18446744073709551616 -> (9 <= length buf)%nat -> bytes_ok tl -> n <= 2147483647 ->
  exists w out,
    src_varintTaggedPut64 buf x = COk (w, out) /\ 1 <= w <= 9 /\
    src_varintTaggedLen x = COk w /\
    src_varintTaggedGetLen (firstn (Z.to_nat w) out ++ tl) = COk w /\
    (w <= n -> src_varintTaggedGet (firstn (Z.to_nat w) out ++ tl) n r = COk (w, Some x)).
Proof. exact src_tagged_roundtrip. Qed.
Print Assumptions C01_src_tagged_roundtrip.

Example C01_src_tagged_example :
  src_varintTaggedPut64 [0; 0; 0; 0; 0; 0; 0; 0; 0; 0]%N 18446744073709551615
    = COk (9, [255; 255; 255; 255; 255; 255; 255; 255; 255; 0]%N) /\
  src_varintTaggedGet [255; 255; 255; 255; 255; 255; 255; 255; 255; 7]%N 9 None
    = COk (9, Some 18446744073709551615) /\
  src_varintTaggedGet [255; 255; 255; 255; 255; 255; 255; 255; 255; 7]%N 8 (Some 5) = COk (0, Some 5) /\
  src_varintTaggedLen 67824 = COk 4 /\ src_varintTaggedGetLen [250]%N = COk 4.
Proof. vm_compute. repeat split; reflexivity. Qed.
