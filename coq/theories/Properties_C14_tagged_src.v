(* Properties_C14_tagged_src.v — C14 for the bounded tagged reader, stated about
   src_varintTaggedGet, regenerated from the current src/varintTagged.c.  Loads
   are checked: reading outside the byte list is the outcome COob. *)
Require Import VV.Base VV.Tagged VV.CSem VV.TaggedSrcPropsGet.
Require Import VVgen.Src_tagged.
Local Open Scope Z_scope.

(* given only the first n bytes the reader behaves exactly as on the whole
   list (no load at an index >= n: it would be COob on the cut list), and the
   outcome is a proper result (neither COob nor undefined behaviour) *)
Theorem C14_src_tagged_get_bounded : forall z n r,
  bytes_ok z -> 0 <= n <= 2147483647 -> n <= Z.of_nat (length z) ->
  src_varintTaggedGet (firstn (Z.to_nat n) z) n r = src_varintTaggedGet z n r /\
  exists w v, src_varintTaggedGet z n r = COk (w, v).
Proof. exact src_tagged_get_bounded. Qed.
Print Assumptions C14_src_tagged_get_bounded.

(* a varint cut short of the length its first byte announces: width 0, *pResult untouched *)
Theorem C14_src_tagged_get_short : forall z n r,
  bytes_ok z -> -2147483648 <= n <= 2147483647 -> n <= Z.of_nat (length z) ->
  n < Z.of_N (tagged_getlen z) -> src_varintTaggedGet z n r = COk (0, r).
Proof. exact src_tagged_get_short. Qed.
Print Assumptions C14_src_tagged_get_short.

Example C14_src_tagged_example :
  src_varintTaggedGet [252; 1; 2; 3]%N 4 (Some 77) = COk (0, Some 77) /\
  src_varintTaggedGet [252; 1; 2; 3]%N 6 (Some 77) = COob.
Proof. vm_compute. split; reflexivity. Qed.
