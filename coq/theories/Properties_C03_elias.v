(* Properties_C03_elias.v — property C03 (encoders never write more than
   their advertised size), Elias gamma / delta part. *)
Require Import VV.Base VV.EliasBits VV.Elias VV.EliasSpec VV.EliasProofs.
Local Open Scope N_scope.

(* varintEliasGammaEncodeArray touches exactly the varintEliasGammaMaxBytes(count)
   bytes its varintBitWriterInit zeroes (ee_extent), places no bit beyond them
   (ee_ovf = false: the release build has no bound check), and returns a
   length, equal to the number of bytes holding code bits, that does not
   exceed MaxBytes(count). *)
Theorem C03_gamma_encode_bound : forall xs,
  Forall (fun x => 1 <= x < 18446744073709551616) xs ->
  N.of_nat (length xs) < 144115188075855872 ->
  let e := elias_gamma_encode_array xs in
  ee_extent e = elias_gamma_max_bytes (N.of_nat (length xs)) /\
  ee_ovf e = false /\
  ee_ret e <= elias_gamma_max_bytes (N.of_nat (length xs)) /\
  N.of_nat (length (ee_bytes e)) = ee_ret e.
Proof. exact gamma_encode_bound. Qed.
Print Assumptions C03_gamma_encode_bound.

Theorem C03_delta_encode_bound : forall xs,
  Forall (fun x => 1 <= x < 18446744073709551616) xs ->
  N.of_nat (length xs) < 144115188075855872 ->
  let e := elias_delta_encode_array xs in
  ee_extent e = elias_delta_max_bytes (N.of_nat (length xs)) /\
  ee_ovf e = false /\
  ee_ret e <= elias_delta_max_bytes (N.of_nat (length xs)) /\
  N.of_nat (length (ee_bytes e)) = ee_ret e.
Proof. exact delta_encode_bound. Qed.
Print Assumptions C03_delta_encode_bound.

(* the per-value worst cases behind the two bounds, and they are attained *)
Theorem C03_gamma_code_le_127 : forall x, 1 <= x < 18446744073709551616 ->
  N.of_nat (length (gamma_code x)) <= 127.
Proof. exact EliasEncProofs.gamma_code_le_127. Qed.
Print Assumptions C03_gamma_code_le_127.

Theorem C03_delta_code_le_76 : forall x, 1 <= x < 18446744073709551616 ->
  N.of_nat (length (delta_code x)) <= 76.
Proof. exact EliasEncProofs.delta_code_le_76. Qed.
Print Assumptions C03_delta_code_le_76.

Theorem C03_gamma_bound_tight : N.of_nat (length (gamma_code 18446744073709551615)) = 127.
Proof. exact gamma_bound_tight. Qed.
Print Assumptions C03_gamma_bound_tight.

Theorem C03_delta_bound_tight : N.of_nat (length (delta_code 18446744073709551615)) = 76.
Proof. exact delta_bound_tight. Qed.
Print Assumptions C03_delta_bound_tight.

(* a single maximal value fills the advertised size exactly *)
Example C03_elias_example :
  ee_ret (elias_gamma_encode_array [18446744073709551615]) = 16 /\
  elias_gamma_max_bytes 1 = 16 /\
  ee_ret (elias_delta_encode_array [18446744073709551615; 9223372036854775808]) = 19 /\
  elias_delta_max_bytes 2 = 19.
Proof. vm_compute. repeat split; reflexivity. Qed.
