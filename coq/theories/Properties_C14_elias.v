(* Properties_C14_elias.v — property C14 (length-taking decoders stay inside
   their declared input), both Elias array decoders, after the `fix:` commit
   for F13.  The model reads buffer[i] as `nth i z 0`; "reads nothing at or
   beyond the declared size" is non-interference: the result is a function of
   the first ceil(bits/8) bytes — in fact of the first `bits` bits — only.
   Termination is the totality of the Gallina functions (structural recursion
   on maxCount, 64 iterations of the zero-counting loop, nBits <= 64 bit
   reads); there is no allocation. *)
Require Import VV.Base VV.EliasBits VV.Elias VV.EliasSpec VV.EliasReadProofs VV.EliasProofs.
Local Open Scope N_scope.

Theorem C14_gamma_reads_inside : forall z z' bits cap,
  bits + 64 < 18446744073709551616 ->
  firstn (N.to_nat ((bits + 7) / 8)) z = firstn (N.to_nat ((bits + 7) / 8)) z' ->
  elias_gamma_decode_array z bits cap = elias_gamma_decode_array z' bits cap.
Proof. exact gamma_decode_noninterference. Qed.
Print Assumptions C14_gamma_reads_inside.

Theorem C14_delta_reads_inside : forall z z' bits cap,
  bits + 64 < 18446744073709551616 ->
  firstn (N.to_nat ((bits + 7) / 8)) z = firstn (N.to_nat ((bits + 7) / 8)) z' ->
  elias_delta_decode_array z bits cap = elias_delta_decode_array z' bits cap.
Proof. exact delta_decode_noninterference. Qed.
Print Assumptions C14_delta_reads_inside.

(* bit-exact form: only the declared bits matter, not even the rest of the
   last declared byte (bit p of z is bit 7 - p mod 8 of byte p / 8) *)
Theorem C14_gamma_bits_only : forall z z' bits cap,
  bits + 64 < 18446744073709551616 ->
  bits_of z 0 (N.to_nat bits) = bits_of z' 0 (N.to_nat bits) ->
  elias_gamma_decode_array z bits cap = elias_gamma_decode_array z' bits cap.
Proof. exact gamma_decode_bits_only. Qed.
Print Assumptions C14_gamma_bits_only.

Theorem C14_delta_bits_only : forall z z' bits cap,
  bits + 64 < 18446744073709551616 ->
  bits_of z 0 (N.to_nat bits) = bits_of z' 0 (N.to_nat bits) ->
  elias_delta_decode_array z bits cap = elias_delta_decode_array z' bits cap.
Proof. exact delta_decode_bits_only. Qed.
Print Assumptions C14_delta_bits_only.

(* arbitrary contents: at most maxCount values stored, all non-zero *)
Theorem C14_gamma_output_bounded : forall z bits cap,
  (length (elias_gamma_decode_array z bits cap) <= cap)%nat /\
  Forall (fun v => v <> 0) (elias_gamma_decode_array z bits cap).
Proof. exact gamma_decode_capacity. Qed.
Print Assumptions C14_gamma_output_bounded.

Theorem C14_delta_output_bounded : forall z bits cap,
  (length (elias_delta_decode_array z bits cap) <= cap)%nat /\
  Forall (fun v => v <> 0) (elias_delta_decode_array z bits cap).
Proof. exact delta_decode_capacity. Qed.
Print Assumptions C14_delta_output_bounded.

(* every truncation of a valid encoding gives a prefix of the original values *)
Theorem C14_gamma_truncated : forall xs tail srcBits cap,
  Forall (fun x => 1 <= x < 18446744073709551616) xs ->
  N.of_nat (length xs) < 144115188075855872 ->
  let e := elias_gamma_encode_array xs in
  srcBits <= ee_totalBits e ->
  exists k, elias_gamma_decode_array (ee_bytes e ++ tail) srcBits cap = firstn k xs.
Proof. exact gamma_decode_truncated. Qed.
Print Assumptions C14_gamma_truncated.

Theorem C14_delta_truncated : forall xs tail srcBits cap,
  Forall (fun x => 1 <= x < 18446744073709551616) xs ->
  N.of_nat (length xs) < 144115188075855872 ->
  let e := elias_delta_encode_array xs in
  srcBits <= ee_totalBits e ->
  exists k, elias_delta_decode_array (ee_bytes e ++ tail) srcBits cap = firstn k xs.
Proof. exact delta_decode_truncated. Qed.
Print Assumptions C14_delta_truncated.

(* the ledger's witness (F13): one zero byte with 8 declared bits, and a delta
   length field of 2^40, now end decoding with no value *)
Example C14_elias_example :
  elias_gamma_decode_array [0] 8 8 = [] /\
  elias_gamma_decode_array [1] 8 8 = [] /\
  elias_delta_decode_array [0; 0; 0; 0; 0; 128; 255; 0; 0; 0; 0] 88 8 = [] /\
  elias_gamma_decode_array [166; 66; 128] 17 8 = [1; 2; 3; 4; 5] /\
  elias_gamma_decode_array [166; 66; 128] 16 8 = [1; 2; 3; 4].
Proof. vm_compute. repeat split; reflexivity. Qed.
