(* PFOR.v — Gallina model of /repo/src/varintPFOR.c (+ the varintExternal
   helpers it uses: varintExternalUnsignedEncoding = Base.ext_width,
   varintExternalPutFixedWidth, varintExternalGetQuick_).

   One definition per C function, same case structure, same machine
   arithmetic.  The code modelled is the code after the `fix:` commits
   F04 (offset == marker is an exception), F08 (PFORSize sizes indices by
   TaggedLen(count)), F31 (allocation failures return 0 — allocation itself
   is not part of this pure model) and the 64-bit `count * width` in
   varintPFORReadMeta.

   Decoders consume a byte list (the list is "the memory from src on").
   A read at or past the end of the list is the explicit outcome POob, a
   width outside 1..8 reaching varintExternalGet is PUB (assert /
   __builtin_unreachable / 8-byte stack slot overrun in the C), PFuel is
   fuel exhaustion (fuel = length of the input; theorems exclude it). *)
Require Import VV.Base VV.Tagged.
From Coq Require Import Sorting.Mergesort Orders.
Local Open Scope N_scope.

Definition U64MAX : N := 18446744073709551615.

(* ---------- qsort(compare_uint64): the sorted permutation ---------- *)
Module NLeb <: TotalLeBool.
  Definition t := N.
  Definition leb := N.leb.
  Theorem leb_total : forall a1 a2, leb a1 a2 = true \/ leb a2 a1 = true.
  Proof.
    intros a b. unfold leb. destruct (N.leb_spec a b) as [H|H]; [left; reflexivity|].
    right. apply N.leb_le. apply N.lt_le_incl. exact H.
  Qed.
End NLeb.
Module NSort := Sort NLeb.
Definition pfor_sort (xs : list N) : list N := NSort.sort xs.

(* ---------- list access with N indices (pointer arithmetic) ---------- *)
Fixpoint nthN (l : list N) (i : N) (d : N) : N :=
  match l with
  | [] => d
  | x :: t => if i =? 0 then x else nthN t (i - 1) d
  end.
(* src + n *)
Fixpoint dropN (l : list N) (n : N) : list N :=
  match l with
  | [] => []
  | _ :: t => if n =? 0 then l else dropN t (n - 1)
  end.
Fixpoint takeNp {A : Type} (l : list A) (n : N) : list A :=
  match l with
  | [] => []
  | x :: t => if n =? 0 then [] else x :: takeNp t (n - 1)
  end.
(* values[i] = v (no effect when i is outside the list: callers guard) *)
Fixpoint updN (l : list N) (i : N) (v : N) : list N :=
  match l with
  | [] => []
  | x :: t => if i =? 0 then v :: t else x :: updN t (i - 1) v
  end.
(* at least k bytes are readable from here *)
Definition has_bytes (z : list N) (k : nat) : bool :=
  match k with
  | O => true
  | S k' => match nth_error z k' with Some _ => true | None => false end
  end.

Inductive pres (A : Type) : Type :=
| POk (a : A) | POob | PUB | PFuel.
Arguments POk {A} a.
Arguments POob {A}.
Arguments PUB {A}.
Arguments PFuel {A}.

(* ---------- metadata ---------- *)
Record pfor_meta : Type := mk_pfor_meta {
  pm_min : N;        (* uint64_t min *)
  pm_marker : N;     (* uint64_t exceptionMarker *)
  pm_tv : N;         (* uint64_t thresholdValue *)
  pm_width : N;      (* varintWidth width *)
  pm_count : N;      (* uint32_t count *)
  pm_exc : N;        (* uint32_t exceptionCount *)
  pm_thr : N         (* uint32_t threshold *)
}.
Definition pfor_meta_zero : pfor_meta := mk_pfor_meta 0 0 0 0 0 0 0.

(* varintPFORCalculateMarker *)
Definition pfor_marker (width : N) : N :=
  if 8 <=? width then U64MAX else shl64 1 (width * 8) - 1.

(* the exception test shared by ComputeThreshold and Encode (F04 fix):
   values[i] > thresholdValue || values[i] - min == marker *)
Definition pfor_is_exc (mn tv marker v : N) : bool :=
  (tv <? v) || (sub64 v mn =? marker).

Fixpoint pfor_count_exc (mn tv marker : N) (xs : list N) : N :=
  match xs with
  | [] => 0
  | v :: t => (if pfor_is_exc mn tv marker v then 1 else 0) + pfor_count_exc mn tv marker t
  end.

(* varintPFORComputeThreshold(values, count, threshold, meta); count is the
   uint32_t parameter = length xs (domain: length xs < 2^32).
   thresholdIndex = (count * threshold) / 100 is computed in uint32_t. *)
Definition pfor_threshold_index (count thr : N) : N :=
  let ti := u32 (count * thr) / 100 in
  if count <=? ti then count - 1 else ti.

Definition pfor_compute_threshold (xs : list N) (thr : N) : pfor_meta :=
  let count := N.of_nat (length xs) in
  if count =? 0 then pfor_meta_zero
  else
    let sorted := pfor_sort xs in
    let mn := nthN sorted 0 0 in
    let tv := nthN sorted (pfor_threshold_index count thr) 0 in
    let range := sub64 tv mn in
    let width := N.of_nat (ext_width range) in
    let marker := pfor_marker width in
    let exc := pfor_count_exc mn tv marker xs in
    mk_pfor_meta mn marker tv width count exc thr.

(* its return value *)
Definition pfor_compute_threshold_ret (xs : list N) (thr : N) : N :=
  if N.of_nat (length xs) =? 0 then 1 else pm_width (pfor_compute_threshold xs thr).

(* varintPFORSize (size_t arithmetic) *)
Definition pfor_size (m : pfor_meta) : N :=
  u64 (tagged_len (pm_min m) + 1 + tagged_len (pm_count m)
       + pm_count m * pm_width m
       + tagged_len (pm_exc m)
       + pm_exc m * (tagged_len (pm_count m) + tagged_len U64MAX)).

(* varintExternalPutFixedWidth on the little-endian host, width 1..8 *)
Definition pfor_put_fixed (v width : N) : list N := le_bytes (N.to_nat width) v.

(* first pass of varintPFOREncode: value slots and the exception records;
   have = (exceptions != NULL), i = loop index *)
Fixpoint pfor_enc_values (m : pfor_meta) (have : bool) (i : N) (xs : list N)
  : list N * list (N * N) :=
  match xs with
  | [] => ([], [])
  | v :: t =>
      let r := pfor_enc_values m have (i + 1) t in
      if pfor_is_exc (pm_min m) (pm_tv m) (pm_marker m) v && have
      then (pfor_put_fixed (pm_marker m) (pm_width m) ++ fst r, (i, v) :: snd r)
      else (pfor_put_fixed (sub64 v (pm_min m)) (pm_width m) ++ fst r, snd r)
  end.

Fixpoint pfor_put_excs (ex : list (N * N)) : list N :=
  match ex with
  | [] => []
  | (i, v) :: t => tagged_put64 i ++ tagged_put64 v ++ pfor_put_excs t
  end.

(* varintPFOREncode: bytes written (length = return value) and *meta *)
Definition pfor_encode (xs : list N) (thr : N) : list N * pfor_meta :=
  let m := pfor_compute_threshold xs thr in
  let hdr := tagged_put64 (pm_min m) ++ [u8 (pm_width m)] ++ tagged_put64 (pm_count m) in
  let r := pfor_enc_values m (0 <? pm_exc m) 0 xs in
  (hdr ++ fst r ++ tagged_put64 (pm_exc m) ++ pfor_put_excs (takeNp (snd r) (pm_exc m)), m).

Definition pfor_encode_bytes (xs : list N) (thr : N) : list N := fst (pfor_encode xs thr).
Definition pfor_encode_meta (xs : list N) (thr : N) : pfor_meta := snd (pfor_encode xs thr).

(* ---------- readers ---------- *)

(* varintTaggedGet64(src, &v): (width, value, src + width) *)
Definition rd_tagged (z : list N) : pres (N * N * list N) :=
  match z with
  | [] => POob
  | _ :: _ =>
      if has_bytes z (N.to_nat (tagged_getlen z)) then
        let r := tagged_get64 z in POk (fst r, snd r, dropN z (fst r))
      else POob
  end.

(* varintExternalGetQuick_(src, width, result) *)
Definition pfor_ext_get_quick (z : list N) (width : N) : N :=
  let b i := byte_at z i in
  match width with
  | 1 => b 0%nat
  | 2 => bor (shl64 (b 1%nat) 8) (b 0%nat)
  | 3 => bor (bor (shl64 (b 2%nat) 16) (shl64 (b 1%nat) 8)) (b 0%nat)
  | _ => of_le (firstn (N.to_nat width) z)   (* varintExternalGet, widths 4..8 *)
  end.

Definition pfor_get_ext (z : list N) (width : N) : pres N :=
  if (1 <=? width) && (width <=? 8) then
    if has_bytes z (N.to_nat width) then POk (pfor_ext_get_quick z width) else POob
  else PUB.

(* varintPFORReadMeta(src, meta): header bytes consumed and the new *meta.
   The two 8-byte stores through (uint64_t * )&meta->count and
   &meta->exceptionCount leave the low 32 bits in the field (the spill into the
   next field is overwritten afterwards); thresholdValue is not written. *)
Definition pfor_read_meta (z : list N) (m0 : pfor_meta) : pres (N * pfor_meta) :=
  match rd_tagged z with
  | POk (w1, mn, z1) =>
      match z1 with
      | [] => POob
      | wb :: z2 =>
          match rd_tagged z2 with
          | POk (w2, cnt, z3) =>
              let count := u32 cnt in
              match rd_tagged (dropN z3 (count * wb)) with
              | POk (_, ec, _) =>
                  POk (w1 + 1 + w2,
                       mk_pfor_meta mn (pfor_marker wb) (pm_tv m0) wb count (u32 ec) 95)
              | POob => POob | PUB => PUB | PFuel => PFuel
              end
          | POob => POob | PUB => PUB | PFuel => PFuel
          end
      end
  | POob => POob | PUB => PUB | PFuel => PFuel
  end.

(* the value loop of varintPFORDecode; n = iterations left *)
Fixpoint pfor_dec_values (fuel : nat) (m : pfor_meta) (n : N) (z : list N)
  : pres (list N * list N) :=
  if n =? 0 then POk ([], z)
  else
    match pfor_get_ext z (pm_width m) with
    | POk off =>
        match fuel with
        | O => PFuel
        | S f =>
            let v := if off =? pm_marker m then U64MAX else add64 (pm_min m) off in
            match pfor_dec_values f m (n - 1) (dropN z (pm_width m)) with
            | POk (vs, z') => POk (v :: vs, z')
            | POob => POob | PUB => PUB | PFuel => PFuel
            end
        end
    | POob => POob | PUB => PUB | PFuel => PFuel
    end.

(* the exception loop of varintPFORDecode; k = iterations left *)
Fixpoint pfor_dec_excs (fuel : nat) (count k : N) (z : list N) (vals : list N)
  : pres (list N) :=
  if k =? 0 then POk vals
  else
    match fuel with
    | O => PFuel
    | S f =>
        match rd_tagged z with
        | POk (_, idx, z1) =>
            match rd_tagged z1 with
            | POk (_, v, z2) =>
                pfor_dec_excs f count (k - 1) z2
                  (if idx <? count then updN vals idx v else vals)
            | POob => POob | PUB => PUB | PFuel => PFuel
            end
        | POob => POob | PUB => PUB | PFuel => PFuel
        end
    end.

(* varintPFORDecode(src, values, meta): the values written (meta->count of
   them; the return value is their number) and the updated *meta.
   meta->width == 0 on entry: the header is parsed; otherwise the caller's
   min/width/count/marker are used and the header is skipped. *)
Definition pfor_decode (z : list N) (m : pfor_meta) : pres (list N * pfor_meta) :=
  let fuel := S (length z) in
  let start :=
    if pm_width m =? 0 then
      match pfor_read_meta z m with
      | POk (h, m') => POk (dropN z h, m')
      | POob => POob | PUB => PUB | PFuel => PFuel
      end
    else POk (dropN z (tagged_len (pm_min m) + 1 + tagged_len (pm_count m)), m) in
  match start with
  | POk (z1, m1) =>
      match pfor_dec_values fuel m1 (pm_count m1) z1 with
      | POk (vals, z2) =>
          match rd_tagged z2 with
          | POk (_, ec, z3) =>
              let m2 := mk_pfor_meta (pm_min m1) (pm_marker m1) (pm_tv m1) (pm_width m1)
                                     (pm_count m1) (u32 ec) (pm_thr m1) in
              match pfor_dec_excs fuel (pm_count m1) (u32 ec) z3 vals with
              | POk vals' => POk (vals', m2)
              | POob => POob | PUB => PUB | PFuel => PFuel
              end
          | POob => POob | PUB => PUB | PFuel => PFuel
          end
      | POob => POob | PUB => PUB | PFuel => PFuel
      end
  | POob => POob | PUB => PUB | PFuel => PFuel
  end.

(* the exception search of varintPFORGetAt (uint64_t exceptionCount, so the
   loop only ends by a match, by k reaching 0, or by running off the input) *)
Fixpoint pfor_get_at_search (fuel : nat) (k index : N) (z : list N) : pres N :=
  if k =? 0 then POk 0
  else
    match fuel with
    | O => PFuel
    | S f =>
        match rd_tagged z with
        | POk (_, idx, z1) =>
            match rd_tagged z1 with
            | POk (_, v, z2) =>
                if idx =? index then POk v else pfor_get_at_search f (k - 1) index z2
            | POob => POob | PUB => PUB | PFuel => PFuel
            end
        | POob => POob | PUB => PUB | PFuel => PFuel
        end
    end.

(* varintPFORGetAt(src, index, meta) *)
Definition pfor_get_at (z : list N) (index : N) (m : pfor_meta) : pres N :=
  if pm_count m <=? index then POk 0
  else
    let hdr := tagged_len (pm_min m) + 1 + tagged_len (pm_count m) in
    match pfor_get_ext (dropN z (hdr + index * pm_width m)) (pm_width m) with
    | POk off =>
        if negb (off =? pm_marker m) then POk (add64 (pm_min m) off)
        else
          match rd_tagged (dropN z (hdr + pm_count m * pm_width m)) with
          | POk (_, ec, z1) => pfor_get_at_search (S (length z)) ec index z1
          | POob => POob | PUB => PUB | PFuel => PFuel
          end
    | POob => POob | PUB => PUB | PFuel => PFuel
    end.

(* EXTRACT: pfor_sort nthN dropN takeNp updN pfor_marker pfor_threshold_index
   pfor_compute_threshold pfor_compute_threshold_ret pfor_size pfor_encode
   pfor_encode_bytes pfor_encode_meta rd_tagged pfor_get_ext pfor_read_meta
   pfor_decode pfor_get_at pfor_meta_zero *)
