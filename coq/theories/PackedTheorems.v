(* PackedTheorems.v — the statements of property C09 for the packed module, with
   every hypothesis spelled out over the instantiation parameters
   (w = bits per element, S = slot bits, P = promotion type bits if any,
    V = value type bits, L = length type bits), proved from the lemmas of
   PackedProofs / PackedIncrProofs / PackedLoopProofs / PackedSortedProofs. *)
Require Import VV.Base VV.BaseProofs VV.Packed VV.PackedLemmas VV.PackedProofs VV.PackedIncrProofs
  VV.PackedLoopProofs VV.PackedSpec VV.PackedSpecProofs VV.PackedRun VV.PackedSortedProofs.
From Coq Require Import Lia ZifyBool ZifyN ZifyNat Sorted Permutation.
Local Open Scope N_scope.

Lemma admitted_mk w S P V L compact :
  1 <= w -> w <= 32 -> (S = 8 \/ S = 16 \/ S = 32 \/ S = 64) -> w <= S + N.gcd w S -> w <= V ->
  (forall p, P = Some p -> S <= p /\ w <= p) -> admitted (mk_pcfg w S P V L compact).
Proof.
  intros W1 W32 HS SP HV HP. unfold admitted. cbn [p_w p_S p_P p_V].
  repeat split; try assumption; try (destruct HS as [-> | [-> | [-> | ->]]]; lia).
  destruct P as [p|]; [apply HP; reflexivity | exact I].
Qed.

(* writing element i makes a read of element i return exactly the written value *)
Theorem packed_get_set_same : forall w S P V L compact,
  1 <= w -> w <= 32 -> (S = 8 \/ S = 16 \/ S = 32 \/ S = 64) -> w <= S + N.gcd w S -> w <= V ->
  (forall p, P = Some p -> S <= p /\ w <= p) ->
  forall a i v, let c := (mk_pcfg w S P V L compact) in
  Forall (fun s => s < 2 ^ S) a -> (i * w + w - 1) / S < N.of_nat (length a) -> i < 4294967296 -> v < 2 ^ w ->
  fst (packed_get c (fst (packed_set c a i v)) i) = v.
Proof.
  intros w S P V L compact W1 W32 HS SP HV HP. pose proof (admitted_mk w S P V L compact W1 W32 HS SP HV HP) as A. intros a i v c. exact (get_set_same c a i v A).
Qed.

(* ... and leaves every other element unchanged *)
Theorem packed_get_set_other : forall w S P V L compact,
  1 <= w -> w <= 32 -> (S = 8 \/ S = 16 \/ S = 32 \/ S = 64) -> w <= S + N.gcd w S -> w <= V ->
  (forall p, P = Some p -> S <= p /\ w <= p) ->
  forall a i j v, let c := (mk_pcfg w S P V L compact) in
  Forall (fun s => s < 2 ^ S) a -> (i * w + w - 1) / S < N.of_nat (length a) -> i < 4294967296 -> j < 4294967296 -> v < 2 ^ w -> j <> i ->
  fst (packed_get c (fst (packed_set c a i v)) j) = fst (packed_get c a j).
Proof.
  intros w S P V L compact W1 W32 HS SP HV HP. pose proof (admitted_mk w S P V L compact W1 W32 HS SP HV HP) as A. intros a i j v c. exact (get_set_other c a i j v A).
Qed.

(* bit by bit: the bits of element i become the value, every other storage bit (of the array or beyond it) is unchanged, the array keeps its length and its slots stay slot-sized *)
Theorem packed_set_bits : forall w S P V L compact,
  1 <= w -> w <= 32 -> (S = 8 \/ S = 16 \/ S = 32 \/ S = 64) -> w <= S + N.gcd w S -> w <= V ->
  (forall p, P = Some p -> S <= p /\ w <= p) ->
  forall a i v, let c := (mk_pcfg w S P V L compact) in
  Forall (fun s => s < 2 ^ S) a -> (i * w + w - 1) / S < N.of_nat (length a) -> i < 4294967296 -> v < 2 ^ w ->
  let a' := fst (packed_set c a i v) in
  (forall j, j < w -> N.testbit (slot_at a' ((i * w + j) / S)) ((i * w + j) mod S) = N.testbit v j) /\
  (forall n, ~ (i * w <= n < i * w + w) -> N.testbit (slot_at a' (n / S)) (n mod S) = N.testbit (slot_at a (n / S)) (n mod S)) /\
  length a' = length a /\ Forall (fun s => s < 2 ^ S) a'.
Proof.
  intros w S P V L compact W1 W32 HS SP HV HP. pose proof (admitted_mk w S P V L compact W1 W32 HS SP HV HP) as A. intros a i v c Hwf Hin Hi Hv a'. split; [|split; [|split]].
  - intros j Hj. exact (set_bits_inside c a i v j A Hwf Hin Hi Hv Hj).
  - intros n Hn. exact (set_bits_outside c a i v n A Hwf Hin Hi Hv Hn).
  - exact (setv_length c a i v).
  - exact (setv_wf c a i v A Hwf).
Qed.

(* a read returns exactly the w storage bits of the element *)
Theorem packed_get_bits : forall w S P V L compact,
  1 <= w -> w <= 32 -> (S = 8 \/ S = 16 \/ S = 32 \/ S = 64) -> w <= S + N.gcd w S -> w <= V ->
  (forall p, P = Some p -> S <= p /\ w <= p) ->
  forall a i j, let c := (mk_pcfg w S P V L compact) in
  Forall (fun s => s < 2 ^ S) a -> i < 4294967296 ->
  N.testbit (fst (packed_get c a i)) j = (j <? w) && N.testbit (slot_at a ((i * w + j) / S)) ((i * w + j) mod S).
Proof.
  intros w S P V L compact W1 W32 HS SP HV HP. pose proof (admitted_mk w S P V L compact W1 W32 HS SP HV HP) as A. intros a i j c Hwf Hi. exact (get_bits c a i j A Hwf Hi).
Qed.

(* Set accesses only the storage slots element i occupies *)
Theorem packed_set_touched : forall w S P V L compact,
  1 <= w -> w <= 32 -> (S = 8 \/ S = 16 \/ S = 32 \/ S = 64) -> w <= S + N.gcd w S -> w <= V ->
  (forall p, P = Some p -> S <= p /\ w <= p) ->
  forall a i v k, let c := (mk_pcfg w S P V L compact) in
  i < 4294967296 -> In k (snd (packed_set c a i v)) ->
  (i * w) / S <= k <= (i * w + w - 1) / S.
Proof.
  intros w S P V L compact W1 W32 HS SP HV HP. pose proof (admitted_mk w S P V L compact W1 W32 HS SP HV HP) as A. intros a i v k c. exact (set_touched c a i v k A).
Qed.

(* Get accesses only the storage slots element i occupies *)
Theorem packed_get_touched : forall w S P V L compact,
  1 <= w -> w <= 32 -> (S = 8 \/ S = 16 \/ S = 32 \/ S = 64) -> w <= S + N.gcd w S -> w <= V ->
  (forall p, P = Some p -> S <= p /\ w <= p) ->
  forall a i k, let c := (mk_pcfg w S P V L compact) in
  i < 4294967296 -> In k (snd (packed_get c a i)) ->
  (i * w) / S <= k <= (i * w + w - 1) / S.
Proof.
  intros w S P V L compact W1 W32 HS SP HV HP. pose proof (admitted_mk w S P V L compact W1 W32 HS SP HV HP) as A. intros a i k c. exact (get_touched c a i k A).
Qed.

(* no call evaluates a shift by the width of the shifted type *)
Theorem packed_no_shift_ub : forall w S P V L compact,
  1 <= w -> w <= 32 -> (S = 8 \/ S = 16 \/ S = 32 \/ S = 64) -> w <= S + N.gcd w S -> w <= V ->
  (forall p, P = Some p -> S <= p /\ w <= p) ->
  forall i, i < 4294967296 -> packed_shift_ub (mk_pcfg w S P V L compact) i = false.
Proof.
  intros w S P V L compact W1 W32 HS SP HV HP. pose proof (admitted_mk w S P V L compact W1 W32 HS SP HV HP) as A. intros i. exact (no_shift_ub _ i A).
Qed.

(* increment (non-negative, result in range) sets element i to the sum and modifies nothing else; only the element's slots are accessed *)
Theorem packed_incr : forall w S P V L compact,
  1 <= w -> w <= 32 -> (S = 8 \/ S = 16 \/ S = 32 \/ S = 64) -> w <= S + N.gcd w S -> w <= V ->
  (forall p, P = Some p -> S <= p /\ w <= p) ->
  forall a i d, let c := (mk_pcfg w S P V L compact) in
  Forall (fun s => s < 2 ^ S) a -> (i * w + w - 1) / S < N.of_nat (length a) -> i < 4294967296 -> (0 <= d)%Z -> (Z.of_N (fst (packed_get c a i)) + d < Z.of_N (2 ^ w))%Z ->
  let a' := fst (packed_set_incr c a i d) in
  fst (packed_get c a' i) = Z.to_N (Z.of_N (fst (packed_get c a i)) + d) /\
  (forall j, j < 4294967296 -> j <> i -> fst (packed_get c a' j) = fst (packed_get c a j)) /\
  (forall n, ~ (i * w <= n < i * w + w) -> N.testbit (slot_at a' (n / S)) (n mod S) = N.testbit (slot_at a (n / S)) (n mod S)) /\
  length a' = length a /\
  (forall k, In k (snd (packed_set_incr c a i d)) -> (i * w) / S <= k <= (i * w + w - 1) / S).
Proof.
  intros w S P V L compact W1 W32 HS SP HV HP. pose proof (admitted_mk w S P V L compact W1 W32 HS SP HV HP) as A. intros a i d c Hwf Hin Hi Hd Hr a'. split; [|split; [|split; [|split]]].
  - exact (incr_get_same c a i d A Hwf Hin Hi Hd Hr).
  - intros j Hj Hne. exact (incr_get_other c a i j d A Hwf Hin Hi Hj Hd Hr Hne).
  - intros n Hn. exact (incr_bits_outside c a i d n A Hwf Hin Hi Hd Hr Hn).
  - unfold a'. fold (incrv c a i d). rewrite (incrv_setv c a i d A Hwf Hi Hd Hr). apply setv_length.
  - intros k Hk. exact (incr_touched c a i d k A Hi Hk).
Qed.

(* halve sets element i to half its value and modifies nothing else; only the element's slots are accessed *)
Theorem packed_half : forall w S P V L compact,
  1 <= w -> w <= 32 -> (S = 8 \/ S = 16 \/ S = 32 \/ S = 64) -> w <= S + N.gcd w S -> w <= V ->
  (forall p, P = Some p -> S <= p /\ w <= p) ->
  forall a i, let c := (mk_pcfg w S P V L compact) in
  Forall (fun s => s < 2 ^ S) a -> (i * w + w - 1) / S < N.of_nat (length a) -> i < 4294967296 ->
  let a' := fst (packed_set_half c a i) in
  fst (packed_get c a' i) = fst (packed_get c a i) / 2 /\
  (forall j, j < 4294967296 -> j <> i -> fst (packed_get c a' j) = fst (packed_get c a j)) /\
  (forall n, ~ (i * w <= n < i * w + w) -> N.testbit (slot_at a' (n / S)) (n mod S) = N.testbit (slot_at a (n / S)) (n mod S)) /\
  length a' = length a /\
  (forall k, In k (snd (packed_set_half c a i)) -> (i * w) / S <= k <= (i * w + w - 1) / S).
Proof.
  intros w S P V L compact W1 W32 HS SP HV HP. pose proof (admitted_mk w S P V L compact W1 W32 HS SP HV HP) as A. intros a i c Hwf Hin Hi a'. split; [|split; [|split; [|split]]].
  - exact (half_get_same c a i A Hwf Hin Hi).
  - intros j Hj Hne. exact (half_get_other c a i j A Hwf Hin Hi Hj Hne).
  - intros n Hn. exact (half_bits_outside c a i n A Hwf Hin Hi Hn).
  - exact (proj1 (proj2 (halfv_setv c a i A Hwf Hin Hi))).
  - intros k Hk. exact (half_touched c a i k A Hi Hk).
Qed.

(* positional insert is list insertion; storage beyond the len+1 elements is unchanged and only slots of those elements (all inside the array) are accessed *)
Theorem packed_insert_at : forall w S P V L compact,
  1 <= w -> w <= 32 -> (S = 8 \/ S = 16 \/ S = 32 \/ S = 64) -> w <= S + N.gcd w S -> w <= V ->
  (forall p, P = Some p -> S <= p /\ w <= p) ->
  forall a len off v, let c := (mk_pcfg w S P V L compact) in
  Forall (fun s => s < 2 ^ S) a -> (len + 1) * w <= S * N.of_nat (length a) -> len < 2147483648 -> off <= len -> v < 2 ^ w ->
  let r := packed_insert c a len off v in
  elems c (fst r) (len + 1) = insert_at (elems c a len) (N.to_nat off) v /\
  length (fst r) = length a /\
  (forall n, (len + 1) * w <= n -> N.testbit (slot_at (fst r) (n / S)) (n mod S) = N.testbit (slot_at a (n / S)) (n mod S)) /\
  Forall (fun k => k * S < (len + 1) * w /\ k < N.of_nat (length a)) (snd r).
Proof.
  intros w S P V L compact W1 W32 HS SP HV HP. pose proof (admitted_mk w S P V L compact W1 W32 HS SP HV HP) as A. intros a len off v c Hwf Hfit Hlen Hoff Hv r.
  destruct (insert_spec c a len off v A Hwf Hfit Hlen Hoff Hv) as (W' & L' & G0 & G1 & G2 & G3 & Fr & Tc).
  split; [exact (insert_refines c a len off v A Hwf Hfit Hlen Hoff Hv)|]. split; [exact L'|]. split; [exact Fr|].
  eapply Forall_impl; [|exact Tc]. intros k Hk. split; [exact Hk|]. exact (within_in_array c a (len + 1) k A Hfit Hk).
Qed.

(* positional delete is list deletion; storage beyond the len elements is unchanged and only slots of those elements are accessed *)
Theorem packed_delete_at : forall w S P V L compact,
  1 <= w -> w <= 32 -> (S = 8 \/ S = 16 \/ S = 32 \/ S = 64) -> w <= S + N.gcd w S -> w <= V ->
  (forall p, P = Some p -> S <= p /\ w <= p) ->
  forall a len off, let c := (mk_pcfg w S P V L compact) in
  Forall (fun s => s < 2 ^ S) a -> len * w <= S * N.of_nat (length a) -> len < 2147483648 -> len < 2 ^ L -> off < len ->
  let r := packed_delete c a len off in
  elems c (fst r) (len - 1) = delete_at (elems c a len) (N.to_nat off) /\
  length (fst r) = length a /\
  (forall n, len * w <= n -> N.testbit (slot_at (fst r) (n / S)) (n mod S) = N.testbit (slot_at a (n / S)) (n mod S)) /\
  Forall (fun k => k * S < len * w /\ k < N.of_nat (length a)) (snd r).
Proof.
  intros w S P V L compact W1 W32 HS SP HV HP. pose proof (admitted_mk w S P V L compact W1 W32 HS SP HV HP) as A. intros a len off c Hwf Hfit H31 HL Hoff r.
  destruct (delete_spec c a len off A Hwf Hfit (conj H31 HL) Hoff) as (W' & L' & G1 & G2 & G3 & Fr & Tc).
  split; [exact (delete_refines c a len off A Hwf Hfit (conj H31 HL) Hoff)|]. split; [exact L'|]. split; [exact Fr|].
  eapply Forall_impl; [|exact Tc]. intros k Hk. split; [exact Hk|]. exact (within_in_array c a len k A Hfit Hk).
Qed.

(* on a sorted array the binary search returns the lower bound and Member the index of the first equal element or -1 *)
Theorem packed_search_member : forall w S P V L compact,
  1 <= w -> w <= 32 -> (S = 8 \/ S = 16 \/ S = 32 \/ S = 64) -> w <= S + N.gcd w S -> w <= V ->
  (forall p, P = Some p -> S <= p /\ w <= p) ->
  forall a len v, let c := (mk_pcfg w S P V L compact) in
  Forall (fun s => s < 2 ^ S) a -> len * w <= S * N.of_nat (length a) -> len < 2147483648 -> len < 2 ^ L ->
  StronglySorted N.le (elems c a len) ->
  (exists t, packed_binary_search c a len v = Some (N.of_nat (lower_bound (elems c a len) v), t)) /\
  (exists t, packed_member c a len v = Some (find_first (elems c a len) v, t)).
Proof.
  intros w S P V L compact W1 W32 HS SP HV HP. pose proof (admitted_mk w S P V L compact W1 W32 HS SP HV HP) as A. intros a len v c Hwf Hfit H31 HL Hs. split.
  - exact (search_refines c a len v A Hwf Hfit (conj H31 HL) Hs).
  - exact (member_refines c a len v A Hwf Hfit (conj H31 HL) Hs).
Qed.

(* every history of sorted insert / delete-member / member / lower-bound operations keeps the array equal to the reference sorted list and returns the reference results; storage beyond the cap elements is never modified and only slots of those elements (all inside the array) are accessed *)
Theorem packed_sorted_history : forall w S P V L compact,
  1 <= w -> w <= 32 -> (S = 8 \/ S = 16 \/ S = 32 \/ S = 64) -> w <= S + N.gcd w S -> w <= V ->
  (forall p, P = Some p -> S <= p /\ w <= p) ->
  forall cap a len xs ops, let c := (mk_pcfg w S P V L compact) in
  cap < 2147483648 -> cap < 2 ^ L -> Forall (fun s => s < 2 ^ S) a -> cap * w <= S * N.of_nat (length a) -> len <= cap ->
  elems c a len = xs -> StronglySorted N.le xs ->
  Forall (fun o => match o with SInsertSorted v => v < 2 ^ w | _ => True end) ops -> spec_fits (N.to_nat cap) xs ops ->
  exists a' len' t,
    packed_run c (a, len) ops = Some (a', len', snd (spec_run xs ops), t) /\
    elems c a' len' = fst (spec_run xs ops) /\ StronglySorted N.le (fst (spec_run xs ops)) /\
    length a' = length a /\ Forall (fun s => s < 2 ^ S) a' /\
    (forall n, cap * w <= n -> N.testbit (slot_at a' (n / S)) (n mod S) = N.testbit (slot_at a (n / S)) (n mod S)) /\
    Forall (fun k => k * S < cap * w /\ k < N.of_nat (length a)) t.
Proof.
  intros w S P V L compact W1 W32 HS SP HV HP. pose proof (admitted_mk w S P V L compact W1 W32 HS SP HV HP) as A. intros cap a len xs ops c H31 HL Hwf Hfit Hlen He Hs Hv Hf.
  destruct (run_refines c cap ops A (conj H31 HL) a len xs (conj Hwf (conj Hfit (conj Hlen (conj He Hs)))) Hv Hf)
    as (a' & len' & t & E & (W' & F' & Le' & He' & Hs') & L' & Fr & Tc).
  exists a', len', t. repeat split; auto.
  eapply Forall_impl; [|exact Tc]. intros k Hk. split; [exact Hk|]. exact (within_in_array c a cap k A Hfit Hk).
Qed.

(* the reference operations keep a sorted multiset: sorted insert adds one occurrence, delete-member removes one occurrence if present, both keep the list sorted *)
Theorem packed_spec_sorted_multiset : forall v xs, StronglySorted N.le xs ->
  StronglySorted N.le (ins v xs) /\ Permutation (ins v xs) (v :: xs) /\
  StronglySorted N.le (remove_first v xs) /\
  (mem v xs = true -> Permutation (v :: remove_first v xs) xs) /\ (mem v xs = false -> remove_first v xs = xs).
Proof.
  intros v xs Hs. split; [exact (ins_sorted v xs Hs)|]. split; [exact (ins_perm v xs)|]. split; [exact (remove_first_sorted v xs Hs)|].
  split; [exact (remove_first_perm v xs) | exact (remove_first_absent v xs)].
Qed.

