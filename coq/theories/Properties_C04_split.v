(* Properties_C04_split.v — property C04 (scalar wire formats are byte-exact,
   canonical and length-monotone), contribution of the Split and SplitFull16
   macro families.  The specification (SplitSpec.v) is a level table
   transcribed from each header's "Data Layout" comment plus one generic
   interpreter; nothing here but statements closed by `exact`. *)
Require Import VV.Base VV.Split VV.SplitSpec VV.SplitProofs VV.Split16Proofs VV.SplitSpecProofs VV.Split16SpecProofs
               VV.SplitConsts VVgen.Consts.
Local Open Scope N_scope.

(* ---- byte-exact ---- *)
Theorem C04_split_put_is_spec : forall x, x < 18446744073709551616 ->
  split_put x = Some (lv_encode split_table x).
Proof. exact split_put_is_spec. Qed.
Print Assumptions C04_split_put_is_spec.

Theorem C04_split16_put_is_spec : forall x, x < 18446744073709551616 ->
  split16_put x = Some (lv_encode split16_table x).
Proof. exact split16_put_is_spec. Qed.
Print Assumptions C04_split16_put_is_spec.

(* reversed container: all little-endian, type byte last *)
Theorem C04_split_rev_put_forward_is_spec : forall x, x < 18446744073709551616 ->
  split_rev_put_forward x = Some (lv_encode_rev split_table x).
Proof. exact split_rev_put_forward_is_spec. Qed.
Print Assumptions C04_split_rev_put_forward_is_spec.

Theorem C04_split_rev_put_reversed_is_spec : forall x, x < 18446744073709551616 ->
  split_rev_put_reversed x
  = Some (lv_encode_rev split_table x, (length (lv_encode_rev split_table x) - 1)%nat).
Proof. exact split_rev_put_reversed_is_spec. Qed.
Print Assumptions C04_split_rev_put_reversed_is_spec.

(* the Length_ macros predict the specification's length *)
Theorem C04_split_length_is_spec : forall x, x < 18446744073709551616 ->
  split_length x = lv_length split_table x.
Proof. exact split_length_is_spec. Qed.
Print Assumptions C04_split_length_is_spec.

Theorem C04_split16_length_is_spec : forall x, x < 18446744073709551616 ->
  split16_length x = lv_length split16_table x.
Proof. exact split16_length_is_spec. Qed.
Print Assumptions C04_split16_length_is_spec.

(* ---- canonical: the encoding denotes its value, one encoding per value,
        and no byte string with the same meaning is shorter ---- *)
Theorem C04_split_denote_spec : forall x, x < 18446744073709551616 ->
  lv_denote split_table (lv_encode split_table x) = Some x.
Proof. exact split_denote_spec. Qed.
Print Assumptions C04_split_denote_spec.

Theorem C04_split16_denote_spec : forall x, x < 18446744073709551616 ->
  lv_denote split16_table (lv_encode split16_table x) = Some x.
Proof. exact split16_denote_spec. Qed.
Print Assumptions C04_split16_denote_spec.

Theorem C04_split_injective : forall x y, x < 18446744073709551616 -> y < 18446744073709551616 ->
  lv_encode split_table x = lv_encode split_table y -> x = y.
Proof. exact split_spec_injective. Qed.
Print Assumptions C04_split_injective.

Theorem C04_split16_injective : forall x y, x < 18446744073709551616 -> y < 18446744073709551616 ->
  lv_encode split16_table x = lv_encode split16_table y -> x = y.
Proof. exact split16_spec_injective. Qed.
Print Assumptions C04_split16_injective.

Theorem C04_split_shortest : forall b x, bytes_ok b -> lv_denote split_table b = Some x ->
  split_length x <= N.of_nat (length b).
Proof. exact split_shortest. Qed.
Print Assumptions C04_split_shortest.

Theorem C04_split16_shortest : forall b x, bytes_ok b -> lv_denote split16_table b = Some x ->
  split16_length x <= N.of_nat (length b).
Proof. exact split16_shortest. Qed.
Print Assumptions C04_split16_shortest.

(* the decoders compute the documented meaning of EVERY well-formed stream
   (canonical or not), at any address, and report its length *)
Theorem C04_split_get_denote : forall pre b tl x, bytes_ok b ->
  lv_denote split_table b = Some x ->
  split_get_at (pre ++ b ++ tl) (Z.of_nat (length pre)) = Some (N.of_nat (length b), x).
Proof. exact split_get_denote. Qed.
Print Assumptions C04_split_get_denote.

Theorem C04_split16_get_denote : forall pre b tl x, bytes_ok b ->
  lv_denote split16_table b = Some x ->
  split16_get_at (pre ++ b ++ tl) (Z.of_nat (length pre)) = Some (N.of_nat (length b), x).
Proof. exact split16_get_denote. Qed.
Print Assumptions C04_split16_get_denote.

(* ---- length-monotone ---- *)
Theorem C04_split_len_mono : forall x y, x <= y -> y < 18446744073709551616 ->
  split_length x <= split_length y.
Proof. exact split_len_mono. Qed.
Print Assumptions C04_split_len_mono.

Theorem C04_split16_len_mono : forall x y, x <= y -> y < 18446744073709551616 ->
  split16_length x <= split16_length y.
Proof. exact split16_len_mono. Qed.
Print Assumptions C04_split16_len_mono.

(* ---- documented per-length maxima (header comments, README table) ---- *)
Theorem C04_split_max_values :
  lv_max_len split_table 1 = 63 /\ lv_max_len split_table 2 = 16701 /\
  lv_max_len split_table 3 = 81981 /\ lv_max_len split_table 4 = 16793661 /\
  lv_max_len split_table 5 = 4294983741 /\ lv_max_len split_table 6 = 1099511644221 /\
  lv_max_len split_table 7 = 281474976727101 /\ lv_max_len split_table 8 = 72057594037944381 /\
  lv_max_len split_table 9 = 18446744073709551615.
Proof. exact split_max_values. Qed.
Print Assumptions C04_split_max_values.

Theorem C04_split16_max_values :
  lv_max_len split16_table 1 = 0 /\ lv_max_len split16_table 2 = 16383 /\
  lv_max_len split16_table 3 = 4210686 /\ lv_max_len split16_table 4 = 1077952509 /\
  lv_max_len split16_table 5 = 5372919804 /\ lv_max_len split16_table 6 = 1100589580284 /\
  lv_max_len split16_table 7 = 281476054663164 /\ lv_max_len split16_table 8 = 72057595115880444 /\
  lv_max_len split16_table 9 = 18446744073709551615.
Proof. exact split16_max_values. Qed.
Print Assumptions C04_split16_max_values.

(* a value needs at most k bytes exactly when it does not exceed the k-byte maximum *)
Theorem C04_split_len_le_max : forall x k, x < 18446744073709551616 -> 1 <= k <= 9 ->
  (split_length x <= k <-> x <= lv_max_len split_table (N.to_nat k)).
Proof. exact split_len_le_max. Qed.
Print Assumptions C04_split_len_le_max.

Theorem C04_split16_len_le_max : forall x k, x < 18446744073709551616 -> 2 <= k <= 9 ->
  (split16_length x <= k <-> x <= lv_max_len split16_table (N.to_nat k)).
Proof. exact split16_len_le_max. Qed.
Print Assumptions C04_split16_len_le_max.

(* the model's constants are the current headers' (coq/gen/Consts.v is
   regenerated from /repo/src on every run) *)
Theorem C04_split_header_constants :
  VARINT_SPLIT_MASK = SPLIT_MASK /\ VARINT_SPLIT_6_MASK = SPLIT_6_MASK /\
  VARINT_SPLIT_MAX_6 = SPLIT_MAX_6 /\ VARINT_SPLIT_MAX_14 = SPLIT_MAX_14 /\
  VARINT_SPLIT_6 = SPLIT_6 /\ VARINT_SPLIT_14 = SPLIT_14 /\ VARINT_SPLIT_VAR = SPLIT_VAR /\
  VARINT_SPLIT_FULL_16_MASK = SPLIT16_MASK /\ VARINT_SPLIT_FULL_16_6_MASK = SPLIT16_6_MASK /\
  VARINT_SPLIT_FULL_16_MAX_14 = SPLIT16_MAX_14 /\ VARINT_SPLIT_FULL_16_MAX_22 = SPLIT16_MAX_22 /\
  VARINT_SPLIT_FULL_16_MAX_30 = SPLIT16_MAX_30 /\
  VARINT_SPLIT_FULL_16_14 = SPLIT16_14 /\ VARINT_SPLIT_FULL_16_22 = SPLIT16_22 /\
  VARINT_SPLIT_FULL_16_30 = SPLIT16_30 /\ VARINT_SPLIT_FULL_16_VAR = SPLIT16_VAR.
Proof. exact split_consts_ok. Qed.
Print Assumptions C04_split_header_constants.

Theorem C04_split_max_from_header_constants :
  lv_max_len split_table 1 = VARINT_SPLIT_MAX_6 /\
  lv_max_len split_table 2 = VARINT_SPLIT_MAX_14 + 255 /\
  lv_max_len split_table 3 = VARINT_SPLIT_MAX_14 + 65535 /\
  lv_max_len split_table 4 = VARINT_SPLIT_MAX_14 + 16777215 /\
  lv_max_len split16_table 2 = VARINT_SPLIT_FULL_16_MAX_14 /\
  lv_max_len split16_table 3 = VARINT_SPLIT_FULL_16_MAX_22 /\
  lv_max_len split16_table 4 = VARINT_SPLIT_FULL_16_MAX_30 /\
  lv_max_len split16_table 5 = VARINT_SPLIT_FULL_16_MAX_30 + 4294967295.
Proof. exact split_max_consts. Qed.
Print Assumptions C04_split_max_from_header_constants.

(* non-vacuity *)
Example C04_split_example :
  lv_encode split_table 16446 = [127; 255] /\ lv_encode split_table 16447 = [129; 1] /\
  lv_encode split_table 81981 = [130; 255; 255] /\ lv_encode split_table 81982 = [131; 0; 0; 1] /\
  lv_encode split16_table 4210687 = [128; 0; 0; 1] /\
  lv_denote split_table [64; 0] = Some 63 /\ split_length 63 = 1.
Proof. vm_compute. repeat split; reflexivity. Qed.
