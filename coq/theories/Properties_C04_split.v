(* Properties_C04_split.v — Split / SplitFull16 contribution to C04. *)
Require Import VV.Base VV.Split VV.SplitSpec.
Local Open Scope N_scope.

Example C04_split_example : split_spec 81982 = [131; 0; 0; 1].
Proof. vm_compute. reflexivity. Qed.
