(* Properties_C16_pfor.v — placeholder, theorems follow *)
Require Import VV.Base VV.Tagged VV.PFOR.
