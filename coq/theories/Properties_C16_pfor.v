(* Properties_C16_pfor.v — property C16 for varintPFOR: the metadata filled in by
   varintPFORComputeThreshold / varintPFOREncode and the header read back by
   varintPFORReadMeta / varintPFORDecode describe the encoded data. *)
Require Import VV.Base VV.Tagged VV.PFOR VV.PFORSpec VV.PFORProofs VV.PFORTheorems VVgen.Consts.
Local Open Scope N_scope.

(* count, min, thresholdValue, width, marker, exceptionCount, threshold of the
   encoder's metadata, and the bytes written are the layout
   [min][width][count][slots][#outliers][(index,value)...] built from them
   (pfor_layout, PFORSpec.v): the stored count is the number of elements, min is
   the minimum, width is the byte width of thresholdValue - min and the width of
   every slot, exceptionCount is the number of (index,value) pairs stored *)
Theorem C16_pfor_meta_truth : forall xs thr,
  (1 <= length xs)%nat -> Forall (fun x => x < 18446744073709551616) xs ->
  let m := pfor_encode_meta xs thr in
  pfor_compute_threshold xs thr = m /\
  pm_count m = N.of_nat (length xs) /\
  In (pm_min m) xs /\ (forall v, In v xs -> pm_min m <= v) /\
  In (pm_tv m) xs /\
  (exists w, (1 <= w <= 8)%nat /\ pm_width m = N.of_nat w /\
             pm_marker m = 256 ^ N.of_nat w - 1 /\
             pm_tv m - pm_min m < 256 ^ N.of_nat w /\
             (w = 1%nat \/ 256 ^ N.of_nat (w - 1) <= pm_tv m - pm_min m)) /\
  pm_exc m = N.of_nat (length (pfor_excs m 0 xs)) /\
  pm_thr m = thr /\
  pfor_encode_bytes xs thr = pfor_layout m xs.
Proof. exact pfor_meta_truth. Qed.
Print Assumptions C16_pfor_meta_truth.

(* the exception count computed by ComputeThreshold equals the number of
   records Encode's first pass makes, for every input (also the empty one): the
   second pass reads exactly the records written, and the count written to the
   stream is the number of pairs that follow *)
Theorem C16_pfor_exception_records_consistent : forall xs thr,
  let m := pfor_compute_threshold xs thr in
  pm_exc m = N.of_nat (length (snd (pfor_enc_values m (0 <? pm_exc m) 0 xs))).
Proof. exact pfor_exc_count_consistent. Qed.
Print Assumptions C16_pfor_exception_records_consistent.

(* the slots holding the all-ones marker are exactly the listed outliers *)
Theorem C16_pfor_marker_slot_iff : forall xs thr v,
  (1 <= length xs)%nat -> Forall (fun x => x < 18446744073709551616) xs -> In v xs ->
  let m := pfor_encode_meta xs thr in
  pfor_slot m v = le_bytes (N.to_nat (pm_width m)) (pm_marker m)
  <-> pfor_is_exc (pm_min m) (pm_tv m) (pm_marker m) v = true.
Proof. exact pfor_marker_slot_iff. Qed.
Print Assumptions C16_pfor_marker_slot_iff.

(* what an outlier is, in plain arithmetic *)
Theorem C16_pfor_outlier_meaning : forall xs thr v,
  (1 <= length xs)%nat -> Forall (fun x => x < 18446744073709551616) xs -> In v xs ->
  let m := pfor_encode_meta xs thr in
  pfor_is_exc (pm_min m) (pm_tv m) (pm_marker m) v
  = ((pm_tv m <? v) || (v - pm_min m =? pm_marker m)).
Proof. exact pfor_is_exc_math. Qed.
Print Assumptions C16_pfor_outlier_meaning.

(* varintPFORReadMeta: header length and every field it reports *)
Theorem C16_pfor_read_meta : forall xs thr tl m0,
  (1 <= length xs)%nat -> N.of_nat (length xs) < 4294967296 ->
  Forall (fun x => x < 18446744073709551616) xs ->
  let m := pfor_encode_meta xs thr in
  pfor_read_meta (pfor_encode_bytes xs thr ++ tl) m0
  = POk (tagged_len (pm_min m) + 1 + tagged_len (pm_count m),
         mk_pfor_meta (pm_min m) (pm_marker m) (pm_tv m0) (pm_width m) (pm_count m) (pm_exc m) 95).
Proof. exact pfor_read_meta_truth. Qed.
Print Assumptions C16_pfor_read_meta.

(* varintPFORDecode: number of elements produced and the metadata it leaves *)
Theorem C16_pfor_decode_reports : forall xs thr tl m0,
  (1 <= length xs)%nat -> N.of_nat (length xs) < 4294967296 ->
  Forall (fun x => x < 18446744073709551616) xs -> pm_width m0 = 0 ->
  let m := pfor_encode_meta xs thr in
  pfor_decode (pfor_encode_bytes xs thr ++ tl) m0
  = POk (xs, mk_pfor_meta (pm_min m) (pm_marker m) (pm_tv m0) (pm_width m)
                          (N.of_nat (length xs)) (pm_exc m) 95).
Proof. exact pfor_decode_reports. Qed.
Print Assumptions C16_pfor_decode_reports.

Example C16_pfor_example :
  pfor_encode_meta [1000; 1001; 1002; 1003; 1004; 1005; 1006; 1007; 1008; 1009; 1010; 1011; 1012; 1013; 1014; 1015; 1016; 1017; 1018; 1019; 99999999] VARINT_PFOR_THRESHOLD_95
    = mk_pfor_meta 1000 255 1019 1 21 1 95 /\
  pfor_read_meta (pfor_encode_bytes [1000; 1001; 1002; 1003; 1004; 1005; 1006; 1007; 1008; 1009; 1010; 1011; 1012; 1013; 1014; 1015; 1016; 1017; 1018; 1019; 99999999] VARINT_PFOR_THRESHOLD_95) pfor_meta_zero
    = POk (4, mk_pfor_meta 1000 255 0 1 21 1 95).
Proof. vm_compute. split; reflexivity. Qed.
