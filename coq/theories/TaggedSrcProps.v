(* TaggedSrcProps.v — the properties C01/C04/C05/C14/C15 of the tagged family
   restated about the REGENERATED functions src_* (coq/gen/Src_tagged.v), by
   rewriting with the src_*_is_model lemmas in the theorems about the model. *)
Require Import VV.Base VV.BaseProofs VV.Tagged VV.TaggedProofs VV.TaggedSpec VV.TaggedSpecProofs
  VV.TaggedFixed VV.CSem VV.CSemProofs VV.TaggedSrcLen VV.TaggedSrcPut VV.TaggedSrcGet.
Require Import VVgen.Src_tagged.
From Coq Require Import Lia ZifyBool ZifyN ZifyNat.
Local Open Scope Z_scope.

Lemma bytes_ok_tagged_put64 x : bytes_ok (tagged_put64 x).
Proof.
  unfold tagged_put64, write32. cbv zeta.
  kill_ifs; unfold bytes_ok; repeat (apply Forall_cons || apply Forall_nil || apply Forall_app; try split);
    try apply u8_lt; lia.
Qed.

Lemma firstn_store_0 buf bs : (length bs <= length buf)%nat -> firstn (length bs) (store buf 0 bs) = bs.
Proof.
  intro H. unfold store. cbn [firstn app]. rewrite firstn_app, Nat.sub_diag, firstn_all. cbn [firstn].
  apply app_nil_r.
Qed.

(* what src_varintTaggedPut64 returns, with the written prefix made explicit *)
Lemma src_put64_ok buf x : 0 <= x < 18446744073709551616 -> (9 <= length buf)%nat ->
  exists w out, src_varintTaggedPut64 buf x = COk (w, out) /\
    w = Z.of_N (tagged_len (Z.to_N x)) /\
    firstn (Z.to_nat w) out = tagged_put64 (Z.to_N x) /\
    skipn (Z.to_nat w) out = skipn (Z.to_nat w) buf.
Proof.
  intros Hx Hb. pose proof (tagged_len_range (Z.to_N x)) as Hr.
  pose proof (tagged_put_length_nat (Z.to_N x)) as Hl.
  eexists. eexists. split; [apply src_varintTaggedPut64_is_model; [exact Hx|lia]|].
  split; [reflexivity|].
  replace (Z.to_nat (Z.of_N (tagged_len (Z.to_N x)))) with (length (tagged_put64 (Z.to_N x))) by lia. split.
  - apply firstn_store_0. lia.
  - apply store_0_skipn. lia.
Qed.

(* ---------- C05 ---------- *)

Lemma src_tagged_order a b bufa bufb :
  0 <= a < 18446744073709551616 -> 0 <= b < 18446744073709551616 ->
  (9 <= length bufa)%nat -> (9 <= length bufb)%nat ->
  exists wa oa wb ob,
    src_varintTaggedPut64 bufa a = COk (wa, oa) /\ src_varintTaggedPut64 bufb b = COk (wb, ob) /\
    lex (firstn (Z.to_nat wa) oa) (firstn (Z.to_nat wb) ob) = (a ?= b).
Proof.
  intros Ha Hb La Lb.
  destruct (src_put64_ok bufa a Ha La) as (wa & oa & Ea & _ & Fa & _).
  destruct (src_put64_ok bufb b Hb Lb) as (wb & ob & Eb & _ & Fb & _).
  exists wa, oa, wb, ob. split; [exact Ea|]. split; [exact Eb|].
  rewrite Fa, Fb, tagged_order by lia. rewrite <- Z2N.inj_compare by lia. reflexivity.
Qed.

Lemma src_tagged_injective a b bufa bufb wa oa wb ob :
  0 <= a < 18446744073709551616 -> 0 <= b < 18446744073709551616 ->
  (9 <= length bufa)%nat -> (9 <= length bufb)%nat ->
  src_varintTaggedPut64 bufa a = COk (wa, oa) -> src_varintTaggedPut64 bufb b = COk (wb, ob) ->
  firstn (Z.to_nat wa) oa = firstn (Z.to_nat wb) ob -> a = b.
Proof.
  intros Ha Hb La Lb Ea Eb H.
  destruct (src_put64_ok bufa a Ha La) as (wa' & oa' & Ea' & _ & Fa & _).
  destruct (src_put64_ok bufb b Hb Lb) as (wb' & ob' & Eb' & _ & Fb & _).
  rewrite Ea in Ea'. injection Ea' as <- <-. rewrite Eb in Eb'. injection Eb' as <- <-.
  rewrite Fa, Fb in H. apply tagged_injective in H; lia.
Qed.

Lemma src_tagged_prefix_free a b bufa bufb wa oa wb ob :
  0 <= a < 18446744073709551616 -> 0 <= b < 18446744073709551616 ->
  (9 <= length bufa)%nat -> (9 <= length bufb)%nat ->
  src_varintTaggedPut64 bufa a = COk (wa, oa) -> src_varintTaggedPut64 bufb b = COk (wb, ob) ->
  (exists t, firstn (Z.to_nat wb) ob = firstn (Z.to_nat wa) oa ++ t) -> a = b.
Proof.
  intros Ha Hb La Lb Ea Eb H.
  destruct (src_put64_ok bufa a Ha La) as (wa' & oa' & Ea' & _ & Fa & _).
  destruct (src_put64_ok bufb b Hb Lb) as (wb' & ob' & Eb' & _ & Fb & _).
  rewrite Ea in Ea'. injection Ea' as <- <-. rewrite Eb in Eb'. injection Eb' as <- <-.
  rewrite Fa, Fb in H. apply tagged_prefix_free in H; lia.
Qed.

(* ---------- C04 ---------- *)

Lemma src_tagged_put_is_spec buf x : 0 <= x < 18446744073709551616 -> (9 <= length buf)%nat ->
  exists w out, src_varintTaggedPut64 buf x = COk (w, out) /\
    firstn (Z.to_nat w) out = tagged_spec (Z.to_N x) /\
    skipn (Z.to_nat w) out = skipn (Z.to_nat w) buf.
Proof.
  intros Hx Hb. destruct (src_put64_ok buf x Hx Hb) as (w & out & E & _ & F & S).
  exists w, out. split; [exact E|]. split; [|exact S]. rewrite F. apply tagged_put_is_spec. lia.
Qed.

(* ---------- C01 ---------- *)

Lemma src_tagged_roundtrip x buf tl n r :
  0 <= x < 18446744073709551616 -> (9 <= length buf)%nat -> bytes_ok tl -> n <= 2147483647 ->
  exists w out,
    src_varintTaggedPut64 buf x = COk (w, out) /\ 1 <= w <= 9 /\
    src_varintTaggedLen x = COk w /\
    src_varintTaggedGetLen (firstn (Z.to_nat w) out ++ tl) = COk w /\
    (w <= n -> src_varintTaggedGet (firstn (Z.to_nat w) out ++ tl) n r = COk (w, Some x)).
Proof.
  intros Hx Hb Htl Hn. destruct (src_put64_ok buf x Hx Hb) as (w & out & E & W & F & _).
  pose proof (tagged_len_range (Z.to_N x)) as Hr.
  assert (X : (Z.to_N x < 18446744073709551616)%N) by lia.
  assert (OK : bytes_ok (tagged_put64 (Z.to_N x) ++ tl)) by (apply bytes_ok_app; [apply bytes_ok_tagged_put64|exact Htl]).
  assert (NE : tagged_put64 (Z.to_N x) ++ tl <> []).
  { intro H. apply app_eq_nil in H. destruct H as [H _]. exact (tagged_put_nonempty _ H). }
  exists w, out. split; [exact E|]. split; [lia|]. rewrite F.
  split; [rewrite W; apply src_varintTaggedLen_is_model; exact Hx|].
  split.
  - rewrite src_varintTaggedGetLen_is_model; [|exact NE|apply byte_at_lt; exact OK].
    rewrite tagged_getlen_put by exact X. rewrite W. reflexivity.
  - intro Hwn. rewrite src_varintTaggedGet_is_model; [|exact OK|lia|].
    + unfold get_result. rewrite tagged_roundtrip by lia. cbn [fst snd].
      destruct (tagged_len (Z.to_N x) =? 0)%N eqn:Z0; [lia|]. rewrite W, Z2N.id by lia. reflexivity.
    + rewrite tagged_getlen_put by exact X. rewrite app_length.
      pose proof (tagged_put_length_nat (Z.to_N x)). lia.
Qed.

(* ---------- C14 ---------- *)

(* handing over only the first n bytes changes nothing: with checked loads this
   says that no index >= n is loaded (such a load would be COob on the cut list) *)
Lemma src_tagged_get_bounded z n r :
  bytes_ok z -> 0 <= n <= 2147483647 -> n <= Z.of_nat (length z) ->
  src_varintTaggedGet (firstn (Z.to_nat n) z) n r = src_varintTaggedGet z n r /\
  exists w v, src_varintTaggedGet z n r = COk (w, v).
Proof.
  intros Hz Hn Hl.
  assert (Hz' : bytes_ok (firstn (Z.to_nat n) z)).
  { unfold bytes_ok in *. rewrite <- (firstn_skipn (Z.to_nat n) z) in Hz. apply Forall_app in Hz. apply Hz. }
  rewrite (src_varintTaggedGet_is_model z) by (try assumption; lia).
  rewrite (src_varintTaggedGet_is_model (firstn (Z.to_nat n) z)); [|exact Hz'|lia|rewrite firstn_length; lia].
  split; [|eexists; eexists; reflexivity].
  unfold get_result. rewrite (tagged_get_noninterference (firstn (Z.to_nat n) z) z n); [reflexivity|].
  rewrite firstn_firstn, Nat.min_id. reflexivity.
Qed.

Lemma src_tagged_get_short z n r :
  bytes_ok z -> -2147483648 <= n <= 2147483647 -> n <= Z.of_nat (length z) ->
  n < Z.of_N (tagged_getlen z) -> src_varintTaggedGet z n r = COk (0, r).
Proof.
  intros Hz Hn Hl Hs. rewrite src_varintTaggedGet_is_model by (try assumption; lia).
  unfold get_result. rewrite tagged_get_short by (try apply byte_at_lt; assumption). reflexivity.
Qed.

(* ---------- C15 ---------- *)

(* every translated function yields COk on every admissible input: no read of an
   unassigned local, no signed overflow, no bad shift, no access outside the
   objects (CUB / COob are excluded) *)
Lemma src_tagged_defined :
  (forall x, 0 <= x < 18446744073709551616 -> exists w, src_varintTaggedLen x = COk w) /\
  (forall z, z <> [] -> bytes_ok z -> exists w, src_varintTaggedGetLen z = COk w) /\
  (forall buf x, 0 <= x < 18446744073709551616 -> (9 <= length buf)%nat ->
     exists w out, src_varintTaggedPut64 buf x = COk (w, out)) /\
  (forall buf x w, 0 <= x < 18446744073709551616 -> 0 <= w <= 4294967295 -> (9 <= length buf)%nat ->
     exists w' out, src_varintTaggedPut64FixedWidth buf x w = COk (w', out)) /\
  (forall buf v, 0 <= v <= 4294967295 -> (9 <= length buf)%nat ->
     exists w out, src_varintTaggedPutVarint32 buf v = COk (w, out)) /\
  (forall z n r, bytes_ok z -> -2147483648 <= n <= 2147483647 -> n <= Z.of_nat (length z) ->
     exists w v, src_varintTaggedGet z n r = COk (w, v)) /\
  (forall z r, bytes_ok z -> 9 <= Z.of_nat (length z) ->
     exists w v, src_varintTaggedGet64 z r = COk (w, v)) /\
  (forall z, bytes_ok z -> 9 <= Z.of_nat (length z) ->
     exists v, src_varintTaggedGet64ReturnValue z = COk v) /\
  (forall z r, bytes_ok z -> 9 <= Z.of_nat (length z) ->
     exists w v, src_varintTaggedGetVarint32 z r = COk (w, v)).
Proof.
  repeat split.
  - intros. eexists. apply src_varintTaggedLen_is_model. assumption.
  - intros z NE Hz. eexists. apply src_varintTaggedGetLen_is_model; [exact NE|apply byte_at_lt; exact Hz].
  - intros buf x Hx Hb. pose proof (tagged_len_range (Z.to_N x)).
    eexists. eexists. apply src_varintTaggedPut64_is_model; [exact Hx|lia].
  - intros buf x w Hx Hw Hb. rewrite src_varintTaggedPut64FixedWidth_is_model by (try assumption; lia).
    destruct (tagged_put64_fixed _ _); eexists; eexists; reflexivity.
  - intros buf v Hv Hb. pose proof (tagged_len_range (Z.to_N v)).
    eexists. eexists. apply src_varintTaggedPutVarint32_is_model; [exact Hv|lia].
  - intros z n r Hz Hn Hl. eexists. eexists. apply src_varintTaggedGet_is_model; try assumption. lia.
  - intros z r Hz Hl. eexists. eexists. apply src_varintTaggedGet64_is_model; try assumption. lia.
  - intros z Hz Hl. eexists. apply src_varintTaggedGet64ReturnValue_is_model; try assumption. lia.
  - intros z r Hz Hl. eexists. eexists. apply src_varintTaggedGetVarint32_is_model; try assumption. lia.
Qed.
