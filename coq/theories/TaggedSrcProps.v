(* TaggedSrcProps.v — C01 and C15 restated about the REGENERATED functions src_*
   (coq/gen/Src_tagged.v): these need the encoder and the decoder lemmas together. *)
Require Import VV.Base VV.BaseProofs VV.Tagged VV.TaggedProofs VV.TaggedSpec VV.TaggedSpecProofs
  VV.TaggedFixed VV.CSem VV.CSemProofs VV.TaggedSrcLen VV.TaggedSrcPut VV.TaggedSrcGet VV.TaggedSrcPropsPut.
Require Import VVgen.Src_tagged.
From Coq Require Import Lia ZifyBool ZifyN ZifyNat.
Local Open Scope Z_scope.

(* ---------- C01 ---------- *)

Lemma src_tagged_roundtrip x buf tl n r :
  0 <= x < 18446744073709551616 -> (9 <= length buf)%nat -> bytes_ok tl -> n <= 2147483647 ->
  exists w out,
    src_varintTaggedPut64 buf x = COk (w, out) /\ 1 <= w <= 9 /\
    src_varintTaggedLen x = COk w /\
    src_varintTaggedGetLen (firstn (Z.to_nat w) out ++ tl) = COk w /\
    (w <= n -> src_varintTaggedGet (firstn (Z.to_nat w) out ++ tl) n r = COk (w, Some x)).
Proof.
  intros Hx Hb Htl Hn. destruct (src_put64_ok buf x Hx Hb) as (w & out & E & W & F & _).
  pose proof (tagged_len_range (Z.to_N x)) as Hr.
  assert (X : (Z.to_N x < 18446744073709551616)%N) by lia.
  assert (OK : bytes_ok (tagged_put64 (Z.to_N x) ++ tl)) by (apply bytes_ok_app; [apply bytes_ok_tagged_put64|exact Htl]).
  assert (NE : tagged_put64 (Z.to_N x) ++ tl <> []).
  { intro H. apply app_eq_nil in H. destruct H as [H _]. exact (tagged_put_nonempty _ H). }
  exists w, out. split; [exact E|]. split; [lia|]. rewrite F.
  split; [rewrite W; apply src_varintTaggedLen_is_model; exact Hx|].
  split.
  - rewrite src_varintTaggedGetLen_is_model; [|exact NE|apply byte_at_lt; exact OK].
    rewrite tagged_getlen_put by exact X. rewrite W. reflexivity.
  - intro Hwn. rewrite src_varintTaggedGet_is_model; [|exact OK|lia|].
    + unfold get_result. rewrite tagged_roundtrip by lia. cbn [fst snd].
      destruct (tagged_len (Z.to_N x) =? 0)%N eqn:Z0; [lia|]. rewrite W, Z2N.id by lia. reflexivity.
    + rewrite tagged_getlen_put by exact X. rewrite app_length.
      pose proof (tagged_put_length_nat (Z.to_N x)). lia.
Qed.

(* ---------- C15 ---------- *)

(* every translated function yields COk on every admissible input: no read of an
   unassigned local, no signed overflow, no bad shift, no access outside the
   objects (CUB / COob are excluded) *)
Lemma src_tagged_defined :
  (forall x, 0 <= x < 18446744073709551616 -> exists w, src_varintTaggedLen x = COk w) /\
  (forall z, z <> [] -> bytes_ok z -> exists w, src_varintTaggedGetLen z = COk w) /\
  (forall buf x, 0 <= x < 18446744073709551616 -> (9 <= length buf)%nat ->
     exists w out, src_varintTaggedPut64 buf x = COk (w, out)) /\
  (forall buf x w, 0 <= x < 18446744073709551616 -> 0 <= w <= 4294967295 -> (9 <= length buf)%nat ->
     exists w' out, src_varintTaggedPut64FixedWidth buf x w = COk (w', out)) /\
  (forall buf v, 0 <= v <= 4294967295 -> (9 <= length buf)%nat ->
     exists w out, src_varintTaggedPutVarint32 buf v = COk (w, out)) /\
  (forall z n r, bytes_ok z -> -2147483648 <= n <= 2147483647 -> n <= Z.of_nat (length z) ->
     exists w v, src_varintTaggedGet z n r = COk (w, v)) /\
  (forall z r, bytes_ok z -> 9 <= Z.of_nat (length z) ->
     exists w v, src_varintTaggedGet64 z r = COk (w, v)) /\
  (forall z, bytes_ok z -> 9 <= Z.of_nat (length z) ->
     exists v, src_varintTaggedGet64ReturnValue z = COk v) /\
  (forall z r, bytes_ok z -> 9 <= Z.of_nat (length z) ->
     exists w v, src_varintTaggedGetVarint32 z r = COk (w, v)).
Proof.
  repeat split.
  - intros. eexists. apply src_varintTaggedLen_is_model. assumption.
  - intros z NE Hz. eexists. apply src_varintTaggedGetLen_is_model; [exact NE|apply byte_at_lt; exact Hz].
  - intros buf x Hx Hb. pose proof (tagged_len_range (Z.to_N x)).
    eexists. eexists. apply src_varintTaggedPut64_is_model; [exact Hx|lia].
  - intros buf x w Hx Hw Hb. rewrite src_varintTaggedPut64FixedWidth_is_model by (try assumption; lia).
    destruct (tagged_put64_fixed _ _); eexists; eexists; reflexivity.
  - intros buf v Hv Hb. pose proof (tagged_len_range (Z.to_N v)).
    eexists. eexists. apply src_varintTaggedPutVarint32_is_model; [exact Hv|lia].
  - intros z n r Hz Hn Hl. eexists. eexists. apply src_varintTaggedGet_is_model; try assumption. lia.
  - intros z r Hz Hl. eexists. eexists. apply src_varintTaggedGet64_is_model; try assumption. lia.
  - intros z Hz Hl. eexists. apply src_varintTaggedGet64ReturnValue_is_model; try assumption. lia.
  - intros z r Hz Hl. eexists. eexists. apply src_varintTaggedGetVarint32_is_model; try assumption. lia.
Qed.
