(* Adaptive.v — Gallina model of src/varintAdaptive.{c,h}: analysis of an
   array, selection of one of six encodings, the one-byte-header container
   around the delta / FOR / PFOR / dictionary / bitmap / tagged codecs, its
   decoder and metadata readers.  One definition per C function, same case
   structure, same machine arithmetic.  The inner codecs are NOT re-modelled:
   the definitions of Delta.v, FOR.v, PFOR.v, Dict.v, Bitmap.v and Tagged.v
   are called.  No proofs here.

   The code modelled is the code after the `fix:` commits
     - uninitialised forMeta / pforMeta (`= {0}`),
     - BITMAP selected only for sorted arrays of distinct values,
     - PFOR decode checks the caller's capacity, BITMAP decode scratch array
       sized by the cardinality,
     - varintAdaptiveMaxSize is an upper bound for every encoding (F09),
     - the DICT decoder is given varintAdaptiveMaxSize(maxCount) - 1 as the
       input length instead of a fixed 1 MiB (F20),
     - varintAdaptiveReadMeta reports the exact PFOR size (F18),
     - EncodeWith returns 0 when the PFOR / DICT encoder returned 0 on a
       non-empty input, Encode then falls back to TAGGED (F33).

   Conventions (harness/GUIDE.md): `count` is the length of the value list;
   encoders return the bytes written; decoders take the bytes at `src` as a
   list.  Allocation always succeeds (allocation failure is property C18's
   subject): the `return count` / `return 0` recovery paths after a failed
   malloc are not modelled.  The two hand-written exchange sorts of
   varintAdaptiveCountUnique are modelled by "the sorted permutation"
   (Dict.dict_qsort64), like qsort elsewhere.

   binary32: the three ratio tests are modelled exactly with integers.  A
   float that occurs here is 0 or a positive normal number m * 2^e with
   2^23 <= m < 2^24 (operands are integers below 2^64 and quotients of two
   such, so neither subnormals, infinities nor NaN arise; the division by zero
   is excluded by the callers: count > 0, range > 0). *)
Require Import VV.Base VV.Tagged VV.Delta VV.FOR VV.PFOR VV.Dict VV.Bitmap.
Local Open Scope N_scope.

(* ------------------------------------------------------------------ *)
(* binary32 arithmetic on integers                                      *)

Inductive adp_f32 : Type :=
| AF0                      (* +0.0 *)
| AF (m : N) (e : Z).      (* m * 2^e, 2^23 <= m < 2^24 *)

(* p / q (p, q > 0) rounded to nearest, ties to even, 24 significant bits *)
Definition adp_round_ratio (p q : N) : adp_f32 :=
  if p =? 0 then AF0
  else
    let e0 := (Z.of_N (N.log2 p) - Z.of_N (N.log2 q) - 23)%Z in
    (* p / q = (num / den) * 2^e0 with 2^22 < num / den < 2^24 *)
    let num := if (e0 <? 0)%Z then p * 2 ^ Z.to_N (- e0) else p in
    let den := if (e0 <? 0)%Z then q else q * 2 ^ Z.to_N e0 in
    let lowq := num / den <? 8388608 in
    let num1 := if lowq then 2 * num else num in
    let e1 := if lowq then (e0 - 1)%Z else e0 in
    let k := num1 / den in
    let r := num1 mod den in
    let k' := if (den <? 2 * r) || ((2 * r =? den) && N.odd k) then k + 1 else k in
    if k' =? 16777216 then AF 8388608 (e1 + 1) else AF k' e1.

(* (float)n for an unsigned integer n *)
Definition adp_f32_of_N (n : N) : adp_f32 := adp_round_ratio n 1.

(* a / b in binary32 (b <> 0) *)
Definition adp_f32_div (a b : adp_f32) : adp_f32 :=
  match a, b with
  | AF m1 e1, AF m2 e2 =>
      match adp_round_ratio m1 m2 with
      | AF m e => AF m (e + e1 - e2)
      | AF0 => AF0
      end
  | _, _ => AF0
  end.

(* (float)a / (float)b *)
Definition adp_ratio (a b : N) : adp_f32 := adp_f32_div (adp_f32_of_N a) (adp_f32_of_N b).

(* a < b *)
Definition adp_f32_lt (a b : adp_f32) : bool :=
  match a, b with
  | _, AF0 => false
  | AF0, AF _ _ => true
  | AF m1 e1, AF m2 e2 => if (e1 =? e2)%Z then m1 <? m2 else (e1 <? e2)%Z
  end.

(* the IEEE-754 bit pattern (what memcpy of the float into a uint32_t gives) *)
Definition adp_f32_bits (a : adp_f32) : N :=
  match a with
  | AF0 => 0
  | AF m e => Z.to_N (e + 150) * 8388608 + (m - 8388608)
  end.

(* 0.15f = 0x3E19999A and 0.05f = 0x3D4CCCCD *)
Definition adp_f015 : adp_f32 := AF 10066330 (-26).
Definition adp_f005 : adp_f32 := AF 13421773 (-28).

(* ------------------------------------------------------------------ *)
(* enum varintAdaptiveEncodingType                                      *)

Definition ADP_DELTA : N := 0.
Definition ADP_FOR : N := 1.
Definition ADP_PFOR : N := 2.
Definition ADP_DICT : N := 3.
Definition ADP_BITMAP : N := 4.
Definition ADP_TAGGED : N := 5.
Definition ADP_GROUP : N := 6.

(* ------------------------------------------------------------------ *)
(* helpers                                                              *)

(* the loop of varintAdaptiveCheckSorted from index 1 on *)
Fixpoint adp_sorted_loop (prev : N) (vs : list N) (asc desc : bool) : Z :=
  match vs with
  | [] => if asc then 1%Z else if desc then (-1)%Z else 0%Z
  | v :: t =>
      let asc' := if v <? prev then false else asc in
      let desc' := if prev <? v then false else desc in
      if negb asc' && negb desc' then 0%Z else adp_sorted_loop v t asc' desc'
  end.

(* varintAdaptiveCheckSorted *)
Definition adp_check_sorted (values : list N) : Z :=
  match values with
  | [] => 1%Z
  | v0 :: rest => match rest with [] => 1%Z | _ => adp_sorted_loop v0 rest true true end
  end.

(* length of a list as N, accumulator style (arrays of 10^6 elements) *)
Fixpoint adp_len_acc {A : Type} (l : list A) (acc : N) : N :=
  match l with
  | [] => acc
  | _ :: t => adp_len_acc t (acc + 1)
  end.
Definition adp_len {A : Type} (l : list A) : N := adp_len_acc l 0.

(* sample[i] = values[i * step], i < need: every step-th element *)
Fixpoint adp_sample (vs : list N) (step skip need : N) : list N :=
  match vs with
  | [] => []
  | v :: t =>
      if need =? 0 then []
      else if skip =? 0 then v :: adp_sample t step (step - 1) (need - 1)
      else adp_sample t step (skip - 1) need
  end.

(* "sort, then count positions that differ from their predecessor" *)
Definition adp_distinct_sorted (l : list N) : N := adp_len (dict_uniq_sorted (dict_qsort64 l)).

(* varintAdaptiveCountUnique *)
Definition adp_count_unique (values : list N) : N :=
  let count := adp_len values in
  if count =? 0 then 0
  else if count =? 1 then 1
  else if 10000 <? count then
    let sampleSize := if count / 10 <? 100 then 100 else count / 10 in
    let step := count / sampleSize in
    let sample := adp_sample values step 0 sampleSize in
    let uniqueInSample := adp_distinct_sorted sample in
    let estimated := mul64 uniqueInSample count / sampleSize in
    if count <? estimated then count else estimated
  else adp_distinct_sorted values.

(* |values[i] - values[i-1]| *)
Definition adp_absdiff (a b : N) : N := if b <? a then a - b else b - a.

(* totalDelta += delta, in uint64_t (wraps) *)
Fixpoint adp_total_delta (prev : N) (vs : list N) (acc : N) : N :=
  match vs with
  | [] => acc
  | v :: t => adp_total_delta v t (add64 acc (adp_absdiff v prev))
  end.

(* varintAdaptiveAvgDelta *)
Definition adp_avg_delta (values : list N) : N :=
  match values with
  | [] => 0
  | v0 :: rest =>
      match rest with
      | [] => 0
      | _ => adp_total_delta v0 rest 0 / (adp_len values - 1)
      end
  end.

(* the "Find max delta" loop of varintAdaptiveAnalyze *)
Fixpoint adp_max_delta (prev : N) (vs : list N) (acc : N) : N :=
  match vs with
  | [] => acc
  | v :: t => let d := adp_absdiff v prev in adp_max_delta v t (if acc <? d then d else acc)
  end.

(* number of values > threshold95 *)
Fixpoint adp_count_above (thr : N) (vs : list N) (acc : N) : N :=
  match vs with
  | [] => acc
  | v :: t => adp_count_above thr t (if thr <? v then acc + 1 else acc)
  end.

(* ------------------------------------------------------------------ *)
(* struct varintAdaptiveDataStats                                       *)

Record adp_stats : Type := mk_adp_stats {
  as_count : N;
  as_min : N;
  as_max : N;
  as_range : N;
  as_unique : N;
  as_avg_delta : N;
  as_max_delta : N;
  as_outliers : N;
  as_unique_ratio : adp_f32;
  as_outlier_ratio : adp_f32;
  as_sorted : bool;
  as_rsorted : bool;
  as_fits : bool
}.

Definition adp_stats_zero : adp_stats :=
  mk_adp_stats 0 0 0 0 0 0 0 0 AF0 AF0 false false false.

(* varintAdaptiveAnalyze *)
Definition adp_analyze (values : list N) : adp_stats :=
  match values with
  | [] => adp_stats_zero
  | v0 :: rest =>
      let count := adp_len values in
      let '(mn, mx) := for_minmax v0 v0 rest in
      let range := mx - mn in
      let fits := mx <? 65536 in
      let sortedness := adp_check_sorted values in
      let unique := adp_count_unique values in
      let uratio := adp_ratio unique count in
      let avg := adp_avg_delta values in
      let maxd := adp_max_delta v0 rest 0 in
      if 0 <? range then
        let threshold95 := add64 mn (mul64 range 95 / 100) in
        let outliers := adp_count_above threshold95 values 0 in
        mk_adp_stats count mn mx range unique avg maxd outliers uratio (adp_ratio outliers count)
                     (sortedness =? 1)%Z (sortedness =? -1)%Z fits
      else
        mk_adp_stats count mn mx range unique avg maxd 0 uratio AF0
                     (sortedness =? 1)%Z (sortedness =? -1)%Z fits
  end.

(* varintAdaptiveSelectEncoding *)
Definition adp_select (s : adp_stats) : N :=
  if as_count s =? 0 then ADP_TAGGED
  else if as_count s =? 1 then ADP_TAGGED
  else if adp_f32_lt (as_unique_ratio s) adp_f015 then ADP_DICT
  else if as_fits s && (as_unique s =? as_count s) && as_sorted s
          && (0 <? as_range s) && (as_count s <? 10000)
          && adp_f32_lt adp_f005 (adp_ratio (as_count s) (as_range s))
       then ADP_BITMAP
  else if (as_sorted s || as_rsorted s)
          && (((0 <? as_min s) && (as_avg_delta s <? as_min s / 10)) || (as_avg_delta s <? 1000))
       then ADP_DELTA
  else if adp_f32_lt (as_outlier_ratio s) adp_f005 && (0 <? as_range s) then ADP_PFOR
  else if (0 <? as_range s) && (as_range s <? mul64 (as_count s) 100) then ADP_FOR
  else ADP_TAGGED.

(* ------------------------------------------------------------------ *)
(* struct varintAdaptiveMeta: encodingType, originalCount, encodedSize and the
   member of the union that the call wrote (None = union left as it was)   *)

Record adp_meta : Type := mk_adp_meta {
  am_type : N;
  am_count : N;
  am_size : N;
  am_for : option for_meta;
  am_pfor : option pfor_meta
}.

(* varintAdaptiveMaxSize (after fix F09).  Worst case PFOR with every value an
   exception: min 9 + width 1 + count 5 + 8 per slot + exception count 5 +
   (index 5 + value 9) per exception, plus the type byte. *)
Definition adp_max_size (count : N) : N := u64 (1 + 20 + mul64 count 22).

(* varintFORMeta forMeta = {0} *)
Definition adp_for_meta_zero : for_meta := mk_for_meta 0 0 0 0 0 0.

(* the BITMAP case of EncodeWith: Create, Add every value below 65536 *)
Definition adp_bitmap_of (values : list N) : bm_state :=
  fold_left (fun vb v => if v <? 65536 then fst (bm_add vb (u16 v)) else vb) values bm_create.

(* outcome of varintAdaptiveEncodeWith / varintAdaptiveEncode *)
Inductive adp_eres : Type :=
| AEOk (bytes : list N) (m : adp_meta)   (* bytes written; return value = am_size m *)
| AEFail (bytes : list N)                (* returned 0 after writing these bytes; *meta not written *)
| AEUB.                                  (* FOR on an empty array with asserts compiled out *)

(* varintAdaptiveEncodeWith(dst, values, count, encodingType, meta).  After the
   F33 fixes a PFOR or DICT encoder that returns 0 for a non-empty input makes
   the call return 0 (with allocation always succeeding this is the dictionary
   encoder refusing more than 2^20 distinct values). *)
Definition adp_encode_with (values : list N) (e : N) : adp_eres :=
  let count := adp_len values in
  let hdr := u8 e in
  let fin (body : list N) (encodedSize : N) (fm : option for_meta) (pm : option pfor_meta) :=
    AEOk (hdr :: body) (mk_adp_meta e count (u64 (encodedSize + 1)) fm pm) in
  match e with
  | 0 => let body := delta_encode_u values in fin body (adp_len body) None None
  | 1 =>
      match for_encode values (Some adp_for_meta_zero) with
      | Some (body, fm) => fin body (adp_len body) fm None
      | None => AEUB
      end
  | 2 =>
      let r := pfor_encode (takeNp values (u32 count)) 95 in
      if (adp_len (fst r) =? 0) && (0 <? count) then AEFail (hdr :: fst r)
      else fin (fst r) (adp_len (fst r)) None (Some (snd r))
  | 3 =>
      let r := dict_encode values in
      if (dict_ret r =? 0) && (0 <? count) then AEFail (hdr :: fst r)
      else fin (fst r) (dict_ret r) None None
  | 4 => let body := bm_encode (adp_bitmap_of values) in fin body (adp_len body) None None
  | _ => let body := flat_map tagged_put64 values in fin body (adp_len body) None None
  end.

(* varintAdaptiveEncode: when the selected encoder fails, TAGGED is used (its
   bytes overwrite the failed attempt from dst[0] on; the failed attempt wrote
   no more than the type byte) *)
Definition adp_encode (values : list N) : adp_eres :=
  let e := adp_select (adp_analyze values) in
  match adp_encode_with values e with
  | AEFail b => if e =? ADP_TAGGED then AEFail b else adp_encode_with values ADP_TAGGED
  | r => r
  end.

(* ------------------------------------------------------------------ *)
(* decoding                                                             *)

(* outcome of varintAdaptiveDecode: return value, the values stored at
   output[0], output[1], ..., the pforMeta written to *meta (PFOR only) *)
Inductive adp_dres : Type :=
| ADOk (ret : N) (stores : list N) (pm : option pfor_meta)
| ADOob      (* a read at or past the end of the byte list *)
| ADUB       (* undefined behaviour in an inner decoder (width outside 1..8) *)
| ADFuel.

(* the TAGGED loop: while (count < maxCount && offset < maxCount * 9) *)
Fixpoint adp_tagged_loop (fuel : nat) (z : list N) (offset count maxCount : N) : pres (list N) :=
  if (count <? maxCount) && (offset <? mul64 maxCount 9) then
    match fuel with
    | O => PFuel
    | S f =>
        match rd_tagged z with
        | POk (w, v, z') =>
            if w =? 0 then POk []
            else
              match adp_tagged_loop f z' (u64 (offset + w)) (count + 1) maxCount with
              | POk vs => POk (v :: vs)
              | POob => POob | PUB => PUB | PFuel => PFuel
              end
        | POob => POob | PUB => PUB | PFuel => PFuel
        end
    end
  else POk [].

(* varintAdaptiveDecode(src, values, maxCount, meta) *)
Definition adp_decode (src : list N) (maxCount : N) : adp_dres :=
  match src with
  | [] => ADOob
  | e :: data =>
      match e with
      | 0 =>
          match delta_decode_u data (N.to_nat maxCount) with
          | Some (_, vs) => ADOk maxCount vs None
          | None => ADUB
          end
      | 1 =>
          match for_decode data maxCount with
          | Some (r, vs) => ADOk r vs None
          | None => ADUB
          end
      | 2 =>
          match pfor_read_meta data pfor_meta_zero with
          | POk (_, m) =>
              if maxCount <? pm_count m then ADOk 0 [] None
              else
                match pfor_decode data m with
                | POk (vs, m') => ADOk (pm_count m) vs (Some m')
                | POob => ADOob | PUB => ADUB | PFuel => ADFuel
                end
          | POob => ADOob | PUB => ADUB | PFuel => ADFuel
          end
      | 3 =>
          match dict_decode_into data (adp_max_size maxCount - 1) maxCount with
          | DictOk out _ => ADOk (adp_len out) out None
          | DictNull _ => ADOk 0 [] None
          | DictPartial stores _ => ADOk 0 stores None
          | DictFuel => ADFuel
          end
      | 4 =>
          match fst (bm_decode data 1048576) with
          | Some vb =>
              let arr := bm_to_array vb in
              let count := adp_len arr in
              let decoded := if count <? maxCount then count else maxCount in
              ADOk decoded (takeNp arr decoded) None
          | None => ADOk 0 [] None
          end
      | _ =>
          match adp_tagged_loop (N.to_nat maxCount) data 0 0 maxCount with
          | POk vs => ADOk (adp_len vs) vs None
          | POob => ADOob | PUB => ADUB | PFuel => ADFuel
          end
      end
  end.

(* p += varintTaggedGetLen(p): looks at the first byte only *)
Definition adp_skip_tagged (z : list N) : pres (N * list N) :=
  match z with
  | [] => POob
  | _ :: _ => let w := tagged_getlen z in POk (w, dropN z w)
  end.

(* the exception list walked by varintAdaptiveReadMeta (after fix F18):
   bytes taken by k (index, value) pairs of tagged varints *)
Fixpoint adp_exc_bytes (fuel : nat) (k : N) (z : list N) : pres N :=
  if k =? 0 then POk 0
  else
    match fuel with
    | O => PFuel
    | S f =>
        match adp_skip_tagged z with
        | POk (w1, z1) =>
            match adp_skip_tagged z1 with
            | POk (w2, z2) =>
                match adp_exc_bytes f (k - 1) z2 with
                | POk n => POk (w1 + w2 + n)
                | POob => POob | PUB => PUB | PFuel => PFuel
                end
            | POob => POob | PUB => PUB | PFuel => PFuel
            end
        | POob => POob | PUB => PUB | PFuel => PFuel
        end
    end.

(* varintAdaptiveReadMeta(src, meta): the fields it writes (return value 1) *)
Definition adp_read_meta (src : list N) : pres adp_meta :=
  match src with
  | [] => POob
  | e :: data =>
      match e with
      | 1 =>
          let fm := for_read_metadata data in
          POk (mk_adp_meta e (fm_count fm) (u64 (fm_size fm + 1)) (Some fm) None)
      | 2 =>
          match pfor_read_meta data pfor_meta_zero with
          | POk (h, m) =>
              let body := h + pm_count m * pm_width m in
              match adp_skip_tagged (dropN data body) with
              | POk (wc, z) =>
                  match adp_exc_bytes (S (length data)) (pm_exc m) z with
                  | POk n => POk (mk_adp_meta e (pm_count m) (u64 (body + wc + n + 1)) None (Some m))
                  | POob => POob | PUB => PUB | PFuel => PFuel
                  end
              | POob => POob | PUB => PUB | PFuel => PFuel
              end
          | POob => POob | PUB => PUB | PFuel => PFuel
          end
      | _ => POk (mk_adp_meta e 0 1 None None)
      end
  end.

(* varintAdaptiveGetEncodingType *)
Definition adp_get_encoding_type (src : list N) : N := byte_at src 0.

(* EXTRACT: adp_round_ratio adp_f32_of_N adp_f32_div adp_ratio adp_f32_lt adp_f32_bits
   adp_f015 adp_f005 adp_check_sorted adp_len adp_count_unique adp_avg_delta adp_analyze
   adp_select adp_max_size adp_encode_with adp_encode adp_decode adp_read_meta
   adp_get_encoding_type
   as_count as_min as_max as_range as_unique as_avg_delta as_max_delta as_outliers
   as_unique_ratio as_outlier_ratio as_sorted as_rsorted as_fits
   am_type am_count am_size am_for am_pfor *)
