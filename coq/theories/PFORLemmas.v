(* PFORLemmas.v — generic lemmas used by the PFOR proofs: N-indexed list
   access, the readers on concatenations, tagged length monotonicity,
   little-endian slots. *)
Require Import VV.Base VV.BaseProofs VV.Tagged VV.TaggedProofs VV.TaggedSpecProofs VV.PFOR.
From Coq Require Import Lia ZifyBool ZifyN ZifyNat.
Local Open Scope N_scope.
Ltac Zify.zify_post_hook ::= Z.div_mod_to_equations.

(* ---------- N-indexed list access = nat-indexed ---------- *)

Lemma dropN_skipn l n : dropN l n = skipn (N.to_nat n) l.
Proof.
  revert n. induction l as [|x l IH]; intro n.
  - destruct (N.to_nat n); reflexivity.
  - cbn [dropN]. destruct (n =? 0) eqn:E.
    + assert (n = 0) by lia. subst. reflexivity.
    + rewrite IH. replace (N.to_nat n) with (S (N.to_nat (n - 1))) by lia. reflexivity.
Qed.

Lemma nthN_nth l i d : nthN l i d = nth (N.to_nat i) l d.
Proof.
  revert i. induction l as [|x l IH]; intro i.
  - destruct (N.to_nat i); reflexivity.
  - cbn [nthN]. destruct (i =? 0) eqn:E.
    + assert (i = 0) by lia. subst. reflexivity.
    + rewrite IH. replace (N.to_nat i) with (S (N.to_nat (i - 1))) by lia. reflexivity.
Qed.

Lemma takeNp_firstn {A} (l : list A) n : takeNp l n = firstn (N.to_nat n) l.
Proof.
  revert n. induction l as [|x l IH]; intro n.
  - destruct (N.to_nat n); reflexivity.
  - cbn [takeNp]. destruct (n =? 0) eqn:E.
    + assert (n = 0) by lia. subst. reflexivity.
    + rewrite IH. replace (N.to_nat n) with (S (N.to_nat (n - 1))) by lia. reflexivity.
Qed.

Lemma takeNp_all {A} (l : list A) : takeNp l (N.of_nat (length l)) = l.
Proof. rewrite takeNp_firstn, Nat2N.id. apply firstn_all. Qed.

Lemma dropN_app_length a b : dropN (a ++ b) (N.of_nat (length a)) = b.
Proof.
  rewrite dropN_skipn, Nat2N.id, skipn_app, skipn_all, Nat.sub_diag. reflexivity.
Qed.

Lemma dropN_app_length' a b n : n = N.of_nat (length a) -> dropN (a ++ b) n = b.
Proof. intros ->. apply dropN_app_length. Qed.

Lemma skipn_add {A} (l : list A) a b : skipn (a + b) l = skipn b (skipn a l).
Proof.
  revert l. induction a as [|a IH]; intro l; [reflexivity|].
  destruct l as [|x l]; [destruct b; reflexivity|]. cbn [Nat.add skipn]. apply IH.
Qed.

Lemma dropN_add l a b : dropN l (a + b) = dropN (dropN l a) b.
Proof.
  rewrite !dropN_skipn, <- skipn_add. f_equal. lia.
Qed.

Lemma updN_app_here pre x t v :
  updN (pre ++ x :: t) (N.of_nat (length pre)) v = pre ++ v :: t.
Proof.
  induction pre as [|p pre IH].
  - reflexivity.
  - cbn [app length updN]. destruct (N.of_nat (S (length pre)) =? 0) eqn:E; [lia|].
    replace (N.of_nat (S (length pre)) - 1) with (N.of_nat (length pre)) by lia.
    rewrite IH. reflexivity.
Qed.

Lemma has_bytes_app a b k : (k <= length a)%nat -> has_bytes (a ++ b) k = true.
Proof.
  intro H. destruct k as [|k]; [reflexivity|]. unfold has_bytes.
  destruct (nth_error (a ++ b) k) eqn:E; [reflexivity|].
  apply nth_error_None in E. rewrite app_length in E. lia.
Qed.

(* ---------- tagged reader on an encoder's output ---------- *)

Lemma tagged_put_length_nat x : length (tagged_put64 x) = N.to_nat (tagged_len x).
Proof. rewrite <- tagged_put_length, Nat2N.id. reflexivity. Qed.

Lemma tagged_put_cons x : exists b t, tagged_put64 x = b :: t.
Proof.
  destruct (tagged_put64 x) as [|b t] eqn:E; [|eauto].
  exfalso. pose proof (tagged_put_length x) as H. rewrite E in H.
  pose proof (tagged_len_range x). cbn [length] in H. lia.
Qed.

Lemma rd_tagged_put x tl : x < 18446744073709551616 ->
  rd_tagged (tagged_put64 x ++ tl) = POk (tagged_len x, x, tl).
Proof.
  intro Hx. unfold rd_tagged.
  destruct (tagged_put_cons x) as (b & t & E).
  destruct (tagged_put64 x ++ tl) as [|b0 t0] eqn:E2.
  { rewrite E in E2. discriminate. }
  rewrite <- E2. clear E2 b0 t0.
  rewrite tagged_getlen_put by assumption.
  rewrite has_bytes_app by (rewrite tagged_put_length_nat; lia).
  unfold tagged_get64. rewrite tagged_roundtrip by (try assumption; pose proof (tagged_len_range x); lia).
  cbn [fst snd]. rewrite dropN_app_length' by (symmetry; apply tagged_put_length). reflexivity.
Qed.

(* ---------- tagged length is monotone and at most 9 ---------- *)

Lemma tagged_len_max : tagged_len U64MAX = 9.
Proof. reflexivity. Qed.

Lemma tagged_len_le9 x : tagged_len x <= 9.
Proof. pose proof (tagged_len_range x). lia. Qed.

Lemma tagged_len_mono a b : a <= b -> b < 18446744073709551616 -> tagged_len a <= tagged_len b.
Proof.
  intros Hab Hb. unfold tagged_len, u32, shr. cbv zeta.
  change (2 ^ 32) with 4294967296.
  destruct (a <=? 240) eqn:A1; [kill_ifs; lia|].
  destruct (b <=? 240) eqn:B1; [lia|].
  destruct (a <=? 2287) eqn:A2; [kill_ifs; lia|].
  destruct (b <=? 2287) eqn:B2; [lia|].
  destruct (a <=? 67823) eqn:A3; [kill_ifs; lia|].
  destruct (b <=? 67823) eqn:B3; [lia|].
  assert (Ha : a < 18446744073709551616) by lia.
  assert (HA : (a / 4294967296) mod 4294967296 = a / 4294967296) by (apply N.mod_small; lia).
  assert (HB : (b / 4294967296) mod 4294967296 = b / 4294967296) by (apply N.mod_small; lia).
  rewrite HA, HB.
  assert (Hq : a / 4294967296 <= b / 4294967296) by (apply N.div_le_mono; lia).
  set (qa := a / 4294967296) in *. set (qb := b / 4294967296) in *.
  assert (Ea : a = 4294967296 * qa + a mod 4294967296) by (subst qa; apply N.div_mod; lia).
  assert (Eb : b = 4294967296 * qb + b mod 4294967296) by (subst qb; apply N.div_mod; lia).
  assert (a mod 4294967296 < 4294967296) by (apply N.mod_lt; lia).
  assert (b mod 4294967296 < 4294967296) by (apply N.mod_lt; lia).
  set (ra := a mod 4294967296) in *. set (rb := b mod 4294967296) in *.
  clearbody qa qb ra rb.
  destruct (qa =? 0) eqn:A4.
  - destruct (qb =? 0) eqn:B4.
    + destruct (ra <=? 16777215) eqn:A5; destruct (rb <=? 16777215) eqn:B5; lia.
    + kill_ifs; lia.
  - destruct (qb =? 0) eqn:B4; [lia|].
    destruct (qa <=? 255) eqn:A5; [kill_ifs; lia|].
    destruct (qb <=? 255) eqn:B5; [lia|].
    destruct (qa <=? 65535) eqn:A6; [kill_ifs; lia|].
    destruct (qb <=? 65535) eqn:B6; [lia|].
    destruct (qa <=? 16777215) eqn:A7; [kill_ifs; lia|].
    destruct (qb <=? 16777215) eqn:B7; [lia|]. lia.
Qed.

(* ---------- little-endian slots ---------- *)

Lemma firstn_app_exact {A} (a b : list A) k : k = length a -> firstn k (a ++ b) = a.
Proof.
  intros ->. rewrite firstn_app, Nat.sub_diag, firstn_all. cbn [firstn]. apply app_nil_r.
Qed.

Lemma le_bytes_1 v : le_bytes 1 v = [v mod 256].
Proof. reflexivity. Qed.
Lemma le_bytes_2 v : le_bytes 2 v = [v mod 256; (v / 256) mod 256].
Proof. reflexivity. Qed.
Lemma le_bytes_3 v : le_bytes 3 v = [v mod 256; (v / 256) mod 256; (v / 256 / 256) mod 256].
Proof. reflexivity. Qed.

Lemma pfor_ext_get_quick_default z w : 4 <= w ->
  pfor_ext_get_quick z w = of_le (firstn (N.to_nat w) z).
Proof.
  intro H. unfold pfor_ext_get_quick. cbv zeta.
  destruct w as [|p]; [lia|].
  destruct p as [[q|q|]|[q|q|]|]; try reflexivity; lia.
Qed.

Lemma pfor_ext_get_quick_le w v tl : (1 <= w <= 8)%nat ->
  pfor_ext_get_quick (le_bytes w v ++ tl) (N.of_nat w) = v mod 256 ^ N.of_nat w.
Proof.
  intro Hw.
  assert (G : of_le (firstn w (le_bytes w v ++ tl)) = v mod 256 ^ N.of_nat w).
  { rewrite firstn_app_exact by (symmetry; apply length_le_bytes). apply of_le_le_bytes. }
  destruct w as [|[|[|[|w]]]]; [lia| | | |].
  - change (N.of_nat 1) with 1. unfold pfor_ext_get_quick. cbv zeta.
    rewrite le_bytes_1. cbn [app byte_at nth]. change (256 ^ 1) with 256. reflexivity.
  - change (N.of_nat 2) with 2. unfold pfor_ext_get_quick. cbv zeta.
    rewrite le_bytes_2. cbn [app byte_at nth].
    assert (v mod 256 < 256) by (apply N.mod_lt; lia).
    assert ((v / 256) mod 256 < 256) by (apply N.mod_lt; lia).
    rewrite shl_lor_small by lia. change (256 ^ 2) with 65536. change (2 ^ 8) with 256. lia.
  - change (N.of_nat 3) with 3. unfold pfor_ext_get_quick. cbv zeta.
    rewrite le_bytes_3. cbn [app byte_at nth].
    assert (v mod 256 < 256) by (apply N.mod_lt; lia).
    assert ((v / 256) mod 256 < 256) by (apply N.mod_lt; lia).
    assert ((v / 256 / 256) mod 256 < 256) by (apply N.mod_lt; lia).
    rewrite be3 by assumption. change (256 ^ 3) with 16777216. lia.
  - rewrite pfor_ext_get_quick_default by lia. rewrite Nat2N.id. exact G.
Qed.

Lemma pfor_get_ext_le w v tl : (1 <= w <= 8)%nat ->
  pfor_get_ext (le_bytes w v ++ tl) (N.of_nat w) = POk (v mod 256 ^ N.of_nat w).
Proof.
  intro Hw. unfold pfor_get_ext.
  replace ((1 <=? N.of_nat w) && (N.of_nat w <=? 8)) with true by lia.
  rewrite Nat2N.id, has_bytes_app by (rewrite length_le_bytes; lia).
  rewrite pfor_ext_get_quick_le by assumption. reflexivity.
Qed.

(* ---------- the marker ---------- *)

Lemma pfor_marker_val w : (1 <= w <= 8)%nat -> pfor_marker (N.of_nat w) = 256 ^ N.of_nat w - 1.
Proof.
  intro Hw. unfold pfor_marker, shl64, U64MAX.
  destruct w as [|[|[|[|[|[|[|[|[|w]]]]]]]]]; try lia; reflexivity.
Qed.

Lemma pow256_pos w : 0 < 256 ^ N.of_nat w.
Proof. apply N.neq_0_lt_0. apply N.pow_nonzero. lia. Qed.

Lemma pow256_le64 w : (w <= 8)%nat -> 256 ^ N.of_nat w <= 18446744073709551616.
Proof. intro H. change 18446744073709551616 with (256 ^ N.of_nat 8). apply pow256_mono. exact H. Qed.
