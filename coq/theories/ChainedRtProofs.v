(* ChainedRtProofs.v — round trips (C01) for chained and chained-simple,
   including the 32-bit entry points. *)
Require Import VV.Base VV.BaseProofs VV.Chained VV.ChainedSpec VV.ChainedWiring VV.ChainedLemmas
  VV.ChainedPutProofs VV.ChainedGetProofs.
From Coq Require Import Lia ZifyBool ZifyN ZifyNat Arith.
Local Open Scope N_scope.
Ltac Zify.zify_post_hook ::= Z.div_mod_to_equations.

(* ---- reference decoder on the specified encoding ---- *)
Lemma ch_loop_be128 n : forall r acc cnt y rest, (n <= r)%nat ->
  ch_loop r acc cnt (be128 n y ++ rest)
  = ch_loop (r - n) (acc * 128 ^ N.of_nat n + y mod 128 ^ N.of_nat n) (cnt + N.of_nat n) rest.
Proof.
  induction n as [|n IH]; intros r acc cnt y rest Hn.
  - cbn [be128 app]. change (128 ^ N.of_nat 0) with 1. rewrite N.mod_1_r.
    replace (r - 0)%nat with r by lia. f_equal; lia.
  - cbn [be128]. rewrite <- app_assoc. cbn [app].
    rewrite IH by lia.
    replace (r - n)%nat with (S (r - S n)) by lia. cbn [ch_loop hd tl].
    assert (M : y mod 128 < 128) by (apply N.mod_lt; lia).
    destruct (128 + y mod 128 <? 128) eqn:E; [lia|].
    rewrite mod_pow128_S, pow128_S.
    set (P := 128 ^ N.of_nat n). set (m := (y / 128) mod P).
    f_equal; lia.
Qed.

Theorem chained_decode_spec x tl : x < 18446744073709551616 ->
  chained_decode (chained_spec x ++ tl) = (N.of_nat (chained_spec_len x), x).
Proof.
  intro Hx. unfold chained_decode, chained_spec, chained_spec_len.
  destruct (x <? 72057594037927936) eqn:T.
  - destruct (top_lt_spec_len x ltac:(lia)) as (A & B & C).
    assert (H8 : x < 128 ^ N.of_nat 8) by (norm_pow128; lia).
    destruct (nd_bounds 7 x H8) as (R1 & R2 & R3).
    rewrite B in *. set (n := ndigits128 7 x) in *.
    rewrite <- app_assoc. rewrite ch_loop_be128 by lia.
    replace (8 - (n - 1))%nat with (S (8 - n)) by lia. cbn [app ch_loop hd].
    assert (M : x mod 128 < 128) by (apply N.mod_lt; lia).
    destruct (x mod 128 <? 128) eqn:E; [|lia].
    assert (Q : x / 128 < 128 ^ N.of_nat (n - 1)).
    { replace n with (S (n - 1)) in R2 by lia. rewrite pow128_S in R2.
      apply N.div_lt_upper_bound; lia. }
    rewrite (N.mod_small _ _ Q). f_equal; lia.
  - rewrite <- app_assoc. rewrite ch_loop_be128 by lia.
    cbn [Nat.sub app ch_loop hd]. norm_pow128.
    assert (Q : x / 256 < 72057594037927936) by (apply N.div_lt_upper_bound; lia).
    rewrite (N.mod_small _ _ Q). f_equal; lia.
Qed.

Lemma bytes_ok_chained_spec x : bytes_ok (chained_spec x).
Proof.
  unfold chained_spec. destruct (x <? 72057594037927936);
    (apply bytes_ok_app; [apply bytes_ok_be128|]); constructor; try constructor.
  - assert (x mod 128 < 128) by (apply N.mod_lt; lia). lia.
  - apply N.mod_lt. lia.
Qed.

(* ---- C01: chained round trip ---- *)
Theorem chained_roundtrip x tl : x < 18446744073709551616 ->
  chained_get (chained_put x ++ tl) = (chained_len x, x).
Proof.
  intro Hx. rewrite chained_put_is_spec, chained_len_is_spec by exact Hx.
  rewrite chained_get_is_decode.
  - apply chained_decode_spec. exact Hx.
  - rewrite chained_decode_spec by exact Hx. cbn [fst]. intros i Hi.
    unfold byte_at. rewrite app_nth1 by (rewrite chained_spec_length; lia).
    apply (byte_at_lt (chained_spec x) i). apply bytes_ok_chained_spec.
Qed.

(* the decoder reads nothing beyond the encoding: the tail is irrelevant *)
Corollary chained_get_frame x tl tl' : x < 18446744073709551616 ->
  chained_get (chained_put x ++ tl) = chained_get (chained_put x ++ tl').
Proof. intro Hx. rewrite !chained_roundtrip by exact Hx. reflexivity. Qed.

(* ---- 32-bit reader ---- *)
Definition sat32 (r : N * N) : N * N :=
  (fst r, if snd r <? 4294967296 then snd r else 4294967295).

Lemma lor_lt_pow2 a b n : a < 2 ^ n -> b < 2 ^ n -> N.lor a b < 2 ^ n.
Proof.
  intros Ha Hb. apply lt_pow2_of_bits. intros k Hk.
  rewrite N.lor_spec, (testbit_high a n k Ha Hk), (testbit_high b n k Hb Hk). reflexivity.
Qed.

Lemma land_lt_pow2 a c n : a < 2 ^ n -> N.land a c < 2 ^ n.
Proof.
  intros Ha. apply lt_pow2_of_bits. intros k Hk.
  rewrite N.land_spec, (testbit_high a n k Ha Hk). reflexivity.
Qed.

Lemma shl32_lt a k : shl32 a k < 2 ^ 32.
Proof. unfold shl32. change (2 ^ 32) with 4294967296. apply N.mod_lt. lia. Qed.

Lemma chained_get_width z : 1 <= fst (chained_get z) <= 9.
Proof.
  unfold chained_get. cbv zeta.
  repeat match goal with
  | |- context [if ?b then _ else _] => destruct b
  end; cbn [fst]; lia.
Qed.

Lemma chained_get32_fn_sat z : byte_at z 1 < 256 -> 128 <= byte_at z 0 ->
  chained_get32_fn z = sat32 (chained_get z).
Proof.
  intros B1 C0. unfold chained_get32_fn. cbv zeta.
  rewrite (land128_test _ B1).
  pose proof (chained_get_width z) as W.
  unfold chained_get in *. cbv zeta in *.
  destruct (byte_at z 0 <? 128) eqn:E0; [lia|].
  destruct (byte_at z 1 <? 128) eqn:E1.
  { unfold sat32. cbn [fst snd].
    match goal with |- (_, ?e) = _ =>
      assert (L : e < 2 ^ 32) by (apply lor_lt_pow2; [apply shl32_lt | change (2 ^ 32) with 4294967296; lia])
    end.
    change (2 ^ 32) with 4294967296 in L.
    match goal with |- context [if ?b then _ else _] => destruct b eqn:F; [reflexivity|lia] end. }
  destruct (N.land (N.lor (shl32 (byte_at z 0) 14) (byte_at z 2)) 128 =? 0) eqn:E2.
  { unfold sat32. cbn [fst snd].
    match goal with |- (_, ?e) = _ =>
      assert (L : e < 2 ^ 32)
    end.
    { apply lor_lt_pow2; [|apply shl32_lt].
      (* the mask itself is below 2^32 *)
      rewrite N.land_comm. apply land_lt_pow2. unfold SLOT_2_0.
      change (2 ^ 32) with 4294967296. lia. }
    change (2 ^ 32) with 4294967296 in L.
    match goal with |- context [if ?b then _ else _] => destruct b eqn:F; [reflexivity|lia] end. }
  (* the general path through varintChainedGetVarint *)
  match goal with |- context [u8 (fst ?r)] => set (R := r) in * end.
  unfold sat32. rewrite land_u32. unfold u8, u32.
  rewrite (N.mod_small (fst R) 256) by lia.
  destruct (snd R <? 4294967296) eqn:F.
  - rewrite (N.mod_small (snd R)) by lia. rewrite N.eqb_refl. reflexivity.
  - destruct (snd R mod 4294967296 =? snd R) eqn:G; [lia|reflexivity].
Qed.

Lemma hd_put_cont x tl : x < 18446744073709551616 -> 128 <= x ->
  128 <= byte_at (chained_put x ++ tl) 0.
Proof.
  intros Hx Hge. pose proof (chained_roundtrip x tl Hx) as R.
  destruct (byte_at (chained_put x ++ tl) 0 <? 128) eqn:E; [|lia].
  rewrite chained_get_ret1 in R by lia.
  injection R as R1 R2. lia.
Qed.

Lemma byte1_put_lt x tl : x < 18446744073709551616 -> 128 <= x ->
  byte_at (chained_put x ++ tl) 1 < 256.
Proof.
  intros Hx Hge. rewrite chained_put_is_spec by exact Hx.
  pose proof (chained_spec_length x) as L. rewrite chained_spec_len_table in L by exact Hx.
  unfold byte_at. rewrite app_nth1.
  - apply (byte_at_lt (chained_spec x) 1). apply bytes_ok_chained_spec.
  - rewrite L. kill_ifs; lia.
Qed.

(* C01, 32-bit entry points (the two macros) *)
Theorem chained32_roundtrip x tl : x < 4294967296 ->
  chained_get32 (chained_put32 x ++ tl) = (chained_len x, x).
Proof.
  intro Hx. unfold chained_put32, chained_get32, u32.
  rewrite (N.mod_small x) by exact Hx.
  destruct (x <? 128) eqn:E.
  - cbn [app byte_at nth]. unfold u8. rewrite (N.mod_small x 256) by lia.
    rewrite E. rewrite chained_len_table by lia. kill_ifs. reflexivity.
  - pose proof (hd_put_cont x tl ltac:(lia) ltac:(lia)) as H0.
    destruct (byte_at (chained_put x ++ tl) 0 <? 128) eqn:E0; [lia|].
    rewrite chained_get32_fn_sat by (try apply byte1_put_lt; lia).
    rewrite chained_roundtrip by lia. unfold sat32. cbn [fst snd].
    pose proof (chained_len_range x ltac:(lia)) as R.
    unfold u8. rewrite N.mod_small by lia.
    destruct (x <? 4294967296) eqn:F; [reflexivity|lia].
Qed.

(* the function behind the macro agrees with it wherever it may be called *)
Theorem chained32_fn_roundtrip x tl : 128 <= x < 4294967296 ->
  chained_get32_fn (chained_put32 x ++ tl) = (chained_len x, x).
Proof.
  intro Hx. unfold chained_put32, u32. rewrite (N.mod_small x) by lia.
  destruct (x <? 128) eqn:E; [lia|].
  rewrite chained_get32_fn_sat by (try apply byte1_put_lt; try apply hd_put_cont; lia).
  rewrite chained_roundtrip by lia. unfold sat32. cbn [fst snd].
  destruct (x <? 4294967296) eqn:F; [reflexivity|lia].
Qed.

Theorem chained_put32_eq x : x < 4294967296 -> chained_put32 x = chained_put x.
Proof.
  intro Hx. unfold chained_put32, chained_put, u32. rewrite (N.mod_small x) by exact Hx.
  destruct (x <? 128) eqn:E.
  - destruct (x <=? 127) eqn:E1; [|lia]. rewrite land127. unfold u8. f_equal. lia.
  - reflexivity.
Qed.

(* saturation of the 32-bit reader on larger values (documented behaviour) *)
Theorem chained32_saturates x tl : 4294967296 <= x < 18446744073709551616 ->
  chained_get32 (chained_put x ++ tl) = (chained_len x, 4294967295).
Proof.
  intro Hx. unfold chained_get32.
  pose proof (hd_put_cont x tl ltac:(lia) ltac:(lia)) as H0.
  destruct (byte_at (chained_put x ++ tl) 0 <? 128) eqn:E0; [lia|].
  rewrite chained_get32_fn_sat by (try apply byte1_put_lt; lia).
  rewrite chained_roundtrip by lia. unfold sat32. cbn [fst snd].
  pose proof (chained_len_range x ltac:(lia)) as R.
  unfold u8. rewrite N.mod_small by lia.
  destruct (x <? 4294967296) eqn:F; [lia|reflexivity].
Qed.

(* ------------------------------------------------------------------ *)
(* chained-simple                                                      *)
(* ------------------------------------------------------------------ *)

Lemma byte_at_app_len pre c rest : byte_at (pre ++ c :: rest) (length pre) = c.
Proof.
  unfold byte_at. rewrite app_nth2 by lia. rewrite Nat.sub_diag. reflexivity.
Qed.

Lemma pow7_S i : 2 ^ (7 * N.of_nat (S i)) = 128 * 2 ^ (7 * N.of_nat i).
Proof.
  rewrite Nat2N.inj_succ. replace (7 * N.succ (N.of_nat i)) with (7 + 7 * N.of_nat i) by lia.
  rewrite N.pow_add_r. reflexivity.
Qed.

Lemma pow7_le i : (i <= 8)%nat -> 2 ^ (7 * N.of_nat i) <= 72057594037927936.
Proof. intro H. change 72057594037927936 with (2 ^ 56). apply N.pow_le_mono_r; lia. Qed.

Lemma pow7_pos i : 0 < 2 ^ (7 * N.of_nat i).
Proof. apply N.neq_0_lt_0. apply N.pow_nonzero. lia. Qed.

(* one decoder step's `result | (d << shift)` as addition *)
Lemma cs_acc result d i : result < 2 ^ (7 * N.of_nat i) ->
  d * 2 ^ (7 * N.of_nat i) < 18446744073709551616 ->
  N.lor result (shl64 d (7 * N.of_nat i)) = result + d * 2 ^ (7 * N.of_nat i).
Proof.
  intros Hr Hd. unfold shl64. rewrite N.mod_small by exact Hd.
  rewrite N.lor_comm, lor_add_disjoint by exact Hr. lia.
Qed.

Lemma cs_dec_le128 n : forall fuel i pre y last tl result,
  length pre = i -> result < 2 ^ (7 * N.of_nat i) -> (i + n <= 8)%nat ->
  (last < 128 \/ ((i + n)%nat = 8%nat /\ last < 256)) -> (n + 1 <= fuel)%nat ->
  cs_dec fuel (pre ++ le128 n y ++ last :: tl) i result
  = (N.of_nat (i + n + 1),
     result + 2 ^ (7 * N.of_nat i) * (y mod 128 ^ N.of_nat n + 128 ^ N.of_nat n * last)).
Proof.
  induction n as [|n IH]; intros fuel i pre y last tl result Hlen Hres Hin Hlast Hfuel.
  - destruct fuel as [|f]; [lia|]. cbn [le128 app cs_dec]. subst i.
    rewrite byte_at_app_len.
    pose proof (pow7_le (length pre) ltac:(lia)) as PL. pose proof (pow7_pos (length pre)) as PP.
    set (P := 2 ^ (7 * N.of_nat (length pre))) in *.
    assert (C : negb (N.land last 128 =? 0) && (length pre <? 8)%nat = false).
    { destruct Hlast as [Hl|[He Hl]].
      - rewrite land128_test by lia. destruct (last <? 128) eqn:E; [reflexivity|lia].
      - replace (length pre) with 8%nat by lia. apply andb_false_r. }
    rewrite C. change (128 ^ N.of_nat 0) with 1. rewrite N.mod_1_r.
    rewrite cs_acc; [f_equal; lia | exact Hres |].
    fold P. destruct Hlast as [Hl|[He Hl]]; [nia|].
    assert (P = 72057594037927936) as ->.
    { unfold P. replace (length pre) with 8%nat by lia. reflexivity. }
    lia.
  - destruct fuel as [|f]; [lia|]. cbn [le128 app cs_dec]. subst i.
    rewrite byte_at_app_len.
    assert (M : y mod 128 < 128) by (apply N.mod_lt; lia).
    pose proof (pow7_le (length pre) ltac:(lia)) as PL. pose proof (pow7_pos (length pre)) as PP.
    assert (C : negb (N.land (128 + y mod 128) 128 =? 0) && (length pre <? 8)%nat = true).
    { rewrite land128_test by lia. destruct (128 + y mod 128 <? 128) eqn:E; [lia|].
      destruct (Nat.ltb_spec (length pre) 8); [reflexivity|lia]. }
    rewrite C. rewrite land127.
    replace ((128 + y mod 128) mod 128) with (y mod 128) by lia.
    rewrite cs_acc by (try exact Hres; nia).
    replace (pre ++ (128 + y mod 128) :: le128 n (y / 128) ++ last :: tl)
      with ((pre ++ [128 + y mod 128]) ++ le128 n (y / 128) ++ last :: tl)
      by (rewrite <- app_assoc; reflexivity).
    assert (L1 : length (pre ++ [128 + y mod 128]) = S (length pre))
      by (rewrite app_length; cbn [length]; lia).
    assert (HR : result + y mod 128 * 2 ^ (7 * N.of_nat (length pre))
                 < 2 ^ (7 * N.of_nat (S (length pre)))).
    { rewrite pow7_S. set (P := 2 ^ (7 * N.of_nat (length pre))) in *. nia. }
    rewrite (IH f (S (length pre)) (pre ++ [128 + y mod 128]) (y / 128) last tl _ L1 HR);
      [ | lia | destruct Hlast as [Hl|[He Hl]]; [left; exact Hl|right; lia] | lia].
    rewrite pow7_S, mod_pow128_S, pow128_S.
    set (P := 2 ^ (7 * N.of_nat (length pre))) in *.
    set (Q := 128 ^ N.of_nat n). set (m := (y / 128) mod Q).
    f_equal; lia.
Qed.

Theorem csimple_decode_spec x tl : x < 18446744073709551616 ->
  csimple_decode64 (csimple_spec x ++ tl) = (N.of_nat (chained_spec_len x), x).
Proof.
  intro Hx. unfold csimple_decode64, csimple_spec, chained_spec_len.
  destruct (x <? 72057594037927936) eqn:T.
  - destruct (top_lt_spec_len x ltac:(lia)) as (A & B & C).
    assert (H8 : x < 128 ^ N.of_nat 8) by (norm_pow128; lia).
    destruct (nd_bounds 7 x H8) as (R1 & R2 & R3).
    rewrite B in *. set (n := ndigits128 7 x) in *.
    rewrite <- app_assoc. cbn [app].
    pose proof (pow128_pos (n - 1)) as PP.
    assert (Q : x / 128 ^ N.of_nat (n - 1) < 128).
    { replace n with (S (n - 1)) in R2 by lia. rewrite pow128_S in R2.
      apply N.div_lt_upper_bound; lia. }
    assert (L := cs_dec_le128 (n - 1) 10 0 [] x (x / 128 ^ N.of_nat (n - 1)) tl 0 eq_refl).
    cbn [app length] in L. change (2 ^ (7 * N.of_nat 0)) with 1 in L.
    rewrite L by lia. clear L.
    set (P := 128 ^ N.of_nat (n - 1)) in *. f_equal; [lia|].
    pose proof (N.div_mod x P ltac:(lia)). lia.
  - rewrite <- app_assoc. cbn [app].
    assert (Q : x / 72057594037927936 < 256) by (apply N.div_lt_upper_bound; lia).
    assert (L := cs_dec_le128 8 10 0 [] x (x / 72057594037927936) tl 0 eq_refl).
    cbn [app length] in L. change (2 ^ (7 * N.of_nat 0)) with 1 in L.
    rewrite L by lia. clear L.
    norm_pow128. f_equal. lia.
Qed.

(* C01: chained-simple round trip *)
Theorem csimple_roundtrip x tl : x < 18446744073709551616 ->
  csimple_decode64 (csimple_encode64 x ++ tl) = (csimple_length x, x).
Proof.
  intro Hx. rewrite csimple_put_is_spec, csimple_length_eq, chained_len_is_spec by exact Hx.
  apply csimple_decode_spec. exact Hx.
Qed.

Lemma csimple_hd x tl : x < 18446744073709551616 ->
  byte_at (csimple_encode64 x ++ tl) 0 = if x <? 128 then x else 128 + x mod 128.
Proof.
  intro Hx. unfold csimple_encode64. cbn [cs_enc].
  destruct (x <? 128) eqn:E.
  - destruct (128 <=? x) eqn:F; [lia|]. cbn [app byte_at nth]. unfold u8. apply N.mod_small. lia.
  - destruct (128 <=? x) eqn:F; [|lia]. cbn [app byte_at nth].
    fold (ch_cont x). apply ch_cont_eq.
Qed.

(* C01, 32-bit entry points *)
Theorem csimple32_roundtrip x tl : x < 4294967296 ->
  csimple_decode32 (csimple_encode32 x ++ tl) = (csimple_length x, x).
Proof.
  intro Hx. rewrite csimple_encode32_eq by exact Hx.
  unfold csimple_decode32, csimple_decode32_fallback.
  rewrite csimple_hd by lia.
  destruct (x <? 128) eqn:E.
  - rewrite land128_test by lia. rewrite E.
    rewrite csimple_length_eq, chained_len_table by lia. kill_ifs. reflexivity.
  - assert (M : x mod 128 < 128) by (apply N.mod_lt; lia).
    rewrite land128_test by lia.
    destruct (128 + x mod 128 <? 128) eqn:F; [lia|].
    rewrite csimple_roundtrip by lia. cbn [fst snd]. unfold u32.
    rewrite N.mod_small by exact Hx. reflexivity.
Qed.

Theorem csimple32_fallback_roundtrip x tl : x < 4294967296 ->
  csimple_decode32_fallback (csimple_encode32 x ++ tl) = (csimple_length x, x).
Proof.
  intro Hx. rewrite csimple_encode32_eq by exact Hx. unfold csimple_decode32_fallback.
  rewrite csimple_roundtrip by lia. cbn [fst snd]. unfold u32.
  rewrite N.mod_small by exact Hx. reflexivity.
Qed.

(* the decoder never reports VARINT_WIDTH_INVALID on an encoder output *)
Corollary csimple_decode_valid x tl : x < 18446744073709551616 ->
  1 <= fst (csimple_decode64 (csimple_encode64 x ++ tl)) <= 9.
Proof.
  intro Hx. rewrite csimple_roundtrip by exact Hx. cbn [fst].
  rewrite csimple_length_eq. apply chained_len_range. exact Hx.
Qed.

(* distinct values have distinct encodings *)
Theorem chained_injective x y : x < 18446744073709551616 -> y < 18446744073709551616 ->
  chained_put x = chained_put y -> x = y.
Proof.
  intros Hx Hy E. pose proof (chained_roundtrip x [] Hx) as Rx.
  pose proof (chained_roundtrip y [] Hy) as Ry. rewrite E in Rx. rewrite Rx in Ry.
  injection Ry as _ R. exact R.
Qed.

Theorem csimple_injective x y : x < 18446744073709551616 -> y < 18446744073709551616 ->
  csimple_encode64 x = csimple_encode64 y -> x = y.
Proof.
  intros Hx Hy E. pose proof (csimple_roundtrip x [] Hx) as Rx.
  pose proof (csimple_roundtrip y [] Hy) as Ry. rewrite E in Rx. rewrite Rx in Ry.
  injection Ry as _ R. exact R.
Qed.

Theorem csimple_length_range x : x < 18446744073709551616 -> 1 <= csimple_length x <= 9.
Proof. intro Hx. rewrite csimple_length_eq. apply chained_len_range. exact Hx. Qed.

(* frame: writing the encoding at offset off of a buffer changes nothing
   outside [off, off + length) *)
Lemma store_frame buf off bs : (off + length bs <= length buf)%nat ->
  firstn off (store buf off bs) = firstn off buf /\
  skipn (off + length bs) (store buf off bs) = skipn (off + length bs) buf /\
  length (store buf off bs) = length buf.
Proof.
  intro H. unfold store.
  assert (L : length (firstn off buf) = off) by (apply firstn_length_le; lia).
  split; [|split].
  - rewrite firstn_app, L, Nat.sub_diag. cbn [firstn]. rewrite app_nil_r.
    rewrite firstn_firstn. f_equal. lia.
  - rewrite app_assoc. rewrite skipn_app.
    rewrite app_length, L.
    rewrite skipn_all2 by (rewrite app_length, L; lia).
    rewrite Nat.sub_diag. reflexivity.
  - rewrite !app_length, L, skipn_length. lia.
Qed.

Theorem chained_put_frame x buf off : x < 18446744073709551616 ->
  (off + N.to_nat (chained_len x) <= length buf)%nat ->
  let buf' := store buf off (chained_put x) in
  firstn off buf' = firstn off buf /\
  skipn (off + N.to_nat (chained_len x)) buf' = skipn (off + N.to_nat (chained_len x)) buf /\
  length buf' = length buf.
Proof.
  intros Hx Hl. cbv zeta. rewrite <- (chained_put_length x Hx) in *. rewrite Nat2N.id in *.
  apply store_frame. exact Hl.
Qed.

Theorem csimple_put_frame x buf off : x < 18446744073709551616 ->
  (off + N.to_nat (csimple_length x) <= length buf)%nat ->
  let buf' := store buf off (csimple_encode64 x) in
  firstn off buf' = firstn off buf /\
  skipn (off + N.to_nat (csimple_length x)) buf' = skipn (off + N.to_nat (csimple_length x)) buf /\
  length buf' = length buf.
Proof.
  intros Hx Hl. cbv zeta. rewrite <- (csimple_put_length x Hx) in *. rewrite Nat2N.id in *.
  apply store_frame. exact Hl.
Qed.

(* ---- varintChainedSimpleDecode64 is the reference decoder on every input ---- *)
Lemma byte_at_skipn z i : byte_at z i = hd 0 (skipn i z).
Proof.
  unfold byte_at. revert z. induction i as [|i IH]; intros [|c z]; cbn [nth skipn hd]; try reflexivity.
  apply IH.
Qed.

Lemma tl_skipn {A} (z : list A) i : tl (skipn i z) = skipn (S i) z.
Proof.
  revert z. induction i as [|i IH]; intros [|c z]; try reflexivity.
  change (tl (skipn i z) = skipn (S i) z). apply IH.
Qed.

Lemma cs_loop_pos r z : 1 <= fst (cs_loop r z).
Proof.
  destruct r; cbn [cs_loop fst]; [lia|]. cbv zeta.
  destruct (hd 0 z <? 128); cbn [fst]; lia.
Qed.

Lemma cs_dec_loop room : forall i result z fuel,
  (i + room = 8)%nat -> (room + 1 <= fuel)%nat -> result < 2 ^ (7 * N.of_nat i) ->
  (forall j, N.of_nat j < fst (cs_loop room (skipn i z)) -> byte_at (skipn i z) j < 256) ->
  cs_dec fuel z i result
  = (N.of_nat i + fst (cs_loop room (skipn i z)),
     result + 2 ^ (7 * N.of_nat i) * snd (cs_loop room (skipn i z))).
Proof.
  induction room as [|r IH]; intros i result z fuel Hi Hf Hres Hb;
    (destruct fuel as [|f]; [lia|]); cbn [cs_dec cs_loop]; cbv zeta;
    rewrite (byte_at_skipn z i).
  - assert (i = 8%nat) as -> by lia.
    cbn [cs_loop fst] in Hb. specialize (Hb 0%nat ltac:(lia)).
    rewrite <- hd_byte_at in Hb.
    set (b := hd 0 (skipn 8 z)) in *.
    rewrite andb_false_r. cbn [fst snd].
    rewrite cs_acc; [f_equal; lia | exact Hres |].
    change (2 ^ (7 * N.of_nat 8)) with 72057594037927936. lia.
  - cbn [cs_loop] in Hb. cbv zeta in Hb.
    set (zs := skipn i z) in *. set (b := hd 0 zs) in *.
    pose proof (pow7_le i ltac:(lia)) as PL. pose proof (pow7_pos i) as PP.
    assert (I8 : (i <? 8)%nat = true) by (apply Nat.ltb_lt; lia).
    destruct (b <? 128) eqn:E.
    + rewrite land128_test by lia. rewrite E, I8. cbn [negb andb fst snd].
      rewrite cs_acc; [f_equal; lia | exact Hres |].
      set (P := 2 ^ (7 * N.of_nat i)) in *. nia.
    + cbn [fst snd] in Hb.
      pose proof (cs_loop_pos r (tl zs)) as QP.
      assert (B : b < 256).
      { specialize (Hb 0%nat ltac:(lia)). rewrite <- hd_byte_at in Hb. exact Hb. }
      rewrite land128_test by exact B. rewrite E, I8. cbn [negb andb fst snd].
      rewrite land127. rewrite cs_acc; [ | exact Hres | set (P := 2 ^ (7 * N.of_nat i)) in *; nia].
      unfold zs at 1 2. rewrite tl_skipn in *.
      rewrite IH; try lia.
      * rewrite pow7_S. set (P := 2 ^ (7 * N.of_nat i)) in *.
        set (q := cs_loop r (skipn (S i) z)) in *.
        f_equal; [lia|].
        assert (D : b mod 128 = b - 128) by lia. rewrite D.
        set (d := b - 128). set (sq := snd q). clearbody P d sq. nia.
      * rewrite pow7_S. set (P := 2 ^ (7 * N.of_nat i)) in *.
        assert (D : b mod 128 < 128) by (apply N.mod_lt; lia).
        set (d := b mod 128) in *. clearbody d P.
        assert (d * P <= 127 * P) by (apply N.mul_le_mono_r; lia). lia.
      * intros j Hj. unfold zs in Hb. rewrite tl_skipn in Hb.
        specialize (Hb (S j) ltac:(lia)).
        unfold byte_at in *. rewrite <- tl_skipn.
        destruct (skipn i z); [destruct j; exact Hb | exact Hb].
Qed.

Theorem csimple_decode64_is_decode z :
  (forall i, N.of_nat i < fst (csimple_decode z) -> byte_at z i < 256) ->
  csimple_decode64 z = csimple_decode z.
Proof.
  intro H. unfold csimple_decode64, csimple_decode in *.
  rewrite (cs_dec_loop 8 0 0 z 10 eq_refl); cbn [skipn].
  - change (2 ^ (7 * N.of_nat 0)) with 1. destruct (cs_loop 8 z) as [w v]. cbn [fst snd]. f_equal; lia.
  - lia.
  - change (2 ^ (7 * N.of_nat 0)) with 1. lia.
  - exact H.
Qed.
