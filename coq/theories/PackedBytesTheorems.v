(* PackedBytesTheorems.v — the statements about the ...Bytes forms of
   varintPacked.h, about histories that mix them with the element-count forms,
   and about SetIncr outside its precondition, with every hypothesis spelled out
   over the instantiation parameters (as in PackedTheorems.v). *)
Require Import VV.Base VV.BaseProofs VV.Packed VV.PackedLemmas VV.PackedProofs VV.PackedIncrProofs
  VV.PackedLoopProofs VV.PackedSpec VV.PackedSpecProofs VV.PackedRun VV.PackedSortedProofs VV.PackedTheorems
  VV.PackedBytesRun VV.PackedBytesProofs VV.PackedBytesIncrProofs.
From Coq Require Import Lia ZifyBool ZifyN ZifyNat Sorted Permutation.
Local Open Scope N_scope.

(* CountFromStorageBytes gives back len exactly for the byte sizes that hold the len * w bits and less than one element more *)
Theorem packed_bytes_count : forall w S P V L compact bytes len,
  let c := (mk_pcfg w S P V L compact) in
  1 <= w -> bytes * 8 < 2 ^ 64 ->
  (packed_count_from_storage_bytes c bytes = len <-> len * w <= bytes * 8 < (len + 1) * w).
Proof. intros w S P V L compact bytes len c W H. exact (count_iff c bytes len W H). Qed.

(* the smallest byte size holding len elements, (len * w + 7) / 8, gives back len iff its padding bits are fewer than w; always when w >= 8 or the elements end on a byte boundary *)
Theorem packed_bytes_min_size : forall w S P V L compact len,
  let c := (mk_pcfg w S P V L compact) in
  let bytes := (len * w + 7) / 8 in
  1 <= w -> bytes * 8 < 2 ^ 64 ->
  (packed_count_from_storage_bytes c bytes = len <-> bytes * 8 - len * w < w) /\
  (8 <= w \/ (len * w) mod 8 = 0 -> packed_count_from_storage_bytes c bytes = len).
Proof.
  intros w S P V L compact len c bytes W H. split.
  - exact (min_bytes_iff c len W H).
  - exact (min_bytes_ok c len W H).
Qed.

(* every ...Bytes function is its element-count counterpart at (PACKED_LEN_TYPE)CountFromStorageBytes(bytes): same result, same array, same touched slots *)
Theorem packed_bytes_forms_trunc : forall w S P V L compact a bytes,
  let c := (mk_pcfg w S P V L compact) in
  let n := packed_count_from_storage_bytes c bytes mod 2 ^ L in
  (forall v, packed_member_bytes c a bytes v = packed_member c a n v) /\
  (forall v, packed_insert_sorted_bytes c a bytes v = packed_insert_sorted c a n v) /\
  (forall v, packed_delete_member_bytes c a bytes v = packed_delete_member c a n v) /\
  (forall off v, packed_insert_bytes c a bytes off v = packed_insert c a n off v) /\
  (forall off, packed_delete_bytes c a bytes off = packed_delete c a n off).
Proof. intros w S P V L compact a bytes c. exact (bytes_forms_trunc c a bytes). Qed.

(* for a byte size admissible for len elements (len * w <= 8 bytes < (len + 1) * w, len representable in the length type) every ...Bytes function is its counterpart at len *)
Theorem packed_bytes_forms : forall w S P V L compact a bytes len,
  let c := (mk_pcfg w S P V L compact) in
  1 <= w -> bytes * 8 < 2 ^ 64 -> len * w <= bytes * 8 < (len + 1) * w -> len < 2 ^ L ->
  packed_count_from_storage_bytes c bytes = len /\
  (forall v, packed_member_bytes c a bytes v = packed_member c a len v) /\
  (forall v, packed_insert_sorted_bytes c a bytes v = packed_insert_sorted c a len v) /\
  (forall v, packed_delete_member_bytes c a bytes v = packed_delete_member c a len v) /\
  (forall off v, packed_insert_bytes c a bytes off v = packed_insert c a len off v) /\
  (forall off, packed_delete_bytes c a bytes off = packed_delete c a len off).
Proof. intros w S P V L compact a bytes len c W H R HL. exact (bytes_forms_len c a bytes len W H R HL). Qed.

(* what "admissible byte sizes of a history" means, one call at a time *)
Theorem packed_bytes_ok_unfold : forall w xs o rest,
  mspec_bytes_ok w xs (o :: rest) <->
  (match o with
   | MCount _ => True
   | MInsertSortedBytes b _ | MDeleteMemberBytes b _ | MMemberBytes b _ =>
       N.of_nat (length xs) * w <= b * 8 < (N.of_nat (length xs) + 1) * w
   end) /\
  mspec_bytes_ok w (fst (spec_step xs (mop_sop o))) rest.
Proof. intros w xs o rest. destruct o; reflexivity. Qed.

(* every history that mixes element-count and ...Bytes forms (admissible byte sizes) runs exactly as the history of its element-count forms, keeps the array equal to the reference sorted list and returns the reference results; storage beyond the cap elements is never modified and only slots of those elements (all inside the array) are accessed *)
Theorem packed_bytes_sorted_history : forall w S P V L compact,
  1 <= w -> w <= 32 -> (S = 8 \/ S = 16 \/ S = 32 \/ S = 64) -> w <= S + N.gcd w S -> w <= V ->
  (forall p, P = Some p -> S <= p /\ w <= p) ->
  forall cap a len xs ops, let c := (mk_pcfg w S P V L compact) in
  cap < 2147483648 -> cap < 2 ^ L -> Forall (fun s => s < 2 ^ S) a -> cap * w <= S * N.of_nat (length a) -> len <= cap ->
  elems c a len = xs -> StronglySorted N.le xs ->
  Forall (fun o => match mop_sop o with SInsertSorted v => v < 2 ^ w | _ => True end) ops ->
  spec_fits (N.to_nat cap) xs (map mop_sop ops) ->
  mspec_bytes_ok w xs ops ->
  exists a' len' t,
    packed_mrun c (a, len) ops = Some (a', len', snd (spec_run xs (map mop_sop ops)), t) /\
    packed_run c (a, len) (map mop_sop ops) = Some (a', len', snd (spec_run xs (map mop_sop ops)), t) /\
    elems c a' len' = fst (spec_run xs (map mop_sop ops)) /\ StronglySorted N.le (fst (spec_run xs (map mop_sop ops))) /\
    length a' = length a /\ Forall (fun s => s < 2 ^ S) a' /\
    (forall n, cap * w <= n -> N.testbit (slot_at a' (n / S)) (n mod S) = N.testbit (slot_at a (n / S)) (n mod S)) /\
    Forall (fun k => k * S < cap * w /\ k < N.of_nat (length a)) t.
Proof.
  intros w S P V L compact W1 W32 HS SP HV HP. pose proof (admitted_mk w S P V L compact W1 W32 HS SP HV HP) as A. intros cap a len xs ops c H31 HL Hwf Hfit Hlen He Hs Hv Hf Hb.
  destruct (mrun_refines c cap ops A (conj H31 HL) a len xs (conj Hwf (conj Hfit (conj Hlen (conj He Hs)))) Hv Hf Hb)
    as (a' & len' & t & E & E' & (W' & F' & Le' & He' & Hs') & L' & Fr & Tc).
  exists a', len', t. repeat split; auto.
  eapply Forall_impl; [|exact Tc]. intros k Hk. split; [exact Hk|]. exact (within_in_array c a cap k A Hfit Hk).
Qed.

(* SetIncr for ANY increment: the value written is val (the truncated sum, or the truncated difference when the truncated sum is below the operand), cast to the promotion type; element i receives its w low bits; its bits from w upwards are OR-ed into the storage bits that follow element i up to the end fin of the last slot element i occupies; no other storage bit changes; the slots accessed are those of element i *)
Theorem packed_incr_any : forall w S P V L compact,
  1 <= w -> w <= 32 -> (S = 8 \/ S = 16 \/ S = 32 \/ S = 64) -> w <= S + N.gcd w S -> w <= V ->
  (forall p, P = Some p -> S <= p /\ w <= p) ->
  forall a i d, let c := (mk_pcfg w S P V L compact) in
  Forall (fun s => s < 2 ^ S) a -> (i * w + w - 1) / S < N.of_nat (length a) -> i < 4294967296 ->
  let cur := fst (packed_get c a i) in
  let sum := Z.to_N ((Z.of_N cur + d) mod 2 ^ Z.of_N V) in
  let val := if sum <? cur then Z.to_N ((Z.of_N cur - d) mod 2 ^ Z.of_N V) else sum in
  let pval := match P with Some p => val mod 2 ^ p | None => val end in
  let fin := ((i * w + w - 1) / S + 1) * S in
  let a' := fst (packed_set_incr c a i d) in
  fst (packed_get c a' i) = pval mod 2 ^ w /\
  (forall n, N.testbit (slot_at a' (n / S)) (n mod S) =
     if (i * w <=? n) && (n <? i * w + w) then N.testbit pval (n - i * w)
     else if (i * w + w <=? n) && (n <? fin) then N.testbit (slot_at a (n / S)) (n mod S) || N.testbit pval (n - i * w)
     else N.testbit (slot_at a (n / S)) (n mod S)) /\
  (forall j, j < 4294967296 -> j < i \/ fin <= j * w -> fst (packed_get c a' j) = fst (packed_get c a j)) /\
  (forall j b, i < j -> j < 4294967296 ->
     N.testbit (fst (packed_get c a' j)) b =
     N.testbit (fst (packed_get c a j)) b || ((b <? w) && (j * w + b <? fin) && N.testbit pval ((j - i) * w + b))) /\
  (val < 2 ^ w -> fst (packed_get c a' i) = val /\
     forall n, ~ (i * w <= n < i * w + w) -> N.testbit (slot_at a' (n / S)) (n mod S) = N.testbit (slot_at a (n / S)) (n mod S)) /\
  (i * w + w <= fin /\ fin < i * w + w + S) /\ val < 2 ^ V /\
  length a' = length a /\ Forall (fun s => s < 2 ^ S) a' /\
  (forall k, In k (snd (packed_set_incr c a i d)) -> (i * w) / S <= k <= (i * w + w - 1) / S).
Proof.
  intros w S P V L compact W1 W32 HS SP HV HP. pose proof (admitted_mk w S P V L compact W1 W32 HS SP HV HP) as A. intros a i d c Hwf Hin Hi cur sum val pval fin a'.
  split; [exact (incr_gen_same c a i d A Hwf Hin Hi)|].
  split; [intro n; exact (incr_gen_bits c a i d n A Hwf Hin Hi)|].
  split; [intros j Hj Hc; exact (incr_gen_other c a i j d A Hwf Hin Hi Hj Hc)|].
  split; [intros j b Hij Hj; exact (incr_gen_after c a i j d b A Hwf Hin Hij Hj)|].
  split; [intro Hv; exact (incr_gen_clean c a i d A Hwf Hin Hi Hv)|].
  split; [exact (spill_end_bounds c i A)|].
  split; [exact (incr_value_lt c cur d)|].
  split; [exact (incrv_length c a i d A)|].
  split; [exact (incrv_wf c a i d A Hwf)|].
  intros k Hk. exact (incr_touched c a i d k A Hi Hk).
Qed.

(* the value SetIncr writes, case by case (M = 2^V, x the current element): a non-negative increment adds as long as the sum is below 2^V; one that carries past 2^V SUBTRACTS (modulo 2^V); a negative increment whose result is non-negative ADDS its magnitude (modulo 2^V); a negative increment below zero wraps to x + d + 2^V *)
Theorem packed_incr_value_cases : forall w S P V L compact cur d,
  let c := (mk_pcfg w S P V L compact) in
  cur < 2 ^ V ->
  let M := Z.of_N (2 ^ V) in
  let x := Z.of_N cur in
  let sum := Z.to_N ((x + d) mod 2 ^ Z.of_N V) in
  let val := if sum <? cur then Z.to_N ((x - d) mod 2 ^ Z.of_N V) else sum in
  ((0 <= d)%Z -> (x + d < M)%Z -> val = Z.to_N (x + d)) /\
  ((0 <= d < M)%Z -> (M <= x + d)%Z -> val = Z.to_N ((x - d) mod M)) /\
  ((d < 0)%Z -> (0 <= x + d)%Z -> val = Z.to_N ((x - d) mod M)) /\
  ((- M <= d)%Z -> (x + d < 0)%Z -> val = Z.to_N (x + d + M)).
Proof. intros w S P V L compact cur d c Hc. exact (incr_value_cases c cur d Hc). Qed.
