(* RLEDictTheorems.v — the statements used by Properties_C*_rledict.v, assembled
   from RLEProofs.v, DictProofs.v and DictSafety.v. *)
Require Import VV.Base VV.BaseProofs VV.Tagged VV.TaggedSpecProofs VV.RLE VV.RLESpec VV.RLELemmas VV.RLEProofs.
Require Import VV.Dict VV.DictProofs VV.DictSafety.
From Coq Require Import Lia ZifyBool ZifyN ZifyNat Sorted.
Local Open Scope N_scope.
Ltac Zify.zify_post_hook ::= Z.div_mod_to_equations.

Theorem rle_format xs :
  fst (rle_encode xs) = enc_runs (rle_runs xs) /\ expand_runs (rle_runs xs) = xs.
Proof. split; [apply rle_encode_is_spec|apply expand_rle_runs]. Qed.

Theorem dict_values_canonical xs :
  StronglySorted N.lt (dict_values_of xs) /\ (forall x, In x (dict_values_of xs) <-> In x xs) /\
  (forall v, StronglySorted N.lt v -> (forall x, In x v <-> In x xs) -> v = dict_values_of xs).
Proof.
  destruct (dict_values_of_spec xs) as (A & B). split; [exact A|]. split; [exact B|].
  intros v Hv Hin. apply sdist_unique; try assumption. intro x. rewrite Hin, B. reflexivity.
Qed.

Theorem dict_find_correct u v :
  StronglySorted N.lt u -> 1 <= N.of_nat (length u) <= 1048576 ->
  (In v u -> dict_find_arr (dict_arr_of_list u) (N.of_nat (length u)) v = Some (Z.of_nat (dict_find_index u v)) /\
             nth (dict_find_index u v) u 0 = v) /\
  (~ In v u -> dict_find_arr (dict_arr_of_list u) (N.of_nat (length u)) v = Some (-1)%Z).
Proof.
  intros Hs Hl. split.
  - intro Hin. split; [apply dict_find_found; assumption|apply dict_find_index_spec; assumption].
  - intro Hn. apply dict_find_absent; assumption.
Qed.

Theorem dict_with_roundtrip u xs :
  StronglySorted N.lt u -> 1 <= N.of_nat (length u) <= 1048576 ->
  Forall (fun x => x < 18446744073709551616) u -> xs <> [] -> (forall v, In v xs -> In v u) ->
  N.of_nat (length xs) < 18446744073709551616 ->
  dict_encode_with_dict (dict_of u) xs = (dict_bytes_with u xs, true) /\
  (forall tl, dict_decode (dict_bytes_with u xs ++ tl) (N.of_nat (length (dict_bytes_with u xs)))
             = DictOk xs [8 * N.of_nat (length u); mul64 (N.of_nat (length xs)) 8]) /\
  (forall tl cap, N.of_nat (length xs) <= cap ->
     dict_decode_into (dict_bytes_with u xs ++ tl) (N.of_nat (length (dict_bytes_with u xs))) cap
     = DictOk xs [8 * N.of_nat (length u)]).
Proof.
  intros Hs Hl Hu Hne Hin Hc. change (sdist u) in Hs. split; [|split].
  - apply dict_encode_with_dict_is_spec; try assumption; exact Hc.
  - intro tl. apply dict_with_decode_roundtrip; try assumption; try exact Hu; try exact Hc.
  - intros tl cap Hcap. rewrite dict_with_decode_into_roundtrip by (assumption || exact Hu || exact Hc).
    replace (cap <? N.of_nat (length xs)) with false by lia. reflexivity.
Qed.

(* ---- C03 ---- *)
Theorem dict_size_exact_thm xs d :
  dict_build xs = DictBuildOk d -> Forall (fun x => x < 18446744073709551616) xs ->
  8 * N.of_nat (length xs) < 18446744073709551616 ->
  dict_encoded_size xs = N.of_nat (length (fst (dict_encode xs))) /\
  dict_ret (dict_encode xs) = dict_encoded_size xs.
Proof.
  intros Hb Hx Hm. apply (dict_size_exact xs d Hb Hx); [unfold u64_ok; lia|exact Hm].
Qed.

Theorem dict_with_size_exact_thm u xs :
  StronglySorted N.lt u -> 1 <= N.of_nat (length u) <= 1048576 ->
  xs <> [] -> (forall v, In v xs -> In v u) -> 8 * N.of_nat (length xs) < 18446744073709551616 ->
  dict_encoded_size_with_dict (dict_of u) (N.of_nat (length xs))
  = N.of_nat (length (fst (dict_encode_with_dict (dict_of u) xs))).
Proof.
  intros Hs Hl Hne Hin Hm. change (sdist u) in Hs.
  rewrite dict_encode_with_dict_is_spec by (assumption || (unfold u64_ok; lia)). cbn [fst].
  apply dict_with_size_exact; try assumption. unfold u64_ok. lia.
Qed.

(* ---- C13 ---- *)
Theorem rle_decode_prefix xs tl cap :
  Forall (fun x => x < 18446744073709551616) xs -> N.of_nat (length xs) < 18446744073709551616 ->
  cap <= N.of_nat (length xs) ->
  rle_decode (fst (rle_encode xs) ++ tl) cap = RleOk (firstn (N.to_nat cap) xs) /\
  N.of_nat (length (firstn (N.to_nat cap) xs)) = cap.
Proof.
  intros H1 H2 H3. split; [apply rle_decode_roundtrip; assumption|].
  rewrite firstn_length. lia.
Qed.

Theorem dict_into_all_or_nothing xs d :
  dict_build xs = DictBuildOk d -> Forall (fun x => x < 18446744073709551616) xs ->
  N.of_nat (length xs) < 18446744073709551616 ->
  forall tl cap,
  dict_dec_stores (dict_decode_into (fst (dict_encode xs) ++ tl) (N.of_nat (length (fst (dict_encode xs)))) cap)
  = if cap <? N.of_nat (length xs) then [] else xs.
Proof.
  intros Hb Hx Hc tl cap. rewrite (dict_decode_into_roundtrip xs d Hb Hx Hc).
  destruct (cap <? N.of_nat (length xs)); [destruct (cap =? 0); reflexivity|reflexivity].
Qed.

(* varintDictGetStats: the integer fields agree with the dictionary and with
   the size predictor *)
Theorem dict_stats_truth xs d : dict_build xs = DictBuildOk d ->
  exists dictBytes indexBytes,
    dict_get_stats xs = Some (N.of_nat (length (dict_values_of xs)), N.of_nat (length xs),
                              dictBytes, indexBytes, dict_encoded_size xs, mul64 (N.of_nat (length xs)) 8) /\
    dict_encoded_size xs = dictBytes + tagged_len (N.of_nat (length xs)) + indexBytes.
Proof.
  intro Hb. destruct (dict_build_ok xs d Hb) as (Hne & Hd & Hlen).
  unfold dict_get_stats, dict_encoded_size. rewrite Hb, Hd.
  unfold dict_encoded_size_with_dict. cbn [dct_size dct_values dct_index_width].
  replace (N.of_nat (length xs) =? 0) with false by (destruct xs; [congruence|cbn [length]; lia]).
  eexists. eexists. split; reflexivity.
Qed.
