(* ChainedSrcProps.v — C01 and C04 for varintChained restated about the
   REGENERATED functions and macros (coq/gen/Src_chained.v), by rewriting with
   the src_*_is_model lemmas in the theorems about the model. *)
Require Import VV.Base VV.BaseProofs VV.Tagged VV.TaggedProofs VV.TaggedFixed VV.Chained VV.ChainedSpec
  VV.ChainedPutProofs VV.ChainedRtProofs VV.CSem VV.CSemProofs VV.CsimpleSrcProofs VV.CsimpleSrcProps VV.ChainedSrcProofs.
Require Import VVgen.Src_chained.
From Coq Require Import Lia ZifyBool ZifyN ZifyNat.
Local Open Scope Z_scope.

Lemma bytes_ok_chained_put x : (x < 18446744073709551616)%N -> bytes_ok (chained_put x).
Proof. intro H. rewrite chained_put_is_spec by exact H. apply bytes_ok_chained_spec. Qed.

(* what src_varintChainedPutVarint returns, with the written prefix and the frame made explicit *)
Lemma src_chained_put_ok fuel buf x : (9 <= fuel)%nat -> 0 <= x < 18446744073709551616 -> (9 <= length buf)%nat ->
  exists w out, src_varintChainedPutVarint fuel buf x = COk (w, out) /\
    w = Z.of_N (chained_len (Z.to_N x)) /\ 1 <= w <= 9 /\
    firstn (Z.to_nat w) out = chained_put (Z.to_N x) /\
    skipn (Z.to_nat w) out = skipn (Z.to_nat w) buf /\ length out = length buf.
Proof.
  intros Hf Hx Hb. assert (X : (Z.to_N x < 18446744073709551616)%N) by lia.
  pose proof (chained_len_range _ X) as Hr. pose proof (chained_put_length _ X) as Hp.
  exists (Z.of_N (chained_len (Z.to_N x))), (store buf 0 (chained_put (Z.to_N x))).
  split; [apply src_varintChainedPutVarint_is_model; lia|]. split; [reflexivity|]. split; [lia|].
  replace (Z.to_nat (Z.of_N (chained_len (Z.to_N x)))) with (length (chained_put (Z.to_N x))) by lia.
  split; [apply firstn_store0; lia|]. split; [apply store_0_skipn; lia|apply store_0_length; lia].
Qed.

Lemma src_chained_roundtrip fuel x buf tl r :
  (10 <= fuel)%nat -> 0 <= x < 18446744073709551616 -> (9 <= length buf)%nat -> bytes_ok tl ->
  exists w out,
    src_varintChainedPutVarint fuel buf x = COk (w, out) /\ 1 <= w <= 9 /\
    src_varintChainedVarintLen fuel x = COk w /\
    skipn (Z.to_nat w) out = skipn (Z.to_nat w) buf /\ length out = length buf /\
    src_varintChainedGetVarint (firstn (Z.to_nat w) out ++ tl) r = COk (w, Some x).
Proof.
  intros Hf Hx Hb Htl. assert (X : (Z.to_N x < 18446744073709551616)%N) by lia.
  destruct (src_chained_put_ok fuel buf x ltac:(lia) Hx Hb) as (w & out & E & W & R & F & S & L).
  exists w, out. split; [exact E|]. split; [exact R|].
  split; [rewrite W; apply src_varintChainedVarintLen_is_model; lia|]. split; [exact S|]. split; [exact L|].
  rewrite F. pose proof (chained_put_length _ X) as Hp.
  rewrite src_varintChainedGetVarint_is_model.
  - rewrite chained_roundtrip by exact X. cbn [fst snd]. rewrite W, Z2N.id by lia. reflexivity.
  - apply bytes_ok_app; [apply bytes_ok_chained_put; exact X|exact Htl].
  - rewrite chained_roundtrip by exact X. cbn [fst]. rewrite app_length. lia.
Qed.

Lemma src_chained32_roundtrip fuel x buf tl r :
  (10 <= fuel)%nat -> 0 <= x <= 4294967295 -> (9 <= length buf)%nat -> bytes_ok tl ->
  exists w out,
    src_q_varintChained_putVarint32 fuel buf x = COk (w, out) /\
    src_varintChainedPutVarint fuel buf x = COk (w, out) /\
    src_q_varintChained_getVarint32 (firstn (Z.to_nat w) out ++ tl) r = COk (w, Some x).
Proof.
  intros Hf Hx Hb Htl. assert (X : (Z.to_N x < 18446744073709551616)%N) by lia.
  assert (X32 : (Z.to_N x < 4294967296)%N) by lia.
  destruct (src_chained_put_ok fuel buf x ltac:(lia) ltac:(lia) Hb) as (w & out & E & W & R & F & S & L).
  pose proof (chained_put_length _ X) as Hp.
  assert (P32 : chained_put32 (Z.to_N x) = chained_put (Z.to_N x)) by (apply chained_put32_eq; exact X32).
  exists w, out. split.
  { rewrite src_q_varintChained_putVarint32_is_model by (rewrite ?P32; lia). rewrite P32.
    pose proof E as E'. rewrite src_varintChainedPutVarint_is_model in E' by lia. injection E' as E1 E2.
    apply cok_pair_eq; [lia|exact E2]. }
  split; [exact E|]. rewrite F.
  assert (OK : bytes_ok (chained_put (Z.to_N x) ++ tl)) by (apply bytes_ok_app; [apply bytes_ok_chained_put; exact X|exact Htl]).
  rewrite src_q_varintChained_getVarint32_is_model; [|exact OK|].
  - rewrite <- P32. rewrite chained32_roundtrip by exact X32. cbn [fst snd]. rewrite W, Z2N.id by lia. reflexivity.
  - rewrite chained_roundtrip by exact X. cbn [fst]. rewrite app_length. lia.
Qed.

(* C04: the bytes written are those of the independent specification *)
Lemma src_chained_put_is_spec fuel buf x : (9 <= fuel)%nat -> 0 <= x < 18446744073709551616 -> (9 <= length buf)%nat ->
  exists w out, src_varintChainedPutVarint fuel buf x = COk (w, out) /\
    firstn (Z.to_nat w) out = chained_spec (Z.to_N x) /\
    skipn (Z.to_nat w) out = skipn (Z.to_nat w) buf.
Proof.
  intros Hf Hx Hb. destruct (src_chained_put_ok fuel buf x Hf Hx Hb) as (w & out & E & W & R & F & S & L).
  exists w, out. split; [exact E|]. split; [|exact S]. rewrite F. apply chained_put_is_spec. lia.
Qed.
