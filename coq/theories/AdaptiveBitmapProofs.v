(* AdaptiveBitmapProofs.v — the BITMAP container of varintAdaptive: the set
   built by Create + Add of every value, its serialisation read back with an
   input length that only bounds the encoding from above (adaptive passes a
   fixed 1 MiB), and its size.  Uses the bitmap module's invariant and the
   specification of Add (BitmapProofs.v); the decode-after-encode facts needed
   here (array and bitmap containers, which is all Add ever produces) are proved
   locally. *)
Require Import VV.Base VV.BaseProofs VV.Bitmap VV.BitmapLemmas VV.BitmapProofsBits VV.BitmapProofsArr VV.BitmapProofs.
Require Import VV.PFOR VV.PFORLemmas VV.Adaptive VV.AdaptiveLemmas.
From Coq Require Import Lia ZifyBool ZifyN ZifyNat Sorted.
Local Open Scope N_scope.
Ltac Zify.zify_post_hook ::= Z.div_mod_to_equations.

(* ---------- the set built by EncodeWith(BITMAP) ---------- *)
Definition adp_not_runs (s : bm_state) : Prop :=
  match bm_c s with BmRuns _ _ => False | _ => True end.

Lemma bm_add_not_runs s v : adp_not_runs s -> adp_not_runs (fst (bm_add s v)).
Proof.
  unfold adp_not_runs, bm_add. destruct (bm_c s) as [R cap|m|runs cap]; [| |contradiction]; intros _.
  - unfold bm_add_array. cbv zeta.
    destruct (0 <=? bm_binary_search R (bm_card s) v)%Z; [exact I|].
    destruct (4096 <=? bm_card s); exact I.
  - unfold bm_add_bits. cbv zeta. destruct (snd (bm_bits_set m v)); exact I.
Qed.

Lemma u16_small v : v < 65536 -> u16 v = v.
Proof. intro H. unfold u16. apply N.mod_small. exact H. Qed.

Lemma adp_bitmap_fold xs : forall s, bm_Inv s -> adp_not_runs s -> Forall (fun v => v < 65536) xs ->
  let r := fold_left (fun vb v => if v <? 65536 then fst (bm_add vb (u16 v)) else vb) xs s in
  bm_Inv r /\ adp_not_runs r /\ (forall x, In x (bm_abs r) <-> In x xs \/ In x (bm_abs s)).
Proof.
  induction xs as [|v t IH]; intros s Hs Hn HF; cbv zeta.
  - cbn [fold_left]. split; [exact Hs|]. split; [exact Hn|]. intro x. cbn [In]. tauto.
  - assert (Hv : v < 65536) by (inversion HF; assumption).
    assert (Ht : Forall (fun v => v < 65536) t) by (inversion HF; assumption).
    cbn [fold_left]. replace (v <? 65536) with true by lia. rewrite u16_small by exact Hv.
    destruct (add_spec s v Hs Hv) as (I1 & M1 & _).
    destruct (IH (fst (bm_add s v)) I1 (bm_add_not_runs s v Hn) Ht) as (I2 & N2 & M2).
    split; [exact I2|]. split; [exact N2|]. intro x. rewrite M2, M1. cbn [In]. intuition congruence.
Qed.

Lemma adp_bitmap_of_spec xs : Forall (fun v => v < 65536) xs ->
  bm_Inv (adp_bitmap_of xs) /\ adp_not_runs (adp_bitmap_of xs) /\
  (forall x, In x (bm_to_array (adp_bitmap_of xs)) <-> In x xs).
Proof.
  intro HF. destruct (adp_bitmap_fold xs bm_create inv_create I HF) as (A & B & C).
  split; [exact A|]. split; [exact B|]. intro x. unfold adp_bitmap_of.
  change (bm_to_array ?s) with (bm_abs s). rewrite C. rewrite abs_create. cbn [In]. tauto.
Qed.

(* strictly increasing input: the set lists exactly the input *)
Lemma adp_bitmap_of_sorted xs : StronglySorted N.lt xs -> Forall (fun v => v < 65536) xs ->
  bm_to_array (adp_bitmap_of xs) = xs.
Proof.
  intros S HF. destruct (adp_bitmap_of_spec xs HF) as (A & _ & C).
  apply sorted_ext; [apply (inv_sorted _ A)|exact S|exact C].
Qed.

(* ---------- reading back: helpers ---------- *)
Lemma bm_rd_app pre mid post : bm_rd (pre ++ mid ++ post) (bm_lenN pre) (bm_lenN mid) = mid.
Proof.
  unfold bm_rd. cbv zeta. rewrite skipnN_spec, firstnN_spec. unfold bm_lenN. rewrite !Nat2N.id.
  rewrite skipn_app. rewrite skipn_all, Nat.sub_diag. cbn [skipn app].
  rewrite firstn_app, firstn_all, Nat.sub_diag. cbn [firstn]. rewrite app_nil_r.
  rewrite N.sub_diag. rewrite replN_spec. cbn. apply app_nil_r.
Qed.

Lemma bm_rd_app' pre mid post off cnt : off = bm_lenN pre -> cnt = bm_lenN mid ->
  bm_rd (pre ++ mid ++ post) off cnt = mid.
Proof. intros -> ->. apply bm_rd_app. Qed.

Lemma dec_enc_u16s vals : Forall (fun v => v < 65536) vals -> bm_dec_u16s (bm_enc_u16s vals) = vals.
Proof.
  induction 1 as [|v t Hv _ IH]; [reflexivity|].
  unfold bm_enc_u16s in *. cbn [flat_map].
  change (le_bytes 2 v) with [v mod 256; (v / 256) mod 256]. cbn [app bm_dec_u16s]. rewrite IH. f_equal. lia.
Qed.

Lemma enc_u16s_len vals : bm_lenN (bm_enc_u16s vals) = 2 * bm_lenN vals.
Proof.
  unfold bm_lenN. induction vals as [|v t IH]; [reflexivity|].
  unfold bm_enc_u16s in *. cbn [flat_map length]. rewrite app_length, length_le_bytes. lia.
Qed.

Lemma ascending_sorted vals : sorted vals -> bm_ascending vals = true.
Proof.
  induction 1 as [|a l S IH F]; [reflexivity|].
  destruct l as [|b t]; [reflexivity|].
  change (bm_ascending (a :: b :: t)) with ((a <? b) && bm_ascending (b :: t)). rewrite IH.
  inversion F; subst. replace (a <? b) with true by lia. reflexivity.
Qed.

Lemma of_le_4 c : c < 4294967296 -> of_le (le_bytes 4 c) = c.
Proof. intro H. rewrite of_le_le_bytes. change (256 ^ N.of_nat 4) with 4294967296. apply N.mod_small. exact H. Qed.

Lemma flat_map_ext_in' {A B} (f g : A -> list B) l : (forall a, In a l -> f a = g a) -> flat_map f l = flat_map g l.
Proof.
  induction l as [|a t IH]; intro H; [reflexivity|]. cbn [flat_map].
  rewrite (H a (or_introl eq_refl)), IH; [reflexivity|]. intros b Hb. apply H. right. exact Hb.
Qed.

(* the bytes 0..8191 of a bitmap container determine its members and their number *)
Lemma mget_of_dump bits i : i < 8192 ->
  bm_mget (bm_mem_of_bytes (map (bm_mget bits) bm_byte_idx)) i = bm_mget bits i.
Proof.
  intro Hi. rewrite mget_mem_of_bytes. rewrite byte_idx_spec.
  rewrite (nth_indep _ 0 (bm_mget bits 0)).
  2:{ rewrite map_length, nseq_length. lia. }
  rewrite (map_nth (bm_mget bits) (nseq 0 (N.to_nat 8192)) 0). f_equal.
  assert (G : forall n lo k, (k < n)%nat -> nth k (nseq lo n) 0 = lo + N.of_nat k).
  { induction n as [|n IHn]; intros lo k Hk; [lia|]. cbn [nseq]. destruct k as [|k]; [cbn [nth]; lia|].
    cbn [nth]. rewrite IHn by lia. lia. }
  rewrite G by lia. lia.
Qed.

Lemma bits_values_dump bits :
  bm_bits_values (bm_mem_of_bytes (map (bm_mget bits) bm_byte_idx)) = bm_bits_values bits.
Proof.
  rewrite !bits_values_alt. apply flat_map_ext_in'. intros j Hj. pose proof (proj1 (in_byte_idx j) Hj) as Hj'. clear Hj.
  unfold byte_list. rewrite mget_of_dump by exact Hj'. reflexivity.
Qed.

Lemma popsum_dump bits : popsum (bm_mem_of_bytes (map (bm_mget bits) bm_byte_idx)) = popsum bits.
Proof.
  unfold popsum. apply (f_equal sumN). apply map_ext_in. intros j Hj. pose proof (proj1 (in_byte_idx j) Hj) as Hj'. clear Hj.
  rewrite mget_of_dump by exact Hj'. reflexivity.
Qed.

(* ---------- varintBitmapDecode(varintBitmapEncode(s) ++ tl, len), len >= the encoding ---------- *)
Theorem adp_bm_decode_encode s tl len : bm_Inv s -> adp_not_runs s ->
  bm_lenN (bm_encode s) <= len ->
  exists s', fst (bm_decode (bm_encode s ++ tl) len) = Some s' /\ bm_to_array s' = bm_to_array s.
Proof.
  intros Hs Hn Hlen. pose proof (inv_card_le s Hs) as Hc.
  unfold bm_Inv in Hs. unfold adp_not_runs in Hn. unfold bm_encode, bm_type in *.
  destruct s as [card c]. cbn [bm_card bm_c] in *.
  destruct c as [R cap|bits|runs cap]; [| |contradiction].
  - (* array container *)
    destruct Hs as (Hcard & Hsort & Hb & Hcap).
    rewrite arr_values_rev in *. set (vals := rev R) in *.
    assert (Hv : Forall (fun v => v < 65536) vals).
    { apply Forall_forall. intros x Hx. apply Hb. apply in_rev. exact Hx. }
    assert (Hl : bm_lenN vals = card) by (subst vals; rewrite lenN_rev; lia).
    unfold BM_ARRAY in *.
    assert (Elen : bm_lenN ([0] ++ le_bytes 4 card ++ bm_enc_u16s vals) = 5 + 2 * card).
    { rewrite !lenN_app, enc_u16s_len. unfold bm_lenN at 1 2. rewrite length_le_bytes. cbn [length]. lia. }
    rewrite Elen in Hlen.
    unfold bm_decode. cbv zeta.
    replace (len <? 5) with false by lia.
    rewrite nthN_spec. cbn [app N.to_nat nth].
    change (0 :: (le_bytes 4 card ++ bm_enc_u16s vals) ++ tl)
      with ([0] ++ (le_bytes 4 card ++ bm_enc_u16s vals) ++ tl).
    rewrite <- (app_assoc (le_bytes 4 card)).
    rewrite (bm_rd_app' [0] (le_bytes 4 card) (bm_enc_u16s vals ++ tl) 1 4)
      by (unfold bm_lenN; rewrite ?length_le_bytes; reflexivity).
    rewrite of_le_4 by lia.
    replace (65536 <? card) with false by lia. cbn [N.ltb N.compare orb N.eqb].
    replace ((len - 5) / 2 <? card) with false.
    2:{ symmetry. apply N.ltb_ge. apply N.div_le_lower_bound; lia. }
    rewrite (app_assoc [0] (le_bytes 4 card)).
    rewrite (bm_rd_app' ([0] ++ le_bytes 4 card) (bm_enc_u16s vals) tl 5 (card * 2)).
    2:{ unfold bm_lenN. rewrite app_length, length_le_bytes. reflexivity. }
    2:{ rewrite enc_u16s_len. lia. }
    rewrite dec_enc_u16s by exact Hv.
    rewrite ascending_sorted by exact Hsort.
    eexists. split; [reflexivity|].
    unfold bm_to_array, bm_iter_all. cbn [bm_c]. rewrite !arr_values_rev.
    rewrite rev_involutive. reflexivity.
  - (* bitmap container *)
    destruct Hs as (Hbytes & Hcard).
    unfold BM_BITMAP in *.
    set (dump := map (bm_mget bits) bm_byte_idx) in *.
    assert (Hd : bm_lenN dump = 8192).
    { subst dump. unfold bm_lenN. rewrite map_length. apply lenN_byte_idx. }
    assert (Elen : bm_lenN ([1] ++ le_bytes 4 card ++ dump) = 5 + 8192).
    { rewrite !lenN_app, Hd. unfold bm_lenN. rewrite length_le_bytes. cbn [length]. lia. }
    rewrite Elen in Hlen.
    unfold bm_decode. cbv zeta.
    replace (len <? 5) with false by lia.
    rewrite nthN_spec. cbn [app N.to_nat nth].
    change (1 :: (le_bytes 4 card ++ dump) ++ tl) with ([1] ++ (le_bytes 4 card ++ dump) ++ tl).
    rewrite <- (app_assoc (le_bytes 4 card)).
    rewrite (bm_rd_app' [1] (le_bytes 4 card) (dump ++ tl) 1 4)
      by (unfold bm_lenN; rewrite ?length_le_bytes; reflexivity).
    rewrite of_le_4 by lia.
    replace (65536 <? card) with false by lia. cbn [N.ltb N.compare orb N.eqb].
    replace (len - 5 <? 8192) with false by lia.
    rewrite (app_assoc [1] (le_bytes 4 card)).
    rewrite (bm_rd_app' ([1] ++ le_bytes 4 card) dump tl 5 8192).
    2:{ unfold bm_lenN. rewrite app_length, length_le_bytes. reflexivity. }
    2:{ symmetry. exact Hd. }
    rewrite bitmap_cardinality_spec. subst dump. rewrite popsum_dump.
    replace (popsum bits =? card) with true by lia.
    eexists. split; [reflexivity|].
    unfold bm_to_array, bm_iter_all. cbn [bm_c]. apply bits_values_dump.
Qed.

(* the encoding is 5 + 2 per member, or 5 + 8192 once there are more than 4096 *)
Lemma adp_bm_encode_len s : bm_Inv s -> adp_not_runs s ->
  bm_lenN (bm_encode s) = 5 + 2 * bm_card s \/ bm_lenN (bm_encode s) = 5 + 8192.
Proof.
  intros Hs Hn. unfold bm_Inv in Hs. unfold adp_not_runs in Hn. unfold bm_encode.
  destruct s as [card c]. cbn [bm_card bm_c] in *.
  destruct c as [R cap|bits|runs cap]; [| |contradiction].
  - left. destruct Hs as (Hcard & _). rewrite !lenN_app, enc_u16s_len, arr_values_rev, lenN_rev.
    unfold bm_lenN at 1 2. rewrite length_le_bytes. cbn [length]. lia.
  - right. rewrite !lenN_app. unfold bm_lenN. rewrite map_length, length_le_bytes.
    pose proof lenN_byte_idx as L. unfold bm_lenN in L. cbn [length]. lia.
Qed.

(* ---------- EncodeWith(BITMAP) on ANY array: members, container kind, cardinality ---------- *)
Definition adp_bits_big (s : bm_state) : Prop :=
  match bm_c s with BmBits _ => 4096 < bm_card s | _ => True end.

Lemma bm_u32_small x : x < 4294967296 -> bm_u32 x = x.
Proof. intro H. unfold bm_u32. replace (x <? 4294967296) with true by lia. reflexivity. Qed.

Lemma bm_add_bits_big s v : bm_Inv s -> adp_not_runs s -> adp_bits_big s -> adp_bits_big (fst (bm_add s v)).
Proof.
  intros Hs Hn Hb. pose proof (inv_card_le s Hs) as Hc.
  unfold adp_bits_big, adp_not_runs, bm_add in *.
  destruct (bm_c s) as [R cap|m|runs cap]; [| |contradiction].
  - unfold bm_add_array. cbv zeta.
    destruct (0 <=? bm_binary_search R (bm_card s) v)%Z; [exact I|].
    destruct (4096 <=? bm_card s) eqn:E; [|exact I].
    cbn [fst bm_c bm_card]. rewrite bm_u32_small by lia. lia.
  - unfold bm_add_bits. cbv zeta. destruct (snd (bm_bits_set m v)); cbn [fst bm_c bm_card]; [|exact Hb].
    rewrite bm_u32_small by lia. lia.
Qed.

Lemma adp_bitmap_fold_any xs : forall s, bm_Inv s -> adp_not_runs s -> adp_bits_big s ->
  let r := fold_left (fun vb v => if v <? 65536 then fst (bm_add vb (u16 v)) else vb) xs s in
  bm_Inv r /\ adp_not_runs r /\ adp_bits_big r /\
  (forall x, In x (bm_abs r) -> In x xs \/ In x (bm_abs s)).
Proof.
  induction xs as [|v t IH]; intros s Hs Hn Hb; cbv zeta.
  - cbn [fold_left]. repeat split; try assumption. intros x Hx. right. exact Hx.
  - cbn [fold_left]. destruct (v <? 65536) eqn:E.
    + assert (Hv : v < 65536) by lia. rewrite u16_small by exact Hv.
      destruct (add_spec s v Hs Hv) as (I1 & M1 & _).
      destruct (IH (fst (bm_add s v)) I1 (bm_add_not_runs s v Hn) (bm_add_bits_big s v Hs Hn Hb)) as (I2 & N2 & B2 & M2).
      repeat split; try assumption. intros x Hx. destruct (M2 x Hx) as [A|A].
      * left. right. exact A.
      * destruct (proj1 (M1 x) A) as [->|A']; [left; left; reflexivity|right; exact A'].
    + destruct (IH s Hs Hn Hb) as (I2 & N2 & B2 & M2).
      repeat split; try assumption. intros x Hx. destruct (M2 x Hx) as [A|A]; [left; right; exact A|right; exact A].
Qed.

Lemma adp_bitmap_of_any xs :
  bm_Inv (adp_bitmap_of xs) /\ adp_not_runs (adp_bitmap_of xs) /\ adp_bits_big (adp_bitmap_of xs) /\
  bm_card (adp_bitmap_of xs) <= N.of_nat (length xs).
Proof.
  destruct (adp_bitmap_fold_any xs bm_create inv_create I I) as (A & B & C & D).
  fold (adp_bitmap_of xs) in *. repeat split; try assumption.
  rewrite (inv_card _ A). unfold bm_lenN.
  assert (L : (length (bm_abs (adp_bitmap_of xs)) <= length xs)%nat).
  { apply NoDup_incl_length; [apply sorted_NoDup; apply (inv_sorted _ A)|].
    intros x Hx. destruct (D x Hx) as [H|H]; [exact H|]. rewrite abs_create in H. destruct H. }
  lia.
Qed.

(* 1 + the encoding <= 21 + 22 count *)
Lemma adp_bitmap_len xs :
  N.of_nat (length (bm_encode (adp_bitmap_of xs))) + 1 <= 21 + 22 * N.of_nat (length xs) /\
  N.of_nat (length (bm_encode (adp_bitmap_of xs))) <= 131077.
Proof.
  destruct (adp_bitmap_of_any xs) as (A & B & C & D).
  pose proof (inv_card_le _ A) as Hc.
  destruct (adp_bm_encode_len _ A B) as [E|E]; unfold bm_lenN in E; rewrite E; [lia|].
  unfold adp_bits_big in C. unfold bm_encode in E.
  destruct (adp_bitmap_of xs) as [card c]. cbn [bm_c bm_card] in *.
  destruct c as [R cap|bits|runs cap].
  - destruct A as (Hcard & _).
    rewrite !app_length, arr_values_rev in E. pose proof (enc_u16s_len (rev R)) as L. unfold bm_lenN in L.
    rewrite rev_length in L. rewrite length_le_bytes in E. cbn [length] in E. unfold bm_lenN in Hcard. cbn [bm_card] in Hcard. lia.
  - lia.
  - contradiction.
Qed.

(* ---------- the BITMAP case of EncodeWith / Decode ---------- *)
Lemma adp_encode_with_bitmap xs :
  adp_encode_with xs 4
  = AEOk (4 :: bm_encode (adp_bitmap_of xs))
         (mk_adp_meta 4 (N.of_nat (length xs)) (u64 (N.of_nat (length (bm_encode (adp_bitmap_of xs))) + 1)) None None).
Proof. unfold adp_encode_with. cbv zeta. rewrite !adp_len_spec. reflexivity. Qed.

Lemma adp_decode_bitmap xs tl cap : StronglySorted N.lt xs -> Forall (fun v => v < 65536) xs ->
  adp_decode ((4 :: bm_encode (adp_bitmap_of xs)) ++ tl) cap
  = ADOk (N.min (N.of_nat (length xs)) cap) (firstn (N.to_nat (N.min (N.of_nat (length xs)) cap)) xs) None.
Proof.
  intros S HF. destruct (adp_bitmap_of_spec xs HF) as (A & B & _).
  destruct (adp_bitmap_len xs) as (_ & L).
  destruct (adp_bm_decode_encode (adp_bitmap_of xs) tl 1048576 A B) as (s' & E & T).
  { unfold bm_lenN. lia. }
  unfold adp_decode. cbn [app]. rewrite E. rewrite T, (adp_bitmap_of_sorted xs S HF).
  rewrite adp_len_spec. rewrite PFORLemmas.takeNp_firstn.
  destruct (N.of_nat (length xs) <? cap) eqn:C.
  - rewrite N.min_l by lia. reflexivity.
  - rewrite N.min_r by lia. reflexivity.
Qed.
