(* Extract.v — extraction of the executable models to OCaml (run from
   coq/extract; writes model.ml / model.mli there).  Only ExtrOcamlBasic:
   bool, option, list, prod, unit, sumbool map to OCaml's own types; N, Z,
   positive and nat stay the Coq inductive datatypes. *)
Require Import VV.Base VV.Tagged VV.TaggedSpec.
Require Import ExtrOcamlBasic.
Extraction Language OCaml.
Set Extraction Optimize.
Extraction "model.ml"
  lex
  tagged_put64 tagged_put64_fixed tagged_put64_fixed_quick tagged_len tagged_len_quick
  tagged_getlen tagged_get tagged_get64 tagged_get64_return_value tagged_get32 tagged_put32
  tagged_get64_quick tagged_add tagged_spec tagged_denote.
