(* Properties_C03_bp128.v — varintBP128 contribution to C03 (encoders never write
   more than their advertised size).  An encoder's model returns exactly the
   bytes it writes, in order, starting at dst: their number is both the return
   value and the extent of the destination that is touched.  max_bytes is
   varintBP128MaxBytes after the fix of F06 (9 bytes for the leading tagged
   varint were missing). *)
Require Import VV.Base VV.Tagged VV.BP128 VV.BP128Proofs32 VV.BP128ProofsD32 VV.BP128Proofs64 VV.BP128ProofsD64.
Local Open Scope N_scope.

Theorem C03_bp128_encode32_bound : forall vs,
  Forall (fun v => v < 2 ^ 32) vs ->
  N.of_nat (length (encode32 vs)) <= max_bytes (N.of_nat (length vs)).
Proof. exact encode32_bound. Qed.
Print Assumptions C03_bp128_encode32_bound.

Theorem C03_bp128_delta_encode32_bound : forall vs,
  Forall (fun v => v < 2 ^ 32) vs ->
  N.of_nat (length (delta_encode32 vs)) <= max_bytes (N.of_nat (length vs)).
Proof. exact delta_encode32_bound. Qed.
Print Assumptions C03_bp128_delta_encode32_bound.

Theorem C03_bp128_encode64_bound : forall vs,
  Forall (fun v => v < 2 ^ 64) vs ->
  N.of_nat (length (encode64 vs)) <= max_bytes (N.of_nat (length vs)).
Proof. exact encode64_bound. Qed.
Print Assumptions C03_bp128_encode64_bound.

Theorem C03_bp128_delta_encode64_bound : forall vs,
  Forall (fun v => v < 2 ^ 64) vs ->
  N.of_nat (length (delta_encode64 vs)) <= max_bytes (N.of_nat (length vs)).
Proof. exact delta_encode64_bound. Qed.
Print Assumptions C03_bp128_delta_encode64_bound.

(* one block: 513 <= VARINT_BP128_MAX_BLOCK_BYTES = 1025 *)
Theorem C03_bp128_encode_block32_bound : forall vs,
  length vs = 128%nat -> Forall (fun v => v < 2 ^ 32) vs ->
  N.of_nat (length (encode_block32 vs)) <= 513.
Proof. exact encode_block32_bound. Qed.
Print Assumptions C03_bp128_encode_block32_bound.

(* the bound in closed form, and the worst cases that the unfixed bound (without the 9) missed *)
Example C03_bp128_example :
  max_bytes 1 = 19 /\ max_bytes 128 = 1034 /\ max_bytes 129 = 1044 /\
  length (encode64 [18446744073709551615]) = 11%nat /\
  length (delta_encode64 [72057594037927936; 9295429630892703744]) = 19%nat /\
  max_bytes 2 = 27.
Proof. vm_compute. repeat split; reflexivity. Qed.
