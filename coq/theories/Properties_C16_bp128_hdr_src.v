(* Properties_C16_bp128_hdr_src.v — property C16 (header accessors tell the truth), BP128:
   stated about src_varintBP128GetCount, the Gallina rendering that gen/c2coq.py regenerates
   from the CURRENT src/varintBP128.c on every run (coq/gen/Src_hdr_bp128.v through
   gen/c2coq_hdr.py; it calls src_varintTaggedGet64 of coq/gen/Src_tagged.v; meaning of the
   c_* operations: CSem.v).  C integer values are Z; the `const uint8_t *` argument is the
   byte list of the object it points to; `COk v` = the C abstract machine yields v without
   undefined behaviour and without an access outside that object.  srcBytes is ignored by
   the C, hence universally quantified.  [encode64] is the hand model of varintBP128Encode64
   (BP128.v), tied to the C by differential execution.
   Nothing but statements closed by `exact`. *)
Require Import VV.Base VV.CSem VV.Tagged VV.BP128 VV.HdrSrcBP128.
Require Import VVgen.Src_hdr_bp128.
Local Open Scope Z_scope.

(* the regenerated accessor computes the hand model on every buffer that holds the leading tagged varint
   (tagged_getlen z bytes, 1..9, decoded from the first byte) *)
Theorem C16_src_varintBP128GetCount_is_model : forall z srcBytes, bytes_ok z ->
  Z.of_N (tagged_getlen z) <= Z.of_nat (length z) ->
  src_varintBP128GetCount z srcBytes = COk (Z.of_N (get_count z)).
Proof. exact src_varintBP128GetCount_is_model. Qed.
Print Assumptions C16_src_varintBP128GetCount_is_model.

(* C16 get_count: on the bytes varintBP128Encode64 produced, followed by any bytes, it is the number of values *)
Theorem C16_src_bp128_get_count : forall vs tl srcBytes,
  vs <> [] -> (N.of_nat (length vs) < 2 ^ 64)%N -> bytes_ok tl ->
  src_varintBP128GetCount (encode64 vs ++ tl) srcBytes = COk (Z.of_nat (length vs)).
Proof. exact src_bp128_get_count_encode64. Qed.
Print Assumptions C16_src_bp128_get_count.

(* non-vacuity: counts on both sides of the tagged length boundaries 240/241 and 2287/2288 *)
Example C16_src_bp128_hdr_example :
  src_varintBP128GetCount (encode64 [7; 8; 9]%N) 0 = COk 3 /\
  src_varintBP128GetCount [240; 1]%N 2 = COk 240 /\ src_varintBP128GetCount [241; 0; 9]%N 3 = COk 240 /\
  src_varintBP128GetCount [248; 255]%N 2 = COk 2287 /\ src_varintBP128GetCount [249; 0; 0]%N 3 = COk 2288 /\
  src_varintBP128GetCount [249; 0]%N 2 = COob.
Proof. vm_compute. repeat split; reflexivity. Qed.
