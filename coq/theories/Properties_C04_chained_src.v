(* Properties_C04_chained_src.v — C04 for varintChained, stated about the encoder
   regenerated from the current src/varintChained.c (coq/gen/Src_chained.v). *)
Require Import VV.Base VV.ChainedSpec VV.CSem VV.ChainedSrcProps.
Require Import VVgen.Src_chained.
Local Open Scope Z_scope.

(* the bytes written are those of the independent specification (ChainedSpec.v:
   big-endian base-128 digits, continuation bit on all but the last byte, a
   ninth byte with 8 full bits), and nothing beyond them is modified *)
Theorem C04_src_chained_put_is_spec : forall fuel buf x,
  (9 <= fuel)%nat -> 0 <= x < 18446744073709551616 -> (9 <= length buf)%nat ->
  exists w out, src_varintChainedPutVarint fuel buf x = COk (w, out) /\
    firstn (Z.to_nat w) out =
      (let x := Z.to_N x in
       if x <? 72057594037927936
       then be128 (chained_spec_len x - 1) (x / 128) ++ [x mod 128]
       else be128 8 (x / 256) ++ [x mod 256])%N /\
    skipn (Z.to_nat w) out = skipn (Z.to_nat w) buf.
Proof. exact src_chained_put_is_spec. Qed.
Print Assumptions C04_src_chained_put_is_spec.

Example C04_src_chained_example :
  src_varintChainedPutVarint 9 [9; 9; 9; 9; 9; 9; 9; 9; 9]%N 2097152 = COk (4, [129; 128; 128; 0; 9; 9; 9; 9; 9]%N).
Proof. vm_compute. reflexivity. Qed.
