(* SplitFullSpecProofs.v — the SplitFull / SplitFullNoZero encoders equal the
   table-driven specification; per-length maxima (against the regenerated
   header constants), monotone lengths. *)
Require Import VV.Base VV.BaseProofs VV.SplitFull VV.SplitFullSpec VV.SplitFullLemmas
               VV.SplitFullProofs VV.SplitFullNZProofs.
Require Import VVgen.Consts.
From Coq Require Import Lia ZifyBool ZifyN ZifyNat Arith.
Local Open Scope N_scope.
Ltac Zify.zify_post_hook ::= Z.div_mod_to_equations.

(* evaluate one step of sftbl_find on a literal table: the row's used flag,
   base and maximum are computed, the range test is decided by lia from the
   hypotheses about x *)
Ltac find_step :=
  match goal with
  | |- context [sftbl_find (?l :: ?t) ?x] =>
      let m := eval vm_compute in (sflv_max l) in
      let b := eval vm_compute in (sflv_base l) in
      let u := eval vm_compute in (sflv_used l) in
      change (sftbl_find (l :: t) x)
        with (if u && (b <=? x) && (x <=? m) then Some l else sftbl_find t x)
  end.
Ltac find_pick :=
  match goal with
  | |- context [if ?c then Some ?l else ?r] =>
      let E := fresh "E" in
      destruct c eqn:E; [ try (exfalso; lia) | try (exfalso; lia) ]; cbv iota
  end.
Ltac find_go := repeat (find_step; find_pick).

(* the seven possible external widths, with literal bounds on v *)
Lemma sfl_kw_cases v : v < 18446744073709551616 ->
  (sfl_kw v = 2%nat /\ v < 65536) \/
  (sfl_kw v = 3%nat /\ 65536 <= v < 16777216) \/
  (sfl_kw v = 4%nat /\ 16777216 <= v < 4294967296) \/
  (sfl_kw v = 5%nat /\ 4294967296 <= v < 1099511627776) \/
  (sfl_kw v = 6%nat /\ 1099511627776 <= v < 281474976710656) \/
  (sfl_kw v = 7%nat /\ 281474976710656 <= v < 72057594037927936) \/
  (sfl_kw v = 8%nat /\ 72057594037927936 <= v).
Proof.
  intro Hv. destruct (sfl_kw_facts v Hv) as (A & B & C).
  set (k := sfl_kw v) in *.
  assert (K : (k = 2 \/ k = 3 \/ k = 4 \/ k = 5 \/ k = 6 \/ k = 7 \/ k = 8)%nat) by lia.
  destruct K as [K|[K|[K|[K|[K|[K|K]]]]]]; rewrite K in *;
    cbn [Nat.sub] in C; sfl_norm_pow;
    [left|right;left|right;right;left|right;right;right;left|right;right;right;right;left|
     right;right;right;right;right;left|right;right;right;right;right;right];
    (split; [reflexivity|]); destruct C as [C|C]; try discriminate; lia.
Qed.

(* ---------------- encoder = table specification ---------------- *)

Theorem sf_put_is_spec x : x < 18446744073709551616 -> sf_put x = sf_spec x.
Proof.
  intro Hx. rewrite sf_put_norm by exact Hx.
  unfold sf_spec, sftbl_encode, sf_norm, sf_table.
  destruct (x <=? 63) eqn:E1.
  { find_go. change (sflv_encode _ x) with (be_bytes 1 (0 + (x - 0))).
    rewrite sfl_be_bytes_1. f_equal. lia. }
  destruct (x <=? 16446) eqn:E2.
  { find_go. change (sflv_encode _ x) with (be_bytes 2 (16384 + (x - 63))).
    rewrite sfl_be_bytes_2. f_equal; [lia|]. f_equal. lia. }
  destruct (x <=? 4210749) eqn:E3.
  { find_go. change (sflv_encode _ x) with (be_bytes 3 (8388608 + (x - 16446))).
    rewrite sfl_be_bytes_3. f_equal; [lia|]. f_equal; [lia|]. f_equal. lia. }
  destruct (sfl_kw_cases (x - 4210749) ltac:(lia)) as
    [(K & R)|[(K & R)|[(K & R)|[(K & R)|[(K & R)|[(K & R)|(K & R)]]]]]];
    rewrite K; find_go; reflexivity.
Qed.

Theorem sf_length_is_spec x : x < 18446744073709551616 -> sf_length x = sf_spec_len x.
Proof.
  intro Hx. rewrite sf_length_norm by exact Hx.
  unfold sf_spec_len, sftbl_len, sf_norm_len, sf_table.
  destruct (x <=? 63) eqn:E1; [find_go; reflexivity|].
  destruct (x <=? 16446) eqn:E2; [find_go; reflexivity|].
  destruct (x <=? 4210749) eqn:E3; [find_go; reflexivity|].
  destruct (sfl_kw_cases (x - 4210749) ltac:(lia)) as
    [(K & R)|[(K & R)|[(K & R)|[(K & R)|[(K & R)|[(K & R)|(K & R)]]]]]];
    rewrite K; find_go; reflexivity.
Qed.

Theorem sf_rev_is_spec x : x < 18446744073709551616 -> sf_rev_put_forward x = sf_spec_rev x.
Proof.
  intro Hx. rewrite sf_rev_put_forward_norm by exact Hx.
  unfold sf_spec_rev, sftbl_encode_rev, sf_rev_norm, sf_table.
  destruct (x <=? 63) eqn:E1.
  { find_go. change (sflv_encode_rev _ x) with (le_bytes 1 (0 + (x - 0))).
    rewrite sfl_le_bytes_1. f_equal. lia. }
  destruct (x <=? 16446) eqn:E2.
  { find_go. change (sflv_encode_rev _ x) with (le_bytes 2 (16384 + (x - 63))).
    rewrite sfl_le_bytes_2. f_equal; [lia|]. f_equal. lia. }
  destruct (x <=? 4210749) eqn:E3.
  { find_go. change (sflv_encode_rev _ x) with (le_bytes 3 (8388608 + (x - 16446))).
    rewrite sfl_le_bytes_3. f_equal; [lia|]. f_equal; [lia|]. f_equal. lia. }
  destruct (sfl_kw_cases (x - 4210749) ltac:(lia)) as
    [(K & R)|[(K & R)|[(K & R)|[(K & R)|[(K & R)|[(K & R)|(K & R)]]]]]];
    rewrite K; find_go; reflexivity.
Qed.

(* ---------------- per-length maxima ---------------- *)

Lemma sf_max_values :
  sf_max 1 = 63 /\ sf_max 2 = 16446 /\ sf_max 3 = 4276284 /\ sf_max 4 = 20987964 /\
  sf_max 5 = 4299178044 /\ sf_max 6 = 1099515838524 /\ sf_max 7 = 281474980921404 /\
  sf_max 8 = 72057594042138684 /\ sf_max 9 = 18446744073709551615 /\ sf_emax = 4210749.
Proof. vm_compute. repeat split; reflexivity. Qed.

(* the table's maxima are the published constants of varint.h *)
Theorem sf_max_consts :
  sf_max 1 = VARINT_SPLIT_FULL_STORAGE_1 /\ sf_max 2 = VARINT_SPLIT_FULL_STORAGE_2 /\
  sf_max 3 = VARINT_SPLIT_FULL_STORAGE_3 /\ sf_max 4 = VARINT_SPLIT_FULL_STORAGE_4 /\
  sf_max 5 = VARINT_SPLIT_FULL_STORAGE_5 /\ sf_max 6 = VARINT_SPLIT_FULL_STORAGE_6 /\
  sf_max 7 = VARINT_SPLIT_FULL_STORAGE_7 /\ sf_max 8 = VARINT_SPLIT_FULL_STORAGE_8 /\
  sf_max 9 = VARINT_SPLIT_FULL_STORAGE_9.
Proof. vm_compute. repeat split; reflexivity. Qed.

Lemma sf_norm_len_le x k : x < 18446744073709551616 -> (3 <= k <= 9)%nat ->
  (sf_norm_len x <= N.of_nat k <-> x <= 4210749 + 256 ^ N.of_nat (k - 1) - 1).
Proof.
  intros Hx Hk. unfold sf_norm_len.
  assert (P : 65536 <= 256 ^ N.of_nat (k - 1)).
  { change 65536 with (256 ^ N.of_nat 2). apply pow256_mono. lia. }
  destruct (x <=? 63) eqn:E1; [lia|]. destruct (x <=? 16446) eqn:E2; [lia|].
  destruct (x <=? 4210749) eqn:E3; [lia|].
  pose proof (sfl_kw_le (x - 4210749) (k - 1) ltac:(lia) ltac:(lia)) as W.
  set (P' := 256 ^ N.of_nat (k - 1)) in *. lia.
Qed.

Theorem sf_length_le x k : x < 18446744073709551616 -> 1 <= k <= 9 ->
  (sf_length x <= k <-> x <= sf_max k).
Proof.
  intros Hx Hk. rewrite sf_length_norm by exact Hx.
  destruct sf_max_values as (M1 & M2 & M3 & M4 & M5 & M6 & M7 & M8 & M9 & _).
  assert (K : k = 1 \/ k = 2 \/ k = 3 \/ k = 4 \/ k = 5 \/ k = 6 \/ k = 7 \/ k = 8 \/ k = 9) by lia.
  destruct K as [K|[K|[K|[K|[K|[K|[K|[K|K]]]]]]]]; subst k.
  - rewrite M1. unfold sf_norm_len.
    destruct (x <=? 63) eqn:E1; [lia|]. destruct (x <=? 16446) eqn:E2; [lia|].
    destruct (x <=? 4210749) eqn:E3; [lia|].
    destruct (sfl_kw_facts (x - 4210749) ltac:(lia)) as (A & _). lia.
  - rewrite M2. unfold sf_norm_len.
    destruct (x <=? 63) eqn:E1; [lia|]. destruct (x <=? 16446) eqn:E2; [lia|].
    destruct (x <=? 4210749) eqn:E3; [lia|].
    destruct (sfl_kw_facts (x - 4210749) ltac:(lia)) as (A & _). lia.
  - rewrite M3. pose proof (sf_norm_len_le x 3 Hx ltac:(lia)) as H. sfl_norm_pow.
    cbn [Nat.sub] in H. sfl_norm_pow. exact H.
  - rewrite M4. pose proof (sf_norm_len_le x 4 Hx ltac:(lia)) as H.
    cbn [Nat.sub] in H. sfl_norm_pow. exact H.
  - rewrite M5. pose proof (sf_norm_len_le x 5 Hx ltac:(lia)) as H.
    cbn [Nat.sub] in H. sfl_norm_pow. exact H.
  - rewrite M6. pose proof (sf_norm_len_le x 6 Hx ltac:(lia)) as H.
    cbn [Nat.sub] in H. sfl_norm_pow. exact H.
  - rewrite M7. pose proof (sf_norm_len_le x 7 Hx ltac:(lia)) as H.
    cbn [Nat.sub] in H. sfl_norm_pow. exact H.
  - rewrite M8. pose proof (sf_norm_len_le x 8 Hx ltac:(lia)) as H.
    cbn [Nat.sub] in H. sfl_norm_pow. exact H.
  - rewrite M9. pose proof (sf_norm_len_le x 9 Hx ltac:(lia)) as H.
    cbn [Nat.sub] in H. sfl_norm_pow. split; intro; [lia|]. apply H. lia.
Qed.

Theorem sf_length_mono x y : y < 18446744073709551616 -> x <= y -> sf_length x <= sf_length y.
Proof.
  intros Hy Hxy. pose proof (sf_length_range y Hy) as R.
  apply (sf_length_le x (sf_length y)); [lia|exact R|].
  apply N.le_trans with y; [exact Hxy|].
  apply (sf_length_le y (sf_length y) Hy R). lia.
Qed.

(* len x = k  <->  max (k-1) < x <= max k, spelled out with the constants of
   varint.h (regenerated into VVgen.Consts on every run) *)
Theorem sf_length_class x : x < 18446744073709551616 ->
  (sf_length x = 1 <-> x <= VARINT_SPLIT_FULL_STORAGE_1) /\
  (sf_length x = 2 <-> VARINT_SPLIT_FULL_STORAGE_1 < x <= VARINT_SPLIT_FULL_STORAGE_2) /\
  (sf_length x = 3 <-> VARINT_SPLIT_FULL_STORAGE_2 < x <= VARINT_SPLIT_FULL_STORAGE_3) /\
  (sf_length x = 4 <-> VARINT_SPLIT_FULL_STORAGE_3 < x <= VARINT_SPLIT_FULL_STORAGE_4) /\
  (sf_length x = 5 <-> VARINT_SPLIT_FULL_STORAGE_4 < x <= VARINT_SPLIT_FULL_STORAGE_5) /\
  (sf_length x = 6 <-> VARINT_SPLIT_FULL_STORAGE_5 < x <= VARINT_SPLIT_FULL_STORAGE_6) /\
  (sf_length x = 7 <-> VARINT_SPLIT_FULL_STORAGE_6 < x <= VARINT_SPLIT_FULL_STORAGE_7) /\
  (sf_length x = 8 <-> VARINT_SPLIT_FULL_STORAGE_7 < x <= VARINT_SPLIT_FULL_STORAGE_8) /\
  (sf_length x = 9 <-> VARINT_SPLIT_FULL_STORAGE_8 < x <= VARINT_SPLIT_FULL_STORAGE_9).
Proof.
  intro Hx. pose proof (sf_length_range x Hx) as R.
  destruct sf_max_consts as (C1 & C2 & C3 & C4 & C5 & C6 & C7 & C8 & C9).
  rewrite <- C1, <- C2, <- C3, <- C4, <- C5, <- C6, <- C7, <- C8, <- C9.
  pose proof (sf_length_le x 1 Hx ltac:(lia)). pose proof (sf_length_le x 2 Hx ltac:(lia)).
  pose proof (sf_length_le x 3 Hx ltac:(lia)). pose proof (sf_length_le x 4 Hx ltac:(lia)).
  pose proof (sf_length_le x 5 Hx ltac:(lia)). pose proof (sf_length_le x 6 Hx ltac:(lia)).
  pose proof (sf_length_le x 7 Hx ltac:(lia)). pose proof (sf_length_le x 8 Hx ltac:(lia)).
  pose proof (sf_length_le x 9 Hx ltac:(lia)).
  set (l := sf_length x) in *.
  set (m1 := sf_max 1) in *. set (m2 := sf_max 2) in *. set (m3 := sf_max 3) in *.
  set (m4 := sf_max 4) in *. set (m5 := sf_max 5) in *. set (m6 := sf_max 6) in *.
  set (m7 := sf_max 7) in *. set (m8 := sf_max 8) in *. set (m9 := sf_max 9) in *.
  lia.
Qed.

(* ---------------- SplitFullNoZero ---------------- *)

Theorem sfnz_put_is_spec x : 1 <= x -> x < 18446744073709551616 -> sfnz_put x = sfnz_spec x.
Proof.
  intros H1 Hx. rewrite sfnz_put_sf by assumption. rewrite sf_put_norm by lia.
  unfold sfnz_spec, sftbl_encode, sf_norm, sfnz_table.
  destruct (x - 1 <=? 63) eqn:E1.
  { find_go. change (sflv_encode _ x) with (be_bytes 1 (0 + (x - 1))).
    rewrite sfl_be_bytes_1. f_equal. lia. }
  destruct (x - 1 <=? 16446) eqn:E2.
  { find_go. change (sflv_encode _ x) with (be_bytes 2 (16384 + (x - 64))).
    rewrite sfl_be_bytes_2. f_equal; [lia|]. f_equal. lia. }
  destruct (x - 1 <=? 4210749) eqn:E3.
  { find_go. change (sflv_encode _ x) with (be_bytes 3 (8388608 + (x - 16447))).
    rewrite sfl_be_bytes_3. f_equal; [lia|]. f_equal; [lia|]. f_equal. lia. }
  replace (x - 1 - 4210749) with (x - 4210750) by lia.
  destruct (sfl_kw_cases (x - 4210750) ltac:(lia)) as
    [(K & R)|[(K & R)|[(K & R)|[(K & R)|[(K & R)|[(K & R)|(K & R)]]]]]];
    rewrite K; find_go; reflexivity.
Qed.

Theorem sfnz_length_is_spec x : 1 <= x -> x < 18446744073709551616 ->
  sfnz_length x = sfnz_spec_len x.
Proof.
  intros H1 Hx. rewrite sfnz_length_sf by assumption. rewrite sf_length_norm by lia.
  unfold sfnz_spec_len, sftbl_len, sf_norm_len, sfnz_table.
  destruct (x - 1 <=? 63) eqn:E1; [find_go; reflexivity|].
  destruct (x - 1 <=? 16446) eqn:E2; [find_go; reflexivity|].
  destruct (x - 1 <=? 4210749) eqn:E3; [find_go; reflexivity|].
  replace (x - 1 - 4210749) with (x - 4210750) by lia.
  destruct (sfl_kw_cases (x - 4210750) ltac:(lia)) as
    [(K & R)|[(K & R)|[(K & R)|[(K & R)|[(K & R)|[(K & R)|(K & R)]]]]]];
    rewrite K; find_go; reflexivity.
Qed.

Theorem sfnz_rev_is_spec x : 1 <= x -> x < 18446744073709551616 ->
  sfnz_rev_put_forward x = sfnz_spec_rev x.
Proof.
  intros H1 Hx. rewrite sfnz_rev_put_forward_sf by assumption.
  rewrite sf_rev_put_forward_norm by lia.
  unfold sfnz_spec_rev, sftbl_encode_rev, sf_rev_norm, sfnz_table.
  destruct (x - 1 <=? 63) eqn:E1.
  { find_go. change (sflv_encode_rev _ x) with (le_bytes 1 (0 + (x - 1))).
    rewrite sfl_le_bytes_1. f_equal. lia. }
  destruct (x - 1 <=? 16446) eqn:E2.
  { find_go. change (sflv_encode_rev _ x) with (le_bytes 2 (16384 + (x - 64))).
    rewrite sfl_le_bytes_2. f_equal; [lia|]. f_equal. lia. }
  destruct (x - 1 <=? 4210749) eqn:E3.
  { find_go. change (sflv_encode_rev _ x) with (le_bytes 3 (8388608 + (x - 16447))).
    rewrite sfl_le_bytes_3. f_equal; [lia|]. f_equal; [lia|]. f_equal. lia. }
  replace (x - 1 - 4210749) with (x - 4210750) by lia.
  destruct (sfl_kw_cases (x - 4210750) ltac:(lia)) as
    [(K & R)|[(K & R)|[(K & R)|[(K & R)|[(K & R)|[(K & R)|(K & R)]]]]]];
    rewrite K; find_go; reflexivity.
Qed.

Lemma sfnz_max_values :
  sfnz_max 1 = 64 /\ sfnz_max 2 = 16447 /\ sfnz_max 3 = 4276285 /\ sfnz_max 4 = 20987965 /\
  sfnz_max 5 = 4299178045 /\ sfnz_max 6 = 1099515838525 /\ sfnz_max 7 = 281474980921405 /\
  sfnz_max 8 = 72057594042138685 /\ sfnz_max 9 = 18446744073709551615 /\ sfnz_emax = 4210750.
Proof. vm_compute. repeat split; reflexivity. Qed.

Theorem sfnz_max_consts :
  sfnz_max 1 = VARINT_SPLIT_FULL_NO_ZERO_STORAGE_1 /\
  sfnz_max 2 = VARINT_SPLIT_FULL_NO_ZERO_STORAGE_2 /\
  sfnz_max 3 = VARINT_SPLIT_FULL_NO_ZERO_STORAGE_3 /\
  sfnz_max 4 = VARINT_SPLIT_FULL_NO_ZERO_STORAGE_4 /\
  sfnz_max 5 = VARINT_SPLIT_FULL_NO_ZERO_STORAGE_5 /\
  sfnz_max 6 = VARINT_SPLIT_FULL_NO_ZERO_STORAGE_6 /\
  sfnz_max 7 = VARINT_SPLIT_FULL_NO_ZERO_STORAGE_7 /\
  sfnz_max 8 = VARINT_SPLIT_FULL_NO_ZERO_STORAGE_8 /\
  sfnz_max 9 = VARINT_SPLIT_FULL_NO_ZERO_STORAGE_9.
Proof. vm_compute. repeat split; reflexivity. Qed.

Theorem sfnz_length_le x k : 1 <= x -> x < 18446744073709551616 -> 1 <= k <= 9 ->
  (sfnz_length x <= k <-> x <= sfnz_max k).
Proof.
  intros H1 Hx Hk. rewrite sfnz_length_sf by exact H1.
  pose proof (sf_length_le (x - 1) k ltac:(lia) Hk) as H. rewrite H.
  destruct sf_max_values as (M1 & M2 & M3 & M4 & M5 & M6 & M7 & M8 & M9 & _).
  destruct sfnz_max_values as (Z1 & Z2 & Z3 & Z4 & Z5 & Z6 & Z7 & Z8 & Z9 & _).
  assert (K : k = 1 \/ k = 2 \/ k = 3 \/ k = 4 \/ k = 5 \/ k = 6 \/ k = 7 \/ k = 8 \/ k = 9) by lia.
  destruct K as [K|[K|[K|[K|[K|[K|[K|[K|K]]]]]]]]; subst k;
    [rewrite M1, Z1|rewrite M2, Z2|rewrite M3, Z3|rewrite M4, Z4|rewrite M5, Z5|
     rewrite M6, Z6|rewrite M7, Z7|rewrite M8, Z8|rewrite M9, Z9]; lia.
Qed.

Theorem sfnz_length_mono x y : 1 <= x -> y < 18446744073709551616 -> x <= y ->
  sfnz_length x <= sfnz_length y.
Proof.
  intros H1 Hy Hxy. rewrite !sfnz_length_sf by lia.
  apply sf_length_mono; lia.
Qed.

Theorem sfnz_length_class x : 1 <= x -> x < 18446744073709551616 ->
  (sfnz_length x = 1 <-> x <= VARINT_SPLIT_FULL_NO_ZERO_STORAGE_1) /\
  (sfnz_length x = 2 <->
     VARINT_SPLIT_FULL_NO_ZERO_STORAGE_1 < x <= VARINT_SPLIT_FULL_NO_ZERO_STORAGE_2) /\
  (sfnz_length x = 3 <->
     VARINT_SPLIT_FULL_NO_ZERO_STORAGE_2 < x <= VARINT_SPLIT_FULL_NO_ZERO_STORAGE_3) /\
  (sfnz_length x = 4 <->
     VARINT_SPLIT_FULL_NO_ZERO_STORAGE_3 < x <= VARINT_SPLIT_FULL_NO_ZERO_STORAGE_4) /\
  (sfnz_length x = 5 <->
     VARINT_SPLIT_FULL_NO_ZERO_STORAGE_4 < x <= VARINT_SPLIT_FULL_NO_ZERO_STORAGE_5) /\
  (sfnz_length x = 6 <->
     VARINT_SPLIT_FULL_NO_ZERO_STORAGE_5 < x <= VARINT_SPLIT_FULL_NO_ZERO_STORAGE_6) /\
  (sfnz_length x = 7 <->
     VARINT_SPLIT_FULL_NO_ZERO_STORAGE_6 < x <= VARINT_SPLIT_FULL_NO_ZERO_STORAGE_7) /\
  (sfnz_length x = 8 <->
     VARINT_SPLIT_FULL_NO_ZERO_STORAGE_7 < x <= VARINT_SPLIT_FULL_NO_ZERO_STORAGE_8) /\
  (sfnz_length x = 9 <->
     VARINT_SPLIT_FULL_NO_ZERO_STORAGE_8 < x <= VARINT_SPLIT_FULL_NO_ZERO_STORAGE_9).
Proof.
  intros H1 Hx. pose proof (sfnz_length_range x H1 Hx) as R.
  destruct sfnz_max_consts as (C1 & C2 & C3 & C4 & C5 & C6 & C7 & C8 & C9).
  rewrite <- C1, <- C2, <- C3, <- C4, <- C5, <- C6, <- C7, <- C8, <- C9.
  pose proof (sfnz_length_le x 1 H1 Hx ltac:(lia)). pose proof (sfnz_length_le x 2 H1 Hx ltac:(lia)).
  pose proof (sfnz_length_le x 3 H1 Hx ltac:(lia)). pose proof (sfnz_length_le x 4 H1 Hx ltac:(lia)).
  pose proof (sfnz_length_le x 5 H1 Hx ltac:(lia)). pose proof (sfnz_length_le x 6 H1 Hx ltac:(lia)).
  pose proof (sfnz_length_le x 7 H1 Hx ltac:(lia)). pose proof (sfnz_length_le x 8 H1 Hx ltac:(lia)).
  pose proof (sfnz_length_le x 9 H1 Hx ltac:(lia)).
  set (l := sfnz_length x) in *.
  set (m1 := sfnz_max 1) in *. set (m2 := sfnz_max 2) in *. set (m3 := sfnz_max 3) in *.
  set (m4 := sfnz_max 4) in *. set (m5 := sfnz_max 5) in *. set (m6 := sfnz_max 6) in *.
  set (m7 := sfnz_max 7) in *. set (m8 := sfnz_max 8) in *. set (m9 := sfnz_max 9) in *.
  lia.
Qed.
