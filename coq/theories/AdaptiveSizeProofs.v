(* AdaptiveSizeProofs.v — C03 for the adaptive container: what each inner
   encoder writes, plus the type byte, never exceeds varintAdaptiveMaxSize(count)
   = 1 + 20 + 22 count.  DELTA, FOR, PFOR, DICT and TAGGED here; BITMAP is in
   AdaptiveBitmapProofs.v. *)
Require Import VV.Base VV.BaseProofs VV.Tagged VV.TaggedProofs VV.TaggedSpecProofs.
Require Import VV.Delta VV.DfgLemmas VV.DeltaProofs VV.FOR VV.FORProofs.
Require Import VV.PFOR VV.PFORSpec VV.PFORLemmas VV.PFORProofs VV.PFORProofsDec VV.PFORProofsSize VV.PFORTheorems.
Require Import VV.RLELemmas VV.Dict VV.DictProofs.
Require Import VV.Adaptive VV.AdaptiveLemmas VV.AdaptiveDictProofs.
From Coq Require Import Lia ZifyBool ZifyN ZifyNat.
Local Open Scope N_scope.
Ltac Zify.zify_post_hook ::= Z.div_mod_to_equations.

(* 2^59: below it 21 + 22 count does not wrap *)
Definition adp_count_ok (n : N) : Prop := n < 576460752303423488.

Lemma adp_delta_len xs : adp_u64s xs -> adp_count_ok (N.of_nat (length xs)) ->
  N.of_nat (length (delta_encode_u xs)) <= 9 * N.of_nat (length xs).
Proof.
  intros HF Hn. unfold adp_count_ok in Hn.
  pose proof (delta_u_bound xs HF ltac:(lia)) as B.
  unfold delta_max_encoded_size in B.
  destruct (N.of_nat (length xs) =? 0) eqn:E; [lia|].
  unfold mul64, u64 in B. lia.
Qed.

Lemma adp_tagged_len xs : N.of_nat (length (flat_map tagged_put64 xs)) <= 9 * N.of_nat (length xs).
Proof. pose proof (entry_bytes_le9 xs) as H. unfold entry_bytes in H. lia. Qed.

Lemma adp_for_len xs m : adp_u64s xs -> for_analyze xs = Some m ->
  N.of_nat (length (for_bytes m xs)) <= 19 + 8 * N.of_nat (length xs).
Proof.
  intros HF Ha. pose proof (for_analyze_fits xs m HF Ha) as F.
  pose proof (fits_width_small m xs F) as W.
  rewrite for_bytes_length.
  pose proof (tagged_len_range (fm_min m)). pose proof (tagged_len_range (fm_count m)). nia.
Qed.

Lemma tagged_len_u32 x : x < 4294967296 -> tagged_len x <= 5.
Proof.
  intro H. pose proof (tagged_len_mono x 4294967295 ltac:(lia) ltac:(lia)) as M.
  change (tagged_len 4294967295) with 5 in M. exact M.
Qed.

Lemma adp_pfor_len xs : (1 <= length xs)%nat -> N.of_nat (length xs) < 4294967296 -> adp_u64s xs ->
  N.of_nat (length (pfor_encode_bytes xs 95)) <= 20 + 22 * N.of_nat (length xs).
Proof.
  intros H1 H32 HF.
  pose proof (pfor_size_bound xs 95 H1 H32 HF) as B.
  destruct (pfor_meta_truth xs 95 H1 HF) as (Em & Ec & _ & _ & _ & (w & Hw & Ew & _) & Ee & _).
  cbv zeta in *. rewrite Em in B. set (m := pfor_encode_meta xs 95) in *.
  pose proof (excs_length_le m 0 xs) as Le.
  unfold pfor_size in B. rewrite Ec, Ew, Ee in B. rewrite tagged_len_max in B.
  pose proof (tagged_len_range (pm_min m)).
  pose proof (tagged_len_u32 (N.of_nat (length xs)) H32).
  pose proof (tagged_len_u32 (N.of_nat (length (pfor_excs m 0 xs))) ltac:(lia)).
  set (n := N.of_nat (length xs)) in *. set (k := N.of_nat (length (pfor_excs m 0 xs))) in *.
  set (a := tagged_len (pm_min m)) in *. set (b := tagged_len n) in *. set (c := tagged_len k) in *.
  assert (Hk : k <= n) by (subst k n; lia).
  assert (S : a + 1 + b + n * N.of_nat w + c + k * (b + 9) <= 20 + 22 * n) by nia.
  unfold u64 in B. rewrite N.mod_small in B by lia. lia.
Qed.
