(* ChainedSpec.v — independently shaped specification of the two chained
   wire formats (from the format comments of varintChained.c: "A/B/C" key, and
   of varintChainedSimple.c): plain base-128 positional notation. *)
Require Import VV.Base.
Local Open Scope N_scope.

(* number of base-128 digits of x (at least 1); fuel bounds the recursion *)
Fixpoint ndigits128 (fuel : nat) (x : N) : nat :=
  match fuel with
  | O => 1
  | S f => if x <? 128 then 1%nat else S (ndigits128 f (x / 128))
  end.

(* the n low base-128 digits of x, most significant first, every one with
   the continuation bit *)
Fixpoint be128 (n : nat) (x : N) : list N :=
  match n with
  | O => []
  | S n' => be128 n' (x / 128) ++ [128 + x mod 128]
  end.

(* the same digits, least significant first *)
Fixpoint le128 (n : nat) (x : N) : list N :=
  match n with
  | O => []
  | S n' => (128 + x mod 128) :: le128 n' (x / 128)
  end.

(* encoded length: number of 7-bit groups, 9 once the value needs more than
   56 bits *)
Definition chained_spec_len (x : N) : nat :=
  if x <? 72057594037927936 then ndigits128 9 x else 9%nat.

(* chained: big-endian digits, continuation bit on all but the last byte;
   a 9-byte encoding stores 8 full bits in the last byte *)
Definition chained_spec (x : N) : list N :=
  if x <? 72057594037927936
  then be128 (chained_spec_len x - 1) (x / 128) ++ [x mod 128]
  else be128 8 (x / 256) ++ [x mod 256].

(* chained-simple: little-endian digits, same 9-byte cap: the ninth byte
   holds the top 8 bits *)
Definition csimple_spec (x : N) : list N :=
  if x <? 72057594037927936
  then le128 (chained_spec_len x - 1) x ++ [x / 128 ^ N.of_nat (chained_spec_len x - 1)]
  else le128 8 x ++ [x / 72057594037927936].

(* DECODE as a relation on whole byte strings: Some x iff b is a well formed
   encoding (1..9 bytes, continuation bit on exactly the non-final bytes,
   the ninth byte being free) of x. *)
Definition cont_byte (c : N) : bool := (128 <=? c) && (c <? 256).

Definition chained_denote (b : list N) : option N :=
  match rev b with
  | [] => None
  | last :: front_rev =>
      let front := rev front_rev in
      if forallb cont_byte front then
        let hi := fold_left (fun acc c => acc * 128 + (c - 128)) front 0 in
        if (length front =? 8)%nat then
          if last <? 256 then Some (hi * 256 + last) else None
        else if (length front <? 8)%nat && (last <? 128) then Some (hi * 128 + last)
        else None
      else None
  end.

Definition csimple_denote (b : list N) : option N :=
  match rev b with
  | [] => None
  | last :: front_rev =>
      let front := rev front_rev in
      if forallb cont_byte front then
        let lo := fold_right (fun c acc => (c - 128) + 128 * acc) 0 front in
        if (length front =? 8)%nat then
          if last <? 256 then Some (lo + 72057594037927936 * last) else None
        else if (length front <? 8)%nat && (last <? 128)
        then Some (lo + 128 ^ N.of_nat (length front) * last)
        else None
      else None
  end.

(* reference decoders on a byte stream (what the formats say a reader does):
   accumulate 7-bit groups while the continuation bit is set, at most 8 of
   them; a ninth byte is taken whole.  Result (bytes consumed, value). *)
Fixpoint ch_loop (room : nat) (acc n : N) (z : list N) : N * N :=
  match room with
  | O => (n + 1, acc * 256 + hd 0 z)
  | S r => let b := hd 0 z in
           if b <? 128 then (n + 1, acc * 128 + b)
           else ch_loop r (acc * 128 + (b - 128)) (n + 1) (tl z)
  end.
Definition chained_decode (z : list N) : N * N := ch_loop 8 0 0 z.

Fixpoint cs_loop (room : nat) (z : list N) : N * N :=
  match room with
  | O => (1, hd 0 z)
  | S r => let b := hd 0 z in
           if b <? 128 then (1, b)
           else let q := cs_loop r (tl z) in (fst q + 1, (b - 128) + 128 * snd q)
  end.
Definition csimple_decode (z : list N) : N * N := cs_loop 8 z.

(* per-length maxima: 2^(7k) - 1 for k <= 8, 2^64 - 1 for 9 *)
Definition chained_max (k : N) : N :=
  match k with
  | 1 => 127 | 2 => 16383 | 3 => 2097151 | 4 => 268435455 | 5 => 34359738367
  | 6 => 4398046511103 | 7 => 562949953421311 | 8 => 72057594037927935
  | 9 => 18446744073709551615 | _ => 0
  end.
