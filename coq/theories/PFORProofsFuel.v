(* PFORProofsFuel.v — the fuel given to the decoder loops (the input length)
   always suffices: on every byte string, valid or not, and for every caller
   metadata, pfor_decode / pfor_get_at never end in PFuel. *)
Require Import VV.Base VV.BaseProofs VV.Tagged VV.TaggedProofs VV.PFOR VV.PFORLemmas.
From Coq Require Import Lia ZifyBool ZifyN ZifyNat.
Local Open Scope N_scope.
Ltac Zify.zify_post_hook ::= Z.div_mod_to_equations.

Lemma bytes_ok_skipn k z : bytes_ok z -> bytes_ok (skipn k z).
Proof.
  unfold bytes_ok. revert z. induction k as [|k IH]; intros z H; [exact H|].
  destruct z as [|b t]; [exact H|]. cbn [skipn]. apply IH. inversion H; assumption.
Qed.

Lemma bytes_ok_dropN n z : bytes_ok z -> bytes_ok (dropN z n).
Proof. rewrite dropN_skipn. apply bytes_ok_skipn. Qed.

Lemma dropN_length n z : length (dropN z n) = (length z - N.to_nat n)%nat.
Proof. rewrite dropN_skipn. apply skipn_length. Qed.

Lemma tagged_get_width_pos z : byte_at z 0 < 256 -> 1 <= fst (tagged_get z 9).
Proof.
  intro H. unfold tagged_get. cbv zeta. set (b0 := byte_at z 0) in *.
  change (9 <? 1)%Z with false. change (9 <? 2)%Z with false. cbv iota.
  destruct (b0 <=? 240) eqn:E1; [cbn [fst]; lia|].
  destruct (b0 <=? 248) eqn:E2.
  { cbn [fst]. lia. }
  destruct (9 <? Z.of_N b0 - 246)%Z eqn:E3; [exfalso; clearbody b0; apply Z.ltb_lt in E3; lia|].
  clear E3.
  destruct (b0 =? 249) eqn:?; [cbn [fst]; lia|].
  destruct (b0 =? 250) eqn:?; [cbn [fst]; lia|].
  destruct (b0 =? 251) eqn:?; [cbn [fst]; lia|].
  destruct (b0 =? 252) eqn:?; [cbn [fst]; lia|].
  destruct (b0 =? 253) eqn:?; [cbn [fst]; lia|].
  destruct (b0 =? 254) eqn:?; [cbn [fst]; lia|].
  destruct (b0 =? 255) eqn:E9; [cbn [fst]; lia|]. exfalso. clearbody b0. lia.
Qed.

Lemma rd_tagged_progress z w v z' : bytes_ok z -> rd_tagged z = POk (w, v, z') ->
  (length z' < length z)%nat /\ bytes_ok z'.
Proof.
  intros Hb H. unfold rd_tagged in H. destruct z as [|b t]; [discriminate|].
  destruct (has_bytes (b :: t) _); [|discriminate].
  set (d := dropN (b :: t) (fst (tagged_get64 (b :: t)))) in H.
  injection H as _ _ <-. subst d. split.
  - rewrite dropN_length. cbn [length].
    pose proof (tagged_get_width_pos (b :: t)) as P. unfold tagged_get64.
    assert (byte_at (b :: t) 0 < 256) by (apply byte_at_lt; exact Hb).
    specialize (P H). lia.
  - apply bytes_ok_dropN. exact Hb.
Qed.

Lemma rd_tagged_no_fuel z : rd_tagged z <> PFuel.
Proof. unfold rd_tagged. destruct z; [discriminate|]. destruct (has_bytes _ _); discriminate. Qed.

Lemma has_bytes_length z k : has_bytes z k = true -> (k <= length z)%nat.
Proof.
  destruct k as [|k]; [lia|]. unfold has_bytes.
  destruct (nth_error z k) eqn:E; [|discriminate]. intros _.
  assert (nth_error z k <> None) by congruence. apply nth_error_Some in H. lia.
Qed.

Lemma get_ext_progress z width off : pfor_get_ext z width = POk off ->
  (length (dropN z width) < length z)%nat.
Proof.
  unfold pfor_get_ext. destruct ((1 <=? width) && (width <=? 8)) eqn:E; [|discriminate].
  destruct (has_bytes z (N.to_nat width)) eqn:H; [|discriminate]. intros _.
  apply has_bytes_length in H. rewrite dropN_length. lia.
Qed.

Lemma get_ext_no_fuel z width : pfor_get_ext z width <> PFuel.
Proof.
  unfold pfor_get_ext. destruct (_ && _); [|discriminate]. destruct (has_bytes _ _); discriminate.
Qed.

(* the value loop: never out of fuel; what it leaves is a shorter suffix *)
Lemma dec_values_fuel fuel : forall m n z, (length z < fuel)%nat -> bytes_ok z ->
  match pfor_dec_values fuel m n z with
  | PFuel => False
  | POk (_, z') => (length z' <= length z)%nat /\ bytes_ok z'
  | _ => True
  end.
Proof.
  induction fuel as [|f IH]; intros m n z Hf Hb; [lia|].
  cbn [pfor_dec_values]. destruct (n =? 0); [split; [lia|exact Hb]|].
  destruct (pfor_get_ext z (pm_width m)) eqn:G; try exact I.
  2:{ unfold pfor_get_ext in G. destruct (_ && _); [|discriminate].
      destruct (has_bytes _ _); discriminate. }
  apply get_ext_progress in G.
  specialize (IH m (n - 1) (dropN z (pm_width m)) ltac:(lia) (bytes_ok_dropN _ _ Hb)).
  destruct (pfor_dec_values f m (n - 1) (dropN z (pm_width m))) as [[vs z']| | |]; try exact I; [|exact IH].
  destruct IH as [A B]. split; [lia|exact B].
Qed.

Lemma dec_excs_fuel fuel : forall count k z vals, (length z < fuel)%nat -> bytes_ok z ->
  pfor_dec_excs fuel count k z vals <> PFuel.
Proof.
  induction fuel as [|f IH]; intros count k z vals Hf Hb; [lia|].
  cbn [pfor_dec_excs]. destruct (k =? 0); [discriminate|].
  destruct (rd_tagged z) as [[[w1 idx] z1]| | |] eqn:R1; try discriminate.
  2:{ exfalso. exact (rd_tagged_no_fuel z R1). }
  destruct (rd_tagged_progress z w1 idx z1 Hb R1) as [L1 B1].
  destruct (rd_tagged z1) as [[[w2 v] z2]| | |] eqn:R2; try discriminate.
  2:{ exfalso. exact (rd_tagged_no_fuel z1 R2). }
  destruct (rd_tagged_progress z1 w2 v z2 B1 R2) as [L2 B2].
  apply IH; [lia|exact B2].
Qed.

Lemma get_at_search_fuel fuel : forall k index z, (length z < fuel)%nat -> bytes_ok z ->
  pfor_get_at_search fuel k index z <> PFuel.
Proof.
  induction fuel as [|f IH]; intros k index z Hf Hb; [lia|].
  cbn [pfor_get_at_search]. destruct (k =? 0); [discriminate|].
  destruct (rd_tagged z) as [[[w1 idx] z1]| | |] eqn:R1; try discriminate.
  2:{ exfalso. exact (rd_tagged_no_fuel z R1). }
  destruct (rd_tagged_progress z w1 idx z1 Hb R1) as [L1 B1].
  destruct (rd_tagged z1) as [[[w2 v] z2]| | |] eqn:R2; try discriminate.
  2:{ exfalso. exact (rd_tagged_no_fuel z1 R2). }
  destruct (rd_tagged_progress z1 w2 v z2 B1 R2) as [L2 B2].
  destruct (idx =? index); [discriminate|]. apply IH; [lia|exact B2].
Qed.

Lemma read_meta_no_fuel z m0 : pfor_read_meta z m0 <> PFuel.
Proof.
  unfold pfor_read_meta.
  destruct (rd_tagged z) as [[[w1 mn] z1]| | |] eqn:R1; try discriminate.
  2:{ exfalso. exact (rd_tagged_no_fuel z R1). }
  destruct z1 as [|wb z2]; [discriminate|].
  destruct (rd_tagged z2) as [[[w2 cnt] z3]| | |] eqn:R2; try discriminate.
  2:{ exfalso. exact (rd_tagged_no_fuel z2 R2). }
  destruct (rd_tagged (dropN z3 _)) as [[[w3 e] z4]| | |] eqn:R3; try discriminate.
  exfalso. exact (rd_tagged_no_fuel _ R3).
Qed.

Theorem pfor_decode_no_fuel z m : bytes_ok z -> pfor_decode z m <> PFuel.
Proof.
  intro Hb. unfold pfor_decode. cbv zeta.
  set (start := if pm_width m =? 0 then _ else _).
  assert (S : match start with
              | POk (z1, _) => (length z1 <= length z)%nat /\ bytes_ok z1
              | PFuel => False | _ => True end).
  { subst start. destruct (pm_width m =? 0).
    - destruct (pfor_read_meta z m) as [[h m']| | |] eqn:R; try exact I.
      + split; [rewrite dropN_length; lia|apply bytes_ok_dropN; exact Hb].
      + exact (read_meta_no_fuel z m R).
    - split; [rewrite dropN_length; lia|apply bytes_ok_dropN; exact Hb]. }
  destruct start as [[z1 m1]| | |]; try discriminate; [|contradiction].
  destruct S as [L1 B1].
  pose proof (dec_values_fuel (S (length z)) m1 (pm_count m1) z1 ltac:(lia) B1) as V.
  destruct (pfor_dec_values (S (length z)) m1 (pm_count m1) z1) as [[vals z2]| | |]; try discriminate; [|contradiction].
  destruct V as [L2 B2].
  destruct (rd_tagged z2) as [[[w e] z3]| | |] eqn:R; try discriminate.
  2:{ exfalso. exact (rd_tagged_no_fuel z2 R). }
  destruct (rd_tagged_progress z2 w e z3 B2 R) as [L3 B3].
  pose proof (dec_excs_fuel (S (length z)) (pm_count m1) (u32 e) z3 vals ltac:(lia) B3) as X.
  destruct (pfor_dec_excs (S (length z)) (pm_count m1) (u32 e) z3 vals); try discriminate. contradiction.
Qed.

Theorem pfor_get_at_no_fuel z i m : bytes_ok z -> pfor_get_at z i m <> PFuel.
Proof.
  intro Hb. unfold pfor_get_at. cbv zeta.
  destruct (pm_count m <=? i); [discriminate|].
  destruct (pfor_get_ext _ _) eqn:G; try discriminate.
  2:{ exfalso. exact (get_ext_no_fuel _ _ G). }
  destruct (negb _); [discriminate|].
  destruct (rd_tagged (dropN z _)) as [[[w e] z1]| | |] eqn:R; try discriminate.
  2:{ exfalso. exact (rd_tagged_no_fuel _ R). }
  destruct (rd_tagged_progress _ w e z1 (bytes_ok_dropN _ _ Hb) R) as [L B].
  apply get_at_search_fuel; [|exact B]. rewrite dropN_length in L. lia.
Qed.
