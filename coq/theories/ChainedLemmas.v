(* ChainedLemmas.v — arithmetic facts used by the chained proofs: 7-bit
   masks as mod/div, base-128 digit strings, digit counting. *)
Require Import VV.Base VV.BaseProofs VV.Chained VV.ChainedSpec VV.ChainedWiring.
From Coq Require Import Lia ZifyBool ZifyN ZifyNat Arith.
Local Open Scope N_scope.
Ltac Zify.zify_post_hook ::= Z.div_mod_to_equations.

Ltac kill_ifs :=
  repeat match goal with
  | |- context [if ?b then _ else _] =>
      let E := fresh "E" in destruct b eqn:E; try (exfalso; lia)
  end.

Ltac is_nat_lit0 k := lazymatch k with O => idtac | S ?k' => is_nat_lit0 k' | _ => fail end.
Ltac is_nat_lit k := let k' := eval cbv in k in is_nat_lit0 k'.
Ltac norm_pow128 :=
  repeat match goal with
  | |- context [128 ^ N.of_nat ?k] =>
      is_nat_lit k;
      let v := eval vm_compute in (128 ^ N.of_nat k) in change (128 ^ N.of_nat k) with v
  | H : context [128 ^ N.of_nat ?k] |- _ =>
      is_nat_lit k;
      let v := eval vm_compute in (128 ^ N.of_nat k) in change (128 ^ N.of_nat k) with v in H
  end.

(* ---- masks ---- *)
Lemma land127 v : N.land v 127 = v mod 128.
Proof. change 127 with (N.ones 7). rewrite N.land_ones. reflexivity. Qed.

Lemma land_u32 v : N.land v 4294967295 = v mod 4294967296.
Proof. change 4294967295 with (N.ones 32). rewrite N.land_ones. reflexivity. Qed.

Lemma lor128 d : d < 128 -> N.lor d 128 = 128 + d.
Proof.
  intro H. rewrite N.lor_comm. change 128 with (1 * 2 ^ 7) at 1.
  rewrite lor_add_disjoint by (change (2 ^ 7) with 128; exact H).
  change (1 * 2 ^ 7) with 128. reflexivity.
Qed.

Lemma ch_cont_eq v : ch_cont v = 128 + v mod 128.
Proof.
  unfold ch_cont, u8. rewrite land127, lor128 by (apply N.mod_lt; lia).
  apply N.mod_small. assert (v mod 128 < 128) by (apply N.mod_lt; lia). lia.
Qed.

(* a byte test: bit 7 clear iff below 128 *)
Lemma land128_test b : b < 256 -> (N.land b 128 =? 0) = (b <? 128).
Proof.
  intro H.
  assert (A : forallb (fun b => Bool.eqb (N.land b 128 =? 0) (b <? 128))
                      (map N.of_nat (seq 0 256)) = true) by (vm_compute; reflexivity).
  rewrite forallb_forall in A.
  specialize (A b). apply eqb_prop. apply A.
  apply in_map_iff. exists (N.to_nat b). split; [lia|]. apply in_seq. lia.
Qed.

(* (uint8_t)(v | 0x80) *)
Lemma u8_lor128 v : u8 (N.lor v 128) = 128 + v mod 128.
Proof.
  unfold u8. apply N.bits_inj. intro k.
  change 256 with (2 ^ 8). change 128 with (2 ^ 7) at 2 3.
  destruct (N.lt_ge_cases k 8) as [L|G].
  - rewrite N.mod_pow2_bits_low by exact L. rewrite N.lor_spec.
    replace (2 ^ 7 + v mod 2 ^ 7) with (N.lor (1 * 2 ^ 7) (v mod 2 ^ 7)).
    2:{ rewrite lor_add_disjoint; [reflexivity | apply N.mod_lt; lia]. }
    rewrite N.lor_spec. change (1 * 2 ^ 7) with 128.
    destruct (N.lt_ge_cases k 7) as [L7|G7].
    + rewrite N.mod_pow2_bits_low by exact L7. apply orb_comm.
    + assert (k = 7) as -> by lia. change (N.testbit 128 7) with true.
      rewrite !orb_true_r, orb_true_l. reflexivity.
  - rewrite N.mod_pow2_bits_high by exact G.
    symmetry. apply testbit_high with 8; [|exact G].
    change (2 ^ 8) with 256. change (2 ^ 7) with 128.
    assert (v mod 128 < 128) by (apply N.mod_lt; lia). lia.
Qed.

(* the `v & (0xff000000 << 32)` test of putVarint64 *)
Lemma top_byte_test v : v < 18446744073709551616 ->
  (N.land v 18374686479671623680 =? 0) = (v <? 72057594037927936).
Proof.
  intro Hv.
  assert (E : N.land v 18374686479671623680 = (v / 2 ^ 56) * 2 ^ 56).
  { apply N.bits_inj. intro k. rewrite N.land_spec.
    change 18374686479671623680 with (N.ones 8 * 2 ^ 56).
    destruct (N.lt_ge_cases k 56) as [L|G].
    - rewrite !N.mul_pow2_bits_low by exact L. apply andb_false_r.
    - rewrite !N.mul_pow2_bits_high by exact G.
      rewrite N.div_pow2_bits. replace (k - 56 + 56) with k by lia.
      destruct (N.lt_ge_cases (k - 56) 8) as [L8|G8].
      + rewrite N.ones_spec_low by exact L8. apply andb_true_r.
      + rewrite N.ones_spec_high by exact G8. rewrite andb_false_r.
        symmetry. apply testbit_high with 64; [exact Hv | lia]. }
  rewrite E. change (2 ^ 56) with 72057594037927936.
  destruct (v <? 72057594037927936) eqn:C; lia.
Qed.

(* ---- powers of 128 ---- *)
Lemma pow128_pos k : 0 < 128 ^ N.of_nat k.
Proof. apply N.neq_0_lt_0. apply N.pow_nonzero. lia. Qed.

Lemma pow128_S k : 128 ^ N.of_nat (S k) = 128 * 128 ^ N.of_nat k.
Proof. rewrite Nat2N.inj_succ, N.pow_succ_r'. reflexivity. Qed.

Lemma pow128_mono a b : (a <= b)%nat -> 128 ^ N.of_nat a <= 128 ^ N.of_nat b.
Proof. intro H. apply N.pow_le_mono_r; lia. Qed.

Lemma div_pow128_S x k : x / 128 ^ N.of_nat (S k) = x / 128 / 128 ^ N.of_nat k.
Proof. rewrite pow128_S. rewrite N.div_div by (try apply N.pow_nonzero; lia). reflexivity. Qed.

Lemma mod_pow128_S x k :
  x mod 128 ^ N.of_nat (S k) = x mod 128 + 128 * ((x / 128) mod 128 ^ N.of_nat k).
Proof. rewrite pow128_S. rewrite N.mod_mul_r by (try apply N.pow_nonzero; lia). reflexivity. Qed.

(* ---- digit counting ---- *)
Lemma nd_bounds f x : x < 128 ^ N.of_nat (S f) ->
  (1 <= ndigits128 f x <= S f)%nat /\
  x < 128 ^ N.of_nat (ndigits128 f x) /\
  (ndigits128 f x = 1%nat \/ 128 ^ N.of_nat (ndigits128 f x - 1) <= x).
Proof.
  revert x. induction f as [|f IH]; intros x Hx.
  - simpl. split; [lia|]. split; [exact Hx|]. left; reflexivity.
  - cbn [ndigits128]. destruct (x <? 128) eqn:E.
    + split; [lia|]. split; [|left; reflexivity]. change (128 ^ N.of_nat 1) with 128. lia.
    + assert (Hq : x / 128 < 128 ^ N.of_nat (S f)).
      { rewrite (pow128_S (S f)) in Hx. apply N.div_lt_upper_bound; lia. }
      destruct (IH _ Hq) as (R1 & R2 & R3).
      set (w := ndigits128 f (x / 128)) in *.
      split; [lia|]. split.
      * rewrite pow128_S. pose proof (pow128_pos w). lia.
      * right. replace (S w - 1)%nat with w by lia.
        destruct R3 as [R3|R3].
        -- rewrite R3. change (128 ^ N.of_nat 1) with 128. lia.
        -- replace w with (S (w - 1)) by lia. rewrite pow128_S.
           set (Q := 128 ^ N.of_nat (w - 1)) in *. lia.
Qed.

Lemma nd_unique f x k : x < 128 ^ N.of_nat (S f) -> (1 <= k)%nat ->
  x < 128 ^ N.of_nat k -> (k = 1%nat \/ 128 ^ N.of_nat (k - 1) <= x) -> ndigits128 f x = k.
Proof.
  intros Hx Hk Hlt Hge. destruct (nd_bounds f x Hx) as (A & B & C).
  set (w := ndigits128 f x) in *.
  destruct (Nat.lt_trichotomy w k) as [L|[E|G]]; [exfalso|exact E|exfalso].
  - destruct Hge as [->|Hge]; [lia|].
    pose proof (pow128_mono w (k - 1) ltac:(lia)). lia.
  - destruct C as [C|C]; [lia|].
    pose proof (pow128_mono k (w - 1) ltac:(lia)). lia.
Qed.

(* enough fuel: one more makes no difference *)
Lemma nd_fuel_S f x : x < 128 ^ N.of_nat (S f) -> ndigits128 (S f) x = ndigits128 f x.
Proof.
  revert x. induction f as [|f IH]; intros x Hx.
  - change (128 ^ N.of_nat 1) with 128 in Hx. cbn [ndigits128].
    destruct (x <? 128) eqn:E; [reflexivity|lia].
  - cbn [ndigits128]. destruct (x <? 128) eqn:E; [reflexivity|].
    f_equal. change (ndigits128 (S f) (x / 128) = ndigits128 f (x / 128)).
    apply IH. rewrite (pow128_S (S f)) in Hx. apply N.div_lt_upper_bound; lia.
Qed.

(* saturated: the value needs more digits than the fuel allows *)
Lemma nd_sat f x : 128 ^ N.of_nat f <= x -> ndigits128 f x = S f.
Proof.
  revert x. induction f as [|f IH]; intros x Hx; [reflexivity|].
  cbn [ndigits128]. rewrite pow128_S in Hx. pose proof (pow128_pos f).
  destruct (x <? 128) eqn:E; [lia|]. f_equal. apply IH.
  apply N.div_le_lower_bound; lia.
Qed.

(* ---- digit strings ---- *)
Lemma length_be128 n x : length (be128 n x) = n.
Proof. revert x. induction n as [|n IH]; intro x; cbn [be128]; [reflexivity|].
  rewrite app_length, IH. simpl. lia. Qed.

Lemma length_le128 n x : length (le128 n x) = n.
Proof. revert x. induction n as [|n IH]; intro x; cbn [le128 length]; [reflexivity|].
  rewrite IH. reflexivity. Qed.

Lemma be128_rev_le128 n x : be128 n x = rev (le128 n x).
Proof. revert x. induction n as [|n IH]; intro x; cbn [be128 le128 rev]; [reflexivity|].
  rewrite IH. reflexivity. Qed.

Lemma cont_be128 n x : forallb cont_byte (be128 n x) = true.
Proof.
  revert x. induction n as [|n IH]; intro x; cbn [be128]; [reflexivity|].
  rewrite forallb_app, IH. cbn [forallb]. unfold cont_byte.
  assert (x mod 128 < 128) by (apply N.mod_lt; lia).
  destruct (128 <=? 128 + x mod 128) eqn:A; destruct (128 + x mod 128 <? 256) eqn:B; try lia;
  reflexivity.
Qed.

Lemma cont_le128 n x : forallb cont_byte (le128 n x) = true.
Proof.
  revert x. induction n as [|n IH]; intro x; cbn [le128 forallb]; [reflexivity|].
  rewrite IH. unfold cont_byte.
  assert (x mod 128 < 128) by (apply N.mod_lt; lia).
  destruct (128 <=? 128 + x mod 128) eqn:A; destruct (128 + x mod 128 <? 256) eqn:B; try lia;
  reflexivity.
Qed.

Lemma bytes_ok_be128 n x : bytes_ok (be128 n x).
Proof.
  revert x. induction n as [|n IH]; intro x; cbn [be128]; [constructor|].
  apply bytes_ok_app; [apply IH|]. constructor; [|constructor].
  assert (x mod 128 < 128) by (apply N.mod_lt; lia). lia.
Qed.

Lemma bytes_ok_le128 n x : bytes_ok (le128 n x).
Proof.
  revert x. induction n as [|n IH]; intro x; cbn [le128]; constructor; [|apply IH].
  assert (x mod 128 < 128) by (apply N.mod_lt; lia). lia.
Qed.

(* Horner evaluation of a big-endian continuation string *)
Definition horner128 (acc : N) (l : list N) : N :=
  fold_left (fun acc c => acc * 128 + (c - 128)) l acc.

Lemma horner_be128 n x acc :
  horner128 acc (be128 n x) = acc * 128 ^ N.of_nat n + x mod 128 ^ N.of_nat n.
Proof.
  unfold horner128. revert x acc. induction n as [|n IH]; intros x acc.
  - cbn [be128 fold_left]. change (128 ^ N.of_nat 0) with 1. rewrite N.mod_1_r. lia.
  - cbn [be128]. rewrite fold_left_app, IH. cbn [fold_left].
    rewrite mod_pow128_S, pow128_S.
    set (P := 128 ^ N.of_nat n). set (m := (x / 128) mod P). lia.
Qed.

(* little-endian evaluation *)
Definition lsum128 (l : list N) : N :=
  fold_right (fun c acc => (c - 128) + 128 * acc) 0 l.

Lemma lsum_le128 n x : lsum128 (le128 n x) = x mod 128 ^ N.of_nat n.
Proof.
  unfold lsum128. revert x. induction n as [|n IH]; intro x.
  - cbn [le128 fold_right]. change (128 ^ N.of_nat 0) with 1. rewrite N.mod_1_r. reflexivity.
  - cbn [le128 fold_right]. rewrite IH, mod_pow128_S. lia.
Qed.

Lemma horner_bound l acc : forallb cont_byte l = true ->
  horner128 acc l < (acc + 1) * 128 ^ N.of_nat (length l).
Proof.
  unfold horner128. revert acc. induction l as [|c l IH]; intros acc H.
  - cbn [fold_left length]. change (128 ^ N.of_nat 0) with 1. lia.
  - cbn [forallb] in H. apply andb_true_iff in H. destruct H as [Hc Hl].
    cbn [fold_left length]. specialize (IH (acc * 128 + (c - 128)) Hl).
    rewrite pow128_S. unfold cont_byte in Hc.
    set (P := 128 ^ N.of_nat (length l)) in *.
    assert (c - 128 < 128) by lia.
    assert ((acc * 128 + (c - 128) + 1) * P <= (acc + 1) * (128 * P)) by nia.
    lia.
Qed.

Lemma lsum_bound l : forallb cont_byte l = true -> lsum128 l < 128 ^ N.of_nat (length l).
Proof.
  unfold lsum128. induction l as [|c l IH]; intro H.
  - cbn [fold_right length]. change (128 ^ N.of_nat 0) with 1. lia.
  - cbn [forallb] in H. apply andb_true_iff in H. destruct H as [Hc Hl].
    cbn [fold_right length]. specialize (IH Hl). rewrite pow128_S.
    unfold cont_byte in Hc. set (P := 128 ^ N.of_nat (length l)) in *.
    set (s := fold_right _ _ _) in *. lia.
Qed.
