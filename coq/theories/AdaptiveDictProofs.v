(* AdaptiveDictProofs.v — the DICT container: the dictionary decoder handed an
   input length that is only an UPPER bound of the encoding (adaptive passes
   varintAdaptiveMaxSize(maxCount) - 1), and the size bound of a dictionary
   encoding in terms of the element count. *)
Require Import VV.Base VV.BaseProofs VV.Tagged VV.TaggedProofs VV.TaggedSpecProofs.
Require Import VV.RLELemmas VV.RLE VV.RLEProofs VV.TaggedFixed VV.Dict VV.DictProofs VV.DictSafety.
Require Import VV.PFOR VV.PFORLemmas VV.Adaptive VV.AdaptiveLemmas.
From Coq Require Import Lia ZifyBool ZifyN ZifyNat Sorted.
Local Open Scope N_scope.
Ltac Zify.zify_post_hook ::= Z.div_mod_to_equations.

Lemma sdist_NoDup u : sdist u -> NoDup u.
Proof.
  unfold sdist. induction 1 as [|a l Hs IH Hf]; constructor; [|exact IH].
  intro Hin. rewrite Forall_forall in Hf. specialize (Hf a Hin). lia.
Qed.

Lemma dict_values_length_le xs : (length (dict_values_of xs) <= length xs)%nat.
Proof.
  destruct (dict_values_of_spec xs) as (Hs & Hin).
  apply NoDup_incl_length; [apply sdist_NoDup; exact Hs|].
  intros x Hx. apply Hin. exact Hx.
Qed.

Lemma entry_bytes_le9 u : (length (entry_bytes u) <= 9 * length u)%nat.
Proof.
  induction u as [|x t IH]; [cbn; lia|].
  unfold entry_bytes in *. cbn [flat_map length]. rewrite app_length, tagged_put_len_nat.
  pose proof (tagged_len_range x). lia.
Qed.

Lemma tagged_len_dict_size n : n <= 1048576 -> tagged_len n <= 4.
Proof.
  intro H. pose proof (tagged_len_mono n 1048576 H ltac:(lia)) as M.
  change (tagged_len 1048576) with 4 in M. exact M.
Qed.

(* 13 + 12 per value *)
Lemma adp_dict_bytes_bound xs d : dict_build xs = DictBuildOk d -> all_u64 xs ->
  u64_ok (N.of_nat (length xs)) ->
  N.of_nat (length (dict_bytes xs)) <= 13 + 12 * N.of_nat (length xs).
Proof.
  intros Hb Hxs Hcnt.
  destruct (build_facts xs d Hb Hxs) as (Hs & Hlen & Hu & Hne & Hin & Hd).
  unfold dict_bytes. set (u := dict_values_of xs) in *.
  destruct (rt_facts u xs Hlen Hne Hin Hcnt) as (Hw & Hlt & Hn & Hc).
  rewrite header_bytes_len in Hn. rewrite Hn.
  pose proof (dict_values_length_le xs) as L. fold u in L.
  pose proof (entry_bytes_le9 u) as E9.
  pose proof (tagged_len_dict_size (N.of_nat (length u)) ltac:(lia)) as T4.
  pose proof (tagged_len_range (N.of_nat (length xs))) as T9.
  destruct (dict_index_width_small (N.of_nat (length u)) ltac:(lia)) as [W|[W|W]]; rewrite W; lia.
Qed.

(* varintDictDecodeInto(buffer, B, out, cap) for ANY declared length B that
   covers the encoding *)
Theorem adp_dict_decode_into_len xs d tl cap B : dict_build xs = DictBuildOk d -> all_u64 xs ->
  u64_ok (N.of_nat (length xs)) -> N.of_nat (length (dict_bytes xs)) <= B ->
  dict_decode_into (dict_bytes xs ++ tl) B cap
  = if cap <? N.of_nat (length xs)
    then (if cap =? 0 then DictNull [] else DictNull [8 * N.of_nat (length (dict_values_of xs))])
    else DictOk xs [8 * N.of_nat (length (dict_values_of xs))].
Proof.
  intros Hb Hxs Hcnt HB.
  destruct (build_facts xs d Hb Hxs) as (Hs & Hlen & Hu & Hne & Hin & Hd).
  unfold dict_bytes in *. set (u := dict_values_of xs) in *.
  destruct (rt_facts u xs Hlen Hne Hin Hcnt) as (Hw & Hlt & Hn & Hc).
  set (w := dict_index_width (N.of_nat (length u))) in *.
  set (count := N.of_nat (length xs)) in *.
  unfold dict_decode_into. destruct (cap =? 0) eqn:E0.
  { replace (cap <? count) with true by lia. reflexivity. }
  unfold dict_bytes_with in *. fold w count in Hn, HB |- *. rewrite <- app_assoc.
  rewrite dict_read_header_ok; try exact Hu; try exact Hcnt; try lia.
  destruct (cap <? count) eqn:E1; [reflexivity|].
  set (hl := N.of_nat (length (header_bytes u count))) in *.
  assert (Hhl : hl + count * N.of_nat w <= B) by lia.
  replace (N.to_nat (B - (B - hl))) with (length (header_bytes u count)) by lia.
  rewrite skipn_app_len' by reflexivity. fold w.
  replace ((B - hl) / N.of_nat w <? count) with false.
  2:{ symmetry. apply N.ltb_ge. apply N.div_le_lower_bound; lia. }
  rewrite dict_decode_indices_ok; try assumption; try lia; [reflexivity|].
  assert (count <= count * N.of_nat w) by nia. lia.
Qed.

(* the DICT case of varintAdaptiveEncodeWith / Decode *)
Lemma adp_encode_with_dict_ok xs d : dict_build xs = DictBuildOk d -> all_u64 xs ->
  u64_ok (N.of_nat (length xs)) ->
  adp_encode_with xs 3
  = AEOk (3 :: dict_bytes xs)
         (mk_adp_meta 3 (N.of_nat (length xs)) (u64 (N.of_nat (length (dict_bytes xs)) + 1)) None None).
Proof.
  intros Hb Hxs Hc. unfold adp_encode_with. cbv zeta.
  rewrite (dict_encode_is_spec xs d Hb Hxs Hc). cbn [fst]. unfold dict_ret. cbn [fst snd].
  rewrite adp_len_spec.
  destruct (dict_build_ok xs d Hb) as (Hne & _ & _).
  destruct (N.of_nat (length (dict_bytes xs)) =? 0) eqn:E; [|reflexivity].
  exfalso. unfold dict_bytes, dict_bytes_with, header_bytes in E. rewrite !app_length in E.
  pose proof (tagged_put_len_nat (N.of_nat (length (dict_values_of xs)))) as T.
  pose proof (tagged_len_range (N.of_nat (length (dict_values_of xs)))). lia.
Qed.

(* more than 2^20 distinct values: the encoder refuses, EncodeWith returns 0
   after writing only the type byte *)
Lemma adp_encode_with_dict_refused xs : xs <> [] ->
  1048576 < N.of_nat (length (dict_values_of xs)) ->
  adp_encode_with xs 3 = AEFail [3].
Proof.
  intros Hne H. unfold adp_encode_with. cbv zeta.
  destruct (dict_build_refuses xs H) as (A & B & _). rewrite A, B. rewrite adp_len_spec.
  destruct xs; [congruence|]. cbn [length N.eqb].
  replace (0 <? N.of_nat (S (length xs))) with true by lia. reflexivity.
Qed.

Lemma adp_max_size_small n : n < 576460752303423488 -> adp_max_size n = 21 + 22 * n.
Proof.
  intro H. unfold adp_max_size, mul64. rewrite (N.mod_small (n * 22)) by lia.
  rewrite u64_small by lia. lia.
Qed.

Lemma adp_decode_dict xs d tl cap : dict_build xs = DictBuildOk d -> all_u64 xs ->
  N.of_nat (length xs) < 576460752303423488 -> N.of_nat (length xs) <= cap -> cap < 576460752303423488 ->
  adp_decode ((3 :: dict_bytes xs) ++ tl) cap = ADOk (N.of_nat (length xs)) xs None.
Proof.
  intros Hb Hxs Hn Hcap Hcap2. unfold adp_decode. cbn [app].
  rewrite adp_max_size_small by exact Hcap2.
  assert (Hc : u64_ok (N.of_nat (length xs))) by (unfold u64_ok; lia).
  pose proof (adp_dict_bytes_bound xs d Hb Hxs Hc) as Bd.
  rewrite (adp_dict_decode_into_len xs d tl cap (21 + 22 * cap - 1) Hb Hxs Hc) by lia.
  replace (cap <? N.of_nat (length xs)) with false by lia.
  rewrite adp_len_spec. reflexivity.
Qed.


(* ---------- a declared length that cuts the header: the bounded reads fail ---------- *)
Lemma tagged_put_first_byte x tl : byte_at (tagged_put64 x ++ tl) 0 < 256.
Proof.
  unfold tagged_put64, write32. cbv zeta.
  repeat match goal with |- context [if ?b then _ else _] => destruct b end;
    cbn [app byte_at nth]; try lia; apply u8_lt.
Qed.

Lemma tagged_get_cut x tl avail : x < 18446744073709551616 -> avail < tagged_len x ->
  fst (tagged_get (tagged_put64 x ++ tl) (rle_tagged_avail avail)) = 0.
Proof.
  intros Hx Ha. apply tagged_get_short; [apply tagged_put_first_byte|].
  rewrite tagged_getlen_put by exact Hx. pose proof (tagged_len_range x).
  unfold rle_tagged_avail. destruct (9 <? avail) eqn:E; lia.
Qed.

Lemma dict_read_entries_cut u : forall fuel rest avail i dictSize,
  all_u64 u -> i + N.of_nat (length u) = dictSize ->
  avail < N.of_nat (length (entry_bytes u)) -> (N.to_nat avail < fuel)%nat ->
  dict_read_entries fuel (entry_bytes u ++ rest) avail i dictSize = Some None.
Proof.
  induction u as [|x t IH]; intros fuel rest avail i dictSize Hu Hsum Hav Hf.
  - cbn [entry_bytes flat_map length] in Hav. lia.
  - pose proof (Forall_inv Hu) as Hx. pose proof (Forall_inv_tail Hu) as Ht.
    destruct fuel as [|f]; [lia|].
    cbn [dict_read_entries]. cbn [length] in Hsum. subst dictSize.
    replace (i <? i + N.of_nat (S (length t))) with true by lia.
    unfold entry_bytes in *. cbn [flat_map] in *. rewrite app_length, tagged_put_len_nat in Hav.
    rewrite <- app_assoc.
    destruct (N.lt_ge_cases avail (tagged_len x)) as [C|C].
    + rewrite tagged_get_cut by assumption. reflexivity.
    + rewrite tagged_roundtrip by (try exact Hx; apply rle_tagged_avail_ge; lia).
      cbn [fst snd]. pose proof (tagged_len_ge1 x). replace (tagged_len x =? 0) with false by lia.
      rewrite skipn_put.
      rewrite (IH f rest (avail - tagged_len x) (i + 1) (i + N.of_nat (S (length t))))
        by (assumption || lia). reflexivity.
Qed.

Lemma dict_read_header_cut u count rest n :
  all_u64 u -> N.of_nat (length u) <= 1048576 -> u64_ok count ->
  n < N.of_nat (length (header_bytes u count)) ->
  exists al, dict_read_header (header_bytes u count ++ rest) n = DictHFail al.
Proof.
  intros Hu Hlen Hc Hn. rewrite header_bytes_len in Hn.
  pose proof (tagged_len_ge1 (N.of_nat (length u))). pose proof (tagged_len_ge1 count).
  pose proof (entry_bytes_len_ge u) as Hge.
  unfold dict_read_header, header_bytes. destruct (n =? 0) eqn:E0; [eexists; reflexivity|].
  rewrite <- !app_assoc.
  destruct (N.lt_ge_cases n (tagged_len (N.of_nat (length u)))) as [C|C].
  { rewrite tagged_get_cut by (try assumption; unfold u64_ok in *; lia). eexists; reflexivity. }
  rewrite tagged_roundtrip by (try (unfold u64_ok; lia); apply rle_tagged_avail_ge; lia).
  cbn [fst snd]. replace (tagged_len (N.of_nat (length u)) =? 0) with false by lia.
  unfold dict_max_size. replace (1048576 <? N.of_nat (length u)) with false by lia.
  rewrite skipn_put.
  replace (u32 (N.of_nat (length u))) with (N.of_nat (length u)) by (unfold u32; lia).
  remember (n - tagged_len (N.of_nat (length u))) as a1 eqn:Ea1.
  destruct (N.lt_ge_cases a1 (N.of_nat (length (entry_bytes u)))) as [D|D].
  { rewrite dict_read_entries_cut by (try assumption; lia). eexists; reflexivity. }
  rewrite dict_read_entries_ok by (try assumption; lia).
  replace (N.to_nat (a1 - (a1 - N.of_nat (length (entry_bytes u))))) with (length (entry_bytes u)) by lia.
  rewrite skipn_app_len.
  rewrite tagged_get_cut by (try exact Hc; lia). eexists; reflexivity.
Qed.

(* capacity below the count: failure, nothing stored, whatever the declared length *)
Lemma adp_dict_decode_into_short xs d tl cap B : dict_build xs = DictBuildOk d -> all_u64 xs ->
  u64_ok (N.of_nat (length xs)) -> cap < N.of_nat (length xs) ->
  exists al, dict_decode_into (dict_bytes xs ++ tl) B cap = DictNull al.
Proof.
  intros Hb Hxs Hcnt Hcap.
  destruct (build_facts xs d Hb Hxs) as (Hs & Hlen & Hu & Hne & Hin & Hd).
  unfold dict_bytes. set (u := dict_values_of xs) in *.
  unfold dict_decode_into. destruct (cap =? 0) eqn:E0; [eexists; reflexivity|].
  unfold dict_bytes_with. rewrite <- app_assoc.
  destruct (N.lt_ge_cases B (N.of_nat (length (header_bytes u (N.of_nat (length xs)))))) as [C|C].
  - destruct (dict_read_header_cut u (N.of_nat (length xs)) (index_bytes u (dict_index_width (N.of_nat (length u))) xs ++ tl) B
                Hu ltac:(lia) Hcnt C) as (al & E).
    rewrite E. eexists; reflexivity.
  - rewrite dict_read_header_ok; try exact Hu; try exact Hcnt; try lia.
    replace (cap <? N.of_nat (length xs)) with true by lia. eexists; reflexivity.
Qed.

Lemma adp_decode_dict_short xs d tl cap : dict_build xs = DictBuildOk d -> all_u64 xs ->
  u64_ok (N.of_nat (length xs)) -> cap < N.of_nat (length xs) ->
  adp_decode ((3 :: dict_bytes xs) ++ tl) cap = ADOk 0 [] None.
Proof.
  intros Hb Hxs Hc Hcap. unfold adp_decode. cbn [app].
  destruct (adp_dict_decode_into_short xs d tl cap (adp_max_size cap - 1) Hb Hxs Hc Hcap) as (al & E).
  rewrite E. reflexivity.
Qed.
