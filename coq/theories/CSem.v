(* CSem.v — the small C semantics into which gen/c2coq.py translates C
   functions (shallow embedding).  Hand-written, in the trusted base together
   with the translator.  No proofs here (CSemProofs.v).

   A C integer value is a [Z]; its C type is known statically to the
   translator (clang's AST gives the type of every node and every implicit
   conversion), which picks the operation for that type.  A translated
   expression is a term of type [cres Z]:

     COk v     the C abstract machine yields v
     CUB why   the C standard leaves the behaviour undefined (signed overflow,
               bad shift, division by zero, read of an unassigned object,
               falling off a non-void function)
     COob      a load or store outside the byte list that stands for the
               object a pointer parameter points to
     CFuel     a loop did not finish within the number of iterations (fuel)
               the caller of the rendering allowed; says nothing about the C

   Platform: LP64, two's complement, CHAR_BIT = 8.  Implementation-defined
   choices are those of gcc/clang: conversion to a signed type wraps modulo
   2^N, >> of a negative value is arithmetic. *)
Require Import VV.Base.
From Coq Require Export ZArith NArith List Bool.
Local Open Scope Z_scope.

Inductive cub : Type :=
| UB_signed_overflow | UB_shift | UB_div_zero | UB_uninit_read | UB_no_return | UB_null_deref.

Inductive cres (A : Type) : Type :=
| COk (a : A)
| CUB (why : cub)
| COob
| CFuel.
Arguments COk {A} a.
Arguments CUB {A} why.
Arguments COob {A}.
Arguments CFuel {A}.

Definition bind {A B : Type} (m : cres A) (f : A -> cres B) : cres B :=
  match m with
  | COk a => f a
  | CUB w => CUB w
  | COob => COob
  | CFuel => CFuel
  end.

Declare Scope csem_scope.
Delimit Scope csem_scope with csem.
Notation "x <- c1 ;; c2" := (bind c1 (fun x => c2))
  (at level 61, c1 at next level, right associativity) : csem_scope.
Notation "' pat <- c1 ;; c2" := (bind c1 (fun x => match x with pat => c2 end))
  (at level 61, pat pattern, c1 at next level, right associativity) : csem_scope.
Local Open Scope csem_scope.

(* ---------- integer types ---------- *)

Inductive ity : Type := TBool | TS8 | TU8 | TS16 | TU16 | TS32 | TU32 | TS64 | TU64.

Definition ity_signed (t : ity) : bool :=
  match t with TS8 | TS16 | TS32 | TS64 => true | _ => false end.
Definition ity_bits (t : ity) : Z :=
  match t with
  | TBool => 1 | TS8 | TU8 => 8 | TS16 | TU16 => 16 | TS32 | TU32 => 32 | TS64 | TU64 => 64
  end.
(* 2^bits *)
Definition ity_mod (t : ity) : Z :=
  match t with
  | TBool => 2 | TS8 | TU8 => 256 | TS16 | TU16 => 65536
  | TS32 | TU32 => 4294967296 | TS64 | TU64 => 18446744073709551616
  end.
Definition ity_min (t : ity) : Z :=
  match t with
  | TS8 => -128 | TS16 => -32768 | TS32 => -2147483648 | TS64 => -9223372036854775808
  | _ => 0
  end.
Definition ity_max (t : ity) : Z :=
  match t with
  | TBool => 1
  | TS8 => 127 | TU8 => 255 | TS16 => 32767 | TU16 => 65535
  | TS32 => 2147483647 | TU32 => 4294967295
  | TS64 => 9223372036854775807 | TU64 => 18446744073709551615
  end.
Definition in_range (t : ity) (v : Z) : bool := (ity_min t <=? v) && (v <=? ity_max t).

(* every value of type a is a value of type b *)
Definition ity_sub (a b : ity) : bool := (ity_min b <=? ity_min a) && (ity_max a <=? ity_max b).

(* conversion to type t (C11 6.3.1.2, 6.3.1.3) *)
Definition wrap (t : ity) (v : Z) : Z :=
  match t with
  | TBool => if v =? 0 then 0 else 1
  | _ => if ity_signed t then (v - ity_min t) mod ity_mod t + ity_min t else v mod ity_mod t
  end.

(* ---------- expressions ---------- *)

Definition lift1 (f : Z -> cres Z) (a : cres Z) : cres Z := x <- a ;; f x.
Definition lift2 (f : Z -> Z -> cres Z) (a b : cres Z) : cres Z := x <- a ;; y <- b ;; f x y.

(* result r of an arithmetic operation carried out in type t *)
Definition arith (t : ity) (r : Z) : cres Z :=
  if ity_signed t then (if in_range t r then COk r else CUB UB_signed_overflow)
  else COk (r mod ity_mod t).

(* a value of type [from] converted to type [to]; unchanged when every value
   of [from] is representable in [to] *)
Definition c_cast (from to : ity) : cres Z -> cres Z :=
  lift1 (fun x => COk (if ity_sub from to then x else wrap to x)).

Definition c_add (t : ity) := lift2 (fun x y => arith t (x + y)).
Definition c_sub (t : ity) := lift2 (fun x y => arith t (x - y)).
Definition c_mul (t : ity) := lift2 (fun x y => arith t (x * y)).
Definition c_neg (t : ity) := lift1 (fun x => arith t (- x)).
(* / and % truncate towards zero; unsigned operands are non-negative, where
   truncation and flooring agree *)
Definition c_div (t : ity) := lift2 (fun x y =>
  if y =? 0 then CUB UB_div_zero
  else if ity_signed t then arith t (Z.quot x y) else COk (x / y)).
Definition c_rem (t : ity) := lift2 (fun x y =>
  if y =? 0 then CUB UB_div_zero
  else if ity_signed t then
    (if in_range t (Z.quot x y) then COk (Z.rem x y) else CUB UB_signed_overflow)
  else COk (x mod y)).
(* t is the promoted type of the left operand; the count n has any type *)
Definition c_shl (t : ity) := lift2 (fun x n =>
  if (0 <=? n) && (n <? ity_bits t) then
    if ity_signed t then
      (if (0 <=? x) && in_range t (x * 2 ^ n) then COk (x * 2 ^ n) else CUB UB_shift)
    else COk ((x * 2 ^ n) mod ity_mod t)
  else CUB UB_shift).
Definition c_shr (t : ity) := lift2 (fun x n =>
  if (0 <=? n) && (n <? ity_bits t) then COk (x / 2 ^ n) else CUB UB_shift).
(* on two's complement representations & | ^ are those of Z (infinite sign
   extension); operands and results are in the range of t *)
Definition c_and (t : ity) := lift2 (fun x y => COk (Z.land x y)).
Definition c_or (t : ity) := lift2 (fun x y => COk (Z.lor x y)).
Definition c_xor (t : ity) := lift2 (fun x y => COk (Z.lxor x y)).
Definition c_not (t : ity) := lift1 (fun x => COk (if ity_signed t then - x - 1 else ity_max t - x)).

(* comparisons yield int 0 / 1; both operands already have the common type *)
Definition b2z (b : bool) : Z := if b then 1 else 0.
Definition c_lt := lift2 (fun x y => COk (b2z (x <? y))).
Definition c_le := lift2 (fun x y => COk (b2z (x <=? y))).
Definition c_gt := lift2 (fun x y => COk (b2z (y <? x))).
Definition c_ge := lift2 (fun x y => COk (b2z (y <=? x))).
Definition c_eq := lift2 (fun x y => COk (b2z (x =? y))).
Definition c_ne := lift2 (fun x y => COk (b2z (negb (x =? y)))).
Definition c_lnot := lift1 (fun x => COk (b2z (x =? 0))).
(* && and || evaluate the right operand only when needed *)
Definition c_land (a b : cres Z) : cres Z :=
  x <- a ;; if x =? 0 then COk 0 else y <- b ;; COk (b2z (negb (y =? 0))).
Definition c_lor (a b : cres Z) : cres Z :=
  x <- a ;; if x =? 0 then y <- b ;; COk (b2z (negb (y =? 0))) else COk 1.
Definition c_cond {A : Type} (c : cres Z) (a b : cres A) : cres A :=
  x <- c ;; if x =? 0 then b else a.
(* p + i on a byte pointer: offsets are plain integers, the bounds are
   checked at the access *)
Definition c_padd := lift2 (fun x y => COk (x + y)).
Definition c_psub := lift2 (fun x y => COk (x - y)).

(* ---------- memory ---------- *)

(* the object a `uint8_t *` parameter points to is a list of bytes; index i is
   the byte at p[i]; an access outside the list is COob *)
Definition c_load (m : list N) (i : cres Z) : cres Z :=
  k <- i ;;
  if (0 <=? k) && (k <? Z.of_nat (length m)) then COk (Z.of_N (byte_at m (Z.to_nat k))) else COob.
Fixpoint upd (m : list N) (k : nat) (v : N) : list N :=
  match m, k with
  | [], _ => []
  | _ :: t, O => v :: t
  | h :: t, S k' => h :: upd t k' v
  end.
Definition c_store (m : list N) (i v : cres Z) : cres (list N) :=
  k <- i ;; x <- v ;;
  if (0 <=? k) && (k <? Z.of_nat (length m)) then COk (upd m (Z.to_nat k) (Z.to_N x)) else COob.

(* p + k passed to a function that takes a byte pointer: the callee sees the
   object from index k on (so an index below k is COob in the callee even where
   C would allow it: conservative); a callee that may write returns its view,
   which is put back in place *)
Definition c_view (m : list N) (off : cres Z) : cres (list N) :=
  k <- off ;;
  if (0 <=? k) && (k <=? Z.of_nat (length m)) then COk (skipn (Z.to_nat k) m) else COob.
Definition c_unview (m : list N) (off : cres Z) (m' : list N) : cres (list N) :=
  k <- off ;;
  if (0 <=? k) && (k <=? Z.of_nat (length m)) then COk (firstn (Z.to_nat k) m ++ m') else COob.

(* a local `uint8_t a[n]`: every element starts without a value *)
Definition c_anew (n : nat) : list (option N) := repeat None n.
Fixpoint aupd (m : list (option N)) (k : nat) (v : option N) : list (option N) :=
  match m, k with
  | [], _ => []
  | _ :: t, O => v :: t
  | h :: t, S k' => h :: aupd t k' v
  end.
Fixpoint anth (m : list (option N)) (k : nat) : option N :=
  match m, k with
  | [], _ => None
  | h :: _, O => h
  | _ :: t, S k' => anth t k'
  end.
Definition c_aload (m : list (option N)) (i : cres Z) : cres Z :=
  k <- i ;;
  if (0 <=? k) && (k <? Z.of_nat (length m)) then
    match anth m (Z.to_nat k) with
    | Some b => COk (Z.of_N b)
    | None => CUB UB_uninit_read
    end
  else COob.
Definition c_astore (m : list (option N)) (i v : cres Z) : cres (list (option N)) :=
  k <- i ;; x <- v ;;
  if (0 <=? k) && (k <? Z.of_nat (length m)) then COk (aupd m (Z.to_nat k) (Some (Z.to_N x))) else COob.

(* the object a `uint64_t *` (any non-byte scalar type) parameter that the
   function indexes points to: a list of values, index i is p[i] *)
Fixpoint zupd (m : list Z) (k : nat) (v : Z) : list Z :=
  match m, k with
  | [], _ => []
  | _ :: t, O => v :: t
  | h :: t, S k' => h :: zupd t k' v
  end.
Definition c_zload (m : list Z) (i : cres Z) : cres Z :=
  k <- i ;;
  if (0 <=? k) && (k <? Z.of_nat (length m)) then COk (nth (Z.to_nat k) m 0) else COob.
Definition c_zstore (m : list Z) (i v : cres Z) : cres (list Z) :=
  k <- i ;; x <- v ;;
  if (0 <=? k) && (k <? Z.of_nat (length m)) then COk (zupd m (Z.to_nat k) x) else COob.

(* a scalar object reached through a pointer (`uint64_t *pResult`, or a local
   whose address is passed to a callee): None = not assigned yet *)
Definition c_cell_read (c : option Z) : cres Z :=
  match c with Some v => COk v | None => CUB UB_uninit_read end.

(* ---------- loops ---------- *)

(* one iteration of a loop over the state s (the variables and byte objects the
   loop mentions): go round again, leave the loop, or return from the function *)
Inductive lstep (S R : Type) : Type :=
| LNext (s : S)
| LBreak (s : S)
| LRet (r : R).
Arguments LNext {S R} s.
Arguments LBreak {S R} s.
Arguments LRet {S R} r.

Fixpoint c_while {S R : Type} (fuel : nat) (step : S -> cres (lstep S R)) (s : S) : cres (lstep S R) :=
  match fuel with
  | O => CFuel
  | Datatypes.S f =>
      r <- step s ;;
      match r with
      | LNext s' => c_while f step s'
      | _ => COk r
      end
  end.

(* __builtin_{s,u}add/sub/mul{,l,ll}_overflow(a, b, &r), as gcc documents it: the
   operation is carried out on the mathematical values; r receives the result
   converted to its type t; the call yields 1 iff r differs from the
   mathematical result *)
Definition c_overflow (t : ity) (r : Z) : Z * Z := (b2z (negb (in_range t r)), wrap t r).
