(* TaggedSpecProofs.v — the model's encoder equals the independent spec;
   order, prefix-freeness, canonicity, monotone lengths. *)
Require Import VV.Base VV.BaseProofs VV.Tagged VV.TaggedProofs VV.TaggedSpec.
From Coq Require Import Lia ZifyBool ZifyN ZifyNat.
Local Open Scope N_scope.
Ltac Zify.zify_post_hook ::= Z.div_mod_to_equations.

Lemma le_bytes_nth k x :
  le_bytes k x = map (fun i => (x / 256 ^ N.of_nat i) mod 256) (seq 0 k).
Proof.
  revert x. induction k as [|k IH]; intro x; [reflexivity|].
  cbn [le_bytes seq map]. rewrite IH. rewrite <- seq_shift, map_map.
  f_equal.
  - change (256 ^ N.of_nat 0) with 1. rewrite N.div_1_r. reflexivity.
  - apply map_ext. intro i. rewrite N.div_div by (try apply N.pow_nonzero; lia).
    rewrite Nat2N.inj_succ, N.pow_succ_r'. reflexivity.
Qed.

Lemma be_bytes_3 x : be_bytes 3 x = [(x / 65536) mod 256; (x / 256) mod 256; x mod 256].
Proof. unfold be_bytes. rewrite le_bytes_nth. cbn [seq map rev app].
  change (256 ^ N.of_nat 0) with 1. rewrite N.div_1_r. reflexivity. Qed.
Lemma be_bytes_4 x : be_bytes 4 x =
  [(x / 16777216) mod 256; (x / 65536) mod 256; (x / 256) mod 256; x mod 256].
Proof. unfold be_bytes. rewrite le_bytes_nth. cbn [seq map rev app].
  change (256 ^ N.of_nat 0) with 1. rewrite N.div_1_r. reflexivity. Qed.
Lemma be_bytes_5 x : be_bytes 5 x =
  [(x / 4294967296) mod 256; (x / 16777216) mod 256; (x / 65536) mod 256; (x / 256) mod 256; x mod 256].
Proof. unfold be_bytes. rewrite le_bytes_nth. cbn [seq map rev app].
  change (256 ^ N.of_nat 0) with 1. rewrite N.div_1_r. reflexivity. Qed.
Lemma be_bytes_6 x : be_bytes 6 x =
  [(x / 1099511627776) mod 256; (x / 4294967296) mod 256; (x / 16777216) mod 256;
   (x / 65536) mod 256; (x / 256) mod 256; x mod 256].
Proof. unfold be_bytes. rewrite le_bytes_nth. cbn [seq map rev app].
  change (256 ^ N.of_nat 0) with 1. rewrite N.div_1_r. reflexivity. Qed.
Lemma be_bytes_7 x : be_bytes 7 x =
  [(x / 281474976710656) mod 256; (x / 1099511627776) mod 256; (x / 4294967296) mod 256;
   (x / 16777216) mod 256; (x / 65536) mod 256; (x / 256) mod 256; x mod 256].
Proof. unfold be_bytes. rewrite le_bytes_nth. cbn [seq map rev app].
  change (256 ^ N.of_nat 0) with 1. rewrite N.div_1_r. reflexivity. Qed.
Lemma be_bytes_8 x : be_bytes 8 x =
  [(x / 72057594037927936) mod 256; (x / 281474976710656) mod 256; (x / 1099511627776) mod 256;
   (x / 4294967296) mod 256; (x / 16777216) mod 256; (x / 65536) mod 256; (x / 256) mod 256; x mod 256].
Proof. unfold be_bytes. rewrite le_bytes_nth. cbn [seq map rev app].
  change (256 ^ N.of_nat 0) with 1. rewrite N.div_1_r. reflexivity. Qed.

Ltac norm_pow :=
  repeat match goal with
  | |- context [256 ^ N.of_nat ?k] =>
      let v := eval vm_compute in (256 ^ N.of_nat k) in change (256 ^ N.of_nat k) with v
  end.

Lemma ext_width_is x k : x < 18446744073709551616 -> (1 <= k)%nat ->
  x < 256 ^ N.of_nat k -> 256 ^ N.of_nat (k - 1) <= x -> ext_width x = k.
Proof. intros. apply ext_width_unique; try assumption. right. assumption. Qed.

Ltac ew k :=
  match goal with |- context [ext_width ?x] =>
    rewrite (ext_width_is x k) by (norm_pow; lia)
  end.

Theorem tagged_put_is_spec x : x < 18446744073709551616 -> tagged_put64 x = tagged_spec x.
Proof.
  intro Hx. unfold tagged_put64, tagged_spec. cbv zeta.
  destruct (x <=? 240) eqn:E1; [unfold u8; f_equal; lia|].
  destruct (x <=? 2287) eqn:E2; [unfold u8, u32; repeat (f_equal; try lia)|].
  destruct (x <=? 67823) eqn:E3; [unfold u8, u32; repeat (f_equal; try lia)|].
  unfold write32, u32, shr, u8.
  destruct (_ =? 0) eqn:E4.
  - destruct (_ <=? 16777215) eqn:E5.
    + assert (ext_width x = 3%nat \/ ext_width x = 2%nat) as [W|W].
      { destruct (N.le_gt_cases 65536 x).
        - left. apply ext_width_is; norm_pow; lia.
        - right. apply ext_width_is; norm_pow; lia. }
      all: rewrite W; cbn [Nat.max N.of_nat Pos.of_succ_nat Pos.succ N.add Pos.add];
        rewrite be_bytes_3; repeat (f_equal; try lia).
    + ew 4%nat.
      cbn [Nat.max N.of_nat Pos.of_succ_nat Pos.succ N.add Pos.add].
      rewrite be_bytes_4; repeat (f_equal; try lia).
  - destruct (_ <=? 255) eqn:E5; [|destruct (_ <=? 65535) eqn:E6; [|destruct (_ <=? 16777215) eqn:E7]].
    + ew 5%nat.
      cbn [Nat.max N.of_nat Pos.of_succ_nat Pos.succ N.add Pos.add].
      rewrite be_bytes_5; repeat (f_equal; try lia).
    + ew 6%nat.
      cbn [Nat.max N.of_nat Pos.of_succ_nat Pos.succ N.add Pos.add].
      rewrite be_bytes_6; repeat (f_equal; try lia).
    + ew 7%nat.
      cbn [Nat.max N.of_nat Pos.of_succ_nat Pos.succ N.add Pos.add].
      rewrite be_bytes_7; repeat (f_equal; try lia).
    + ew 8%nat.
      cbn [Nat.max N.of_nat Pos.of_succ_nat Pos.succ N.add Pos.add app].
      rewrite be_bytes_8; repeat (f_equal; try lia).
Qed.

(* ---------- ordering ---------- *)

Lemma kmax_facts a : a < 18446744073709551616 ->
  let k := Nat.max 3 (ext_width a) in
  (3 <= k <= 8)%nat /\ a < 256 ^ N.of_nat k /\ (k = 3%nat \/ 256 ^ N.of_nat (k - 1) <= a).
Proof.
  intros Ha k. destruct (ext_width_bounds a Ha) as (A & B & C).
  subst k. set (w := ext_width a) in *.
  destruct (Nat.le_gt_cases w 3) as [L|G].
  - rewrite Nat.max_l by lia. split; [lia|]. split; [|left; reflexivity].
    pose proof (pow256_mono w 3 L). lia.
  - rewrite Nat.max_r by lia. split; [lia|]. split; [exact B|].
    destruct C as [C|C]; [lia|]. right. exact C.
Qed.

Lemma big_lt a b : a < 18446744073709551616 -> b < 18446744073709551616 -> a < b ->
  lex ((N.of_nat (Nat.max 3 (ext_width a)) + 247) :: be_bytes (Nat.max 3 (ext_width a)) a)
      ((N.of_nat (Nat.max 3 (ext_width b)) + 247) :: be_bytes (Nat.max 3 (ext_width b)) b) = Lt.
Proof.
  intros Ha Hb Hab.
  destruct (kmax_facts a Ha) as (A1 & A2 & A3). destruct (kmax_facts b Hb) as (B1 & B2 & B3).
  cbv zeta in *. set (ka := Nat.max 3 (ext_width a)) in *. set (kb := Nat.max 3 (ext_width b)) in *.
  destruct (Nat.lt_trichotomy ka kb) as [L|[E|G]].
  - apply lex_cons_lt. lia.
  - rewrite E in A2 |- *. rewrite lex_cons_eq. rewrite lex_be_bytes_small by assumption.
    apply N.compare_lt_iff. exact Hab.
  - exfalso. destruct A3 as [A3|A3]; [lia|].
    pose proof (pow256_mono kb (ka - 1) ltac:(lia)). lia.
Qed.

Lemma tagged_spec_lt a b : a < 18446744073709551616 -> b < 18446744073709551616 -> a < b ->
  lex (tagged_spec a) (tagged_spec b) = Lt.
Proof.
  intros Ha Hb Hab. unfold tagged_spec. cbv zeta.
  destruct (a <=? 240) eqn:A1; destruct (b <=? 240) eqn:B1; try lia.
  - apply lex_cons_lt. lia.
  - destruct (b <=? 2287) eqn:B2; [apply lex_cons_lt; lia|].
    destruct (b <=? 67823) eqn:B3; [apply lex_cons_lt; lia|].
    apply lex_cons_lt. pose proof (kmax_facts b Hb) as (K & _). cbv zeta in K. lia.
  - destruct (a <=? 2287) eqn:A2; destruct (b <=? 2287) eqn:B2; try lia.
    + (* both 2-byte *)
      destruct (N.compare_spec ((a - 240) / 256) ((b - 240) / 256)) as [E|E|E].
      * replace (241 + (a - 240) / 256) with (241 + (b - 240) / 256) by lia.
        rewrite lex_cons_eq. apply lex_cons_lt. lia.
      * apply lex_cons_lt. lia.
      * lia.
    + destruct (b <=? 67823) eqn:B3; [apply lex_cons_lt; lia|].
      apply lex_cons_lt. pose proof (kmax_facts b Hb) as (K & _). cbv zeta in K. lia.
    + destruct (a <=? 67823) eqn:A3; destruct (b <=? 67823) eqn:B3; try lia.
      * rewrite lex_cons_eq.
        destruct (N.compare_spec ((a - 2288) / 256) ((b - 2288) / 256)) as [E|E|E].
        -- rewrite E. rewrite lex_cons_eq. apply lex_cons_lt. lia.
        -- apply lex_cons_lt. lia.
        -- lia.
      * apply lex_cons_lt. pose proof (kmax_facts b Hb) as (K & _). cbv zeta in K. lia.
      * apply big_lt; assumption.
Qed.

Lemma lex_antisym a b : lex a b = Lt -> lex b a = Gt.
Proof.
  revert b. induction a as [|x a IH]; intros [|y b]; simpl; try congruence.
  rewrite (N.compare_antisym x y). destruct (x ?= y); simpl; try congruence. apply IH.
Qed.

Theorem tagged_spec_order a b : a < 18446744073709551616 -> b < 18446744073709551616 ->
  lex (tagged_spec a) (tagged_spec b) = (a ?= b).
Proof.
  intros Ha Hb. destruct (N.compare_spec a b) as [E|L|G].
  - subst. apply lex_refl.
  - apply tagged_spec_lt; assumption.
  - apply lex_antisym. apply tagged_spec_lt; assumption.
Qed.

Theorem tagged_order a b : a < 18446744073709551616 -> b < 18446744073709551616 ->
  lex (tagged_put64 a) (tagged_put64 b) = (a ?= b).
Proof. intros. rewrite !tagged_put_is_spec by assumption. apply tagged_spec_order; assumption. Qed.

Theorem tagged_injective a b : a < 18446744073709551616 -> b < 18446744073709551616 ->
  tagged_put64 a = tagged_put64 b -> a = b.
Proof.
  intros Ha Hb E. apply N.compare_eq. rewrite <- (tagged_order a b Ha Hb). rewrite E. apply lex_refl.
Qed.

(* ---------- lengths, prefix-freeness, tuples ---------- *)

Lemma tagged_len_range x : 1 <= tagged_len x <= 9.
Proof. unfold tagged_len. cbv zeta. kill_ifs; lia. Qed.

Lemma tagged_put_length x : N.of_nat (length (tagged_put64 x)) = tagged_len x.
Proof.
  unfold tagged_put64, tagged_len, write32. cbv zeta.
  kill_ifs; reflexivity.
Qed.

Lemma tagged_getlen_put x tl : x < 18446744073709551616 ->
  tagged_getlen (tagged_put64 x ++ tl) = tagged_len x.
Proof.
  intro Hx. unfold tagged_put64, tagged_len, tagged_getlen, write32. cbv zeta.
  destruct (x <=? 240) eqn:E1; [cbn [byte_at nth app]; unfold u8; kill_ifs; lia|].
  destruct (x <=? 2287) eqn:E2; [cbn [byte_at nth app]; unfold u8, u32; kill_ifs; lia|].
  destruct (x <=? 67823) eqn:E3; [reflexivity|].
  destruct (_ =? 0) eqn:E4; [destruct (_ <=? 16777215) eqn:E5; reflexivity|].
  destruct (_ <=? 255) eqn:E5; [reflexivity|].
  destruct (_ <=? 65535) eqn:E6; [reflexivity|].
  destruct (_ <=? 16777215) eqn:E7; reflexivity.
Qed.

Definition prefix (p q : list N) : Prop := exists t, q = p ++ t.

Theorem tagged_prefix_free a b : a < 18446744073709551616 -> b < 18446744073709551616 ->
  prefix (tagged_put64 a) (tagged_put64 b) -> a = b.
Proof.
  intros Ha Hb [t Ht].
  assert (L : tagged_len a = tagged_len b).
  { rewrite <- (tagged_getlen_put a t Ha). rewrite <- Ht.
    rewrite <- (tagged_getlen_put b [] Hb). rewrite app_nil_r. reflexivity. }
  assert (t = []).
  { apply (f_equal (@length N)) in Ht. rewrite app_length in Ht.
    pose proof (tagged_put_length a). pose proof (tagged_put_length b).
    destruct t; [reflexivity|]. simpl in Ht. lia. }
  subst t. rewrite app_nil_r in Ht. symmetry. apply tagged_injective; assumption.
Qed.

Lemma lex_app_lt p q r1 r2 : lex p q = Lt -> ~ prefix p q -> lex (p ++ r1) (q ++ r2) = Lt.
Proof.
  revert q. induction p as [|x p IH]; intros q H NP.
  - exfalso. apply NP. exists q. reflexivity.
  - destruct q as [|y q]; [simpl in H; discriminate|].
    cbn [lex app] in *. destruct (x ?= y) eqn:E; try congruence.
    apply IH; [exact H|]. intros [t Ht]. apply NP. exists t.
    apply N.compare_eq in E. subst. reflexivity.
Qed.

(* lexicographic order on tuples of numbers *)
Fixpoint lex_list (a b : list N) : comparison :=
  match a, b with
  | [], [] => Eq
  | [], _ => Lt
  | _, [] => Gt
  | x :: a', y :: b' => match x ?= y with Eq => lex_list a' b' | c => c end
  end.

Definition tagged_key (xs : list N) : list N := concat (map tagged_put64 xs).

Lemma tagged_put_nonempty x : tagged_put64 x <> [].
Proof.
  intro H. pose proof (tagged_put_length x) as L. rewrite H in L. simpl in L.
  pose proof (tagged_len_range x). lia.
Qed.

Lemma lex_list_antisym a b : lex_list a b = Lt -> lex_list b a = Gt.
Proof.
  revert b. induction a as [|x a IH]; intros [|y b]; simpl; try congruence.
  rewrite (N.compare_antisym x y). destruct (x ?= y); simpl; try congruence. apply IH.
Qed.

Lemma tagged_key_lt xs ys : Forall (fun x => x < 18446744073709551616) xs ->
  Forall (fun x => x < 18446744073709551616) ys ->
  lex_list xs ys = Lt -> lex (tagged_key xs) (tagged_key ys) = Lt.
Proof.
  intros Hxs. revert ys. induction Hxs as [|x xs Hx Hxs IH]; intros ys Hys H.
  - destruct ys as [|y ys]; [simpl in H; discriminate|].
    unfold tagged_key. cbn [map concat].
    destruct (tagged_put64 y) as [|b t] eqn:E; [exfalso; apply (tagged_put_nonempty y E)|reflexivity].
  - destruct ys as [|y ys]; [simpl in H; discriminate|].
    inversion Hys as [|y' ys' Hy Hys']; subst.
    unfold tagged_key. cbn [map concat]. cbn [lex_list] in H.
    destruct (N.compare_spec x y) as [E|L|G]; try discriminate.
    + subst y. rewrite lex_app_same. apply IH; assumption.
    + apply lex_app_lt.
      * rewrite tagged_order by assumption. apply N.compare_lt_iff. exact L.
      * intro P. apply tagged_prefix_free in P; try assumption. lia.
Qed.

Lemma lex_list_eq a b : lex_list a b = Eq -> a = b.
Proof.
  revert b. induction a as [|x a IH]; intros [|y b]; simpl; try congruence.
  destruct (x ?= y) eqn:E; try congruence. apply N.compare_eq in E. subst.
  intro H. f_equal. apply IH. exact H.
Qed.

Lemma lex_list_opp a b : lex_list b a = CompOpp (lex_list a b).
Proof.
  revert b. induction a as [|x a IH]; intros [|y b]; simpl; try reflexivity.
  rewrite (N.compare_antisym x y). destruct (x ?= y); simpl; try reflexivity. apply IH.
Qed.

Theorem tagged_tuple_order xs ys : Forall (fun x => x < 18446744073709551616) xs ->
  Forall (fun x => x < 18446744073709551616) ys ->
  lex (tagged_key xs) (tagged_key ys) = lex_list xs ys.
Proof.
  intros Hx Hy. destruct (lex_list xs ys) eqn:E.
  - apply lex_list_eq in E. subst. apply lex_refl.
  - apply tagged_key_lt; assumption.
  - apply lex_antisym. apply tagged_key_lt; try assumption.
    rewrite lex_list_opp, E. reflexivity.
Qed.
