(* Properties_C03_rledict.v — property C03 (encoders never write more than their
   advertised size) for the run-length and dictionary encoders.  The model
   encoders return the bytes written; their length is both the extent touched
   and the C return value. *)
Require Import VV.Base VV.Tagged VV.RLE VV.RLESpec VV.RLELemmas VV.RLEProofs VV.Dict VV.DictProofs
  VV.RLEDictTheorems.
From Coq Require Import Sorted.
Local Open Scope N_scope.

(* both formats stay inside varintRLEMaxSize(count) (after fix F07 the bound
   includes the 9 bytes a tagged count header can take; it holds for count 0,
   where the header format still writes 1 byte) *)
Theorem C03_rle_bound : forall xs,
  10 * N.of_nat (length xs) + 9 < 18446744073709551616 ->
  N.of_nat (length (fst (rle_encode xs))) <= rle_max_size (N.of_nat (length xs)) /\
  N.of_nat (length (fst (rle_encode_with_header xs))) <= rle_max_size (N.of_nat (length xs)).
Proof. exact rle_bound. Qed.
Print Assumptions C03_rle_bound.

(* the plain format even fits in 10 * count (the documented worst case) *)
Theorem C03_rle_bound_plain : forall xs,
  N.of_nat (length (fst (rle_encode xs))) <= 10 * N.of_nat (length xs).
Proof. exact rle_bound_plain. Qed.
Print Assumptions C03_rle_bound_plain.

(* varintRLESize is exact *)
Theorem C03_rle_size_exact : forall xs, rle_size xs = N.of_nat (length (fst (rle_encode xs))).
Proof. exact rle_size_exact. Qed.
Print Assumptions C03_rle_size_exact.

(* header format: tagged length of the count + varintRLESize, and the size the
   encoder reports in its meta output is the number of bytes written *)
Theorem C03_rle_header_size : forall xs,
  N.of_nat (length (fst (rle_encode_with_header xs))) = tagged_len (N.of_nat (length xs)) + rle_size xs /\
  rm_encoded_size (snd (rle_encode_with_header xs)) = N.of_nat (length (fst (rle_encode_with_header xs))) /\
  rm_count (snd (rle_encode_with_header xs)) = N.of_nat (length xs) /\
  rm_run_count (snd (rle_encode_with_header xs)) = N.of_nat (length (rle_runs xs)).
Proof. exact rle_header_size. Qed.
Print Assumptions C03_rle_header_size.

(* varintDictEncodedSize is exact for every array the encoder accepts, and the
   value varintDictEncode returns equals it *)
Theorem C03_dict_size_exact : forall xs d,
  dict_build xs = DictBuildOk d -> Forall (fun x => x < 18446744073709551616) xs ->
  8 * N.of_nat (length xs) < 18446744073709551616 ->
  dict_encoded_size xs = N.of_nat (length (fst (dict_encode xs))) /\
  dict_ret (dict_encode xs) = dict_encoded_size xs.
Proof. exact dict_size_exact_thm. Qed.
Print Assumptions C03_dict_size_exact.

(* varintDictEncodedSizeWithDict is exact when every value is in the dictionary *)
Theorem C03_dict_with_size_exact : forall u xs,
  StronglySorted N.lt u -> 1 <= N.of_nat (length u) <= 1048576 ->
  xs <> [] -> (forall v, In v xs -> In v u) -> 8 * N.of_nat (length xs) < 18446744073709551616 ->
  dict_encoded_size_with_dict (dict_of u) (N.of_nat (length xs))
  = N.of_nat (length (fst (dict_encode_with_dict (dict_of u) xs))).
Proof. exact dict_with_size_exact_thm. Qed.
Print Assumptions C03_dict_with_size_exact.

(* ... and for ANY dictionary structure and values (including values missing
   from the dictionary, where the encoder returns 0 after a partial write)
   neither the bytes touched nor the returned length exceed the predictor *)
Theorem C03_dict_with_bound : forall d xs,
  N.of_nat (length xs) * 8 < 18446744073709551616 -> (dct_index_width d <= 8)%nat ->
  N.of_nat (length (fst (dict_encode_with_dict d xs))) <= dict_encoded_size_with_dict d (N.of_nat (length xs)) /\
  dict_ret (dict_encode_with_dict d xs) <= dict_encoded_size_with_dict d (N.of_nat (length xs)).
Proof. exact dict_with_bound. Qed.
Print Assumptions C03_dict_with_bound.

(* non-vacuity: the F07 witness now fits (11 <= 19), count 0 writes 1 <= 9 *)
Example C03_example :
  length (fst (rle_encode_with_header [18446744073709551615])) = 11%nat /\
  rle_max_size 1 = 19 /\ length (fst (rle_encode_with_header [])) = 1%nat /\ rle_max_size 0 = 9 /\
  dict_encoded_size [30; 10; 20; 10; 30; 30] = 11.
Proof. vm_compute. repeat split; reflexivity. Qed.
