(* BitstreamProofs.v — proofs about the model of varintBitstream.h. *)
Require Import VV.Base VV.BaseProofs VV.Bitstream VV.BitstreamLemmas.
From Coq Require Import Lia ZifyBool ZifyN ZifyNat.
Local Open Scope N_scope.
Ltac Zify.zify_post_hook ::= Z.div_mod_to_equations.

Definition words_ok (W : N) (s : list N) : Prop := Forall (fun w => w < 2 ^ W) s.

(* ------------------------------------------------------------- word level *)

(* (o & ~(ones n << l)) | (v << l), truncated to W bits: bits [l, l+n) of the
   word come from v, the others from o.  l + n may exceed W (overflow slot). *)
Lemma word_set_shl W V o n l v k :
  W <= V -> v < 2 ^ n -> k < W ->
  N.testbit (truncv W (N.lor (N.land o (notv V (shlv V (N.ones n) l))) (shlv V v l))) k =
  if (l <=? k) && (k <? l + n) then N.testbit v (k - l) else N.testbit o k.
Proof.
  intros HWV Hv Hk. tb.
  destruct (N.leb_spec l k) as [L|L]; cbn [andb].
  - destruct (N.ltb_spec k (l + n)) as [L2|L2].
    + replace (k - l <? n) with true by (symmetry; apply N.ltb_lt; lia).
      replace (k <? V) with true by (symmetry; apply N.ltb_lt; lia).
      replace (k <? W) with true by (symmetry; apply N.ltb_lt; lia).
      cbn [andb negb]. rewrite !andb_true_r, andb_false_r. reflexivity.
    + replace (k - l <? n) with false by (symmetry; apply N.ltb_ge; lia).
      replace (k <? V) with true by (symmetry; apply N.ltb_lt; lia).
      replace (k <? W) with true by (symmetry; apply N.ltb_lt; lia).
      rewrite (tb_small v n (k - l)) by (assumption || lia).
      cbn [andb negb]. rewrite !andb_true_r, orb_false_r. reflexivity.
  - replace (k <? V) with true by (symmetry; apply N.ltb_lt; lia).
    replace (k <? W) with true by (symmetry; apply N.ltb_lt; lia).
    cbn [andb negb]. rewrite !andb_true_r, orb_false_r. reflexivity.
Qed.

(* (o & ~(ones n >> h)) | (v >> h): the low n-h bits come from v >> h *)
Lemma word_set_shr W V o n h v k :
  W <= V -> v < 2 ^ n -> k < W ->
  N.testbit (truncv W (N.lor (N.land o (notv V (N.shiftr (N.ones n) h))) (N.shiftr v h))) k =
  if k + h <? n then N.testbit v (k + h) else N.testbit o k.
Proof.
  intros HWV Hv Hk. tb.
  replace (k <? V) with true by (symmetry; apply N.ltb_lt; lia).
  replace (k <? W) with true by (symmetry; apply N.ltb_lt; lia).
  destruct (N.ltb_spec (k + h) n) as [L|L]; cbn [andb negb].
  - rewrite andb_false_r, andb_true_r. reflexivity.
  - rewrite (tb_small v n (k + h)) by (assumption || lia).
    rewrite !andb_true_r, orb_false_r. reflexivity.
Qed.

Lemma bs_ok_inv W V n : bs_ok W V n = true -> 1 <= n /\ n <= W /\ W <= V /\ V <= 64.
Proof. unfold bs_ok. lia. Qed.

Lemma sbit_word W s i a b :
  b < W -> i = W * a + b ->
  sbit W s i = N.testbit (nth (N.to_nat a) s 0) (W - 1 - b).
Proof.
  intros Hb ->. unfold sbit. destruct (divmod_place W a b Hb) as [-> ->]. reflexivity.
Qed.

(* ------------------------------------------------------------- Set *)

(* every bit of the stream after Set: inside [off, off+n) the bits of v
   (most significant first), outside unchanged *)
Theorem bs_set_spec W V s off n v s' :
  bs_ok W V n = true -> v < 2 ^ n -> bs_set W V s off n v = Some s' ->
  length s' = length s /\
  forall i, sbit W s' i =
            if (off <=? i) && (i <? off + n) then N.testbit v (off + n - 1 - i) else sbit W s i.
Proof.
  intros Hok Hv. destruct (bs_ok_inv _ _ _ Hok) as (H1 & H2 & H3 & H4).
  assert (HW : W <> 0) by lia.
  unfold bs_set. rewrite Hok. cbn [negb]. cbv zeta.
  rewrite (bs_mask_ones V n) by lia.
  destruct (divmod_eq W off HW) as [Eoff Hr].
  set (q := off / W) in *. set (r := off mod W) in *.
  destruct (N.leb_spec n (W - r)) as [A|B].
  - (* one slot *)
    destruct (nth_error s (N.to_nat q)) as [o0|] eqn:E0; [|discriminate].
    destruct (nth_error_Some_nth _ _ _ 0 E0) as [Lq Nq].
    intro Hs; injection Hs as <-. split; [apply length_upd; exact Lq|].
    intro i. destruct (divmod_eq W i HW) as [Ei Hb].
    set (a := i / W) in *. set (b := i mod W) in *.
    rewrite (sbit_word W _ i a b Hb Ei), (sbit_word W s i a b Hb Ei).
    destruct (N.eq_dec a q) as [->|Na].
    + rewrite nth_upd_same by exact Lq.
      rewrite word_set_shl by (assumption || lia). rewrite Nq.
      set (M := W * q) in *. clearbody M.
      destruct (N.leb_spec (W - r - n) (W - 1 - b)), (N.ltb_spec (W - 1 - b) (W - r - n + n)),
               (N.leb_spec off i), (N.ltb_spec i (off + n)); cbn [andb]; try (exfalso; lia);
        try reflexivity.
      f_equal. lia.
    + rewrite nth_upd_other by (assumption || lia).
      destruct (other_word_outside W q a b Hb Na) as [O|O];
        destruct (N.leb_spec off i), (N.ltb_spec i (off + n)); cbn [andb]; try reflexivity;
          exfalso; lia.
  - (* two slots *)
    destruct (nth_error s (N.to_nat q)) as [o0|] eqn:E0; [|discriminate].
    destruct (nth_error s (S (N.to_nat q))) as [o1|] eqn:E1; [|discriminate].
    destruct (nth_error_Some_nth _ _ _ 0 E0) as [Lq Nq].
    destruct (nth_error_Some_nth _ _ _ 0 E1) as [Lq1 Nq1].
    intro Hs; injection Hs as <-.
    split; [rewrite length_upd; rewrite length_upd; lia|].
    intro i. destruct (divmod_eq W i HW) as [Ei Hb].
    set (a := i / W) in *. set (b := i mod W) in *.
    rewrite (sbit_word W _ i a b Hb Ei), (sbit_word W s i a b Hb Ei).
    destruct (N.eq_dec a q) as [->|Na].
    + rewrite nth_upd_other by (rewrite ?length_upd; lia).
      rewrite nth_upd_same by exact Lq.
      rewrite word_set_shr by (assumption || lia). rewrite Nq.
      set (M := W * q) in *. clearbody M.
      destruct (N.ltb_spec (W - 1 - b + (n - (W - r))) n),
               (N.leb_spec off i), (N.ltb_spec i (off + n)); cbn [andb]; try (exfalso; lia);
        try reflexivity.
      f_equal. lia.
    + destruct (N.eq_dec a (q + 1)) as [->|Na1].
      * replace (N.to_nat (q + 1)) with (S (N.to_nat q)) by lia.
        rewrite nth_upd_same by (rewrite length_upd; lia).
        rewrite word_set_shl by (assumption || lia).
        rewrite Nq1.
        assert (EM : W * (q + 1) = W * q + W) by lia. rewrite EM in Ei.
        set (M := W * q) in *. clearbody M.
        destruct (N.leb_spec (W - (n - (W - r))) (W - 1 - b)),
                 (N.ltb_spec (W - 1 - b) (W - (n - (W - r)) + n)),
                 (N.leb_spec off i), (N.ltb_spec i (off + n)); cbn [andb]; try (exfalso; lia);
          try reflexivity.
        f_equal. lia.
      * rewrite nth_upd_other by (rewrite ?length_upd; lia).
        rewrite nth_upd_other by lia.
        destruct (other_word_outside W q a b Hb Na) as [O|O].
        -- destruct (N.leb_spec off i), (N.ltb_spec i (off + n)); cbn [andb]; try reflexivity;
             exfalso; lia.
        -- destruct (other_word_outside W (q + 1) a b Hb Na1) as [O1|O1].
           ++ exfalso. assert (W * (q + 1) = W * q + W) by lia. lia.
           ++ assert (W * (q + 1) = W * q + W) by lia.
              destruct (N.leb_spec off i), (N.ltb_spec i (off + n)); cbn [andb]; try reflexivity;
                exfalso; lia.
Qed.

(* Set keeps every slot a W-bit word *)
Lemma bs_set_words_ok W V s off n v s' :
  words_ok W s -> bs_set W V s off n v = Some s' -> words_ok W s'.
Proof.
  unfold bs_set, words_ok. intros Hs.
  destruct (negb (bs_ok W V n)); [discriminate|]. cbv zeta.
  destruct (n <=? W - off mod W).
  - destruct (nth_error s (N.to_nat (off / W))); [|discriminate].
    intro H; injection H as <-. apply Forall_upd; [exact Hs|apply truncv_lt].
  - destruct (nth_error s (N.to_nat (off / W))); [|discriminate].
    destruct (nth_error s (S (N.to_nat (off / W)))); [|discriminate].
    intro H; injection H as <-.
    apply Forall_upd; [apply Forall_upd; [exact Hs|apply truncv_lt]|apply truncv_lt].
Qed.

(* slots that are not in bs_touched keep their value (word level frame) *)
Lemma bs_set_other_words W V s off n v s' k :
  bs_set W V s off n v = Some s' -> ~ In k (bs_touched W off n) -> nth k s' 0 = nth k s 0.
Proof.
  unfold bs_set, bs_touched. destruct (negb (bs_ok W V n)); [discriminate|]. cbv zeta.
  destruct (n <=? W - off mod W).
  - destruct (nth_error s (N.to_nat (off / W))) eqn:E0; [|discriminate].
    destruct (nth_error_Some_nth _ _ _ 0 E0) as [Lq _].
    intros H Hk; injection H as <-. cbn [In] in Hk.
    apply nth_upd_other; [exact Lq|]. intro; apply Hk; left; assumption.
  - destruct (nth_error s (N.to_nat (off / W))) eqn:E0; [|discriminate].
    destruct (nth_error s (S (N.to_nat (off / W)))) eqn:E1; [|discriminate].
    destruct (nth_error_Some_nth _ _ _ 0 E0) as [Lq _].
    destruct (nth_error_Some_nth _ _ _ 0 E1) as [Lq1 _].
    intros H Hk; injection H as <-. cbn [In] in Hk.
    rewrite nth_upd_other; [|rewrite length_upd; lia|intro; apply Hk; right; left; assumption].
    apply nth_upd_other; [exact Lq|]. intro; apply Hk; left; assumption.
Qed.

(* Set and Get are defined exactly when every touched slot exists *)
Lemma bs_set_defined W V s off n v :
  bs_ok W V n = true ->
  ((forall k, In k (bs_touched W off n) -> (k < length s)%nat) <-> exists s', bs_set W V s off n v = Some s').
Proof.
  intro Hok. unfold bs_set, bs_touched. rewrite Hok. cbn [negb]. cbv zeta.
  destruct (n <=? W - off mod W).
  - split.
    + intro H. destruct (nth_error s (N.to_nat (off / W))) eqn:E; [eexists; reflexivity|].
      apply nth_error_None in E. specialize (H _ (or_introl eq_refl)). lia.
    + intros [s' H] k [<-|[]].
      destruct (nth_error s (N.to_nat (off / W))) eqn:E; [|discriminate].
      apply nth_error_Some. rewrite E. discriminate.
  - split.
    + intro H. pose proof (H _ (or_introl eq_refl)) as A.
      pose proof (H _ (or_intror (or_introl eq_refl))) as B.
      destruct (nth_error s (N.to_nat (off / W))) eqn:E0; [|apply nth_error_None in E0; lia].
      destruct (nth_error s (S (N.to_nat (off / W)))) eqn:E1; [|apply nth_error_None in E1; lia].
      eexists; reflexivity.
    + intros [s' H] k Hk.
      destruct (nth_error s (N.to_nat (off / W))) eqn:E0; [|discriminate].
      destruct (nth_error s (S (N.to_nat (off / W)))) eqn:E1; [|discriminate].
      destruct Hk as [<-|[<-|[]]]; apply nth_error_Some; [rewrite E0|rewrite E1]; discriminate.
Qed.

Lemma bs_get_defined W V s off n :
  bs_ok W V n = true ->
  ((forall k, In k (bs_touched W off n) -> (k < length s)%nat) <-> exists g, bs_get W V s off n = Some g).
Proof.
  intro Hok. unfold bs_get, bs_touched. rewrite Hok. cbn [negb]. cbv zeta.
  destruct (n <=? W - off mod W).
  - split.
    + intro H. destruct (nth_error s (N.to_nat (off / W))) eqn:E; [eexists; reflexivity|].
      apply nth_error_None in E. specialize (H _ (or_introl eq_refl)). lia.
    + intros [s' H] k [<-|[]].
      destruct (nth_error s (N.to_nat (off / W))) eqn:E; [|discriminate].
      apply nth_error_Some. rewrite E. discriminate.
  - split.
    + intro H. pose proof (H _ (or_introl eq_refl)) as A.
      pose proof (H _ (or_intror (or_introl eq_refl))) as B.
      destruct (nth_error s (N.to_nat (off / W))) eqn:E0; [|apply nth_error_None in E0; lia].
      destruct (nth_error s (S (N.to_nat (off / W)))) eqn:E1; [|apply nth_error_None in E1; lia].
      eexists; reflexivity.
    + intros [s' H] k Hk.
      destruct (nth_error s (N.to_nat (off / W))) eqn:E0; [|discriminate].
      destruct (nth_error s (S (N.to_nat (off / W)))) eqn:E1; [|discriminate].
      destruct Hk as [<-|[<-|[]]]; apply nth_error_Some; [rewrite E0|rewrite E1]; discriminate.
Qed.

(* the touched slots are exactly the slots overlapping [off, off+n) *)
Theorem bs_touched_spec W off n k :
  1 <= n -> n <= W ->
  (In k (bs_touched W off n) <-> exists i, off <= i < off + n /\ N.to_nat (i / W) = k).
Proof.
  intros H1 H2. assert (HW : W <> 0) by lia.
  destruct (divmod_eq W off HW) as [Eoff Hr].
  unfold bs_touched. cbv zeta.
  set (q := off / W) in *. set (r := off mod W) in *.
  destruct (N.leb_spec n (W - r)) as [A|B].
  - split.
    + intros [<-|[]]. exists off. split; [lia|reflexivity].
    + intros (i & Hi & <-). left.
      assert (E : i = W * q + (r + (i - off))) by lia.
      destruct (divmod_place W q (r + (i - off)) ltac:(lia)) as [D _].
      rewrite E, D. reflexivity.
  - split.
    + intros [<-|[<-|[]]].
      * exists off. split; [lia|reflexivity].
      * exists (W * (q + 1) + 0). split; [lia|].
        destruct (divmod_place W (q + 1) 0 ltac:(lia)) as [D _]. rewrite D. lia.
    + intros (i & Hi & <-).
      destruct (N.lt_ge_cases (r + (i - off)) W) as [L|G].
      * left. assert (E : i = W * q + (r + (i - off))) by lia.
        destruct (divmod_place W q (r + (i - off)) L) as [D _]. rewrite E, D. reflexivity.
      * right; left. assert (E : i = W * (q + 1) + (r + (i - off) - W)) by lia.
        destruct (divmod_place W (q + 1) (r + (i - off) - W) ltac:(lia)) as [D _].
        rewrite E, D. lia.
Qed.

(* ------------------------------------------------------------- Get *)

(* Get returns exactly the n stream bits starting at off, first bit most
   significant, and nothing else *)
Theorem bs_get_spec W V s off n g :
  bs_ok W V n = true -> words_ok W s -> bs_get W V s off n = Some g ->
  forall k, N.testbit g k = (k <? n) && sbit W s (off + n - 1 - k).
Proof.
  intros Hok Hs. destruct (bs_ok_inv _ _ _ Hok) as (H1 & H2 & H3 & H4).
  assert (HW : W <> 0) by lia.
  unfold bs_get. rewrite Hok. cbn [negb]. cbv zeta.
  rewrite (bs_mask_ones V n) by lia.
  destruct (divmod_eq W off HW) as [Eoff Hr].
  set (q := off / W) in *. set (r := off mod W) in *.
  destruct (N.leb_spec n (W - r)) as [A|B].
  - destruct (nth_error s (N.to_nat q)) as [i0|] eqn:E0; [|discriminate].
    destruct (nth_error_Some_nth _ _ _ 0 E0) as [Lq Nq].
    intro H; injection H as <-. intro k. tb.
    destruct (N.ltb_spec k n) as [L|L]; cbn [andb]; [|apply andb_false_r].
    rewrite andb_true_r.
    rewrite (sbit_word W s (off + n - 1 - k) q (r + n - 1 - k)) by lia.
    rewrite Nq. f_equal. lia.
  - destruct (nth_error s (N.to_nat q)) as [i0|] eqn:E0; [|discriminate].
    destruct (nth_error s (S (N.to_nat q))) as [i1|] eqn:E1; [|discriminate].
    destruct (nth_error_Some_nth _ _ _ 0 E0) as [Lq Nq].
    destruct (nth_error_Some_nth _ _ _ 0 E1) as [Lq1 Nq1].
    assert (B1 : i1 < 2 ^ W).
    { unfold words_ok in Hs. rewrite Forall_forall in Hs. apply Hs. rewrite <- Nq1. apply nth_In. exact Lq1. }
    intro H; injection H as <-. intro k. tb.
    set (h := n - (W - r)) in *.
    destruct (N.ltb_spec k n) as [L|L]; cbn [andb].
    + replace (k <? V) with true by (symmetry; apply N.ltb_lt; lia).
      rewrite !andb_true_r.
      destruct (N.leb_spec h k) as [Lh|Lh]; cbn [andb].
      * (* bit from slot q *)
        rewrite (tb_small i1 W (k + (W - h))) by (assumption || lia).
        replace (k - h + h <? n) with true by (symmetry; apply N.ltb_lt; lia).
        rewrite andb_true_r, orb_false_r.
        rewrite (sbit_word W s (off + n - 1 - k) q (r + n - 1 - k)) by lia.
        rewrite Nq. f_equal. lia.
      * (* bit from slot q+1 *)
        rewrite (sbit_word W s (off + n - 1 - k) (q + 1) (h - 1 - k)) by lia.
        replace (N.to_nat (q + 1)) with (S (N.to_nat q)) by lia.
        rewrite Nq1. cbn [orb]. f_equal. lia.
    + rewrite (tb_small i1 W (k + (W - h))) by (assumption || lia).
      destruct (N.leb_spec h k) as [Lh|Lh]; cbn [andb]; [|reflexivity].
      replace (k - h + h <? n) with false by (symmetry; apply N.ltb_ge; lia).
      rewrite !andb_false_r. reflexivity.
Qed.

Lemma bs_get_lt W V s off n g :
  bs_ok W V n = true -> words_ok W s -> bs_get W V s off n = Some g -> g < 2 ^ n.
Proof.
  intros Hok Hs Hg. apply lt_pow2_of_bits. intros k Hk.
  rewrite (bs_get_spec _ _ _ _ _ _ Hok Hs Hg).
  destruct (N.ltb_spec k n); [lia|reflexivity].
Qed.

(* ------------------------------------------------------------- round trip *)

Theorem bs_set_get W V s off n v s' :
  bs_ok W V n = true -> words_ok W s -> v < 2 ^ n ->
  bs_set W V s off n v = Some s' -> bs_get W V s' off n = Some v.
Proof.
  intros Hok Hs Hv Hset.
  destruct (bs_set_spec _ _ _ _ _ _ _ Hok Hv Hset) as [Hlen Hbits].
  pose proof (bs_set_words_ok _ _ _ _ _ _ _ Hs Hset) as Hs'.
  assert (D : exists g, bs_get W V s' off n = Some g).
  { apply bs_get_defined; [exact Hok|]. intros k Hk. rewrite Hlen.
    assert (E : exists s1, bs_set W V s off n v = Some s1) by (eexists; exact Hset).
    exact (proj2 (bs_set_defined W V s off n v Hok) E k Hk). }
  destruct D as [g Hg]. rewrite Hg. f_equal.
  apply N.bits_inj. intro k.
  rewrite (bs_get_spec _ _ _ _ _ _ Hok Hs' Hg).
  destruct (N.ltb_spec k n) as [L|L]; cbn [andb].
  - rewrite Hbits.
    replace (off <=? off + n - 1 - k) with true by (symmetry; apply N.leb_le; lia).
    replace (off + n - 1 - k <? off + n) with true by (symmetry; apply N.ltb_lt; lia).
    cbn [andb]. f_equal. lia.
  - symmetry. apply (tb_small v n); [exact Hv|exact L].
Qed.

(* bits outside the written range keep their value *)
Theorem bs_set_frame W V s off n v s' i :
  bs_ok W V n = true -> v < 2 ^ n -> bs_set W V s off n v = Some s' ->
  ~ (off <= i < off + n) -> sbit W s' i = sbit W s i.
Proof.
  intros Hok Hv Hset Hi.
  destruct (bs_set_spec _ _ _ _ _ _ _ Hok Hv Hset) as [_ Hbits]. rewrite Hbits.
  destruct (N.leb_spec off i), (N.ltb_spec i (off + n)); cbn [andb]; try reflexivity.
  exfalso; apply Hi; lia.
Qed.

(* bits inside the range are the bits of the value, most significant first *)
Theorem bs_set_written W V s off n v s' j :
  bs_ok W V n = true -> v < 2 ^ n -> bs_set W V s off n v = Some s' ->
  j < n -> sbit W s' (off + j) = N.testbit v (n - 1 - j).
Proof.
  intros Hok Hv Hset Hj.
  destruct (bs_set_spec _ _ _ _ _ _ _ Hok Hv Hset) as [_ Hbits]. rewrite Hbits.
  replace (off <=? off + j) with true by (symmetry; apply N.leb_le; lia).
  replace (off + j <? off + n) with true by (symmetry; apply N.ltb_lt; lia).
  cbn [andb]. f_equal. lia.
Qed.

(* reading does not depend on anything but the n bits of the range *)
Theorem bs_get_local W V s1 s2 off n g1 g2 :
  bs_ok W V n = true -> words_ok W s1 -> words_ok W s2 ->
  (forall i, off <= i < off + n -> sbit W s1 i = sbit W s2 i) ->
  bs_get W V s1 off n = Some g1 -> bs_get W V s2 off n = Some g2 -> g1 = g2.
Proof.
  intros Hok H1 H2 Hb G1 G2. apply N.bits_inj. intro k.
  rewrite (bs_get_spec _ _ _ _ _ _ Hok H1 G1), (bs_get_spec _ _ _ _ _ _ Hok H2 G2).
  destruct (N.ltb_spec k n); cbn [andb]; [|reflexivity]. apply Hb. lia.
Qed.

(* ------------------------------------------------------------- signed helpers *)

Lemma two_pow_64 : 2 ^ 64 = 18446744073709551616. Proof. reflexivity. Qed.

Lemma shl64_one k : k < 64 -> shl64 1 k = 2 ^ k.
Proof.
  intro H. unfold shl64. rewrite N.mul_1_l. apply N.mod_small.
  rewrite <- two_pow_64. apply N.pow_lt_mono_r; lia.
Qed.

Lemma lxor_pow2_small x k : x < 2 ^ k -> N.lxor x (2 ^ k) = x + 2 ^ k.
Proof.
  intro H. rewrite N.lxor_lor.
  - rewrite N.lor_comm. rewrite <- (N.mul_1_l (2 ^ k)). rewrite lor_add_disjoint by exact H. lia.
  - rewrite N.land_comm. rewrite <- (N.mul_1_l (2 ^ k)). apply land_shl_small. exact H.
Qed.

Lemma lxor_pow2_cancel x k : x < 2 ^ k -> N.lxor (x + 2 ^ k) (2 ^ k) = x.
Proof.
  intro H. rewrite <- (lxor_pow2_small x k H), N.lxor_assoc, N.lxor_nilpotent, N.lxor_0_r.
  reflexivity.
Qed.

Lemma pow2_le_63 n : 1 <= n -> n <= 64 -> 2 ^ (n - 1) <= 9223372036854775808.
Proof.
  intros H1 H2. change 9223372036854775808 with (2 ^ 63). apply N.pow_le_mono_r; lia.
Qed.

(* sign + magnitude in n bits: every v with |v| <= 2^(n-1) - 1 is restored,
   and the stored pattern fits n bits *)
Theorem bs_signed_roundtrip (v : Z) (n : N) :
  1 <= n -> n <= 64 -> (- Z.of_N (2 ^ (n - 1)) < v < Z.of_N (2 ^ (n - 1)))%Z ->
  exists p, bs_signed_store v n = Some p /\ p < 2 ^ n /\ bs_signed_load p n = Some v.
Proof.
  intros H1 H2 Hv.
  pose proof (pow2_le_63 n H1 H2) as P63.
  assert (Pn : 2 ^ n = 2 * 2 ^ (n - 1)).
  { replace n with (N.succ (n - 1)) at 1 by lia. apply N.pow_succ_r'. }
  unfold bs_signed_store, bs_signed_load, bs_prepare_signed, bs_restore_signed.
  replace ((1 <=? n) && (n <=? 64)) with true by (symmetry; apply andb_true_intro; split; [apply N.leb_le|apply N.leb_le]; assumption).
  rewrite (shl64_one (n - 1)) by lia.
  set (T := 2 ^ (n - 1)) in *.
  destruct (Z.ltb_spec v 0) as [Neg|Pos].
  - (* negative: magnitude m = -v *)
    set (m := Z.to_N (- v)).
    assert (Hm : m < T) by lia.
    assert (Em : neg64 (of_s64 v) = m).
    { unfold neg64, sub64, of_s64. lia. }
    rewrite Em. exists (N.lxor m T). split; [reflexivity|].
    unfold T. rewrite (lxor_pow2_small m (n - 1)) by exact Hm. fold T.
    split; [lia|].
    rewrite N.shiftr_div_pow2. fold T.
    replace ((m + T) / T) with 1 by (apply N.div_unique with m; lia).
    change (N.land 1 1 =? 1) with true. cbv iota.
    pose proof (lxor_pow2_cancel m (n - 1) Hm) as C. fold T in C. rewrite C.
    f_equal. assert (En : neg64 m = 18446744073709551616 - m) by (unfold neg64, sub64; lia).
    rewrite En. unfold to_s64.
    destruct (N.ltb_spec (18446744073709551616 - m) 9223372036854775808); lia.
  - (* non-negative: stored as is, sign bit clear *)
    assert (Ev : of_s64 v = Z.to_N v) by (unfold of_s64; lia).
    rewrite Ev. set (x := Z.to_N v). assert (Hx : x < T) by lia.
    exists x. split; [reflexivity|]. split; [lia|].
    rewrite N.shiftr_div_pow2. fold T.
    replace (x / T) with 0 by (symmetry; apply N.div_small; exact Hx).
    change (N.land 0 1 =? 1) with false. cbv iota.
    f_equal. unfold to_s64. destruct (N.ltb_spec x 9223372036854775808); lia.
Qed.

(* ------------------------------------------------------------- statements in
   the form used by Properties_C11_bitdim.v (hypotheses spelled out) *)

Lemma bs_ok_intro W V n : 1 <= n -> n <= W -> W <= V -> V <= 64 -> bs_ok W V n = true.
Proof. unfold bs_ok. lia. Qed.

Theorem c11_write_then_read W V s off n v s' :
  1 <= n -> n <= W -> W <= V -> V <= 64 ->
  Forall (fun w => w < 2 ^ W) s -> v < 2 ^ n ->
  bs_set W V s off n v = Some s' -> bs_get W V s' off n = Some v.
Proof. intros. eapply bs_set_get; eauto using bs_ok_intro. Qed.

Theorem c11_write_isolated W V s off n v s' :
  1 <= n -> n <= W -> W <= V -> V <= 64 ->
  Forall (fun w => w < 2 ^ W) s -> v < 2 ^ n ->
  bs_set W V s off n v = Some s' ->
  length s' = length s /\
  Forall (fun w => w < 2 ^ W) s' /\
  (forall i, ~ (off <= i < off + n) -> sbit W s' i = sbit W s i) /\
  (forall j, j < n -> sbit W s' (off + j) = N.testbit v (n - 1 - j)) /\
  (forall k, ~ In k (bs_touched W off n) -> nth k s' 0 = nth k s 0).
Proof.
  intros H1 H2 H3 H4 Hs Hv Hset. pose proof (bs_ok_intro W V n H1 H2 H3 H4) as Hok.
  split; [exact (proj1 (bs_set_spec _ _ _ _ _ _ _ Hok Hv Hset))|].
  split; [exact (bs_set_words_ok _ _ _ _ _ _ _ Hs Hset)|].
  split; [intros i Hi; exact (bs_set_frame _ _ _ _ _ _ _ i Hok Hv Hset Hi)|].
  split; [intros j Hj; exact (bs_set_written _ _ _ _ _ _ _ j Hok Hv Hset Hj)|].
  intros k Hk. exact (bs_set_other_words _ _ _ _ _ _ _ k Hset Hk).
Qed.

Theorem c11_read_exact W V s off n g :
  1 <= n -> n <= W -> W <= V -> V <= 64 ->
  Forall (fun w => w < 2 ^ W) s ->
  bs_get W V s off n = Some g ->
  g < 2 ^ n /\ forall j, j < n -> N.testbit g (n - 1 - j) = sbit W s (off + j).
Proof.
  intros H1 H2 H3 H4 Hs Hg. pose proof (bs_ok_intro W V n H1 H2 H3 H4) as Hok.
  split; [exact (bs_get_lt _ _ _ _ _ _ Hok Hs Hg)|].
  intros j Hj. rewrite (bs_get_spec _ _ _ _ _ _ Hok Hs Hg).
  replace (n - 1 - j <? n) with true by (symmetry; apply N.ltb_lt; lia).
  cbn [andb]. f_equal. lia.
Qed.

Theorem c11_access_exact W V s off n v :
  1 <= n -> n <= W -> W <= V -> V <= 64 ->
  (forall k, In k (bs_touched W off n) <-> exists i, off <= i < off + n /\ N.to_nat (i / W) = k) /\
  ((forall k, In k (bs_touched W off n) -> (k < length s)%nat) <-> exists s', bs_set W V s off n v = Some s') /\
  ((forall k, In k (bs_touched W off n) -> (k < length s)%nat) <-> exists g, bs_get W V s off n = Some g).
Proof.
  intros H1 H2 H3 H4. pose proof (bs_ok_intro W V n H1 H2 H3 H4) as Hok.
  split; [intro k; apply bs_touched_spec; assumption|].
  split; [apply bs_set_defined; exact Hok|apply bs_get_defined; exact Hok].
Qed.
