(* Tagged.v — Gallina model of /repo/src/varintTagged.c and the macros of
   varintTagged.h.  One definition per C function / macro, same case
   structure, explicit truncations. *)
Require Import VV.Base.
Local Open Scope N_scope.

(* _varintWrite32 *)
Definition write32 (y : N) : list N :=
  [u8 (shr y 24); u8 (shr y 16); u8 (shr y 8); u8 y].

(* varintTaggedPut64: returns the bytes written (length = return value) *)
Definition tagged_put64 (x : N) : list N :=
  if x <=? 240 then [u8 x]
  else if x <=? 2287 then
    let y := u32 (x - 240) in [u8 (y / 256 + 241); u8 (y mod 256)]
  else if x <=? 67823 then
    let y := u32 (x - 2288) in [249; u8 (y / 256); u8 (y mod 256)]
  else
    let y := u32 x in
    let w := u32 (shr x 32) in
    if w =? 0 then
      if y <=? 16777215 then [250; u8 (shr y 16); u8 (shr y 8); u8 y]
      else 251 :: write32 y
    else if w <=? 255 then 252 :: u8 w :: write32 y
    else if w <=? 65535 then 253 :: u8 (shr w 8) :: u8 w :: write32 y
    else if w <=? 16777215 then
      254 :: u8 (shr w 16) :: u8 (shr w 8) :: u8 w :: write32 y
    else 255 :: write32 w ++ write32 y.

(* varintTaggedPut64FixedWidth: None = "return 0, nothing written".
   (x - 240) is computed in uint64_t then truncated, hence sub64. *)
Definition tagged_put64_fixed (x : N) (width : N) : option (list N) :=
  let y := u32 x in
  let w := u32 (shr x 32) in
  match width with
  | 1 => Some [u8 x]
  | 2 => let y := u32 (sub64 x 240) in Some [u8 (y / 256 + 241); u8 (y mod 256)]
  | 3 => let y := u32 (sub64 x 2288) in Some [249; u8 (y / 256); u8 (y mod 256)]
  | 4 => Some [250; u8 (shr y 16); u8 (shr y 8); u8 y]
  | 5 => Some (251 :: write32 y)
  | 6 => Some (252 :: u8 w :: write32 y)
  | 7 => Some (253 :: u8 (shr w 8) :: u8 w :: write32 y)
  | 8 => Some (254 :: u8 (shr w 16) :: u8 (shr w 8) :: u8 w :: write32 y)
  | 9 => Some (255 :: write32 w ++ write32 y)
  | _ => None
  end.

(* varintTaggedPut64FixedWidthQuick_ : same first three cases, else the
   function *)
Definition tagged_put64_fixed_quick (x : N) (width : N) : option (list N) :=
  match width with
  | 1 => Some [u8 x]
  | 2 => let y := u32 (sub64 x 240) in Some [u8 (y / 256 + 241); u8 (y mod 256)]
  | 3 => let y := u32 (sub64 x 2288) in Some [249; u8 (y / 256); u8 (y mod 256)]
  | _ => tagged_put64_fixed x width
  end.

(* varintTaggedLen *)
Definition tagged_len (x : N) : N :=
  if x <=? 240 then 1
  else if x <=? 2287 then 2
  else if x <=? 67823 then 3
  else
    let y := u32 x in
    let w := u32 (shr x 32) in
    if w =? 0 then (if y <=? 16777215 then 4 else 5)
    else if w <=? 255 then 6
    else if w <=? 65535 then 7
    else if w <=? 16777215 then 8
    else 9.

(* varintTaggedLenQuick *)
Definition tagged_len_quick (v : N) : N :=
  if v <=? 240 then 1
  else if v <=? 2287 then 2
  else if v <=? 67823 then 3
  else if v <=? 16777215 then 4
  else tagged_len v.

(* varintTaggedGetLen / varintTaggedGetLenQuick_ *)
Definition tagged_getlen (z : list N) : N :=
  let a := byte_at z 0 in
  if a <=? 240 then 1 else if a <=? 248 then 2 else a - 246.
Definition tagged_getlen_quick := tagged_getlen.

(* varintTaggedGet(z, n, &result): returns (width, value); width 0 = failure
   (value then meaningless: modelled as 0, the C leaves *pResult untouched).
   z[i] is byte_at z i; the `|` of shifted bytes is N.lor. *)
Definition bor := N.lor.
Definition tagged_get (z : list N) (n : Z) : N * N :=
  let b i := byte_at z i in
  if (n <? 1)%Z then (0, 0)
  else if b 0%nat <=? 240 then (1, b 0%nat)
  else if b 0%nat <=? 248 then
    if (n <? 2)%Z then (0, 0)
    else (2, (b 0%nat - 241) * 256 + b 1%nat + 240)
  else if (n <? Z.of_N (b 0%nat) - 246)%Z then (0, 0)
  else
    if b 0%nat =? 249 then (3, 2288 + 256 * b 1%nat + b 2%nat)
    else if b 0%nat =? 250 then
      (4, bor (bor (shl64 (b 1%nat) 16) (shl64 (b 2%nat) 8)) (b 3%nat))
    else
      let x := bor (bor (bor (shl64 (b 1%nat) 24) (shl64 (b 2%nat) 16))
                        (shl64 (b 3%nat) 8)) (b 4%nat) in
      if b 0%nat =? 251 then (5, x)
      else if b 0%nat =? 252 then (6, bor (shl64 x 8) (b 5%nat))
      else if b 0%nat =? 253 then
        (7, bor (bor (shl64 x 16) (shl64 (b 5%nat) 8)) (b 6%nat))
      else if b 0%nat =? 254 then
        (8, bor (bor (bor (shl64 x 24) (shl64 (b 5%nat) 16))
                     (shl64 (b 6%nat) 8)) (b 7%nat))
      else if b 0%nat =? 255 then
        (9, bor (shl64 x 32)
              (N.land 4294967295
                 (bor (bor (bor (shl64 (b 5%nat) 24) (shl64 (b 6%nat) 16))
                           (shl64 (b 7%nat) 8)) (b 8%nat))))
      else (0, 0).

Definition tagged_get64 (z : list N) : N * N := tagged_get z 9.
Definition tagged_get64_return_value (z : list N) : N := snd (tagged_get z 9).
Definition tagged_get32 (z : list N) : N * N :=
  let r := tagged_get z 9 in (fst r, u32 (snd r)).
Definition tagged_put32 (v : N) : list N := tagged_put64 v.

(* varintTaggedGet64Quick_ *)
Definition tagged_get64_quick (z : list N) : N :=
  let b i := byte_at z i in
  if b 0%nat <=? 240 then b 0%nat
  else if b 0%nat <=? 248 then u32 (u32 ((b 0%nat - 241) * 256) + b 1%nat + 240)
  else if b 0%nat =? 249 then u32 (2288 + 256 * b 1%nat + b 2%nat)
  else tagged_get64_return_value z.

(* varintTaggedAdd(p, add, force): returns (width, new buffer).
   width 0 = overflow, buffer untouched. *)
Definition tagged_add (p : list N) (add : Z) (force : bool) : N * list N :=
  let r := tagged_get64 p in
  let orig := fst r in
  let updating := to_s64 (snd r) in
  let sum := (updating + add)%Z in
  if negb (in_s64 sum) then (0, p)
  else
    let nv := of_s64 sum in
    let newenc := tagged_len nv in
    if (orig <? newenc) && negb force then (newenc, p)
    else (newenc, store p 0 (tagged_put64 nv)).

(* EXTRACT: tagged_put64 tagged_put64_fixed tagged_put64_fixed_quick tagged_len
   tagged_len_quick tagged_getlen tagged_get tagged_get64 tagged_get64_return_value
   tagged_get32 tagged_put32 tagged_get64_quick tagged_add *)
