(* RLELemmas.v — generic lemmas used by the RLE and dictionary proofs:
   list surgery, and locality / width facts about Tagged.tagged_get (the
   bounded reader looks only at bytes below its limit and never reports a
   width above it). *)
Require Import VV.Base VV.BaseProofs VV.Tagged VV.TaggedProofs VV.TaggedSpecProofs.
From Coq Require Import Lia ZifyBool ZifyN ZifyNat.
Local Open Scope N_scope.
Ltac Zify.zify_post_hook ::= Z.div_mod_to_equations.

Definition u64_ok (x : N) : Prop := x < 18446744073709551616.
Definition all_u64 (l : list N) : Prop := Forall u64_ok l.

(* ---------------------------------------------------------------- lists *)
Lemma skipn_app_len {A} (a b : list A) : skipn (length a) (a ++ b) = b.
Proof. induction a as [|x a IH]; simpl; auto. Qed.

Lemma skipn_app_len' {A} (a b : list A) k : k = length a -> skipn k (a ++ b) = b.
Proof. intros ->. apply skipn_app_len. Qed.

Lemma firstn_app_len {A} (a b : list A) : firstn (length a) (a ++ b) = a.
Proof. induction a as [|x a IH]; simpl; [destruct b; reflexivity|]. f_equal. exact IH. Qed.

Lemma nth_firstn_lt {A} (l : list A) i k d : (i < k)%nat -> nth i (firstn k l) d = nth i l d.
Proof.
  revert i k. induction l as [|x l IH]; intros i k H.
  - rewrite firstn_nil. reflexivity.
  - destruct k; [lia|]. destruct i; simpl; [reflexivity|]. apply IH. lia.
Qed.

Lemma firstn_eq_nth {A} (l l' : list A) k d :
  firstn k l = firstn k l' -> forall i, (i < k)%nat -> nth i l d = nth i l' d.
Proof.
  intros H i Hi. rewrite <- (nth_firstn_lt l i k d Hi), <- (nth_firstn_lt l' i k d Hi), H. reflexivity.
Qed.

Lemma firstn_firstn_le {A} (l l' : list A) j k :
  (j <= k)%nat -> firstn k l = firstn k l' -> firstn j l = firstn j l'.
Proof.
  intros Hjk H. replace j with (Nat.min j k) by lia.
  rewrite <- !firstn_firstn, H. reflexivity.
Qed.

Lemma firstn_skipn_eq {A} (l l' : list A) w k :
  firstn k l = firstn k l' -> firstn (k - w) (skipn w l) = firstn (k - w) (skipn w l').
Proof.
  intro H. destruct (Nat.le_gt_cases w k) as [Hw|Hw].
  - rewrite !firstn_skipn_comm. replace (w + (k - w))%nat with k by lia. rewrite H. reflexivity.
  - replace (k - w)%nat with 0%nat by lia. reflexivity.
Qed.

Lemma firstn_repeat_le {A} (x : A) j k : (j <= k)%nat -> firstn j (repeat x k) = repeat x j.
Proof.
  revert k. induction j as [|j IH]; intros k H; [reflexivity|].
  destruct k; [lia|]. simpl. f_equal. apply IH. lia.
Qed.

(* ---------------------------------------------------------------- tagged *)
Lemma tagged_len_le9 x : tagged_len x <= 9.
Proof. pose proof (tagged_len_range x). lia. Qed.
Lemma tagged_len_ge1 x : 1 <= tagged_len x.
Proof. pose proof (tagged_len_range x). lia. Qed.

Lemma tagged_put_len_nat x : length (tagged_put64 x) = N.to_nat (tagged_len x).
Proof. rewrite <- tagged_put_length. lia. Qed.

Lemma skipn_put x tl : skipn (N.to_nat (tagged_len x)) (tagged_put64 x ++ tl) = tl.
Proof. apply skipn_app_len'. symmetry. apply tagged_put_len_nat. Qed.

Lemma tagged_get64_put x tl : u64_ok x -> tagged_get64 (tagged_put64 x ++ tl) = (tagged_len x, x).
Proof.
  intro H. unfold tagged_get64. apply tagged_roundtrip; [exact H|].
  pose proof (tagged_len_le9 x). lia.
Qed.

(* the bounded reader only looks at bytes below its limit *)
Lemma tagged_get_ext z z' n :
  (forall i, (Z.of_nat i < n)%Z -> byte_at z i = byte_at z' i) -> tagged_get z n = tagged_get z' n.
Proof.
  intro H. unfold tagged_get. cbv zeta.
  destruct (n <? 1)%Z eqn:E0; [reflexivity|].
  rewrite <- (H 0%nat) by lia. set (b0 := byte_at z 0).
  destruct (b0 <=? 240) eqn:E1; [reflexivity|].
  destruct (b0 <=? 248) eqn:E2.
  { destruct (n <? 2)%Z eqn:E3; [reflexivity|]. rewrite <- (H 1%nat) by lia. reflexivity. }
  destruct (n <? Z.of_N b0 - 246)%Z eqn:E3; [reflexivity|].
  rewrite <- (H 1%nat), <- (H 2%nat) by lia.
  destruct (b0 =? 249) eqn:E4; [reflexivity|].
  rewrite <- (H 3%nat) by lia.
  destruct (b0 =? 250) eqn:E5; [reflexivity|].
  rewrite <- (H 4%nat) by lia.
  destruct (b0 =? 251) eqn:E6; [reflexivity|].
  rewrite <- (H 5%nat) by lia.
  destruct (b0 =? 252) eqn:E7; [reflexivity|].
  rewrite <- (H 6%nat) by lia.
  destruct (b0 =? 253) eqn:E8; [reflexivity|].
  rewrite <- (H 7%nat) by lia.
  destruct (b0 =? 254) eqn:E9; [reflexivity|].
  destruct (b0 =? 255) eqn:E10; [|reflexivity].
  rewrite <- (H 8%nat) by lia. reflexivity.
Qed.

Lemma tagged_get_firstn z z' n k :
  (n <= Z.of_nat k)%Z -> firstn k z = firstn k z' -> tagged_get z n = tagged_get z' n.
Proof.
  intros Hn H. apply tagged_get_ext. intros i Hi. unfold byte_at.
  apply (firstn_eq_nth z z' k 0 H). lia.
Qed.

(* the reported width never exceeds the limit *)
Lemma tagged_get_width_le z n : (Z.of_N (fst (tagged_get z n)) <= Z.max 0 n)%Z.
Proof.
  unfold tagged_get. cbv zeta. set (b0 := byte_at z 0).
  destruct (n <? 1)%Z eqn:E0; [cbn [fst]; lia|].
  destruct (b0 <=? 240) eqn:E1; [cbn [fst]; lia|].
  destruct (b0 <=? 248) eqn:E2.
  { destruct (n <? 2)%Z eqn:E3; cbn [fst]; lia. }
  destruct (n <? Z.of_N b0 - 246)%Z eqn:E3; [cbn [fst]; lia|].
  destruct (b0 =? 249) eqn:E4; [cbn [fst]; lia|].
  destruct (b0 =? 250) eqn:E5; [cbn [fst]; lia|].
  destruct (b0 =? 251) eqn:E6; [cbn [fst]; lia|].
  destruct (b0 =? 252) eqn:E7; [cbn [fst]; lia|].
  destruct (b0 =? 253) eqn:E8; [cbn [fst]; lia|].
  destruct (b0 =? 254) eqn:E9; [cbn [fst]; lia|].
  destruct (b0 =? 255) eqn:E10; cbn [fst]; lia.
Qed.

Lemma tagged_get_width_le9 z n : fst (tagged_get z n) <= 9.
Proof.
  unfold tagged_get. cbv zeta. set (b0 := byte_at z 0).
  destruct (n <? 1)%Z; [cbn [fst]; lia|].
  destruct (b0 <=? 240); [cbn [fst]; lia|].
  destruct (b0 <=? 248). { destruct (n <? 2)%Z; cbn [fst]; lia. }
  destruct (n <? Z.of_N b0 - 246)%Z; [cbn [fst]; lia|].
  destruct (b0 =? 249); [cbn [fst]; lia|].
  destruct (b0 =? 250); [cbn [fst]; lia|].
  destruct (b0 =? 251); [cbn [fst]; lia|].
  destruct (b0 =? 252); [cbn [fst]; lia|].
  destruct (b0 =? 253); [cbn [fst]; lia|].
  destruct (b0 =? 254); [cbn [fst]; lia|].
  destruct (b0 =? 255); cbn [fst]; lia.
Qed.
