(* Properties_C01_chained.v — property C01 (scalar varints round-trip every
   value with agreeing, bounded lengths), share of the chained (sqlite3) and
   chained-simple (leveldb, 9-byte cap) families.  Nothing but statements
   closed by `exact`, each followed by Print Assumptions. *)
Require Import VV.Base VV.Chained VV.ChainedSpec VV.ChainedPutProofs VV.ChainedGetProofs
  VV.ChainedRtProofs.
Local Open Scope N_scope.

(* ---------------- chained: varintChainedPutVarint / GetVarint / VarintLen ---------------- *)

(* decode (encode x ++ anything) = (len x, x), all 2^64 values; the decoder's
   byte count, the encoder's byte count and the predicted length agree *)
Theorem C01_chained_roundtrip : forall x tl, x < 18446744073709551616 ->
  chained_get (chained_put x ++ tl) = (chained_len x, x).
Proof. exact chained_roundtrip. Qed.
Print Assumptions C01_chained_roundtrip.

Theorem C01_chained_put_length : forall x, x < 18446744073709551616 ->
  N.of_nat (length (chained_put x)) = chained_len x.
Proof. exact chained_put_length. Qed.
Print Assumptions C01_chained_put_length.

Theorem C01_chained_len_range : forall x, x < 18446744073709551616 ->
  1 <= chained_len x <= 9.
Proof. exact chained_len_range. Qed.
Print Assumptions C01_chained_len_range.

(* the encoder modifies no byte outside len x bytes of the destination *)
Theorem C01_chained_put_frame : forall x buf off, x < 18446744073709551616 ->
  (off + N.to_nat (chained_len x) <= length buf)%nat ->
  let buf' := store buf off (chained_put x) in
  firstn off buf' = firstn off buf /\
  skipn (off + N.to_nat (chained_len x)) buf' = skipn (off + N.to_nat (chained_len x)) buf /\
  length buf' = length buf.
Proof. exact chained_put_frame. Qed.
Print Assumptions C01_chained_put_frame.

(* the sqlite3 register dance IS the plain continuation-bit reader, on every
   byte string (well formed or not) whose consumed bytes are bytes *)
Theorem C01_chained_get_is_decode : forall z,
  (forall i, N.of_nat i < fst (chained_decode z) -> byte_at z i < 256) ->
  chained_get z = chained_decode z.
Proof. exact chained_get_is_decode. Qed.
Print Assumptions C01_chained_get_is_decode.

(* 32-bit entry points: the macros varintChained_putVarint32 / _getVarint32 *)
Theorem C01_chained32_roundtrip : forall x tl, x < 4294967296 ->
  chained_get32 (chained_put32 x ++ tl) = (chained_len x, x).
Proof. exact chained32_roundtrip. Qed.
Print Assumptions C01_chained32_roundtrip.

Theorem C01_chained_put32_eq : forall x, x < 4294967296 -> chained_put32 x = chained_put x.
Proof. exact chained_put32_eq. Qed.
Print Assumptions C01_chained_put32_eq.

(* varintChainedGetVarint32 itself (compiled without its 1-byte case) on every
   encoding it may be called on *)
Theorem C01_chained32_fn_roundtrip : forall x tl, 128 <= x < 4294967296 ->
  chained_get32_fn (chained_put32 x ++ tl) = (chained_len x, x).
Proof. exact chained32_fn_roundtrip. Qed.
Print Assumptions C01_chained32_fn_roundtrip.

(* documented saturation of the 32-bit reader on wider values *)
Theorem C01_chained32_saturates : forall x tl, 4294967296 <= x < 18446744073709551616 ->
  chained_get32 (chained_put x ++ tl) = (chained_len x, 4294967295).
Proof. exact chained32_saturates. Qed.
Print Assumptions C01_chained32_saturates.

(* ---------------- chained-simple: Encode64 / Decode64 / Length / 32-bit forms ---------------- *)

Theorem C01_csimple_roundtrip : forall x tl, x < 18446744073709551616 ->
  csimple_decode64 (csimple_encode64 x ++ tl) = (csimple_length x, x).
Proof. exact csimple_roundtrip. Qed.
Print Assumptions C01_csimple_roundtrip.

(* varintChainedSimpleDecode64 IS the plain little-endian continuation-bit
   reader with the 9-byte cap, on every byte string whose consumed bytes are
   bytes (so it never returns VARINT_WIDTH_INVALID) *)
Theorem C01_csimple_decode64_is_decode : forall z,
  (forall i, N.of_nat i < fst (csimple_decode z) -> byte_at z i < 256) ->
  csimple_decode64 z = csimple_decode z.
Proof. exact csimple_decode64_is_decode. Qed.
Print Assumptions C01_csimple_decode64_is_decode.

Theorem C01_csimple_put_length : forall x, x < 18446744073709551616 ->
  N.of_nat (length (csimple_encode64 x)) = csimple_length x.
Proof. exact csimple_put_length. Qed.
Print Assumptions C01_csimple_put_length.

Theorem C01_csimple_length_range : forall x, x < 18446744073709551616 ->
  1 <= csimple_length x <= 9.
Proof. exact csimple_length_range. Qed.
Print Assumptions C01_csimple_length_range.

Theorem C01_csimple_put_frame : forall x buf off, x < 18446744073709551616 ->
  (off + N.to_nat (csimple_length x) <= length buf)%nat ->
  let buf' := store buf off (csimple_encode64 x) in
  firstn off buf' = firstn off buf /\
  skipn (off + N.to_nat (csimple_length x)) buf' = skipn (off + N.to_nat (csimple_length x)) buf /\
  length buf' = length buf.
Proof. exact csimple_put_frame. Qed.
Print Assumptions C01_csimple_put_frame.

Theorem C01_csimple_encode32_eq : forall x, x < 4294967296 ->
  csimple_encode32 x = csimple_encode64 x.
Proof. exact csimple_encode32_eq. Qed.
Print Assumptions C01_csimple_encode32_eq.

Theorem C01_csimple32_roundtrip : forall x tl, x < 4294967296 ->
  csimple_decode32 (csimple_encode32 x ++ tl) = (csimple_length x, x).
Proof. exact csimple32_roundtrip. Qed.
Print Assumptions C01_csimple32_roundtrip.

Theorem C01_csimple32_fallback_roundtrip : forall x tl, x < 4294967296 ->
  csimple_decode32_fallback (csimple_encode32 x ++ tl) = (csimple_length x, x).
Proof. exact csimple32_fallback_roundtrip. Qed.
Print Assumptions C01_csimple32_fallback_roundtrip.

(* non-vacuity: concrete instances at the 8/9-byte boundary and at 2^32 - 1 *)
Example C01_chained_example :
  chained_get (chained_put 72057594037927936 ++ [255]) = (9, 72057594037927936) /\
  chained_get (chained_put 72057594037927935 ++ [255]) = (8, 72057594037927935) /\
  chained_get32 (chained_put32 4294967295 ++ [255]) = (5, 4294967295) /\
  csimple_decode64 (csimple_encode64 18446744073709551615 ++ [255]) = (9, 18446744073709551615) /\
  csimple_decode32 (csimple_encode32 16384 ++ [255]) = (3, 16384).
Proof. vm_compute. repeat split; reflexivity. Qed.
