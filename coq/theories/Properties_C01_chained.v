(* Properties_C01_chained.v — chained / chained-simple share of C01. *)
Require Import VV.Base VV.Chained VV.ChainedSpec.
Local Open Scope N_scope.
