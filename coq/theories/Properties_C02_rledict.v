(* Properties_C02_rledict.v — property C02 (integer-array codecs are lossless,
   including random access) for the run-length codec (both formats) and the
   dictionary codec (both decoders).  Statements closed by `exact`, each
   followed by Print Assumptions.
   `++ tl` after the encoder's bytes: whatever follows them in memory does not
   matter — the decoder needs only the bytes the encoder reported writing. *)
Require Import VV.Base VV.Tagged VV.RLE VV.RLESpec VV.RLELemmas VV.RLEProofs VV.Dict VV.DictProofs
  VV.RLEDictTheorems.
From Coq Require Import Sorted.
Local Open Scope N_scope.

(* varintRLEDecode(varintRLEEncode(xs), count) = xs *)
Theorem C02_rle_roundtrip : forall xs tl,
  Forall (fun x => x < 18446744073709551616) xs -> N.of_nat (length xs) < 18446744073709551616 ->
  rle_decode (fst (rle_encode xs) ++ tl) (N.of_nat (length xs)) = RleOk xs.
Proof. exact rle_roundtrip_full. Qed.
Print Assumptions C02_rle_roundtrip.

(* varintRLEDecodeWithHeader(varintRLEEncodeWithHeader(xs), count) = xs *)
Theorem C02_rle_header_roundtrip : forall xs tl,
  Forall (fun x => x < 18446744073709551616) xs -> N.of_nat (length xs) < 18446744073709551616 ->
  rle_decode_with_header (fst (rle_encode_with_header xs) ++ tl) (N.of_nat (length xs)) = RleOk xs.
Proof. exact rle_header_roundtrip_full. Qed.
Print Assumptions C02_rle_header_roundtrip.

(* varintRLEGetAt returns the element the full decoder returns at that index *)
Theorem C02_rle_get_at : forall xs tl i,
  Forall (fun x => x < 18446744073709551616) xs -> N.of_nat (length xs) < 18446744073709551616 ->
  i < N.of_nat (length xs) ->
  rle_get_at (fst (rle_encode xs) ++ tl) i = Some (nth (N.to_nat i) xs 0).
Proof. exact rle_get_at_correct. Qed.
Print Assumptions C02_rle_get_at.

(* byte-exact format: the encoder writes [len:tagged][value:tagged] for each
   maximal run, and the run list expands to the array *)
Theorem C02_rle_format : forall xs,
  fst (rle_encode xs) = enc_runs (rle_runs xs) /\ expand_runs (rle_runs xs) = xs.
Proof. exact rle_format. Qed.
Print Assumptions C02_rle_format.

(* varintDictBuild: the dictionary is the strictly increasing list of the
   distinct input values, and such a list is unique (qsort's choices are
   invisible) *)
Theorem C02_dict_values : forall xs,
  StronglySorted N.lt (dict_values_of xs) /\ (forall x, In x (dict_values_of xs) <-> In x xs) /\
  (forall v, StronglySorted N.lt v -> (forall x, In x v <-> In x xs) -> v = dict_values_of xs).
Proof. exact dict_values_canonical. Qed.
Print Assumptions C02_dict_values.

(* varintDictFind (binary search) on a built dictionary *)
Theorem C02_dict_find : forall u v,
  StronglySorted N.lt u -> 1 <= N.of_nat (length u) <= 1048576 ->
  (In v u -> dict_find_arr (dict_arr_of_list u) (N.of_nat (length u)) v = Some (Z.of_nat (dict_find_index u v)) /\
             nth (dict_find_index u v) u 0 = v) /\
  (~ In v u -> dict_find_arr (dict_arr_of_list u) (N.of_nat (length u)) v = Some (-1)%Z).
Proof. exact dict_find_correct. Qed.
Print Assumptions C02_dict_find.

(* varintDictDecode(varintDictEncode(xs)) = xs for every array the encoder accepts *)
Theorem C02_dict_decode_roundtrip : forall xs d,
  dict_build xs = DictBuildOk d ->
  Forall (fun x => x < 18446744073709551616) xs -> N.of_nat (length xs) < 18446744073709551616 ->
  forall tl,
  dict_decode (fst (dict_encode xs) ++ tl) (N.of_nat (length (fst (dict_encode xs))))
  = DictOk xs [8 * N.of_nat (length (dict_values_of xs)); mul64 (N.of_nat (length xs)) 8].
Proof. exact dict_decode_roundtrip. Qed.
Print Assumptions C02_dict_decode_roundtrip.

(* varintDictDecodeInto with capacity >= count *)
Theorem C02_dict_decode_into_roundtrip : forall xs d,
  dict_build xs = DictBuildOk d ->
  Forall (fun x => x < 18446744073709551616) xs -> N.of_nat (length xs) < 18446744073709551616 ->
  forall tl cap, N.of_nat (length xs) <= cap ->
  dict_decode_into (fst (dict_encode xs) ++ tl) (N.of_nat (length (fst (dict_encode xs)))) cap
  = DictOk xs [8 * N.of_nat (length (dict_values_of xs))].
Proof. exact dict_decode_into_full. Qed.
Print Assumptions C02_dict_decode_into_roundtrip.

(* shared dictionary (varintDictEncodeWithDict): any strictly increasing
   dictionary of at most 2^20 entries containing the values *)
Theorem C02_dict_with_roundtrip : forall u xs,
  StronglySorted N.lt u -> 1 <= N.of_nat (length u) <= 1048576 ->
  Forall (fun x => x < 18446744073709551616) u -> xs <> [] -> (forall v, In v xs -> In v u) ->
  N.of_nat (length xs) < 18446744073709551616 ->
  dict_encode_with_dict (dict_of u) xs = (dict_bytes_with u xs, true) /\
  (forall tl, dict_decode (dict_bytes_with u xs ++ tl) (N.of_nat (length (dict_bytes_with u xs)))
             = DictOk xs [8 * N.of_nat (length u); mul64 (N.of_nat (length xs)) 8]) /\
  (forall tl cap, N.of_nat (length xs) <= cap ->
     dict_decode_into (dict_bytes_with u xs ++ tl) (N.of_nat (length (dict_bytes_with u xs))) cap
     = DictOk xs [8 * N.of_nat (length u)]).
Proof. exact dict_with_roundtrip. Qed.
Print Assumptions C02_dict_with_roundtrip.

(* F05 (fixed): more than VARINT_DICT_MAX_SIZE distinct values are refused by
   the encoder (returns 0, nothing written, size 0) instead of producing a
   stream no decoder accepts *)
Theorem C02_dict_refuses_oversize : forall xs,
  1048576 < N.of_nat (length (dict_values_of xs)) ->
  fst (dict_encode xs) = [] /\ dict_ret (dict_encode xs) = 0 /\ dict_encoded_size xs = 0.
Proof. exact dict_build_refuses. Qed.
Print Assumptions C02_dict_refuses_oversize.

(* non-vacuity *)
Example C02_example :
  rle_decode (fst (rle_encode [7; 7; 7; 300; 300; 18446744073709551615])) 6
    = RleOk [7; 7; 7; 300; 300; 18446744073709551615] /\
  fst (rle_encode [7; 7; 7; 300; 300; 18446744073709551615])
    = [3; 7; 2; 241; 60; 1; 255; 255; 255; 255; 255; 255; 255; 255; 255] /\
  dict_encode [30; 10; 20; 10; 30; 30] = ([3; 10; 20; 30; 6; 2; 0; 1; 0; 2; 2], true) /\
  dict_decode [3; 10; 20; 30; 6; 2; 0; 1; 0; 2; 2] 11 = DictOk [30; 10; 20; 10; 30; 30] [24; 48].
Proof. vm_compute. repeat split; reflexivity. Qed.
