(* Properties_C16_bp128.v — varintBP128 contribution to C16 (reported metadata
   and header accessors tell the truth).  `encodeK_meta` models what the
   encoder stores into *meta (same formulas as the C, running maximum of the
   block header bytes included); the theorems equate every field with the
   quantity computed from the input and from the bytes written.  That the
   reported count equals the number of elements decoding yields is
   C02_*_roundtrip (decoding with that count returns the whole list).
   n below is the number of bit-packed values: all of them for Encode32/64, all
   but the first for the delta forms (the first one is a tagged varint); the
   stream holds (n + 127) / 128 blocks, the last one n - 128 * (blocks - 1)
   values.  delta_encode64_meta is the code after the fix of F16
   (lastBlockSize was never written). *)
Require Import VV.Base VV.Tagged VV.BP128 VV.BP128Proofs32 VV.BP128ProofsD32 VV.BP128Proofs64 VV.BP128ProofsD64.
Local Open Scope N_scope.

Theorem C16_bp128_encode32_meta : forall vs,
  vs <> [] -> Forall (fun v => v < 2 ^ 32) vs ->
  let m := encode32_meta vs in
  let n := N.of_nat (length vs) in
  m_count m = n /\
  m_encodedBytes m = N.of_nat (length (encode32 vs)) /\
  m_blockCount m = (n + 127) / 128 /\
  m_lastBlockSize m = n - 128 * ((n + 127) / 128 - 1) /\
  m_maxBitWidth m = bits_needed (max_val vs).
Proof. exact encode32_meta_ok. Qed.
Print Assumptions C16_bp128_encode32_meta.

Theorem C16_bp128_delta_encode32_meta : forall v0 rest,
  let vs := v0 :: rest in
  let m := delta_encode32_meta vs in
  let n := N.of_nat (length rest) in
  m_count m = N.of_nat (length vs) /\
  m_encodedBytes m = N.of_nat (length (delta_encode32 vs)) /\
  m_blockCount m = (n + 127) / 128 /\
  (0 < n -> m_lastBlockSize m = n - 128 * ((n + 127) / 128 - 1)) /\
  m_maxBitWidth m = bits_needed (max_val (deltas32 v0 rest)).
Proof. exact delta_encode32_meta_ok. Qed.
Print Assumptions C16_bp128_delta_encode32_meta.

Theorem C16_bp128_encode64_meta : forall vs,
  vs <> [] ->
  let m := encode64_meta vs in
  let n := N.of_nat (length vs) in
  m_count m = n /\
  m_encodedBytes m = N.of_nat (length (encode64 vs)) /\
  m_blockCount m = (n + 127) / 128 /\
  m_lastBlockSize m = n - 128 * ((n + 127) / 128 - 1) /\
  m_maxBitWidth m = bits_needed (max_val vs).
Proof. exact encode64_meta_ok. Qed.
Print Assumptions C16_bp128_encode64_meta.

Theorem C16_bp128_delta_encode64_meta : forall v0 rest,
  let vs := v0 :: rest in
  let m := delta_encode64_meta vs in
  let n := N.of_nat (length rest) in
  m_count m = N.of_nat (length vs) /\
  m_encodedBytes m = N.of_nat (length (delta_encode64 vs)) /\
  m_blockCount m = (n + 127) / 128 /\
  (0 < n -> m_lastBlockSize m = n - 128 * ((n + 127) / 128 - 1)) /\
  m_maxBitWidth m = bits_needed (max_val (deltas64 v0 rest)).
Proof. exact delta_encode64_meta_ok. Qed.
Print Assumptions C16_bp128_delta_encode64_meta.

(* empty input: memset(meta, 0) *)
Theorem C16_bp128_meta_empty :
  encode32_meta [] = meta_zero /\ delta_encode32_meta [] = meta_zero /\
  encode64_meta [] = meta_zero /\ delta_encode64_meta [] = meta_zero.
Proof. exact (conj eq_refl (conj eq_refl (conj eq_refl eq_refl))). Qed.
Print Assumptions C16_bp128_meta_empty.

(* bits_needed is the bit length: the reported width is the least that holds the maximum *)
Theorem C16_bp128_width_is_bit_length : forall v,
  v < 2 ^ bits_needed v /\ (forall k, v < 2 ^ k -> bits_needed v <= k).
Proof. exact (fun v => conj (BP128Lemmas.bits_needed_lt v) (BP128Lemmas.bits_needed_le v)). Qed.
Print Assumptions C16_bp128_width_is_bit_length.

(* varintBP128GetCount on the layout it is documented for (Encode64) *)
Theorem C16_bp128_get_count : forall vs tl,
  vs <> [] -> N.of_nat (length vs) < 2 ^ 64 ->
  get_count (encode64 vs ++ tl) = N.of_nat (length vs).
Proof. exact get_count_encode64. Qed.
Print Assumptions C16_bp128_get_count.

(* ... and why the header now restricts it to that layout (F17): on the other
   three layouts it returns the first block header parsed as a tagged varint,
   or the first value *)
Example C16_bp128_get_count_other_layouts :
  get_count (encode32 [5]) = 131 /\
  get_count (delta_encode32 [300; 301; 302]) = 300 /\
  get_count (delta_encode64 [300; 301; 302]) = 300.
Proof. vm_compute. repeat split; reflexivity. Qed.

Example C16_bp128_example :
  let m := encode32_meta (map N.of_nat (seq 0 300)) in
  (m_count m, m_blockCount m, m_lastBlockSize m, m_maxBitWidth m) = (300, 3, 44, 9) /\
  let d := delta_encode64_meta [1; 2; 3; 4; 5] in
  (m_count d, m_blockCount d, m_encodedBytes d, m_lastBlockSize d, m_maxBitWidth d) = (5, 1, 4, 4, 1).
Proof. vm_compute. repeat split; reflexivity. Qed.
