(* ExternalLemmas.v — generic list / byte-order lemmas used by the External
   proofs (nothing here mentions the External model except src_byte and the
   two copy functions). *)
Require Import VV.Base VV.BaseProofs VV.External.
From Coq Require Import Lia ZifyBool ZifyN ZifyNat Arith.
Local Open Scope N_scope.
Ltac Zify.zify_post_hook ::= Z.div_mod_to_equations.

(* ---- lists ---- *)

Lemma map_seq_shift {A} (f : nat -> A) a n :
  map f (seq (S a) n) = map (fun i => f (S i)) (seq a n).
Proof. rewrite <- seq_shift, map_map. reflexivity. Qed.

Lemma map_nth_seq_app (l tl : list N) :
  map (byte_at (l ++ tl)) (seq 0 (length l)) = l.
Proof.
  induction l as [|a l IH]; [reflexivity|].
  cbn [length seq map]. rewrite map_seq_shift. f_equal. exact IH.
Qed.

Lemma map_byte_at_firstn (z : list N) w :
  map (byte_at z) (seq 0 w) = map (byte_at (firstn w z)) (seq 0 w).
Proof.
  revert z. induction w as [|w IH]; intro z; [reflexivity|].
  cbn [seq map]. rewrite !map_seq_shift. destruct z as [|a z].
  - cbn [firstn]. reflexivity.
  - cbn [firstn]. f_equal. unfold byte_at in *. cbn [nth]. apply IH.
Qed.

Lemma nth_skipn {A} (l : list A) n i d : nth i (skipn n l) d = nth (n + i) l d.
Proof.
  revert l. induction n as [|n IH]; intros [|a l]; cbn [skipn plus nth]; try reflexivity.
  - destruct i; reflexivity.
  - apply IH.
Qed.

Lemma nth_store0_beyond (p bs : list N) i :
  (length bs <= i)%nat -> nth i (store p 0 bs) 0 = nth i p 0.
Proof.
  intro H. unfold store. cbn [firstn app plus].
  rewrite app_nth2 by lia. rewrite nth_skipn. f_equal. lia.
Qed.

Lemma length_store0 (p bs : list N) :
  length (store p 0 bs) = Nat.max (length bs) (length p).
Proof.
  unfold store. cbn [firstn app plus]. rewrite app_length, skipn_length. lia.
Qed.

Lemma store0_app (p bs : list N) : store p 0 bs = bs ++ skipn (length bs) p.
Proof. reflexivity. Qed.

(* ---- src_byte is the i-th little-endian byte ---- *)

Lemma src_byte_0 x : src_byte x 0 = x mod 256.
Proof. unfold src_byte, u8, shr. cbn [N.of_nat N.mul]. rewrite N.pow_0_r, N.div_1_r. reflexivity. Qed.

Lemma src_byte_S x i : src_byte x (S i) = src_byte (x / 256) i.
Proof.
  unfold src_byte, u8, shr. f_equal.
  rewrite N.div_div by (try apply N.pow_nonzero; lia).
  f_equal. rewrite Nat2N.inj_succ.
  replace (8 * N.succ (N.of_nat i)) with (8 + 8 * N.of_nat i) by lia.
  rewrite N.pow_add_r. reflexivity.
Qed.

Lemma le_bytes_src k x : le_bytes k x = map (src_byte x) (seq 0 k).
Proof.
  revert x. induction k as [|k IH]; intro x; [reflexivity|].
  cbn [le_bytes seq map]. rewrite map_seq_shift, src_byte_0. f_equal.
  rewrite IH. apply map_ext. intro i. symmetry. apply src_byte_S.
Qed.

Lemma src_byte_lt x i : src_byte x i < 256.
Proof. apply u8_lt. Qed.

(* ---- the two copy switches are map / rev map over 0..w-1 ---- *)

Lemma ext_copy_le_spec s w : (1 <= w <= 8)%nat -> ext_copy_le s w = Some (map s (seq 0 w)).
Proof.
  intro H. do 9 (destruct w as [|w]; [try lia; reflexivity|]). lia.
Qed.

Lemma ext_copy_le_none s w : ~ (1 <= w <= 8)%nat -> ext_copy_le s w = None.
Proof.
  intro H. do 9 (destruct w as [|w]; [try lia; reflexivity|]). reflexivity.
Qed.

Lemma ext_copy_be_spec s w : (1 <= w <= 8)%nat -> ext_copy_be s w = Some (rev (map s (seq 0 w))).
Proof.
  intro H. do 9 (destruct w as [|w]; [try lia; reflexivity|]). lia.
Qed.

Lemma ext_copy_be_none s w : ~ (1 <= w <= 8)%nat -> ext_copy_be s w = None.
Proof.
  intro H. do 9 (destruct w as [|w]; [try lia; reflexivity|]). reflexivity.
Qed.

(* ---- small arithmetic ---- *)

Lemma land_255 a : N.land a 255 = a mod 256.
Proof. change 255 with (N.ones 8). rewrite N.land_ones. reflexivity. Qed.

Lemma u8_land_255 a : u8 (N.land a 255) = u8 a.
Proof. rewrite land_255. unfold u8. rewrite N.mod_mod by lia. reflexivity. Qed.

Lemma shl64_byte b k : b < 256 -> k <= 56 -> shl64 b k = b * 2 ^ k.
Proof.
  intros Hb Hk. unfold shl64. apply N.mod_small.
  assert (2 ^ k <= 2 ^ 56) by (apply N.pow_le_mono_r; lia).
  change (2 ^ 56) with 72057594037927936 in *. nia.
Qed.

Lemma lor2 b1 b0 : b0 < 256 -> N.lor (b1 * 2 ^ 8) b0 = b0 + 256 * b1.
Proof. intro H. rewrite lor_add_disjoint by exact H. change (2 ^ 8) with 256. lia. Qed.

Lemma lor3 b2 b1 b0 : b1 < 256 -> b0 < 256 ->
  N.lor (N.lor (b2 * 2 ^ 16) (b1 * 2 ^ 8)) b0 = b0 + 256 * (b1 + 256 * b2).
Proof.
  intros H1 H0.
  rewrite (lor_add_mod0 (b2 * 2 ^ 16) (b1 * 2 ^ 8) 16).
  - rewrite (lor_add_mod0 _ b0 8) by (change (2 ^ 16) with 65536; change (2 ^ 8) with 256; lia).
    change (2 ^ 16) with 65536; change (2 ^ 8) with 256; lia.
  - apply N.mod_mul. lia.
  - change (2 ^ 16) with 65536; change (2 ^ 8) with 256; lia.
Qed.

Lemma pow256_pos k : 0 < 256 ^ N.of_nat k.
Proof. apply N.neq_0_lt_0, N.pow_nonzero. lia. Qed.

Lemma of_s64_lt z : of_s64 z < 18446744073709551616.
Proof. unfold of_s64. lia. Qed.

Lemma lxor_pow2_small a k : a < 2 ^ k -> N.lxor a (2 ^ k) = a + 2 ^ k.
Proof.
  intro H. pose proof (land_shl_small 1 a k H) as L.
  rewrite N.lxor_comm. replace (2 ^ k) with (1 * 2 ^ k) by lia.
  rewrite N.lxor_lor by exact L. rewrite lor_add_disjoint by exact H. lia.
Qed.

Lemma lxor_pow2_cancel a k : a < 2 ^ k -> N.lxor (a + 2 ^ k) (2 ^ k) = a.
Proof.
  intro H. rewrite <- (lxor_pow2_small a k H).
  rewrite N.lxor_assoc, N.lxor_nilpotent, N.lxor_0_r. reflexivity.
Qed.
