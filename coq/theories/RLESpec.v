(* RLESpec.v — independently shaped specification of the run-length format:
   the list of maximal runs of an array, its byte image and its expansion.
   Definitions only; facts are in RLEProofs.v. *)
Require Import VV.Base VV.Tagged.
Local Open Scope N_scope.

(* maximal runs (length, value) of a list, built from the right *)
Fixpoint rle_runs (l : list N) : list (N * N) :=
  match l with
  | [] => []
  | x :: t =>
      match rle_runs t with
      | (n, y) :: r => if x =? y then (n + 1, y) :: r else (1, x) :: (n, y) :: r
      | [] => [(1, x)]
      end
  end.

(* wire image of one run and of a run list: [len:tagged][value:tagged]... *)
Definition run_bytes (r : N * N) : list N := tagged_put64 (fst r) ++ tagged_put64 (snd r).
Definition enc_runs (rs : list (N * N)) : list N := flat_map run_bytes rs.

(* the array a run list stands for *)
Definition expand_runs (rs : list (N * N)) : list N :=
  flat_map (fun r => repeat (snd r) (N.to_nat (fst r))) rs.

(* number of elements *)
Definition runs_total (rs : list (N * N)) : N := fold_right (fun r s => fst r + s) 0 rs.

(* neighbouring runs carry different values (runs are maximal) *)
Fixpoint adj_distinct (rs : list (N * N)) : Prop :=
  match rs with
  | r1 :: ((r2 :: _) as t) => snd r1 <> snd r2 /\ adj_distinct t
  | _ => True
  end.
