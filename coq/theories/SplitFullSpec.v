(* SplitFullSpec.v — independently shaped specification of the SplitFull and
   SplitFullNoZero wire formats: a level table read off the "Data Layout"
   comments of varintSplitFull.h / varintSplitFullNoZero.h and one generic
   table interpreter (encoder, decoder, per-length maxima). *)
Require Import VV.Base.
Local Open Scope N_scope.

(* One row per line of the layout comment:
     prefix       the leading bits of the first byte, as a number
     prefix_bits  how many leading bits it occupies (2: |ppxxxxxx|, 8: whole byte)
     payload      bytes following the first byte
     base         the value whose stored field is 0 ("+ previous level")
     used         false for the row marked XX==NOT USED==XX
   Rows with a 2-bit prefix keep 6 value bits in the first byte and are laid
   out big-endian ("big endian split"); rows with an 8-bit prefix hold the
   value in the payload bytes little-endian ("little endian external"). *)
Record sf_level := SfLevel {
  sflv_prefix : N; sflv_pbits : N; sflv_payload : nat; sflv_base : N; sflv_used : bool }.

(*   |00pppppp|                      <= 63
     |01pppppp|qqqqqqqq|             <= 2^14 - 1 + 63
     |10pppppp|qqqqqqqq|rrrrrrrr|    <= 2^22 - 1 + 16446
     |11000001|q|                    NOT USED
     |11000010|q|r| ... |11001000|q|r|s|t|v|u|w|z|   4210749 + uintN_t *)
Definition sf_table : list sf_level :=
  [ SfLevel 0 2 0 0 true;
    SfLevel 1 2 1 63 true;
    SfLevel 2 2 2 16446 true;
    SfLevel 193 8 1 4210749 false;
    SfLevel 194 8 2 4210749 true;
    SfLevel 195 8 3 4210749 true;
    SfLevel 196 8 4 4210749 true;
    SfLevel 197 8 5 4210749 true;
    SfLevel 198 8 6 4210749 true;
    SfLevel 199 8 7 4210749 true;
    SfLevel 200 8 8 4210749 true ].

(* NoZero: no encoding for 0; one byte holds 1..64 as value-1, every later
   base is one higher than SplitFull's. *)
Definition sfnz_table : list sf_level :=
  [ SfLevel 0 2 0 1 true;
    SfLevel 1 2 1 64 true;
    SfLevel 2 2 2 16447 true;
    SfLevel 193 8 1 4210750 false;
    SfLevel 194 8 2 4210750 true;
    SfLevel 195 8 3 4210750 true;
    SfLevel 196 8 4 4210750 true;
    SfLevel 197 8 5 4210750 true;
    SfLevel 198 8 6 4210750 true;
    SfLevel 199 8 7 4210750 true;
    SfLevel 200 8 8 4210750 true ].

(* ---- generic interpreter ---- *)

(* value bits a level offers *)
Definition sflv_bits (l : sf_level) : N := 8 * N.of_nat (sflv_payload l) + (8 - sflv_pbits l).
(* total encoded length *)
Definition sflv_len (l : sf_level) : nat := S (sflv_payload l).
(* largest 64-bit value the level can hold *)
Definition sflv_max (l : sf_level) : N :=
  N.min (sflv_base l + 2 ^ sflv_bits l - 1) 18446744073709551615.

Definition sflv_encode (l : sf_level) (x : N) : list N :=
  let v := x - sflv_base l in
  if sflv_pbits l =? 8 then sflv_prefix l :: le_bytes (sflv_payload l) v
  else be_bytes (sflv_len l) (sflv_prefix l * 2 ^ sflv_bits l + v).

(* the first used level (table order) that can hold x *)
Fixpoint sftbl_find (t : list sf_level) (x : N) : option sf_level :=
  match t with
  | [] => None
  | l :: t' => if sflv_used l && (sflv_base l <=? x) && (x <=? sflv_max l) then Some l
               else sftbl_find t' x
  end.

Definition sftbl_encode (t : list sf_level) (x : N) : list N :=
  match sftbl_find t x with Some l => sflv_encode l x | None => [] end.
Definition sftbl_len (t : list sf_level) (x : N) : N :=
  match sftbl_find t x with Some l => N.of_nat (sflv_len l) | None => 0 end.

(* largest value stored in at most k bytes by the used levels *)
Definition sftbl_max (t : list sf_level) (k : N) : N :=
  fold_left (fun m l => if sflv_used l && (N.of_nat (sflv_len l) <=? k) then N.max m (sflv_max l) else m) t 0.

(* largest value held by an embedded (2-bit prefix) level *)
Definition sftbl_emax (t : list sf_level) : N :=
  fold_left (fun m l => if sflv_used l && (sflv_pbits l =? 2) then N.max m (sflv_max l) else m) t 0.

(* decoder of the documented format, unused row included (it is a
   well-formed byte string of the layout, the encoder just never emits it):
   the row whose prefix and total length match. *)
Definition sflv_matches (l : sf_level) (b : list N) : bool :=
  (length b =? sflv_len l)%nat &&
  (if sflv_pbits l =? 8 then nth 0 b 0 =? sflv_prefix l else nth 0 b 0 / 64 =? sflv_prefix l).
Definition sflv_decode (l : sf_level) (b : list N) : N :=
  sflv_base l +
  (if sflv_pbits l =? 8 then of_le (tl b) else of_be b - sflv_prefix l * 2 ^ sflv_bits l).
Fixpoint sftbl_denote (t : list sf_level) (b : list N) : option N :=
  match t with
  | [] => None
  | l :: t' => if sflv_matches l b then Some (sflv_decode l b) else sftbl_denote t' b
  end.

Definition sf_spec (x : N) : list N := sftbl_encode sf_table x.
Definition sf_spec_len (x : N) : N := sftbl_len sf_table x.
Definition sf_max (k : N) : N := sftbl_max sf_table k.
Definition sf_denote (b : list N) : option N := sftbl_denote sf_table b.
Definition sf_emax : N := sftbl_emax sf_table.
Definition sfnz_spec (x : N) : list N := sftbl_encode sfnz_table x.
Definition sfnz_spec_len (x : N) : N := sftbl_len sfnz_table x.
Definition sfnz_max (k : N) : N := sftbl_max sfnz_table k.
Definition sfnz_denote (b : list N) : option N := sftbl_denote sfnz_table b.
Definition sfnz_emax : N := sftbl_emax sfnz_table.

(* reversed layout: embedded levels byte-reversed, external levels keep the
   little-endian payload and move the type byte to the end *)
Definition sflv_encode_rev (l : sf_level) (x : N) : list N :=
  let v := x - sflv_base l in
  if sflv_pbits l =? 8 then le_bytes (sflv_payload l) v ++ [sflv_prefix l]
  else le_bytes (sflv_len l) (sflv_prefix l * 2 ^ sflv_bits l + v).
Definition sftbl_encode_rev (t : list sf_level) (x : N) : list N :=
  match sftbl_find t x with Some l => sflv_encode_rev l x | None => [] end.
Definition sf_spec_rev (x : N) : list N := sftbl_encode_rev sf_table x.
Definition sfnz_spec_rev (x : N) : list N := sftbl_encode_rev sfnz_table x.

(* EXTRACT: sf_spec sf_spec_len sf_max sf_emax sfnz_emax sf_denote sf_spec_rev
   sfnz_spec sfnz_spec_len sfnz_max sfnz_denote sfnz_spec_rev *)
