(* SplitFullSpec.v — independently shaped specification of the SplitFull and
   SplitFullNoZero wire formats: a level table read off the "Data Layout"
   comments of varintSplitFull.h / varintSplitFullNoZero.h and one generic
   table interpreter (encoder, decoder, per-length maxima). *)
Require Import VV.Base.
Local Open Scope N_scope.

(* One row per line of the layout comment:
     prefix       the leading bits of the first byte, as a number
     prefix_bits  how many leading bits it occupies (2: |ppxxxxxx|, 8: whole byte)
     payload      bytes following the first byte
     base         the value whose stored field is 0 ("+ previous level")
     used         false for the row marked XX==NOT USED==XX
   Rows with a 2-bit prefix keep 6 value bits in the first byte and are laid
   out big-endian ("big endian split"); rows with an 8-bit prefix hold the
   value in the payload bytes little-endian ("little endian external"). *)
Record sf_level := SfLevel {
  lv_prefix : N; lv_pbits : N; lv_payload : nat; lv_base : N; lv_used : bool }.

(*   |00pppppp|                      <= 63
     |01pppppp|qqqqqqqq|             <= 2^14 - 1 + 63
     |10pppppp|qqqqqqqq|rrrrrrrr|    <= 2^22 - 1 + 16446
     |11000001|q|                    NOT USED
     |11000010|q|r| ... |11001000|q|r|s|t|v|u|w|z|   4210749 + uintN_t *)
Definition sf_table : list sf_level :=
  [ SfLevel 0 2 0 0 true;
    SfLevel 1 2 1 63 true;
    SfLevel 2 2 2 16446 true;
    SfLevel 193 8 1 4210749 false;
    SfLevel 194 8 2 4210749 true;
    SfLevel 195 8 3 4210749 true;
    SfLevel 196 8 4 4210749 true;
    SfLevel 197 8 5 4210749 true;
    SfLevel 198 8 6 4210749 true;
    SfLevel 199 8 7 4210749 true;
    SfLevel 200 8 8 4210749 true ].

(* NoZero: no encoding for 0; one byte holds 1..64 as value-1, every later
   base is one higher than SplitFull's. *)
Definition sfnz_table : list sf_level :=
  [ SfLevel 0 2 0 1 true;
    SfLevel 1 2 1 64 true;
    SfLevel 2 2 2 16447 true;
    SfLevel 193 8 1 4210750 false;
    SfLevel 194 8 2 4210750 true;
    SfLevel 195 8 3 4210750 true;
    SfLevel 196 8 4 4210750 true;
    SfLevel 197 8 5 4210750 true;
    SfLevel 198 8 6 4210750 true;
    SfLevel 199 8 7 4210750 true;
    SfLevel 200 8 8 4210750 true ].

(* ---- generic interpreter ---- *)

(* value bits a level offers *)
Definition lv_bits (l : sf_level) : N := 8 * N.of_nat (lv_payload l) + (8 - lv_pbits l).
(* total encoded length *)
Definition lv_len (l : sf_level) : nat := S (lv_payload l).
(* largest 64-bit value the level can hold *)
Definition lv_max (l : sf_level) : N :=
  N.min (lv_base l + 2 ^ lv_bits l - 1) 18446744073709551615.

Definition lv_encode (l : sf_level) (x : N) : list N :=
  let v := x - lv_base l in
  if lv_pbits l =? 8 then lv_prefix l :: le_bytes (lv_payload l) v
  else be_bytes (lv_len l) (lv_prefix l * 2 ^ lv_bits l + v).

(* the first used level (table order) that can hold x *)
Fixpoint tbl_find (t : list sf_level) (x : N) : option sf_level :=
  match t with
  | [] => None
  | l :: t' => if lv_used l && (lv_base l <=? x) && (x <=? lv_max l) then Some l
               else tbl_find t' x
  end.

Definition tbl_encode (t : list sf_level) (x : N) : list N :=
  match tbl_find t x with Some l => lv_encode l x | None => [] end.
Definition tbl_len (t : list sf_level) (x : N) : N :=
  match tbl_find t x with Some l => N.of_nat (lv_len l) | None => 0 end.

(* largest value stored in at most k bytes by the used levels *)
Definition tbl_max (t : list sf_level) (k : N) : N :=
  fold_left (fun m l => if lv_used l && (N.of_nat (lv_len l) <=? k) then N.max m (lv_max l) else m) t 0.

(* largest value held by an embedded (2-bit prefix) level *)
Definition tbl_emax (t : list sf_level) : N :=
  fold_left (fun m l => if lv_used l && (lv_pbits l =? 2) then N.max m (lv_max l) else m) t 0.

(* decoder of the documented format, unused row included (it is a
   well-formed byte string of the layout, the encoder just never emits it):
   the row whose prefix and total length match. *)
Definition lv_matches (l : sf_level) (b : list N) : bool :=
  (length b =? lv_len l)%nat &&
  (if lv_pbits l =? 8 then nth 0 b 0 =? lv_prefix l else nth 0 b 0 / 64 =? lv_prefix l).
Definition lv_decode (l : sf_level) (b : list N) : N :=
  lv_base l +
  (if lv_pbits l =? 8 then of_le (tl b) else of_be b - lv_prefix l * 2 ^ lv_bits l).
Fixpoint tbl_denote (t : list sf_level) (b : list N) : option N :=
  match t with
  | [] => None
  | l :: t' => if lv_matches l b then Some (lv_decode l b) else tbl_denote t' b
  end.

Definition sf_spec (x : N) : list N := tbl_encode sf_table x.
Definition sf_spec_len (x : N) : N := tbl_len sf_table x.
Definition sf_max (k : N) : N := tbl_max sf_table k.
Definition sf_denote (b : list N) : option N := tbl_denote sf_table b.
Definition sf_emax : N := tbl_emax sf_table.
Definition sfnz_spec (x : N) : list N := tbl_encode sfnz_table x.
Definition sfnz_spec_len (x : N) : N := tbl_len sfnz_table x.
Definition sfnz_max (k : N) : N := tbl_max sfnz_table k.
Definition sfnz_denote (b : list N) : option N := tbl_denote sfnz_table b.
Definition sfnz_emax : N := tbl_emax sfnz_table.

(* reversed layout: embedded levels byte-reversed, external levels keep the
   little-endian payload and move the type byte to the end *)
Definition lv_encode_rev (l : sf_level) (x : N) : list N :=
  let v := x - lv_base l in
  if lv_pbits l =? 8 then le_bytes (lv_payload l) v ++ [lv_prefix l]
  else le_bytes (lv_len l) (lv_prefix l * 2 ^ lv_bits l + v).
Definition tbl_encode_rev (t : list sf_level) (x : N) : list N :=
  match tbl_find t x with Some l => lv_encode_rev l x | None => [] end.
Definition sf_spec_rev (x : N) : list N := tbl_encode_rev sf_table x.
Definition sfnz_spec_rev (x : N) : list N := tbl_encode_rev sfnz_table x.

(* EXTRACT: sf_spec sf_spec_len sf_max sf_emax sfnz_emax sf_denote sf_spec_rev
   sfnz_spec sfnz_spec_len sfnz_max sfnz_denote sfnz_spec_rev *)
