(* Properties_C13_bp128.v — varintBP128 contribution to C13 (decoders never write
   beyond the caller's capacity).  A decoder's model returns the values it
   stored at indices 0, 1, 2, ... (each index once, in this order), so
   `length out <= cap` says that no store has an index >= cap; the
   `_within_cap` theorems hold for EVERY byte string, valid or not.  The `_cap`
   theorems give the result on valid encodings for every capacity up to the
   count: a correct prefix — of exactly cap elements for the 64-bit forms, of
   whole 128-blocks for the 32-bit forms (a full block is skipped, and decoding
   stops, when fewer than 128 slots remain; the final partial block is cut to
   the remaining capacity). *)
Require Import VV.Base VV.Tagged VV.BP128 VV.BP128Proofs32 VV.BP128ProofsD32 VV.BP128Proofs64 VV.BP128ProofsD64.
Local Open Scope N_scope.

Theorem C13_bp128_decode32_within_cap : forall z cap out,
  decode32 z cap = Some out -> N.of_nat (length out) <= cap.
Proof. exact decode32_within_cap. Qed.
Print Assumptions C13_bp128_decode32_within_cap.

Theorem C13_bp128_delta_decode32_within_cap : forall z cap out,
  delta_decode32 z cap = Some out -> N.of_nat (length out) <= cap.
Proof. exact delta_decode32_within_cap. Qed.
Print Assumptions C13_bp128_delta_decode32_within_cap.

Theorem C13_bp128_decode64_within_cap : forall z cap out,
  decode64 z cap = Some out -> N.of_nat (length out) <= cap.
Proof. exact decode64_within_cap. Qed.
Print Assumptions C13_bp128_decode64_within_cap.

Theorem C13_bp128_delta_decode64_within_cap : forall z cap out,
  delta_decode64 z cap = Some out -> N.of_nat (length out) <= cap.
Proof. exact delta_decode64_within_cap. Qed.
Print Assumptions C13_bp128_delta_decode64_within_cap.

(* Decode32: whole blocks *)
Theorem C13_bp128_decode32_cap : forall vs tl cap,
  Forall (fun v => v < 2 ^ 32) vs -> cap <= N.of_nat (length vs) ->
  decode32 (encode32 vs ++ tl) cap =
    Some (firstn (N.to_nat (if cap / 128 <? N.of_nat (length vs) / 128 then 128 * (cap / 128) else cap)) vs).
Proof. exact decode32_cap. Qed.
Print Assumptions C13_bp128_decode32_cap.

(* DeltaDecode32: the first value, then whole blocks of the remaining cap - 1 *)
Theorem C13_bp128_delta_decode32_cap : forall v0 rest tl cap,
  Forall (fun v => v < 2 ^ 32) (v0 :: rest) -> cap <= N.of_nat (length (v0 :: rest)) ->
  delta_decode32 (delta_encode32 (v0 :: rest) ++ tl) cap =
    Some (firstn (N.to_nat (if cap =? 0 then 0
                            else 1 + (if (cap - 1) / 128 <? N.of_nat (length rest) / 128
                                      then 128 * ((cap - 1) / 128) else cap - 1)))
                 (v0 :: rest)).
Proof. exact delta_decode32_cap. Qed.
Print Assumptions C13_bp128_delta_decode32_cap.

(* Decode64 / DeltaDecode64: exactly the first cap elements *)
Theorem C13_bp128_decode64_cap : forall vs tl cap,
  vs <> [] -> N.of_nat (length vs) < 2 ^ 64 -> Forall (fun v => v < 2 ^ 64) vs ->
  cap <= N.of_nat (length vs) ->
  decode64 (encode64 vs ++ tl) cap = Some (firstn (N.to_nat cap) vs).
Proof. exact decode64_cap. Qed.
Print Assumptions C13_bp128_decode64_cap.

Theorem C13_bp128_delta_decode64_cap : forall v0 rest tl cap,
  Forall (fun v => v < 2 ^ 64) (v0 :: rest) -> cap <= N.of_nat (length (v0 :: rest)) ->
  delta_decode64 (delta_encode64 (v0 :: rest) ++ tl) cap = Some (firstn (N.to_nat cap) (v0 :: rest)).
Proof. exact delta_decode64_cap. Qed.
Print Assumptions C13_bp128_delta_decode64_cap.

(* non-vacuity: 300 values 0..299, capacity 200 -> the 32-bit form returns one
   whole block (the second full block does not fit), the 64-bit forms 200
   values; an over-long announced count is cut to the capacity *)
Example C13_bp128_example :
  let vs := map N.of_nat (seq 0 300) in
  option_map (@length N) (decode32 (encode32 vs) 200) = Some 128%nat /\
  option_map (@length N) (decode32 (encode32 vs) 299) = Some 299%nat /\
  option_map (@length N) (decode64 (encode64 vs) 200) = Some 200%nat /\
  option_map (@length N) (delta_decode32 (delta_encode32 vs) 200) = Some 129%nat /\
  option_map (@length N) (delta_decode32 (delta_encode32 vs) 128) = Some 1%nat /\
  option_map (@length N) (delta_decode64 (delta_encode64 vs) 200) = Some 200%nat /\
  decode64 [255; 255; 255; 255; 255; 255; 255; 255; 255; 3; 1; 2; 3] 2 = Some [1; 0].
Proof. vm_compute. repeat split; reflexivity. Qed.
