(* BP128Proofs64.v — varintBP128Encode64 / Decode64: round trip, capacity,
   size bound, metadata. *)
Require Import VV.Base VV.BaseProofs VV.Tagged VV.TaggedProofs VV.TaggedSpecProofs
               VV.BP128 VV.BP128Bits VV.BP128Lemmas.
From Coq Require Import Lia ZifyBool ZifyN ZifyNat.
Local Open Scope N_scope.
Ltac Zify.zify_post_hook ::= Z.div_mod_to_equations.

(* ---------- the encoder's bytes ---------- *)

Lemma encode64_nil : encode64 [] = [].
Proof. reflexivity. Qed.

Lemma encode64_blocks vs : vs <> [] ->
  encode64 vs = tagged_put64 (N.of_nat (length vs)) ++ blocks (blocks_fuel vs) vs.
Proof.
  intro H. unfold encode64. cbv zeta.
  destruct (N.of_nat (length vs) =? 0) eqn:E.
  - destruct vs; [congruence|cbn [length] in E; lia].
  - rewrite enc64_blocks_eq. reflexivity.
Qed.

(* ---------- one loop iteration of Decode64 on one block ---------- *)

Lemma dec64_step f z room : dec64_loop (S f) z room =
  if room =? 0 then Some []
  else
    let '(part, bw, bs, z1) := read_header z in
    let bs := if room <? bs then room else bs in
    if bw =? 0 then
      match dec64_loop f z1 (room - bs) with
      | None => None
      | Some rest => Some (repeat 0 (N.to_nat bs) ++ rest)
      end
    else if (64 <? bw) && negb (bs =? 0) then None
    else
      match dec64_loop f (skipn (N.to_nat (nbytes bs bw)) z1) (room - bs) with
      | None => None
      | Some rest => Some (unpack_at bw bs z1 ++ rest)
      end.
Proof. reflexivity. Qed.

Lemma dec64_zero f z : dec64_loop (S f) z 0 = Some [].
Proof. reflexivity. Qed.

Section OneBlock.
  Variable bvs : list N.
  Hypothesis Hne : (1 <= length bvs <= 128)%nat.
  Hypothesis Hv : Forall (fun v => v < 2 ^ 64) bvs.

  Let bw := bits_needed (max_val bvs).
  Let b := N.of_nat (length bvs).

  Lemma blk_bw_le : bw <= 64.
  Proof. apply width_le. exact Hv. Qed.

  (* the last block the decoder touches: room <= |bvs| *)
  Lemma dec64_block_final f rest room : 0 < room -> room <= b ->
    dec64_loop (S (S f)) (blk bvs ++ rest) room = Some (firstn (N.to_nat room) bvs).
  Proof.
    intros H0 Hr. pose proof blk_bw_le as W.
    rewrite dec64_step. destruct (room =? 0) eqn:E0; [lia|].
    unfold blk. rewrite <- app_assoc. rewrite read_header_block by (fold bw b; lia).
    cbv beta iota zeta. fold bw b.
    replace (if room <? b then room else b) with room by (destruct (room <? b) eqn:E; lia).
    replace (room - room) with 0 by lia. rewrite !dec64_zero.
    pose proof (payload_decode bvs room rest Hr) as P. fold bw in P.
    destruct (bw =? 0) eqn:E.
    - cbv beta iota. rewrite app_nil_r. f_equal. exact P.
    - replace (64 <? bw) with false by lia. cbn [andb]. cbv beta iota. rewrite app_nil_r. f_equal. exact P.
  Qed.

  (* a block decoded completely, more to come *)
  Lemma dec64_block_more f rest room : b < room ->
    dec64_loop (S f) (blk bvs ++ rest) room =
    match dec64_loop f rest (room - b) with None => None | Some r => Some (bvs ++ r) end.
  Proof.
    intros Hr. pose proof blk_bw_le as W.
    rewrite dec64_step. destruct (room =? 0) eqn:E0; [lia|].
    unfold blk. rewrite <- app_assoc. rewrite read_header_block by (fold bw b; lia).
    cbv beta iota zeta. fold bw b.
    replace (if room <? b then room else b) with b by (destruct (room <? b) eqn:E; lia).
    pose proof (payload_decode bvs b rest ltac:(lia)) as P. fold bw in P.
    assert (Fb : firstn (N.to_nat b) bvs = bvs) by (unfold b; rewrite Nat2N.id; apply firstn_all).
    rewrite Fb in P.
    destruct (bw =? 0) eqn:E.
    - rewrite payload_width0 by (fold bw; lia). cbn [app]. rewrite P. reflexivity.
    - replace (64 <? bw) with false by lia. cbn [andb].
      unfold b at 1. unfold bw at 1. rewrite payload_skip. fold b bw. rewrite P. reflexivity.
  Qed.
End OneBlock.

(* ---------- the loop on the whole block sequence ---------- *)

Lemma dec64_blocks f : forall vs tl cap fuel,
  (length vs <= 128 * f)%nat -> cap <= N.of_nat (length vs) ->
  Forall (fun v => v < 2 ^ 64) vs ->
  (N.to_nat (cap / 128) + 2 <= fuel)%nat ->
  dec64_loop fuel (blocks f vs ++ tl) cap = Some (firstn (N.to_nat cap) vs).
Proof.
  induction f as [|f IH]; intros vs tl cap fuel Hl Hc Hv Hf.
  - destruct vs; [|cbn [length] in Hl; lia]. cbn [length] in Hc.
    replace cap with 0 by lia. destruct fuel; [lia|]. reflexivity.
  - destruct fuel as [|fuel]; [lia|]. destruct fuel as [|fuel]; [lia|].
    destruct (N.eq_dec cap 0) as [->|Hc0]; [reflexivity|].
    assert (Hne : vs <> []) by (intro; subst vs; cbn [length] in Hc; lia).
    destruct (Nat.le_gt_cases (length vs) 128) as [Hs|Hg].
    + rewrite blocks_short by assumption.
      apply dec64_block_final; try assumption; try lia.
    + rewrite blocks_long by assumption. rewrite <- app_assoc.
      assert (L : length (firstn 128 vs) = 128%nat) by (rewrite firstn_length; lia).
      destruct (N.le_gt_cases cap 128) as [Hle|Hgt].
      * rewrite dec64_block_final; try (rewrite L; lia); try lia.
        2: apply Forall_firstn'; exact Hv.
        rewrite firstn_firstn. f_equal. f_equal. lia.
      * rewrite dec64_block_more; try (rewrite L; lia).
        2: apply Forall_firstn'; exact Hv.
        rewrite L. change (N.of_nat 128) with 128.
        rewrite (IH (skipn 128 vs) tl (cap - 128) (S fuel)).
        -- f_equal. rewrite <- (firstn_skipn 128 vs) at 3.
           rewrite firstn_app, L. rewrite (firstn_all2 (n := N.to_nat cap)) by (rewrite L; lia).
           f_equal. f_equal. lia.
        -- rewrite skipn_length. lia.
        -- rewrite skipn_length. lia.
        -- apply Forall_skipn'. exact Hv.
        -- lia.
Qed.

(* ---------- C02 / C13: decoding with capacity cap <= count ---------- *)

Theorem decode64_cap vs tl cap :
  vs <> [] -> N.of_nat (length vs) < 2 ^ 64 -> Forall (fun v => v < 2 ^ 64) vs ->
  cap <= N.of_nat (length vs) ->
  decode64 (encode64 vs ++ tl) cap = Some (firstn (N.to_nat cap) vs).
Proof.
  intros Hne Hn Hv Hc. rewrite encode64_blocks by exact Hne. rewrite <- app_assoc.
  unfold decode64. rewrite tagged_get64_put by (change (2 ^ 64) with 18446744073709551616 in Hn; exact Hn).
  cbv zeta. cbn [fst snd]. rewrite skipn_tagged.
  replace (if cap <? N.of_nat (length vs) then cap else N.of_nat (length vs)) with cap
    by (destruct (cap <? N.of_nat (length vs)) eqn:E; lia).
  apply dec64_blocks; try assumption; [apply blocks_fuel_ok | lia].
Qed.

Theorem decode64_roundtrip vs tl :
  vs <> [] -> N.of_nat (length vs) < 2 ^ 64 -> Forall (fun v => v < 2 ^ 64) vs ->
  decode64 (encode64 vs ++ tl) (N.of_nat (length vs)) = Some vs.
Proof.
  intros. rewrite decode64_cap by (assumption || lia). rewrite Nat2N.id, firstn_all. reflexivity.
Qed.

(* the decoder depends only on the bytes the encoder reported *)
Corollary decode64_reads_inside vs z :
  vs <> [] -> N.of_nat (length vs) < 2 ^ 64 -> Forall (fun v => v < 2 ^ 64) vs ->
  firstn (length (encode64 vs)) z = encode64 vs ->
  decode64 z (N.of_nat (length vs)) = Some vs.
Proof.
  intros Hne Hn Hv Hz. rewrite <- (firstn_skipn (length (encode64 vs)) z), Hz.
  apply decode64_roundtrip; assumption.
Qed.

(* ---------- C13: never more than cap stores, any stream ---------- *)

Lemma dec64_loop_length fuel : forall z room out,
  dec64_loop fuel z room = Some out -> N.of_nat (length out) <= room.
Proof.
  induction fuel as [|f IH]; intros z room out H; [discriminate|].
  rewrite dec64_step in H. destruct (room =? 0) eqn:E0.
  - injection H as <-. cbn [length]. lia.
  - destruct (read_header z) as [[[part bw] bs] z1]. cbv beta iota zeta in H.
    set (bs' := if room <? bs then room else bs) in *.
    assert (Hb : bs' <= room) by (subst bs'; destruct (room <? bs) eqn:E; lia).
    destruct (bw =? 0).
    + destruct (dec64_loop f z1 (room - bs')) as [r|] eqn:R; [|discriminate].
      injection H as <-. apply IH in R. rewrite app_length, repeat_length. lia.
    + destruct ((64 <? bw) && negb (bs' =? 0)); [discriminate|].
      destruct (dec64_loop f _ (room - bs')) as [r|] eqn:R; [|discriminate].
      injection H as <-. apply IH in R. rewrite app_length, length_unpack_at. lia.
Qed.

Theorem decode64_within_cap z cap out : decode64 z cap = Some out -> N.of_nat (length out) <= cap.
Proof.
  unfold decode64. cbv zeta. intro H. apply dec64_loop_length in H.
  destruct (cap <? snd (tagged_get64 z)) eqn:E; lia.
Qed.

(* ---------- C03 ---------- *)

Theorem encode64_bound vs : Forall (fun v => v < 2 ^ 64) vs ->
  N.of_nat (length (encode64 vs)) <= max_bytes (N.of_nat (length vs)).
Proof.
  intro Hv. destruct vs as [|v0 t0] eqn:Evs; [rewrite encode64_nil; vm_compute; discriminate|].
  rewrite <- Evs in *. rewrite encode64_blocks by (rewrite Evs; discriminate).
  rewrite app_length, Nat2N.inj_add.
  pose proof (length_tagged_le (N.of_nat (length vs))).
  pose proof (length_blocks_le (blocks_fuel vs) vs Hv) as B. unfold blocks_bound in B. unfold max_bytes.
  cbv zeta. lia.
Qed.

(* ---------- C16 ---------- *)

Lemma enc64_maxbw_eq f : forall vs m, (length vs <= 128 * f)%nat ->
  enc64_maxbw f vs m = N.max m (bits_needed (max_val vs)).
Proof.
  induction f as [|f IH]; intros vs m Hl.
  - destruct vs; [|cbn [length] in Hl; lia]. cbn [enc64_maxbw]. rewrite max_val_nil. unfold bits_needed. cbn. lia.
  - cbn [enc64_maxbw]. destruct vs as [|v0 t0] eqn:Evs.
    + rewrite max_val_nil. unfold bits_needed. cbn. lia.
    + rewrite <- Evs in *. rewrite IH by (rewrite skipn_length; lia).
      rewrite max_bit_width_eq.
      assert (Em : max_val vs = N.max (max_val (firstn 128 vs)) (max_val (skipn 128 vs)))
        by (rewrite <- max_val_app, firstn_skipn; reflexivity).
      rewrite Em, bits_needed_max.
      destruct (m <? bits_needed (max_val (firstn 128 vs))) eqn:E; lia.
Qed.

Theorem encode64_meta_ok vs : vs <> [] ->
  let m := encode64_meta vs in
  let n := N.of_nat (length vs) in
  m_count m = n /\
  m_encodedBytes m = N.of_nat (length (encode64 vs)) /\
  m_blockCount m = (n + 127) / 128 /\
  m_lastBlockSize m = n - 128 * ((n + 127) / 128 - 1) /\
  m_maxBitWidth m = bits_needed (max_val vs).
Proof.
  intro Hne. cbv zeta. unfold encode64_meta. cbv zeta.
  assert (0 < N.of_nat (length vs)) by (destruct vs; [congruence|cbn [length]; lia]).
  destruct (N.of_nat (length vs) =? 0) eqn:E; [lia|]. cbn [m_count m_encodedBytes m_blockCount m_lastBlockSize m_maxBitWidth]. rewrite nlen_eq.
  repeat split.
  - f_equal. lia.
  - set (n := N.of_nat (length vs)) in *. destruct (n mod 128 =? 0) eqn:F; lia.
  - rewrite enc64_maxbw_eq by apply blocks_fuel_ok. lia.
Qed.

Theorem encode64_meta_nil : encode64_meta [] = meta_zero.
Proof. reflexivity. Qed.

(* varintBP128GetCount on the Encode64 layout *)
Theorem get_count_encode64 vs tl : vs <> [] -> N.of_nat (length vs) < 2 ^ 64 ->
  get_count (encode64 vs ++ tl) = N.of_nat (length vs).
Proof.
  intros Hne Hn. rewrite encode64_blocks by exact Hne. rewrite <- app_assoc. unfold get_count.
  rewrite tagged_get64_put by (change (2 ^ 64) with 18446744073709551616 in Hn; exact Hn). reflexivity.
Qed.
