(* RLEProofs.v — facts about the run-length model (RLE.v) and its
   specification (RLESpec.v): the encoder writes exactly the image of the
   maximal runs; every decoder / accessor inverts that image. *)
Require Import VV.Base VV.BaseProofs VV.Tagged VV.TaggedProofs VV.TaggedSpecProofs.
Require Import VV.RLELemmas VV.RLE VV.RLESpec.
From Coq Require Import Lia ZifyBool ZifyN ZifyNat.
Local Open Scope N_scope.
Ltac Zify.zify_post_hook ::= Z.div_mod_to_equations.

(* ---------------------------------------------------------------- runs *)
Definition runs_wf (rs : list (N * N)) : Prop :=
  Forall (fun r => 1 <= fst r /\ u64_ok (snd r)) rs.

Lemma rle_runs_head x t : exists n r, rle_runs (x :: t) = (n, x) :: r /\ 1 <= n.
Proof.
  revert x. induction t as [|y t IH]; intro x.
  - exists 1, []. split; [reflexivity|lia].
  - destruct (IH y) as (n & r & E & Hn). cbn [rle_runs] in *. rewrite E.
    destruct (x =? y) eqn:Exy.
    + apply N.eqb_eq in Exy. subst. exists (n + 1), r. split; [reflexivity|lia].
    + exists 1, ((n, y) :: r). split; [reflexivity|lia].
Qed.

Lemma expand_rle_runs l : expand_runs (rle_runs l) = l.
Proof.
  induction l as [|x t IH]; [reflexivity|].
  cbn [rle_runs]. destruct (rle_runs t) as [|[n y] r] eqn:E.
  - cbn in IH. subst t. reflexivity.
  - destruct (x =? y) eqn:Exy.
    + apply N.eqb_eq in Exy. subst y. rewrite <- IH.
      unfold expand_runs. cbn [flat_map fst snd].
      replace (N.to_nat (n + 1)) with (S (N.to_nat n)) by lia. reflexivity.
    + rewrite <- IH. reflexivity.
Qed.

Lemma rle_runs_wf l : all_u64 l -> runs_wf (rle_runs l).
Proof.
  induction l as [|x t IH]; intro H; [constructor|].
  inversion H as [|? ? Hx Ht]; subst. specialize (IH Ht).
  cbn [rle_runs]. destruct (rle_runs t) as [|[n y] r] eqn:E.
  - constructor; [|constructor]. cbn. split; [lia|exact Hx].
  - inversion IH as [|? ? [Hn Hy] Hr]; subst. cbn [fst snd] in *.
    destruct (x =? y).
    + constructor; [cbn [fst snd]; split; [lia|assumption]|assumption].
    + constructor; [cbn [fst snd]; split; [lia|assumption]|exact IH].
Qed.

Lemma rle_runs_adj l : adj_distinct (rle_runs l).
Proof.
  induction l as [|x t IH]; [exact I|].
  cbn [rle_runs]. destruct (rle_runs t) as [|[n y] r] eqn:E; [exact I|].
  destruct (x =? y) eqn:Exy.
  - destruct r; [exact I|]. exact IH.
  - split; [|exact IH]. cbn. apply N.eqb_neq. exact Exy.
Qed.

Lemma runs_total_expand rs : runs_total rs = N.of_nat (length (expand_runs rs)).
Proof.
  induction rs as [|r rs IH]; [reflexivity|].
  unfold expand_runs in *. cbn [runs_total fold_right flat_map].
  rewrite app_length, repeat_length. fold (runs_total rs). rewrite IH. lia.
Qed.

Lemma runs_total_rle l : runs_total (rle_runs l) = N.of_nat (length l).
Proof. rewrite runs_total_expand, expand_rle_runs. reflexivity. Qed.

Lemma rle_runs_repeat_app c k rest :
  (1 <= k)%nat -> match rest with [] => True | y :: _ => y <> c end ->
  rle_runs (repeat c k ++ rest) = (N.of_nat k, c) :: rle_runs rest.
Proof.
  intros Hk Hr. induction k as [|k IH]; [lia|].
  destruct k as [|k].
  - cbn [repeat app]. cbn [rle_runs]. destruct rest as [|y t]; [reflexivity|].
    destruct (rle_runs_head y t) as (n & r & E & _). rewrite E.
    destruct (c =? y) eqn:Ecy; [apply N.eqb_eq in Ecy; congruence|reflexivity].
  - change (repeat c (S (S k)) ++ rest) with (c :: (repeat c (S k) ++ rest)).
    cbn [rle_runs]. rewrite IH by lia. rewrite N.eqb_refl.
    f_equal. f_equal. lia.
Qed.

Lemma repeat_snoc_app {A} (c : A) k t : repeat c k ++ c :: t = repeat c (S k) ++ t.
Proof.
  change (c :: t) with ([c] ++ t). rewrite app_assoc, <- repeat_cons. reflexivity.
Qed.

(* the encoder loop writes the image of the maximal runs of what it has
   pending (k copies of c) followed by the rest, and counts them *)
Lemma rle_encode_loop_spec t : forall k c r, (1 <= k)%nat ->
  rle_encode_loop t (N.of_nat k) c r
  = (enc_runs (rle_runs (repeat c k ++ t)), r + N.of_nat (length (rle_runs (repeat c k ++ t)))).
Proof.
  induction t as [|v t IH]; intros k c r Hk.
  - rewrite app_nil_r. rewrite <- (app_nil_r (repeat c k)), rle_runs_repeat_app by (exact Hk || exact I).
    cbn [rle_encode_loop rle_runs enc_runs flat_map run_bytes fst snd length].
    rewrite app_nil_r. reflexivity.
  - cbn [rle_encode_loop]. destruct (v =? c) eqn:E.
    + apply N.eqb_eq in E. subst v. rewrite repeat_snoc_app.
      replace (N.of_nat k + 1) with (N.of_nat (S k)) by lia. apply IH. lia.
    + rewrite rle_runs_repeat_app; [|exact Hk|apply N.eqb_neq; exact E].
      change 1 with (N.of_nat 1). rewrite IH by lia.
      change (repeat v 1 ++ t) with (v :: t).
      cbn [fst snd enc_runs flat_map run_bytes length].
      unfold run_bytes. cbn [fst snd]. rewrite <- app_assoc. fold (enc_runs (rle_runs (v :: t))).
      f_equal. lia.
Qed.

Theorem rle_encode_is_spec xs :
  fst (rle_encode xs) = enc_runs (rle_runs xs) /\
  rm_run_count (snd (rle_encode xs)) = N.of_nat (length (rle_runs xs)) /\
  rm_count (snd (rle_encode xs)) = N.of_nat (length xs) /\
  rm_encoded_size (snd (rle_encode xs)) = N.of_nat (length (fst (rle_encode xs))).
Proof.
  destruct xs as [|v0 t]; [cbn; auto|].
  unfold rle_encode. change 1 with (N.of_nat 1). rewrite rle_encode_loop_spec by lia.
  change (repeat v0 1 ++ t) with (v0 :: t). cbn [fst snd rm_run_count rm_count rm_encoded_size].
  repeat split; lia.
Qed.

(* ---------------------------------------------------------------- one run *)
Lemma decode_run_bytes r tl : u64_ok (fst r) -> u64_ok (snd r) ->
  rle_decode_run (run_bytes r ++ tl) = (tagged_len (fst r) + tagged_len (snd r), fst r, snd r).
Proof.
  intros H1 H2. unfold rle_decode_run, run_bytes. rewrite <- app_assoc.
  rewrite tagged_get64_put by exact H1. cbn [fst snd].
  rewrite skipn_put. rewrite tagged_get64_put by exact H2. reflexivity.
Qed.

Lemma run_bytes_len r : length (run_bytes r) = N.to_nat (tagged_len (fst r) + tagged_len (snd r)).
Proof. unfold run_bytes. rewrite app_length, !tagged_put_len_nat. lia. Qed.

Lemma run_bytes_len2 r : (2 <= length (run_bytes r))%nat.
Proof.
  rewrite run_bytes_len. pose proof (tagged_len_ge1 (fst r)). pose proof (tagged_len_ge1 (snd r)). lia.
Qed.

Lemma skipn_run_bytes r tl :
  skipn (N.to_nat (tagged_len (fst r) + tagged_len (snd r))) (run_bytes r ++ tl) = tl.
Proof. apply skipn_app_len'. symmetry. apply run_bytes_len. Qed.

Lemma enc_runs_cons r rs : enc_runs (r :: rs) = run_bytes r ++ enc_runs rs.
Proof. reflexivity. Qed.
Lemma expand_runs_cons r rs : expand_runs (r :: rs) = repeat (snd r) (N.to_nat (fst r)) ++ expand_runs rs.
Proof. reflexivity. Qed.
Lemma runs_total_cons r rs : runs_total (r :: rs) = fst r + runs_total rs.
Proof. reflexivity. Qed.

Lemma firstn_repeat_app {A} (x : A) j k l : (j <= k)%nat -> firstn j (repeat x k ++ l) = repeat x j.
Proof.
  intro H. rewrite firstn_app, repeat_length, firstn_repeat_le by exact H.
  replace (j - k)%nat with 0%nat by lia. cbn [firstn]. apply app_nil_r.
Qed.

Lemma firstn_repeat_app_ge {A} (x : A) j k l : (k <= j)%nat ->
  firstn j (repeat x k ++ l) = repeat x k ++ firstn (j - k) l.
Proof.
  intro H. rewrite firstn_app, repeat_length. f_equal.
  apply firstn_all2. rewrite repeat_length. exact H.
Qed.

(* ---------------------------------------------------------------- varintRLEDecode *)
Lemma rle_decode_loop_runs rs : forall fuel tl maxCount total,
  runs_wf rs -> (length (enc_runs rs) < fuel)%nat -> total <= maxCount ->
  maxCount <= total + runs_total rs -> total + runs_total rs < 18446744073709551616 ->
  rle_decode_loop fuel (enc_runs rs ++ tl) maxCount total
  = RleOk (firstn (N.to_nat (maxCount - total)) (expand_runs rs)).
Proof.
  induction rs as [|r rs IH]; intros fuel tl maxCount total Hwf Hf Hle Hge Hno.
  - cbn [runs_total fold_right] in Hge. destruct fuel as [|f]; [cbn in Hf; lia|].
    cbn [rle_decode_loop]. replace (total <? maxCount) with false by lia.
    cbn [expand_runs flat_map]. rewrite firstn_nil. reflexivity.
  - inversion Hwf as [|? ? [Hn Hv] Hwf']; subst.
    rewrite runs_total_cons in Hge, Hno.
    pose proof (run_bytes_len2 r) as Hrb.
    rewrite enc_runs_cons, app_length in Hf.
    destruct fuel as [|f]; [lia|].
    cbn [rle_decode_loop].
    destruct (total <? maxCount) eqn:Etm.
    2:{ replace (N.to_nat (maxCount - total)) with 0%nat by lia. reflexivity. }
    rewrite enc_runs_cons, <- app_assoc.
    rewrite decode_run_bytes by (assumption || (unfold u64_ok; lia)).
    cbv beta iota.
    replace (fst r =? 0) with false by lia.
    rewrite expand_runs_cons.
    destruct (maxCount - total <? fst r) eqn:E1.
    + (* the capacity ends inside this run *)
      rewrite E1. rewrite firstn_repeat_app by lia. reflexivity.
    + (* the whole run fits *)
      rewrite N.ltb_irrefl.
      rewrite skipn_run_bytes, IH by (assumption || lia).
      cbn [rle_rres_app]. f_equal.
      rewrite firstn_repeat_app_ge by lia. f_equal. f_equal. lia.
Qed.

Theorem rle_decode_roundtrip xs tl cap :
  all_u64 xs -> N.of_nat (length xs) < 18446744073709551616 -> cap <= N.of_nat (length xs) ->
  rle_decode (fst (rle_encode xs) ++ tl) cap = RleOk (firstn (N.to_nat cap) xs).
Proof.
  intros Hxs Hlen Hcap. destruct (rle_encode_is_spec xs) as (E & _). rewrite E.
  unfold rle_decode. rewrite rle_decode_loop_runs.
  - rewrite N.sub_0_r, expand_rle_runs. reflexivity.
  - apply rle_runs_wf. exact Hxs.
  - rewrite app_length. lia.
  - lia.
  - rewrite runs_total_rle. lia.
  - rewrite runs_total_rle. lia.
Qed.

(* ---------------------------------------------------------------- varintRLEDecodeWithHeader *)
Lemma rle_decode_hdr_loop_runs rs : forall fuel tl totalCount maxCount decoded,
  runs_wf rs -> (length (enc_runs rs) < fuel)%nat ->
  decoded + runs_total rs = totalCount -> totalCount <= maxCount ->
  totalCount < 18446744073709551616 ->
  rle_decode_hdr_loop fuel (enc_runs rs ++ tl) totalCount maxCount decoded = RleOk (expand_runs rs).
Proof.
  induction rs as [|r rs IH]; intros fuel tl totalCount maxCount decoded Hwf Hf Hsum Hle Hno.
  - cbn [runs_total fold_right] in Hsum. destruct fuel as [|f]; [cbn in Hf; lia|].
    cbn [rle_decode_hdr_loop]. replace (decoded <? totalCount) with false by lia. reflexivity.
  - inversion Hwf as [|? ? [Hn Hv] Hwf']; subst.
    rewrite runs_total_cons in Hno, Hle.
    pose proof (run_bytes_len2 r) as Hrb.
    rewrite enc_runs_cons, app_length in Hf.
    destruct fuel as [|f]; [lia|].
    cbn [rle_decode_hdr_loop]. rewrite runs_total_cons.
    replace (decoded <? decoded + (fst r + runs_total rs)) with true by lia.
    replace (decoded <? maxCount) with true by lia. cbn [andb].
    rewrite enc_runs_cons, <- app_assoc.
    rewrite decode_run_bytes by (assumption || (unfold u64_ok; lia)).
    cbv beta iota.
    replace (if fst r <? maxCount - decoded then fst r else maxCount - decoded) with (fst r)
      by (destruct (fst r <? maxCount - decoded) eqn:E; lia).
    rewrite skipn_run_bytes, IH by (assumption || lia).
    reflexivity.
Qed.

Theorem rle_decode_with_header_roundtrip xs tl cap :
  all_u64 xs -> N.of_nat (length xs) < 18446744073709551616 ->
  rle_decode_with_header (fst (rle_encode_with_header xs) ++ tl) cap
  = if cap <? N.of_nat (length xs) then RleOk [] else RleOk xs.
Proof.
  intros Hxs Hlen. unfold rle_decode_with_header, rle_encode_with_header. cbn [fst].
  rewrite <- app_assoc. rewrite tagged_get64_put by exact Hlen. cbn [fst snd].
  destruct (cap <? N.of_nat (length xs)) eqn:E; [reflexivity|].
  rewrite skipn_put. destruct (rle_encode_is_spec xs) as (E1 & _). rewrite E1.
  rewrite rle_decode_hdr_loop_runs.
  - rewrite expand_rle_runs. reflexivity.
  - apply rle_runs_wf. exact Hxs.
  - rewrite !app_length. lia.
  - rewrite runs_total_rle. lia.
  - lia.
  - exact Hlen.
Qed.

(* ---------------------------------------------------------------- varintRLEGetAt *)
Lemma nth_repeat_lt {A} (x d : A) i k : (i < k)%nat -> nth i (repeat x k) d = x.
Proof.
  revert i. induction k as [|k IH]; intros i H; [lia|].
  destruct i; [reflexivity|]. cbn [repeat nth]. apply IH. lia.
Qed.

Lemma rle_get_at_loop_runs rs : forall fuel tl index position,
  runs_wf rs -> (length (enc_runs rs) < fuel)%nat ->
  position <= index -> index < position + runs_total rs ->
  position + runs_total rs < 18446744073709551616 ->
  rle_get_at_loop fuel (enc_runs rs ++ tl) index position
  = Some (nth (N.to_nat (index - position)) (expand_runs rs) 0).
Proof.
  induction rs as [|r rs IH]; intros fuel tl index position Hwf Hf Hle Hlt Hno.
  - cbn [runs_total fold_right] in Hlt. lia.
  - inversion Hwf as [|? ? [Hn Hv] Hwf']; subst.
    rewrite runs_total_cons in Hlt, Hno.
    pose proof (run_bytes_len2 r) as Hrb.
    rewrite enc_runs_cons, app_length in Hf.
    destruct fuel as [|f]; [lia|].
    cbn [rle_get_at_loop].
    rewrite enc_runs_cons, <- app_assoc.
    rewrite decode_run_bytes by (assumption || (unfold u64_ok; lia)).
    cbv beta iota.
    replace (fst r =? 0) with false by lia.
    replace (add64 position (fst r)) with (position + fst r)
      by (unfold add64; rewrite N.mod_small; lia).
    rewrite expand_runs_cons.
    destruct (index <? position + fst r) eqn:E.
    + rewrite app_nth1 by (rewrite repeat_length; lia).
      rewrite nth_repeat_lt by lia. reflexivity.
    + rewrite skipn_run_bytes, IH by (assumption || lia).
      rewrite app_nth2 by (rewrite repeat_length; lia).
      rewrite repeat_length. f_equal. f_equal. lia.
Qed.

Theorem rle_get_at_correct xs tl i :
  all_u64 xs -> N.of_nat (length xs) < 18446744073709551616 -> i < N.of_nat (length xs) ->
  rle_get_at (fst (rle_encode xs) ++ tl) i = Some (nth (N.to_nat i) xs 0).
Proof.
  intros Hxs Hlen Hi. destruct (rle_encode_is_spec xs) as (E & _). rewrite E.
  unfold rle_get_at. rewrite rle_get_at_loop_runs.
  - rewrite N.sub_0_r, expand_rle_runs. reflexivity.
  - apply rle_runs_wf. exact Hxs.
  - rewrite app_length. lia.
  - lia.
  - rewrite runs_total_rle. lia.
  - rewrite runs_total_rle. lia.
Qed.

(* ---------------------------------------------------------------- varintRLEGetCount / GetRunCount *)
Theorem rle_get_count_correct xs tl : N.of_nat (length xs) < 18446744073709551616 ->
  rle_get_count (fst (rle_encode_with_header xs) ++ tl) = N.of_nat (length xs).
Proof.
  intro H. unfold rle_get_count, rle_encode_with_header. cbn [fst].
  rewrite <- app_assoc, tagged_get64_put by exact H. reflexivity.
Qed.

Lemma rle_tagged_avail_ge avail x : tagged_len x <= avail -> (Z.of_N (tagged_len x) <= rle_tagged_avail avail)%Z.
Proof.
  intro H. unfold rle_tagged_avail. pose proof (tagged_len_le9 x).
  destruct (9 <? avail) eqn:E; lia.
Qed.

Lemma rle_run_count_loop_runs rs : forall fuel tl runs,
  runs_wf rs -> Forall (fun r => u64_ok (fst r)) rs -> (length (enc_runs rs) < fuel)%nat ->
  rle_run_count_loop fuel (enc_runs rs ++ tl) (N.of_nat (length (enc_runs rs))) runs
  = Some (runs + N.of_nat (length rs)).
Proof.
  induction rs as [|r rs IH]; intros fuel tl runs Hwf Hu Hf.
  - destruct fuel as [|f]; [cbn in Hf; lia|]. cbn. f_equal. lia.
  - inversion Hwf as [|? ? [Hn Hv] Hwf']; subst.
    inversion Hu as [|? ? Hu1 Hu']; subst.
    pose proof (run_bytes_len r) as Hrl.
    pose proof (tagged_len_ge1 (fst r)). pose proof (tagged_len_ge1 (snd r)).
    rewrite enc_runs_cons, app_length in Hf.
    destruct fuel as [|f]; [lia|].
    cbn [rle_run_count_loop].
    rewrite enc_runs_cons, app_length.
    set (avail := N.of_nat (length (run_bytes r) + length (enc_runs rs))).
    replace (0 <? avail) with true by lia.
    unfold run_bytes. rewrite <- !app_assoc.
    rewrite tagged_roundtrip by (try exact Hu1; apply rle_tagged_avail_ge; lia).
    cbn [fst snd].
    replace (tagged_len (fst r) =? 0) with false by lia.
    replace (fst r =? 0) with false by lia. cbn [orb].
    rewrite skipn_put.
    rewrite tagged_roundtrip by (try exact Hv; apply rle_tagged_avail_ge; lia).
    cbn [fst snd].
    replace (tagged_len (snd r) =? 0) with false by lia.
    rewrite skipn_put.
    replace (avail - tagged_len (fst r) - tagged_len (snd r)) with (N.of_nat (length (enc_runs rs))) by lia.
    rewrite IH by (assumption || lia). cbn [length]. f_equal. lia.
Qed.

Lemma runs_fst_u64 rs : runs_total rs < 18446744073709551616 -> Forall (fun r => u64_ok (fst r)) rs.
Proof.
  induction rs as [|r rs IH]; intro H; constructor.
  - rewrite runs_total_cons in H. unfold u64_ok. lia.
  - apply IH. rewrite runs_total_cons in H. lia.
Qed.

Theorem rle_get_run_count_correct xs tl :
  all_u64 xs -> N.of_nat (length xs) < 18446744073709551616 ->
  rle_get_run_count (fst (rle_encode xs) ++ tl) (N.of_nat (length (fst (rle_encode xs))))
  = Some (N.of_nat (length (rle_runs xs))).
Proof.
  intros Hxs Hlen. destruct (rle_encode_is_spec xs) as (E & _). rewrite E.
  unfold rle_get_run_count. rewrite rle_run_count_loop_runs.
  - reflexivity.
  - apply rle_runs_wf. exact Hxs.
  - apply runs_fst_u64. rewrite runs_total_rle. exact Hlen.
  - lia.
Qed.

(* ---------------------------------------------------------------- sizes and bounds *)
Lemma analyze_loop_encode t : forall runs size curLen curVal uniq r0 runs' size' cl cv uniq',
  rle_analyze_loop t runs size curLen curVal uniq = (runs', size', cl, cv, uniq') ->
  size' + tagged_len cl + tagged_len cv
    = size + N.of_nat (length (fst (rle_encode_loop t curLen curVal r0)))
  /\ runs' + r0 + 1 = runs + snd (rle_encode_loop t curLen curVal r0)
  /\ uniq' + runs = uniq + runs'.
Proof.
  induction t as [|v t IH]; intros runs size curLen curVal uniq r0 runs' size' cl cv uniq' H.
  - cbn [rle_analyze_loop] in H. inversion H; subst. cbn [rle_encode_loop fst snd].
    rewrite app_length, <- !tagged_put_length. lia.
  - cbn [rle_analyze_loop] in H. cbn [rle_encode_loop]. destruct (v =? curVal).
    + apply (IH _ _ _ _ _ r0) in H. exact H.
    + apply (IH _ _ _ _ _ (r0 + 1)) in H. cbn [fst snd].
      rewrite !app_length. rewrite <- !tagged_put_length in *. lia.
Qed.

Theorem rle_analyze_truth xs :
  rm_count (fst (rle_analyze xs)) = N.of_nat (length xs) /\
  rm_run_count (fst (rle_analyze xs)) = N.of_nat (length (rle_runs xs)) /\
  rm_encoded_size (fst (rle_analyze xs)) = N.of_nat (length (fst (rle_encode xs))) /\
  rm_unique_values (fst (rle_analyze xs)) = N.of_nat (length (rle_runs xs)).
Proof.
  destruct (rle_encode_is_spec xs) as (_ & Hr & _).
  destruct xs as [|v0 t]; [cbn; auto|].
  unfold rle_analyze. unfold rle_encode in *. cbn [snd rm_run_count] in Hr.
  destruct (rle_analyze_loop t 1 0 1 v0 1) as [[[[runs' size'] cl] cv] uniq'] eqn:EA.
  destruct (analyze_loop_encode t _ _ _ _ _ 0 _ _ _ _ _ EA) as (H1 & H2 & H3).
  cbn [fst rm_count rm_run_count rm_encoded_size rm_unique_values].
  repeat split; lia.
Qed.

Theorem rle_size_exact xs : rle_size xs = N.of_nat (length (fst (rle_encode xs))).
Proof. unfold rle_size. apply rle_analyze_truth. Qed.

Lemma rle_runs_len_ge1 l : Forall (fun r => 1 <= fst r) (rle_runs l).
Proof.
  induction l as [|x t IH]; [constructor|].
  cbn [rle_runs]. destruct (rle_runs t) as [|[n y] r] eqn:E.
  - constructor; [cbn; lia|constructor].
  - inversion IH as [|? ? Hn Hr]; subst. cbn [fst] in Hn.
    destruct (x =? y); constructor; try (cbn [fst]; lia); assumption.
Qed.

Lemma tagged_len_small n : n <= 240 -> tagged_len n = 1.
Proof. intro H. unfold tagged_len. destruct (n <=? 240) eqn:E; [reflexivity|lia]. Qed.

Lemma run_bytes_bound r : 1 <= fst r -> N.of_nat (length (run_bytes r)) <= 10 * fst r.
Proof.
  intro H. rewrite run_bytes_len.
  pose proof (tagged_len_le9 (fst r)). pose proof (tagged_len_le9 (snd r)).
  destruct (N.le_gt_cases (fst r) 1) as [L|G].
  - rewrite (tagged_len_small (fst r)) by lia. lia.
  - lia.
Qed.

Lemma enc_runs_bound rs : Forall (fun r => 1 <= fst r) rs ->
  N.of_nat (length (enc_runs rs)) <= 10 * runs_total rs.
Proof.
  induction 1 as [|r rs Hr Hrs IH]; [cbn; lia|].
  rewrite enc_runs_cons, app_length, runs_total_cons.
  pose proof (run_bytes_bound r Hr). lia.
Qed.

Theorem rle_bound_plain xs :
  N.of_nat (length (fst (rle_encode xs))) <= 10 * N.of_nat (length xs).
Proof.
  destruct (rle_encode_is_spec xs) as (E & _). rewrite E.
  rewrite <- (runs_total_rle xs). apply enc_runs_bound. apply rle_runs_len_ge1.
Qed.

Theorem rle_bound_header xs :
  N.of_nat (length (fst (rle_encode_with_header xs))) <= 10 * N.of_nat (length xs) + 9.
Proof.
  unfold rle_encode_with_header. cbn [fst]. rewrite app_length.
  pose proof (rle_bound_plain xs). pose proof (tagged_len_le9 (N.of_nat (length xs))).
  rewrite tagged_put_len_nat. lia.
Qed.

Theorem rle_bound xs :
  10 * N.of_nat (length xs) + 9 < 18446744073709551616 ->
  N.of_nat (length (fst (rle_encode xs))) <= rle_max_size (N.of_nat (length xs)) /\
  N.of_nat (length (fst (rle_encode_with_header xs))) <= rle_max_size (N.of_nat (length xs)).
Proof.
  intro H. unfold rle_max_size, add64, mul64.
  rewrite (N.mod_small (N.of_nat (length xs) * 10)) by lia.
  rewrite N.mod_small by lia.
  pose proof (rle_bound_plain xs). pose proof (rle_bound_header xs). lia.
Qed.

Theorem rle_header_size xs :
  N.of_nat (length (fst (rle_encode_with_header xs)))
  = tagged_len (N.of_nat (length xs)) + rle_size xs /\
  rm_encoded_size (snd (rle_encode_with_header xs)) = N.of_nat (length (fst (rle_encode_with_header xs))) /\
  rm_count (snd (rle_encode_with_header xs)) = N.of_nat (length xs) /\
  rm_run_count (snd (rle_encode_with_header xs)) = N.of_nat (length (rle_runs xs)).
Proof.
  destruct (rle_encode_is_spec xs) as (_ & Hr & Hc & _).
  rewrite rle_size_exact. unfold rle_encode_with_header.
  cbn [fst snd rm_encoded_size rm_count rm_run_count].
  rewrite app_length, tagged_put_len_nat. repeat split; try assumption. lia.
Qed.

(* ---------------------------------------------------------------- capacity, any input *)
Lemma rle_stores_app w r : rle_stores (rle_rres_app w r) = w ++ rle_stores r.
Proof. destruct r; reflexivity. Qed.

Lemma rle_decode_hdr_loop_cap fuel : forall z totalCount maxCount decoded, decoded <= maxCount ->
  N.of_nat (length (rle_stores (rle_decode_hdr_loop fuel z totalCount maxCount decoded)))
  <= maxCount - decoded.
Proof.
  induction fuel as [|f IH]; intros z totalCount maxCount decoded H; [cbn; lia|].
  cbn [rle_decode_hdr_loop].
  destruct ((decoded <? totalCount) && (decoded <? maxCount)) eqn:E; [|cbn; lia].
  destruct (rle_decode_run z) as [[consumed runLen] value]. cbv beta iota.
  rewrite rle_stores_app, app_length, repeat_length.
  set (n := if runLen <? maxCount - decoded then runLen else maxCount - decoded).
  assert (Hn : n <= maxCount - decoded) by (subst n; destruct (runLen <? maxCount - decoded) eqn:E2; lia).
  specialize (IH (skipn (N.to_nat consumed) z) totalCount maxCount (decoded + n)). lia.
Qed.

(* on ANY bytes the header decoder stores at indices below the capacity only *)
Theorem rle_decode_with_header_cap z cap :
  N.of_nat (length (rle_stores (rle_decode_with_header z cap))) <= cap.
Proof.
  unfold rle_decode_with_header. destruct (cap <? snd (tagged_get64 z)); [cbn; lia|].
  pose proof (rle_decode_hdr_loop_cap (S (length z)) (skipn (N.to_nat (fst (tagged_get64 z))) z)
                (snd (tagged_get64 z)) cap 0). lia.
Qed.

Lemma rle_decode_loop_cap fuel : forall z maxCount total, total <= maxCount ->
  N.of_nat (length (rle_stores (rle_decode_loop fuel z maxCount total))) <= maxCount - total.
Proof.
  induction fuel as [|f IH]; intros z maxCount total H; [cbn; lia|].
  cbn [rle_decode_loop]. destruct (total <? maxCount) eqn:E; [|cbn; lia].
  destruct (rle_decode_run z) as [[consumed runLen] value]. cbv beta iota.
  destruct (runLen =? 0); [cbn; lia|].
  set (toWrite := if maxCount - total <? runLen then maxCount - total else runLen).
  assert (Ht : toWrite <= maxCount - total)
    by (subst toWrite; destruct (maxCount - total <? runLen) eqn:E2; lia).
  destruct (toWrite <? runLen).
  - cbn [rle_stores]. rewrite repeat_length. lia.
  - rewrite rle_stores_app, app_length, repeat_length.
    specialize (IH (skipn (N.to_nat consumed) z) maxCount (total + toWrite)). lia.
Qed.

(* on ANY bytes varintRLEDecode stores below the capacity only (after the fix
   of the hostile-stream overflow there is no other outcome) *)
Theorem rle_decode_cap z cap : N.of_nat (length (rle_stores (rle_decode z cap))) <= cap.
Proof. pose proof (rle_decode_loop_cap (S (length z)) z cap 0). unfold rle_decode. lia. Qed.

(* ---------------------------------------------------------------- C14: the run counter *)
Lemma rle_tagged_avail_le avail : (rle_tagged_avail avail <= Z.of_nat (N.to_nat avail))%Z.
Proof. unfold rle_tagged_avail. destruct (9 <? avail) eqn:E; lia. Qed.

Lemma rle_run_count_loop_ni fuel : forall z z' avail runs,
  firstn (N.to_nat avail) z = firstn (N.to_nat avail) z' ->
  rle_run_count_loop fuel z avail runs = rle_run_count_loop fuel z' avail runs.
Proof.
  induction fuel as [|f IH]; intros z z' avail runs H; [reflexivity|].
  cbn [rle_run_count_loop]. destruct (0 <? avail) eqn:E0; [|reflexivity].
  rewrite (tagged_get_firstn z z' _ _ (rle_tagged_avail_le avail) H).
  set (r1 := tagged_get z' (rle_tagged_avail avail)).
  destruct ((fst r1 =? 0) || (snd r1 =? 0)); [reflexivity|].
  assert (H1 : firstn (N.to_nat (avail - fst r1)) (skipn (N.to_nat (fst r1)) z)
               = firstn (N.to_nat (avail - fst r1)) (skipn (N.to_nat (fst r1)) z')).
  { replace (N.to_nat (avail - fst r1)) with (N.to_nat avail - N.to_nat (fst r1))%nat by lia.
    apply firstn_skipn_eq. exact H. }
  rewrite (tagged_get_firstn _ _ _ _ (rle_tagged_avail_le (avail - fst r1)) H1).
  set (r2 := tagged_get (skipn (N.to_nat (fst r1)) z') (rle_tagged_avail (avail - fst r1))).
  destruct (fst r2 =? 0); [reflexivity|].
  apply IH.
  replace (N.to_nat (avail - fst r1 - fst r2)) with (N.to_nat (avail - fst r1) - N.to_nat (fst r2))%nat by lia.
  apply firstn_skipn_eq. exact H1.
Qed.

Lemma rle_tagged_avail_to_N avail : Z.to_N (Z.max 0 (rle_tagged_avail avail)) <= avail.
Proof. unfold rle_tagged_avail. destruct (9 <? avail) eqn:E; lia. Qed.

Lemma rle_run_count_loop_total fuel : forall z avail runs, (N.to_nat avail < fuel)%nat ->
  exists k, rle_run_count_loop fuel z avail runs = Some k /\ runs <= k /\ 2 * (k - runs) <= avail.
Proof.
  induction fuel as [|f IH]; intros z avail runs H; [lia|].
  cbn [rle_run_count_loop]. destruct (0 <? avail) eqn:E0; [|exists runs; split; [reflexivity|lia]].
  pose proof (tagged_get_width_le z (rle_tagged_avail avail)) as W1.
  pose proof (rle_tagged_avail_to_N avail) as A1.
  set (r1 := tagged_get z (rle_tagged_avail avail)) in *.
  destruct ((fst r1 =? 0) || (snd r1 =? 0)) eqn:E1; [exists runs; split; [reflexivity|lia]|].
  pose proof (tagged_get_width_le (skipn (N.to_nat (fst r1)) z) (rle_tagged_avail (avail - fst r1))) as W2.
  pose proof (rle_tagged_avail_to_N (avail - fst r1)) as A2.
  set (r2 := tagged_get (skipn (N.to_nat (fst r1)) z) (rle_tagged_avail (avail - fst r1))) in *.
  destruct (fst r2 =? 0) eqn:E2; [exists runs; split; [reflexivity|lia]|].
  destruct (IH (skipn (N.to_nat (fst r2)) (skipn (N.to_nat (fst r1)) z)) (avail - fst r1 - fst r2) (runs + 1))
    as (k & Hk & Hle & Hb); [lia|].
  exists k. split; [exact Hk|]. lia.
Qed.

(* varintRLEGetRunCount(src, n) on arbitrary bytes: terminates within its
   fuel (= n), depends on the first n bytes only, and cannot report more
   runs than n bytes can hold *)
Theorem rle_get_run_count_safe z n :
  (exists k, rle_get_run_count z n = Some k /\ 2 * k <= n) /\
  (forall z', firstn (N.to_nat n) z = firstn (N.to_nat n) z' ->
              rle_get_run_count z n = rle_get_run_count z' n).
Proof.
  split.
  - unfold rle_get_run_count.
    destruct (rle_run_count_loop_total (S (N.to_nat n)) z n 0) as (k & Hk & _ & Hb); [lia|].
    exists k. split; [exact Hk|lia].
  - intros z' H. apply rle_run_count_loop_ni. exact H.
Qed.

(* ---------------------------------------------------------------- corollaries *)
Theorem rle_roundtrip_full xs tl :
  all_u64 xs -> N.of_nat (length xs) < 18446744073709551616 ->
  rle_decode (fst (rle_encode xs) ++ tl) (N.of_nat (length xs)) = RleOk xs.
Proof.
  intros H1 H2. rewrite rle_decode_roundtrip by (assumption || lia).
  rewrite Nat2N.id, firstn_all. reflexivity.
Qed.

Theorem rle_header_roundtrip_full xs tl :
  all_u64 xs -> N.of_nat (length xs) < 18446744073709551616 ->
  rle_decode_with_header (fst (rle_encode_with_header xs) ++ tl) (N.of_nat (length xs)) = RleOk xs.
Proof.
  intros H1 H2. rewrite rle_decode_with_header_roundtrip by assumption.
  rewrite N.ltb_irrefl. reflexivity.
Qed.

(* the maximal-run list really is one: it expands to the array, every run is
   non-empty and neighbouring runs carry different values *)
Theorem rle_runs_maximal xs :
  expand_runs (rle_runs xs) = xs /\ Forall (fun r => 1 <= fst r) (rle_runs xs) /\ adj_distinct (rle_runs xs).
Proof. split; [apply expand_rle_runs|]. split; [apply rle_runs_len_ge1|apply rle_runs_adj]. Qed.

(* GetRunCount on the body of the header format *)
Theorem rle_get_run_count_header xs tl :
  all_u64 xs -> N.of_nat (length xs) < 18446744073709551616 ->
  rle_get_run_count
    (skipn (N.to_nat (tagged_len (N.of_nat (length xs)))) (fst (rle_encode_with_header xs) ++ tl))
    (N.of_nat (length (fst (rle_encode_with_header xs))) - tagged_len (N.of_nat (length xs)))
  = Some (N.of_nat (length (rle_runs xs))).
Proof.
  intros H1 H2. unfold rle_encode_with_header. cbn [fst]. rewrite <- app_assoc, skipn_put.
  rewrite app_length, tagged_put_len_nat.
  replace (N.of_nat (N.to_nat (tagged_len (N.of_nat (length xs))) + length (fst (rle_encode xs)))
           - tagged_len (N.of_nat (length xs))) with (N.of_nat (length (fst (rle_encode xs)))) by lia.
  apply rle_get_run_count_correct; assumption.
Qed.
