(* Dict.v — Gallina model of src/varintDict.c and varintDict.h (dictionary
   codec).  One definition per C function, same case structure.  The only
   proof in this file is the totality of N.leb needed to instantiate the
   standard library's merge sort.

   Conventions (harness/GUIDE.md, and RLE.v):
   * `qsort` is not modelled as code: it is "the sorted permutation" of its
     input, computed here by Coq.Sorting.Mergesort (DictProofs.v: the result
     is sorted and a permutation, and the sorted permutation is unique);
   * a C array that is only indexed (`dict->values[mid]`, `dictValues[index]`)
     is a finite map index -> value (`dict_arr`, a PositiveMap) built once from the
     list (`dict_arr_of_list`), so that the extracted model reads it in O(log n);
     DictProofs.arr_get_of_list: `dict_arr_get (dict_arr_of_list l) i = nth i l 0`;
   * decoders read at the current pointer = the remaining list, `avail` is
     `end - ptr`; they report the allocation requests they make (bytes);
   * fuel of the bounded decoders is the declared input length. *)
Require Import VV.Base VV.Tagged VV.RLE.
From Coq Require Import Sorting.Mergesort Orders FSets.FMapPositive.
Local Open Scope N_scope.

(* VARINT_DICT_MAX_SIZE (varintDict.c) *)
Definition dict_max_size : N := 1048576.

(* ---------------------------------------------------------------- arrays *)
Definition dict_arr := PositiveMap.t N.
Fixpoint dict_arr_fill (l : list N) (i : N) (a : dict_arr) : dict_arr :=
  match l with
  | [] => a
  | x :: t => dict_arr_fill t (i + 1) (PositiveMap.add (N.succ_pos i) x a)
  end.
Definition dict_arr_of_list (l : list N) : dict_arr := dict_arr_fill l 0 (PositiveMap.empty N).
Definition dict_arr_get (a : dict_arr) (i : N) : N :=
  match PositiveMap.find (N.succ_pos i) a with Some v => v | None => 0 end.

(* ---------------------------------------------------------------- qsort *)
Module DictNOrder <: TotalLeBool.
  Definition t := N.
  Definition leb := N.leb.
  Theorem leb_total : forall a1 a2, leb a1 a2 = true \/ leb a2 a1 = true.
  Proof.
    intros a1 a2. unfold leb. destruct (N.leb_spec a1 a2) as [H|H]; [left; reflexivity|right].
    apply N.leb_le. apply N.lt_le_incl. exact H.
  Qed.
End DictNOrder.
Module DictNSort := Sort DictNOrder.
(* qsort(sorted, count, 8, compareUint64) *)
Definition dict_qsort64 (l : list N) : list N := DictNSort.sort l.

(* the two `if (i == 0 || sorted[i] != sorted[i-1])` loops of varintDictBuild
   over a sorted array: the kept elements *)
Fixpoint dict_uniq_loop (prev : N) (l : list N) : list N :=
  match l with
  | [] => []
  | x :: t => if x =? prev then dict_uniq_loop prev t else x :: dict_uniq_loop x t
  end.
Definition dict_uniq_sorted (l : list N) : list N :=
  match l with
  | [] => []
  | x :: t => x :: dict_uniq_loop x t
  end.

(* varintDict as filled by varintDictBuild: values[0..size), size, indexWidth
   (capacity is not observable) *)
Record dict := mk_dict { dct_values : list N; dct_size : N; dct_index_width : nat }.

(* `varintExternalUnsignedEncoding(size - 1, indexWidth)`, VARINT_WIDTH_8B
   for size 0 *)
Definition dict_index_width (size : N) : nat :=
  if size =? 0 then 1%nat else ext_width (size - 1).

Inductive dict_build_res :=
| DictBuildFail                 (* return -1 *)
| DictBuildOverflow             (* `uint32_t unique` wrapped: 2^32 or more distinct
                               values; the extraction loop then writes past
                               the reallocated array (not reachable with less
                               than 32 GiB of input; theorems exclude it) *)
| DictBuildOk (d : dict).

(* varintDictBuild (after fix F05: more than VARINT_DICT_MAX_SIZE distinct
   values is a failure) *)
Definition dict_build (values : list N) : dict_build_res :=
  match values with
  | [] => DictBuildFail
  | _ =>
      let sorted := dict_qsort64 values in
      let u := dict_uniq_sorted sorted in
      let nu := N.of_nat (length u) in
      if 4294967296 <=? nu then DictBuildOverflow
      else
        let unique := u32 nu in
        if dict_max_size <? unique then DictBuildFail
        else DictBuildOk (mk_dict u unique (dict_index_width unique))
  end.

(* (int32_t)x for a uint32_t x *)
Definition dict_to_s32 (x : N) : Z :=
  if x <? 2147483648 then Z.of_N x else (Z.of_N x - 4294967296)%Z.

(* binarySearch(values, size, target): int32_t left/right/mid.  left <= right
   inside the loop, where C's `(right - left) / 2` is Z.div2 (= `/ 2`,
   Z.div2_div; much faster than Z.div in the extracted model).  Fuel 33 >= number of
   halvings of an int32 range; None = out of fuel (excluded by theorems). *)
Fixpoint dict_bsearch_loop (fuel : nat) (a : dict_arr) (target : N) (left right : Z) : option Z :=
  match fuel with
  | O => None
  | S f =>
      if (left <=? right)%Z then
        let mid := (left + Z.div2 (right - left))%Z in
        let v := dict_arr_get a (Z.to_N mid) in
        if v =? target then Some mid
        else if v <? target then dict_bsearch_loop f a target (mid + 1)%Z right
        else dict_bsearch_loop f a target left (mid - 1)%Z
      else Some (-1)%Z
  end.
Definition dict_binary_search (a : dict_arr) (size : N) (target : N) : option Z :=
  dict_bsearch_loop 33 a target 0%Z (dict_to_s32 (u32 (size + 4294967296 - 1))).

(* varintDictFind on the indexed array of d; (-1) = not found *)
Definition dict_find_arr (a : dict_arr) (size : N) (value : N) : option Z :=
  if size =? 0 then Some (-1)%Z else dict_binary_search a size value.
Definition dict_find (d : dict) (value : N) : option Z :=
  dict_find_arr (dict_arr_of_list (dct_values d)) (dct_size d) value.

(* varintDictLookup *)
Definition dict_lookup (d : dict) (index : N) : N :=
  if dct_size d <=? index then 0 else nth (N.to_nat index) (dct_values d) 0.

(* varintExternalPutFixedWidthQuick_(ptr, index, width): widths 1..3 inline,
   otherwise varintExternalPutFixedWidth = the low `width` bytes, little
   endian *)
Definition dict_ext_put_quick (v : N) (width : nat) : list N :=
  match width with
  | 1%nat => [u8 v]
  | 2%nat => [N.land v 255; N.land (shr v 8) 255]
  | 3%nat => [N.land v 255; N.land (shr v 8) 255; N.land (shr v 16) 255]
  | _ => le_bytes width v
  end.

(* varintExternalGetQuick_(ptr, width, result) *)
Definition dict_ext_get_quick (z : list N) (width : nat) : N :=
  let b i := byte_at z i in
  match width with
  | 1%nat => b 0%nat
  | 2%nat => bor (shl64 (b 1%nat) 8) (b 0%nat)
  | 3%nat => bor (bor (shl64 (b 2%nat) 16) (shl64 (b 1%nat) 8)) (b 0%nat)
  | _ => of_le (firstn width (z ++ repeat 0 width))
  end.

(* the index loop of varintDictEncodeWithDict: (bytes written, all found) *)
Fixpoint dict_encode_indices (a : dict_arr) (size : N) (width : nat) (vs : list N) : list N * bool :=
  match vs with
  | [] => ([], true)
  | v :: t =>
      match dict_find_arr a size v with
      | Some idx =>
          if (idx <? 0)%Z then ([], false)
          else
            let r := dict_encode_indices a size width t in
            (dict_ext_put_quick (Z.to_N idx) width ++ fst r, snd r)
      | None => ([], false)
      end
  end.

(* varintDictEncodeWithDict: (bytes written into buffer, success).  The C
   return value is the number of bytes when success, else 0 (the bytes
   written before a missing value is met stay written). *)
Definition dict_encode_with_dict (d : dict) (values : list N) : list N * bool :=
  match values with
  | [] => ([], false)
  | _ =>
      if dict_max_size <? dct_size d then ([], false)
      else
        let hdr := tagged_put64 (dct_size d)
                   ++ flat_map tagged_put64 (dct_values d)
                   ++ tagged_put64 (N.of_nat (length values)) in
        let r := dict_encode_indices (dict_arr_of_list (dct_values d)) (dct_size d) (dct_index_width d) values in
        (hdr ++ fst r, snd r)
  end.

(* varintDictEncode *)
Definition dict_encode (values : list N) : list N * bool :=
  match dict_build values with
  | DictBuildOk d => dict_encode_with_dict d values
  | _ => ([], false)
  end.
Definition dict_ret (r : list N * bool) : N :=
  if snd r then N.of_nat (length (fst r)) else 0.

(* varintDictEncodedSizeWithDict(dict, count) *)
Definition dict_encoded_size_with_dict (d : dict) (count : N) : N :=
  if count =? 0 then 0
  else
    tagged_len (dct_size d)
    + fold_left (fun s v => s + tagged_len v) (dct_values d) 0
    + tagged_len count
    + mul64 count (N.of_nat (dct_index_width d)).

(* varintDictEncodedSize *)
Definition dict_encoded_size (values : list N) : N :=
  match dict_build values with
  | DictBuildOk d => dict_encoded_size_with_dict d (N.of_nat (length values))
  | _ => 0
  end.

(* varintDictGetStats: the integer fields
   (uniqueCount, totalCount, dictBytes, indexBytes, totalBytes, originalBytes);
   None = return -1 *)
Definition dict_get_stats (values : list N) : option (N * N * N * N * N * N) :=
  match dict_build values with
  | DictBuildOk d =>
      let count := N.of_nat (length values) in
      let dictBytes := tagged_len (dct_size d)
                       + fold_left (fun s v => s + tagged_len v) (dct_values d) 0 in
      let indexBytes := mul64 count (N.of_nat (dct_index_width d)) in
      Some (dct_size d, count, dictBytes, indexBytes,
            dictBytes + tagged_len count + indexBytes, mul64 count 8)
  | _ => None
  end.

(* ---------------------------------------------------------------- decoding *)

(* result of the header part shared by both decoders; avail = end - ptr after
   the read of `count` (so ptr = buffer + (bufferLen - avail)) *)
Inductive dict_hdr_res :=
| DictHFail (allocs : list N)          (* return NULL / 0 *)
| DictHFuel
| DictHOk (dictValues : list N) (dictSize : N) (count : N) (avail : N) (allocs : list N).

(* `for (i = 0; i < dictSize; i++)` reading the entries with the bounded
   varintTaggedGet; z = bytes at ptr, avail = end - ptr; returns the entries
   and the new avail *)
Fixpoint dict_read_entries (fuel : nat) (z : list N) (avail : N) (i dictSize : N)
  : option (option (list N * N)) :=
  match fuel with
  | O => None
  | S f =>
      if i <? dictSize then
        let r := tagged_get z (rle_tagged_avail avail) in
        if fst r =? 0 then Some None
        else
          match dict_read_entries f (skipn (N.to_nat (fst r)) z) (avail - fst r) (i + 1) dictSize with
          | Some (Some (vs, a')) => Some (Some (snd r :: vs, a'))
          | x => x
          end
      else Some (Some ([], avail))
  end.

(* common prefix of varintDictDecode / varintDictDecodeInto up to and
   including the read of `count` (after fix F12: every header read is bounded
   by end - ptr) *)
Definition dict_read_header (z : list N) (bufferLen : N) : dict_hdr_res :=
  if bufferLen =? 0 then DictHFail []
  else
    let r := tagged_get z (rle_tagged_avail bufferLen) in
    if fst r =? 0 then DictHFail []
    else
      let z1 := skipn (N.to_nat (fst r)) z in
      let avail1 := bufferLen - fst r in
      if dict_max_size <? snd r then DictHFail []
      else
        let dictSize := u32 (snd r) in
        let allocs := [mul64 dictSize 8] in
        match dict_read_entries (S (N.to_nat bufferLen)) z1 avail1 0 dictSize with
        | None => DictHFuel
        | Some None => DictHFail allocs
        | Some (Some (vs, avail2)) =>
            let z2 := skipn (N.to_nat (avail1 - avail2)) z1 in
            let rc := tagged_get z2 (rle_tagged_avail avail2) in
            if fst rc =? 0 then DictHFail allocs
            else DictHOk vs dictSize (snd rc) (avail2 - fst rc) allocs
        end.

(* index loop: (stores so far, completed) *)
Fixpoint dict_decode_indices (fuel : nat) (a : dict_arr) (dictSize : N) (width : nat)
         (z : list N) (i count : N) : option (list N * bool) :=
  match fuel with
  | O => None
  | S f =>
      if i <? count then
        let index := dict_ext_get_quick z width in
        if dictSize <=? index then Some ([], false)
        else
          match dict_decode_indices f a dictSize width (skipn width z) (i + 1) count with
          | Some (l, ok) => Some (dict_arr_get a index :: l, ok)
          | None => None
          end
      else Some ([], true)
  end.

Inductive dict_dec_res :=
| DictNull (allocs : list N)                       (* NULL / 0, nothing visible *)
| DictFuel
| DictPartial (stores : list N) (allocs : list N)  (* DecodeInto: returned 0 after these stores *)
| DictOk (out : list N) (allocs : list N).

(* varintDictDecode (after fix F12): malloc(0) is taken to succeed (glibc) *)
Definition dict_decode (z : list N) (bufferLen : N) : dict_dec_res :=
  match dict_read_header z bufferLen with
  | DictHFail al => DictNull al
  | DictHFuel => DictFuel
  | DictHOk vs dictSize count avail al =>
      let z' := skipn (N.to_nat (bufferLen - avail)) z in
      let width := dict_index_width dictSize in
      if avail / N.of_nat width <? count then DictNull al
      else
        let al' := al ++ [mul64 count 8] in
        match dict_decode_indices (S (N.to_nat bufferLen)) (dict_arr_of_list vs) dictSize width z' 0 count with
        | None => DictFuel
        | Some (out, true) => DictOk out al'
        | Some (_, false) => DictNull al'
        end
  end.

(* varintDictDecodeInto(buffer, bufferLen, output, maxValues) *)
Definition dict_decode_into (z : list N) (bufferLen maxValues : N) : dict_dec_res :=
  if maxValues =? 0 then DictNull []
  else
  match dict_read_header z bufferLen with
  | DictHFail al => DictNull al
  | DictHFuel => DictFuel
  | DictHOk vs dictSize count avail al =>
      if maxValues <? count then DictNull al
      else
        let z' := skipn (N.to_nat (bufferLen - avail)) z in
        let width := dict_index_width dictSize in
        if avail / N.of_nat width <? count then DictNull al
        else
          match dict_decode_indices (S (N.to_nat bufferLen)) (dict_arr_of_list vs) dictSize width z' 0 count with
          | None => DictFuel
          | Some (out, true) => DictOk out al
          | Some (out, false) => DictPartial out al
          end
  end.

(* EXTRACT: dict_build dict_find dict_lookup dict_encode_with_dict dict_encode
   dict_ret dict_encoded_size_with_dict dict_encoded_size dict_get_stats
   dict_decode dict_decode_into dct_values dct_size dct_index_width *)
