(* Packed.v — Gallina model of /repo/src/varintPacked.h (template header,
   instantiated by #define PACK_STORAGE_BITS etc. then #include), as repaired by
   the F25 commit (SLOT_CAN_HOLD_ENTIRE_VALUE is 1 for every instantiation).

   One definition per C function, same case structure, same machine
   arithmetic.  An instantiation is a [pcfg]; an array is the list of its
   slots (each < 2^S); every function also returns the list of slot indices it
   reads or writes (the C pointer expression out[0] / out[1], relative to the
   array start), so that an access outside the array is visible. *)
Require Import VV.Base.
Local Open Scope N_scope.

Record pcfg := mk_pcfg {
  p_w : N;             (* PACK_STORAGE_BITS                                  *)
  p_S : N;             (* bits of PACK_STORAGE_SLOT_STORAGE_TYPE (8/16/32/64) *)
  p_P : option N;      (* bits of PACK_STORAGE_MICRO_PROMOTION_TYPE, None = not defined *)
  p_V : N;             (* bits of PACK_STORAGE_VALUE_TYPE                    *)
  p_L : N;             (* bits of PACKED_LEN_TYPE                            *)
  p_compact : bool     (* PACK_STORAGE_COMPACT defined                       *)
}.

(* ---- the preprocessor part: defaults chosen by the header ---- *)

(* PACK_STORAGE_SLOT_STORAGE_TYPE when the user gives none *)
Definition default_slot_bits (compact : bool) (w : N) : N :=
  if compact then (if w <=? 16 then 8 else if w <=? 32 then 16 else 32) else 32.

(* PACK_STORAGE_VALUE_TYPE when the user gives none *)
Definition default_value_bits (w : N) : N :=
  if w <=? 8 then 8 else if w <=? 16 then 16 else if w <=? 32 then 32 else 64.

(* PACKED_LEN_TYPE from PACK_MAX_ELEMENTS (None = not defined) *)
Definition len_bits (max_elements : option N) : N :=
  match max_elements with
  | None => 32
  | Some m => if m <=? 255 then 8 else if m <=? 65535 then 16
              else if m <=? 4294967295 then 32 else 64
  end.

(* #define SLOT_CAN_HOLD_ENTIRE_VALUE 1   (before the F25 repair: only when
   PACK_STORAGE_COMPACT was not defined) *)
Definition slot_can_hold_entire_value (c : pcfg) : bool := true.

(* ---- casts ---- *)
Definition trunc (bits x : N) : N := x mod 2 ^ bits.

(* MICRO_PROMOTION_TYPE_CAST(thing): a cast when the promotion type is given,
   otherwise the bare expression (integer promotion does not change values) *)
Definition mp_cast (c : pcfg) (x : N) : N :=
  match p_P c with Some p => trunc p x | None => x end.
(* MICRO_PROMOTION_TYPE is VALUE_TYPE when no promotion type is given *)
Definition mp_bits (c : pcfg) : N :=
  match p_P c with Some p => p | None => p_V c end.

(* VALUE_MASK = (uint32_t)(MICRO_PROMOTION_TYPE)((1ULL << BITS_PER_VALUE) - 1) *)
Definition value_mask (c : pcfg) : N :=
  u32 (trunc (mp_bits c) (sub64 (shl64 1 (p_w c)) 1)).

Definition len_cast (c : pcfg) (x : N) : N := trunc (p_L c) x.
Definition val_cast (c : pcfg) (x : N) : N := trunc (p_V c) x.

(* ~x in uint64_t *)
Definition not64 (x : N) : N := N.lnot x 64.

(* ---- memory: slot k of the array (dst[k]); an index beyond the list is
   outside the array: reads give 0, writes are dropped, and the index is in
   the touched list ---- *)
Definition slot_at (a : list N) (k : N) : N := nth (N.to_nat k) a 0.
Fixpoint upd_nat (a : list N) (k : nat) (v : N) : list N :=
  match a, k with
  | [], _ => []
  | _ :: t, O => v :: t
  | x :: t, S k' => x :: upd_nat t k' v
  end.
Definition slot_upd (a : list N) (k : N) (v : N) : list N := upd_nat a (N.to_nat k) v.

(* startOffset(offset) = (uint64_t)(offset) * BITS_PER_VALUE *)
Definition start_offset (c : pcfg) (off : N) : N := u64 (off * p_w c).

(* ---- PACKED_ARRAY_SET ---- *)
Definition packed_set (c : pcfg) (a : list N) (off val : N) : list N * list N :=
  let w := p_w c in
  let sb := p_S c in
  let sbo := start_offset c off in
  let k := sbo / sb in
  let startBit := sbo mod sb in
  let bitsAvailable := sb - startBit in
  let vm := value_mask c in
  if slot_can_hold_entire_value c && (w <=? bitsAvailable) then
    (* target position is fully inside out[0] *)
    let current := slot_at a k in
    let current' :=
      trunc sb (N.lor (N.land current (not64 (shl64 vm startBit)))
                      (shl64 (mp_cast c val) startBit)) in
    (slot_upd a k current', [k])
  else
    (* target position is split across two slots *)
    let low := shl64 (mp_cast c val) startBit in
    let high := shr (mp_cast c val) bitsAvailable in
    let slot0 := slot_at a k in
    let slot1 := slot_at a (k + 1) in
    let slot0' := trunc sb (N.lor (N.land slot0 (not64 (shl64 vm startBit))) low) in
    let slot1' := trunc sb (N.lor (N.land slot1 (not64 (shr vm bitsAvailable))) high) in
    (slot_upd (slot_upd a k slot0') (k + 1) slot1', [k; k + 1]).

(* ---- PACKED_ARRAY_GET ---- *)
Definition packed_get (c : pcfg) (a : list N) (off : N) : N * list N :=
  let w := p_w c in
  let sb := p_S c in
  let sbo := start_offset c off in
  let k := sbo / sb in
  let startBit := sbo mod sb in
  let bitsAvailable := sb - startBit in
  let vm := value_mask c in
  if slot_can_hold_entire_value c && (w <=? bitsAvailable) then
    let slot := slot_at a k in
    (val_cast c (N.land (shr (mp_cast c slot) startBit) vm), [k])
  else
    let slot0 := slot_at a k in
    let slot1 := slot_at a (k + 1) in
    let low := shr (mp_cast c slot0) startBit in
    let high := shl64 (mp_cast c slot1) bitsAvailable in
    (* (VALUE_MASK >> bitsAvailable) << bitsAvailable is computed in uint32_t here *)
    (val_cast c (N.lor low (N.land high (shl32 (shr vm bitsAvailable) bitsAvailable))),
     [k; k + 1]).

(* The shifts of the two-slot path are undefined in C when the count reaches
   the width of the shifted type: 32 for the uint32_t mask shift in Get, 64 for
   the uint64_t shifts.  This predicate says "this call evaluates such a
   shift"; the theorems show it is false for every admitted instantiation. *)
Definition packed_shift_ub (c : pcfg) (off : N) : bool :=
  let sbo := start_offset c off in
  let startBit := sbo mod p_S c in
  let bitsAvailable := p_S c - startBit in
  negb (slot_can_hold_entire_value c && (p_w c <=? bitsAvailable)) && (32 <=? bitsAvailable).

(* ---- PACKED_ARRAY_SET_HALF ---- *)
Definition packed_set_half (c : pcfg) (a : list N) (off : N) : list N * list N :=
  let w := p_w c in
  let sb := p_S c in
  let sbo := start_offset c off in
  let k := sbo / sb in
  let startBit := sbo mod sb in
  let bitsAvailable := sb - startBit in
  let vm := value_mask c in
  if slot_can_hold_entire_value c && (w <=? bitsAvailable) then
    let slot := slot_at a k in
    let current := val_cast c (N.land (shr (mp_cast c slot) startBit) vm) in
    if current =? 0 then (a, [k])
    else
      let val := val_cast c (current / 2) in
      let slot' := trunc sb (N.lor (N.land slot (not64 (shl64 vm startBit)))
                                   (shl64 (mp_cast c val) startBit)) in
      (slot_upd a k slot', [k])
  else
    let slot0 := slot_at a k in
    let slot1 := slot_at a (k + 1) in
    let low := shr (mp_cast c slot0) startBit in
    let high := shl64 (mp_cast c slot1) bitsAvailable in
    let current :=
      val_cast c (N.lor low (N.land high (shl64 (shr vm bitsAvailable) bitsAvailable))) in
    if current =? 0 then (a, [k; k + 1])
    else
      let val := val_cast c (current / 2) in
      let low' := shl64 (mp_cast c val) startBit in
      let high' := shr (mp_cast c val) bitsAvailable in
      let slot0' := trunc sb (N.lor (N.land slot0 (not64 (shl64 vm startBit))) low') in
      let slot1' := trunc sb (N.lor (N.land slot1 (not64 (shr vm bitsAvailable))) high') in
      (slot_upd (slot_upd a k slot0') (k + 1) slot1', [k; k + 1]).

(* (VALUE_TYPE)(current + incrBy) and (VALUE_TYPE)(current - incrBy): the sum
   is formed in int64_t (uint64_t when VALUE_TYPE is uint64_t) and truncated;
   both give the mathematical result modulo 2^V as long as the int64_t sum does
   not overflow (|incrBy| < 2^62 in everything the harness generates). *)
Definition val_cast_z (c : pcfg) (z : Z) : N := Z.to_N (z mod 2 ^ Z.of_N (p_V c))%Z.

(* val = (VALUE_TYPE)(current + incrBy); val = (val < current) ? (VALUE_TYPE)(current - incrBy) : val *)
Definition incr_value (c : pcfg) (current : N) (incrBy : Z) : N :=
  let val := val_cast_z c (Z.of_N current + incrBy) in
  if val <? current then val_cast_z c (Z.of_N current - incrBy) else val.

(* ---- PACKED_ARRAY_SET_INCR ---- *)
Definition packed_set_incr (c : pcfg) (a : list N) (off : N) (incrBy : Z) : list N * list N :=
  let w := p_w c in
  let sb := p_S c in
  let sbo := start_offset c off in
  let k := sbo / sb in
  let startBit := sbo mod sb in
  let bitsAvailable := sb - startBit in
  let vm := value_mask c in
  if slot_can_hold_entire_value c && (w <=? bitsAvailable) then
    let slot := slot_at a k in
    let current := val_cast c (N.land (shr (mp_cast c slot) startBit) vm) in
    let val := incr_value c current incrBy in
    let slot' := trunc sb (N.lor (N.land slot (not64 (shl64 vm startBit)))
                                 (shl64 (mp_cast c val) startBit)) in
    (slot_upd a k slot', [k])
  else
    let slot0 := slot_at a k in
    let slot1 := slot_at a (k + 1) in
    let low := shr (mp_cast c slot0) startBit in
    let high := shl64 (mp_cast c slot1) bitsAvailable in
    let current :=
      val_cast c (N.lor low (N.land high (shl64 (shr vm bitsAvailable) bitsAvailable))) in
    let val := incr_value c current incrBy in
    let low' := shl64 (mp_cast c val) startBit in
    let high' := shr (mp_cast c val) bitsAvailable in
    let slot0' := trunc sb (N.lor (N.land slot0 (not64 (shl64 vm startBit))) low') in
    let slot1' := trunc sb (N.lor (N.land slot1 (not64 (shr vm bitsAvailable))) high') in
    (slot_upd (slot_upd a k slot0') (k + 1) slot1', [k; k + 1]).

(* ---- PACKED_ARRAY_BINARY_SEARCH ----
   while (min < max) { mid = (LEN)((min + max) >> 1);
                       if (GET(mid) < val) min = mid + 1; else max = mid; }
   min + max is formed in int for 8/16-bit length types (no wrap) and in the
   length type itself for 32/64-bit ones (wraps).  Fuel 65 >= the number of
   halvings of any 64-bit range; None = out of fuel. *)
Definition len_sum (c : pcfg) (x y : N) : N :=
  if p_L c <? 32 then x + y else trunc (p_L c) (x + y).

Fixpoint bsearch_loop (fuel : nat) (c : pcfg) (a : list N) (min max val : N) (t : list N)
  : option (N * list N) :=
  match fuel with
  | O => None
  | S f =>
      if min <? max then
        let mid := len_cast c (shr (len_sum c min max) 1) in
        let g := packed_get c a mid in
        if fst g <? val then bsearch_loop f c a (len_cast c (mid + 1)) max val (t ++ snd g)
        else bsearch_loop f c a min mid val (t ++ snd g)
      else Some (min, t)
  end.

Definition packed_binary_search (c : pcfg) (a : list N) (len val : N) : option (N * list N) :=
  bsearch_loop 65 c a 0 len val [].

(* ---- PACKED_ARRAY_COUNT_FROM_STORAGE_BYTES: (bytes * 8) / PACK_STORAGE_BITS in size_t ---- *)
Definition packed_count_from_storage_bytes (c : pcfg) (bytes : N) : N := u64 (bytes * 8) / p_w c.

(* ---- PACKED_ARRAY_MEMBER: offset of the element, or -1 ---- *)
Definition packed_member (c : pcfg) (a : list N) (len val : N) : option (Z * list N) :=
  match packed_binary_search c a len val with
  | None => None
  | Some (min, t) =>
      if min <? len then
        let g := packed_get c a min in
        if fst g =? val then Some (Z.of_N min, t ++ snd g) else Some ((-1)%Z, t ++ snd g)
      else Some ((-1)%Z, t)
  end.

(* ---- PACKED_ARRAY_INSERT ----
   for (i = len; i > offset; i--) SET(i, GET(i - 1));   SET(offset, val);
   The loop runs len - offset times (none when offset >= len); i stays above
   offset >= 0, so i-- and i - 1 do not wrap. *)
Definition insert_step (c : pcfg) (st : list N * N * list N) : list N * N * list N :=
  let '(a, i, t) := st in
  let g := packed_get c a (i - 1) in
  let s := packed_set c a i (fst g) in
  (fst s, i - 1, t ++ snd g ++ snd s).

Definition packed_insert (c : pcfg) (a : list N) (len off val : N) : list N * list N :=
  let '(a1, _, t1) := N.iter (len - off) (insert_step c) (a, len, []) in
  let s := packed_set c a1 off val in
  (fst s, t1 ++ snd s).

(* ---- PACKED_ARRAY_INSERT_SORTED ---- *)
Definition packed_insert_sorted (c : pcfg) (a : list N) (len val : N) : option (list N * list N) :=
  match packed_binary_search c a len val with
  | None => None
  | Some (min, t) =>
      let r := packed_insert c a len min val in Some (fst r, t ++ snd r)
  end.

(* ---- PACKED_ARRAY_DELETE ----
   for (i = offset; i < len - 1; i++) SET(i, GET(i + 1));
   len - 1 is formed in int for 8/16-bit length types (-1 when len = 0: no
   iteration, as with the truncated subtraction below) and wraps to the
   maximum of the length type for 32/64-bit ones. *)
Definition delete_bound (c : pcfg) (len : N) : N :=
  if p_L c <? 32 then len - 1 else trunc (p_L c) (len + 2 ^ p_L c - 1).

Definition delete_step (c : pcfg) (st : list N * N * list N) : list N * N * list N :=
  let '(a, i, t) := st in
  let g := packed_get c a (i + 1) in
  let s := packed_set c a i (fst g) in
  (fst s, i + 1, t ++ snd g ++ snd s).

Definition packed_delete (c : pcfg) (a : list N) (len off : N) : list N * list N :=
  let '(a1, _, t1) := N.iter (delete_bound c len - off) (delete_step c) (a, off, []) in
  (a1, t1).

(* ---- PACKED_ARRAY_DELETE_MEMBER: (found, array) ---- *)
Definition packed_delete_member (c : pcfg) (a : list N) (len member : N)
  : option (bool * list N * list N) :=
  match packed_member c a len member with
  | None => None
  | Some (memberOffset, t) =>
      if (0 <=? memberOffset)%Z then
        let r := packed_delete c a len (len_cast c (Z.to_N memberOffset)) in
        Some (true, fst r, t ++ snd r)
      else Some (false, a, t)
  end.

(* ---- the ...Bytes variants: the element count is recomputed from a byte
   size and cast to the length type ---- *)
Definition bytes_len (c : pcfg) (bytes : N) : N :=
  len_cast c (packed_count_from_storage_bytes c bytes).
Definition packed_member_bytes c a bytes val := packed_member c a (bytes_len c bytes) val.
Definition packed_insert_bytes c a bytes off val := packed_insert c a (bytes_len c bytes) off val.
Definition packed_insert_sorted_bytes c a bytes val := packed_insert_sorted c a (bytes_len c bytes) val.
Definition packed_delete_bytes c a bytes off := packed_delete c a (bytes_len c bytes) off.
Definition packed_delete_member_bytes c a bytes m := packed_delete_member c a (bytes_len c bytes) m.

(* EXTRACT: mk_pcfg default_slot_bits default_value_bits len_bits packed_set packed_get
   packed_shift_ub packed_set_half packed_set_incr packed_binary_search
   packed_count_from_storage_bytes packed_member packed_insert packed_insert_sorted
   packed_delete packed_delete_member packed_member_bytes packed_insert_bytes
   packed_insert_sorted_bytes packed_delete_bytes packed_delete_member_bytes *)
