(* FloatTheorems.v — the statements exported to Properties_C07_float.v. *)
Require Import VV.Base VV.BaseProofs VV.Float VV.FloatSpec VV.FloatLemmas VV.FloatValueProofs
               VV.FloatProofs VV.FloatSizeProofs.
From Coq Require Import Lia ZifyBool ZifyN ZifyNat Arith.
Local Open Scope N_scope.
Ltac Zify.zify_post_hook ::= Z.div_mod_to_equations.

Lemma fl_Forall2_map {A B} (R : A -> B -> Prop) (f : A -> B) (P : A -> Prop) l :
  Forall P l -> (forall a, P a -> R a (f a)) -> Forall2 R l (map f l).
Proof. induction 1 as [|a l Ha Hl IH]; intro Hf; constructor; auto. Qed.

Lemma fl_decode_encode_nil ds prec mode :
  Forall (fun d => d < 18446744073709551616) ds -> mode < 256 ->
  fl_decode (fl_encode ds prec mode) (length ds)
  = Some (N.of_nat (length (fl_encode ds prec mode)), map (fl_rt (fl_mant_bits prec)) ds).
Proof.
  intros H M. rewrite <- (app_nil_r (fl_encode ds prec mode)) at 1. apply fl_decode_encode; assumption.
Qed.

(* full precision: bit-exact, all patterns, the three exponent modes, also
   when the stream is followed by other data *)
Theorem float_full_exact ds mode rest :
  Forall (fun d => d < 18446744073709551616) ds -> mode <= 2 ->
  fl_decode (fl_encode ds 0 mode ++ rest) (length ds)
  = Some (N.of_nat (length (fl_encode ds 0 mode)), ds).
Proof.
  intros H M. rewrite fl_decode_encode by (assumption || lia). f_equal. f_equal.
  change (fl_mant_bits 0) with 52.
  induction H as [|d ds Hd _ IH]; [reflexivity|]. cbn [map]. rewrite fl_rt_full, IH by exact Hd. reflexivity.
Qed.

(* every precision: specials bit-exact *)
Theorem float_special_exact ds prec mode rest :
  Forall (fun d => d < 18446744073709551616) ds -> mode <= 2 ->
  exists outs,
    fl_decode (fl_encode ds prec mode ++ rest) (length ds)
      = Some (N.of_nat (length (fl_encode ds prec mode)), outs) /\
    Forall2 (fun d d' => fl_is_special d = true -> d' = d) ds outs.
Proof.
  intros H M. eexists. split; [apply fl_decode_encode; assumption || lia|].
  apply (fl_Forall2_map _ _ _ _ H). intros d Hd S. apply fl_rt_special; assumption.
Qed.

(* the bound of one reduced precision, any of the three *)
Lemma fl_rt_reduced prec d : prec = 1 \/ prec = 2 \/ prec = 3 ->
  d < 18446744073709551616 -> fl_is_special d = false ->
  let d' := fl_rt (fl_mant_bits prec) d in
  d' < 18446744073709551616 /\ fl_sgn d' = fl_sgn d /\
  ((fl_is_inf d' = true /\ fl_bexp d = 2046 /\
    9007199254740992 <= fl_sig d + 2 ^ (52 - fl_mant_bits prec)) \/
   (fl_is_special d' = false /\
    (fl_mag d' - fl_mag d) * 2 ^ fl_mant_bits prec <= fl_mag d /\
    (fl_mag d - fl_mag d') * 2 ^ fl_mant_bits prec <= fl_mag d)).
Proof.
  intros [-> | [-> | ->]] H S.
  - exact (fl_rt_23_bound d H S).
  - exact (fl_rt_10_bound d H S).
  - exact (fl_rt_4_bound d H S).
Qed.

(* reduced precisions: relative error at most 2^-mantissa_bits, as an integer
   inequality between |d'| * 2^1075 and |d| * 2^1075 *)
Theorem float_rel_error ds prec mode rest :
  Forall (fun d => d < 18446744073709551616) ds -> mode <= 2 ->
  prec = 1 \/ prec = 2 \/ prec = 3 ->
  exists outs,
    fl_decode (fl_encode ds prec mode ++ rest) (length ds)
      = Some (N.of_nat (length (fl_encode ds prec mode)), outs) /\
    Forall2 (fun d d' =>
      (fl_is_special d = true -> d' = d) /\
      (fl_is_special d = false ->
         fl_sgn d' = fl_sgn d /\
         ((fl_is_inf d' = true /\ fl_bexp d = 2046 /\
           9007199254740992 <= fl_sig d + 2 ^ (52 - fl_mant_bits prec)) \/
          (fl_is_special d' = false /\
           (fl_mag d' - fl_mag d) * 2 ^ fl_mant_bits prec <= fl_mag d /\
           (fl_mag d - fl_mag d') * 2 ^ fl_mant_bits prec <= fl_mag d)))) ds outs.
Proof.
  intros H M P. eexists. split; [apply fl_decode_encode; assumption || lia|].
  apply (fl_Forall2_map _ _ _ _ H). intros d Hd. split.
  - intro S. apply fl_rt_special; assumption.
  - intro S. destruct (fl_rt_reduced prec d P Hd S) as (_ & A & B). split; assumption.
Qed.

(* ---------- automatic selection ---------- *)

Lemma fl_dlt_pos a b : 0 < a < 9218868437227405312 -> 0 < b < 9218868437227405312 ->
  fl_dlt a b = (a <? b).
Proof.
  intros Ha Hb. unfold fl_dlt, fl_is_nan, shr.
  rewrite !fl_land_mask11, !fl_land_mask63. change (2 ^ 52) with 4503599627370496.
  change (2 ^ 63) with 9223372036854775808.
  replace ((a / 4503599627370496) mod 2048 =? 2047) with false by lia.
  replace ((b / 4503599627370496) mod 2048 =? 2047) with false by lia.
  cbn [andb orb].
  replace ((a mod 9223372036854775808 =? 0) && (b mod 9223372036854775808 =? 0)) with false by lia.
  replace (a / 9223372036854775808 =? 0) with true by lia.
  replace (b / 9223372036854775808 =? 0) with true by lia.
  rewrite !N.mod_small by lia. reflexivity.
Qed.

Lemma fl_mag_any_ge err E : E * 4503599627370496 <= err -> err < 9218868437227405312 -> 1 <= E ->
  4503599627370496 * 2 ^ E <= fl_mag_any err.
Proof.
  intros H1 H2 HE. unfold fl_mag_any, fl_mag, fl_sig.
  assert (Hb : E <= fl_bexp err) by (unfold fl_bexp; lia).
  replace (fl_bexp err =? 0) with false by lia.
  pose proof (N.pow_le_mono_r 2 E (fl_bexp err) ltac:(lia) Hb).
  apply N.mul_le_mono; lia.
Qed.

(* the requested error is a double in (0, 1): patterns strictly between +0 and
   1.0 = 0x3FF0000000000000.  Either FULL is selected (lossless), or the
   selected mode's bound 2^-mb is at most the requested error:
   2^-mb <= err  <->  2^1075 <= (err * 2^1075) * 2^mb. *)
Theorem float_auto err :
  0 < err < 4607182418800017408 ->
  let p := fl_auto_precision err in
  p = 0 \/ ((p = 1 \/ p = 2 \/ p = 3) /\ 2 ^ 1075 <= fl_mag_any err * 2 ^ fl_mant_bits p).
Proof.
  intros He p. unfold p, fl_auto_precision.
  change (fl_max_rel_error_bits 1) with 4503599627370496000.
  change (fl_max_rel_error_bits 2) with 4562146422526312448.
  change (fl_max_rel_error_bits 3) with 4589168020290535424.
  rewrite !fl_dlt_pos by lia.
  destruct (err <? 4503599627370496000) eqn:C1; [left; reflexivity|right].
  destruct (err <? 4562146422526312448) eqn:C2.
  { split; [tauto|]. change (fl_mant_bits 1) with 23.
    pose proof (fl_mag_any_ge err 1000 ltac:(lia) ltac:(lia) ltac:(lia)) as G.
    replace (2 ^ 1075) with (4503599627370496 * 2 ^ 1000 * 2 ^ 23) by (rewrite <- N.mul_assoc, <- N.pow_add_r; reflexivity).
    apply N.mul_le_mono_r. exact G. }
  destruct (err <? 4589168020290535424) eqn:C3.
  { split; [tauto|]. change (fl_mant_bits 2) with 10.
    pose proof (fl_mag_any_ge err 1013 ltac:(lia) ltac:(lia) ltac:(lia)) as G.
    replace (2 ^ 1075) with (4503599627370496 * 2 ^ 1013 * 2 ^ 10) by (rewrite <- N.mul_assoc, <- N.pow_add_r; reflexivity).
    apply N.mul_le_mono_r. exact G. }
  split; [tauto|]. change (fl_mant_bits 3) with 4.
  pose proof (fl_mag_any_ge err 1019 ltac:(lia) ltac:(lia) ltac:(lia)) as G.
  replace (2 ^ 1075) with (4503599627370496 * 2 ^ 1019 * 2 ^ 4) by (rewrite <- N.mul_assoc, <- N.pow_add_r; reflexivity).
  apply N.mul_le_mono_r. exact G.
Qed.

(* end to end: what EncodeAuto writes decodes to values within the requested
   relative error:  | |d'| - |d| | <= err * |d|,  all three scaled to integers
   (|d| * 2^1075, err * 2^1075) *)
Theorem float_auto_error ds err mode rest :
  Forall (fun d => d < 18446744073709551616) ds -> mode <= 2 ->
  0 < err < 4607182418800017408 ->
  exists outs,
    fl_decode (snd (fl_encode_auto ds err mode) ++ rest) (length ds)
      = Some (N.of_nat (length (snd (fl_encode_auto ds err mode))), outs) /\
    Forall2 (fun d d' =>
      (fl_is_special d = true -> d' = d) /\
      (fl_is_special d = false ->
         fl_sgn d' = fl_sgn d /\
         ((fl_is_inf d' = true /\ fl_bexp d = 2046 /\
           (9007199254740992 - fl_sig d) * 2 ^ 1075 <= fl_sig d * fl_mag_any err) \/
          (fl_is_special d' = false /\
           (fl_mag d' - fl_mag d) * 2 ^ 1075 <= fl_mag d * fl_mag_any err /\
           (fl_mag d - fl_mag d') * 2 ^ 1075 <= fl_mag d * fl_mag_any err)))) ds outs.
Proof.
  intros H M He. unfold fl_encode_auto. cbn [snd].
  eexists. split; [apply fl_decode_encode; assumption || lia|].
  apply (fl_Forall2_map _ _ _ _ H). intros d Hd. split.
  - intro S. apply fl_rt_special; assumption.
  - intro S. destruct (float_auto err He) as [P0|(P & G)]; cbv zeta in *.
    + rewrite P0. change (fl_mant_bits 0) with 52. rewrite fl_rt_full by exact Hd.
      split; [reflexivity|]. right. rewrite S, N.sub_diag. split; [reflexivity|]. lia.
    + destruct (fl_rt_reduced _ d P Hd S) as (_ & A & B). split; [exact A|].
      set (mb := fl_mant_bits (fl_auto_precision err)) in *. set (EE := fl_mag_any err) in *.
      assert (T : forall x v, x * 2 ^ mb <= v -> x * 2 ^ 1075 <= v * EE).
      { intros x v Hx. apply N.le_trans with (x * (EE * 2 ^ mb)); [apply N.mul_le_mono_l; exact G|].
        rewrite (N.mul_comm EE), N.mul_assoc. apply N.mul_le_mono_r. exact Hx. }
      destruct B as [(B1 & B2 & B3)|(B1 & B2 & B3)]; [left|right].
      * split; [exact B1|]. split; [exact B2|]. apply T.
        assert (Q : 2 ^ (52 - mb) * 2 ^ mb = 4503599627370496).
        { rewrite <- N.pow_add_r. replace (52 - mb + mb) with 52; [reflexivity|].
          unfold mb. destruct P as [-> | [-> | ->]]; reflexivity. }
        set (R := 2 ^ (52 - mb)) in *. set (Bm := 2 ^ mb) in *.
        assert (fl_sig d < 9007199254740992) by (unfold fl_sig, fl_frac; lia).
        assert (4503599627370496 <= fl_sig d) by (unfold fl_sig; lia).
        apply N.le_trans with (R * Bm); [apply N.mul_le_mono_r; lia|lia].
      * split; [exact B1|]. split; apply T; assumption.
Qed.

(* C16: the decoder consumes exactly what the encoder reports *)
Theorem float_decode_walks ds prec mode rest :
  Forall (fun d => d < 18446744073709551616) ds -> mode <= 2 ->
  exists outs,
    fl_decode (fl_encode ds prec mode ++ rest) (length ds)
      = Some (fl_encode_ret ds prec mode, outs) /\ length outs = length ds.
Proof.
  intros H M. eexists. split.
  - rewrite VV.FloatSizeProofs.fl_encode_ret_length. apply fl_decode_encode; assumption || lia.
  - apply map_length.
Qed.
