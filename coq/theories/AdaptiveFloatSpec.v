(* AdaptiveFloatSpec.v — reference semantics of the three binary32 tests of
   varintAdaptive.c, stated with Flocq's IEEE-754 formalisation (no reference
   to the integer helper of Adaptive.v):

     (float)a / (float)b < 0.15f      (float)a / (float)b > 0.05f
     (float)a / (float)b < 0.05f      a, b : size_t / uint64_t, b > 0

   * (float)n is the IEEE conversion of the integer n to binary32, round to
     nearest even: binary_normalize 24 128 mode_NE n 0 false;
   * `/` is Bdiv 24 128 mode_NE (Bits.b32_div: the NaN payload function plays no
     part, no NaN arises);
   * `<`, `>` are read off Bcompare (Bits.b32_compare): Some Lt / Some Gt (an
     unordered comparison, None, is false as in C);
   * 0.15f and 0.05f are the binary32 values with the bit patterns 0x3E19999A and
     0x3D4CCCCD: the binary32 values nearest to 15/100 and 5/100
     (AdaptiveFloatProofs.afl_015_rounded / afl_005_rounded), which is what a
     correctly rounding compiler emits for the literals (gcc 0x3e19999a,
     0x3d4ccccd). *)
From Flocq Require Import Core Binary Bits.
From Coq Require Import ZArith NArith.

Definition flt32_prec_gt_0 : Prec_gt_0 24 := eq_refl.
Definition flt32_prec_lt_emax : BinarySingleNaN.Prec_lt_emax 24 128 := eq_refl.

(* (float)n, n an unsigned integer *)
Definition flt32_of_N (n : N) : binary32 :=
  binary_normalize 24 128 flt32_prec_gt_0 flt32_prec_lt_emax BinarySingleNaN.mode_NE (Z.of_N n) 0 false.

(* x / y in binary32, round to nearest even *)
Definition flt32_div (x y : binary32) : binary32 := b32_div BinarySingleNaN.mode_NE x y.

(* x < y, x > y *)
Definition flt32_lt (x y : binary32) : bool :=
  match b32_compare x y with Some Lt => true | _ => false end.
Definition flt32_gt (x y : binary32) : bool :=
  match b32_compare x y with Some Gt => true | _ => false end.

(* 0.15f, 0.05f *)
Definition flt32_015 : binary32 := b32_of_bits 0x3E19999A.
Definition flt32_005 : binary32 := b32_of_bits 0x3D4CCCCD.

(* (float)a / (float)b *)
Definition flt32_ratio (a b : N) : binary32 := flt32_div (flt32_of_N a) (flt32_of_N b).

(* the three tests of varintAdaptiveSelectEncoding *)
Definition flt32_ratio_lt_015 (a b : N) : bool := flt32_lt (flt32_ratio a b) flt32_015.
Definition flt32_ratio_gt_005 (a b : N) : bool := flt32_gt (flt32_ratio a b) flt32_005.
Definition flt32_ratio_lt_005 (a b : N) : bool := flt32_lt (flt32_ratio a b) flt32_005.
