(* FloatSizeProofs.v — lengths: the encoder's return value is the number of
   bytes it wrote (C16) and never exceeds varintFloatMaxEncodedSize (C03). *)
Require Import VV.Base VV.BaseProofs VV.Float VV.FloatSpec VV.FloatLemmas VV.FloatValueProofs
               VV.FloatProofs.
From Coq Require Import Lia ZifyBool ZifyN ZifyNat Arith.
Local Open Scope N_scope.
Ltac Zify.zify_post_hook ::= Z.div_mod_to_equations.

Lemma fl_length_put_exp_le e : (-2046 <= e <= 2046)%Z -> (length (fl_put_exp e) <= 3)%nat.
Proof.
  intro H. rewrite fl_length_put_exp.
  assert (fl_zigzag e < 65536) by (rewrite fl_zigzag_val by lia; destruct (e <? 0)%Z; lia).
  pose proof (fl_ext_width_small _ H0). lia.
Qed.

Lemma fl_length_exps_indep es : Forall fl_elem_ok es ->
  (length (fl_exps_indep es) <= 3 * length (fl_normals es))%nat.
Proof.
  unfold fl_exps_indep, fl_normals. induction 1 as [|e es He _ IH]; [cbn; lia|].
  cbn [flat_map filter]. rewrite app_length. destruct (e_special e) eqn:S; cbn [negb length].
  - lia.
  - pose proof (fl_elem_ok_exp e He S). pose proof (fl_length_put_exp_le (e_exp e) ltac:(lia)). lia.
Qed.

Lemma fl_length_common_bytes (f : fl_elem -> N) es :
  length (flat_map (fun e => if e_special e then [] else [f e]) es) = length (fl_normals es).
Proof.
  unfold fl_normals. induction es as [|e es IH]; [reflexivity|].
  cbn [flat_map filter]. rewrite app_length, IH. destruct (e_special e); reflexivity.
Qed.

Lemma fl_min_exp_range es : Forall fl_elem_ok es -> (0 < length (fl_normals es))%nat ->
  (-1022 <= fl_min_exp es <= 1024)%Z.
Proof.
  intros Hok C.
  assert (Hall : forall e, In e es -> e_special e = false -> (-1022 <= e_exp e <= 1024)%Z).
  { intros e He S. rewrite Forall_forall in Hok. exact (fl_elem_ok_exp e (Hok e He) S). }
  destruct (fl_fold_min_spec es 32767%Z (-1022)%Z ltac:(lia) (fun e He S => proj1 (Hall e He S)))
    as (M1 & M2).
  change (fl_fold_min 32767 es) with (fl_min_exp es) in M1, M2.
  assert (exists e, In e es /\ e_special e = false) as (e & He & S).
  { clear - C. unfold fl_normals in C. induction es as [|x es IH]; [cbn in C; lia|].
    cbn [filter] in C. destruct (e_special x) eqn:S.
    - cbn [negb] in C. destruct (IH C) as (e & He & Se). exists e. split; [right|]; assumption.
    - exists x. split; [left; reflexivity|exact S]. }
  pose proof (M2 e He S). pose proof (Hall e He S). lia.
Qed.

Lemma fl_length_exps_common es : Forall fl_elem_ok es ->
  (length (fl_exps_common es) <= 3 + length (fl_normals es))%nat.
Proof.
  intro Hok. unfold fl_exps_common. destruct (0 <? N.of_nat (length (fl_normals es))) eqn:C; [|cbn; lia].
  cbv zeta. rewrite app_length, fl_length_common_bytes.
  pose proof (fl_min_exp_range es Hok ltac:(lia)).
  pose proof (fl_length_put_exp_le (fl_min_exp es) ltac:(lia)). lia.
Qed.

Lemma fl_length_exps_delta_rest es : forall prev, Forall fl_elem_ok es -> (-1022 <= prev <= 1024)%Z ->
  (length (fl_exps_delta_rest prev es) <= 3 * length (fl_normals es))%nat.
Proof.
  unfold fl_normals. induction es as [|e es IH]; intros prev Hok Hp; [cbn; lia|].
  inversion Hok as [|? ? He Hes]; subst.
  cbn [fl_exps_delta_rest filter]. destruct (e_special e) eqn:S; cbn [negb length].
  - apply IH; assumption.
  - pose proof (fl_elem_ok_exp e He S). rewrite app_length.
    rewrite (fl_s16_id (e_exp e - prev)) by lia.
    pose proof (fl_length_put_exp_le (e_exp e - prev) ltac:(lia)).
    pose proof (IH (e_exp e) Hes ltac:(lia)). lia.
Qed.

Lemma fl_length_exps_delta es : Forall fl_elem_ok es ->
  (length (fl_exps_delta es) <= 3 * length (fl_normals es))%nat.
Proof.
  unfold fl_normals. induction 1 as [|e es He Hes IH]; [cbn; lia|].
  cbn [fl_exps_delta filter]. destruct (e_special e) eqn:S; cbn [negb length].
  - exact IH.
  - pose proof (fl_elem_ok_exp e He S). rewrite app_length.
    pose proof (fl_length_put_exp_le (e_exp e) ltac:(lia)).
    pose proof (fl_length_exps_delta_rest es (e_exp e) Hes ltac:(lia)). unfold fl_normals in *. lia.
Qed.

Lemma fl_length_exps em es : Forall fl_elem_ok es ->
  (length (fl_exps em es) <= 3 + 3 * length (fl_normals es))%nat.
Proof.
  intro Hok. unfold fl_exps. destruct (em =? 0); [|destruct (em =? 1)].
  - pose proof (fl_length_exps_indep es Hok). lia.
  - pose proof (fl_length_exps_common es Hok). lia.
  - pose proof (fl_length_exps_delta es Hok). lia.
Qed.

(* the exact length of the stream, section by section *)
Lemma fl_length_encode ds prec mode : ds <> [] ->
  let mb := fl_mant_bits prec in
  let es := map (fl_prepare mb) ds in
  let nc := length (fl_normals es) in
  length (fl_encode ds prec mode) =
    (4 + (length ds + 7) / 8 + (length ds + 7) / 8
     + length (fl_exps (fl_exp_mode mode es) es)
     + (if (0 <? nc)%nat then (nc * N.to_nat mb + 7) / 8 else 0)
     + 8 * length (fl_specials es))%nat.
Proof.
  intros Hne mb es nc. rewrite fl_encode_cons by exact Hne. fold mb. fold es.
  cbn [app length]. rewrite !app_length, !fl_length_pack, !map_length.
  replace (length es) with (length ds) by (symmetry; apply map_length).
  rewrite Nat.mul_1_r. unfold fl_special_bytes. rewrite fl_length_special_bytes.
  unfold fl_mants. fold nc. destruct (0 <? nc)%nat eqn:C.
  - replace (0 <? N.of_nat nc) with true by lia. rewrite fl_length_pack, map_length. fold nc. lia.
  - replace (0 <? N.of_nat nc) with false by lia. cbn [length]. lia.
Qed.

(* C16: the returned length, computed from the pointer increments, is the
   number of bytes written *)
Theorem fl_encode_ret_length ds prec mode :
  fl_encode_ret ds prec mode = N.of_nat (length (fl_encode ds prec mode)).
Proof.
  unfold fl_encode_ret. destruct (list_eq_dec N.eq_dec ds []) as [->|Hne]; [reflexivity|].
  assert (Hn : length ds <> O) by (destruct ds; [contradiction|discriminate]).
  replace (N.of_nat (length ds) =? 0) with false by lia. cbv zeta.
  rewrite fl_length_encode by exact Hne. cbv zeta.
  set (es := map (fl_prepare (fl_mant_bits prec)) ds).
  set (nc := length (fl_normals es)). set (mb := fl_mant_bits prec).
  set (lx := length (fl_exps (fl_exp_mode mode es) es)).
  set (ls := length (fl_specials es)). set (n := length ds) in *.
  destruct (0 <? nc)%nat eqn:C.
  - replace (0 <? N.of_nat nc) with true by lia.
    assert (E : N.of_nat nc * mb = N.of_nat (nc * N.to_nat mb)) by (rewrite Nat2N.inj_mul, N2Nat.id; reflexivity).
    rewrite E. set (a := (nc * N.to_nat mb)%nat). lia.
  - replace (0 <? N.of_nat nc) with false by lia. lia.
Qed.

(* C03: never more than the advertised maximum *)
Theorem fl_encode_bound ds prec mode :
  Forall (fun d => d < 18446744073709551616) ds ->
  N.of_nat (length ds) < 288230376151711744 ->
  N.of_nat (length (fl_encode ds prec mode)) <= fl_max_encoded_size (N.of_nat (length ds)) prec.
Proof.
  intros Hds Hcnt. destruct (list_eq_dec N.eq_dec ds []) as [->|Hne]; [cbn; lia|].
  assert (Hn : length ds <> O) by (destruct ds; [contradiction|discriminate]).
  rewrite fl_length_encode by exact Hne. cbv zeta.
  set (mb := fl_mant_bits prec). set (es := map (fl_prepare mb) ds).
  assert (Hok : Forall fl_elem_ok es).
  { unfold es. apply Forall_forall. intros e He. apply in_map_iff in He. destruct He as (d & <- & Hd).
    apply fl_prepare_ok. rewrite Forall_forall in Hds. exact (Hds d Hd). }
  pose proof (fl_length_exps (fl_exp_mode mode es) es Hok) as LX.
  pose proof (fl_normals_specials es) as Hc.
  replace (length es) with (length ds) in Hc by (symmetry; apply map_length).
  set (nc := length (fl_normals es)) in *. set (ls := length (fl_specials es)) in *.
  set (lx := length (fl_exps (fl_exp_mode mode es) es)) in *. set (n := length ds) in *.
  assert (Hmb : mb <= 52) by (destruct (fl_mant_bits_cases prec) as [E|[E|[E|E]]]; unfold mb; rewrite E; lia).
  assert (LM : ((if (0 <? nc)%nat then (nc * N.to_nat mb + 7) / 8 else 0) <= (n * N.to_nat mb + 7) / 8)%nat).
  { destruct (0 <? nc)%nat; [|lia]. apply Nat.div_le_mono; [lia|].
    apply Nat.add_le_mono_r. apply Nat.mul_le_mono_r. lia. }
  set (lm := (if (0 <? nc)%nat then ((nc * N.to_nat mb + 7) / 8)%nat else 0%nat)) in *.
  assert (E : N.of_nat (n * N.to_nat mb) = mb * N.of_nat n) by (rewrite Nat2N.inj_mul, N2Nat.id; lia).
  set (a := (n * N.to_nat mb)%nat) in *.
  unfold fl_max_encoded_size, add64, mul64, shr. fold mb.
  replace (N.of_nat n =? 0) with false by lia. cbv zeta.
  change (2 ^ 3) with 8.
  assert (mb * N.of_nat n < 52 * 288230376151711744 + 1) by nia.
  rewrite (N.mod_small (mb * N.of_nat n)) by lia.
  rewrite !N.mod_small by lia.
  lia.
Qed.
