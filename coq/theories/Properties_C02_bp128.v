(* Properties_C02_bp128.v — varintBP128 contribution to C02.  Only statements closed by
   `exact`, each followed by Print Assumptions. *)
Require Import VV.Base VV.Tagged VV.BP128.
Local Open Scope N_scope.
