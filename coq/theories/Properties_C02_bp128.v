(* Properties_C02_bp128.v — varintBP128 contribution to C02 (integer-array codecs
   are lossless).  Only statements closed by `exact`, each followed by
   Print Assumptions.

   Reading guide: an encoder returns the bytes it wrote; `decodeK z cap` is the
   C decoder called on a buffer starting with the bytes z (bytes past the end
   of z read as 0) with maxCount = cap; `Some out` = it returned length out and
   stored out[0..].  Quantifying over an arbitrary suffix `tl` after the
   encoder's bytes states that the decoder needs only the bytes the encoder
   reported writing (the `_reads_inside` corollaries say it in the
   non-interference form).  The delta codecs need NO ordering hypothesis: both
   sides compute differences / prefix sums modulo 2^32 (2^64), so the round
   trip holds for every input, in particular for non-decreasing ones. *)
Require Import VV.Base VV.Tagged VV.BP128 VV.BP128Proofs32 VV.BP128ProofsD32 VV.BP128Proofs64 VV.BP128ProofsD64.
Local Open Scope N_scope.

(* --- single 128-value blocks (varintBP128EncodeBlock32 / DecodeBlock32) --- *)
Theorem C02_bp128_block32_roundtrip : forall vs tl,
  length vs = 128%nat -> Forall (fun v => v < 2 ^ 32) vs ->
  decode_block32 (encode_block32 vs ++ tl) = Some (vs, N.of_nat (length (encode_block32 vs))).
Proof. exact block32_roundtrip. Qed.
Print Assumptions C02_bp128_block32_roundtrip.

Theorem C02_bp128_delta_block32_roundtrip : forall vs prev tl,
  length vs = 128%nat -> Forall (fun v => v < 2 ^ 32) vs -> prev < 2 ^ 32 ->
  delta_decode_block32 (delta_encode_block32 vs prev ++ tl) prev =
    Some (vs, N.of_nat (length (delta_encode_block32 vs prev))).
Proof. exact delta_block32_roundtrip. Qed.
Print Assumptions C02_bp128_delta_block32_roundtrip.

(* --- varintBP128Encode32 / Decode32, every length (0 included) --- *)
Theorem C02_bp128_encode32_roundtrip : forall vs tl,
  Forall (fun v => v < 2 ^ 32) vs ->
  decode32 (encode32 vs ++ tl) (N.of_nat (length vs)) = Some vs.
Proof. exact decode32_roundtrip. Qed.
Print Assumptions C02_bp128_encode32_roundtrip.

Theorem C02_bp128_encode32_reads_inside : forall vs z,
  Forall (fun v => v < 2 ^ 32) vs ->
  firstn (length (encode32 vs)) z = encode32 vs ->
  decode32 z (N.of_nat (length vs)) = Some vs.
Proof. exact decode32_reads_inside. Qed.
Print Assumptions C02_bp128_encode32_reads_inside.

(* --- varintBP128DeltaEncode32 / DeltaDecode32, every length >= 1, any order --- *)
Theorem C02_bp128_delta32_roundtrip : forall vs tl,
  vs <> [] -> Forall (fun v => v < 2 ^ 32) vs ->
  delta_decode32 (delta_encode32 vs ++ tl) (N.of_nat (length vs)) = Some vs.
Proof. exact delta_decode32_roundtrip. Qed.
Print Assumptions C02_bp128_delta32_roundtrip.

Theorem C02_bp128_delta32_reads_inside : forall vs z,
  vs <> [] -> Forall (fun v => v < 2 ^ 32) vs ->
  firstn (length (delta_encode32 vs)) z = delta_encode32 vs ->
  delta_decode32 z (N.of_nat (length vs)) = Some vs.
Proof. exact delta_decode32_reads_inside. Qed.
Print Assumptions C02_bp128_delta32_reads_inside.

(* --- varintBP128Encode64 / Decode64, every length >= 1 (count < 2^64) --- *)
Theorem C02_bp128_encode64_roundtrip : forall vs tl,
  vs <> [] -> N.of_nat (length vs) < 2 ^ 64 -> Forall (fun v => v < 2 ^ 64) vs ->
  decode64 (encode64 vs ++ tl) (N.of_nat (length vs)) = Some vs.
Proof. exact decode64_roundtrip. Qed.
Print Assumptions C02_bp128_encode64_roundtrip.

Theorem C02_bp128_encode64_reads_inside : forall vs z,
  vs <> [] -> N.of_nat (length vs) < 2 ^ 64 -> Forall (fun v => v < 2 ^ 64) vs ->
  firstn (length (encode64 vs)) z = encode64 vs ->
  decode64 z (N.of_nat (length vs)) = Some vs.
Proof. exact decode64_reads_inside. Qed.
Print Assumptions C02_bp128_encode64_reads_inside.

(* --- varintBP128DeltaEncode64 / DeltaDecode64, every length >= 1, any order --- *)
Theorem C02_bp128_delta64_roundtrip : forall vs tl,
  vs <> [] -> Forall (fun v => v < 2 ^ 64) vs ->
  delta_decode64 (delta_encode64 vs ++ tl) (N.of_nat (length vs)) = Some vs.
Proof. exact delta_decode64_roundtrip. Qed.
Print Assumptions C02_bp128_delta64_roundtrip.

Theorem C02_bp128_delta64_reads_inside : forall vs z,
  vs <> [] -> Forall (fun v => v < 2 ^ 64) vs ->
  firstn (length (delta_encode64 vs)) z = delta_encode64 vs ->
  delta_decode64 z (N.of_nat (length vs)) = Some vs.
Proof. exact delta_decode64_reads_inside. Qed.
Print Assumptions C02_bp128_delta64_reads_inside.

(* non-vacuity: concrete encodings (the F06 worst cases among them) *)
Example C02_bp128_example :
  encode64 [18446744073709551615] = [1; 192; 1; 255; 255; 255; 255; 255; 255; 255; 255] /\
  decode64 (encode64 [18446744073709551615]) 1 = Some [18446744073709551615] /\
  encode32 [5] = [131; 1; 5] /\
  delta_decode32 (delta_encode32 [300; 301; 301; 4294967295; 0]) 5 = Some [300; 301; 301; 4294967295; 0] /\
  delta_decode64 (delta_encode64 [72057594037927936; 9295429630892703744]) 2
    = Some [72057594037927936; 9295429630892703744].
Proof. vm_compute. repeat split; reflexivity. Qed.
