(* BitmapProofsIter.v — C08: the iterator.  Calling varintBitmapIteratorNext until
   it returns false produces exactly bm_iter_all s (= bm_to_array s), the
   ascending duplicate-free list of the members, for every container. *)
Require Import VV.Base VV.BaseProofs VV.Bitmap VV.BitmapLemmas VV.BitmapProofsBits VV.BitmapProofsArr
  VV.BitmapProofsRuns VV.BitmapProofs VV.BitmapProofsSer.
From Coq Require Import Lia ZifyBool ZifyN ZifyNat Sorted Arith.
Local Open Scope N_scope.
Ltac Zify.zify_post_hook ::= Z.div_mod_to_equations.

Lemma skipn_cons_nth (l : list N) p : (p < length l)%nat -> skipn p l = nth p l 0 :: skipn (S p) l.
Proof.
  revert p. induction l as [|x l IH]; intros p H; [cbn in H; lia|].
  destruct p as [|p]; [reflexivity|]. cbn [skipn nth]. apply IH. cbn in H. lia.
Qed.

Lemma skipn_nseq lo n k : skipn k (nseq lo n) = nseq (lo + N.of_nat k) (n - k).
Proof.
  revert lo n. induction k as [|k IH]; intros lo n.
  - cbn [skipn]. rewrite Nat.sub_0_r. f_equal. lia.
  - destruct n as [|n]; [reflexivity|]. cbn [nseq skipn Nat.sub]. rewrite IH. f_equal. lia.
Qed.

(* ---------------- ARRAY ---------------- *)
Lemma iter_run_array card R cap : arr_ok card R cap ->
  forall fuel p cur has, p <= card -> (N.to_nat (card - p) < fuel)%nat ->
  bm_iter_run fuel (mkBM card (BmArray R cap)) (mkBmIt p cur has) = skipn (N.to_nat p) (rev R).
Proof.
  intros (Hc & _). induction fuel as [|f IH]; intros p cur has Hp Hf; [lia|].
  cbn [bm_iter_run]. unfold bm_iter_next. cbn [bm_c bm_card bm_it_pos bm_it_cur].
  destruct (p <? card) eqn:E; cbn [snd fst bm_it_cur].
  - rewrite IH by lia. rewrite nthN_spec.
    assert (Hl : (N.to_nat p < length (rev R))%nat) by (rewrite rev_length; unfold bm_lenN in Hc; lia).
    rewrite (skipn_cons_nth (rev R) (N.to_nat p) Hl). f_equal.
    + rewrite rev_nth by (rewrite rev_length in Hl; exact Hl). f_equal. unfold bm_lenN in Hc. lia.
    + f_equal. lia.
  - rewrite skipn_all2; [reflexivity|]. rewrite rev_length. unfold bm_lenN in Hc. lia.
Qed.

(* ---------------- RUNS ---------------- *)
Lemma runs_ok_skipn lo runs k r rest : runs_ok lo runs -> skipn k runs = r :: rest ->
  exists lo', runs_ok lo' (r :: rest).
Proof.
  revert lo k. induction runs as [|q t IH]; intros lo k H E.
  - rewrite skipn_nil in E. discriminate E.
  - destruct k as [|k]; [cbn [skipn] in E; inversion E; subst; exists lo; exact H|].
    cbn [skipn] in E. destruct H as (_ & _ & _ & D). apply (IH _ _ D E).
Qed.

Lemma skipn_S_tail {A} (l : list A) k x t : skipn k l = x :: t -> skipn (S k) l = t.
Proof.
  revert k. induction l as [|y l IH]; intros k E; [rewrite skipn_nil in E; discriminate E|].
  destruct k as [|k]; [cbn [skipn] in *; inversion E; reflexivity|]. cbn [skipn] in *. apply IH. exact E.
Qed.

Lemma skipn_nonnil_lt {A} (l : list A) k x t : skipn k l = x :: t -> (k < length l)%nat.
Proof.
  intro E. destruct (Nat.lt_ge_cases k (length l)) as [L|G]; [exact L|]. rewrite skipn_all2 in E by exact G. discriminate E.
Qed.

Lemma pos_split ri off : off < 65536 ->
  N.shiftr (ri * 65536 + off) 16 = ri /\ N.land (ri * 65536 + off) 65535 = off.
Proof.
  intro H. rewrite N.shiftr_div_pow2. change 65535 with (N.ones 16). rewrite N.land_ones.
  change (2 ^ 16) with 65536. lia.
Qed.

Lemma iter_run_runs card runs cap : runs_inv card runs cap ->
  forall fuel ri off cur has r rest,
  skipn ri runs = r :: rest -> off <= snd r ->
  (N.to_nat (snd r - off) + length (bm_runs_values rest) < fuel)%nat ->
  bm_iter_run fuel (mkBM card (BmRuns runs cap)) (mkBmIt (N.of_nat ri * 65536 + off) cur has)
  = skipn (N.to_nat off) (bm_run_vals r) ++ bm_runs_values rest.
Proof.
  intros (Hr & Hc & _).
  assert (Hn : bm_lenN runs <= 65536).
  { pose proof (runs_count_le 0 runs Hr). pose proof (runs_sum_le 0 runs Hr). lia. }
  induction fuel as [|f IH]; intros ri off cur has r rest E Hoff Hf; [lia|].
  destruct (runs_ok_skipn 0 runs ri r rest Hr E) as (lo' & A & B & C & D).
  pose proof (skipn_nonnil_lt runs ri r rest E) as Hri. unfold bm_lenN in Hn.
  cbn [bm_iter_run]. unfold bm_iter_next. cbn [bm_c bm_card bm_it_pos bm_it_cur].
  destruct (pos_split (N.of_nat ri) off) as [P1 P2]; [lia|]. rewrite P1, P2.
  rewrite skipnN_spec, Nat2N.id, E. destruct r as [s l]. cbn [fst snd] in *. cbn [bm_runs_next].
  destruct (off <? l) eqn:E1.
  - (* inside the run *)
    rewrite u32_small, u16_small by lia. cbn [snd fst bm_it_cur].
    replace (N.of_nat ri * 65536 + off + 1) with (N.of_nat ri * 65536 + (off + 1)) by lia.
    rewrite (IH ri (off + 1) _ _ (s, l) rest E) by (cbn [snd]; lia).
    rewrite !run_vals_spec by (cbn [fst snd]; lia). cbn [fst snd]. rewrite !skipn_nseq.
    replace (N.to_nat l - N.to_nat off)%nat with (S (N.to_nat l - N.to_nat (off + 1))) by lia.
    cbn [nseq app]. f_equal; [lia|]. f_equal. f_equal. lia.
  - (* run exhausted: on to the next one *)
    assert (off = l) by lia. subst off.
    rewrite run_vals_spec by (cbn [fst snd]; lia). cbn [fst snd]. rewrite skipn_nseq, Nat.sub_diag. cbn [nseq app].
    destruct rest as [|[s2 l2] rest2].
    + cbn [bm_runs_next snd]. reflexivity.
    + destruct D as (A2 & B2 & C2 & D2). cbn [fst snd] in *. cbn [bm_runs_next].
      destruct (0 <? l2) eqn:E2; [|lia].
      assert (Hri2 : (S ri < length runs)%nat).
      { apply (skipn_nonnil_lt runs (S ri) (s2, l2) rest2). apply (skipn_S_tail runs ri (s, l)). exact E. }
      rewrite u32_small, u16_small by lia. cbn [snd fst bm_it_cur].
      replace ((N.of_nat ri + 1) * 65536 + 0 + 1) with (N.of_nat (S ri) * 65536 + 1) by lia.
      assert (Hlen : length (bm_runs_values ((s2, l2) :: rest2)) = (N.to_nat l2 + length (bm_runs_values rest2))%nat).
      { cbn [bm_runs_values flat_map]. fold (bm_runs_values rest2). rewrite app_length, run_vals_spec by (cbn [fst snd]; lia).
        cbn [fst snd]. rewrite nseq_length. reflexivity. }
      rewrite (IH (S ri) 1 _ _ (s2, l2) rest2 (skipn_S_tail runs ri (s, l) _ E)) by (cbn [snd]; lia).
      cbn [bm_runs_values flat_map]. fold (bm_runs_values rest2).
      rewrite run_vals_spec by (cbn [fst snd]; lia). cbn [fst snd]. rewrite skipn_nseq.
      replace (N.to_nat l2) with (S (N.to_nat l2 - N.to_nat 1)) at 2 by lia. cbn [nseq app].
      replace (s2 + 0) with s2 by lia. reflexivity.
Qed.

(* ---------------- BITMAP ---------------- *)
Lemma first_bit_spec byte from : forall k b i, (forall t, N.testbit b t = N.testbit byte (i + t)) ->
  match bm_first_bit k b from i with
  | Some j => from <= j /\ i <= j < i + N.of_nat k /\ N.testbit byte j = true /\
              (forall t, i <= t < j -> from <= t -> N.testbit byte t = false)
  | None => forall t, i <= t < i + N.of_nat k -> from <= t -> N.testbit byte t = false
  end.
Proof.
  induction k as [|k IH]; intros b i Hb; cbn [bm_first_bit].
  - intros t Ht. lia.
  - destruct ((from <=? i) && N.odd b) eqn:E.
    + apply andb_prop in E. destruct E as [E1 E2].
      assert (H : N.testbit byte i = true).
      { replace i with (i + 0) by lia. rewrite <- Hb, N.bit0_odd. exact E2. }
      repeat split; try lia. exact H.
    + assert (Hb' : forall t, N.testbit (N.div2 b) t = N.testbit byte (N.succ i + t)).
      { intro t. rewrite testbit_div2, Hb. f_equal. lia. }
      specialize (IH (N.div2 b) (N.succ i) Hb').
      assert (Hi : from <= i -> N.testbit byte i = false).
      { intro Hfi. replace i with (i + 0) by lia. rewrite <- Hb, N.bit0_odd.
        destruct (N.odd b); [|reflexivity]. rewrite andb_true_r in E. lia. }
      destruct (bm_first_bit k (N.div2 b) from (N.succ i)) as [j|].
      * destruct IH as (I1 & I2 & I3 & I4). repeat split; try lia; [exact I3|].
        intros t Ht Hft. destruct (N.eq_dec t i) as [->|Hne]; [apply Hi; exact Hft|apply I4; lia].
      * intros t Ht Hft. destruct (N.eq_dec t i) as [->|Hne]; [apply Hi; exact Hft|apply IH; lia].
Qed.

(* the scan over the bytes j0, j0+1, ..., j0+n-1 starting at bit `from` of byte j0 *)
Lemma scan_bits_spec m : forall n j0 from, from < 8 ->
  let q := bm_scan_bits m (nseq j0 n) from in
  (q = 65536 /\ forall x, 8 * j0 + from <= x < 8 * (j0 + N.of_nat n) -> bit_of m x = false) \/
  (8 * j0 + from <= q < 8 * (j0 + N.of_nat n) /\ bit_of m q = true /\
   forall x, 8 * j0 + from <= x < q -> bit_of m x = false).
Proof.
  induction n as [|n IH]; intros j0 from Hfrom; cbn [nseq bm_scan_bits]; cbv zeta.
  - left. split; [reflexivity|]. intros x Hx. lia.
  - pose proof (first_bit_spec (bm_mget m j0) from 8 (bm_mget m j0) 0 (fun t => eq_refl)) as F.
    assert (Hbit : forall x, x / 8 = j0 -> bit_of m x = N.testbit (bm_mget m j0) (x mod 8)).
    { intros x Hx. unfold bit_of. rewrite Hx. reflexivity. }
    destruct (bm_first_bit 8 (bm_mget m j0) from 0) as [k|].
    + destruct F as (F1 & F2 & F3 & F4). right. change (N.of_nat 8) with 8 in F2. repeat split; try lia.
      * rewrite Hbit by lia. replace ((j0 * 8 + k) mod 8) with k by lia. exact F3.
      * intros x Hx. rewrite Hbit by lia. apply F4; lia.
    + change (N.of_nat 8) with 8 in F.
      assert (Hfirst : forall x, 8 * j0 + from <= x < 8 * (j0 + 1) -> bit_of m x = false).
      { intros x Hx. rewrite Hbit by lia. apply F; lia. }
      specialize (IH (j0 + 1) 0). cbv zeta in IH.
      destruct IH as [[Q1 Q2]|(Q1 & Q2 & Q3)]; [lia| |].
      * left. split; [exact Q1|]. intros x Hx.
        destruct (N.lt_ge_cases x (8 * (j0 + 1))) as [L|G]; [apply Hfirst; lia|apply Q2; lia].
      * right. repeat split; try lia; [exact Q2|]. intros x Hx.
        destruct (N.lt_ge_cases x (8 * (j0 + 1))) as [L|G]; [apply Hfirst; lia|apply Q3; lia].
Qed.

Lemma filter_none {A} (f : A -> bool) l : (forall x, In x l -> f x = false) -> filter f l = [].
Proof.
  induction l as [|x l IH]; intro H; [reflexivity|]. cbn [filter]. rewrite (H x (or_introl eq_refl)).
  apply IH. intros y Hy. apply H. right. exact Hy.
Qed.

Lemma filter_all {A} (f : A -> bool) l : (forall x, In x l -> f x = true) -> filter f l = l.
Proof.
  induction l as [|x l IH]; intro H; [reflexivity|]. cbn [filter]. rewrite (H x (or_introl eq_refl)).
  f_equal. apply IH. intros y Hy. apply H. right. exact Hy.
Qed.

Lemma filter_next (l : list N) p q : sorted l -> In q l -> p <= q -> (forall x, In x l -> p <= x -> q <= x) ->
  filter (N.leb p) l = q :: filter (N.leb (q + 1)) l.
Proof.
  intros Hs Hq Hpq Hmin. apply sorted_ext.
  - apply sorted_filter. exact Hs.
  - constructor; [apply sorted_filter; exact Hs|]. apply Forall_forall. intros y Hy.
    apply filter_In in Hy. destruct Hy as [_ Hy]. lia.
  - intro x. cbn [In]. rewrite !filter_In. split.
    + intros [Hx Hpx]. destruct (N.eq_dec x q) as [->|Hne]; [left; reflexivity|right].
      split; [exact Hx|]. specialize (Hmin x Hx). lia.
    + intros [<-|[Hx Hqx]]; [split; [exact Hq|lia]|split; [exact Hx|lia]].
Qed.

Lemma iter_run_bits card m : bits_ok card m ->
  forall fuel p cur has, p <= 65536 ->
  (length (filter (N.leb p) (bm_bits_values m)) < fuel)%nat ->
  bm_iter_run fuel (mkBM card (BmBits m)) (mkBmIt p cur has) = filter (N.leb p) (bm_bits_values m).
Proof.
  intros _. induction fuel as [|f IH]; intros p cur has Hp Hf; [lia|].
  cbn [bm_iter_run]. unfold bm_iter_next. cbn [bm_c bm_card bm_it_pos bm_it_cur].
  destruct (p <? 65536) eqn:E.
  - rewrite skipnN_spec, byte_idx_spec, skipn_nseq, N.add_0_l, N2Nat.id.
    pose proof (scan_bits_spec m (N.to_nat 8192 - N.to_nat (p / 8)) (p / 8) (p mod 8) (mod8_lt p)) as S. cbv zeta in S.
    set (q := bm_scan_bits m _ _) in *.
    replace (8 * (p / 8) + p mod 8) with p in S by lia.
    replace (8 * (p / 8 + N.of_nat (N.to_nat 8192 - N.to_nat (p / 8)))) with 65536 in S by lia.
    destruct S as [[Q1 Q2]|(Q1 & Q2 & Q3)].
    + rewrite Q1. cbn [N.ltb N.compare Pos.compare Pos.compare_cont snd]. change (65536 <? 65536) with false. cbn [snd].
      symmetry. apply filter_none. intros x Hx. apply (proj1 (in_bits_values m x)) in Hx. destruct Hx as [Hx1 Hx2].
      destruct (p <=? x) eqn:Epx; [|reflexivity]. rewrite Q2 in Hx2 by lia. discriminate Hx2.
    + destruct (q <? 65536) eqn:Eq; [|lia]. cbn [snd fst bm_it_cur].
      assert (Hnext : filter (N.leb p) (bm_bits_values m) = q :: filter (N.leb (q + 1)) (bm_bits_values m)).
      { apply filter_next; [apply sorted_bits_values|apply (proj2 (in_bits_values m q)); split; [lia|exact Q2]|lia|].
        intros x Hx Hpx. apply (proj1 (in_bits_values m x)) in Hx. destruct Hx as [_ Hx2].
        destruct (N.lt_ge_cases x q) as [L|G]; [|exact G]. rewrite Q3 in Hx2 by lia. discriminate Hx2. }
      rewrite Hnext in *. cbn [length] in Hf. rewrite IH by lia. reflexivity.
  - change (if p <? 65536 then _ else p) with p. rewrite E. cbn [snd].
    symmetry. apply filter_none. intros x Hx. apply (proj1 (in_bits_values m x)) in Hx. lia.
Qed.

(* ---------------- all containers ---------------- *)
Theorem iter_run_all s fuel : bm_Inv s -> (length (bm_iter_all s) < fuel)%nat ->
  bm_iter_run fuel s bm_iter_init = bm_iter_all s.
Proof.
  intros H Hf. destruct s as [card c]. unfold bm_Inv in H. unfold bm_iter_all in *. cbn [bm_c bm_card] in *.
  unfold bm_iter_init. destruct c as [R cap|m|runs cap].
  - rewrite arr_values_rev in *. rewrite (iter_run_array card R cap H); [reflexivity|lia|].
    destruct H as (Hc & _). rewrite rev_length in Hf. unfold bm_lenN in Hc. lia.
  - rewrite (iter_run_bits card m H).
    + apply filter_all. intros x _. apply N.leb_le. lia.
    + lia.
    + rewrite filter_all by (intros x _; apply N.leb_le; lia). exact Hf.
  - destruct runs as [|r rest].
    + destruct fuel; [lia|]. reflexivity.
    + change 0 with (N.of_nat 0 * 65536 + 0). rewrite (iter_run_runs card (r :: rest) cap H fuel 0 0 _ _ r rest).
      * reflexivity.
      * reflexivity.
      * lia.
      * cbn [bm_runs_values flat_map] in Hf. fold (bm_runs_values rest) in Hf. rewrite app_length in Hf.
        destruct H as ((A & B & C & D) & _). rewrite run_vals_spec in Hf by exact C. rewrite nseq_length in Hf. lia.
Qed.
