(* LeafSrcGroup.v — the regenerated renderings (coq/gen/Src_leaf_group.v, produced
   by gen/c2coq.py from the current src/varintGroup.c) of varintGroupBitmapSize_,
   varintGroupWidthDecode_, varintGroupWidthEncode_, varintGroupGetFieldWidth and
   varintGroupGetSize compute what the hand model (Group.v) computes; and the
   group theorems of property C16 restated about them.

   Proof style (CSemProofs.v): the case analysis follows the MODEL (field index
   mod 4, the 2-bit code of the field), every `if` of the unfolded term is
   decided wherever it stands; one-byte functions are swept.  The loop of
   varintGroupGetSize is handled by the invariant lemma c_while_count over the
   loop's step function, whatever its text is. *)
Require Import VV.Base VV.BaseProofs VV.Delta VV.Group VV.GroupProofs VV.DfgLemmas VV.CSem VV.CSemProofs VV.LeafSrcLemmas.
Require Import VVgen.Consts VVgen.Src_leaf_group.
From Coq Require Import Lia ZifyBool ZifyN ZifyNat.
Local Open Scope Z_scope.
Ltac Zify.zify_post_hook ::= Z.div_mod_to_equations.

Lemma src_varintGroupBitmapSize__is_model : forall fc, 0 <= fc < 256 ->
  src_varintGroupBitmapSize_ fc = COk (Z.of_N (group_bitmap_size (Z.to_N fc))).
Proof.
  intros fc H. unfold group_bitmap_size, VARINT_GROUP_WIDTH_BITS.
  unfold src_varintGroupBitmapSize_. c_run. f_equal. 
  lia.
Qed.

Lemma wdec_sweep :
  forallb (fun b => cres_eqb Z.eqb (src_varintGroupWidthDecode_ (Z.of_N b)) (COk (Z.of_N (group_width_decode b))))
          bytes256 = true.
Proof. vm_compute. reflexivity. Qed.

Lemma src_varintGroupWidthDecode__is_model : forall e, 0 <= e < 256 ->
  src_varintGroupWidthDecode_ e = COk (Z.of_N (group_width_decode (Z.to_N e))).
Proof.
  intros e H. apply (cres_eqb_ok Z.eqb); [intros u v; apply Z.eqb_eq|].
  rewrite <- (Z2N.id e) at 1 by lia.
  apply (byte_sweep _ wdec_sweep). lia.
Qed.

Lemma group_width_encode_other n : (n = 0 \/ 8 < n)%N -> group_width_encode n = 3%N.
Proof.
  intro H. destruct n as [|p]; [reflexivity|].
  unfold group_width_encode.
  repeat (destruct p as [p|p|]; try reflexivity; try lia).
Qed.

Lemma src_varintGroupWidthEncode__is_model : forall w, 0 <= w < 4294967296 ->
  src_varintGroupWidthEncode_ w = COk (Z.of_N (group_width_encode (Z.to_N w))).
Proof.
  intros w H.
  assert (C : w = 1 \/ w = 2 \/ w = 3 \/ w = 4 \/ w = 5 \/ w = 6 \/ w = 7 \/ w = 8 \/ (w = 0 \/ 8 < w)) by lia.
  repeat (destruct C as [C|C]; [subst w; vm_compute; reflexivity|]).
  rewrite group_width_encode_other by lia.
  unfold src_varintGroupWidthEncode_. c_run. reflexivity.
Qed.

Lemma group_field_code_arith src i :
  group_field_code src i = ((byte_at src (N.to_nat (1 + i / 4)) / 4 ^ (i mod 4)) mod 4)%N.
Proof.
  unfold group_field_code, VARINT_GROUP_WIDTH_BITS, VARINT_GROUP_WIDTH_MASK. cbv zeta.
  replace (i * 2 / 8)%N with (i / 4)%N by lia.
  apply (fcode_eq (byte_at src (N.to_nat (1 + i / 4))) i).
Qed.

Lemma group_width_decode_pow c : (c < 4)%N -> group_width_decode c = (2 ^ c)%N.
Proof.
  intro H. assert (C : (c = 0 \/ c = 1 \/ c = 2 \/ c = 3)%N) by lia.
  destruct C as [C|[C|[C|C]]]; subst c; reflexivity.
Qed.

(* a shift count / exponent that the context pins to one of the even bit offsets of a byte *)
Ltac pow_norm :=
  repeat match goal with
  | |- context [2 ^ ?e] =>
      is_open e;
      first [ replace e with 0 by lia | replace e with 2 by lia
            | replace e with 4 by lia | replace e with 6 by lia ]
  end.

(* the index of a load, as the model writes it *)
Ltac idx_norm src t :=
  repeat match goal with
  | |- context [byte_at src (Z.to_nat ?e)] => replace (Z.to_nat e) with t by lia
  end.


Lemma src_varintGroupGetFieldWidth_is_model : forall src i, 0 <= i < 256 ->
  (1 <= length src)%nat ->
  ((Z.to_N i < byte_at src 0)%N -> (1 + Z.to_nat i / 4 < length src)%nat) ->
  src_varintGroupGetFieldWidth src i = COk (Z.of_N (group_get_field_width src (Z.to_N i))).
Proof.
  intros src i Hi L1 L2.
  unfold group_get_field_width. cbv zeta. rewrite group_field_code_arith.
  remember (byte_at src (N.to_nat (1 + Z.to_N i / 4))) as b eqn:Hb.
  assert (Hc : ((b / 4 ^ (Z.to_N i mod 4)) mod 4 < 4)%N) by (apply N.mod_lt; lia).
  rewrite group_width_decode_pow by exact Hc.
  assert (K : i mod 4 = 0 \/ i mod 4 = 1 \/ i mod 4 = 2 \/ i mod 4 = 3) by lia.
  destruct ((byte_at src 0 =? 0)%N || (byte_at src 0 <=? Z.to_N i)%N) eqn:E0.
  - unfold src_varintGroupGetFieldWidth. c_run. all: try reflexivity; exfalso; lia.
  - assert (L3 : (1 + Z.to_nat i / 4 < length src)%nat) by (apply L2; lia).
    destruct K as [K|[K|[K|K]]].
    all: replace (Z.to_N i mod 4)%N with (Z.to_N (i mod 4)) in * by lia; rewrite K in *.
    all: cbn [Z.to_N] in *; npow_eval.
    all: match goal with |- context [(2 ^ ?c)%N] => 
           let C := fresh "C" in assert (C : (c = 0 \/ c = 1 \/ c = 2 \/ c = 3)%N) by lia;
           destruct C as [C|[C|[C|C]]]; rewrite C end.
    all: npow_eval.
    all: unfold src_varintGroupGetFieldWidth; c_unfold.
    all: repeat (c_simp; idx_norm src (N.to_nat (1 + Z.to_N i / 4)); rewrite <- ?Hb; pow_norm; closed_eval; land_to_mod; c_step).
    all: c_simp.
    all: reflexivity.
Qed.

Lemma group_widths_snoc src : forall m j,
  group_widths src j (S m) = group_widths src j m ++ [group_width_decode (group_field_code src (j + N.of_nat m))].
Proof.
  induction m as [|m IH]; intro j.
  - cbn [group_widths app]. replace (j + N.of_nat 0)%N with j by lia. reflexivity.
  - change (group_widths src j (S (S m))) with
      (group_width_decode (group_field_code src j) :: group_widths src (j + 1) (S m)).
    rewrite IH. cbn [group_widths app]. replace (j + N.of_nat (S m))%N with (j + 1 + N.of_nat m)%N by lia. reflexivity.
Qed.

Lemma group_sum_widths_le src : forall m j, (group_sum (group_widths src j m) <= 8 * N.of_nat m)%N.
Proof.
  induction m as [|m IH]; intro j; cbn [group_widths group_sum]; [lia|].
  pose proof (group_width_decode_cases (group_field_code src j)). specialize (IH (j + 1)%N). lia.
Qed.

(* fuel: one iteration per field and the final test; 64 fields at most.
   Domain: the count byte and, for an accepted count, the whole width bitmap are inside the object *)
Lemma src_varintGroupGetSize_is_model : forall fuel src, (64 < fuel)%nat ->
  (1 <= length src)%nat ->
  ((1 <= byte_at src 0 <= 64)%N -> (1 + group_bitmap_size (byte_at src 0) <= N.of_nat (length src))%N) ->
  src_varintGroupGetSize fuel src = COk (Z.of_N (group_get_size src)).
Proof.
  intros fuel src Hf L1 L2.
  unfold group_get_size, VARINT_GROUP_MAX_FIELDS. cbv zeta.
  destruct ((byte_at src 0 =? 0)%N || (64 <? byte_at src 0)%N) eqn:E0.
  - unfold src_varintGroupGetSize. c_run. all: try reflexivity; exfalso; lia.
  - assert (Hc : (1 <= byte_at src 0 <= 64)%N) by lia. specialize (L2 Hc).
    unfold group_bitmap_size, VARINT_GROUP_WIDTH_BITS in *.
    remember (byte_at src 0) as count eqn:Hcount.
    set (st := fun k : nat => (Z.of_nat k, Z.of_N count,
                 Z.of_N (1 + (count * 2 + 7) / 8 + group_sum (group_widths src 0 k)))).
    unfold src_varintGroupGetSize.
    match goal with |- context [c_while _ ?s _] => set (STEP := s) end.
    assert (Hstep : forall k, (k < N.to_nat count)%nat -> STEP (st k) = COk (LNext (st (S k)))).
    { intros k Hk. unfold st. rewrite group_widths_snoc, group_sum_app. cbn [group_sum].
      replace (0 + N.of_nat k)%N with (N.of_nat k) by lia.
      rewrite group_field_code_arith.
      remember (byte_at src (N.to_nat (1 + N.of_nat k / 4))) as b eqn:Hb.
      remember (group_sum (group_widths src 0 k)) as sum eqn:Hsum.
      assert (Hs : (sum <= 8 * N.of_nat k)%N) by (rewrite Hsum; apply group_sum_widths_le).
      assert (Hc4 : ((b / 4 ^ (N.of_nat k mod 4)) mod 4 < 4)%N) by (apply N.mod_lt; lia).
      rewrite group_width_decode_pow by exact Hc4.
      assert (K : (N.of_nat k mod 4 = 0 \/ N.of_nat k mod 4 = 1 \/ N.of_nat k mod 4 = 2 \/ N.of_nat k mod 4 = 3)%N) by lia.
      destruct K as [K|[K|[K|K]]]; rewrite K in *.
      all: npow_eval.
      all: match goal with |- context [(2 ^ ?c)%N] =>
             let C := fresh "C" in assert (C : (c = 0 \/ c = 1 \/ c = 2 \/ c = 3)%N) by lia;
             destruct C as [C|[C|[C|C]]]; rewrite C end.
      all: npow_eval.
      all: subst STEP; c_unfold.
      all: repeat (c_simp; idx_norm src (N.to_nat (1 + N.of_nat k / 4)); rewrite <- ?Hb; pow_norm; closed_eval; land_to_mod; c_step).
      all: c_simp.
      all: apply cok_lnext3; lia. }
    assert (Hbrk : STEP (st (N.to_nat count)) = COk (LBreak (st (N.to_nat count)))).
    { unfold st. subst STEP. c_run. reflexivity. }
    c_run. all: try (exfalso; lia).
    match goal with |- context [c_while _ STEP ?s0] =>
      replace s0 with (st 0%nat) by (unfold st; cbn [group_widths group_sum]; apply triple_eq; lia) end.
    rewrite (c_while_count STEP st (N.to_nat count) fuel Hstep Hbrk) by lia.
    unfold st. c_simp. reflexivity.
Qed.

