(* OomTheorems.v — the C18 theorems in their final form (generated layout, one per
   allocating API): for EVERY failure plan `plan : nat -> bool` and every value
   of the parameters, the skeleton ends in the documented failure with nothing
   live, or in the correct result with exactly the blocks the caller owns. *)
Require Import VV.Base VV.Oom VV.OomProofs.
From Coq Require Import ZArith List Bool.
Import ListNotations.

Lemma oom_thm_dict_create : forall (plan : nat -> bool),
  let r := arun_plan plan oom_dict_create_skel in
  (oom_val r = OomFail /\ oom_live r = 0%Z) \/ (oom_val r = OomOkCorrect /\ oom_live r = 2%Z).
Proof.
  intros plan . exact (asafe_sound _ _ _ plan oom_dict_create_safe).
Qed.

Lemma oom_thm_dict_build : forall (plan : nat -> bool) (grow : bool),
  let r := arun_plan plan (oom_dict_build_skel grow) in
  (oom_val r = OomFail /\ oom_live r = 0%Z) \/ (oom_val r = OomOkCorrect /\ oom_live r = 0%Z).
Proof.
  intros plan grow. exact (asafe_sound _ _ _ plan (oom_dict_build_safe grow)).
Qed.

Lemma oom_thm_dict_encode : forall (plan : nat -> bool) (grow : bool),
  let r := arun_plan plan (oom_dict_encode_skel grow) in
  (oom_val r = OomFail /\ oom_live r = 0%Z) \/ (oom_val r = OomOkCorrect /\ oom_live r = 0%Z).
Proof.
  intros plan grow. exact (asafe_sound _ _ _ plan (oom_dict_transient_safe grow)).
Qed.

Lemma oom_thm_dict_size : forall (plan : nat -> bool) (grow : bool),
  let r := arun_plan plan (oom_dict_size_skel grow) in
  (oom_val r = OomFail /\ oom_live r = 0%Z) \/ (oom_val r = OomOkCorrect /\ oom_live r = 0%Z).
Proof.
  intros plan grow. exact (asafe_sound _ _ _ plan (oom_dict_transient_safe grow)).
Qed.

Lemma oom_thm_dict_stats : forall (plan : nat -> bool) (grow : bool),
  let r := arun_plan plan (oom_dict_stats_skel grow) in
  (oom_val r = OomFail /\ oom_live r = 0%Z) \/ (oom_val r = OomOkCorrect /\ oom_live r = 0%Z).
Proof.
  intros plan grow. exact (asafe_sound _ _ _ plan (oom_dict_transient_safe grow)).
Qed.

Lemma oom_thm_dict_ratio : forall (plan : nat -> bool) (grow : bool),
  let r := arun_plan plan (oom_dict_ratio_skel grow) in
  (oom_val r = OomFail /\ oom_live r = 0%Z) \/ (oom_val r = OomOkCorrect /\ oom_live r = 0%Z).
Proof.
  intros plan grow. exact (asafe_sound _ _ _ plan (oom_dict_transient_safe grow)).
Qed.

Lemma oom_thm_dict_decode : forall (plan : nat -> bool),
  let r := arun_plan plan oom_dict_decode_skel in
  (oom_val r = OomFail /\ oom_live r = 0%Z) \/ (oom_val r = OomOkCorrect /\ oom_live r = 1%Z).
Proof.
  intros plan . exact (asafe_sound _ _ _ plan oom_dict_decode_safe).
Qed.

Lemma oom_thm_dict_decode_into : forall (plan : nat -> bool),
  let r := arun_plan plan oom_dict_decode_into_skel in
  (oom_val r = OomFail /\ oom_live r = 0%Z) \/ (oom_val r = OomOkCorrect /\ oom_live r = 0%Z).
Proof.
  intros plan . exact (asafe_sound _ _ _ plan oom_dict_decode_into_safe).
Qed.

Lemma oom_thm_pfor_threshold : forall (plan : nat -> bool) (nonempty : bool),
  let r := arun_plan plan (oom_pfor_threshold_skel nonempty) in
  (oom_val r = OomFail /\ oom_live r = 0%Z) \/ (oom_val r = OomOkCorrect /\ oom_live r = 0%Z).
Proof.
  intros plan nonempty. exact (asafe_sound _ _ _ plan (oom_pfor_threshold_safe nonempty)).
Qed.

Lemma oom_thm_pfor_encode : forall (plan : nat -> bool) (nonempty has_exc : bool),
  let r := arun_plan plan (oom_pfor_encode_skel nonempty has_exc) in
  (oom_val r = OomFail /\ oom_live r = 0%Z) \/ (oom_val r = OomOkCorrect /\ oom_live r = 0%Z).
Proof.
  intros plan nonempty has_exc. exact (asafe_sound _ _ _ plan (oom_pfor_encode_safe nonempty has_exc)).
Qed.

Lemma oom_thm_float_encode : forall (plan : nat -> bool),
  let r := arun_plan plan oom_float_encode_skel in
  (oom_val r = OomFail /\ oom_live r = 0%Z) \/ (oom_val r = OomOkCorrect /\ oom_live r = 0%Z).
Proof.
  intros plan . exact (asafe_sound _ _ _ plan oom_float_encode_safe).
Qed.

Lemma oom_thm_float_encode_auto : forall (plan : nat -> bool),
  let r := arun_plan plan oom_float_encode_auto_skel in
  (oom_val r = OomFail /\ oom_live r = 0%Z) \/ (oom_val r = OomOkCorrect /\ oom_live r = 0%Z).
Proof.
  intros plan. exact (asafe_sound _ _ _ plan oom_float_encode_safe).
Qed.

Lemma oom_thm_float_decode : forall (plan : nat -> bool) (has_normal : bool),
  let r := arun_plan plan (oom_float_decode_skel has_normal) in
  (oom_val r = OomFail /\ oom_live r = 0%Z) \/ (oom_val r = OomOkCorrect /\ oom_live r = 0%Z).
Proof.
  intros plan has_normal. exact (asafe_sound _ _ _ plan (oom_float_decode_safe has_normal)).
Qed.

Lemma oom_thm_adp_unique : forall (plan : nat -> bool) (two_or_more exact : bool),
  let r := arun_plan plan (oom_adp_unique_skel two_or_more exact) in
  (oom_val r = OomFail /\ oom_live r = 0%Z) \/ (oom_val r = OomOkCorrect /\ oom_live r = 0%Z).
Proof.
  intros plan two_or_more exact. exact (asafe_sound _ _ _ plan (oom_adp_unique_safe two_or_more exact)).
Qed.

Lemma oom_thm_adp_encode_with : forall (plan : nat -> bool) (t : N) (f : oom_adp_facts),
  (t = 4%N -> oaf_bm_valid f = true) ->
  let r := arun_plan plan (oom_adp_encode_with_skel t f) in
  (oom_val r = OomFail /\ oom_live r = 0%Z) \/ (oom_val r = OomOkCorrect /\ oom_live r = 0%Z).
Proof.
  intros plan t f Hv. exact (asafe_sound _ _ _ plan (oom_adp_encode_with_safe t f Hv)).
Qed.

Lemma oom_thm_adp_decode : forall (plan : nat -> bool) (t : N),
  let r := arun_plan plan (oom_adp_decode_skel t) in
  (oom_val r = OomFail /\ oom_live r = 0%Z) \/ (oom_val r = OomOkCorrect /\ oom_live r = 0%Z).
Proof.
  intros plan t. exact (asafe_sound _ _ _ plan (oom_adp_decode_safe t)).
Qed.

Lemma oom_thm_bm_create : forall (plan : nat -> bool),
  let r := arun_plan plan oom_bm_create_skel in
  (oom_val r = OomFail /\ oom_live r = 0%Z) \/ (oom_val r = OomOkCorrect /\ oom_live r = 2%Z).
Proof.
  intros plan . exact (asafe_sound _ _ _ plan oom_bm_create_safe).
Qed.

Lemma oom_thm_bm_clone : forall (plan : nat -> bool),
  let r := arun_plan plan oom_bm_clone_skel in
  (oom_val r = OomFail /\ oom_live r = 0%Z) \/ (oom_val r = OomOkCorrect /\ oom_live r = 2%Z).
Proof.
  intros plan . exact (asafe_sound _ _ _ plan oom_bm_clone_safe).
Qed.

Lemma oom_thm_bm_decode : forall (plan : nat -> bool),
  let r := arun_plan plan oom_bm_decode_skel in
  (oom_val r = OomFail /\ oom_live r = 0%Z) \/ (oom_val r = OomOkCorrect /\ oom_live r = 2%Z).
Proof.
  intros plan . exact (asafe_sound _ _ _ plan oom_bm_decode_safe).
Qed.

Lemma oom_thm_bm_add : forall (plan : nat -> bool) (st : oom_bst) (present : bool),
  let r := arun_plan plan (oom_bm_add_skel st present) in
  (oom_val r = OomFail /\ oom_live r = 0%Z) \/ (oom_val r = OomOkCorrect /\ oom_live r = 0%Z).
Proof.
  intros plan st present. exact (asafe_sound _ _ _ plan (oom_bm_add_safe st present)).
Qed.

Lemma oom_thm_bm_remove : forall (plan : nat -> bool) (st : oom_bst) (present : bool),
  let r := arun_plan plan (oom_bm_remove_skel st present) in
  (oom_val r = OomFail /\ oom_live r = 0%Z) \/ (oom_val r = OomOkCorrect /\ oom_live r = 0%Z).
Proof.
  intros plan st present. exact (asafe_sound _ _ _ plan (oom_bm_remove_safe st present)).
Qed.

Lemma oom_thm_bm_add_many : forall (plan : nat -> bool) (st : oom_bst) (flags : list bool),
  let r := arun_plan plan (oom_bm_add_many_skel st flags) in
  (oom_val r = OomFail /\ oom_live r = 0%Z) \/ (oom_val r = OomOkCorrect /\ oom_live r = 0%Z).
Proof.
  intros plan st flags. exact (asafe_sound _ _ _ plan (oom_bm_add_many_safe st flags)).
Qed.

Lemma oom_thm_bm_add_range : forall (plan : nat -> bool) (st : oom_bst) (nonempty_range big : bool) (flags : list bool),
  let r := arun_plan plan (oom_bm_add_range_skel st nonempty_range big flags) in
  (oom_val r = OomFail /\ oom_live r = 0%Z) \/ (oom_val r = OomOkCorrect /\ oom_live r = 0%Z).
Proof.
  intros plan st nonempty_range big flags. exact (asafe_sound _ _ _ plan (oom_bm_add_range_safe st nonempty_range big flags)).
Qed.

Lemma oom_thm_bm_remove_range : forall (plan : nat -> bool) (st : oom_bst) (flags : list bool),
  let r := arun_plan plan (oom_bm_remove_range_skel st flags) in
  (oom_val r = OomFail /\ oom_live r = 0%Z) \/ (oom_val r = OomOkCorrect /\ oom_live r = 0%Z).
Proof.
  intros plan st flags. exact (asafe_sound _ _ _ plan (oom_bm_remove_range_safe st flags)).
Qed.

Lemma oom_thm_bm_and_xor_andnot : forall (plan : nat -> bool) (flags : list bool),
  let r := arun_plan plan (oom_bm_fresh_setop_skel flags) in
  (oom_val r = OomFail /\ oom_live r = 0%Z) \/ (oom_val r = OomOkCorrect /\ oom_live r = 2%Z).
Proof.
  intros plan flags. exact (asafe_sound _ _ _ plan (oom_bm_fresh_setop_safe flags)).
Qed.

Lemma oom_thm_bm_or : forall (plan : nat -> bool) (st : oom_bst) (flags : list bool),
  let r := arun_plan plan (oom_bm_or_skel st flags) in
  (oom_val r = OomFail /\ oom_live r = 0%Z) \/ (oom_val r = OomOkCorrect /\ oom_live r = 2%Z).
Proof.
  intros plan st flags. exact (asafe_sound _ _ _ plan (oom_bm_or_safe st flags)).
Qed.

(* varintAdaptiveEncode: every plan ends in success (TAGGED retry) *)
Lemma oom_thm_adp_encode : forall (plan : nat -> bool) (two_or_more : bool) (sel sel_fallback : N) (f : oom_adp_facts),
  (sel = 4%N \/ sel_fallback = 4%N -> oaf_bm_valid f = true) ->
  let r := arun_plan plan (oom_adp_encode_skel two_or_more sel sel_fallback f) in
  oom_val r = OomOkCorrect /\ oom_live r = 0%Z.
Proof.
  intros plan two sel self f Hv. exact (asafe_sound _ _ _ plan (oom_adp_encode_safe two sel self f Hv)).
Qed.

(* Encode / ToArray allocate nothing *)
Lemma oom_thm_bm_encode_to_array : forall (plan : nat -> bool),
  arun_plan plan oom_bm_encode_skel = (OomOkCorrect, 0%Z, O) /\
  arun_plan plan oom_bm_to_array_skel = (OomOkCorrect, 0%Z, O).
Proof. intro. split; reflexivity. Qed.

(* "the k-th allocation fails" is one of the plans *)
Lemma oom_thm_single_failure_is_a_plan : forall (A : Type) (k : nat) (p : aprog A),
  arun k p = arun_plan (fun i => Nat.eqb i k) p.
Proof. reflexivity. Qed.

(* without faults every call succeeds (the skeletons are not vacuously failing) *)
Lemma oom_thm_no_fault_scalar : forall grow ne ex hn two exact t,
  oom_val (arun 0 oom_dict_create_skel) = OomOkCorrect /\
  oom_val (arun 0 (oom_dict_build_skel grow)) = OomOkCorrect /\
  oom_val (arun 0 (oom_dict_encode_skel grow)) = OomOkCorrect /\
  oom_val (arun 0 oom_dict_decode_skel) = OomOkCorrect /\
  oom_val (arun 0 oom_dict_decode_into_skel) = OomOkCorrect /\
  oom_val (arun 0 (oom_pfor_threshold_skel ne)) = OomOkCorrect /\
  oom_val (arun 0 (oom_pfor_encode_skel ne ex)) = OomOkCorrect /\
  oom_val (arun 0 oom_float_encode_skel) = OomOkCorrect /\
  oom_val (arun 0 (oom_float_decode_skel hn)) = OomOkCorrect /\
  oom_val (arun 0 (oom_adp_unique_skel two exact)) = OomOkCorrect /\
  oom_val (arun 0 (oom_adp_decode_skel t)) = OomOkCorrect /\
  oom_val (arun 0 oom_bm_create_skel) = OomOkCorrect /\
  oom_val (arun 0 oom_bm_clone_skel) = OomOkCorrect /\
  oom_val (arun 0 oom_bm_decode_skel) = OomOkCorrect.
Proof.
  intros. rewrite !arun_zero_no_fault. apply oom_scalar_no_fault.
Qed.

Lemma oom_thm_no_fault_bitmap : forall st present flags ne big,
  oom_val (arun 0 (oom_bm_add_skel st present)) = OomOkCorrect /\
  oom_val (arun 0 (oom_bm_remove_skel st present)) = OomOkCorrect /\
  oom_val (arun 0 (oom_bm_add_many_skel st flags)) = OomOkCorrect /\
  oom_val (arun 0 (oom_bm_add_range_skel st ne big flags)) = OomOkCorrect /\
  oom_val (arun 0 (oom_bm_remove_range_skel st flags)) = OomOkCorrect /\
  oom_val (arun 0 (oom_bm_fresh_setop_skel flags)) = OomOkCorrect /\
  oom_val (arun 0 (oom_bm_or_skel st flags)) = OomOkCorrect.
Proof.
  intros. rewrite !arun_zero_no_fault. apply oom_bitmap_no_fault.
Qed.

Lemma oom_thm_no_fault_adp_encode_with : forall t f,
  oaf_bm_valid f = true -> oom_val (arun 0 (oom_adp_encode_with_skel t f)) = OomOkCorrect.
Proof. intros. rewrite arun_zero_no_fault. apply oom_adp_encode_with_no_fault. assumption. Qed.
