(* Properties_C16_dfg.v — placeholder, theorems follow *)
Require Import VV.Base VV.Delta VV.FOR VV.Group.
