(* Properties_C16_dfg.v — property C16 (reported metadata and header
   accessors tell the truth), contribution of FOR and group. *)
Require Import VV.Base VV.Tagged VV.Delta VV.FOR VV.Group.
Require Import VV.FORProofs VV.GroupProofs.
Local Open Scope N_scope.

(* varintFORAnalyze / varintFORBatchAnalyze: min and max are members and
   bound every element, range = max - min, count = length, offsetWidth is
   the least number of bytes holding the range *)
Theorem C16_for_analyze_truth : forall xs,
  xs <> [] -> Forall (fun x => x < 18446744073709551616) xs ->
  exists m, for_analyze xs = Some m /\ for_batch_analyze xs = Some m /\
    In (fm_min m) xs /\ In (fm_max m) xs /\
    (forall v, In v xs -> fm_min m <= v <= fm_max m) /\
    fm_range m = fm_max m - fm_min m /\
    fm_count m = N.of_nat (length xs) /\
    fm_width m = N.of_nat (ext_width (fm_range m)) /\
    fm_range m < 256 ^ fm_width m /\
    (fm_width m = 1 \/ 256 ^ (fm_width m - 1) <= fm_range m).
Proof. exact for_analyze_truth. Qed.
Print Assumptions C16_for_analyze_truth.

(* the meta handed back by the encoder (stale count on entry) is the analysis;
   its encodedSize is the bytes written (C03_for_size_exact) *)
Theorem C16_for_meta_out_truth : forall xs m0 enc meta',
  xs <> [] -> Forall (fun x => x < 18446744073709551616) xs ->
  fm_count m0 <> N.of_nat (length xs) ->
  for_encode xs (Some m0) = Some (enc, meta') -> meta' = for_analyze xs.
Proof. exact for_meta_out_truth. Qed.
Print Assumptions C16_for_meta_out_truth.

Theorem C16_for_encoded_size_truth : forall xs meta enc meta',
  xs <> [] -> Forall (fun x => x < 18446744073709551616) xs ->
  N.of_nat (length xs) < 1152921504606846976 ->
  (meta = None \/ exists m0, meta = Some m0 /\
     (fm_count m0 <> N.of_nat (length xs) \/ for_analyze xs = Some m0)) ->
  for_encode xs meta = Some (enc, meta') ->
  exists m, for_analyze xs = Some m /\ for_size m = N.of_nat (length enc) /\
            fm_size m = N.of_nat (length enc).
Proof. exact for_size_exact. Qed.
Print Assumptions C16_for_encoded_size_truth.

(* varintFORReadMetadata and the three accessors on an encoding followed by
   anything: min, count, width, encoded size are the real ones *)
Theorem C16_for_header_truth : forall xs meta post,
  xs <> [] -> Forall (fun x => x < 18446744073709551616) xs ->
  N.of_nat (length xs) < 1152921504606846976 ->
  (meta = None \/ exists m0, meta = Some m0 /\
     (fm_count m0 <> N.of_nat (length xs) \/ for_analyze xs = Some m0)) ->
  exists enc meta' m, for_encode xs meta = Some (enc, meta') /\ for_analyze xs = Some m /\
    let rm := for_read_metadata (enc ++ post) in
    fm_min rm = fm_min m /\ fm_count rm = N.of_nat (length xs) /\ fm_width rm = fm_width m /\
    fm_size rm = N.of_nat (length enc) /\
    for_get_min_value (enc ++ post) = fm_min m /\
    for_get_count (enc ++ post) = N.of_nat (length xs) /\
    for_get_offset_width (enc ++ post) = fm_width m.
Proof. exact for_header_truth. Qed.
Print Assumptions C16_for_header_truth.

(* the reported count is the number of elements decoding yields *)
Theorem C16_for_count_is_decoded : forall z cap r out, for_decode z cap = Some (r, out) ->
  N.of_nat (length out) <= cap /\ r = N.of_nat (length out).
Proof. exact for_decode_cap. Qed.
Print Assumptions C16_for_count_is_decoded.

(* group: self-measured size = bytes written, field count, field widths *)
Theorem C16_group_get_size : forall xs post,
  (1 <= length xs <= 64)%nat -> Forall (fun x => x < 18446744073709551616) xs ->
  exists enc, group_encode xs (N.of_nat (length xs)) = Some enc /\
    group_get_size (enc ++ post) = N.of_nat (length enc) /\
    group_get_field_count (enc ++ post) = N.of_nat (length xs).
Proof. exact group_get_size_ok. Qed.
Print Assumptions C16_group_get_size.

Theorem C16_group_get_field_width : forall xs post i,
  (1 <= length xs <= 64)%nat -> Forall (fun x => x < 18446744073709551616) xs -> (i < length xs)%nat ->
  exists enc, group_encode xs (N.of_nat (length xs)) = Some enc /\
    group_get_field_width (enc ++ post) (N.of_nat i) = group_norm_width (nth i xs 0).
Proof. exact group_get_field_width_ok. Qed.
Print Assumptions C16_group_get_field_width.

(* ... and that width is one of 1/2/4/8 and holds the value *)
Theorem C16_group_norm_width_fits : forall x, x < 18446744073709551616 ->
  x < 256 ^ group_norm_width x /\ In (group_norm_width x) [1; 2; 4; 8].
Proof. exact group_norm_width_fits. Qed.
Print Assumptions C16_group_norm_width_fits.

Example C16_dfg_examples :
  for_analyze [300; 5; 70000] = Some (mk_for_meta 5 70000 69995 3 12 3) /\
  group_get_size [2; 1; 7; 0; 1] = 5.
Proof. split; vm_compute; reflexivity. Qed.
