(* Properties_C04_elias.v — property C04 (byte-exact, canonical,
   length-monotone wire formats), Elias gamma / delta part.  Nothing but
   statements closed by `exact`, each followed by Print Assumptions.
   gamma_code / delta_code / pack_msb are the specification of EliasSpec.v:
     gamma_code x = repeat false (log2 x) ++ bits_msb x
     delta_code x = gamma_code (log2 x + 1) ++ tl (bits_msb x)
     pack_msb bs  = MSB-first bytes, zero padded. *)
Require Import VV.Base VV.EliasBits VV.Elias VV.EliasSpec VV.EliasBitsProofs VV.EliasEncProofs
  VV.EliasDecProofs VV.EliasProofs.
Local Open Scope N_scope.

(* the bytes varintEliasGammaEncodeArray leaves in dst[0 .. return value) are
   the packed concatenation of the gamma codes, for every list of 64-bit
   values >= 1 (of fewer than 2^57 elements) *)
Theorem C04_gamma_bytes : forall xs,
  Forall (fun x => 1 <= x < 18446744073709551616) xs ->
  N.of_nat (length xs) < 144115188075855872 ->
  ee_bytes (elias_gamma_encode_array xs) = pack_msb (concat (map gamma_code xs)).
Proof. exact gamma_bytes_spec. Qed.
Print Assumptions C04_gamma_bytes.

Theorem C04_delta_bytes : forall xs,
  Forall (fun x => 1 <= x < 18446744073709551616) xs ->
  N.of_nat (length xs) < 144115188075855872 ->
  ee_bytes (elias_delta_encode_array xs) = pack_msb (concat (map delta_code xs)).
Proof. exact delta_bytes_spec. Qed.
Print Assumptions C04_delta_bytes.

(* single values through varintBitWriterInit + varintElias{Gamma,Delta}Encode:
   buffer, returned bit count and bitPos are those of the code *)
Theorem C04_gamma_single : forall cap x, 1 <= x < 18446744073709551616 ->
  bw_buffer (fst (elias_gamma_encode (bw_init cap) x)) = pack_msb (gamma_code x) /\
  snd (elias_gamma_encode (bw_init cap) x) = N.of_nat (length (gamma_code x)) /\
  bw_pos (fst (elias_gamma_encode (bw_init cap) x)) = N.of_nat (length (gamma_code x)).
Proof. exact gamma_single_bytes. Qed.
Print Assumptions C04_gamma_single.

Theorem C04_delta_single : forall cap x, 1 <= x < 18446744073709551616 ->
  bw_buffer (fst (elias_delta_encode (bw_init cap) x)) = pack_msb (delta_code x) /\
  snd (elias_delta_encode (bw_init cap) x) = N.of_nat (length (delta_code x)) /\
  bw_pos (fst (elias_delta_encode (bw_init cap) x)) = N.of_nat (length (delta_code x)).
Proof. exact delta_single_bytes. Qed.
Print Assumptions C04_delta_single.

(* the bit-length helpers *)
Theorem C04_gamma_bits : forall x, 1 <= x < 18446744073709551616 ->
  elias_gamma_bits x = N.of_nat (length (gamma_code x)) /\
  elias_gamma_bits x = 2 * N.log2 x + 1.
Proof. exact gamma_bits_len. Qed.
Print Assumptions C04_gamma_bits.

Theorem C04_delta_bits : forall x, 1 <= x < 18446744073709551616 ->
  elias_delta_bits x = N.of_nat (length (delta_code x)) /\
  elias_delta_bits x = 2 * N.log2 (N.log2 x + 1) + 1 + N.log2 x.
Proof. exact delta_bits_len. Qed.
Print Assumptions C04_delta_bits.

(* one encoding per value, no code is a prefix of another (so a stream of
   codes parses in one way only) *)
Theorem C04_gamma_prefix_free : forall x y r1 r2,
  1 <= x < 18446744073709551616 -> 1 <= y < 18446744073709551616 ->
  gamma_code x ++ r1 = gamma_code y ++ r2 -> x = y /\ r1 = r2.
Proof. exact gamma_prefix_free. Qed.
Print Assumptions C04_gamma_prefix_free.

Theorem C04_delta_prefix_free : forall x y r1 r2,
  1 <= x < 18446744073709551616 -> 1 <= y < 18446744073709551616 ->
  delta_code x ++ r1 = delta_code y ++ r2 -> x = y /\ r1 = r2.
Proof. exact delta_prefix_free. Qed.
Print Assumptions C04_delta_prefix_free.

(* encoded length never decreases as the value grows *)
Theorem C04_gamma_len_mono : forall x y, 1 <= x -> x <= y ->
  (length (gamma_code x) <= length (gamma_code y))%nat.
Proof. exact gamma_len_mono. Qed.
Print Assumptions C04_gamma_len_mono.

Theorem C04_delta_len_mono : forall x y, 1 <= x -> x <= y ->
  (length (delta_code x) <= length (delta_code y))%nat.
Proof. exact delta_len_mono. Qed.
Print Assumptions C04_delta_len_mono.

(* the header's examples: 1=1, 2=010, 3=011, 4=00100, 9=0001001;
   delta 1=1, 2=0100, 3=0101, 4=01100, 8=00100000, 9=00100001 *)
Example C04_elias_examples :
  gamma_code 1 = [true] /\ gamma_code 2 = [false; true; false] /\
  gamma_code 9 = [false; false; false; true; false; false; true] /\
  delta_code 2 = [false; true; false; false] /\
  delta_code 9 = [false; false; true; false; false; false; false; true] /\
  ee_bytes (elias_gamma_encode_array [1; 2; 3; 4; 5]) = [166; 66; 128] /\
  ee_bytes (elias_delta_encode_array [18446744073709551615]) = [2; 7; 255; 255; 255; 255; 255; 255; 255; 240].
Proof. vm_compute. repeat split; reflexivity. Qed.
