(* BP128Bits.v — the bit-packing layer of BP128.v: unpacking what was packed
   returns the values (for any prefix of the values, reading only the bytes
   that prefix occupies, whatever follows the packed bytes). *)
Require Import VV.Base VV.BaseProofs VV.BP128.
From Coq Require Import Lia ZifyBool ZifyN ZifyNat.
Local Open Scope N_scope.
Ltac Zify.zify_post_hook ::= Z.div_mod_to_equations.

(* ---------- bits / of_bits ---------- *)

Lemma length_bits w v : length (bits w v) = w.
Proof. revert v. induction w as [|w IH]; intro v; cbn [bits length]; [reflexivity|]. rewrite IH. reflexivity. Qed.

Lemma b2n_odd v : N.b2n (N.odd v) = v mod 2.
Proof. rewrite <- N.bit0_odd. apply N.bit0_mod. Qed.

Lemma of_bits_bits w v : of_bits (bits w v) = v mod 2 ^ N.of_nat w.
Proof.
  revert v. induction w as [|w IH]; intro v.
  - cbn [bits of_bits]. change (2 ^ N.of_nat 0) with 1. rewrite N.mod_1_r. reflexivity.
  - cbn [bits of_bits]. rewrite IH, b2n_odd, N.div2_div.
    rewrite Nat2N.inj_succ, N.pow_succ_r'.
    assert (2 ^ N.of_nat w <> 0) by (apply N.pow_nonzero; lia).
    rewrite N.mod_mul_r by (assumption || lia). reflexivity.
Qed.

Lemma bits_zero w : bits w 0 = repeat false w.
Proof. induction w as [|w IH]; cbn [bits repeat]; [reflexivity|]. change (N.div2 0) with 0. rewrite IH. reflexivity. Qed.

Lemma of_bits_repeat_false k : of_bits (repeat false k) = 0.
Proof. induction k as [|k IH]; cbn [repeat of_bits]; [reflexivity|]. rewrite IH. reflexivity. Qed.

Lemma odd_b2n_add b x : N.odd (N.b2n b + 2 * x) = b.
Proof. rewrite N.odd_add_mul_2. destruct b; reflexivity. Qed.

Lemma div2_b2n_add b x : N.div2 (N.b2n b + 2 * x) = x.
Proof. rewrite N.div2_div. destruct b; cbn [N.b2n]; lia. Qed.

(* zero-padded prefix of a bit list (proof-side only) *)
Fixpoint padded (n : nat) (bs : list bool) : list bool :=
  match n with
  | O => []
  | S k => match bs with
           | [] => false :: padded k []
           | b :: t => b :: padded k t
           end
  end.

Lemma padded_nil n : padded n [] = repeat false n.
Proof. induction n as [|n IH]; cbn [padded repeat]; [reflexivity|]. rewrite IH. reflexivity. Qed.

Lemma length_padded n bs : length (padded n bs) = n.
Proof. revert bs. induction n as [|n IH]; intros [|b t]; cbn [padded length]; try reflexivity; rewrite IH; reflexivity. Qed.

Lemma padded_add a b bs : padded (a + b) bs = padded a bs ++ padded b (skipn a bs).
Proof.
  revert bs. induction a as [|a IH]; intro bs.
  - reflexivity.
  - destruct bs as [|x t]; cbn [Nat.add padded skipn app].
    + rewrite IH. rewrite skipn_nil. reflexivity.
    + rewrite IH. reflexivity.
Qed.

Lemma padded_app l r n : (length l <= n)%nat -> padded n (l ++ r) = l ++ padded (n - length l) r.
Proof.
  revert n. induction l as [|x l IH]; intros n H.
  - cbn [app length]. rewrite Nat.sub_0_r. reflexivity.
  - destruct n as [|n]; [cbn [length] in H; lia|].
    cbn [app padded length Nat.sub]. rewrite IH by (cbn [length] in H; lia). reflexivity.
Qed.

Lemma bits_of_bits_firstn k bs : bits k (of_bits (firstn k bs)) = padded k bs.
Proof.
  revert bs. induction k as [|k IH]; intro bs; [reflexivity|].
  destruct bs as [|b t].
  - cbn [firstn of_bits bits padded]. change (N.odd 0) with false. change (N.div2 0) with 0.
    f_equal. specialize (IH []). rewrite firstn_nil in IH. exact IH.
  - cbn [firstn of_bits bits padded]. rewrite odd_b2n_add, div2_b2n_add, IH. reflexivity.
Qed.

(* ---------- pack_bytes / bits_of_bytes ---------- *)

Lemma length_pack_bytes k bs : length (pack_bytes k bs) = k.
Proof. revert bs. induction k as [|k IH]; intro bs; cbn [pack_bytes length]; [reflexivity|]. rewrite IH. reflexivity. Qed.

Lemma firstn_pack_bytes k' k bs : (k' <= k)%nat -> firstn k' (pack_bytes k bs) = pack_bytes k' bs.
Proof.
  revert k bs. induction k' as [|k' IH]; intros k bs H; [reflexivity|].
  destruct k as [|k]; [lia|]. cbn [pack_bytes firstn]. rewrite IH by lia. reflexivity.
Qed.

Lemma bits_of_pack k bs : bits_of_bytes (pack_bytes k bs) = padded (8 * k) bs.
Proof.
  revert bs. induction k as [|k IH]; intro bs.
  - reflexivity.
  - replace (8 * S k)%nat with (8 + 8 * k)%nat by lia.
    rewrite padded_add. cbn [pack_bytes]. unfold bits_of_bytes in *. cbn [flat_map].
    rewrite IH, bits_of_bits_firstn. reflexivity.
Qed.

Lemma bytes_ok_pack_bytes k bs : bytes_ok (pack_bytes k bs).
Proof.
  revert bs. induction k as [|k IH]; intro bs; cbn [pack_bytes]; constructor; [|apply IH].
  assert (L : (length (firstn 8 bs) <= 8)%nat) by (rewrite firstn_length; lia).
  revert L. generalize (firstn 8 bs). intros l L.
  assert (G : forall l, of_bits l < 2 ^ N.of_nat (length l)).
  { clear. induction l as [|b t IH]; cbn [of_bits length]; [reflexivity|].
    rewrite Nat2N.inj_succ, N.pow_succ_r'. destruct b; cbn [N.b2n]; lia. }
  specialize (G l). assert (2 ^ N.of_nat (length l) <= 2 ^ 8) by (apply N.pow_le_mono_r; lia).
  change (2 ^ 8) with 256 in *. lia.
Qed.

(* ---------- unpack ---------- *)

Lemma length_unpack w n bs : length (unpack w n bs) = n.
Proof. revert bs. induction n as [|n IH]; intro bs; cbn [unpack length]; [reflexivity|]. rewrite IH. reflexivity. Qed.

Lemma length_flat_bits w vs : length (flat_map (bits w) vs) = (length vs * w)%nat.
Proof.
  induction vs as [|v vs IH]; cbn [flat_map length]; [reflexivity|].
  rewrite app_length, length_bits, IH. lia.
Qed.

Lemma unpack_flat w vs rest :
  unpack w (length vs) (flat_map (bits w) vs ++ rest) = map (fun v => v mod 2 ^ N.of_nat w) vs.
Proof.
  induction vs as [|v vs IH]; [reflexivity|].
  cbn [length unpack flat_map map]. rewrite <- app_assoc.
  rewrite firstn_app, length_bits, Nat.sub_diag, firstn_O, app_nil_r.
  rewrite firstn_all2 by (rewrite length_bits; lia).
  rewrite skipn_app, length_bits, Nat.sub_diag, skipn_O.
  rewrite skipn_all2 by (rewrite length_bits; lia).
  cbn [app]. rewrite IH, of_bits_bits. reflexivity.
Qed.

Lemma map_mod_small w vs : Forall (fun v => v < 2 ^ w) vs -> map (fun v => v mod 2 ^ w) vs = vs.
Proof.
  induction 1 as [|v vs Hv Hvs IH]; [reflexivity|]. cbn [map]. rewrite IH, N.mod_small by assumption. reflexivity.
Qed.

Lemma Forall_firstn' {A} (P : A -> Prop) n l : Forall P l -> Forall P (firstn n l).
Proof.
  intro H. revert n. induction H as [|x l Hx Hl IH]; intros [|n]; cbn [firstn]; constructor; auto.
Qed.

Lemma Forall_skipn' {A} (P : A -> Prop) n l : Forall P l -> Forall P (skipn n l).
Proof.
  intro H. revert n. induction H as [|x l Hx Hl IH]; intros [|n]; cbn [skipn]; auto.
Qed.

Lemma length_pack w vs : length (pack w vs) = N.to_nat (nbytes (N.of_nat (length vs)) w).
Proof. unfold pack. apply length_pack_bytes. Qed.

Lemma bytes_ok_pack w vs : bytes_ok (pack w vs).
Proof. unfold pack. apply bytes_ok_pack_bytes. Qed.

Lemma length_unpack_at w n z : length (unpack_at w n z) = N.to_nat n.
Proof. unfold unpack_at. apply length_unpack. Qed.

(* the packing theorem: any prefix of m values is recovered from the packed
   bytes of vs, reading only the first (m*w+7)/8 bytes, whatever follows *)
Theorem unpack_at_pack w m vs tl :
  m <= N.of_nat (length vs) -> Forall (fun v => v < 2 ^ w) vs ->
  unpack_at w m (pack w vs ++ tl) = firstn (N.to_nat m) vs.
Proof.
  intros Hm Hvs. unfold unpack_at, pack.
  set (K := N.to_nat (nbytes (N.of_nat (length vs)) w)).
  set (k' := N.to_nat (nbytes m w)).
  set (B := flat_map (bits (N.to_nat w)) vs).
  assert (Hk : (k' <= K)%nat).
  { subst k' K. unfold nbytes. assert (m * w <= N.of_nat (length vs) * w) by (apply N.mul_le_mono_r; exact Hm). lia. }
  rewrite firstn_app, length_pack_bytes.
  replace (k' - K)%nat with 0%nat by lia. rewrite firstn_O, app_nil_r.
  rewrite firstn_pack_bytes by exact Hk.
  rewrite bits_of_pack.
  subst B. rewrite <- (firstn_skipn (N.to_nat m) vs) at 1. rewrite flat_map_app.
  assert (Lf : length (firstn (N.to_nat m) vs) = N.to_nat m) by (rewrite firstn_length; lia).
  rewrite padded_app.
  2:{ rewrite length_flat_bits, Lf. subst k'. unfold nbytes.
      assert (N.to_nat m * N.to_nat w = N.to_nat (m * w))%nat by lia. lia. }
  rewrite <- Lf at 1. rewrite unpack_flat. rewrite N2Nat.id.
  apply map_mod_small. apply Forall_firstn'. exact Hvs.
Qed.

(* whole block *)
Corollary unpack_at_pack_all w vs tl :
  Forall (fun v => v < 2 ^ w) vs ->
  unpack_at w (N.of_nat (length vs)) (pack w vs ++ tl) = vs.
Proof.
  intro H. rewrite unpack_at_pack by (lia || assumption).
  rewrite Nat2N.id. apply firstn_all.
Qed.
