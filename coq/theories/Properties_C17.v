(* Properties_C17.v — C17: stateless codecs are safe to call concurrently.
   (a) In the interleaving semantics of Conc.v, calls that write only inside
       their own outputs/private memory (no thread writes inside another
       thread's footprint; shared inputs may be read by all) are race-free
       under EVERY schedule and return what they return alone.
   (b) The library has no writable global state (gen/Globals.v is regenerated
       from the object files on every run), so a call's writes can only go to
       its arguments' targets and its own stack/heap blocks.
   That a C call's writes stay inside its outputs is established by the
   footprint correspondences (canaries/guard pages of C01/C03/C13) and TSan,
   not here: real hardware interleavings are outside any Gallina model. *)
Require Import VV.Conc VV.ConcProofs VV.ConcCodec VV.Base VV.Tagged.
Require Import VVgen.Globals.
From Coq Require Import List NArith String.
Import ListNotations.

Theorem C17_sequentially_equivalent :
  forall (Rs Ws : nat -> loc -> Prop),
  (forall i j l, i <> j -> Ws j l -> ~ (Rs i l \/ Ws i l)) ->
  forall (m0 : mem) (ps0 : list prog),
  (forall i p, nth_error ps0 i = Some p -> within (Rs i) (Ws i) p) ->
  forall sched i p0 r,
  nth_error ps0 i = Some p0 ->
  nth_error (snd (crun sched (m0, ps0))) i = Some (Ret r) ->
  r = snd (run m0 p0) /\
  forall l, (Rs i l \/ Ws i l) -> fst (crun sched (m0, ps0)) l = fst (run m0 p0) l.
Proof. exact interleaving_sequentially_equivalent. Qed.
Print Assumptions C17_sequentially_equivalent.

Theorem C17_race_free :
  forall (Rs Ws : nat -> loc -> Prop),
  (forall i j l, i <> j -> Ws j l -> ~ (Rs i l \/ Ws i l)) ->
  forall (m0 : mem) (ps0 : list prog),
  (forall i p, nth_error ps0 i = Some p -> within (Rs i) (Ws i) p) ->
  forall sched, ~ races (snd (crun sched (m0, ps0))).
Proof. exact interleaving_race_free. Qed.
Print Assumptions C17_race_free.

Theorem C17_no_writable_globals : writable_globals = [].
Proof. exact (eq_refl _). Qed.
Print Assumptions C17_no_writable_globals.

(* instance for a real codec model: any number of threads running the tagged
   encoder into pairwise disjoint 9-byte destinations, plus any number of
   threads running the tagged decoder on inputs that no encoder writes to (the
   inputs may be shared among the readers): under EVERY schedule no two threads
   ever race, and an encoder that has finished returned its length and left
   exactly its bytes in its destination *)
Theorem C17_tagged_threads_safe :
  forall (dsts : list loc) (xs : list N), List.length dsts = List.length xs ->
  (forall i j, i <> j -> (i < List.length dsts)%nat -> (j < List.length dsts)%nat ->
     forall l, in_range (nth i dsts 0%N) 9 l -> ~ in_range (nth j dsts 0%N) 9 l) ->
  forall (srcs : list loc),
  (forall i s l, (i < List.length dsts)%nat -> In s srcs ->
     in_range (nth i dsts 0%N) 9 l -> ~ in_range s 9 l) ->
  forall sched,
  ~ races (snd (crun sched (mem0, threads dsts xs srcs))) /\
  forall i r, (i < List.length dsts)%nat ->
    nth_error (snd (crun sched (mem0, threads dsts xs srcs))) i = Some (Ret r) ->
    r = [tagged_len (nth i xs 0%N)] /\
    forall j, (j < List.length (tagged_put64 (nth i xs 0%N)))%nat ->
      fst (crun sched (mem0, threads dsts xs srcs)) (nth i dsts 0%N + N.of_nat j)%N
      = nth j (tagged_put64 (nth i xs 0%N)) 0%N.
Proof. exact tagged_threads_safe. Qed.
Print Assumptions C17_tagged_threads_safe.

(* non-vacuity: two calls sharing the read-only input at location 0 and
   writing disjoint outputs 10 and 20; one interleaving, solo results *)
Example C17_example :
  let p1 := Rd 0%N (fun v => Wr 10%N (v + 1)%N (Ret [v])) in
  let p2 := Rd 0%N (fun v => Wr 20%N (v * 2)%N (Ret [v; v])) in
  let m0 : mem := fun l => if N.eqb l 0 then 7%N else 0%N in
  let c := crun [0; 1; 1; 0; 1; 0]%nat (m0, [p1; p2]) in
  snd c = [Ret [7%N]; Ret [7%N; 7%N]] /\ fst c 10%N = 8%N /\ fst c 20%N = 14%N.
Proof. vm_compute. repeat split; reflexivity. Qed.
