(* Properties_C16_float.v — property C16 for float: the only reported quantity
   is the encoder's return value (varintFloatReadMeta / varintFloatAnalyze are
   declared but defined nowhere).  It equals the number of bytes written, and
   the decoder, given the same count, walks exactly that many bytes. *)
Require Import VV.Base VV.Float VV.FloatSizeProofs VV.FloatTheorems.
Local Open Scope N_scope.

(* fl_encode_ret follows the pointer increments of varintFloatEncode
   (p += (count+7)/8, p += 1 + width, p += (normal_count*mant_bits+7)/8, ...);
   fl_encode is the list of bytes stored. *)
Theorem C16_float_return_is_length : forall ds prec mode,
  fl_encode_ret ds prec mode = N.of_nat (length (fl_encode ds prec mode)).
Proof. exact fl_encode_ret_length. Qed.
Print Assumptions C16_float_return_is_length.

(* varintFloatDecode's return value on that stream (whatever follows it) is the
   encoder's return value, and it yields `count` values *)
Theorem C16_float_decode_walks_encoded : forall ds prec mode rest,
  Forall (fun d => d < 18446744073709551616) ds -> mode <= 2 ->
  exists outs,
    fl_decode (fl_encode ds prec mode ++ rest) (length ds)
      = Some (fl_encode_ret ds prec mode, outs) /\ length outs = length ds.
Proof. exact float_decode_walks. Qed.
Print Assumptions C16_float_decode_walks_encoded.

Example C16_float_example :
  fl_encode_ret [9218868437227405317; 1; 4611686018426937544] 1 1 = 28 /\
  length (fl_encode [9218868437227405317; 1; 4611686018426937544] 1 1) = 28%nat.
Proof. vm_compute. split; reflexivity. Qed.
