(* AdaptiveFloatRound.v — "quotient of two integers rounded to 24 significant
   bits, ties to even", computed on integers, IS Flocq's rounding operator
   `round radix2 (FLX_exp 24) ZnearestE` on the exact rational.  No model here:
   only Flocq and the real numbers. *)
From Flocq Require Import Core.
From Coq Require Import Reals Lra Lia ZArith Bool.
Local Open Scope bool_scope.
Local Open Scope Z_scope.

(* n / d rounded to the nearest integer, ties to even (d > 0) *)
Definition afl_rne_q (n d : Z) : Z :=
  let k := n / d in
  let r := n mod d in
  if (d <? 2 * r) || ((2 * r =? d) && Z.odd k) then k + 1 else k.

Lemma afl_ZnearestE_div n d : 0 < d ->
  ZnearestE (IZR n / IZR d) = afl_rne_q n d.
Proof.
  intros Hd. unfold Znearest, afl_rne_q. cbv zeta.
  rewrite Zfloor_div by lia.
  pose proof (Z.div_mod n d ltac:(lia)) as E.
  pose proof (Z.mod_pos_bound n d Hd) as B.
  set (k := n / d) in *. set (r := n mod d) in *.
  assert (Dp : (0 < IZR d)%R) by (apply IZR_lt; lia).
  assert (X : (IZR n / IZR d - IZR k = IZR r / IZR d)%R).
  { rewrite E, plus_IZR, mult_IZR. field. lra. }
  rewrite X.
  assert (C : Rcompare (IZR r / IZR d) (/ 2) = Z.compare (2 * r) d).
  { rewrite <- Rcompare_IZR, mult_IZR.
    rewrite <- (Rcompare_mult_r (IZR d * 2) (IZR r / IZR d) (/2)) by lra.
    f_equal; field; lra. }
  rewrite C.
  assert (Ce : (0 < r) -> Zceil (IZR n / IZR d) = k + 1).
  { intros Hr. rewrite Zceil_floor_neq; rewrite Zfloor_div by lia; fold k; [reflexivity|].
    intros A. assert (A' : (IZR n / IZR d - IZR k = 0)%R) by lra. rewrite X in A'.
    assert (IZR r = 0)%R.
    { replace (IZR r) with (IZR r / IZR d * IZR d)%R by (field; lra). rewrite A'. ring. }
    apply eq_IZR in H. lia. }
  destruct (Z.compare_spec (2 * r) d) as [A|A|A].
  - replace (d <? 2 * r) with false by lia. replace (2 * r =? d) with true by lia.
    rewrite <- Z.negb_even. cbn [orb andb]. destruct (negb (Z.even k)); [apply Ce; lia|reflexivity].
  - replace (d <? 2 * r) with false by lia. replace (2 * r =? d) with false by lia. reflexivity.
  - replace (d <? 2 * r) with true by lia. cbn [orb]. apply Ce; lia.
Qed.

(* the value n/d * 2^e with 2^23 <= n/d < 2^24 rounds to (rne n/d) * 2^e *)
Lemma afl_round_core n d e : 0 < d -> 8388608 * d <= n < 16777216 * d ->
  round radix2 (FLX_exp 24) ZnearestE (IZR n / IZR d * bpow radix2 e)
  = (IZR (afl_rne_q n d) * bpow radix2 e)%R.
Proof.
  intros Hd Hn.
  assert (Dp : (0 < IZR d)%R) by (apply IZR_lt; lia).
  assert (Q : (IZR 8388608 <= IZR n / IZR d < IZR 16777216)%R).
  { split.
    - apply Rmult_le_reg_r with (IZR d); [lra|].
      replace (IZR n / IZR d * IZR d)%R with (IZR n) by (field; lra).
      rewrite <- mult_IZR. apply IZR_le; lia.
    - apply Rmult_lt_reg_r with (IZR d); [lra|].
      replace (IZR n / IZR d * IZR d)%R with (IZR n) by (field; lra).
      rewrite <- mult_IZR. apply IZR_lt; lia. }
  set (q := (IZR n / IZR d)%R) in *.
  assert (Be : (0 < bpow radix2 e)%R) by apply bpow_gt_0.
  assert (M : mag radix2 (q * bpow radix2 e) = (e + 24) :> Z).
  { apply mag_unique_pos.
    replace (e + 24 - 1) with (23 + e) by lia. replace (e + 24) with (24 + e) by lia.
    rewrite !bpow_plus. change (bpow radix2 23) with (IZR 8388608). change (bpow radix2 24) with (IZR 16777216).
    split; [apply Rmult_le_compat_r; lra|apply Rmult_lt_compat_r; lra]. }
  unfold round, scaled_mantissa, cexp. rewrite M. unfold FLX_exp.
  replace (e + 24 - 24) with e by lia.
  replace (q * bpow radix2 e * bpow radix2 (- e))%R with q.
  2:{ rewrite Rmult_assoc, <- bpow_plus. replace (e + - e) with 0 by lia. simpl. ring. }
  unfold q. rewrite afl_ZnearestE_div by exact Hd. unfold F2R. reflexivity.
Qed.
