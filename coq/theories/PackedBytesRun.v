(* PackedBytesRun.v — histories that mix the element-count forms of the
   sorted-array functions of varintPacked.h with their ...Bytes forms
   (InsertSortedBytes, DeleteMemberBytes, MemberBytes: the caller passes the
   byte size of the populated part of the array and the function recomputes
   the element count with CountFromStorageBytes).  Definitions only. *)
Require Import VV.Base VV.Packed VV.PackedSpec VV.PackedRun.
Local Open Scope N_scope.

(* one call of a mixed history: an element-count form (PackedSpec.sop), or
   the ...Bytes form of the same operation with the byte size the caller
   passes (BinarySearch has no ...Bytes form) *)
Inductive mop : Type :=
| MCount (o : sop)
| MInsertSortedBytes (bytes v : N)
| MDeleteMemberBytes (bytes v : N)
| MMemberBytes (bytes v : N).

(* the reference operation a call stands for *)
Definition mop_sop (o : mop) : sop :=
  match o with
  | MCount o' => o'
  | MInsertSortedBytes _ v => SInsertSorted v
  | MDeleteMemberBytes _ v => SDeleteMember v
  | MMemberBytes _ v => SMember v
  end.

(* the byte size a ...Bytes call passes *)
Definition mop_bytes (o : mop) : option N :=
  match o with
  | MCount _ => None
  | MInsertSortedBytes b _ | MDeleteMemberBytes b _ | MMemberBytes b _ => Some b
  end.

(* one call: the ...Bytes forms are handed the byte size instead of the
   caller's element count; the caller updates its own count as for the
   element-count forms *)
Definition packed_mstep (c : pcfg) (st : list N * N) (o : mop) : option (list N * N * Z * list N) :=
  let '(a, len) := st in
  match o with
  | MCount o' => packed_step c st o'
  | MInsertSortedBytes b v =>
      match packed_insert_sorted_bytes c a b v with
      | Some (a', t) => Some (a', len + 1, 0%Z, t)
      | None => None
      end
  | MDeleteMemberBytes b v =>
      match packed_delete_member_bytes c a b v with
      | Some (found, a', t) =>
          Some (a', if found then len - 1 else len, if found then 1%Z else 0%Z, t)
      | None => None
      end
  | MMemberBytes b v =>
      match packed_member_bytes c a b v with
      | Some (r, t) => Some (a, len, r, t)
      | None => None
      end
  end.

Fixpoint packed_mrun (c : pcfg) (st : list N * N) (ops : list mop)
  : option (list N * N * list Z * list N) :=
  match ops with
  | [] => Some (fst st, snd st, [], [])
  | o :: rest =>
      match packed_mstep c st o with
      | None => None
      | Some (a1, len1, r, t) =>
          match packed_mrun c (a1, len1) rest with
          | None => None
          | Some (a2, len2, rs, ts) => Some (a2, len2, r :: rs, t ++ ts)
          end
      end
  end.

(* the byte sizes of the history are admissible: at every ...Bytes call the
   size b holds the count * w bits of the current elements and less than one
   element more (count * w <= 8 b < (count + 1) * w), count being the number of
   elements of the reference list at that point *)
Fixpoint mspec_bytes_ok (w : N) (xs : list N) (ops : list mop) : Prop :=
  match ops with
  | [] => True
  | o :: rest =>
      (match mop_bytes o with
       | Some b => N.of_nat (length xs) * w <= b * 8 < (N.of_nat (length xs) + 1) * w
       | None => True
       end) /\
      mspec_bytes_ok w (fst (spec_step xs (mop_sop o))) rest
  end.
