(* BitmapProofs.v — C08: the representation invariant, the abstraction to an
   ascending duplicate-free list, and every operation of varintBitmap.h against
   the corresponding set operation. *)
Require Import VV.Base VV.BaseProofs VV.Bitmap VV.BitmapLemmas VV.BitmapProofsBits VV.BitmapProofsArr VV.BitmapProofsRuns.
From Coq Require Import Lia ZifyBool ZifyN ZifyNat Sorted Arith.
Local Open Scope N_scope.
Ltac Zify.zify_post_hook ::= Z.div_mod_to_equations.

(* the set held by a bitmap, as the ascending list of its members *)
Definition bm_abs (s : bm_state) : list N := bm_iter_all s.

Definition arr_ok (card : N) (rvals : list N) (cap : N) : Prop :=
  card = bm_lenN rvals /\ sorted (rev rvals) /\ (forall x, In x rvals -> x < 65536) /\ bm_lenN rvals <= cap.
Definition bits_ok (card : N) (bits : bm_mem8) : Prop := bytes_in bits /\ card = popsum bits.
Definition runs_inv (card : N) (runs : list (N * N)) (cap : N) : Prop :=
  runs_ok 0 runs /\ card = runs_sum runs /\ bm_lenN runs <= cap.

Definition bm_Inv (s : bm_state) : Prop :=
  match bm_c s with
  | BmArray rvals cap => arr_ok (bm_card s) rvals cap
  | BmBits bits => bits_ok (bm_card s) bits
  | BmRuns runs cap => runs_inv (bm_card s) runs cap
  end.

Lemma arr_values_rev l : bm_arr_values l = rev l.
Proof. apply rev_append_nil. Qed.
Lemma arr_of_values_rev l : bm_arr_of_values l = rev l.
Proof. apply rev_append_nil. Qed.

Lemma sorted_length_le l : sorted l -> (forall x, In x l -> x < 65536) -> bm_lenN l <= 65536.
Proof.
  intros Hs Hb. unfold bm_lenN.
  assert (H : (length l <= length (nseq 0 (N.to_nat 65536)))%nat).
  { apply NoDup_incl_length; [apply sorted_NoDup; exact Hs|]. intros x Hx. apply in_nseq. specialize (Hb _ Hx). lia. }
  rewrite nseq_length in H. lia.
Qed.

Lemma runs_sum_le lo runs : runs_ok lo runs -> lo <= 65536 -> lo + runs_sum runs <= 65536.
Proof.
  revert lo. induction runs as [|r t IH]; intros lo H Hlo; cbn [runs_sum]; [lia|].
  destruct H as (A & B & C & D). specialize (IH _ D C). lia.
Qed.

(* ---- what the invariant gives ---- *)
Lemma inv_sorted s : bm_Inv s -> sorted (bm_abs s).
Proof.
  unfold bm_Inv, bm_abs, bm_iter_all. destruct (bm_c s) as [R cap|m|runs cap].
  - intros (_ & Hs & _). rewrite arr_values_rev. exact Hs.
  - intros _. apply sorted_bits_values.
  - intros (H & _). apply (sorted_runs_values _ _ H).
Qed.

Lemma inv_bound s x : bm_Inv s -> In x (bm_abs s) -> x < 65536.
Proof.
  unfold bm_Inv, bm_abs, bm_iter_all. destruct (bm_c s) as [R cap|m|runs cap].
  - intros (_ & _ & Hb & _) Hx. rewrite arr_values_rev in Hx. apply Hb. apply in_rev. exact Hx.
  - intros _ Hx. apply (proj1 (in_bits_values _ _)) in Hx. tauto.
  - intros (H & _) Hx. pose proof (runs_values_bounds _ _ _ H Hx). lia.
Qed.

Lemma inv_card s : bm_Inv s -> bm_card s = bm_lenN (bm_abs s).
Proof.
  unfold bm_Inv, bm_abs, bm_iter_all. destruct (bm_c s) as [R cap|m|runs cap].
  - intros (Hc & _). rewrite arr_values_rev, lenN_rev. exact Hc.
  - intros (_ & Hc). rewrite length_bits_values. exact Hc.
  - intros (H & Hc & _). rewrite (length_runs_values _ _ H). exact Hc.
Qed.

Lemma inv_card_le s : bm_Inv s -> bm_card s <= 65536.
Proof.
  intro H. rewrite (inv_card s H). apply sorted_length_le; [apply inv_sorted; exact H|].
  intros x Hx. apply (inv_bound s x H Hx).
Qed.

Lemma contains_spec s v : bm_Inv s -> v < 65536 -> (bm_contains s v = true <-> In v (bm_abs s)).
Proof.
  unfold bm_Inv, bm_abs, bm_iter_all, bm_contains. destruct (bm_c s) as [R cap|m|runs cap].
  - intros (Hc & Hs & Hb & _) Hv. rewrite arr_values_rev, Hc.
    assert (Hlen : bm_lenN (rev R) < 2147483648).
    { rewrite lenN_rev. pose proof (sorted_length_le (rev R) Hs). rewrite lenN_rev in H.
      assert (bm_lenN R <= 65536) by (apply H; intros x Hx; apply Hb, in_rev; exact Hx). lia. }
    pose proof (binary_search_spec (rev R) v Hs Hlen) as P. rewrite rev_involutive, lenN_rev in P.
    rewrite <- (bs_found_iff (rev R) v _ Hs P). lia.
  - intros _ Hv. rewrite bits_contains_spec, in_bits_values. tauto.
  - intros (H & _) _. apply (runs_contains_spec _ _ _ H).
Qed.

(* ---- create / clone / clear ---- *)
Lemma inv_create : bm_Inv bm_create.
Proof. unfold bm_Inv, bm_create, arr_ok. cbn. repeat split; [constructor|intros x []|lia]. Qed.
Lemma abs_create : bm_abs bm_create = [].
Proof. reflexivity. Qed.

Lemma clone_eq s : bm_clone s = s.
Proof. destruct s as [c [R cap|m|runs cap]]; reflexivity. Qed.

Lemma inv_clear s : bm_Inv s -> bm_Inv (bm_clear s) /\ bm_abs (bm_clear s) = [].
Proof.
  unfold bm_Inv, bm_clear, bm_abs, bm_iter_all. destruct (bm_c s) as [R cap|m|runs cap]; cbn [bm_c bm_card].
  - intros (_ & _ & _ & Hcap). split; [|reflexivity]. unfold arr_ok. cbn. repeat split; [constructor|intros x []|lia].
  - intros _. split.
    + split; [apply bytes_in_zero|]. unfold bm_zero_bits. rewrite popsum_zero. reflexivity.
    + apply sorted_ext; [apply sorted_bits_values|constructor|]. intro x. rewrite in_bits_values.
      unfold bm_zero_bits. rewrite bit_of_zero. split; [intros [_ H]; discriminate H|intros []].
  - intros (_ & _ & Hcap). split; [|reflexivity]. unfold runs_inv. cbn. repeat split; lia.
Qed.

(* ---- Add ---- *)
Lemma ensure_capacity_ge cap needed : needed <= bm_ensure_capacity cap needed.
Proof.
  unfold bm_ensure_capacity. destruct (needed <=? cap) eqn:E; [lia|].
  destruct (bm_u32 (cap * 2) <? needed) eqn:F; lia.
Qed.

Definition add_post (res : bm_state * bool) (v : N) (old : list N) : Prop :=
  bm_Inv (fst res) /\ (forall x, In x (bm_abs (fst res)) <-> x = v \/ In x old) /\
  (snd res = true <-> ~ In v old).

Lemma bits_ok_values card m : bits_ok card m -> card <= 65536.
Proof. intros (_ & ->). apply popsum_le. Qed.

Lemma add_bits_spec card m v : bits_ok card m -> v < 65536 ->
  add_post (bm_add_bits card m v) v (bm_bits_values m).
Proof.
  intros (Hb & Hc) Hv. unfold bm_add_bits, add_post. rewrite bits_set_flag.
  assert (Hin : In v (bm_bits_values m) <-> bit_of m v = true) by (rewrite in_bits_values; tauto).
  assert (Hx : forall x, In x (bm_bits_values (fst (bm_bits_set m v))) <-> x = v \/ In x (bm_bits_values m)).
  { intro x. rewrite !in_bits_values, bits_set_bit. destruct (N.eqb_spec x v) as [->|Hne]; cbn [orb]; [tauto|].
    split; [tauto|]. intros [E|H]; [congruence|exact H]. }
  pose proof (popsum_set m v Hv) as P. pose proof (popsum_le (fst (bm_bits_set m v))) as L.
  destruct (bit_of m v) eqn:B; cbn [negb fst snd].
  - split; [|split; [exact Hx|]].
    + unfold bm_Inv. cbn [bm_c bm_card]. split; [apply bits_set_bytes; exact Hb|lia].
    + split; [intro Hd; discriminate Hd|]. intro H. exfalso. apply H. apply (proj2 Hin). reflexivity.
  - split; [|split; [exact Hx|]].
    + unfold bm_Inv. cbn [bm_c bm_card]. split; [apply bits_set_bytes; exact Hb|]. rewrite u32_small by lia. lia.
    + split; [intros _ H; apply (proj1 Hin) in H; discriminate H|reflexivity].
Qed.

Lemma add_array_spec card R cap v : arr_ok card R cap -> v < 65536 ->
  add_post (bm_add_array card R cap v) v (rev R).
Proof.
  intros (Hc & Hs & Hb & Hcap) Hv. unfold bm_add_array, add_post.
  assert (Hle : bm_lenN R <= 65536).
  { pose proof (sorted_length_le (rev R) Hs) as H. rewrite lenN_rev in H. apply H. intros x Hx. apply Hb, in_rev. exact Hx. }
  assert (Hlen : bm_lenN (rev R) < 2147483648) by (rewrite lenN_rev; lia).
  pose proof (binary_search_spec (rev R) v Hs Hlen) as P. rewrite rev_involutive, lenN_rev, <- Hc in P.
  pose proof (bs_found_iff (rev R) v _ Hs P) as F.
  set (r := bm_binary_search R card v) in *.
  destruct (0 <=? r)%Z eqn:E.
  - (* already present *)
    cbn [fst snd]. split; [|split].
    + unfold bm_Inv. cbn [bm_c bm_card]. repeat split; assumption.
    + intro x. unfold bm_abs, bm_iter_all. cbn [bm_c]. rewrite arr_values_rev. split; [tauto|].
      intros [->|H]; [apply (proj1 F); lia|exact H].
    + split; [intro Hd; discriminate Hd|]. intro H. exfalso. apply H. apply (proj1 F). lia.
  - assert (Hnot : ~ In v (rev R)) by (intro H; apply (proj2 F) in H; lia).
    destruct P as [_ P2]. assert (Hr : (r < 0)%Z) by lia. specialize (P2 Hr). cbv zeta in P2.
    destruct P2 as (Pp & PL & PR). set (p := Z.to_nat (- (r + 1))) in *.
    destruct (4096 <=? card) eqn:E4.
    + (* conversion to a bitmap *)
      cbn [fst snd]. unfold bm_array_to_bits. rewrite arr_values_rev.
      set (m := bm_set_all bm_zero_bits (rev R)).
      assert (Hbound : forall x, In x (rev R) -> x < 65536) by (intros x Hx; apply Hb, in_rev; exact Hx).
      assert (Hm1 : bytes_in m) by (apply set_all_bytes, bytes_in_zero).
      assert (Hm2 : popsum m = card) by (unfold m; rewrite set_all_zero_popsum by assumption; rewrite lenN_rev; lia).
      assert (Hm3 : bm_bits_values m = rev R) by (apply set_all_zero_values; assumption).
      assert (Hbit : bit_of m v = false).
      { destruct (bit_of m v) eqn:B; [|reflexivity]. exfalso. apply Hnot. rewrite <- Hm3. apply (proj2 (in_bits_values _ _)). tauto. }
      pose proof (popsum_set m v Hv) as Q. rewrite Hbit in Q.
      split; [|split].
      * unfold bm_Inv. cbn [bm_c bm_card]. split; [apply bits_set_bytes; exact Hm1|]. rewrite u32_small by lia. lia.
      * intro x. unfold bm_abs, bm_iter_all. cbn [bm_c]. rewrite in_bits_values, bits_set_bit.
        rewrite <- Hm3. rewrite in_bits_values.
        destruct (N.eqb_spec x v) as [->|Hne]; cbn [orb]; [tauto|]. split; [tauto|]. intros [Ee|H]; [congruence|exact H].
      * tauto.
    + (* insertion *)
      cbn [fst snd].
      assert (Ep : card - Z.to_N (- (r + 1)) = bm_lenN (rev R) - N.of_nat p) by (rewrite lenN_rev; unfold p; lia).
      assert (Hrev : rev (bm_insertN R (card - Z.to_N (- (r + 1))) v) = firstn p (rev R) ++ v :: skipn p (rev R)).
      { rewrite Ep. rewrite <- (rev_involutive R) at 1. apply insert_rev. exact Pp. }
      split; [|split].
      * unfold bm_Inv. cbn [bm_c bm_card]. rewrite !u32_small by lia.
        assert (Hl : bm_lenN (bm_insertN R (card - Z.to_N (- (r + 1))) v) = card + 1).
        { rewrite <- lenN_rev, Hrev, lenN_app, lenN_cons. unfold bm_lenN in *.
          rewrite firstn_length, skipn_length, rev_length in *. lia. }
        repeat split.
        -- lia.
        -- rewrite Hrev. apply sorted_insert; assumption.
        -- intros x Hx. apply in_rev in Hx. rewrite Hrev in Hx. apply (proj1 (in_insert _ _ _ _)) in Hx.
           destruct Hx as [->|Hx]; [exact Hv|apply Hb, in_rev; exact Hx].
        -- rewrite Hl. apply ensure_capacity_ge.
      * intro x. unfold bm_abs, bm_iter_all. cbn [bm_c]. rewrite arr_values_rev, Hrev. apply in_insert.
      * tauto.
Qed.

Lemma abs_array c R cap : bm_abs (mkBM c (BmArray R cap)) = rev R.
Proof. unfold bm_abs, bm_iter_all. cbn [bm_c]. apply arr_values_rev. Qed.

Lemma runs_as_bits card runs cap : runs_inv card runs cap ->
  bits_ok card (bm_runs_to_bits runs) /\ bm_bits_values (bm_runs_to_bits runs) = bm_runs_values runs.
Proof.
  intros (H & Hc & _). rewrite runs_to_bits_spec.
  assert (Hs := sorted_runs_values _ _ H).
  assert (Hb : forall x, In x (bm_runs_values runs) -> x < 65536) by (intros x Hx; pose proof (runs_values_bounds _ _ _ H Hx); lia).
  split; [split|].
  - apply set_all_bytes, bytes_in_zero.
  - rewrite set_all_zero_popsum by assumption. rewrite (length_runs_values _ _ H). exact Hc.
  - apply set_all_zero_values; assumption.
Qed.

Lemma runs_as_array card runs cap cap' : runs_inv card runs cap -> card <= cap' ->
  arr_ok card (bm_arr_of_values (bm_runs_values runs)) cap' /\
  rev (bm_arr_of_values (bm_runs_values runs)) = bm_runs_values runs.
Proof.
  intros (H & Hc & _) Hcap. rewrite arr_of_values_rev, rev_involutive. split; [|reflexivity].
  unfold arr_ok. rewrite rev_involutive, lenN_rev, (length_runs_values _ _ H).
  repeat split; [exact Hc|apply (sorted_runs_values _ _ H)| |lia].
  intros x Hx. apply in_rev in Hx. pose proof (runs_values_bounds _ _ _ H Hx). lia.
Qed.

Lemma runs_inv_card_le card runs cap : runs_inv card runs cap -> card <= 65536.
Proof. intros (H & -> & _). pose proof (runs_sum_le 0 runs H). lia. Qed.

Theorem add_spec s v : bm_Inv s -> v < 65536 -> add_post (bm_add s v) v (bm_abs s).
Proof.
  intros H Hv. unfold bm_add. unfold bm_Inv in H. unfold bm_abs at 1, bm_iter_all.
  destruct (bm_c s) as [R cap|m|runs cap].
  - rewrite arr_values_rev. apply add_array_spec; assumption.
  - apply add_bits_spec; assumption.
  - pose proof (runs_inv_card_le _ _ _ H) as Hle.
    destruct (4096 <=? bm_card s) eqn:E.
    + destruct (runs_as_bits _ _ _ H) as [Hb Hval].
      pose proof (add_bits_spec _ _ v Hb Hv) as Q. rewrite Hval in Q. exact Q.
    + assert (Hcap : bm_card s <= bm_u32 (bm_card s + 1)) by (rewrite u32_small by lia; lia).
      destruct (runs_as_array _ _ _ _ H Hcap) as [Ha Hval].
      pose proof (add_array_spec _ _ _ v Ha Hv) as Q. rewrite Hval in Q. exact Q.
Qed.

(* ---- Remove ---- *)
Definition remove_post (res : bm_state * bool) (v : N) (old : list N) : Prop :=
  bm_Inv (fst res) /\ (forall x, In x (bm_abs (fst res)) <-> In x old /\ x <> v) /\
  (snd res = true <-> In v old).

Lemma remove_array_spec card R cap v : arr_ok card R cap ->
  remove_post (bm_remove_array card R cap v) v (rev R).
Proof.
  intros (Hc & Hs & Hb & Hcap). unfold bm_remove_array, remove_post.
  assert (Hle : bm_lenN R <= 65536).
  { pose proof (sorted_length_le (rev R) Hs) as H. rewrite lenN_rev in H. apply H. intros x Hx. apply Hb, in_rev. exact Hx. }
  assert (Hlen : bm_lenN (rev R) < 2147483648) by (rewrite lenN_rev; lia).
  pose proof (binary_search_spec (rev R) v Hs Hlen) as P. rewrite rev_involutive, lenN_rev, <- Hc in P.
  pose proof (bs_found_iff (rev R) v _ Hs P) as F.
  set (r := bm_binary_search R card v) in *.
  destruct (r <? 0)%Z eqn:E.
  - assert (Hnot : ~ In v (rev R)) by (intro H; apply (proj2 F) in H; lia).
    cbn [fst snd]. split; [|split].
    + unfold bm_Inv. cbn [bm_c bm_card]. repeat split; assumption.
    + intro x. rewrite abs_array. split; [intro H; split; [exact H|intro; subst; contradiction]|tauto].
    + split; [intro Hd; discriminate Hd|intro H; contradiction].
  - destruct P as [P1 _]. assert (Hr : (0 <= r)%Z) by lia. specialize (P1 Hr). destruct P1 as [Plt Pv].
    assert (Hin : In v (rev R)) by (apply (proj1 F); exact Hr).
    cbn [fst snd]. set (r' := Z.to_nat r) in *.
    assert (Hlr : (r' < length (rev R))%nat) by exact Plt.
    assert (Ep : card - 1 - Z.to_N r = bm_lenN (rev R) - 1 - N.of_nat r') by (rewrite lenN_rev; unfold r'; lia).
    assert (Hrev : rev (bm_removeN R (card - 1 - Z.to_N r)) = firstn r' (rev R) ++ skipn (S r') (rev R)).
    { rewrite Ep. rewrite <- (rev_involutive R) at 1. apply remove_rev. exact Hlr. }
    destruct (sorted_remove (rev R) r' Hs Hlr) as [Q1 Q2]. rewrite Pv in Q2.
    assert (Hl : bm_lenN (bm_removeN R (card - 1 - Z.to_N r)) + 1 = card).
    { rewrite <- lenN_rev, Hrev, lenN_app. unfold bm_lenN in *.
      rewrite firstn_length, skipn_length in *. rewrite rev_length in *. lia. }
    split; [|split].
    + unfold bm_Inv. cbn [bm_c bm_card]. rewrite sub32_small by lia. repeat split.
      * lia.
      * rewrite Hrev. exact Q1.
      * intros x Hx. apply in_rev in Hx. rewrite Hrev in Hx. apply (proj1 (Q2 x)) in Hx. apply Hb, in_rev. tauto.
      * lia.
    + intro x. rewrite abs_array, Hrev. apply Q2.
    + tauto.
Qed.

Lemma remove_bits_spec card m v : bits_ok card m -> v < 65536 ->
  remove_post (bm_remove_bits card m v) v (bm_bits_values m).
Proof.
  intros (Hb & Hc) Hv. unfold bm_remove_bits, remove_post. rewrite bits_clear_flag.
  set (m' := fst (bm_bits_clear m v)).
  assert (Hin : In v (bm_bits_values m) <-> bit_of m v = true) by (rewrite in_bits_values; tauto).
  assert (Hx : forall x, In x (bm_bits_values m') <-> In x (bm_bits_values m) /\ x <> v).
  { intro x. unfold m'. rewrite !in_bits_values, bits_clear_bit. destruct (N.eqb_spec x v) as [->|Hne]; cbn [negb].
    - rewrite andb_false_r. split; [intros [_ Hd]; discriminate Hd|intros [_ Hd]; congruence].
    - rewrite andb_true_r. tauto. }
  pose proof (popsum_clear m v Hv) as P. fold m' in P.
  assert (Hb' : bytes_in m') by (apply bits_clear_bytes; exact Hb).
  destruct (bit_of m v) eqn:B; cbn [fst snd].
  - assert (Hc1 : bm_sub32 card 1 = popsum m') by (pose proof (popsum_le m); rewrite sub32_small by lia; lia).
    destruct (bm_sub32 card 1 <? 4096) eqn:E4; cbn [fst snd].
    + split; [|split].
      * unfold bm_Inv. cbn [bm_c bm_card]. unfold arr_ok. rewrite arr_of_values_rev, rev_involutive, lenN_rev, length_bits_values.
        repeat split; [exact Hc1|apply sorted_bits_values| |lia].
        intros x Hxx. apply in_rev in Hxx. apply (proj1 (in_bits_values _ _)) in Hxx. tauto.
      * intro x. rewrite abs_array, arr_of_values_rev, rev_involutive. apply Hx.
      * split; [intros _; apply (proj2 Hin); reflexivity|reflexivity].
    + split; [|split].
      * unfold bm_Inv. cbn [bm_c bm_card]. split; assumption.
      * exact Hx.
      * split; [intros _; apply (proj2 Hin); reflexivity|reflexivity].
  - split; [|split].
    + unfold bm_Inv. cbn [bm_c bm_card]. split; [exact Hb'|lia].
    + exact Hx.
    + split; [intro Hd; discriminate Hd|]. intro H. apply (proj1 Hin) in H. discriminate H.
Qed.

Theorem remove_spec s v : bm_Inv s -> v < 65536 -> remove_post (bm_remove s v) v (bm_abs s).
Proof.
  intros H Hv. unfold bm_remove. unfold bm_Inv in H. unfold bm_abs at 1, bm_iter_all.
  destruct (bm_c s) as [R cap|m|runs cap].
  - rewrite arr_values_rev. apply remove_array_spec; assumption.
  - apply remove_bits_spec; assumption.
  - pose proof (runs_inv_card_le _ _ _ H) as Hle.
    destruct (4096 <=? bm_card s) eqn:E.
    + destruct (runs_as_bits _ _ _ H) as [Hb Hval].
      pose proof (remove_bits_spec _ _ v Hb Hv) as Q. rewrite Hval in Q. exact Q.
    + assert (Hcap : bm_card s <= bm_card s) by lia.
      destruct (runs_as_array _ _ _ _ H Hcap) as [Ha Hval].
      pose proof (remove_array_spec _ _ _ v Ha) as Q. rewrite Hval in Q. exact Q.
Qed.

(* ---- loops of Add / Remove ---- *)
Lemma fold_add_spec l : forall s, bm_Inv s -> (forall v, In v l -> v < 65536) ->
  let s' := fold_left (fun r v => fst (bm_add r v)) l s in
  bm_Inv s' /\ forall x, In x (bm_abs s') <-> In x l \/ In x (bm_abs s).
Proof.
  induction l as [|v l IH]; intros s H Hl; cbn [fold_left].
  - split; [exact H|]. intro x. cbn [In]. tauto.
  - destruct (add_spec s v H (Hl v (or_introl eq_refl))) as (I1 & I2 & _).
    destruct (IH _ I1 (fun w Hw => Hl w (or_intror Hw))) as [J1 J2]. split; [exact J1|].
    intro x. rewrite (J2 x), (I2 x). cbn [In]. split; [intros [A|[A|A]]|intros [[A|A]|A]]; auto.
Qed.

Lemma fold_remove_spec l : forall s, bm_Inv s -> (forall v, In v l -> v < 65536) ->
  let s' := fold_left (fun r v => fst (bm_remove r v)) l s in
  bm_Inv s' /\ forall x, In x (bm_abs s') <-> In x (bm_abs s) /\ ~ In x l.
Proof.
  induction l as [|v l IH]; intros s H Hl; cbn [fold_left].
  - split; [exact H|]. intro x. cbn [In]. tauto.
  - destruct (remove_spec s v H (Hl v (or_introl eq_refl))) as (I1 & I2 & _).
    destruct (IH _ I1 (fun w Hw => Hl w (or_intror Hw))) as [J1 J2]. split; [exact J1|].
    intro x. rewrite (J2 x), (I2 x). cbn [In]. split.
    + intros [[A B] C]. split; [exact A|]. intros [D|D]; [congruence|contradiction].
    + intros [A B]. split; [split; [exact A|intro; subst; apply B; left; reflexivity]|intro D; apply B; right; exact D].
Qed.

Lemma fold_left_ext {A B} (f g : A -> B -> A) l a : (forall x y, f x y = g x y) -> fold_left f l a = fold_left g l a.
Proof. intro H. revert a. induction l as [|y l IH]; intro a; [reflexivity|]. cbn [fold_left]. rewrite H. apply IH. Qed.

Lemma fold_add_if_spec (f : N -> bool) l : forall s, bm_Inv s -> (forall v, In v l -> v < 65536) ->
  let s' := fold_left (fun r v => if f v then fst (bm_add r v) else r) l s in
  bm_Inv s' /\ forall x, In x (bm_abs s') <-> (In x l /\ f x = true) \/ In x (bm_abs s).
Proof.
  induction l as [|v l IH]; intros s H Hl; cbn [fold_left].
  - split; [exact H|]. intro x. cbn [In]. tauto.
  - destruct (f v) eqn:Fv.
    + destruct (add_spec s v H (Hl v (or_introl eq_refl))) as (I1 & I2 & _).
      destruct (IH _ I1 (fun w Hw => Hl w (or_intror Hw))) as [J1 J2]. split; [exact J1|].
      intro x. rewrite (J2 x), (I2 x). cbn [In]. split.
      * intros [[A B]|[A|A]]; [left; tauto|left; subst; tauto|right; exact A].
      * intros [[[A|A] B]|A]; [right; left; congruence|left; tauto|right; right; exact A].
    + destruct (IH _ H (fun w Hw => Hl w (or_intror Hw))) as [J1 J2]. split; [exact J1|].
      intro x. rewrite (J2 x). cbn [In]. split.
      * intros [[A B]|A]; [left; tauto|right; exact A].
      * intros [[[A|A] B]|A]; [subst; congruence|left; tauto|right; exact A].
Qed.

Theorem add_many_spec s vs : bm_Inv s -> (forall v, In v vs -> v < 65536) ->
  bm_Inv (bm_add_many s vs) /\ forall x, In x (bm_abs (bm_add_many s vs)) <-> In x vs \/ In x (bm_abs s).
Proof. intros H Hv. apply (fold_add_spec vs s H Hv). Qed.

Lemma abs_nil_of_card0 s : bm_Inv s -> bm_card s = 0 -> bm_abs s = [].
Proof.
  intros H E. pose proof (inv_card s H) as C. rewrite E in C. destruct (bm_abs s); [reflexivity|].
  unfold bm_lenN in C. cbn in C. lia.
Qed.

Theorem add_range_spec s lo hi : bm_Inv s -> lo < 65536 -> hi < 65536 ->
  bm_Inv (bm_add_range s lo hi) /\
  forall x, In x (bm_abs (bm_add_range s lo hi)) <-> (lo <= x < hi) \/ In x (bm_abs s).
Proof.
  intros H Hlo Hhi. unfold bm_add_range. destruct (hi <=? lo) eqn:E.
  - split; [exact H|]. intro x. split; [tauto|]. intros [A|A]; [lia|exact A].
  - destruct ((4096 <? hi - lo) && (bm_card s =? 0)) eqn:E2.
    + assert (E0 : bm_card s = 0) by lia. rewrite (abs_nil_of_card0 s H E0). rewrite u16_small by lia.
      split.
      * unfold bm_Inv, runs_inv. cbn [bm_c bm_card runs_ok runs_sum fst snd]. unfold bm_lenN. cbn [length]. repeat split; lia.
      * intro x. unfold bm_abs, bm_iter_all. cbn [bm_c]. unfold bm_runs_values. cbn [flat_map]. rewrite app_nil_r.
        rewrite in_run_vals by (cbn [fst snd]; lia). cbn [fst snd In]. lia.
    + rewrite for_loop_spec.
      assert (Hl : forall v, In v (nseq lo (N.to_nat (hi - lo))) -> v < 65536) by (intros v Hv; apply in_nseq in Hv; lia).
      destruct (fold_add_spec _ s H Hl) as [J1 J2]. split; [exact J1|].
      intro x. rewrite (J2 x), in_nseq.
      assert (A : lo <= x < lo + N.of_nat (N.to_nat (hi - lo)) <-> lo <= x < hi) by lia. tauto.
Qed.

Theorem remove_range_spec s lo hi : bm_Inv s -> lo < 65536 -> hi < 65536 ->
  bm_Inv (bm_remove_range s lo hi) /\
  forall x, In x (bm_abs (bm_remove_range s lo hi)) <-> In x (bm_abs s) /\ ~ (lo <= x < hi).
Proof.
  intros H Hlo Hhi. unfold bm_remove_range. rewrite for_loop_spec.
  assert (Hl : forall v, In v (nseq lo (N.to_nat (hi - lo))) -> v < 65536) by (intros v Hv; apply in_nseq in Hv; lia).
  destruct (fold_remove_spec _ s H Hl) as [J1 J2]. split; [exact J1|].
  intro x. rewrite (J2 x), in_nseq.
  assert (A : lo <= x < lo + N.of_nat (N.to_nat (hi - lo)) <-> lo <= x < hi) by lia. tauto.
Qed.

(* ---- set operations ---- *)
Lemma and_arrays_nil_l l2 r : bm_and_arrays [] l2 r = r.
Proof. destruct l2; reflexivity. Qed.
Lemma and_arrays_nil_r l1 r : bm_and_arrays l1 [] r = r.
Proof. destruct l1; reflexivity. Qed.
Lemma and_arrays_cons v1 t1 v2 t2 r :
  bm_and_arrays (v1 :: t1) (v2 :: t2) r =
  if v1 =? v2 then bm_and_arrays t1 t2 (fst (bm_add r v1))
  else if v1 <? v2 then bm_and_arrays t1 (v2 :: t2) r
  else bm_and_arrays (v1 :: t1) t2 r.
Proof. reflexivity. Qed.

Lemma and_arrays_spec l1 : forall l2 r, sorted l1 -> sorted l2 -> (forall v, In v l1 -> v < 65536) -> bm_Inv r ->
  let s' := bm_and_arrays l1 l2 r in
  bm_Inv s' /\ forall x, In x (bm_abs s') <-> (In x l1 /\ In x l2) \/ In x (bm_abs r).
Proof.
  induction l1 as [|v1 t1 IH1]; intros l2 r S1 S2 B1 Hr.
  - rewrite and_arrays_nil_l. split; [exact Hr|]. intro x. cbn [In]. tauto.
  - revert r Hr. induction l2 as [|v2 t2 IH2]; intros r Hr.
    + rewrite and_arrays_nil_r. split; [exact Hr|]. intro x. cbn [In]. tauto.
    + rewrite and_arrays_cons.
      destruct (sorted_cons_inv _ _ S1) as [S1' H1]. destruct (sorted_cons_inv _ _ S2) as [S2' H2].
      destruct (N.eqb_spec v1 v2) as [<-|Hne].
      * destruct (add_spec r v1 Hr (B1 v1 (or_introl eq_refl))) as (I1 & I2 & _).
        destruct (IH1 t2 _ S1' S2' (fun w Hw => B1 w (or_intror Hw)) I1) as [J1 J2]. split; [exact J1|].
        intro x. rewrite (J2 x), (I2 x). cbn [In]. split.
        -- intros [[A B]|[A|A]]; [left; tauto|left; subst; tauto|right; exact A].
        -- intros [[[A|A] [B|B]]|A];
             [right; left; congruence|right; left; congruence|right; left; congruence|left; tauto|right; right; exact A].
      * destruct (v1 <? v2) eqn:E.
        -- destruct (IH1 (v2 :: t2) r S1' S2 (fun w Hw => B1 w (or_intror Hw)) Hr) as [J1 J2]. split; [exact J1|].
           intro x. rewrite (J2 x). cbn [In]. split.
           ++ intros [[A B]|A]; [left; tauto|right; exact A].
           ++ intros [[[A|A] [B|B]]|A];
                [congruence|specialize (H2 _ B); lia|left; split; [exact A|left; exact B]|left; split; [exact A|right; exact B]|right; exact A].
        -- destruct (IH2 S2' r Hr) as [J1 J2]. split; [exact J1|].
           intro x. rewrite (J2 x). cbn [In]. split.
           ++ intros [[A B]|A]; [left; tauto|right; exact A].
           ++ intros [[[A|A] [B|B]]|A];
                [congruence|left; split; [left; exact A|exact B]|specialize (H1 _ A); lia|left; split; [right; exact A|exact B]|right; exact A].
Qed.

Definition inter_post (s' a b : bm_state) : Prop :=
  bm_Inv s' /\ forall x, In x (bm_abs s') <-> In x (bm_abs a) /\ In x (bm_abs b).

Lemma and_general a b : bm_Inv a -> bm_Inv b ->
  inter_post (fold_left (fun r v => if bm_contains b v then fst (bm_add r v) else r) (bm_abs a) bm_create) a b.
Proof.
  intros Ha Hb.
  destruct (fold_add_if_spec (bm_contains b) (bm_abs a) bm_create inv_create (fun v Hv => inv_bound a v Ha Hv)) as [J1 J2].
  split; [exact J1|]. intro x. rewrite (J2 x), abs_create. cbn [In]. split.
  - intros [[A B]|[]]. split; [exact A|]. apply (proj1 (contains_spec b x Hb (inv_bound a x Ha A))). exact B.
  - intros [A B]. left. split; [exact A|]. apply (proj2 (contains_spec b x Hb (inv_bound a x Ha A))). exact B.
Qed.

Theorem and_spec a b : bm_Inv a -> bm_Inv b ->
  bm_Inv (bm_and a b) /\ forall x, In x (bm_abs (bm_and a b)) <-> In x (bm_abs a) /\ In x (bm_abs b).
Proof.
  intros Ha Hb. unfold bm_and. destruct (bm_is_array a && bm_is_array b).
  - destruct (and_arrays_spec (bm_iter_all a) (bm_iter_all b) bm_create (inv_sorted a Ha) (inv_sorted b Hb)
                (fun v Hv => inv_bound a v Ha Hv) inv_create) as [J1 J2].
    split; [exact J1|]. intro x. rewrite (J2 x), abs_create. cbn [In]. unfold bm_abs. tauto.
  - destruct (bm_card a <? bm_card b).
    + apply (and_general a b Ha Hb).
    + destruct (and_general b a Hb Ha) as [J1 J2]. split; [exact J1|]. intro x. rewrite (J2 x). tauto.
Qed.

Theorem or_spec a b : bm_Inv a -> bm_Inv b ->
  bm_Inv (bm_or a b) /\ forall x, In x (bm_abs (bm_or a b)) <-> In x (bm_abs a) \/ In x (bm_abs b).
Proof.
  intros Ha Hb. unfold bm_or. rewrite clone_eq.
  destruct (fold_add_spec (bm_iter_all b) a Ha (fun v Hv => inv_bound b v Hb Hv)) as [J1 J2].
  split; [exact J1|]. intro x. rewrite (J2 x). unfold bm_abs. tauto.
Qed.

Lemma diff_general a b r : bm_Inv a -> bm_Inv b -> bm_Inv r ->
  let s' := fold_left (fun r v => if bm_contains b v then r else fst (bm_add r v)) (bm_abs a) r in
  bm_Inv s' /\ forall x, In x (bm_abs s') <-> (In x (bm_abs a) /\ ~ In x (bm_abs b)) \/ In x (bm_abs r).
Proof.
  intros Ha Hb Hr. cbv zeta.
  rewrite (fold_left_ext _ (fun r v => if negb (bm_contains b v) then fst (bm_add r v) else r))
    by (intros y z; destruct (bm_contains b z); reflexivity).
  destruct (fold_add_if_spec (fun v => negb (bm_contains b v)) (bm_abs a) r Hr (fun v Hv => inv_bound a v Ha Hv)) as [J1 J2].
  split; [exact J1|]. intro x. rewrite (J2 x). split.
  - intros [[A B]|A]; [left|right; exact A]. split; [exact A|]. intro C.
    apply (proj2 (contains_spec b x Hb (inv_bound a x Ha A))) in C. rewrite C in B. discriminate B.
  - intros [[A B]|A]; [left|right; exact A]. split; [exact A|].
    destruct (bm_contains b x) eqn:C; [|reflexivity]. exfalso. apply B.
    apply (proj1 (contains_spec b x Hb (inv_bound a x Ha A))). exact C.
Qed.

Theorem andnot_spec a b : bm_Inv a -> bm_Inv b ->
  bm_Inv (bm_andnot a b) /\ forall x, In x (bm_abs (bm_andnot a b)) <-> In x (bm_abs a) /\ ~ In x (bm_abs b).
Proof.
  intros Ha Hb. unfold bm_andnot. destruct (diff_general a b bm_create Ha Hb inv_create) as [J1 J2].
  split; [exact J1|]. intro x. rewrite (J2 x), abs_create. cbn [In]. tauto.
Qed.

Theorem xor_spec a b : bm_Inv a -> bm_Inv b ->
  bm_Inv (bm_xor a b) /\
  forall x, In x (bm_abs (bm_xor a b)) <-> (In x (bm_abs a) /\ ~ In x (bm_abs b)) \/ (In x (bm_abs b) /\ ~ In x (bm_abs a)).
Proof.
  intros Ha Hb. unfold bm_xor. destruct (diff_general a b bm_create Ha Hb inv_create) as [I1 I2].
  destruct (diff_general b a _ Hb Ha I1) as [J1 J2].
  split; [exact J1|]. intro x. rewrite (J2 x), (I2 x), abs_create. cbn [In]. tauto.
Qed.
