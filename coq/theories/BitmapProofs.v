(* BitmapProofs.v — C08: the representation invariant, the abstraction to an
   ascending duplicate-free list, and every operation of varintBitmap.h against
   the corresponding set operation. *)
Require Import VV.Base VV.BaseProofs VV.Bitmap VV.BitmapLemmas VV.BitmapProofsBits VV.BitmapProofsArr VV.BitmapProofsRuns.
From Coq Require Import Lia ZifyBool ZifyN ZifyNat Sorted Arith.
Local Open Scope N_scope.
Ltac Zify.zify_post_hook ::= Z.div_mod_to_equations.

(* the set held by a bitmap, as the ascending list of its members *)
Definition bm_abs (s : bm_state) : list N := bm_iter_all s.

Definition arr_ok (card : N) (rvals : list N) (cap : N) : Prop :=
  card = bm_lenN rvals /\ sorted (rev rvals) /\ (forall x, In x rvals -> x < 65536) /\ bm_lenN rvals <= cap.
Definition bits_ok (card : N) (bits : bm_mem8) : Prop := bytes_in bits /\ card = popsum bits.
Definition runs_inv (card : N) (runs : list (N * N)) (cap : N) : Prop :=
  runs_ok 0 runs /\ card = runs_sum runs /\ bm_lenN runs <= cap.

Definition bm_Inv (s : bm_state) : Prop :=
  match bm_c s with
  | BmArray rvals cap => arr_ok (bm_card s) rvals cap
  | BmBits bits => bits_ok (bm_card s) bits
  | BmRuns runs cap => runs_inv (bm_card s) runs cap
  end.

Lemma arr_values_rev l : bm_arr_values l = rev l.
Proof. apply rev_append_nil. Qed.
Lemma arr_of_values_rev l : bm_arr_of_values l = rev l.
Proof. apply rev_append_nil. Qed.

Lemma sorted_length_le l : sorted l -> (forall x, In x l -> x < 65536) -> bm_lenN l <= 65536.
Proof.
  intros Hs Hb. unfold bm_lenN.
  assert (H : (length l <= length (nseq 0 (N.to_nat 65536)))%nat).
  { apply NoDup_incl_length; [apply sorted_NoDup; exact Hs|]. intros x Hx. apply in_nseq. specialize (Hb _ Hx). lia. }
  rewrite nseq_length in H. lia.
Qed.

Lemma runs_sum_le lo runs : runs_ok lo runs -> lo <= 65536 -> lo + runs_sum runs <= 65536.
Proof.
  revert lo. induction runs as [|r t IH]; intros lo H Hlo; cbn [runs_sum]; [lia|].
  destruct H as (A & B & C & D). specialize (IH _ D C). lia.
Qed.

(* ---- what the invariant gives ---- *)
Lemma inv_sorted s : bm_Inv s -> sorted (bm_abs s).
Proof.
  unfold bm_Inv, bm_abs, bm_iter_all. destruct (bm_c s) as [R cap|m|runs cap].
  - intros (_ & Hs & _). rewrite arr_values_rev. exact Hs.
  - intros _. apply sorted_bits_values.
  - intros (H & _). apply (sorted_runs_values _ _ H).
Qed.

Lemma inv_bound s x : bm_Inv s -> In x (bm_abs s) -> x < 65536.
Proof.
  unfold bm_Inv, bm_abs, bm_iter_all. destruct (bm_c s) as [R cap|m|runs cap].
  - intros (_ & _ & Hb & _) Hx. rewrite arr_values_rev in Hx. apply Hb. apply in_rev. exact Hx.
  - intros _ Hx. apply in_bits_values in Hx. tauto.
  - intros (H & _) Hx. pose proof (runs_values_bounds _ _ _ H Hx). lia.
Qed.

Lemma inv_card s : bm_Inv s -> bm_card s = bm_lenN (bm_abs s).
Proof.
  unfold bm_Inv, bm_abs, bm_iter_all. destruct (bm_c s) as [R cap|m|runs cap].
  - intros (Hc & _). rewrite arr_values_rev, lenN_rev. exact Hc.
  - intros (_ & Hc). rewrite length_bits_values. exact Hc.
  - intros (H & Hc & _). rewrite (length_runs_values _ _ H). exact Hc.
Qed.

Lemma inv_card_le s : bm_Inv s -> bm_card s <= 65536.
Proof.
  intro H. rewrite (inv_card s H). apply sorted_length_le; [apply inv_sorted; exact H|].
  intros x Hx. apply (inv_bound s x H Hx).
Qed.

Lemma contains_spec s v : bm_Inv s -> v < 65536 -> (bm_contains s v = true <-> In v (bm_abs s)).
Proof.
  unfold bm_Inv, bm_abs, bm_iter_all, bm_contains. destruct (bm_c s) as [R cap|m|runs cap].
  - intros (Hc & Hs & Hb & _) Hv. rewrite arr_values_rev, Hc.
    assert (Hlen : bm_lenN (rev R) < 2147483648).
    { rewrite lenN_rev. pose proof (sorted_length_le (rev R) Hs). rewrite lenN_rev in H.
      assert (bm_lenN R <= 65536) by (apply H; intros x Hx; apply Hb, in_rev; exact Hx). lia. }
    pose proof (binary_search_spec (rev R) v Hs Hlen) as P. rewrite rev_involutive, lenN_rev in P.
    rewrite <- (bs_found_iff (rev R) v _ Hs P). lia.
  - intros _ Hv. rewrite bits_contains_spec, in_bits_values. tauto.
  - intros (H & _) _. apply (runs_contains_spec _ _ _ H).
Qed.

(* ---- create / clone / clear ---- *)
Lemma inv_create : bm_Inv bm_create.
Proof. unfold bm_Inv, bm_create, arr_ok. cbn. repeat split; [constructor|intros x []|lia]. Qed.
Lemma abs_create : bm_abs bm_create = [].
Proof. reflexivity. Qed.

Lemma clone_eq s : bm_clone s = s.
Proof. destruct s as [c [R cap|m|runs cap]]; reflexivity. Qed.

Lemma inv_clear s : bm_Inv s -> bm_Inv (bm_clear s) /\ bm_abs (bm_clear s) = [].
Proof.
  unfold bm_Inv, bm_clear, bm_abs, bm_iter_all. destruct (bm_c s) as [R cap|m|runs cap]; cbn [bm_c bm_card].
  - intros (_ & _ & _ & Hcap). split; [|reflexivity]. unfold arr_ok. cbn. repeat split; [constructor|intros x []|lia].
  - intros _. split.
    + split; [apply bytes_in_zero|]. unfold bm_zero_bits. rewrite popsum_zero. reflexivity.
    + apply sorted_ext; [apply sorted_bits_values|constructor|]. intro x. rewrite in_bits_values.
      unfold bm_zero_bits. rewrite bit_of_zero. split; [intros [_ H]; discriminate|intros []].
  - intros (_ & _ & Hcap). split; [|reflexivity]. unfold runs_inv. cbn. repeat split; lia.
Qed.

(* ---- Add ---- *)
Lemma ensure_capacity_ge cap needed : needed <= bm_ensure_capacity cap needed.
Proof.
  unfold bm_ensure_capacity. destruct (needed <=? cap) eqn:E; [lia|].
  destruct (bm_u32 (cap * 2) <? needed) eqn:F; lia.
Qed.

Definition add_post (res : bm_state * bool) (v : N) (old : list N) : Prop :=
  bm_Inv (fst res) /\ (forall x, In x (bm_abs (fst res)) <-> x = v \/ In x old) /\
  (snd res = true <-> ~ In v old).

Lemma bits_ok_values card m : bits_ok card m -> card <= 65536.
Proof. intros (_ & ->). apply popsum_le. Qed.

Lemma add_bits_spec card m v : bits_ok card m -> v < 65536 ->
  add_post (bm_add_bits card m v) v (bm_bits_values m).
Proof.
  intros (Hb & Hc) Hv. unfold bm_add_bits, add_post. rewrite bits_set_flag.
  assert (Hin : In v (bm_bits_values m) <-> bit_of m v = true) by (rewrite in_bits_values; tauto).
  assert (Hx : forall x, In x (bm_bits_values (fst (bm_bits_set m v))) <-> x = v \/ In x (bm_bits_values m)).
  { intro x. rewrite !in_bits_values, bits_set_bit. destruct (N.eqb_spec x v) as [->|Hne]; cbn [orb]; [tauto|].
    split; [tauto|]. intros [E|H]; [congruence|exact H]. }
  pose proof (popsum_set m v Hv) as P. pose proof (popsum_le (fst (bm_bits_set m v))) as L.
  destruct (bit_of m v) eqn:B; cbn [negb fst snd].
  - split; [|split; [exact Hx|]].
    + unfold bm_Inv. cbn [bm_c bm_card]. split; [apply bits_set_bytes; exact Hb|lia].
    + split; [discriminate|]. intro H. exfalso. apply H, Hin. reflexivity.
  - split; [|split; [exact Hx|]].
    + unfold bm_Inv. cbn [bm_c bm_card]. split; [apply bits_set_bytes; exact Hb|]. rewrite u32_small by lia. lia.
    + split; [intros _ H; apply Hin in H; discriminate|reflexivity].
Qed.

Lemma add_array_spec card R cap v : arr_ok card R cap -> v < 65536 ->
  add_post (bm_add_array card R cap v) v (rev R).
Proof.
  intros (Hc & Hs & Hb & Hcap) Hv. unfold bm_add_array, add_post.
  assert (Hle : bm_lenN R <= 65536).
  { pose proof (sorted_length_le (rev R) Hs) as H. rewrite lenN_rev in H. apply H. intros x Hx. apply Hb, in_rev. exact Hx. }
  assert (Hlen : bm_lenN (rev R) < 2147483648) by (rewrite lenN_rev; lia).
  pose proof (binary_search_spec (rev R) v Hs Hlen) as P. rewrite rev_involutive, lenN_rev, <- Hc in P.
  pose proof (bs_found_iff (rev R) v _ Hs P) as F.
  set (r := bm_binary_search R card v) in *.
  destruct (0 <=? r)%Z eqn:E.
  - (* already present *)
    cbn [fst snd]. split; [|split].
    + unfold bm_Inv. cbn [bm_c bm_card]. repeat split; assumption.
    + intro x. unfold bm_abs, bm_iter_all. cbn [bm_c]. rewrite arr_values_rev. split; [tauto|].
      intros [->|H]; [apply F; lia|exact H].
    + split; [discriminate|]. intro H. exfalso. apply H, F. lia.
  - assert (Hnot : ~ In v (rev R)) by (intro H; apply F in H; lia).
    destruct P as [_ P2]. assert (Hr : (r < 0)%Z) by lia. specialize (P2 Hr). cbv zeta in P2.
    destruct P2 as (Pp & PL & PR). set (p := Z.to_nat (- (r + 1))) in *.
    destruct (4096 <=? card) eqn:E4.
    + (* conversion to a bitmap *)
      cbn [fst snd]. unfold bm_array_to_bits. rewrite arr_values_rev.
      set (m := bm_set_all bm_zero_bits (rev R)).
      assert (Hbound : forall x, In x (rev R) -> x < 65536) by (intros x Hx; apply Hb, in_rev; exact Hx).
      assert (Hm1 : bytes_in m) by (apply set_all_bytes, bytes_in_zero).
      assert (Hm2 : popsum m = card) by (unfold m; rewrite set_all_zero_popsum by assumption; rewrite lenN_rev; lia).
      assert (Hm3 : bm_bits_values m = rev R) by (apply set_all_zero_values; assumption).
      assert (Hbit : bit_of m v = false).
      { destruct (bit_of m v) eqn:B; [|reflexivity]. exfalso. apply Hnot. rewrite <- Hm3. apply in_bits_values. tauto. }
      pose proof (popsum_set m v Hv) as Q. rewrite Hbit in Q.
      split; [|split].
      * unfold bm_Inv. cbn [bm_c bm_card]. split; [apply bits_set_bytes; exact Hm1|]. rewrite u32_small by lia. lia.
      * intro x. unfold bm_abs, bm_iter_all. cbn [bm_c]. rewrite in_bits_values, bits_set_bit.
        rewrite <- Hm3 at 2. rewrite in_bits_values.
        destruct (N.eqb_spec x v) as [->|Hne]; cbn [orb]; [tauto|]. split; [tauto|]. intros [Ee|H]; [congruence|exact H].
      * tauto.
    + (* insertion *)
      cbn [fst snd].
      assert (Ep : card - Z.to_N (- (r + 1)) = bm_lenN (rev R) - N.of_nat p) by (rewrite lenN_rev; unfold p; lia).
      assert (Hrev : rev (bm_insertN R (card - Z.to_N (- (r + 1))) v) = firstn p (rev R) ++ v :: skipn p (rev R)).
      { rewrite Ep. rewrite <- (rev_involutive R) at 1. apply insert_rev. exact Pp. }
      split; [|split].
      * unfold bm_Inv. cbn [bm_c bm_card]. rewrite !u32_small by lia.
        assert (Hl : bm_lenN (bm_insertN R (card - Z.to_N (- (r + 1))) v) = card + 1).
        { rewrite <- lenN_rev, Hrev, lenN_app, lenN_cons. unfold bm_lenN in *.
          rewrite firstn_length, skipn_length, rev_length in *. lia. }
        repeat split.
        -- lia.
        -- rewrite Hrev. apply sorted_insert; assumption.
        -- intros x Hx. apply in_rev in Hx. rewrite Hrev in Hx. apply in_insert in Hx.
           destruct Hx as [->|Hx]; [exact Hv|apply Hb, in_rev; exact Hx].
        -- rewrite Hl. apply ensure_capacity_ge.
      * intro x. unfold bm_abs, bm_iter_all. cbn [bm_c]. rewrite arr_values_rev, Hrev. apply in_insert.
      * tauto.
Qed.

Lemma abs_array c R cap : bm_abs (mkBM c (BmArray R cap)) = rev R.
Proof. unfold bm_abs, bm_iter_all. cbn [bm_c]. apply arr_values_rev. Qed.

Lemma runs_as_bits card runs cap : runs_inv card runs cap ->
  bits_ok card (bm_runs_to_bits runs) /\ bm_bits_values (bm_runs_to_bits runs) = bm_runs_values runs.
Proof.
  intros (H & Hc & _). rewrite runs_to_bits_spec.
  assert (Hs := sorted_runs_values _ _ H).
  assert (Hb : forall x, In x (bm_runs_values runs) -> x < 65536) by (intros x Hx; pose proof (runs_values_bounds _ _ _ H Hx); lia).
  split; [split|].
  - apply set_all_bytes, bytes_in_zero.
  - rewrite set_all_zero_popsum by assumption. rewrite (length_runs_values _ _ H). exact Hc.
  - apply set_all_zero_values; assumption.
Qed.

Lemma runs_as_array card runs cap cap' : runs_inv card runs cap -> card <= cap' ->
  arr_ok card (bm_arr_of_values (bm_runs_values runs)) cap' /\
  rev (bm_arr_of_values (bm_runs_values runs)) = bm_runs_values runs.
Proof.
  intros (H & Hc & _) Hcap. rewrite arr_of_values_rev, rev_involutive. split; [|reflexivity].
  unfold arr_ok. rewrite rev_involutive, lenN_rev, (length_runs_values _ _ H).
  repeat split; [exact Hc|apply (sorted_runs_values _ _ H)| |lia].
  intros x Hx. apply in_rev in Hx. pose proof (runs_values_bounds _ _ _ H Hx). lia.
Qed.

Lemma runs_inv_card_le card runs cap : runs_inv card runs cap -> card <= 65536.
Proof. intros (H & -> & _). pose proof (runs_sum_le 0 runs H). lia. Qed.

Theorem add_spec s v : bm_Inv s -> v < 65536 -> add_post (bm_add s v) v (bm_abs s).
Proof.
  intros H Hv. unfold bm_add. unfold bm_Inv in H. unfold bm_abs at 1, bm_iter_all.
  destruct (bm_c s) as [R cap|m|runs cap].
  - rewrite arr_values_rev. apply add_array_spec; assumption.
  - apply add_bits_spec; assumption.
  - pose proof (runs_inv_card_le _ _ _ H) as Hle.
    destruct (4096 <=? bm_card s) eqn:E.
    + destruct (runs_as_bits _ _ _ H) as [Hb Hval]. rewrite <- Hval. apply add_bits_spec; assumption.
    + assert (Hcap : bm_card s <= bm_u32 (bm_card s + 1)) by (rewrite u32_small by lia; lia).
      destruct (runs_as_array _ _ _ _ H Hcap) as [Ha Hval]. rewrite <- Hval. apply add_array_spec; assumption.
Qed.
