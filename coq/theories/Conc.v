(* Conc.v — a small interleaving semantics for calls of stateless codecs:
   each thread is a deterministic program of atomic reads and writes over a
   shared memory.  Used by property C17. *)
From Coq Require Import List NArith Lia Bool.
Import ListNotations.

Definition loc := N.
Definition mem := loc -> N.
Definition upd (m : mem) (l : loc) (v : N) : mem :=
  fun l' => if N.eqb l' l then v else m l'.

(* a call: a tree of atomic memory actions ending in a result *)
Inductive prog :=
| Ret (r : list N)
| Rd (l : loc) (k : N -> prog)
| Wr (l : loc) (v : N) (k : prog).

(* every read is inside R or W, every write inside W, on every path *)
Inductive within (R W : loc -> Prop) : prog -> Prop :=
| within_ret r : within R W (Ret r)
| within_rd l k : (R l \/ W l) -> (forall v, within R W (k v)) -> within R W (Rd l k)
| within_wr l v k : W l -> within R W k -> within R W (Wr l v k).

(* running a call alone *)
Fixpoint run (m : mem) (p : prog) : mem * list N :=
  match p with
  | Ret r => (m, r)
  | Rd l k => run m (k (m l))
  | Wr l v k => run (upd m l v) k
  end.

(* one atomic step *)
Definition step1 (m : mem) (p : prog) : mem * prog :=
  match p with
  | Ret r => (m, Ret r)
  | Rd l k => (m, k (m l))
  | Wr l v k => (upd m l v, k)
  end.

(* the next memory access of a thread: location and whether it writes *)
Definition next_access (p : prog) : option (loc * bool) :=
  match p with
  | Ret _ => None
  | Rd l _ => Some (l, false)
  | Wr l _ _ => Some (l, true)
  end.

(* threads and schedules *)
Fixpoint set_nth {A} (l : list A) (i : nat) (x : A) : list A :=
  match l, i with
  | [], _ => []
  | _ :: t, O => x :: t
  | h :: t, S j => h :: set_nth t j x
  end.

Definition cstep (c : mem * list prog) (i : nat) : mem * list prog :=
  let (m, ps) := c in
  match nth_error ps i with
  | None => c
  | Some p => let (m', p') := step1 m p in (m', set_nth ps i p')
  end.

Definition crun (sched : list nat) (c : mem * list prog) : mem * list prog :=
  fold_left cstep sched c.

(* two threads race in a configuration when their next accesses touch the
   same location and at least one of them writes *)
Definition races (ps : list prog) : Prop :=
  exists i j pi pj l wi wj, i <> j /\
    nth_error ps i = Some pi /\ nth_error ps j = Some pj /\
    next_access pi = Some (l, wi) /\ next_access pj = Some (l, wj) /\
    (wi = true \/ wj = true).
