(* BitmapLemmas.v — generic lemmas used by the bm_state proofs: the N-indexed list
   primitives of Bitmap.v against nth/firstn/skipn, counted loops, byte memory,
   bit facts on bytes, strictly sorted lists. *)
Require Import VV.Base VV.BaseProofs VV.Bitmap VVgen.Consts.
From Coq Require Import Lia ZifyBool ZifyN ZifyNat Sorted FMapPositive Arith.
Local Open Scope N_scope.
Ltac Zify.zify_post_hook ::= Z.div_mod_to_equations.

(* the literals of the model are the header's constants *)
Lemma header_constants :
  VARINT_BITMAP_ARRAY = BM_ARRAY /\ VARINT_BITMAP_BITMAP = BM_BITMAP /\ VARINT_BITMAP_RUNS = BM_RUNS /\
  VARINT_BITMAP_MAX_VALUE = 65536 /\ VARINT_BITMAP_ARRAY_MAX = 4096 /\
  VARINT_BITMAP_BITMAP_SIZE = 8192 /\ VARINT_BITMAP_DEFAULT_ARRAY_CAPACITY = 16.
Proof. repeat split; reflexivity. Qed.

(* ---------------- bm_skipnN / bm_takeN ---------------- *)

Lemma skipn_add {A} (a b : nat) (l : list A) : skipn (a + b) l = skipn b (skipn a l).
Proof.
  revert l. induction a as [|a IH]; intro l; [reflexivity|].
  destruct l as [|x l]; [now rewrite !skipn_nil|]. cbn [Nat.add skipn]. apply IH.
Qed.

Lemma firstn_add {A} (a b : nat) (l : list A) :
  firstn (a + b) l = firstn a l ++ firstn b (skipn a l).
Proof.
  revert l. induction a as [|a IH]; intro l; [reflexivity|].
  destruct l as [|x l]; [now rewrite !firstn_nil|]. cbn [Nat.add firstn skipn app]. f_equal. apply IH.
Qed.

Lemma tl_skipn {A} (n : nat) (l : list A) : tl (skipn n l) = skipn (S n) l.
Proof.
  revert l. induction n as [|n IH]; intro l; [destruct l; reflexivity|].
  destruct l as [|x l]; [reflexivity|]. cbn [skipn]. rewrite IH. reflexivity.
Qed.

Lemma dropP_spec {A} (p : positive) (l : list A) : bm_dropP p l = skipn (Pos.to_nat p) l.
Proof.
  revert l. induction p as [q IH|q IH|]; intro l; cbn [bm_dropP].
  - rewrite !IH, tl_skipn, <- skipn_add. f_equal. lia.
  - rewrite !IH, <- skipn_add. f_equal. lia.
  - destruct l; reflexivity.
Qed.

Lemma skipnN_spec {A} (n : N) (l : list A) : bm_skipnN n l = skipn (N.to_nat n) l.
Proof. destruct n as [|p]; [reflexivity|]. apply dropP_spec. Qed.

Lemma nthN_spec (l : list N) (i : N) : bm_nthN l i = nth (N.to_nat i) l 0.
Proof.
  unfold bm_nthN. rewrite skipnN_spec. generalize (N.to_nat i). clear i.
  intro n. revert l. induction n as [|n IH]; intro l; destruct l as [|x l]; try reflexivity.
  - cbn [skipn nth]. apply IH.
Qed.

Lemma take1_spec {A} (l : list A) k : bm_take1 l k = firstn 1 l ++ k (skipn 1 l).
Proof. destruct l; reflexivity. Qed.

Lemma takeP_spec {A} (p : positive) (l : list A) k :
  bm_takeP p l k = firstn (Pos.to_nat p) l ++ k (skipn (Pos.to_nat p) l).
Proof.
  revert l k. induction p as [q IH|q IH|]; intros l k; cbn [bm_takeP].
  - rewrite IH, IH, take1_spec. rewrite Pos2Nat.inj_xI.
    replace (S (2 * Pos.to_nat q)) with (Pos.to_nat q + (Pos.to_nat q + 1))%nat by lia.
    rewrite !firstn_add, !skipn_add, <- !app_assoc. reflexivity.
  - rewrite IH, IH. rewrite Pos2Nat.inj_xO.
    replace (2 * Pos.to_nat q)%nat with (Pos.to_nat q + Pos.to_nat q)%nat by lia.
    rewrite !firstn_add, !skipn_add, <- !app_assoc. reflexivity.
  - apply take1_spec.
Qed.

Lemma takeN_spec {A} (n : N) (l : list A) k :
  bm_takeN n l k = firstn (N.to_nat n) l ++ k (skipn (N.to_nat n) l).
Proof. destruct n as [|p]; [reflexivity|]. apply takeP_spec. Qed.

Lemma firstnN_spec {A} (n : N) (l : list A) : bm_firstnN n l = firstn (N.to_nat n) l.
Proof. unfold bm_firstnN. rewrite takeN_spec. apply app_nil_r. Qed.

Lemma insertN_spec (l : list N) (i v : N) :
  bm_insertN l i v = firstn (N.to_nat i) l ++ v :: skipn (N.to_nat i) l.
Proof. unfold bm_insertN. apply takeN_spec. Qed.

Lemma removeN_spec (l : list N) (i : N) :
  bm_removeN l i = firstn (N.to_nat i) l ++ skipn (S (N.to_nat i)) l.
Proof. unfold bm_removeN. rewrite takeN_spec, tl_skipn. reflexivity. Qed.

Lemma rev_append_nil {A} (l : list A) : rev_append l [] = rev l.
Proof. rewrite rev_append_rev. apply app_nil_r. Qed.

Lemma lenN_app {A} (a b : list A) : bm_lenN (a ++ b) = bm_lenN a + bm_lenN b.
Proof. unfold bm_lenN. rewrite app_length. lia. Qed.
Lemma lenN_cons {A} (x : A) l : bm_lenN (x :: l) = bm_lenN l + 1.
Proof. unfold bm_lenN. cbn [length]. lia. Qed.
Lemma lenN_rev {A} (l : list A) : bm_lenN (rev l) = bm_lenN l.
Proof. unfold bm_lenN. rewrite rev_length. reflexivity. Qed.

(* ---------------- counted loops ---------------- *)

(* lo, lo+1, ..., lo+n-1 *)
Fixpoint nseq (lo : N) (n : nat) : list N :=
  match n with O => [] | S k => lo :: nseq (lo + 1) k end.

Lemma nseq_length lo n : length (nseq lo n) = n.
Proof. revert lo. induction n; intro; cbn; auto. Qed.

Lemma nseq_snoc lo n : nseq lo (S n) = nseq lo n ++ [lo + N.of_nat n].
Proof.
  revert lo. induction n as [|n IH]; intro lo.
  - cbn. f_equal. lia.
  - change (nseq lo (S (S n))) with (lo :: nseq (lo + 1) (S n)). rewrite IH.
    cbn [nseq app]. do 3 f_equal. lia.
Qed.

Lemma in_nseq lo n x : In x (nseq lo n) <-> lo <= x < lo + N.of_nat n.
Proof.
  revert lo. induction n as [|n IH]; intro lo; cbn [nseq In].
  - lia.
  - rewrite IH. lia.
Qed.

Lemma nseq_app lo a b : nseq lo (a + b) = nseq lo a ++ nseq (lo + N.of_nat a) b.
Proof.
  revert lo. induction a as [|a IH]; intro lo.
  - cbn. f_equal. lia.
  - cbn [Nat.add nseq app]. f_equal. rewrite IH. do 2 f_equal. lia.
Qed.

Lemma iter_for {S} (n : N) (body : N -> S -> S) lo (s : S) :
  N.iter n (fun p => (fst p + 1, body (fst p) (snd p))) (lo, s)
  = (lo + n, fold_left (fun s i => body i s) (nseq lo (N.to_nat n)) s).
Proof.
  induction n as [|n IH] using N.peano_ind.
  - cbn. f_equal. lia.
  - rewrite N.iter_succ, IH. cbn [fst snd]. rewrite N2Nat.inj_succ, nseq_snoc, fold_left_app.
    cbn [fold_left]. rewrite N2Nat.id. f_equal. lia.
Qed.

Lemma for_loop_spec {S} lo n (body : N -> S -> S) s :
  bm_for_loop lo n body s = fold_left (fun s i => body i s) (nseq lo (N.to_nat n)) s.
Proof. unfold bm_for_loop. rewrite iter_for. reflexivity. Qed.

Lemma nseqN_spec lo n : bm_nseqN lo n = nseq lo (N.to_nat n).
Proof.
  unfold bm_nseqN. rewrite for_loop_spec, rev_append_nil.
  generalize (N.to_nat n). clear n. intro n.
  assert (G : forall (l acc : list N), fold_left (fun s i => i :: s) l acc = rev l ++ acc).
  { induction l as [|x l IH]; intro acc; [reflexivity|]. cbn [fold_left rev]. rewrite IH, <- app_assoc. reflexivity. }
  rewrite G, app_nil_r, rev_involutive. reflexivity.
Qed.

Lemma replN_spec {A} n (x : A) : bm_replN n x = repeat x (N.to_nat n).
Proof.
  unfold bm_replN. induction n as [|n IH] using N.peano_ind; [reflexivity|].
  rewrite N.iter_succ, IH, N2Nat.inj_succ. reflexivity.
Qed.

(* ---------------- byte memory ---------------- *)

Lemma succ_pos_inj a b : N.succ_pos a = N.succ_pos b -> a = b.
Proof.
  intro H. assert (E : N.pos (N.succ_pos a) = N.pos (N.succ_pos b)) by (rewrite H; reflexivity).
  rewrite !N.succ_pos_spec in E. lia.
Qed.

Lemma mget_zero i : bm_mget bm_mzero i = 0.
Proof. unfold bm_mget, bm_mzero. rewrite PositiveMap.gempty. reflexivity. Qed.

Lemma mget_mset_eq m i b : bm_mget (bm_mset m i b) i = b.
Proof. unfold bm_mget, bm_mset. rewrite PositiveMap.gss. reflexivity. Qed.

Lemma mget_mset_neq m i j b : i <> j -> bm_mget (bm_mset m i b) j = bm_mget m j.
Proof.
  intro H. unfold bm_mget, bm_mset. rewrite PositiveMap.gso; [reflexivity|].
  intro E. apply H. symmetry. apply succ_pos_inj. exact E.
Qed.

Lemma mget_mset m i j b : bm_mget (bm_mset m i b) j = if j =? i then b else bm_mget m j.
Proof.
  destruct (N.eqb_spec j i) as [->|H]; [apply mget_mset_eq|]. apply mget_mset_neq. congruence.
Qed.

Lemma mem_of_bytes_gen (l : list N) k m i :
  bm_mget (snd (fold_left (fun st b => (fst st + 1, bm_mset (snd st) (fst st) b)) l (k, m))) i
  = if (k <=? i) && (i <? k + bm_lenN l) then nth (N.to_nat (i - k)) l 0 else bm_mget m i.
Proof.
  revert k m. induction l as [|x l IH]; intros k m.
  - cbn [fold_left snd]. unfold bm_lenN. cbn [length]. destruct ((k <=? i) && (i <? k + N.of_nat 0)) eqn:E; [lia|reflexivity].
  - cbn [fold_left fst snd]. rewrite IH. rewrite lenN_cons.
    destruct (N.eq_dec i k) as [->|Hne].
    + replace (k - k) with 0 by lia. cbn [N.to_nat nth].
      destruct ((k + 1 <=? k) && (k <? k + 1 + bm_lenN l)) eqn:E1; [lia|].
      rewrite mget_mset_eq.
      destruct ((k <=? k) && (k <? k + (bm_lenN l + 1))) eqn:E2; [reflexivity|lia].
    + rewrite mget_mset_neq by congruence.
      destruct ((k + 1 <=? i) && (i <? k + 1 + bm_lenN l)) eqn:E1;
      destruct ((k <=? i) && (i <? k + (bm_lenN l + 1))) eqn:E2; try lia; try reflexivity.
      replace (N.to_nat (i - k)) with (S (N.to_nat (i - (k + 1)))) by lia. reflexivity.
Qed.

Lemma mget_mem_of_bytes l i : bm_mget (bm_mem_of_bytes l) i = nth (N.to_nat i) l 0.
Proof.
  unfold bm_mem_of_bytes. rewrite mem_of_bytes_gen. rewrite N.sub_0_r, mget_zero.
  destruct ((0 <=? i) && (i <? 0 + bm_lenN l)) eqn:E; [reflexivity|].
  rewrite nth_overflow; [reflexivity|]. unfold bm_lenN in E. lia.
Qed.

Lemma byte_idx_spec : bm_byte_idx = nseq 0 (N.to_nat 8192).
Proof. unfold bm_byte_idx. apply nseqN_spec. Qed.
Global Opaque bm_byte_idx.

(* ---------------- bits of a byte ---------------- *)

Lemma land_pow2_testbit a k : (N.land a (2 ^ k) =? 0) = negb (N.testbit a k).
Proof.
  destruct (N.testbit a k) eqn:T; cbn [negb].
  - apply N.eqb_neq. intro E.
    assert (F : N.testbit (N.land a (2 ^ k)) k = false) by (rewrite E; apply N.bits_0).
    rewrite N.land_spec, T, N.pow2_bits_true in F. discriminate.
  - apply N.eqb_eq. apply N.bits_inj. intro j. rewrite N.land_spec, N.bits_0, N.pow2_bits_eqb.
    destruct (N.eqb_spec k j) as [->|]; [rewrite T; reflexivity|apply andb_false_r].
Qed.

Lemma testbit_lor_pow2 a k j : N.testbit (N.lor a (2 ^ k)) j = (j =? k) || N.testbit a j.
Proof. rewrite N.lor_spec, N.pow2_bits_eqb, orb_comm, (N.eqb_sym k j). reflexivity. Qed.

Lemma testbit_ldiff_pow2 a k j : N.testbit (N.ldiff a (2 ^ k)) j = N.testbit a j && negb (j =? k).
Proof. rewrite N.ldiff_spec, N.pow2_bits_eqb, (N.eqb_sym k j). reflexivity. Qed.

Lemma byte_lt_testbit b j : b < 256 -> 8 <= j -> N.testbit b j = false.
Proof.
  intros Hb Hj. destruct (N.eq_dec b 0) as [->|H0]; [apply N.bits_0|].
  apply N.bits_above_log2. apply N.lt_le_trans with 8; [|exact Hj].
  apply N.log2_lt_pow2; lia.
Qed.

Lemma testbit_lt_byte b : (forall j, 8 <= j -> N.testbit b j = false) -> b < 256.
Proof.
  intro H. destruct (N.lt_ge_cases b 256) as [L|G]; [exact L|exfalso].
  assert (Hb : b <> 0) by lia.
  pose proof (N.bit_log2 b Hb) as T.
  rewrite H in T; [discriminate|].
  change 8 with (N.log2 256). apply N.log2_le_mono. exact G.
Qed.

Lemma lor_pow2_byte b k : b < 256 -> k < 8 -> N.lor b (2 ^ k) < 256.
Proof.
  intros Hb Hk. apply testbit_lt_byte. intros j Hj. rewrite testbit_lor_pow2, byte_lt_testbit by assumption.
  destruct (N.eqb_spec j k); [lia|reflexivity].
Qed.

Lemma ldiff_pow2_byte b k : b < 256 -> N.ldiff b (2 ^ k) < 256.
Proof.
  intros Hb. apply testbit_lt_byte. intros j Hj. rewrite testbit_ldiff_pow2, byte_lt_testbit by assumption.
  reflexivity.
Qed.

Lemma testbit_div2 b j : N.testbit (N.div2 b) j = N.testbit b (N.succ j).
Proof. symmetry. apply N.testbit_succ_r_div2. apply N.le_0_l. Qed.

(* popcount of a byte and single-bit updates *)
Lemma popc_lor k b j : (N.to_nat j < k)%nat ->
  bm_popc k (N.lor b (2 ^ j)) = bm_popc k b + (if N.testbit b j then 0 else 1).
Proof.
  revert b j. induction k as [|k IH]; intros b j Hj; [lia|].
  cbn [bm_popc]. destruct (N.eq_dec j 0) as [->|Hj0].
  - change (2 ^ 0) with 1.
    assert (E1 : N.odd (N.lor b 1) = true).
    { rewrite <- N.bit0_odd, N.lor_spec. cbn. apply orb_true_r. }
    assert (E2 : N.div2 (N.lor b 1) = N.div2 b).
    { apply N.bits_inj. intro i. rewrite !testbit_div2, N.lor_spec.
      change 1 with (2 ^ 0). rewrite N.pow2_bits_eqb.
      destruct (N.eqb_spec 0 (N.succ i)); [lia|apply orb_false_r]. }
    rewrite E1, E2, N.bit0_odd. destruct (N.odd b); cbn [N.b2n]; lia.
  - assert (E1 : N.odd (N.lor b (2 ^ j)) = N.odd b).
    { rewrite <- !N.bit0_odd, testbit_lor_pow2. destruct (N.eqb_spec 0 j); [lia|reflexivity]. }
    assert (E2 : N.div2 (N.lor b (2 ^ j)) = N.lor (N.div2 b) (2 ^ (j - 1))).
    { apply N.bits_inj. intro i. rewrite testbit_div2, !testbit_lor_pow2, testbit_div2.
      f_equal. destruct (N.eqb_spec (N.succ i) j), (N.eqb_spec i (j - 1)); try reflexivity; lia. }
    rewrite E1, E2, IH by lia. rewrite testbit_div2. replace (N.succ (j - 1)) with j by lia. lia.
Qed.

Lemma popc_ldiff k b j : (N.to_nat j < k)%nat ->
  bm_popc k (N.ldiff b (2 ^ j)) + (if N.testbit b j then 1 else 0) = bm_popc k b.
Proof.
  revert b j. induction k as [|k IH]; intros b j Hj; [lia|].
  cbn [bm_popc]. destruct (N.eq_dec j 0) as [->|Hj0].
  - change (2 ^ 0) with 1.
    assert (E1 : N.odd (N.ldiff b 1) = false).
    { rewrite <- N.bit0_odd, N.ldiff_spec. cbn. apply andb_false_r. }
    assert (E2 : N.div2 (N.ldiff b 1) = N.div2 b).
    { apply N.bits_inj. intro i. rewrite !testbit_div2, N.ldiff_spec.
      change 1 with (2 ^ 0). rewrite N.pow2_bits_eqb.
      destruct (N.eqb_spec 0 (N.succ i)); [lia|apply andb_true_r]. }
    rewrite E1, E2, N.bit0_odd. destruct (N.odd b); cbn [N.b2n]; lia.
  - assert (E1 : N.odd (N.ldiff b (2 ^ j)) = N.odd b).
    { rewrite <- !N.bit0_odd, testbit_ldiff_pow2. destruct (N.eqb_spec 0 j); [lia|apply andb_true_r]. }
    assert (E2 : N.div2 (N.ldiff b (2 ^ j)) = N.ldiff (N.div2 b) (2 ^ (j - 1))).
    { apply N.bits_inj. intro i. rewrite testbit_div2, !testbit_ldiff_pow2, testbit_div2.
      f_equal. destruct (N.eqb_spec (N.succ i) j), (N.eqb_spec i (j - 1)); try reflexivity; lia. }
    rewrite E1, E2. specialize (IH (N.div2 b) (j - 1)). rewrite testbit_div2 in IH.
    replace (N.succ (j - 1)) with j in IH by lia. lia.
Qed.

Lemma popc_0 k : bm_popc k 0 = 0.
Proof. induction k as [|k IH]; [reflexivity|]. cbn [bm_popc]. change (N.div2 0) with 0. rewrite IH. reflexivity. Qed.

(* the values of the set bits of one byte *)
Lemma in_byte_vals k base b x :
  In x (bm_byte_vals k base b) <-> exists j, (N.to_nat j < k)%nat /\ x = base + j /\ N.testbit b j = true.
Proof.
  revert base b. induction k as [|k IH]; intros base b; cbn [bm_byte_vals].
  - split; [intros []|intros (j & Hj & _); lia].
  - rewrite in_app_iff, IH. split.
    + intros [H|(j & Hj & -> & T)].
      * destruct (N.odd b) eqn:O; [|destruct H]. destruct H as [<-|[]].
        exists 0. rewrite N.bit0_odd. repeat split; [lia|lia|exact O].
      * exists (N.succ j). rewrite testbit_div2 in T. repeat split; [lia|lia|exact T].
    + intros (j & Hj & -> & T). destruct (N.eq_dec j 0) as [->|Hj0].
      * left. rewrite N.bit0_odd in T. rewrite T. left. lia.
      * right. exists (j - 1). rewrite testbit_div2. replace (N.succ (j - 1)) with j by lia.
        repeat split; [lia|lia|exact T].
Qed.

Lemma length_byte_vals k base b : bm_lenN (bm_byte_vals k base b) = bm_popc k b.
Proof.
  revert base b. induction k as [|k IH]; intros base b; [reflexivity|].
  cbn [bm_byte_vals bm_popc]. rewrite lenN_app, IH. destruct (N.odd b); reflexivity.
Qed.

Lemma byte_vals_0 k base : bm_byte_vals k base 0 = [].
Proof. revert base. induction k as [|k IH]; intro base; [reflexivity|]. cbn [bm_byte_vals]. change (N.div2 0) with 0. rewrite IH. reflexivity. Qed.

(* ---------------- strictly sorted lists ---------------- *)

Definition sorted (l : list N) : Prop := StronglySorted N.lt l.
Definition sorted_desc (l : list N) : Prop := StronglySorted (fun a b => b < a) l.

Lemma sorted_app a b : sorted a -> sorted b -> (forall x y, In x a -> In y b -> x < y) -> sorted (a ++ b).
Proof.
  intros Ha Hb H. induction a as [|x a IH]; [exact Hb|].
  apply StronglySorted_inv in Ha. destruct Ha as [Ha Hx].
  cbn [app]. constructor.
  - apply IH; [exact Ha|]. intros u v Hu Hv. apply H; [right; exact Hu|exact Hv].
  - apply Forall_app. split; [exact Hx|]. apply Forall_forall. intros y Hy. apply H; [left; reflexivity|exact Hy].
Qed.

Lemma sorted_app_inv a b : sorted (a ++ b) ->
  sorted a /\ sorted b /\ (forall x y, In x a -> In y b -> x < y).
Proof.
  induction a as [|x a IH]; intro H.
  - repeat split; [constructor|exact H|intros ? ? []].
  - cbn [app] in H. apply StronglySorted_inv in H. destruct H as [H Hx].
    destruct (IH H) as (Sa & Sb & Hab). apply Forall_app in Hx. destruct Hx as [Hxa Hxb].
    repeat split; [constructor; assumption|exact Sb|].
    intros u v [<-|Hu] Hv; [|apply Hab; assumption].
    rewrite Forall_forall in Hxb. apply Hxb. exact Hv.
Qed.

Lemma sorted_cons_inv x l : sorted (x :: l) -> sorted l /\ (forall y, In y l -> x < y).
Proof. intro H. apply StronglySorted_inv in H. destruct H as [H F]. split; [exact H|]. rewrite Forall_forall in F. exact F. Qed.

Lemma sorted_single x : sorted [x].
Proof. constructor; constructor. Qed.

Lemma sorted_ext a b : sorted a -> sorted b -> (forall x, In x a <-> In x b) -> a = b.
Proof.
  revert b. induction a as [|x a IH]; intros b Ha Hb H.
  - destruct b as [|y b]; [reflexivity|]. exfalso. apply (proj2 (H y)). left. reflexivity.
  - destruct b as [|y b]; [exfalso; apply (proj1 (H x)); left; reflexivity|].
    destruct (sorted_cons_inv _ _ Ha) as [Sa Hx]. destruct (sorted_cons_inv _ _ Hb) as [Sb Hy].
    assert (E : x = y).
    { destruct (proj1 (H x) (or_introl eq_refl)) as [E|Hin]; [congruence|].
      destruct (proj2 (H y) (or_introl eq_refl)) as [E|Hin2]; [congruence|].
      specialize (Hx _ Hin2). specialize (Hy _ Hin). lia. }
    subst y. f_equal. apply IH; [exact Sa|exact Sb|].
    intro z. split; intro Hz.
    + destruct (proj1 (H z) (or_intror Hz)) as [E|Hin]; [|exact Hin]. specialize (Hx _ Hz). lia.
    + destruct (proj2 (H z) (or_intror Hz)) as [E|Hin]; [|exact Hin]. specialize (Hy _ Hz). lia.
Qed.

Lemma sorted_NoDup l : sorted l -> NoDup l.
Proof.
  induction l as [|x l IH]; intro H; [constructor|].
  destruct (sorted_cons_inv _ _ H) as [S Hx]. constructor; [|apply IH; exact S].
  intro Hin. specialize (Hx _ Hin). lia.
Qed.

Lemma sorted_nseq lo n : sorted (nseq lo n).
Proof.
  revert lo. induction n as [|n IH]; intro lo; [constructor|].
  cbn [nseq]. constructor; [apply IH|]. apply Forall_forall. intros y Hy. apply in_nseq in Hy. lia.
Qed.

Lemma sorted_map_add base l : sorted l -> sorted (map (fun j => base + j) l).
Proof.
  induction l as [|x l IH]; intro H; [constructor|].
  destruct (sorted_cons_inv _ _ H) as [S Hx]. cbn [map]. constructor; [apply IH; exact S|].
  apply Forall_forall. intros y Hy. apply in_map_iff in Hy. destruct Hy as (z & <- & Hz). specialize (Hx _ Hz). lia.
Qed.

Lemma sorted_filter f l : sorted l -> sorted (filter f l).
Proof.
  induction l as [|x l IH]; intro H; [constructor|].
  destruct (sorted_cons_inv _ _ H) as [S Hx]. cbn [filter]. destruct (f x); [|apply IH; exact S].
  constructor; [apply IH; exact S|]. apply Forall_forall. intros y Hy. apply filter_In in Hy. apply Hx. tauto.
Qed.

Lemma sorted_desc_rev l : sorted_desc l <-> sorted (rev l).
Proof.
  induction l as [|x l IH].
  - split; constructor.
  - cbn [rev]. split; intro H.
    + apply StronglySorted_inv in H. destruct H as [H F]. apply sorted_app; [apply IH; exact H|apply sorted_single|].
      intros u v Hu [<-|[]]. rewrite Forall_forall in F. apply F. apply in_rev. exact Hu.
    + apply sorted_app_inv in H. destruct H as (H1 & _ & H3). constructor; [apply IH; exact H1|].
      apply Forall_forall. intros y Hy. apply H3; [apply in_rev in Hy; exact Hy|left; reflexivity].
Qed.

Lemma sorted_rev_desc l : sorted l <-> sorted_desc (rev l).
Proof. rewrite sorted_desc_rev, rev_involutive. tauto. Qed.

(* a strictly sorted list below a bound is the filter of its membership on 0..bound-1 *)
Lemma sorted_is_filter l n (P : N -> bool) :
  sorted l -> (forall x, In x l <-> (x < N.of_nat n /\ P x = true)) -> l = filter P (nseq 0 n).
Proof.
  intros S H. apply sorted_ext; [exact S|apply sorted_filter, sorted_nseq|].
  intro x. rewrite H, filter_In, in_nseq. split; intros [A B]; (split; [lia|exact B]) || (split; [exact B|lia]).
Qed.

Lemma length_firstn_skipn {A} (l : list A) n : (n <= length l)%nat -> l = firstn n l ++ skipn n l.
Proof. intros _. symmetry. apply firstn_skipn. Qed.
