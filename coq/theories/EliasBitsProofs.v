(* EliasBitsProofs.v — the bit writer produces the MSB-first byte image of the
   bits it was given (bw_rep), the bit reader returns the bits of that image
   (br_rep): lemmas proved once on bit lists and used by EliasProofs*.v. *)
Require Import VV.Base VV.BaseProofs VV.EliasBits VV.EliasSpec.
From Coq Require Import Lia ZifyBool ZifyN ZifyNat Arith.
Local Open Scope N_scope.
Ltac Zify.zify_post_hook ::= Z.div_mod_to_equations.

Lemma div8_spec x : div8 x = x / 8.
Proof. unfold div8. rewrite N.shiftr_div_pow2. reflexivity. Qed.

Lemma mod8_spec x : mod8 x = x mod 8.
Proof. unfold mod8. change 7 with (N.ones 3). rewrite N.land_ones. reflexivity. Qed.

Lemma shl64_1 k : k <= 63 -> shl64 1 k = 2 ^ k.
Proof.
  intros H. unfold shl64. rewrite N.mul_1_l. apply N.mod_small.
  change 18446744073709551616 with (2 ^ 64). apply N.pow_lt_mono_r; lia.
Qed.

(* the k low bits of x, most significant first: what varintBitWriterWrite(w, x, k) emits *)
Fixpoint bits_msb_n (k : nat) (x : N) : list bool :=
  match k with
  | O => []
  | S k' => N.testbit x (N.of_nat k') :: bits_msb_n k' x
  end.

Lemma length_bits_msb_n k x : length (bits_msb_n k x) = k.
Proof. induction k; cbn [bits_msb_n length]; congruence. Qed.

(* ------------------------------------------------------------------ bit_at / byte_msb *)

Lemma bit_at_app_l bs t i : (i < length bs)%nat -> bit_at (bs ++ t) i = bit_at bs i.
Proof. intros. unfold bit_at. apply app_nth1. assumption. Qed.

Lemma bit_at_app_r bs t i : (length bs <= i)%nat -> bit_at (bs ++ t) i = bit_at t (i - length bs).
Proof. intros. unfold bit_at. apply app_nth2. lia. Qed.

Lemma bit_at_snoc bs b i : i = length bs -> bit_at (bs ++ [b]) i = b.
Proof. intros ->. unfold bit_at. rewrite app_nth2 by lia. rewrite Nat.sub_diag. reflexivity. Qed.

Lemma bit_at_beyond bs i : (length bs <= i)%nat -> bit_at bs i = false.
Proof. intros. unfold bit_at. apply nth_overflow. assumption. Qed.

Lemma byte_msb_app_full bs t i : (8 * i + 8 <= length bs)%nat -> byte_msb (bs ++ t) i = byte_msb bs i.
Proof. intros. unfold byte_msb. rewrite !bit_at_app_l by lia. reflexivity. Qed.

Lemma byte_msb_beyond bs i : (length bs <= 8 * i)%nat -> byte_msb bs i = 0.
Proof. intros. unfold byte_msb. rewrite !bit_at_beyond by lia. reflexivity. Qed.

Lemma byte8_lt b0 b1 b2 b3 b4 b5 b6 b7 : byte8 b0 b1 b2 b3 b4 b5 b6 b7 < 256.
Proof. destruct b0, b1, b2, b3, b4, b5, b6, b7; reflexivity. Qed.

Lemma byte_msb_lt bs i : byte_msb bs i < 256.
Proof. apply byte8_lt. Qed.

(* bit 7-j of a packed byte is the j-th of its eight bits *)
Lemma byte8_testbit b0 b1 b2 b3 b4 b5 b6 b7 (j : nat) : (j < 8)%nat ->
  N.testbit (byte8 b0 b1 b2 b3 b4 b5 b6 b7) (7 - N.of_nat j) =
  nth j [b0; b1; b2; b3; b4; b5; b6; b7] false.
Proof.
  intros Hj.
  assert (j = 0 \/ j = 1 \/ j = 2 \/ j = 3 \/ j = 4 \/ j = 5 \/ j = 6 \/ j = 7)%nat as C by lia.
  destruct C as [-> | [-> | [-> | [-> | [-> | [-> | [-> | ->]]]]]]];
    destruct b0, b1, b2, b3, b4, b5, b6, b7; reflexivity.
Qed.

Lemma byte_msb_testbit bs (i j : nat) : (j < 8)%nat ->
  N.testbit (byte_msb bs i) (7 - N.of_nat j) = bit_at bs (8 * i + j).
Proof.
  intros Hj. unfold byte_msb. rewrite byte8_testbit by assumption.
  assert (j = 0 \/ j = 1 \/ j = 2 \/ j = 3 \/ j = 4 \/ j = 5 \/ j = 6 \/ j = 7)%nat as C by lia.
  destruct C as [-> | [-> | [-> | [-> | [-> | [-> | [-> | ->]]]]]]]; cbn [nth];
    try reflexivity.
  rewrite Nat.add_0_r. reflexivity.
Qed.

(* ------------------------------------------------------------------ pack_msb *)

Lemma length_pack_msb bs : length (pack_msb bs) = ((length bs + 7) / 8)%nat.
Proof. unfold pack_msb. rewrite map_length, seq_length. reflexivity. Qed.

Lemma nth_pack_msb bs i : (i < (length bs + 7) / 8)%nat -> nth i (pack_msb bs) 0 = byte_msb bs i.
Proof.
  intros. unfold pack_msb.
  rewrite (nth_indep _ 0 (byte_msb bs 0)) by (rewrite map_length, seq_length; assumption).
  rewrite map_nth. rewrite seq_nth by assumption. reflexivity.
Qed.

Lemma pack_msb_bytes_ok bs : bytes_ok (pack_msb bs).
Proof.
  unfold bytes_ok, pack_msb. apply Forall_forall. intros x Hx.
  apply in_map_iff in Hx. destruct Hx as [i [<- _]]. apply byte_msb_lt.
Qed.

(* ------------------------------------------------------------------ the writer *)

(* w holds exactly the bits bs *)
Definition bw_rep (w : bitw) (bs : list bool) : Prop :=
  bw_pos w = N.of_nat (length bs) /\
  bw_done w = rev (map (byte_msb bs) (seq 0 (length bs / 8))) /\
  bw_cur w = byte_msb bs (length bs / 8).

Lemma bw_rep_init cap : bw_rep (bw_init cap) [].
Proof. unfold bw_rep, bw_init. cbn. repeat split. Qed.

Ltac norm_bit_at :=
  repeat match goal with
  | |- context [bit_at (?bs ++ [?b]) ?k] =>
      first [ rewrite (bit_at_app_l bs [b] k) by lia
            | rewrite (bit_at_snoc bs b k) by lia
            | rewrite (bit_at_beyond (bs ++ [b]) k) by (rewrite app_length; cbn [length]; lia) ]
  end;
  repeat match goal with
  | |- context [bit_at ?bs ?k] => rewrite (bit_at_beyond bs k) by lia
  end.

(* the byte under the cursor after one more bit *)
Lemma byte_msb_snoc bs b (q j : nat) : length bs = (8 * q + j)%nat -> (j < 8)%nat ->
  byte_msb (bs ++ [b]) q =
  if b then N.lor (byte_msb bs q) (2 ^ (7 - N.of_nat j)) else byte_msb bs q.
Proof.
  intros HL Hj. unfold byte_msb.
  assert (j = 0 \/ j = 1 \/ j = 2 \/ j = 3 \/ j = 4 \/ j = 5 \/ j = 6 \/ j = 7)%nat as C by lia.
  destruct C as [-> | [-> | [-> | [-> | [-> | [-> | [-> | ->]]]]]]];
    norm_bit_at;
    repeat match goal with
    | |- context [bit_at ?l ?k] => generalize (bit_at l k); intro
    end;
    repeat match goal with x : bool |- _ => destruct x end; reflexivity.
Qed.

Lemma bw_put_pos w b : bw_pos (bw_put w b) = bw_pos w + 1.
Proof. unfold bw_put. destruct (mod8 (bw_pos w + 1) =? 0); reflexivity. Qed.

Lemma bw_put_cap w b : bw_cap (bw_put w b) = bw_cap w.
Proof. unfold bw_put. destruct (mod8 (bw_pos w + 1) =? 0); reflexivity. Qed.

Lemma bw_put_ovf w b :
  bw_ovf (bw_put w b) = bw_ovf w || negb (bw_pos w / 8 <? bw_cap w).
Proof. unfold bw_put. rewrite div8_spec. destruct (mod8 (bw_pos w + 1) =? 0); reflexivity. Qed.

Lemma seq_snoc (q : nat) : seq 0 (S q) = seq 0 q ++ [q].
Proof. rewrite seq_S. reflexivity. Qed.

Lemma bw_rep_put w bs b : bw_rep w bs -> bw_rep (bw_put w b) (bs ++ [b]).
Proof.
  intros (Hp & Hd & Hc).
  pose proof (Nat.div_mod (length bs) 8 ltac:(lia)) as HL.
  pose proof (Nat.mod_upper_bound (length bs) 8 ltac:(lia)) as Hj.
  set (q := (length bs / 8)%nat) in *. set (j := (length bs mod 8)%nat) in *.
  assert (Hm : mod8 (bw_pos w) = N.of_nat j) by (rewrite mod8_spec, Hp; lia).
  assert (Hcur : (if b then N.lor (bw_cur w) (2 ^ (7 - mod8 (bw_pos w))) else bw_cur w)
                 = byte_msb (bs ++ [b]) q).
  { rewrite Hm, Hc. symmetry. apply byte_msb_snoc; assumption. }
  unfold bw_rep. rewrite app_length. cbn [length].
  unfold bw_put. rewrite Hcur. rewrite mod8_spec.
  destruct (Nat.eq_dec j 7) as [E | E].
  - assert (Hq' : ((length bs + 1) / 8 = S q)%nat) by lia.
    replace ((bw_pos w + 1) mod 8 =? 0) with true by lia.
    cbn [bw_pos bw_done bw_cur]. rewrite Hq'. repeat split.
    + lia.
    + rewrite seq_snoc, map_app, rev_app_distr. cbn [map rev app]. f_equal.
      rewrite Hd. f_equal. apply map_ext_in. intros i Hi. apply in_seq in Hi.
      symmetry. apply byte_msb_app_full. lia.
    + symmetry. apply byte_msb_beyond. rewrite app_length. cbn [length]. lia.
  - assert (Hq' : ((length bs + 1) / 8 = q)%nat) by lia.
    replace ((bw_pos w + 1) mod 8 =? 0) with false by lia.
    cbn [bw_pos bw_done bw_cur]. rewrite Hq'. repeat split.
    + lia.
    + rewrite Hd. f_equal. apply map_ext_in. intros i Hi. apply in_seq in Hi.
      symmetry. apply byte_msb_app_full. lia.
Qed.

Lemma bw_rep_write w bs v k : bw_rep w bs -> bw_rep (bw_write w v k) (bs ++ bits_msb_n k v).
Proof.
  revert w bs. induction k; intros w bs H; cbn [bw_write bits_msb_n].
  - rewrite app_nil_r. assumption.
  - replace (bs ++ N.testbit v (N.of_nat k) :: bits_msb_n k v)
      with ((bs ++ [N.testbit v (N.of_nat k)]) ++ bits_msb_n k v)
      by (rewrite <- app_assoc; reflexivity).
    apply IHk. apply bw_rep_put. assumption.
Qed.

Lemma bw_write_pos w v k : bw_pos (bw_write w v k) = bw_pos w + N.of_nat k.
Proof.
  revert w. induction k; intros w; cbn [bw_write].
  - lia.
  - rewrite IHk, bw_put_pos. lia.
Qed.

Lemma bw_write_cap w v k : bw_cap (bw_write w v k) = bw_cap w.
Proof. revert w. induction k; intros w; cbn [bw_write]; [reflexivity|]. rewrite IHk. apply bw_put_cap. Qed.

(* no bit is placed outside the capacity while bitPos stays within 8*capacity *)
Lemma bw_write_ovf w v k : bw_ovf w = false -> bw_pos w + N.of_nat k <= 8 * bw_cap w ->
  bw_ovf (bw_write w v k) = false.
Proof.
  revert w. induction k; intros w Ho Hb; cbn [bw_write].
  - assumption.
  - apply IHk.
    + rewrite bw_put_ovf, Ho. cbn [orb]. lia.
    + rewrite bw_put_pos, bw_put_cap. lia.
Qed.

(* what the caller finds in dst[0 .. varintBitWriterBytes) *)
Lemma bw_rep_bytes w bs : bw_rep w bs -> bw_bytes w = N.of_nat ((length bs + 7) / 8).
Proof. intros (Hp & _). unfold bw_bytes. rewrite div8_spec, Hp. lia. Qed.

Lemma bw_rep_buffer w bs : bw_rep w bs -> bw_buffer w = pack_msb bs.
Proof.
  intros (Hp & Hd & Hc). unfold bw_buffer, pack_msb. rewrite <- rev_alt. rewrite mod8_spec, Hp, Hd, Hc.
  pose proof (Nat.div_mod (length bs) 8 ltac:(lia)) as HL.
  pose proof (Nat.mod_upper_bound (length bs) 8 ltac:(lia)) as Hj.
  destruct (Nat.eq_dec (length bs mod 8) 0) as [E | E].
  - replace (N.of_nat (length bs) mod 8 =? 0) with true by lia.
    rewrite rev_involutive. f_equal. f_equal. lia.
  - replace (N.of_nat (length bs) mod 8 =? 0) with false by lia.
    replace ((length bs + 7) / 8)%nat with (S (length bs / 8)) by lia.
    rewrite seq_snoc, map_app. cbn [rev map]. rewrite rev_involutive. reflexivity.
Qed.
