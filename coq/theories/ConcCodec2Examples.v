(* ConcCodec2Examples.v — the hypotheses of the C17 codec instances are
   satisfiable: for the concrete configurations of the examples of
   Properties_C17_codecs.v the placement hypotheses hold, hence the
   conclusions hold for EVERY schedule of these configurations. *)
Require Import VV.Conc VV.ConcProofs VV.ConcCodec VV.ConcCodec2 VV.ConcCodec2Scalar.
Require Import VV.ConcArray VV.ConcArrayDfg VV.ConcArrayRleDict.
Require Import VV.Base VV.Chained VV.External VV.Tagged VV.Delta VV.FOR VV.Dict.
From Coq Require Import List NArith Arith Lia.
Import ListNotations.
Local Open Scope N_scope.

(* nth_error of a literal list at an unknown index: enumerate *)
Ltac enum_nth H :=
  repeat match type of H with
         | nth_error (_ :: _) ?i = Some _ => destruct i; cbn [nth_error] in H
         | nth_error [] ?i = Some _ => destruct i; discriminate H
         end.

Ltac enum_in H :=
  repeat match type of H with
         | In _ (_ :: _) => destruct H as [H|H]
         | In _ [] => contradiction H
         end.

Lemma external_example_all_schedules : forall sched,
  let encs := [(100, 65536); (200, 255)] in
  let decs := [(0, 2%nat); (0, 3%nat)] in
  let ths :=
    map (fun dx => write_bytes (fst dx) (ext_put (snd dx)) (Ret [N.of_nat (ext_width (snd dx))])) encs ++
    map (fun sw => read_bytes (fst sw) (snd sw) [] (fun bs => Ret (ret_opt (ext_get bs (snd sw))))) decs in
  let c := crun sched (mem_list [52; 18; 1; 0; 0; 0; 0; 0; 0; 7], ths) in
  ~ races (snd c) /\
  (forall r, nth_error (snd c) 0 = Some (Ret r) -> r = [3] /\ fst c 100 = 0 /\ fst c 102 = 1) /\
  (forall r, nth_error (snd c) 2 = Some (Ret r) -> r = [1; 4660]) /\
  (forall r, nth_error (snd c) 3 = Some (Ret r) -> r = [1; 70196]).
Proof.
  intros sched encs decs ths c.
  destruct (external_threads_safe encs decs (mem_list [52; 18; 1; 0; 0; 0; 0; 0; 0; 7])) with (sched := sched)
    as (NR & SE & SD).
  - intros d x H. unfold encs in H. enum_in H; injection H as <- <-; lia.
  - intros i j di xi dj xj NE Hi Hj l. unfold encs in Hi, Hj. enum_nth Hi; enum_nth Hj;
      try congruence; injection Hi as <- <-; injection Hj as <- <-; unfold in_range; lia.
  - intros d x s w l H1 H2. unfold encs in H1. unfold decs in H2.
    enum_in H1; enum_in H2; injection H1 as <- <-; injection H2 as <- <-; unfold in_range; lia.
  - split; [exact NR|]. split; [|split].
    + intros r Hr. destruct (SE 0%nat 100 65536 r eq_refl Hr) as [E M]. split; [exact E|]. split.
      * exact (M 0%nat ltac:(vm_compute; lia)).
      * exact (M 2%nat ltac:(vm_compute; lia)).
    + intros r Hr. exact (SD 0%nat 0 2%nat r eq_refl Hr).
    + intros r Hr. exact (SD 1%nat 0 3%nat r eq_refl Hr).
Qed.

Lemma for_encode_example_all_schedules : forall sched,
  let ps := [(mk_io 0 3 100, mk_for_meta 7 9 2 3 6 1); (mk_io 0 3 200, mk_for_meta 0 65535 65535 3 9 2)] in
  let ths := map (fun p => prog1 (io_src (fst p)) (io_n (fst p)) (io_dst (fst p)) (for_enc_fn (snd p))) ps in
  let c := crun sched (mem_list [7; 8; 9], ths) in
  ~ races (snd c) /\
  (forall r, nth_error (snd c) 0 = Some (Ret r) -> r = [1; 6] /\ fst c 100 = 7 /\ fst c 105 = 2) /\
  (forall r, nth_error (snd c) 1 = Some (Ret r) -> r = [1; 9] /\ fst c 200 = 0 /\ fst c 207 = 9).
Proof.
  intros sched ps ths c.
  destruct (for_encode_threads_safe ps (mem_list [7; 8; 9])) with (sched := sched) as (NR & SE).
  - intros p H. unfold ps in H. enum_in H; subst p; cbn; repeat split; lia.
  - intros i j pi pj NE Hi Hj l. unfold ps in Hi, Hj. enum_nth Hi; enum_nth Hj;
      try congruence; injection Hi as <-; injection Hj as <-;
      cbn [fst snd io_dst io_src io_n];
      [change (for_size (mk_for_meta 0 65535 65535 3 9 2)) with 9;
       change (for_size (mk_for_meta 7 9 2 3 6 1)) with 6
      |change (for_size (mk_for_meta 0 65535 65535 3 9 2)) with 9;
       change (for_size (mk_for_meta 7 9 2 3 6 1)) with 6];
      unfold in_range; lia.
  - split; [exact NR|]. split.
    + intros r Hr. destruct (SE 0%nat _ r eq_refl Hr) as [E M].
      split; [exact E|]. split.
      * exact (M 0%nat ltac:(vm_compute; lia)).
      * exact (M 5%nat ltac:(vm_compute; lia)).
    + intros r Hr. destruct (SE 1%nat _ r eq_refl Hr) as [E M].
      split; [exact E|]. split.
      * exact (M 0%nat ltac:(vm_compute; lia)).
      * exact (M 7%nat ltac:(vm_compute; lia)).
Qed.

Lemma dict_lookup_example_all_schedules : forall sched,
  let ps := [mk_dio 0 3 10 4 100; mk_dio 0 3 20 2 200] in
  let ths := map (fun p => prog2 (dio_dict p) (dio_dn p) (dio_src p) (dio_n p) (dio_dst p) dict_lookup_fn) ps in
  let m0 := mem_list ([10; 20; 30] ++ repeat 0 7 ++ [2; 0; 1; 7] ++ repeat 0 6 ++ [1; 1]) in
  let c := crun sched (m0, ths) in
  ~ races (snd c) /\
  (forall r, nth_error (snd c) 0 = Some (Ret r) -> r = [4] /\ fst c 100 = 30 /\ fst c 103 = 0) /\
  (forall r, nth_error (snd c) 1 = Some (Ret r) -> r = [2] /\ fst c 201 = 20).
Proof.
  intros sched ps ths m0 c.
  destruct (dict_lookup_threads_safe ps m0) with (sched := sched) as (NR & SE).
  - intros i j pi pj NE Hi Hj l. unfold ps in Hi, Hj. enum_nth Hi; enum_nth Hj;
      try congruence; injection Hi as <-; injection Hj as <-;
      cbn [dio_dst dio_n dio_dict dio_dn dio_src]; unfold in_range; lia.
  - split; [exact NR|]. split.
    + intros r Hr. destruct (SE 0%nat _ r eq_refl Hr) as [E M].
      split; [exact E|]. split.
      * exact (M 0%nat ltac:(vm_compute; lia)).
      * exact (M 3%nat ltac:(vm_compute; lia)).
    + intros r Hr. destruct (SE 1%nat _ r eq_refl Hr) as [E M].
      split; [exact E|]. exact (M 1%nat ltac:(vm_compute; lia)).
Qed.
