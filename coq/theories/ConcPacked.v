(* ConcPacked.v — C17 for the in-place accessors of packed arrays (Packed.v):
   PACKED_ARRAY_SET / _SET_INCR / _SET_HALF of element i of an array that
   several threads share.

   The array lives in memory one cell per storage slot (cell base + k holds
   slot k).  A call READS the slots its model names as touched
   (`snd (packed_set c a i v)`: one slot, or two consecutive slots — a list
   that depends on the instantiation and the index only), computes the new
   contents of exactly those slots with the model function, and WRITES them
   back.  By C09 (packed_set_touched, packed_incr, packed_half) these slots are
   the ones element i occupies, (i*w)/S .. (i*w+w-1)/S.

   `slots_threads_safe`: calls that share no slot never race, under any
   schedule, and each leaves in its slots what it computes alone from their
   initial contents.  Two calls on DIFFERENT elements that share a slot (two
   4-bit elements of one byte, or an element straddling into the slot where
   the next one starts) are NOT covered — and are not safe: the accessors are
   unsynchronised read-modify-writes of whole slots.  `packed_same_slot_races`
   exhibits the race and `packed_same_slot_lost_update` a schedule under which
   one of the two updates is lost.

   `packed_set_exact` (and _incr, _half) tie the call's function to the model
   applied to the WHOLE array: the whole-array result differs from the old
   array in the touched slots only, and holds there what the call computes from
   the old contents of those slots. *)
Require Import VV.Base VV.BaseProofs VV.Packed VV.PackedLemmas VV.PackedProofs VV.PackedIncrProofs VV.PackedTheorems.
Require Import VV.Conc VV.ConcProofs VV.ConcCodec VV.ConcCodec2 VV.ConcArray.
From Coq Require Import List NArith ZArith Arith Lia Bool ZifyBool ZifyN ZifyNat.
Import ListNotations.
Local Open Scope N_scope.

(* ------------------------------------------------------------------ *)
(* calls on a list of consecutive slots *)

Definition consecutive (ks : list N) : Prop :=
  forall j, (j < length ks)%nat -> nth j ks 0 = hd 0 ks + N.of_nat j.

(* read the cells base + k (k in ks), write them back *)
Definition slots_prog (base : loc) (ks : list N) (f : list N -> list N * list N) : prog :=
  prog1 (base + hd 0 ks) (length ks) (base + hd 0 ks) f.

Lemma in_range_slots base ks l : consecutive ks ->
  in_range (base + hd 0 ks) (length ks) l -> exists k, In k ks /\ l = base + k.
Proof.
  intros C H. unfold in_range in H.
  exists (nth (N.to_nat (l - (base + hd 0 ks))) ks 0). split.
  - apply nth_In. lia.
  - rewrite C by lia. lia.
Qed.

Section Slots.
  Variable P : Type.
  Variable base : P -> loc.
  Variable ks : P -> list N.
  Variable f : P -> list N -> list N * list N.

  Theorem slots_threads_safe (ps : list P) (m0 : mem) :
    (forall p, In p ps -> consecutive (ks p)) ->
    (forall p, In p ps -> forall bs, length bs = length (ks p) ->
       (length (fst (f p bs)) <= length (ks p))%nat) ->
    (forall i j pi pj, i <> j -> nth_error ps i = Some pi -> nth_error ps j = Some pj ->
       forall ki kj, In ki (ks pi) -> In kj (ks pj) -> base pi + ki <> base pj + kj) ->
    forall sched,
    let ths := map (fun p => slots_prog (base p) (ks p) (f p)) ps in
    ~ races (snd (crun sched (m0, ths))) /\
    forall i p r, nth_error ps i = Some p ->
      nth_error (snd (crun sched (m0, ths))) i = Some (Ret r) ->
      let res := f p (peek m0 (base p + hd 0 (ks p)) (length (ks p))) in
      r = snd res /\
      forall j, (j < length (fst res))%nat ->
        fst (crun sched (m0, ths)) (base p + hd 0 (ks p) + N.of_nat j) = nth j (fst res) 0.
  Proof.
    intros HC HB HD sched.
    refine (family1_safe P (fun p => base p + hd 0 (ks p)) (fun p => length (ks p))
              (fun p => base p + hd 0 (ks p)) (fun p => length (ks p)) f ps m0 HB _ sched).
    intros i j pi pj NE Hi Hj l Hl.
    destruct (in_range_slots _ _ _ (HC pj (nth_error_In _ _ Hj)) Hl) as (kj & Kj & ->).
    assert (X : ~ in_range (base pi + hd 0 (ks pi)) (length (ks pi)) (base pj + kj)).
    { intro Hl'. destruct (in_range_slots _ _ _ (HC pi (nth_error_In _ _ Hi)) Hl') as (ki & Ki & E).
      exact (HD i j pi pj NE Hi Hj ki kj Ki Kj (eq_sym E)). }
    split; exact X.
  Qed.
End Slots.

(* ------------------------------------------------------------------ *)
(* the function of a call: the slots read, placed where the array has them
   (a slot cell holds a value of the slot type: x mod 2^S), the model
   operation `op` on that array, the touched slots of the result *)
Definition slots_view (S : N) (ks : list N) (bs : list N) : list N :=
  repeat 0 (N.to_nat (hd 0 ks)) ++ map (fun x => x mod 2 ^ S) bs.
Definition slots_of (ks : list N) (a : list N) : list N := map (slot_at a) ks.
Definition slots_fn (S : N) (ks : list N) (op : list N -> list N) (bs : list N) : list N * list N :=
  (slots_of ks (op (slots_view S ks bs)), []).

Lemma slots_fn_length S ks op bs : length (fst (slots_fn S ks op bs)) = length ks.
Proof. unfold slots_fn, slots_of. cbn [fst]. apply map_length. Qed.

(* ------------------------------------------------------------------ *)
(* the touched slots of the three accessors: independent of the array and of
   the value, [k] or [k; k + 1] *)
Lemma packed_set_slots c a i v : snd (packed_set c a i v) = snd (packed_set c [] i 0).
Proof.
  unfold packed_set. cbv zeta.
  destruct (slot_can_hold_entire_value c && (p_w c <=? p_S c - start_offset c i mod p_S c)); reflexivity.
Qed.

Lemma packed_incr_slots c a i d : snd (packed_set_incr c a i d) = snd (packed_set c [] i 0).
Proof.
  unfold packed_set_incr, packed_set. cbv zeta.
  destruct (slot_can_hold_entire_value c && (p_w c <=? p_S c - start_offset c i mod p_S c)); reflexivity.
Qed.

Lemma packed_half_slots c a i : snd (packed_set_half c a i) = snd (packed_set c [] i 0).
Proof.
  unfold packed_set_half, packed_set. cbv zeta.
  destruct (slot_can_hold_entire_value c && (p_w c <=? p_S c - start_offset c i mod p_S c));
    match goal with |- snd (if ?b then _ else _) = _ => destruct b end; reflexivity.
Qed.

Lemma packed_slots_shape c i :
  let k := start_offset c i / p_S c in
  snd (packed_set c [] i 0) = [k] \/ snd (packed_set c [] i 0) = [k; k + 1].
Proof.
  unfold packed_set. cbv zeta.
  destruct (slot_can_hold_entire_value c && (p_w c <=? p_S c - start_offset c i mod p_S c)); [left|right]; reflexivity.
Qed.

Lemma consecutive_shape (ks : list N) k : ks = [k] \/ ks = [k; k + 1] -> consecutive ks.
Proof.
  intros [-> | ->] j Hj; cbn [length] in Hj; cbn [hd].
  - destruct j as [|j]; [cbn; lia|lia].
  - destruct j as [|[|j]]; [cbn; lia|cbn; lia|lia].
Qed.

Lemma packed_slots_consecutive c i : consecutive (snd (packed_set c [] i 0)).
Proof. exact (consecutive_shape _ _ (packed_slots_shape c i)). Qed.

(* ------------------------------------------------------------------ *)
(* element i of the packed array of instantiation c at base *)
Record pcall := mk_pcall { pc_base : loc; pc_cfg : pcfg; pc_i : N }.
Definition pc_slots (p : pcall) : list N := snd (packed_set (pc_cfg p) [] (pc_i p) 0).

(* PACKED_ARRAY_SET(dst, i, v) *)
Definition packed_set_fn (c : pcfg) (i v : N) : list N -> list N * list N :=
  slots_fn (p_S c) (snd (packed_set c [] i 0)) (fun a => fst (packed_set c a i v)).
(* PACKED_ARRAY_SET_INCR(dst, i, d) *)
Definition packed_incr_fn (c : pcfg) (i : N) (d : Z) : list N -> list N * list N :=
  slots_fn (p_S c) (snd (packed_set c [] i 0)) (fun a => fst (packed_set_incr c a i d)).
(* PACKED_ARRAY_SET_HALF(dst, i) *)
Definition packed_half_fn (c : pcfg) (i : N) : list N -> list N * list N :=
  slots_fn (p_S c) (snd (packed_set c [] i 0)) (fun a => fst (packed_set_half c a i)).

(* any mixture of the three accessors: the operation is a parameter of the call *)
Inductive pop := PSet (v : N) | PIncr (d : Z) | PHalf.
Definition pop_fn (c : pcfg) (i : N) (o : pop) : list N -> list N * list N :=
  match o with
  | PSet v => packed_set_fn c i v
  | PIncr d => packed_incr_fn c i d
  | PHalf => packed_half_fn c i
  end.

Theorem packed_threads_safe (ps : list (pcall * pop)) (m0 : mem) :
  (forall i j pi pj, i <> j -> nth_error ps i = Some pi -> nth_error ps j = Some pj ->
     forall ki kj, In ki (pc_slots (fst pi)) -> In kj (pc_slots (fst pj)) ->
       pc_base (fst pi) + ki <> pc_base (fst pj) + kj) ->
  forall sched,
  let ths := map (fun p => slots_prog (pc_base (fst p)) (pc_slots (fst p))
                             (pop_fn (pc_cfg (fst p)) (pc_i (fst p)) (snd p))) ps in
  ~ races (snd (crun sched (m0, ths))) /\
  forall i p r, nth_error ps i = Some p ->
    nth_error (snd (crun sched (m0, ths))) i = Some (Ret r) ->
    let lo := pc_base (fst p) + hd 0 (pc_slots (fst p)) in
    let res := pop_fn (pc_cfg (fst p)) (pc_i (fst p)) (snd p) (peek m0 lo (length (pc_slots (fst p)))) in
    r = snd res /\
    forall j, (j < length (fst res))%nat ->
      fst (crun sched (m0, ths)) (lo + N.of_nat j) = nth j (fst res) 0.
Proof.
  intros HD sched.
  refine (slots_threads_safe (pcall * pop) (fun p => pc_base (fst p)) (fun p => pc_slots (fst p))
            (fun p => pop_fn (pc_cfg (fst p)) (pc_i (fst p)) (snd p)) ps m0 _ _ HD sched).
  - intros p _. apply packed_slots_consecutive.
  - intros [p o] _ bs _. cbn [fst snd]. unfold pc_slots.
    destruct o; cbn [pop_fn]; unfold packed_set_fn, packed_incr_fn, packed_half_fn;
      rewrite slots_fn_length; lia.
Qed.

(* the same with the slots named by C09: for admitted instantiations the
   touched slots lie in (i*w)/S .. (i*w+w-1)/S, so elements whose slot ranges
   (shifted by the array bases) do not meet can be written concurrently *)
Theorem packed_threads_safe_by_range (ps : list (pcall * pop)) (m0 : mem) :
  (forall p, In p ps -> admitted (pc_cfg (fst p)) /\ pc_i (fst p) < 4294967296) ->
  (forall i j pi pj, i <> j -> nth_error ps i = Some pi -> nth_error ps j = Some pj ->
     forall ki kj,
       (pc_i (fst pi) * p_w (pc_cfg (fst pi))) / p_S (pc_cfg (fst pi)) <= ki
         <= (pc_i (fst pi) * p_w (pc_cfg (fst pi)) + p_w (pc_cfg (fst pi)) - 1) / p_S (pc_cfg (fst pi)) ->
       (pc_i (fst pj) * p_w (pc_cfg (fst pj))) / p_S (pc_cfg (fst pj)) <= kj
         <= (pc_i (fst pj) * p_w (pc_cfg (fst pj)) + p_w (pc_cfg (fst pj)) - 1) / p_S (pc_cfg (fst pj)) ->
       pc_base (fst pi) + ki <> pc_base (fst pj) + kj) ->
  forall sched,
  let ths := map (fun p => slots_prog (pc_base (fst p)) (pc_slots (fst p))
                             (pop_fn (pc_cfg (fst p)) (pc_i (fst p)) (snd p))) ps in
  ~ races (snd (crun sched (m0, ths))) /\
  forall i p r, nth_error ps i = Some p ->
    nth_error (snd (crun sched (m0, ths))) i = Some (Ret r) ->
    let lo := pc_base (fst p) + hd 0 (pc_slots (fst p)) in
    let res := pop_fn (pc_cfg (fst p)) (pc_i (fst p)) (snd p) (peek m0 lo (length (pc_slots (fst p)))) in
    r = snd res /\
    forall j, (j < length (fst res))%nat ->
      fst (crun sched (m0, ths)) (lo + N.of_nat j) = nth j (fst res) 0.
Proof.
  intros HA HD. apply packed_threads_safe.
  intros i j pi pj NE Hi Hj ki kj Ki Kj.
  destruct (HA pi (nth_error_In _ _ Hi)) as [Ai Ii]. destruct (HA pj (nth_error_In _ _ Hj)) as [Aj Ij].
  apply (HD i j pi pj NE Hi Hj).
  - exact (set_touched (pc_cfg (fst pi)) [] (pc_i (fst pi)) 0 ki Ai Ii Ki).
  - exact (set_touched (pc_cfg (fst pj)) [] (pc_i (fst pj)) 0 kj Aj Ij Kj).
Qed.

(* ------------------------------------------------------------------ *)
(* the call's function against the model applied to the WHOLE array *)

(* op changes only the slots ks, and what it leaves there depends only on what
   they held *)
Definition local_on (ks : list N) (op : list N -> list N) : Prop :=
  (forall a, length (op a) = length a) /\
  (forall a j, ~ In j ks -> slot_at (op a) j = slot_at a j) /\
  (forall a b,
     (forall k, In k ks -> k < N.of_nat (length a) /\ k < N.of_nat (length b) /\ slot_at a k = slot_at b k) ->
     forall k, In k ks -> slot_at (op a) k = slot_at (op b) k).

Lemma slot_at_small S A k : Forall (fun s => s < 2 ^ S) A -> slot_at A k < 2 ^ S.
Proof.
  intro H. unfold slot_at. destruct (Nat.lt_ge_cases (N.to_nat k) (length A)) as [L|G].
  - rewrite Forall_forall in H. apply H. apply nth_In. exact L.
  - rewrite nth_overflow by exact G. apply N.neq_0_lt_0. apply N.pow_nonzero. lia.
Qed.

Lemma nth_slots_of ks a t : (t < length ks)%nat -> nth t (slots_of ks a) 0 = slot_at a (nth t ks 0).
Proof.
  intro H. unfold slots_of. rewrite (nth_indep _ 0 (slot_at a 0)) by (rewrite map_length; exact H).
  apply map_nth.
Qed.

Lemma slot_at_view S ks bs t : (t < length bs)%nat ->
  slot_at (slots_view S ks bs) (hd 0 ks + N.of_nat t) = nth t bs 0 mod 2 ^ S.
Proof.
  intro H. unfold slot_at, slots_view. rewrite app_nth2 by (rewrite repeat_length; lia).
  rewrite repeat_length.
  replace (N.to_nat (hd 0 ks + N.of_nat t)%N - N.to_nat (hd 0%N ks))%nat with t by lia.
  rewrite (nth_indep _ 0 ((fun x => x mod 2 ^ S) 0)) by (rewrite map_length; exact H).
  apply (map_nth (fun x => x mod 2 ^ S)).
Qed.

Lemma slots_fn_exact S ks op A : local_on ks op -> consecutive ks ->
  Forall (fun s => s < 2 ^ S) A -> (forall k, In k ks -> k < N.of_nat (length A)) ->
  length (op A) = length A /\
  (forall j, ~ In j ks -> slot_at (op A) j = slot_at A j) /\
  (forall t, (t < length ks)%nat ->
     slot_at (op A) (nth t ks 0) = nth t (fst (slots_fn S ks op (slots_of ks A))) 0).
Proof.
  intros (P1 & P2 & P3) C WF IN. split; [apply P1|]. split; [apply P2|].
  intros t Ht. unfold slots_fn. cbn [fst]. rewrite nth_slots_of by exact Ht.
  apply P3; [|apply nth_In; exact Ht].
  intros k Hk. destruct (In_nth _ _ 0 Hk) as (t' & Ht' & <-).
  split; [apply IN; apply nth_In; exact Ht'|].
  rewrite (C t' Ht').
  split.
  - unfold slots_view, slots_of. rewrite app_length, repeat_length, !map_length. lia.
  - rewrite slot_at_view by (unfold slots_of; rewrite map_length; exact Ht').
    rewrite nth_slots_of by exact Ht'. rewrite (C t' Ht').
    symmetry. apply N.mod_small. apply slot_at_small. exact WF.
Qed.

Ltac split_branch :=
  match goal with
  | |- context [slot_can_hold_entire_value ?c && ?b] => destruct (slot_can_hold_entire_value c && b)
  end.

Ltac in_slots H :=
  cbn [In] in H; repeat (destruct H as [H|H]); try contradiction; subst.

Lemma packed_set_local c i v : local_on (snd (packed_set c [] i 0)) (fun a => fst (packed_set c a i v)).
Proof.
  unfold local_on, packed_set. cbv zeta. set (k := start_offset c i / p_S c).
  split_branch; cbn [fst snd]; (split; [|split]).
  - intro a. apply length_slot_upd.
  - intros a j Hj. apply slot_at_upd_other. intros ->. apply Hj. left; reflexivity.
  - intros a b H k' Hk. in_slots Hk. destruct (H k (or_introl eq_refl)) as (La & Lb & E).
    rewrite !slot_at_upd_same by assumption. rewrite E. reflexivity.
  - intro a. rewrite !length_slot_upd. reflexivity.
  - intros a j Hj. rewrite !slot_at_upd_other; [reflexivity| |]; intros <-; apply Hj; cbn [In]; tauto.
  - intros a b H k' Hk.
    destruct (H k (or_introl eq_refl)) as (La0 & Lb0 & E0).
    destruct (H (k + 1) (or_intror (or_introl eq_refl))) as (La1 & Lb1 & E1).
    in_slots Hk.
    + rewrite !(slot_at_upd_other _ (k + 1) k) by lia. rewrite !slot_at_upd_same by assumption.
      rewrite E0. reflexivity.
    + rewrite !slot_at_upd_same by (rewrite length_slot_upd; assumption). rewrite E1. reflexivity.
Qed.

Lemma packed_incr_local c i d : local_on (snd (packed_set c [] i 0)) (fun a => fst (packed_set_incr c a i d)).
Proof.
  unfold local_on, packed_set_incr, packed_set. cbv zeta. set (k := start_offset c i / p_S c).
  split_branch; cbn [fst snd]; (split; [|split]).
  - intro a. apply length_slot_upd.
  - intros a j Hj. apply slot_at_upd_other. intros ->. apply Hj. left; reflexivity.
  - intros a b H k' Hk. in_slots Hk. destruct (H k (or_introl eq_refl)) as (La & Lb & E).
    rewrite !slot_at_upd_same by assumption. rewrite E. reflexivity.
  - intro a. rewrite !length_slot_upd. reflexivity.
  - intros a j Hj. rewrite !slot_at_upd_other; [reflexivity| |]; intros <-; apply Hj; cbn [In]; tauto.
  - intros a b H k' Hk.
    destruct (H k (or_introl eq_refl)) as (La0 & Lb0 & E0).
    destruct (H (k + 1) (or_intror (or_introl eq_refl))) as (La1 & Lb1 & E1).
    in_slots Hk.
    + rewrite !(slot_at_upd_other _ (k + 1) k) by lia. rewrite !slot_at_upd_same by assumption.
      rewrite E0, E1. reflexivity.
    + rewrite !slot_at_upd_same by (rewrite length_slot_upd; assumption). rewrite E0, E1. reflexivity.
Qed.

Lemma packed_half_local c i : local_on (snd (packed_set c [] i 0)) (fun a => fst (packed_set_half c a i)).
Proof.
  unfold local_on, packed_set_half, packed_set. cbv zeta. set (k := start_offset c i / p_S c).
  split_branch; cbn [fst snd]; (split; [|split]).
  - intro a. match goal with |- context [if ?b then _ else _] => destruct b end; cbn [fst];
      [reflexivity|apply length_slot_upd].
  - intros a j Hj. match goal with |- context [if ?b then _ else _] => destruct b end; cbn [fst];
      [reflexivity|]. apply slot_at_upd_other. intros ->. apply Hj. left; reflexivity.
  - intros a b H k' Hk. in_slots Hk. destruct (H k (or_introl eq_refl)) as (La & Lb & E).
    rewrite E. match goal with |- context [if ?b then _ else _] => destruct b end; cbn [fst]; [exact E|].
    rewrite !slot_at_upd_same by assumption. reflexivity.
  - intro a. match goal with |- context [if ?b then _ else _] => destruct b end; cbn [fst];
      [reflexivity|]. rewrite !length_slot_upd. reflexivity.
  - intros a j Hj. match goal with |- context [if ?b then _ else _] => destruct b end; cbn [fst];
      [reflexivity|].
    rewrite !slot_at_upd_other; [reflexivity| |]; intros <-; apply Hj; cbn [In]; tauto.
  - intros a b H k' Hk.
    destruct (H k (or_introl eq_refl)) as (La0 & Lb0 & E0).
    destruct (H (k + 1) (or_intror (or_introl eq_refl))) as (La1 & Lb1 & E1).
    rewrite E0, E1.
    match goal with |- context [if ?b then _ else _] => destruct b end; cbn [fst].
    + in_slots Hk; assumption.
    + in_slots Hk.
      * rewrite !(slot_at_upd_other _ (k + 1) k) by lia. rewrite !slot_at_upd_same by assumption.
        reflexivity.
      * rewrite !slot_at_upd_same by (rewrite length_slot_upd; assumption). reflexivity.
Qed.

(* PACKED_ARRAY_SET on the whole array A (every touched slot inside it): A
   keeps its length, changes in the touched slots only, and holds there what
   the call computes from their old contents *)
Theorem packed_set_exact c A i v :
  let ks := snd (packed_set c A i v) in
  Forall (fun s => s < 2 ^ p_S c) A -> (forall k, In k ks -> k < N.of_nat (length A)) ->
  let A' := fst (packed_set c A i v) in
  length A' = length A /\
  (forall j, ~ In j ks -> slot_at A' j = slot_at A j) /\
  (forall t, (t < length ks)%nat -> slot_at A' (nth t ks 0) = nth t (fst (packed_set_fn c i v (slots_of ks A))) 0).
Proof.
  cbv zeta. rewrite (packed_set_slots c A i v). intros WF IN.
  exact (slots_fn_exact (p_S c) _ (fun a => fst (packed_set c a i v)) A
           (packed_set_local c i v) (packed_slots_consecutive c i) WF IN).
Qed.

Theorem packed_incr_exact c A i d :
  let ks := snd (packed_set_incr c A i d) in
  Forall (fun s => s < 2 ^ p_S c) A -> (forall k, In k ks -> k < N.of_nat (length A)) ->
  let A' := fst (packed_set_incr c A i d) in
  length A' = length A /\
  (forall j, ~ In j ks -> slot_at A' j = slot_at A j) /\
  (forall t, (t < length ks)%nat -> slot_at A' (nth t ks 0) = nth t (fst (packed_incr_fn c i d (slots_of ks A))) 0).
Proof.
  cbv zeta. rewrite (packed_incr_slots c A i d). intros WF IN.
  exact (slots_fn_exact (p_S c) _ (fun a => fst (packed_set_incr c a i d)) A
           (packed_incr_local c i d) (packed_slots_consecutive c i) WF IN).
Qed.

Theorem packed_half_exact c A i :
  let ks := snd (packed_set_half c A i) in
  Forall (fun s => s < 2 ^ p_S c) A -> (forall k, In k ks -> k < N.of_nat (length A)) ->
  let A' := fst (packed_set_half c A i) in
  length A' = length A /\
  (forall j, ~ In j ks -> slot_at A' j = slot_at A j) /\
  (forall t, (t < length ks)%nat -> slot_at A' (nth t ks 0) = nth t (fst (packed_half_fn c i (slots_of ks A))) 0).
Proof.
  cbv zeta. rewrite (packed_half_slots c A i). intros WF IN.
  exact (slots_fn_exact (p_S c) _ (fun a => fst (packed_set_half c a i)) A
           (packed_half_local c i) (packed_slots_consecutive c i) WF IN).
Qed.

(* ------------------------------------------------------------------ *)
(* NOT covered, and not safe: two calls on different elements of the SAME
   slot.  Elements 0 and 1 of a compact 4-bit array share byte 0. *)
Definition pc_nibbles : pcfg := mk_pcfg 4 8 None 8 32 true.
Definition same_slot_threads : list prog :=
  map (fun p => slots_prog (pc_base (fst p)) (pc_slots (fst p)) (pop_fn (pc_cfg (fst p)) (pc_i (fst p)) (snd p)))
      [(mk_pcall 0 pc_nibbles 0, PSet 10); (mk_pcall 0 pc_nibbles 1, PSet 11)].

(* after thread 0 has read the byte, its pending write and thread 1's pending
   read of the same byte conflict *)
Lemma packed_same_slot_races : races (snd (crun [0%nat] (mem_list [0], same_slot_threads))).
Proof.
  unfold races. exists 0%nat, 1%nat.
  eexists. eexists. exists 0, true, false.
  split; [discriminate|]. split; [reflexivity|]. split; [reflexivity|].
  split; [reflexivity|]. split; [reflexivity|]. left; reflexivity.
Qed.

(* both sequential orders leave 0xBA in the byte; the interleaving in which
   both calls read before either writes loses element 0's update *)
Lemma packed_same_slot_lost_update :
  fst (crun [0; 0; 1; 1]%nat (mem_list [0], same_slot_threads)) 0 = 186 /\
  fst (crun [1; 1; 0; 0]%nat (mem_list [0], same_slot_threads)) 0 = 186 /\
  fst (crun [0; 1; 0; 1]%nat (mem_list [0], same_slot_threads)) 0 = 176 /\
  snd (crun [0; 1; 0; 1]%nat (mem_list [0], same_slot_threads)) = [Ret []; Ret []].
Proof. vm_compute. repeat split; reflexivity. Qed.
