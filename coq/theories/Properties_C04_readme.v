(* Properties_C04_readme.v — the README "Storage Overview" table (regenerated
   into VVgen.ReadmeTable on every run) equals, cell by cell, the per-length
   maxima of the formats: the header constants (VVgen.Consts) and the maxima
   for which the length-class theorems of the family files are proved
   (C04_tagged_len_class, C04_chained_len_max, C04_split_len_le_max,
   C04_split16_len_le_max, C04_splitfull_length_class, C04_ext_width_fits and _minimal). *)
Require Import VV.Base VV.ChainedSpec VV.SplitSpec.
Require Import VVgen.Consts VVgen.ReadmeTable.
From Coq Require Import NArith List.
Import ListNotations.
Local Open Scope N_scope.

Theorem C04_readme_tagged :
  readme_tagged_first_byte =
  [Some VARINT_TAGGED_MAX_1; Some VARINT_TAGGED_MAX_2; Some VARINT_TAGGED_MAX_3; Some VARINT_TAGGED_MAX_4].
Proof. exact (eq_refl _). Qed.
Print Assumptions C04_readme_tagged.

Theorem C04_readme_chained :
  readme_chained_final_flag_bit =
  [Some (chained_max 1); Some (chained_max 2); Some (chained_max 3); Some (chained_max 4)].
Proof. exact (eq_refl _). Qed.
Print Assumptions C04_readme_chained.

(* external: k bytes hold exactly the values below 256^k; with the width kept
   in the first byte one byte is spent on it *)
Theorem C04_readme_external :
  readme_external_external_metadata = [Some (256 ^ 1 - 1); Some (256 ^ 2 - 1); Some (256 ^ 3 - 1); Some (256 ^ 4 - 1)] /\
  readme_external_first_byte = [None; Some (256 ^ 1 - 1); Some (256 ^ 2 - 1); Some (256 ^ 3 - 1)].
Proof. exact (conj (eq_refl _) (eq_refl _)). Qed.
Print Assumptions C04_readme_external.

Theorem C04_readme_split :
  readme_split_first_byte =
  [Some (lv_max_len split_table 1); Some (lv_max_len split_table 2);
   Some (lv_max_len split_table 3); Some (lv_max_len split_table 4)] /\
  readme_split_full_16_first_byte =
  [None; Some (lv_max_len split16_table 2); Some (lv_max_len split16_table 3);
   Some (lv_max_len split16_table 4)].
Proof. vm_compute. exact (conj (eq_refl _) (eq_refl _)). Qed.
Print Assumptions C04_readme_split.

Theorem C04_readme_split_full :
  readme_split_full_first_byte =
  [Some VARINT_SPLIT_FULL_STORAGE_1; Some VARINT_SPLIT_FULL_STORAGE_2;
   Some VARINT_SPLIT_FULL_STORAGE_3; Some VARINT_SPLIT_FULL_STORAGE_4] /\
  readme_split_full_no_zero_first_byte =
  [Some VARINT_SPLIT_FULL_NO_ZERO_STORAGE_1; Some VARINT_SPLIT_FULL_NO_ZERO_STORAGE_2;
   Some VARINT_SPLIT_FULL_NO_ZERO_STORAGE_3; Some VARINT_SPLIT_FULL_NO_ZERO_STORAGE_4].
Proof. exact (conj (eq_refl _) (eq_refl _)). Qed.
Print Assumptions C04_readme_split_full.
