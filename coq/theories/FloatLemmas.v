(* FloatLemmas.v — generic lemmas used by the float proofs: masks as mod,
   bit lists (pack/unpack round trip), zigzag, int16 wrap, exponent entries. *)
Require Import VV.Base VV.BaseProofs VV.Float.
From Coq Require Import Lia ZifyBool ZifyN ZifyNat Arith.
Local Open Scope N_scope.
Ltac Zify.zify_post_hook ::= Z.div_mod_to_equations.

(* ---------- masks / shifts as arithmetic ---------- *)

Lemma fl_land_ones_r x k : N.land x (N.ones k) = x mod 2 ^ k.
Proof. apply N.land_ones. Qed.

Lemma fl_land_mask52 x : N.land x 4503599627370495 = x mod 4503599627370496.
Proof. change 4503599627370495 with (N.ones 52). rewrite N.land_ones. reflexivity. Qed.
Lemma fl_land_mask11 x : N.land x 2047 = x mod 2048.
Proof. change 2047 with (N.ones 11). rewrite N.land_ones. reflexivity. Qed.
Lemma fl_land_mask1 x : N.land x 1 = x mod 2.
Proof. change 1 with (N.ones 1) at 1. rewrite N.land_ones. reflexivity. Qed.
Lemma fl_land_mask63 x : N.land x 9223372036854775807 = x mod 9223372036854775808.
Proof. change 9223372036854775807 with (N.ones 63). rewrite N.land_ones. reflexivity. Qed.

Lemma fl_shl64_small b k : b * 2 ^ k < 18446744073709551616 -> shl64 b k = b * 2 ^ k.
Proof. intro H. unfold shl64. apply N.mod_small. exact H. Qed.

Lemma fl_lor_bit52 m : m < 4503599627370496 -> N.lor m 4503599627370496 = m + 4503599627370496.
Proof.
  intro H. rewrite N.lor_comm. change 4503599627370496 with (1 * 2 ^ 52).
  rewrite lor_add_disjoint by exact H. lia.
Qed.

Lemma fl_lxor_ones64 x : x < 18446744073709551616 ->
  N.lxor x 18446744073709551615 = 18446744073709551615 - x.
Proof.
  intro H. change 18446744073709551615 with (N.ones 64).
  assert (E : x + N.lnot x 64 = N.ones 64).
  { apply N.add_lnot_diag_low. destruct (N.eq_dec x 0) as [->|Hx]; [reflexivity|].
    apply N.log2_lt_pow2; lia. }
  unfold N.lnot in E. lia.
Qed.

(* ---------- int16, zigzag ---------- *)

Lemma fl_s16_id z : (-32768 <= z < 32768)%Z -> fl_s16 z = z.
Proof. intro H. unfold fl_s16. lia. Qed.

Lemma fl_zigzag_val n : (-4611686018427387904 <= n < 4611686018427387904)%Z ->
  fl_zigzag n = Z.to_N (if (n <? 0)%Z then (-2 * n - 1)%Z else (2 * n)%Z).
Proof.
  intro H. unfold fl_zigzag, shl64, of_s64. destruct (n <? 0)%Z eqn:E.
  - rewrite fl_lxor_ones64 by lia. lia.
  - rewrite N.lxor_0_r. lia.
Qed.

Lemma fl_zigzag_lt64 n : (-4611686018427387904 <= n < 4611686018427387904)%Z ->
  fl_zigzag n < 18446744073709551616.
Proof. intro H. rewrite fl_zigzag_val by exact H. destruct (n <? 0)%Z eqn:E; lia. Qed.

Lemma fl_unzigzag_zigzag n : (-4611686018427387904 <= n < 4611686018427387904)%Z ->
  fl_unzigzag (fl_zigzag n) = n.
Proof.
  intro H. rewrite fl_zigzag_val by exact H. unfold fl_unzigzag, to_s64, shr.
  rewrite fl_land_mask1. destruct (n <? 0)%Z eqn:E.
  - destruct (Z.to_N (-2 * n - 1) mod 2 =? 0) eqn:F; [lia|].
    rewrite fl_lxor_ones64 by lia.
    destruct (18446744073709551615 - Z.to_N (-2 * n - 1) / 2 ^ 1 <? 9223372036854775808) eqn:G; lia.
  - destruct (Z.to_N (2 * n) mod 2 =? 0) eqn:F; [|lia].
    rewrite N.lxor_0_r.
    destruct (Z.to_N (2 * n) / 2 ^ 1 <? 9223372036854775808) eqn:G; lia.
Qed.

(* ---------- exponent entries: width byte + little-endian zigzag ---------- *)

Lemma fl_take_pad_app x rest : fl_take_pad (length x) (x ++ rest) = x.
Proof. induction x as [|b x IH]; simpl; [reflexivity|]. rewrite IH. reflexivity. Qed.

Lemma fl_skipn_app {A} (x rest : list A) : skipn (length x) (x ++ rest) = rest.
Proof. induction x as [|b x IH]; simpl; [reflexivity|exact IH]. Qed.

Lemma fl_skipn_app_n {A} n (x rest : list A) : length x = n -> skipn n (x ++ rest) = rest.
Proof. intros <-. apply fl_skipn_app. Qed.

Lemma fl_length_put_exp e : length (fl_put_exp e) = S (ext_width (fl_zigzag e)).
Proof. unfold fl_put_exp. cbn [length]. rewrite length_le_bytes. reflexivity. Qed.

Lemma fl_get_put_exp e rest : (-4611686018427387904 <= e < 4611686018427387904)%Z ->
  fl_get_exp (fl_put_exp e ++ rest) = Some (e, length (fl_put_exp e)).
Proof.
  intro H. rewrite fl_length_put_exp. unfold fl_get_exp, fl_put_exp. cbv zeta.
  pose proof (fl_zigzag_lt64 e H) as Hz.
  destruct (ext_width_bounds _ Hz) as (W1 & W2 & _).
  set (zz := fl_zigzag e) in *. set (w := ext_width zz) in *.
  cbn [app byte_at nth tl].
  replace ((1 <=? N.of_nat w) && (N.of_nat w <=? 8)) with true by lia.
  rewrite Nat2N.id.
  replace (fl_take_pad w (le_bytes w zz ++ rest)) with (le_bytes w zz).
  2:{ rewrite <- (length_le_bytes w zz) at 2. rewrite fl_take_pad_app. reflexivity. }
  rewrite of_le_le_bytes, N.mod_small by exact W2.
  unfold zz. rewrite fl_unzigzag_zigzag by exact H. reflexivity.
Qed.

Lemma fl_ext_width_small zz : zz < 65536 -> (ext_width zz <= 2)%nat.
Proof.
  intro H. unfold ext_width. cbn [ext_width_fuel].
  destruct (zz / 256 =? 0) eqn:E; [lia|].
  destruct (zz / 256 / 256 =? 0) eqn:F; [lia|]. lia.
Qed.

(* ---------- bit lists ---------- *)

Lemma fl_length_bits_of w v : length (fl_bits_of w v) = w.
Proof. revert v. induction w as [|w IH]; intro v; simpl; [reflexivity|]. rewrite IH. reflexivity. Qed.

Lemma fl_odd_mod2 v : (if N.odd v then 1 else 0) = v mod 2.
Proof. rewrite <- N.bit0_odd, <- N.bit0_mod. destruct (N.testbit v 0); reflexivity. Qed.

Lemma fl_of_bits_bits_of w v : fl_of_bits (fl_bits_of w v) = v mod 2 ^ N.of_nat w.
Proof.
  revert v. induction w as [|w IH]; intro v.
  - simpl. rewrite N.mod_1_r. reflexivity.
  - cbn [fl_bits_of fl_of_bits]. rewrite IH, fl_odd_mod2, N.div2_div.
    rewrite Nat2N.inj_succ, N.pow_succ_r'.
    rewrite N.mod_mul_r by (try apply N.pow_nonzero; lia). reflexivity.
Qed.

Lemma fl_odd_cons (b : bool) x : N.odd ((if b then 1 else 0) + 2 * x) = b.
Proof.
  rewrite <- N.bit0_odd. destruct b.
  - replace (1 + 2 * x) with (2 * x + 1) by lia. apply N.testbit_odd_0.
  - rewrite N.add_0_l. apply N.testbit_even_0.
Qed.

Lemma fl_div2_cons (b : bool) x : N.div2 ((if b then 1 else 0) + 2 * x) = x.
Proof. rewrite N.div2_div. destruct b; lia. Qed.

Lemma fl_bits_of_0 w : fl_bits_of w 0 = repeat false w.
Proof. induction w as [|w IH]; simpl; [reflexivity|]. rewrite IH. reflexivity. Qed.

Lemma fl_bits_of_of_bits w l : (length l <= w)%nat ->
  fl_bits_of w (fl_of_bits l) = l ++ repeat false (w - length l).
Proof.
  revert l. induction w as [|w IH]; intros l H.
  - destruct l; simpl in *; [reflexivity|lia].
  - destruct l as [|b l].
    + cbn [fl_of_bits]. rewrite fl_bits_of_0. reflexivity.
    + cbn [fl_of_bits fl_bits_of]. rewrite fl_odd_cons, fl_div2_cons.
      rewrite IH by (simpl in H; lia). reflexivity.
Qed.

Lemma fl_length_bytes_of_bits n l : length (fl_bytes_of_bits n l) = n.
Proof. revert l. induction n as [|n IH]; intro l; simpl; [reflexivity|]. rewrite IH. reflexivity. Qed.

Lemma fl_bits_bytes_of_bits n l : (length l <= 8 * n)%nat ->
  flat_map (fl_bits_of 8) (fl_bytes_of_bits n l) = l ++ repeat false (8 * n - length l).
Proof.
  revert l. induction n as [|n IH]; intros l H.
  - destruct l; simpl in *; [reflexivity|lia].
  - cbn [fl_bytes_of_bits flat_map].
    rewrite fl_bits_of_of_bits by (rewrite firstn_length; lia).
    rewrite IH by (rewrite skipn_length; lia).
    rewrite firstn_length, skipn_length.
    destruct (Nat.le_gt_cases 8 (length l)) as [G|G].
    + replace (8 - Nat.min 8 (length l))%nat with 0%nat by lia. cbn [repeat app].
      rewrite app_nil_r, app_assoc, firstn_skipn. f_equal. f_equal. lia.
    + rewrite firstn_all2 by lia. rewrite skipn_all2 by lia. cbn [app length].
      rewrite <- app_assoc. f_equal. rewrite <- repeat_app. f_equal. lia.
Qed.

Lemma fl_length_flat_bits w vs : length (flat_map (fl_bits_of w) vs) = (length vs * w)%nat.
Proof.
  induction vs as [|v vs IH]; simpl; [reflexivity|].
  rewrite app_length, fl_length_bits_of, IH. reflexivity.
Qed.

Lemma fl_firstn_app_n {A} n (x rest : list A) : length x = n -> firstn n (x ++ rest) = x.
Proof.
  intros <-. rewrite firstn_app, Nat.sub_diag, firstn_O, app_nil_r. apply firstn_all.
Qed.

Lemma fl_chunk_vals_flat w vs extra :
  fl_chunk_vals w (length vs) (flat_map (fl_bits_of w) vs ++ extra)
  = map (fun v => v mod 2 ^ N.of_nat w) vs.
Proof.
  induction vs as [|v vs IH]; [reflexivity|].
  cbn [length fl_chunk_vals flat_map map]. rewrite <- app_assoc.
  rewrite fl_firstn_app_n by apply fl_length_bits_of.
  rewrite fl_skipn_app_n by apply fl_length_bits_of.
  rewrite fl_of_bits_bits_of, IH. reflexivity.
Qed.

Lemma fl_length_pack w vs : length (fl_pack w vs) = ((length vs * w + 7) / 8)%nat.
Proof. unfold fl_pack. apply fl_length_bytes_of_bits. Qed.

(* the central round trip of packBits / unpackBits *)
Lemma fl_unpack_pack w vs rest :
  fl_unpack w (length vs) (fl_pack w vs ++ rest) = map (fun v => v mod 2 ^ N.of_nat w) vs.
Proof.
  unfold fl_unpack.
  rewrite <- (fl_length_pack w vs), fl_take_pad_app.
  unfold fl_pack. rewrite fl_bits_bytes_of_bits.
  - apply fl_chunk_vals_flat.
  - rewrite fl_length_flat_bits.
    pose proof (Nat.div_mod (length vs * w + 7) 8 ltac:(lia)).
    pose proof (Nat.mod_upper_bound (length vs * w + 7) 8 ltac:(lia)). lia.
Qed.

Lemma fl_skipn_pack w vs rest n : n = ((length vs * w + 7) / 8)%nat ->
  skipn n (fl_pack w vs ++ rest) = rest.
Proof. intros ->. apply fl_skipn_app_n. apply fl_length_pack. Qed.

Lemma fl_map_mod_id k vs : Forall (fun v => v < 2 ^ k) vs -> map (fun v => v mod 2 ^ k) vs = vs.
Proof.
  induction 1 as [|v vs Hv _ IH]; [reflexivity|]. cbn [map]. rewrite IH, N.mod_small by exact Hv.
  reflexivity.
Qed.

(* 8-byte raw values *)
Lemma fl_of_le_8 d : d < 18446744073709551616 -> of_le (le_bytes 8 d) = d.
Proof. intro H. rewrite of_le_le_bytes. apply N.mod_small. exact H. Qed.
