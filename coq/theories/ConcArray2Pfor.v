(* ConcArray2Pfor.v — C17 instances for PFOR (PFOR.v): varintPFOREncode /
   varintPFORDecode / varintPFORGetAt as concurrent calls on shared read-only
   inputs with caller-supplied outputs.

   Footprints.  Encode: the bytes written never exceed varintPFORSize of the
   metadata the call computes from the values it READS (C03_pfor_size_bound);
   the window a caller can reserve beforehand is the worst case of that size
   over count < 2^32 64-bit values,
       9 + 1 + 5 + 8 * count + 5 + count * (5 + 9) = 20 + 22 * count
   (width <= 8, exceptionCount <= count, tagged varints of 32-bit numbers take
   at most 5 bytes) — the PFOR part of varintAdaptiveMaxSize.  Decode with the
   caller's metadata (meta->width != 0: min, width, count and marker are the
   caller's): exactly meta->count values are stored.  GetAt: nothing is
   written. *)
Require Import VV.Conc VV.ConcProofs VV.ConcCodec VV.ConcCodec2 VV.ConcArray.
Require Import VV.Base VV.BaseProofs VV.Tagged VV.TaggedProofs VV.TaggedSpecProofs.
Require Import VV.PFOR VV.PFORSpec VV.PFORLemmas VV.PFORProofs VV.PFORProofsDec VV.PFORProofsSize VV.PFORTheorems.
Require Import VV.AdaptiveCapProofs VV.AdaptiveSizeProofs.
From Coq Require Import List NArith Arith Lia Bool ZifyBool ZifyN ZifyNat.
Import ListNotations.
Local Open Scope N_scope.

Definition pfor_max_size (count : N) : N := 20 + 22 * count.

(* AdaptiveSizeProofs.adp_pfor_len for every threshold *)
Lemma pfor_encode_len_le xs thr :
  (1 <= length xs)%nat -> N.of_nat (length xs) < 4294967296 ->
  Forall (fun x => x < 18446744073709551616) xs ->
  N.of_nat (length (pfor_encode_bytes xs thr)) <= pfor_max_size (N.of_nat (length xs)).
Proof.
  intros H1 H32 HF. unfold pfor_max_size.
  pose proof (pfor_size_bound xs thr H1 H32 HF) as B.
  destruct (pfor_meta_truth xs thr H1 HF) as (Em & Ec & _ & _ & _ & (w & Hw & Ew & _) & Ee & _).
  cbv zeta in *. rewrite Em in B. set (m := pfor_encode_meta xs thr) in *.
  pose proof (excs_length_le m 0 xs) as Le.
  unfold pfor_size in B. rewrite Ec, Ew, Ee in B. rewrite tagged_len_max in B.
  pose proof (tagged_len_range (pm_min m)).
  pose proof (tagged_len_u32 (N.of_nat (length xs)) H32).
  pose proof (tagged_len_u32 (N.of_nat (length (pfor_excs m 0 xs))) ltac:(lia)).
  set (n := N.of_nat (length xs)) in *. set (k := N.of_nat (length (pfor_excs m 0 xs))) in *.
  set (a := tagged_len (pm_min m)) in *. set (b := tagged_len n) in *. set (c := tagged_len k) in *.
  assert (Hk : k <= n) by (subst k n; lia).
  assert (S : a + 1 + b + n * N.of_nat w + c + k * (b + 9) <= 20 + 22 * n) by nia.
  unfold u64 in B. rewrite N.mod_small in B by lia. lia.
Qed.

(* ---------------- varintPFOREncode(dst, values, count, threshold, &meta) ----------------
   values: n uint64_t cells at src (shared); result [bytes written;
   meta.width; meta.exceptionCount] *)
Definition pfor_enc_fn (thr : N) (vs : list N) : list N * list N :=
  let r := pfor_encode (map u64 vs) thr in
  (fst r, [N.of_nat (length (fst r)); pm_width (snd r); pm_exc (snd r)]).

Lemma pfor_enc_fn_bound thr vs :
  vs <> [] -> N.of_nat (length vs) < 4294967296 ->
  (length (fst (pfor_enc_fn thr vs)) <= N.to_nat (pfor_max_size (N.of_nat (length vs))))%nat.
Proof.
  intros Hne Hn. unfold pfor_enc_fn. cbv zeta. cbn [fst].
  pose proof (pfor_encode_len_le (map u64 vs) thr) as H. rewrite map_length in H.
  unfold pfor_encode_bytes in H.
  assert (L : (1 <= length vs)%nat) by (destruct vs; [contradiction|cbn [length]; lia]).
  specialize (H L Hn (map_u64_ok vs)). lia.
Qed.

Theorem pfor_encode_threads_safe (ps : list (io * N)) (m0 : mem) :
  (forall p, In p ps -> io_n (fst p) <> 0%nat /\ N.of_nat (io_n (fst p)) < 4294967296) ->
  (forall i j pi pj, i <> j -> nth_error ps i = Some pi -> nth_error ps j = Some pj ->
     forall l, in_range (io_dst (fst pj)) (N.to_nat (pfor_max_size (N.of_nat (io_n (fst pj))))) l ->
       ~ in_range (io_dst (fst pi)) (N.to_nat (pfor_max_size (N.of_nat (io_n (fst pi))))) l /\
       ~ in_range (io_src (fst pi)) (io_n (fst pi)) l) ->
  forall sched,
  let ths := map (fun p => prog1 (io_src (fst p)) (io_n (fst p)) (io_dst (fst p)) (pfor_enc_fn (snd p))) ps in
  ~ races (snd (crun sched (m0, ths))) /\
  forall i p r, nth_error ps i = Some p ->
    nth_error (snd (crun sched (m0, ths))) i = Some (Ret r) ->
    let res := pfor_enc_fn (snd p) (peek m0 (io_src (fst p)) (io_n (fst p))) in
    r = snd res /\
    forall j, (j < length (fst res))%nat ->
      fst (crun sched (m0, ths)) (io_dst (fst p) + N.of_nat j) = nth j (fst res) 0.
Proof.
  intros V AP sched.
  refine (family1_safe (io * N) (fun p => io_src (fst p)) (fun p => io_n (fst p))
            (fun p => io_dst (fst p)) (fun p => N.to_nat (pfor_max_size (N.of_nat (io_n (fst p)))))
            (fun p => pfor_enc_fn (snd p)) ps m0 _ AP sched).
  intros p Hp bs Hl. destruct (V p Hp) as [V1 V2]. rewrite <- Hl.
  apply pfor_enc_fn_bound; rewrite ?Hl; [|exact V2].
  intros ->. cbn [length] in Hl. congruence.
Qed.

(* ---------------- varintPFORDecode(src, values, &meta), meta->width != 0 ----------------
   the encoding: n byte cells at src (shared); the caller's metadata (what its
   own varintPFORReadMeta or varintPFOREncode produced) is private to the call;
   output: meta->count uint64_t cells at dst; result [1; values stored;
   meta.exceptionCount afterwards], or [2] (a read at or past the end of the n
   bytes), [0] (undefined in C: a width outside 1..8), [3] (model out of fuel) —
   then nothing is modelled as written *)
Definition pfor_dec_fn (m : pfor_meta) (bs : list N) : list N * list N :=
  match pfor_decode (map u8 bs) m with
  | POk (vals, m') => (vals, [1; N.of_nat (length vals); pm_exc m'])
  | POob => ([], [2])
  | PUB => ([], [0])
  | PFuel => ([], [3])
  end.

Lemma pfor_decode_length_meta z m vals m' :
  pm_width m <> 0 -> pfor_decode z m = POk (vals, m') -> N.of_nat (length vals) = pm_count m.
Proof.
  intros W D. unfold pfor_decode in D. cbv zeta in D.
  set (fuel := S (length z)) in *.
  destruct (pm_width m =? 0) eqn:W0; [exfalso; lia|].
  destruct (pfor_dec_values fuel m (pm_count m) _) as [[vs z2]| | |] eqn:V; try discriminate.
  destruct (rd_tagged z2) as [[[w e] z3]| | |]; try discriminate.
  destruct (pfor_dec_excs fuel _ _ z3 vs) as [vals'| | |] eqn:X; try discriminate.
  inversion D; subst. apply pfor_dec_excs_length in X. apply pfor_dec_values_length in V. lia.
Qed.

Lemma pfor_dec_fn_bound m bs : pm_width m <> 0 ->
  (length (fst (pfor_dec_fn m bs)) <= N.to_nat (pm_count m))%nat.
Proof.
  intro W. unfold pfor_dec_fn.
  destruct (pfor_decode (map u8 bs) m) as [[vals m']| | |] eqn:E; cbn [fst length]; try lia.
  pose proof (pfor_decode_length_meta _ _ _ _ W E). lia.
Qed.

Theorem pfor_decode_threads_safe (ps : list (io * pfor_meta)) (m0 : mem) :
  (forall p, In p ps -> pm_width (snd p) <> 0) ->
  (forall i j pi pj, i <> j -> nth_error ps i = Some pi -> nth_error ps j = Some pj ->
     forall l, in_range (io_dst (fst pj)) (N.to_nat (pm_count (snd pj))) l ->
       ~ in_range (io_dst (fst pi)) (N.to_nat (pm_count (snd pi))) l /\
       ~ in_range (io_src (fst pi)) (io_n (fst pi)) l) ->
  forall sched,
  let ths := map (fun p => prog1 (io_src (fst p)) (io_n (fst p)) (io_dst (fst p)) (pfor_dec_fn (snd p))) ps in
  ~ races (snd (crun sched (m0, ths))) /\
  forall i p r, nth_error ps i = Some p ->
    nth_error (snd (crun sched (m0, ths))) i = Some (Ret r) ->
    let res := pfor_dec_fn (snd p) (peek m0 (io_src (fst p)) (io_n (fst p))) in
    r = snd res /\
    forall j, (j < length (fst res))%nat ->
      fst (crun sched (m0, ths)) (io_dst (fst p) + N.of_nat j) = nth j (fst res) 0.
Proof.
  intros V AP sched.
  refine (family1_safe (io * pfor_meta) (fun p => io_src (fst p)) (fun p => io_n (fst p))
            (fun p => io_dst (fst p)) (fun p => N.to_nat (pm_count (snd p)))
            (fun p => pfor_dec_fn (snd p)) ps m0 _ AP sched).
  intros p Hp bs _. apply pfor_dec_fn_bound. apply V. exact Hp.
Qed.

(* ---------------- varintPFORGetAt(src, index, &meta) ----------------
   a reader: result [1; value], or [2] / [0] / [3] as above *)
Definition pfor_get_at_fn (im : N * pfor_meta) (bs : list N) : list N * list N :=
  ([], match pfor_get_at (map u8 bs) (fst im) (snd im) with
       | POk v => [1; v]
       | POob => [2]
       | PUB => [0]
       | PFuel => [3]
       end).

(* readers only: no hypothesis at all about where the encodings are *)
Theorem pfor_get_at_threads_safe (ps : list (io * (N * pfor_meta))) (m0 : mem) :
  forall sched,
  let ths := map (fun p => prog1 (io_src (fst p)) (io_n (fst p)) (io_dst (fst p)) (pfor_get_at_fn (snd p))) ps in
  ~ races (snd (crun sched (m0, ths))) /\
  forall i p r, nth_error ps i = Some p ->
    nth_error (snd (crun sched (m0, ths))) i = Some (Ret r) ->
    r = snd (pfor_get_at_fn (snd p) (peek m0 (io_src (fst p)) (io_n (fst p)))).
Proof.
  intro sched.
  destruct (family1_safe (io * (N * pfor_meta)) (fun p => io_src (fst p)) (fun p => io_n (fst p))
              (fun p => io_dst (fst p)) (fun _ => 0%nat)
              (fun p => pfor_get_at_fn (snd p)) ps m0) with (sched := sched) as [NR SE].
  - intros p _ bs _. cbn. lia.
  - intros i j pi pj _ _ _ l Hl. unfold in_range in Hl. lia.
  - split; [exact NR|]. intros i p r Hp Hr. exact (proj1 (SE i p r Hp Hr)).
Qed.
