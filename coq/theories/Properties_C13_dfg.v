(* Properties_C13_dfg.v — property C13 (decoders never write beyond the
   caller's output capacity), contribution of FOR and group.  The model's
   decoders return (return value, list of values stored at indices
   0,1,2,...): "stores only below cap" is `length out <= cap`.  The first
   group of theorems holds for EVERY byte string z (whatever count the data
   declares); a result None is C-level undefined behaviour (offset width
   outside 1..8 reaching the external-varint switch) and is not a write. *)
Require Import VV.Base VV.Tagged VV.Delta VV.FOR VV.Group.
Require Import VV.FORProofs VV.GroupProofs.
Local Open Scope N_scope.

Theorem C13_for_decode_cap : forall z cap r out, for_decode z cap = Some (r, out) ->
  N.of_nat (length out) <= cap /\ r = N.of_nat (length out).
Proof. exact for_decode_cap. Qed.
Print Assumptions C13_for_decode_cap.

Theorem C13_for_batch_decode_cap : forall z cap r out, for_batch_decode z cap = Some (r, out) ->
  N.of_nat (length out) <= cap /\ r = N.of_nat (length out).
Proof. exact for_batch_decode_cap. Qed.
Print Assumptions C13_for_batch_decode_cap.

(* more elements declared than the capacity: failure (0), nothing stored *)
Theorem C13_for_decode_short : forall z cap, cap < fm_count (for_read_metadata z) ->
  for_decode z cap = Some (0, []) /\ for_batch_decode z cap = Some (0, []).
Proof. exact for_decode_short. Qed.
Print Assumptions C13_for_decode_short.

(* the block reader stores at most blockSize elements *)
Theorem C13_for_decode_block_cap : forall z start block r out,
  start < 18446744073709551616 -> block < 18446744073709551616 ->
  for_decode_block z start block = Some (r, out) ->
  N.of_nat (length out) <= block /\ r = N.of_nat (length out).
Proof. exact for_decode_block_cap. Qed.
Print Assumptions C13_for_decode_block_cap.

(* valid encodings x capacities below the count: all-or-nothing *)
Theorem C13_for_decode_cap_valid : forall xs meta post cap,
  xs <> [] -> Forall (fun x => x < 18446744073709551616) xs ->
  N.of_nat (length xs) < 1152921504606846976 ->
  (meta = None \/ exists m0, meta = Some m0 /\
     (fm_count m0 <> N.of_nat (length xs) \/ for_analyze xs = Some m0)) ->
  cap < N.of_nat (length xs) ->
  exists enc meta', for_encode xs meta = Some (enc, meta') /\
    for_decode (enc ++ post) cap = Some (0, []) /\ for_batch_decode (enc ++ post) cap = Some (0, []).
Proof. exact for_decode_cap_valid. Qed.
Print Assumptions C13_for_decode_cap_valid.

(* group: total (no undefined path), stores at most maxFields values, and
   *fieldCount is written only on success *)
Theorem C13_group_decode_total : forall z cap, group_decode z cap <> None.
Proof. exact group_decode_total. Qed.
Print Assumptions C13_group_decode_total.

Theorem C13_group_decode_cap : forall z cap r fc out, group_decode z cap = Some (r, fc, out) ->
  N.of_nat (length out) <= cap /\
  (r = 0 -> out = [] /\ fc = None) /\ (r <> 0 -> fc = Some (N.of_nat (length out))).
Proof. exact group_decode_cap. Qed.
Print Assumptions C13_group_decode_cap.

Theorem C13_group_decode_short : forall z cap, cap < byte_at z 0 -> group_decode z cap = Some (0, None, []).
Proof. exact group_decode_short. Qed.
Print Assumptions C13_group_decode_short.

Theorem C13_group_decode_cap_valid : forall xs post cap,
  (1 <= length xs <= 64)%nat -> Forall (fun x => x < 18446744073709551616) xs ->
  cap < N.of_nat (length xs) ->
  exists enc, group_encode xs (N.of_nat (length xs)) = Some enc /\
    group_decode (enc ++ post) cap = Some (0, None, []).
Proof. exact group_decode_cap_valid. Qed.
Print Assumptions C13_group_decode_cap_valid.

Example C13_dfg_examples :
  (exists e m, for_encode [7; 8; 9] None = Some (e, m) /\ for_decode e 2 = Some (0, []) /\
     for_decode_block e 0 2 = Some (2, [7; 8])) /\
  group_decode [3; 0; 1; 2; 3] 2 = Some (0, None, []).
Proof.
  split; [do 2 eexists; split; [vm_compute; reflexivity|split; vm_compute; reflexivity]|vm_compute; reflexivity].
Qed.
