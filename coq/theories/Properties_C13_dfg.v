(* Properties_C13_dfg.v — placeholder, theorems follow *)
Require Import VV.Base VV.Delta VV.FOR VV.Group.
