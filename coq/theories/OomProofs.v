(* OomProofs.v — proofs about the allocation skeletons of Oom.v (property C18).

   The central tool is `asafe Q p live`: the weakest precondition of a skeleton
   under EVERY failure plan — at each allocation site both branches (block
   obtained / NULL) must lead to Q.  `asafe_sound` turns it into a statement
   about `arun_plan plan p` for an arbitrary `plan : nat -> bool`. *)
Require Import VV.Base VV.Oom.
From Coq Require Import Lia ZArith List Bool.
Import ListNotations.
Local Open Scope Z_scope.

(* ------------------------------------------------------------------ *)
(* weakest precondition over all plans                                  *)

Fixpoint asafe {A : Type} (Q : A -> Z -> Prop) (p : aprog A) (live : Z) : Prop :=
  match p with
  | ARet a => Q a live
  | AAlloc k => asafe Q (k true) (live + 1) /\ asafe Q (k false) live
  | AFree k => asafe Q k (live - 1)
  end.

Lemma asafe_sound_from : forall (A : Type) (Q : A -> Z -> Prop) (p : aprog A) plan n live,
  asafe Q p live ->
  Q (oom_val (arun_from plan p n live)) (oom_live (arun_from plan p n live)).
Proof.
  intros A Q p plan. induction p as [a|k IH|k IH]; intros n live H; cbn [arun_from asafe] in *.
  - exact H.
  - destruct H as [Ht Hf]. destruct (plan (S n)).
    + apply IH. exact Hf.
    + apply IH. exact Ht.
  - apply IH. exact H.
Qed.

Lemma asafe_sound : forall (A : Type) (Q : A -> Z -> Prop) (p : aprog A) plan,
  asafe Q p 0 ->
  Q (oom_val (arun_plan plan p)) (oom_live (arun_plan plan p)).
Proof. intros. unfold arun_plan. apply asafe_sound_from. assumption. Qed.

Lemma asafe_weaken : forall (A : Type) (Q Q' : A -> Z -> Prop) (p : aprog A) live,
  (forall a l, Q a l -> Q' a l) -> asafe Q p live -> asafe Q' p live.
Proof.
  intros A Q Q' p. induction p as [a|k IH|k IH]; intros live HQ H; cbn [asafe] in *.
  - apply HQ. exact H.
  - destruct H as [Ht Hf]. split; eapply IH; eauto.
  - eapply IH; eauto.
Qed.

Lemma asafe_live_eq : forall (A : Type) (Q : A -> Z -> Prop) (p : aprog A) l l',
  l = l' -> asafe Q p l -> asafe Q p l'.
Proof. intros; subst; assumption. Qed.

Lemma asafe_bind : forall (A B : Type) (Q : B -> Z -> Prop) (p : aprog A) (f : A -> aprog B) live,
  asafe (fun a l => asafe Q (f a) l) p live -> asafe Q (abind p f) live.
Proof.
  intros A B Q p f. induction p as [a|k IH|k IH]; intros live H; cbn [asafe abind] in *.
  - exact H.
  - destruct H as [Ht Hf]. split; apply IH; assumption.
  - apply IH; assumption.
Qed.

(* the fault-free run follows the success path *)
Lemma arun_no_fault_from : forall (A : Type) (p : aprog A) n live,
  oom_val (arun_from (fun _ => false) p n live) = oom_success_path p.
Proof.
  intros A p. induction p as [a|k IH|k IH]; intros n live; cbn [arun_from oom_success_path].
  - reflexivity.
  - apply IH.
  - apply IH.
Qed.
Lemma arun_no_fault : forall (A : Type) (p : aprog A),
  oom_val (arun_plan (fun _ => false) p) = oom_success_path p.
Proof. intros. apply arun_no_fault_from. Qed.
Lemma arun_zero_no_fault : forall (A : Type) (p : aprog A),
  oom_val (arun 0 p) = oom_success_path p.
Proof.
  intros A p. unfold arun, arun_plan.
  assert (G : forall (q : aprog A) n live,
            oom_val (arun_from (fun i => Nat.eqb i 0) q n live) = oom_success_path q).
  { induction q as [a|k IH|k IH]; intros n live; cbn [arun_from oom_success_path].
    - reflexivity.
    - cbn [Nat.eqb]. apply IH.
    - apply IH. }
  apply G.
Qed.

(* ------------------------------------------------------------------ *)
(* the postcondition of C18 for one call                                *)

(* outcome Fail or OkCorrect, and every live block is owned by the caller:
   `kind` blocks on success (0: nothing new, 1: an array, 2: an object) *)
Definition oom_post (kind : Z) (o : oom_outcome) (live : Z) : Prop :=
  (o = OomFail /\ live = 0) \/ (o = OomOkCorrect /\ live = kind).

Ltac oom_simp :=
  cbn [asafe oom_alloc oom_realloc oom_free_if oom_ok oom_fail andb negb] in *.

Ltac oom_close :=
  unfold oom_post; first [ left; split; [reflexivity | lia] | right; split; [reflexivity | lia] ].

(* continuation-style building blocks: if both continuations are safe at the
   live count of the entry, the block is safe there *)
Section Blocks.
  Variable A : Type.
  Variable Q : A -> Z -> Prop.

  Lemma oom_alloc_free_safe : forall (ok fail : aprog A) l,
    asafe Q ok l -> asafe Q fail l -> asafe Q (oom_alloc (AFree ok) fail) l.
  Proof.
    intros ok fail l Hok Hf. oom_simp. split; [|exact Hf].
    eapply asafe_live_eq; [|exact Hok]. lia.
  Qed.

  (* Create / Clone / Decode of an object: ok continues with two more live blocks *)
  Lemma oom_two_block_safe : forall (ok fail : aprog A) l,
    asafe Q ok (l + 2) -> asafe Q fail l ->
    asafe Q (oom_alloc (oom_alloc ok (AFree fail)) fail) l.
  Proof.
    intros ok fail l Hok Hf. oom_simp. repeat split.
    - eapply asafe_live_eq; [|exact Hok]. lia.
    - eapply asafe_live_eq; [|exact Hf]. lia.
    - exact Hf.
  Qed.

  Lemma oom_dict_create_k_safe : forall (ok fail : aprog A) l,
    asafe Q ok (l + 2) -> asafe Q fail l -> asafe Q (oom_dict_create_k ok fail) l.
  Proof. intros. unfold oom_dict_create_k. apply oom_two_block_safe; assumption. Qed.
  Lemma oom_bm_create_k_safe : forall (ok fail : aprog A) l,
    asafe Q ok (l + 2) -> asafe Q fail l -> asafe Q (oom_bm_create_k ok fail) l.
  Proof. intros. unfold oom_bm_create_k. apply oom_two_block_safe; assumption. Qed.
  Lemma oom_bm_clone_k_safe : forall (ok fail : aprog A) l,
    asafe Q ok (l + 2) -> asafe Q fail l -> asafe Q (oom_bm_clone_k ok fail) l.
  Proof. intros. unfold oom_bm_clone_k. apply oom_two_block_safe; assumption. Qed.
  Lemma oom_bm_decode_k_safe : forall (ok fail : aprog A) l,
    asafe Q ok (l + 2) -> asafe Q fail l -> asafe Q (oom_bm_decode_k ok fail) l.
  Proof. intros. unfold oom_bm_decode_k. apply oom_two_block_safe; assumption. Qed.

  Lemma oom_free2_safe : forall (k : aprog A) l,
    asafe Q k (l - 2) -> asafe Q (AFree (AFree k)) l.
  Proof. intros k l H. oom_simp. eapply asafe_live_eq; [|exact H]. lia. Qed.

  Lemma oom_dict_build_k_safe : forall grow (ok fail : aprog A) l,
    asafe Q ok l -> asafe Q fail l -> asafe Q (oom_dict_build_k grow ok fail) l.
  Proof.
    intros grow ok fail l Hok Hf. unfold oom_dict_build_k. destruct grow; oom_simp.
    - repeat split; try assumption.
      + eapply asafe_live_eq; [|exact Hok]. lia.
      + eapply asafe_live_eq; [|exact Hf]. lia.
    - split; [|assumption]. eapply asafe_live_eq; [|exact Hok]. lia.
  Qed.

  Lemma oom_dict_transient_k_safe : forall grow (ok fail : aprog A) l,
    asafe Q ok l -> asafe Q fail l -> asafe Q (oom_dict_transient_k grow ok fail) l.
  Proof.
    intros grow ok fail l Hok Hf. unfold oom_dict_transient_k, oom_dict_free_k.
    apply oom_dict_create_k_safe; [|assumption].
    apply oom_dict_build_k_safe; apply oom_free2_safe;
      (eapply asafe_live_eq; [|eassumption]; lia).
  Qed.

  Lemma oom_pfor_threshold_k_safe : forall ne (ok fail : aprog A) l,
    asafe Q ok l -> asafe Q fail l -> asafe Q (oom_pfor_threshold_k ne ok fail) l.
  Proof.
    intros ne ok fail l Hok Hf. unfold oom_pfor_threshold_k. destruct ne; [|assumption].
    apply oom_alloc_free_safe; assumption.
  Qed.

  Lemma oom_pfor_encode_k_safe : forall ne ex (ok fail : aprog A) l,
    asafe Q ok l -> asafe Q fail l -> asafe Q (oom_pfor_encode_k ne ex ok fail) l.
  Proof.
    intros ne ex ok fail l Hok Hf. unfold oom_pfor_encode_k.
    apply oom_pfor_threshold_k_safe; [|assumption].
    destruct ex; [apply oom_alloc_free_safe; assumption | assumption].
  Qed.

  Lemma oom_dict_decode_into_k_safe : forall (ok fail : aprog A) l,
    asafe Q ok l -> asafe Q fail l -> asafe Q (oom_dict_decode_into_k ok fail) l.
  Proof. intros. unfold oom_dict_decode_into_k. apply oom_alloc_free_safe; assumption. Qed.

  Lemma oom_adp_unique_k_safe : forall two (ok fail : aprog A) l,
    asafe Q ok l -> asafe Q fail l -> asafe Q (oom_adp_unique_k two ok fail) l.
  Proof.
    intros two ok fail l Hok Hf. unfold oom_adp_unique_k. destruct two; [|assumption].
    apply oom_alloc_free_safe; assumption.
  Qed.

  (* four unconditional allocations tested together *)
  Lemma oom_float4_k_safe : forall (ok fail : aprog A) l,
    asafe Q ok (l + 4) -> asafe Q fail l -> asafe Q (oom_float4_k ok fail) l.
  Proof.
    intros ok fail l Hok Hf. unfold oom_float4_k. oom_simp.
    repeat split;
      (eapply asafe_live_eq; [|first [exact Hok | exact Hf]]; lia).
  Qed.

  Lemma oom_free4_k_safe : forall (k : aprog A) l,
    asafe Q k (l - 4) -> asafe Q (oom_free4_k k) l.
  Proof. intros k l H. unfold oom_free4_k. oom_simp. eapply asafe_live_eq; [|exact H]. lia. Qed.

  (* one Add: the live count is the same at entry and in both continuations *)
  Lemma oom_bm_add_k_safe : forall st present (ok : oom_bst -> aprog A) (oom : aprog A) l,
    (forall st', asafe Q (ok st') l) -> asafe Q oom l ->
    asafe Q (oom_bm_add_k st present ok oom) l.
  Proof.
    intros st present ok oom l Hok Hoom. unfold oom_bm_add_k.
    destruct (N.eqb (ob_ty st) 0).
    - destruct present; [apply Hok|].
      destruct (N.leb 4096 (ob_card st)).
      + apply oom_alloc_free_safe; [apply Hok | exact Hoom].
      + destruct (N.leb (ob_card st + 1) (ob_cap st)); [apply Hok|].
        unfold oom_realloc. apply oom_alloc_free_safe; [apply Hok | exact Hoom].
    - destruct (N.eqb (ob_ty st) 1); [apply Hok|].
      apply oom_alloc_free_safe.
      + destruct (N.leb 4096 (ob_card st)); apply Hok.
      + destruct present; [apply Hok | exact Hoom].
  Qed.

  Lemma oom_bm_remove_nr_k_safe : forall st present (ok : oom_bst -> aprog A) l,
    (forall st', asafe Q (ok st') l) -> asafe Q (oom_bm_remove_nr_k st present ok) l.
  Proof.
    intros st present ok l Hok. unfold oom_bm_remove_nr_k.
    destruct (N.eqb (ob_ty st) 0); [apply Hok|].
    destruct present; [|apply Hok].
    destruct (N.ltb (ob_card st - 1) 4096); [|apply Hok].
    oom_simp. split; [|apply Hok].
    eapply asafe_live_eq; [|apply Hok]. lia.
  Qed.

  Lemma oom_bm_remove_k_safe : forall st present (ok : oom_bst -> aprog A) (oom : aprog A) l,
    (forall st', asafe Q (ok st') l) -> asafe Q oom l ->
    asafe Q (oom_bm_remove_k st present ok oom) l.
  Proof.
    intros st present ok oom l Hok Hoom. unfold oom_bm_remove_k.
    destruct (N.eqb (ob_ty st) 2); [|apply oom_bm_remove_nr_k_safe; exact Hok].
    apply oom_alloc_free_safe.
    - apply oom_bm_remove_nr_k_safe; exact Hok.
    - destruct present; [exact Hoom | apply Hok].
  Qed.

  Lemma oom_bm_adds_k_safe : forall flags st (ok : oom_bst -> aprog A) (oom : aprog A) l,
    (forall st', asafe Q (ok st') l) -> asafe Q oom l ->
    asafe Q (oom_bm_adds_k st flags ok oom) l.
  Proof.
    induction flags as [|p t IH]; intros st ok oom l Hok Hoom; cbn [oom_bm_adds_k].
    - apply Hok.
    - apply oom_bm_add_k_safe; [|exact Hoom]. intro st'. apply IH; assumption.
  Qed.

  Lemma oom_bm_removes_k_safe : forall flags st (ok : oom_bst -> aprog A) (oom : aprog A) l,
    (forall st', asafe Q (ok st') l) -> asafe Q oom l ->
    asafe Q (oom_bm_removes_k st flags ok oom) l.
  Proof.
    induction flags as [|p t IH]; intros st ok oom l Hok Hoom; cbn [oom_bm_removes_k].
    - apply Hok.
    - apply oom_bm_remove_k_safe; [|exact Hoom]. intro st'. apply IH; assumption.
  Qed.
End Blocks.

(* ------------------------------------------------------------------ *)
(* the APIs                                                             *)

Lemma oom_ret_ok_safe : forall kind, asafe (oom_post kind) oom_ok kind.
Proof. intro. cbn. oom_close. Qed.
Lemma oom_ret_fail_safe : forall kind, asafe (oom_post kind) oom_fail 0.
Proof. intro. cbn. oom_close. Qed.
#[local] Hint Resolve oom_ret_ok_safe oom_ret_fail_safe : oom.

Lemma oom_dict_create_safe : asafe (oom_post 2) oom_dict_create_skel 0.
Proof. apply oom_dict_create_k_safe; auto with oom. Qed.

Lemma oom_dict_build_safe : forall grow, asafe (oom_post 0) (oom_dict_build_skel grow) 0.
Proof. intro. apply oom_dict_build_k_safe; auto with oom. Qed.

Lemma oom_dict_transient_safe : forall grow,
  asafe (oom_post 0) (oom_dict_transient_k grow oom_ok oom_fail) 0.
Proof. intro. apply oom_dict_transient_k_safe; auto with oom. Qed.

Lemma oom_dict_decode_safe : asafe (oom_post 1) oom_dict_decode_skel 0.
Proof. unfold oom_dict_decode_skel. oom_simp. repeat split; oom_close. Qed.

Lemma oom_dict_decode_into_safe : asafe (oom_post 0) oom_dict_decode_into_skel 0.
Proof. apply oom_dict_decode_into_k_safe; auto with oom. Qed.

Lemma oom_pfor_threshold_safe : forall ne, asafe (oom_post 0) (oom_pfor_threshold_skel ne) 0.
Proof. intro. apply oom_pfor_threshold_k_safe; auto with oom. Qed.

Lemma oom_pfor_encode_safe : forall ne ex, asafe (oom_post 0) (oom_pfor_encode_skel ne ex) 0.
Proof. intros. apply oom_pfor_encode_k_safe; auto with oom. Qed.

Lemma oom_float_encode_safe : asafe (oom_post 0) oom_float_encode_skel 0.
Proof.
  apply oom_float4_k_safe; [|auto with oom].
  apply oom_free4_k_safe. cbn. oom_close.
Qed.

Lemma oom_float_decode_safe : forall hn, asafe (oom_post 0) (oom_float_decode_skel hn) 0.
Proof.
  intro hn. apply oom_float4_k_safe; [|auto with oom]. destruct hn.
  - oom_simp. split.
    + apply oom_free4_k_safe. cbn. oom_close.
    + apply oom_free4_k_safe. cbn. oom_close.
  - apply oom_free4_k_safe. cbn. oom_close.
Qed.

Lemma oom_adp_unique_safe : forall two exact, asafe (oom_post 0) (oom_adp_unique_skel two exact) 0.
Proof.
  intros. apply oom_adp_unique_k_safe; [auto with oom|]. destruct exact; auto with oom.
Qed.

(* EncodeWith: any continuation triple; `wrong` is only reached when BITMAP is
   requested and is not lossless for the input *)
Lemma oom_adp_encode_with_k_safe : forall (A : Type) (Q : A -> Z -> Prop) t f (ok wrong fail : aprog A) l,
  asafe Q ok l -> asafe Q fail l -> (t = 4%N -> oaf_bm_valid f = false -> asafe Q wrong l) ->
  asafe Q (oom_adp_encode_with_k t f ok wrong fail) l.
Proof.
  intros A Q t f ok wrong fail l Hok Hf Hw. unfold oom_adp_encode_with_k.
  destruct (N.eqb t 0); [apply oom_alloc_free_safe; assumption|].
  destruct (N.eqb t 1); [assumption|].
  destruct (N.eqb t 2); [apply oom_pfor_encode_k_safe; assumption|].
  destruct (N.eqb t 3).
  { destruct (oaf_nonempty f); [apply oom_dict_transient_k_safe; assumption | assumption]. }
  destruct (N.eqb_spec t 4) as [E4|_]; [|assumption].
  apply oom_bm_create_k_safe; [|assumption].
  apply oom_bm_adds_k_safe.
  - intro st'. unfold oom_bm_free_k. apply oom_free2_safe.
    destruct (oaf_bm_valid f) eqn:E.
    + eapply asafe_live_eq; [|exact Hok]. lia.
    + eapply asafe_live_eq; [|apply Hw; [exact E4 | reflexivity]]. lia.
  - unfold oom_bm_free_k. apply oom_free2_safe. eapply asafe_live_eq; [|exact Hf]. lia.
Qed.

Lemma oom_adp_encode_with_safe : forall t f,
  (t = 4%N -> oaf_bm_valid f = true) -> asafe (oom_post 0) (oom_adp_encode_with_skel t f) 0.
Proof.
  intros t f Hv. apply oom_adp_encode_with_k_safe; auto with oom.
  intros E C. rewrite (Hv E) in C. discriminate.
Qed.

(* varintAdaptiveEncode cannot fail from lack of memory: every plan ends in
   OkCorrect with nothing live (the TAGGED retry needs no allocation) *)
Definition oom_post_ok (o : oom_outcome) (live : Z) : Prop := o = OomOkCorrect /\ live = 0.

Lemma oom_adp_encode_safe : forall two sel self f,
  (sel = 4%N \/ self = 4%N -> oaf_bm_valid f = true) ->
  asafe oom_post_ok (oom_adp_encode_skel two sel self f) 0.
Proof.
  intros two sel self f Hv. unfold oom_adp_encode_skel.
  assert (Hokk : asafe oom_post_ok oom_ok 0) by (cbn; split; reflexivity).
  assert (E : forall t, (t = 4%N -> oaf_bm_valid f = true) ->
    asafe oom_post_ok (oom_adp_encode_with_k t f oom_ok (ARet OomOkWrong)
                         (if N.eqb t 5 then oom_fail else oom_ok)) 0).
  { intros t Ht. destruct (N.eqb_spec t 5) as [->|N5].
    - unfold oom_adp_encode_with_k. cbn. exact Hokk.
    - apply oom_adp_encode_with_k_safe; try assumption.
      intros E4 C. rewrite (Ht E4) in C. discriminate. }
  apply oom_adp_unique_k_safe; apply E; intro E4; apply Hv; [left | right]; exact E4.
Qed.

Lemma oom_adp_decode_safe : forall t, asafe (oom_post 0) (oom_adp_decode_skel t) 0.
Proof.
  intro t. unfold oom_adp_decode_skel.
  destruct (N.eqb t 3); [apply oom_dict_decode_into_k_safe; auto with oom|].
  destruct (N.eqb t 4); [|auto with oom].
  apply oom_bm_decode_k_safe; [|auto with oom].
  unfold oom_bm_free_k. oom_simp. split; oom_close.
Qed.

Lemma oom_bm_create_safe : asafe (oom_post 2) oom_bm_create_skel 0.
Proof. apply oom_bm_create_k_safe; auto with oom. Qed.
Lemma oom_bm_clone_safe : asafe (oom_post 2) oom_bm_clone_skel 0.
Proof. apply oom_bm_clone_k_safe; auto with oom. Qed.
Lemma oom_bm_decode_safe : asafe (oom_post 2) oom_bm_decode_skel 0.
Proof. apply oom_bm_decode_k_safe; auto with oom. Qed.

Lemma oom_bm_add_safe : forall st present, asafe (oom_post 0) (oom_bm_add_skel st present) 0.
Proof. intros. apply oom_bm_add_k_safe; auto with oom. Qed.
Lemma oom_bm_remove_safe : forall st present, asafe (oom_post 0) (oom_bm_remove_skel st present) 0.
Proof. intros. apply oom_bm_remove_k_safe; auto with oom. Qed.
Lemma oom_bm_add_many_safe : forall st flags, asafe (oom_post 0) (oom_bm_add_many_skel st flags) 0.
Proof. intros. apply oom_bm_adds_k_safe; auto with oom. Qed.
Lemma oom_bm_add_range_safe : forall st ne big flags,
  asafe (oom_post 0) (oom_bm_add_range_skel st ne big flags) 0.
Proof.
  intros. unfold oom_bm_add_range_skel. destruct (negb ne); [auto with oom|].
  destruct (big && N.eqb (ob_card st) 0)%bool.
  - apply oom_alloc_free_safe; auto with oom.
  - apply oom_bm_adds_k_safe; auto with oom.
Qed.
Lemma oom_bm_remove_range_safe : forall st flags,
  asafe (oom_post 0) (oom_bm_remove_range_skel st flags) 0.
Proof. intros. apply oom_bm_removes_k_safe; auto with oom. Qed.

Lemma oom_bm_fresh_setop_safe : forall flags, asafe (oom_post 2) (oom_bm_fresh_setop_skel flags) 0.
Proof.
  intro. unfold oom_bm_fresh_setop_skel. apply oom_bm_create_k_safe; [|auto with oom].
  apply oom_bm_adds_k_safe.
  - intro. cbn. oom_close.
  - unfold oom_bm_free_k. apply oom_free2_safe. cbn. oom_close.
Qed.
Lemma oom_bm_or_safe : forall st flags, asafe (oom_post 2) (oom_bm_or_skel st flags) 0.
Proof.
  intros. unfold oom_bm_or_skel. apply oom_bm_clone_k_safe; [|auto with oom].
  apply oom_bm_adds_k_safe.
  - intro. cbn. oom_close.
  - unfold oom_bm_free_k. apply oom_free2_safe. cbn. oom_close.
Qed.

(* ------------------------------------------------------------------ *)
(* success paths: without faults every call succeeds                    *)

Lemma oom_bm_add_k_success : forall (A : Type) st p (ok : oom_bst -> aprog A) oom (P : A -> Prop),
  (forall st', P (oom_success_path (ok st'))) ->
  P (oom_success_path (oom_bm_add_k st p ok oom)).
Proof.
  intros A st p ok oom P H. unfold oom_bm_add_k.
  repeat match goal with
         | |- context [if ?b then _ else _] => destruct b
         end; cbn [oom_success_path oom_alloc oom_realloc]; apply H.
Qed.

Lemma oom_bm_adds_k_success : forall (A : Type) flags st (ok : oom_bst -> aprog A) oom (P : A -> Prop),
  (forall st', P (oom_success_path (ok st'))) ->
  P (oom_success_path (oom_bm_adds_k st flags ok oom)).
Proof.
  intros A flags. induction flags as [|p t IH]; intros st ok oom P H; cbn [oom_bm_adds_k].
  - apply H.
  - apply oom_bm_add_k_success. intro st'. apply IH. exact H.
Qed.

Lemma oom_bm_remove_k_success : forall (A : Type) st p (ok : oom_bst -> aprog A) oom (P : A -> Prop),
  (forall st', P (oom_success_path (ok st'))) ->
  P (oom_success_path (oom_bm_remove_k st p ok oom)).
Proof.
  intros A st p ok oom P H. unfold oom_bm_remove_k, oom_bm_remove_nr_k.
  repeat match goal with
         | |- context [if ?b then _ else _] => destruct b
         end; cbn [oom_success_path oom_alloc oom_realloc]; apply H.
Qed.

Lemma oom_bm_removes_k_success : forall (A : Type) flags st (ok : oom_bst -> aprog A) oom (P : A -> Prop),
  (forall st', P (oom_success_path (ok st'))) ->
  P (oom_success_path (oom_bm_removes_k st flags ok oom)).
Proof.
  intros A flags. induction flags as [|p t IH]; intros st ok oom P H; cbn [oom_bm_removes_k].
  - apply H.
  - apply oom_bm_remove_k_success. intro st'. apply IH. exact H.
Qed.

Ltac oom_succ L := refine (L _ _ _ _ _ (fun a => a = OomOkCorrect) _); intro; reflexivity.

Lemma oom_bitmap_no_fault : forall st present flags ne big,
  oom_success_path (oom_bm_add_skel st present) = OomOkCorrect /\
  oom_success_path (oom_bm_remove_skel st present) = OomOkCorrect /\
  oom_success_path (oom_bm_add_many_skel st flags) = OomOkCorrect /\
  oom_success_path (oom_bm_add_range_skel st ne big flags) = OomOkCorrect /\
  oom_success_path (oom_bm_remove_range_skel st flags) = OomOkCorrect /\
  oom_success_path (oom_bm_fresh_setop_skel flags) = OomOkCorrect /\
  oom_success_path (oom_bm_or_skel st flags) = OomOkCorrect.
Proof.
  intros. repeat split.
  - unfold oom_bm_add_skel. oom_succ oom_bm_add_k_success.
  - unfold oom_bm_remove_skel. oom_succ oom_bm_remove_k_success.
  - unfold oom_bm_add_many_skel. oom_succ oom_bm_adds_k_success.
  - unfold oom_bm_add_range_skel. destruct (negb ne); [reflexivity|].
    destruct (big && N.eqb (ob_card st) 0)%bool; [reflexivity|].
    oom_succ oom_bm_adds_k_success.
  - unfold oom_bm_remove_range_skel. oom_succ oom_bm_removes_k_success.
  - unfold oom_bm_fresh_setop_skel. cbn [oom_bm_create_k oom_alloc oom_success_path].
    oom_succ oom_bm_adds_k_success.
  - unfold oom_bm_or_skel. cbn [oom_bm_clone_k oom_alloc oom_success_path].
    oom_succ oom_bm_adds_k_success.
Qed.

Lemma oom_scalar_no_fault : forall grow ne ex hn two exact t,
  oom_success_path oom_dict_create_skel = OomOkCorrect /\
  oom_success_path (oom_dict_build_skel grow) = OomOkCorrect /\
  oom_success_path (oom_dict_encode_skel grow) = OomOkCorrect /\
  oom_success_path oom_dict_decode_skel = OomOkCorrect /\
  oom_success_path oom_dict_decode_into_skel = OomOkCorrect /\
  oom_success_path (oom_pfor_threshold_skel ne) = OomOkCorrect /\
  oom_success_path (oom_pfor_encode_skel ne ex) = OomOkCorrect /\
  oom_success_path oom_float_encode_skel = OomOkCorrect /\
  oom_success_path (oom_float_decode_skel hn) = OomOkCorrect /\
  oom_success_path (oom_adp_unique_skel two exact) = OomOkCorrect /\
  oom_success_path (oom_adp_decode_skel t) = OomOkCorrect /\
  oom_success_path oom_bm_create_skel = OomOkCorrect /\
  oom_success_path oom_bm_clone_skel = OomOkCorrect /\
  oom_success_path oom_bm_decode_skel = OomOkCorrect.
Proof.
  intros. repeat split; try reflexivity.
  - destruct grow; reflexivity.
  - destruct grow; reflexivity.
  - destruct ne; reflexivity.
  - destruct ne, ex; reflexivity.
  - destruct hn; reflexivity.
  - destruct two, exact; reflexivity.
  - unfold oom_adp_decode_skel. destruct (N.eqb t 3); [reflexivity|]. destruct (N.eqb t 4); reflexivity.
Qed.

Lemma oom_adp_encode_with_no_fault : forall t f,
  oaf_bm_valid f = true -> oom_success_path (oom_adp_encode_with_skel t f) = OomOkCorrect.
Proof.
  intros t f Hv. unfold oom_adp_encode_with_skel, oom_adp_encode_with_k.
  destruct (N.eqb t 0); [reflexivity|].
  destruct (N.eqb t 1); [reflexivity|].
  destruct (N.eqb t 2); [destruct (oaf_nonempty f), (oaf_pfor_exc f); reflexivity|].
  destruct (N.eqb t 3); [destruct (oaf_nonempty f), (oaf_dict_grow f); reflexivity|].
  destruct (N.eqb t 4); [|reflexivity].
  cbn [oom_bm_create_k oom_alloc oom_success_path].
  refine (oom_bm_adds_k_success _ _ _ _ _ (fun a => a = OomOkCorrect) _).
  intro. rewrite Hv. reflexivity.
Qed.

(* ------------------------------------------------------------------ *)
(* the skeletons of the code BEFORE the repairs, and the plans that break them *)

(* varintBitmapAnd at 6bd620f: the result of every inner Add was ignored; a
   failed growth dropped the member and the loop went on *)
Fixpoint oom_old_adds_new (card cap : N) (m : nat) (dropped : bool) : aprog oom_outcome :=
  match m with
  | O => ARet (if dropped then OomOkWrong else OomOkCorrect)
  | S m' =>
      if N.leb (card + 1) cap then oom_old_adds_new (card + 1) cap m' dropped
      else AAlloc (fun b => if b then AFree (oom_old_adds_new (card + 1) (2 * cap) m' dropped)
                            else oom_old_adds_new card cap m' true)
  end.
Definition oom_old_bm_and_skel (m : nat) : aprog oom_outcome :=
  oom_bm_create_k (oom_old_adds_new 0 16 m false) oom_fail.

Lemma oom_old_bm_and_refuted :
  oom_val (arun 3 (oom_old_bm_and_skel 17)) = OomOkWrong.
Proof. vm_compute. reflexivity. Qed.

(* varintAdaptiveEncodeWith(PFOR) at 6bd620f: `return encodedSize + 1` even
   when the encoder returned 0 *)
Definition oom_old_adp_encode_with_pfor_skel (ne ex : bool) : aprog oom_outcome :=
  oom_pfor_encode_k ne ex oom_ok (ARet OomOkWrong).
Lemma oom_old_adp_encode_with_pfor_refuted :
  oom_val (arun 1 (oom_old_adp_encode_with_pfor_skel true false)) = OomOkWrong.
Proof. vm_compute. reflexivity. Qed.

(* the same plans on the repaired code *)
Lemma oom_bm_and_after_fix :
  oom_val (arun 3 (oom_bm_fresh_setop_skel (repeat false 17))) = OomFail /\
  oom_live (arun 3 (oom_bm_fresh_setop_skel (repeat false 17))) = 0.
Proof. vm_compute. split; reflexivity. Qed.
