(* Properties_C18_sites.v — C18: the allocation calls present in the CURRENT
   sources (coq/gen/AllocSites.v, regenerated from clang's AST on every run)
   are exactly those the allocation skeletons of Oom.v model (OomSites.v), and
   the other twelve translation units contain no allocation call at all. *)
Require Import VV.OomSites.
Require Import VVgen.AllocSites.
From Coq Require Import List String.
Import ListNotations.
Local Open Scope string_scope.

Theorem C18_alloc_sites_current : alloc_sites = oom_sites_expected.
Proof. exact (eq_refl _). Qed.
Print Assumptions C18_alloc_sites_current.

Theorem C18_alloc_free_units_current : alloc_free_units = oom_alloc_free_units_expected.
Proof. exact (eq_refl _). Qed.
Print Assumptions C18_alloc_free_units_current.

Example C18_sites_example :
  In ("varintDict.c:varintDictCreate", ["calloc"; "malloc"; "free"]) alloc_sites.
Proof. vm_compute. tauto. Qed.
