(* Bitstream.v — Gallina model of /repo/src/varintBitstream.h
   (varintBitstreamSet, varintBitstreamGet, _varintBitstreamPrepareSigned,
   _varintBitstreamRestoreSigned), parametrised by the two typedefs of the
   header:

     W = bits of `vbits`    (slot / machine word type,  VBITS,    default uint64_t)
     V = bits of `vbitsVal` (value type,                VBITSVAL, default uint64_t)

   One definition per C function / macro, same case structure.

   Arithmetic width.  Every `vbitsVal` expression of the header is built from
   <<, >>, &, |, ~ only.  C evaluates them in max(V, 32) bits (integer
   promotion when V < 32) and truncates to V bits on assignment to a
   `vbitsVal` variable and to W bits on the store into `out[k]`.  Truncation
   commutes with all five operators, so the model evaluates in V bits
   (`shlv`, `notv`, `truncv V`) and truncates to W at the stores.  That is
   exact as long as W <= V (the header shifts `val` by up to W-1, which is
   undefined in C when V < W and W - 1 >= max(V,32)); `bs_ok` records the
   admissible parameters and the functions return None outside them:

     1 <= n           n = 0 makes `~0ULL >> (64 - n)` a shift by 64 (UB)
     n <= W           the code touches at most out[0], out[1]; for n > W the
                      shift count BITS_PER_SLOT - highBitInCurrentSlot goes
                      negative (UB) or bits are lost
     W <= V <= 64     see above; ~0ULL is 64 bits

   Memory.  A stream is a `list N` of slots (each < 2^W).  An access to a slot
   index >= length is an out-of-bounds access in C; the model returns None.
   `bs_touched` lists the slot indices the C code reads/writes for given
   (offset, width): out[0] always, out[1] only on the two-slot path.

   This models the code after the `fix:` commit for F28 (mask derived from the
   value width).  The assert in Set is disabled in the pinned build (NDEBUG);
   the model is the NDEBUG behaviour, the theorems assume val < 2^n. *)
Require Import VV.Base.
Local Open Scope N_scope.

(* x truncated to w bits *)
Definition truncv (w x : N) : N := N.land x (N.ones w).
(* x << k in a w-bit unsigned type *)
Definition shlv (w x k : N) : N := truncv w (N.shiftl x k).
(* ~x in a w-bit unsigned type *)
Definition notv (w x : N) : N := N.ldiff (N.ones w) x.

(* admissible (slot bits, value bits, bitsPerValue) *)
Definition bs_ok (W V n : N) : bool :=
  (1 <=? n) && (n <=? W) && (W <=? V) && (V <=? 64).

(* valueMask = (vbitsVal)(~0ULL >> (64 - bitsPerValue)) *)
Definition bs_mask (V n : N) : N :=
  truncv V (N.shiftr 18446744073709551615 (64 - n)).

(* replace slot i (i < length s) *)
Definition upd (s : list N) (i : nat) (x : N) : list N :=
  firstn i s ++ x :: skipn (S i) s.

(* slot indices accessed by Set/Get(off, n): &dst[off / W] is out[0];
   out[1] only when lowDataBitPosition < 0 *)
Definition bs_touched (W off n : N) : list nat :=
  let q := N.to_nat (off / W) in
  let high := W - off mod W in
  if n <=? high then [q] else [q; S q].

(* varintBitstreamSet *)
Definition bs_set (W V : N) (s : list N) (off n v : N) : option (list N) :=
  if negb (bs_ok W V n) then None else
  let q := N.to_nat (off / W) in
  let high := W - off mod W in           (* highDataBitPosition, 1..W *)
  let mask := bs_mask V n in
  if n <=? high then                      (* lowDataBitPosition >= 0 *)
    let low := high - n in
    match nth_error s q with
    | Some o0 =>
        Some (upd s q (truncv W (N.lor (N.land o0 (notv V (shlv V mask low)))
                                       (shlv V v low))))
    | None => None
    end
  else
    let hbit := n - high in               (* highBitInCurrentSlot = -low *)
    let lbit := W - hbit in               (* lowBitInOverflowSlot *)
    let hi := N.shiftr v hbit in
    let lo := shlv V v lbit in
    match nth_error s q, nth_error s (S q) with
    | Some o0, Some o1 =>
        let s1 := upd s q (truncv W (N.lor (N.land o0 (notv V (N.shiftr mask hbit))) hi)) in
        Some (upd s1 (S q) (truncv W (N.lor (N.land o1 (notv V (shlv V mask lbit))) lo)))
    | _, _ => None
    end.

(* varintBitstreamGet *)
Definition bs_get (W V : N) (s : list N) (off n : N) : option N :=
  if negb (bs_ok W V n) then None else
  let q := N.to_nat (off / W) in
  let high := W - off mod W in
  let mask := bs_mask V n in
  if n <=? high then
    let low := high - n in
    match nth_error s q with
    | Some i0 => Some (N.land (N.shiftr i0 low) mask)
    | None => None
    end
  else
    let hbit := n - high in
    let lbit := W - hbit in
    match nth_error s q, nth_error s (S q) with
    | Some i0, Some i1 =>
        let hi := N.land i0 (N.shiftr mask hbit) in
        let lo := N.shiftr i1 lbit in
        Some (truncv V (N.lor (shlv V hi hbit) lo))
    | _, _ => None
    end.

(* bit i of the stream, the numbering the header uses: bit 0 is the most
   significant bit of slot 0 ("we write in order and not in reverse order") *)
Definition sbit (W : N) (s : list N) (i : N) : bool :=
  N.testbit (nth (N.to_nat (i / W)) s 0) (W - 1 - i mod W).

(* -x in uint64_t *)
Definition neg64 (x : N) : N := sub64 0 x.

(* _varintBitstreamPrepareSigned(val, n): callers invoke it for negative
   values only (the macro body has no test); val is a 64-bit variable
   (vbitsVal in examples/standalone/example_bitstream.c, int64_t in
   docs/modules/varintBitstream.md — same bits).  Shift by n-1 is UB for
   n = 0 or n > 64: None. *)
Definition bs_prepare_signed (x n : N) : option N :=
  if (1 <=? n) && (n <=? 64) then Some (N.lxor (neg64 x) (shl64 1 (n - 1))) else None.

(* _varintBitstreamRestoreSigned(result, n) *)
Definition bs_restore_signed (r n : N) : option N :=
  if (1 <=? n) && (n <=? 64) then
    Some (if N.land (N.shiftr r (n - 1)) 1 =? 1
          then neg64 (N.lxor r (shl64 1 (n - 1))) else r)
  else None.

(* the usage pattern of the example: store a signed value in n bits *)
Definition bs_signed_store (v : Z) (n : N) : option N :=
  if (v <? 0)%Z then bs_prepare_signed (of_s64 v) n
  else if (1 <=? n) && (n <=? 64) then Some (of_s64 v) else None.
Definition bs_signed_load (r n : N) : option Z :=
  match bs_restore_signed r n with Some x => Some (to_s64 x) | None => None end.

(* EXTRACT: bs_set bs_get bs_touched bs_prepare_signed bs_restore_signed bs_signed_store bs_signed_load sbit *)
