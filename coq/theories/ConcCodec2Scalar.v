(* ConcCodec2Scalar.v — C17: the generic theorem of ConcCodec2.v for the
   scalar codecs whose models exist: external (little/big endian), chained,
   chained-simple, split, split16, splitfull, splitfull-nozero.  The bound of
   each destination window is the length bound of the C01 theorems. *)
Require Import VV.Conc VV.ConcProofs VV.ConcCodec VV.ConcCodec2.
Require Import VV.Base VV.Chained VV.ChainedPutProofs VV.ChainedRtProofs.
Require Import VV.Split VV.SplitProofs VV.Split16Proofs.
Require Import VV.SplitFull VV.SplitFullProofs VV.SplitFullNZProofs.
Require Import VV.External VV.ExternalProofs.
From Coq Require Import List NArith Arith Lia Bool.
Import ListNotations.
Local Open Scope N_scope.

(* decoders that read a fixed number R of bytes and take no other argument *)
Section CodecFixed.
  Variable A : Type.
  Variable enc : A -> list N.
  Variable eret : A -> list N.
  Variable B : nat.
  Variable R : nat.
  Variable dec : list N -> list N.

  Definition fixed_threads (encs : list (loc * A)) (srcs : list loc) : list prog :=
    map (fun da => write_bytes (fst da) (enc (snd da)) (Ret (eret (snd da)))) encs ++
    map (fun s => read_bytes s R [] (fun bs => Ret (dec bs))) srcs.

  Theorem codec_fixed_safe (encs : list (loc * A)) (srcs : list loc) (m0 : mem) :
    (forall d a, In (d, a) encs -> (length (enc a) <= B)%nat) ->
    (forall i j di ai dj aj, i <> j ->
       nth_error encs i = Some (di, ai) -> nth_error encs j = Some (dj, aj) ->
       forall l, in_range di B l -> ~ in_range dj B l) ->
    (forall d a s l, In (d, a) encs -> In s srcs -> in_range d B l -> ~ in_range s R l) ->
    forall sched,
    ~ races (snd (crun sched (m0, fixed_threads encs srcs))) /\
    (forall i d a r, nth_error encs i = Some (d, a) ->
       nth_error (snd (crun sched (m0, fixed_threads encs srcs))) i = Some (Ret r) ->
       r = eret a /\
       forall j, (j < length (enc a))%nat ->
         fst (crun sched (m0, fixed_threads encs srcs)) (d + N.of_nat j) = nth j (enc a) 0) /\
    (forall k s r, nth_error srcs k = Some s ->
       nth_error (snd (crun sched (m0, fixed_threads encs srcs))) (length encs + k) = Some (Ret r) ->
       r = dec (peek m0 s R)).
  Proof.
    intros EB DD RA sched.
    assert (E : fixed_threads encs srcs =
                codec_threads A unit enc eret (fun _ => R) (fun _ bs => dec bs)
                  encs (map (fun s => (s, tt)) srcs)).
    { unfold fixed_threads, codec_threads. f_equal. rewrite map_map. reflexivity. }
    rewrite E.
    destruct (codec_threads_safe A unit enc eret B (fun _ => R) (fun _ bs => dec bs)
                encs (map (fun s => (s, tt)) srcs) m0 EB DD) with (sched := sched) as (NR & SE & SD).
    - intros d a s p l Hin Hs. apply in_map_iff in Hs. destruct Hs as (s' & Es & Hs').
      injection Es as <- _. exact (RA d a s' l Hin Hs').
    - split; [exact NR|]. split; [exact SE|].
      intros k s r Hk Hr. apply (SD k s tt r); [|exact Hr].
      rewrite nth_error_map, Hk. reflexivity.
  Qed.
End CodecFixed.


(* ------------------------------------------------------------------ *)
(* external, little endian: the encoder writes ext_width x <= 8 bytes; a
   decoder call reads the w bytes it is told to *)
Theorem external_threads_safe (encs : list (loc * N)) (decs : list (loc * nat)) (m0 : mem) :
  (forall d x, In (d, x) encs -> x < 18446744073709551616) ->
  (forall i j di xi dj xj, i <> j ->
     nth_error encs i = Some (di, xi) -> nth_error encs j = Some (dj, xj) ->
     forall l, in_range di 8 l -> ~ in_range dj 8 l) ->
  (forall d x s w l, In (d, x) encs -> In (s, w) decs -> in_range d 8 l -> ~ in_range s w l) ->
  forall sched,
  let ths :=
    map (fun dx => write_bytes (fst dx) (ext_put (snd dx)) (Ret [N.of_nat (ext_width (snd dx))])) encs ++
    map (fun sw => read_bytes (fst sw) (snd sw) [] (fun bs => Ret (ret_opt (ext_get bs (snd sw))))) decs in
  ~ races (snd (crun sched (m0, ths))) /\
  (forall i d x r, nth_error encs i = Some (d, x) ->
     nth_error (snd (crun sched (m0, ths))) i = Some (Ret r) ->
     r = [N.of_nat (ext_width x)] /\
     forall j, (j < length (ext_put x))%nat ->
       fst (crun sched (m0, ths)) (d + N.of_nat j) = nth j (ext_put x) 0) /\
  (forall k s w r, nth_error decs k = Some (s, w) ->
     nth_error (snd (crun sched (m0, ths))) (length encs + k) = Some (Ret r) ->
     r = ret_opt (ext_get (peek m0 s w) w)).
Proof.
  intros XB DD RA sched.
  refine (codec_threads_safe N nat ext_put (fun x => [N.of_nat (ext_width x)]) 8 (fun w => w)
            (fun w bs => ret_opt (ext_get bs w)) encs decs m0 _ DD RA sched).
  intros d x Hin. destruct (external_len_agree x (XB d x Hin)) as (L & _ & _ & _ & _ & Rg). lia.
Qed.

(* external, big endian *)
Theorem externalbe_threads_safe (encs : list (loc * N)) (decs : list (loc * nat)) (m0 : mem) :
  (forall d x, In (d, x) encs -> x < 18446744073709551616) ->
  (forall i j di xi dj xj, i <> j ->
     nth_error encs i = Some (di, xi) -> nth_error encs j = Some (dj, xj) ->
     forall l, in_range di 8 l -> ~ in_range dj 8 l) ->
  (forall d x s w l, In (d, x) encs -> In (s, w) decs -> in_range d 8 l -> ~ in_range s w l) ->
  forall sched,
  let ths :=
    map (fun dx => write_bytes (fst dx) (extbe_put (snd dx)) (Ret [N.of_nat (ext_width (snd dx))])) encs ++
    map (fun sw => read_bytes (fst sw) (snd sw) [] (fun bs => Ret (ret_opt (extbe_get bs (snd sw))))) decs in
  ~ races (snd (crun sched (m0, ths))) /\
  (forall i d x r, nth_error encs i = Some (d, x) ->
     nth_error (snd (crun sched (m0, ths))) i = Some (Ret r) ->
     r = [N.of_nat (ext_width x)] /\
     forall j, (j < length (extbe_put x))%nat ->
       fst (crun sched (m0, ths)) (d + N.of_nat j) = nth j (extbe_put x) 0) /\
  (forall k s w r, nth_error decs k = Some (s, w) ->
     nth_error (snd (crun sched (m0, ths))) (length encs + k) = Some (Ret r) ->
     r = ret_opt (extbe_get (peek m0 s w) w)).
Proof.
  intros XB DD RA sched.
  refine (codec_threads_safe N nat extbe_put (fun x => [N.of_nat (ext_width x)]) 8 (fun w => w)
            (fun w bs => ret_opt (extbe_get bs w)) encs decs m0 _ DD RA sched).
  intros d x Hin. rewrite (extbe_put_length x (XB d x Hin)).
  destruct (external_len_agree x (XB d x Hin)) as (_ & _ & _ & _ & _ & Rg). lia.
Qed.

(* ------------------------------------------------------------------ *)
(* the 9-byte families: encoders into 9-byte windows, decoders reading the 9
   bytes at their source *)
Ltac fixed9 enc eret dec :=
  intros XB DD RA sched;
  refine (codec_fixed_safe N enc eret 9 9 dec _ _ _ _ DD RA sched).

Theorem chained_threads_safe (encs : list (loc * N)) (srcs : list loc) (m0 : mem) :
  (forall d x, In (d, x) encs -> x < 18446744073709551616) ->
  (forall i j di xi dj xj, i <> j ->
     nth_error encs i = Some (di, xi) -> nth_error encs j = Some (dj, xj) ->
     forall l, in_range di 9 l -> ~ in_range dj 9 l) ->
  (forall d x s l, In (d, x) encs -> In s srcs -> in_range d 9 l -> ~ in_range s 9 l) ->
  forall sched,
  let ths :=
    map (fun dx => write_bytes (fst dx) (chained_put (snd dx)) (Ret [chained_len (snd dx)])) encs ++
    map (fun s => read_bytes s 9 [] (fun bs => Ret [fst (chained_get bs); snd (chained_get bs)])) srcs in
  ~ races (snd (crun sched (m0, ths))) /\
  (forall i d x r, nth_error encs i = Some (d, x) ->
     nth_error (snd (crun sched (m0, ths))) i = Some (Ret r) ->
     r = [chained_len x] /\
     forall j, (j < length (chained_put x))%nat ->
       fst (crun sched (m0, ths)) (d + N.of_nat j) = nth j (chained_put x) 0) /\
  (forall k s r, nth_error srcs k = Some s ->
     nth_error (snd (crun sched (m0, ths))) (length encs + k) = Some (Ret r) ->
     r = [fst (chained_get (peek m0 s 9)); snd (chained_get (peek m0 s 9))]).
Proof.
  fixed9 chained_put (fun x => [chained_len x]) (fun bs => [fst (chained_get bs); snd (chained_get bs)]).
  intros d x Hin. pose proof (chained_put_length x (XB d x Hin)).
  pose proof (chained_len_range x (XB d x Hin)). lia.
Qed.

Theorem csimple_threads_safe (encs : list (loc * N)) (srcs : list loc) (m0 : mem) :
  (forall d x, In (d, x) encs -> x < 18446744073709551616) ->
  (forall i j di xi dj xj, i <> j ->
     nth_error encs i = Some (di, xi) -> nth_error encs j = Some (dj, xj) ->
     forall l, in_range di 9 l -> ~ in_range dj 9 l) ->
  (forall d x s l, In (d, x) encs -> In s srcs -> in_range d 9 l -> ~ in_range s 9 l) ->
  forall sched,
  let ths :=
    map (fun dx => write_bytes (fst dx) (csimple_encode64 (snd dx)) (Ret [csimple_length (snd dx)])) encs ++
    map (fun s => read_bytes s 9 [] (fun bs => Ret [fst (csimple_decode64 bs); snd (csimple_decode64 bs)])) srcs in
  ~ races (snd (crun sched (m0, ths))) /\
  (forall i d x r, nth_error encs i = Some (d, x) ->
     nth_error (snd (crun sched (m0, ths))) i = Some (Ret r) ->
     r = [csimple_length x] /\
     forall j, (j < length (csimple_encode64 x))%nat ->
       fst (crun sched (m0, ths)) (d + N.of_nat j) = nth j (csimple_encode64 x) 0) /\
  (forall k s r, nth_error srcs k = Some s ->
     nth_error (snd (crun sched (m0, ths))) (length encs + k) = Some (Ret r) ->
     r = [fst (csimple_decode64 (peek m0 s 9)); snd (csimple_decode64 (peek m0 s 9))]).
Proof.
  fixed9 csimple_encode64 (fun x => [csimple_length x])
         (fun bs => [fst (csimple_decode64 bs); snd (csimple_decode64 bs)]).
  intros d x Hin. pose proof (csimple_put_length x (XB d x Hin)).
  pose proof (csimple_length_range x (XB d x Hin)). lia.
Qed.

(* the macro families whose encoder model is an option (None = an expansion
   reaching undefined behaviour; the C01 theorems show it never happens) *)
Definition bytes_of (o : option (list N)) : list N :=
  match o with Some bs => bs | None => [] end.

Theorem split_threads_safe (encs : list (loc * N)) (srcs : list loc) (m0 : mem) :
  (forall d x, In (d, x) encs -> x < 18446744073709551616) ->
  (forall i j di xi dj xj, i <> j ->
     nth_error encs i = Some (di, xi) -> nth_error encs j = Some (dj, xj) ->
     forall l, in_range di 9 l -> ~ in_range dj 9 l) ->
  (forall d x s l, In (d, x) encs -> In s srcs -> in_range d 9 l -> ~ in_range s 9 l) ->
  forall sched,
  let ths :=
    map (fun dx => write_bytes (fst dx) (bytes_of (split_put (snd dx))) (Ret [split_length (snd dx)])) encs ++
    map (fun s => read_bytes s 9 [] (fun bs => Ret (ret_opt2 (split_get bs)))) srcs in
  ~ races (snd (crun sched (m0, ths))) /\
  (forall i d x r, nth_error encs i = Some (d, x) ->
     nth_error (snd (crun sched (m0, ths))) i = Some (Ret r) ->
     r = [split_length x] /\
     forall j, (j < length (bytes_of (split_put x)))%nat ->
       fst (crun sched (m0, ths)) (d + N.of_nat j) = nth j (bytes_of (split_put x)) 0) /\
  (forall k s r, nth_error srcs k = Some s ->
     nth_error (snd (crun sched (m0, ths))) (length encs + k) = Some (Ret r) ->
     r = ret_opt2 (split_get (peek m0 s 9))).
Proof.
  fixed9 (fun x => bytes_of (split_put x)) (fun x => [split_length x]) (fun bs => ret_opt2 (split_get bs)).
  intros d x Hin. destruct (split_len_agree x (XB d x Hin)) as (bs & -> & L & _).
  pose proof (split_len_range x (XB d x Hin)). cbn [bytes_of]. lia.
Qed.

Theorem split16_threads_safe (encs : list (loc * N)) (srcs : list loc) (m0 : mem) :
  (forall d x, In (d, x) encs -> x < 18446744073709551616) ->
  (forall i j di xi dj xj, i <> j ->
     nth_error encs i = Some (di, xi) -> nth_error encs j = Some (dj, xj) ->
     forall l, in_range di 9 l -> ~ in_range dj 9 l) ->
  (forall d x s l, In (d, x) encs -> In s srcs -> in_range d 9 l -> ~ in_range s 9 l) ->
  forall sched,
  let ths :=
    map (fun dx => write_bytes (fst dx) (bytes_of (split16_put (snd dx))) (Ret [split16_length (snd dx)])) encs ++
    map (fun s => read_bytes s 9 [] (fun bs => Ret (ret_opt2 (split16_get bs)))) srcs in
  ~ races (snd (crun sched (m0, ths))) /\
  (forall i d x r, nth_error encs i = Some (d, x) ->
     nth_error (snd (crun sched (m0, ths))) i = Some (Ret r) ->
     r = [split16_length x] /\
     forall j, (j < length (bytes_of (split16_put x)))%nat ->
       fst (crun sched (m0, ths)) (d + N.of_nat j) = nth j (bytes_of (split16_put x)) 0) /\
  (forall k s r, nth_error srcs k = Some s ->
     nth_error (snd (crun sched (m0, ths))) (length encs + k) = Some (Ret r) ->
     r = ret_opt2 (split16_get (peek m0 s 9))).
Proof.
  fixed9 (fun x => bytes_of (split16_put x)) (fun x => [split16_length x]) (fun bs => ret_opt2 (split16_get bs)).
  intros d x Hin. destruct (split16_len_agree x (XB d x Hin)) as (bs & -> & L & _).
  pose proof (split16_len_range x (XB d x Hin)). cbn [bytes_of]. lia.
Qed.

Theorem splitfull_threads_safe (encs : list (loc * N)) (srcs : list loc) (m0 : mem) :
  (forall d x, In (d, x) encs -> x < 18446744073709551616) ->
  (forall i j di xi dj xj, i <> j ->
     nth_error encs i = Some (di, xi) -> nth_error encs j = Some (dj, xj) ->
     forall l, in_range di 9 l -> ~ in_range dj 9 l) ->
  (forall d x s l, In (d, x) encs -> In s srcs -> in_range d 9 l -> ~ in_range s 9 l) ->
  forall sched,
  let ths :=
    map (fun dx => write_bytes (fst dx) (sf_put (snd dx)) (Ret [sf_length (snd dx)])) encs ++
    map (fun s => read_bytes s 9 [] (fun bs => Ret (ret_opt2 (sf_get bs)))) srcs in
  ~ races (snd (crun sched (m0, ths))) /\
  (forall i d x r, nth_error encs i = Some (d, x) ->
     nth_error (snd (crun sched (m0, ths))) i = Some (Ret r) ->
     r = [sf_length x] /\
     forall j, (j < length (sf_put x))%nat ->
       fst (crun sched (m0, ths)) (d + N.of_nat j) = nth j (sf_put x) 0) /\
  (forall k s r, nth_error srcs k = Some s ->
     nth_error (snd (crun sched (m0, ths))) (length encs + k) = Some (Ret r) ->
     r = ret_opt2 (sf_get (peek m0 s 9))).
Proof.
  fixed9 sf_put (fun x => [sf_length x]) (fun bs => ret_opt2 (sf_get bs)).
  intros d x Hin. pose proof (sf_put_length x (XB d x Hin)).
  pose proof (sf_length_range x (XB d x Hin)). lia.
Qed.

(* splitfull-nozero: the domain of the encoder is 1 <= x *)
Theorem splitfullnz_threads_safe (encs : list (loc * N)) (srcs : list loc) (m0 : mem) :
  (forall d x, In (d, x) encs -> 1 <= x < 18446744073709551616) ->
  (forall i j di xi dj xj, i <> j ->
     nth_error encs i = Some (di, xi) -> nth_error encs j = Some (dj, xj) ->
     forall l, in_range di 9 l -> ~ in_range dj 9 l) ->
  (forall d x s l, In (d, x) encs -> In s srcs -> in_range d 9 l -> ~ in_range s 9 l) ->
  forall sched,
  let ths :=
    map (fun dx => write_bytes (fst dx) (sfnz_put (snd dx)) (Ret [sfnz_length (snd dx)])) encs ++
    map (fun s => read_bytes s 9 [] (fun bs => Ret (ret_opt2 (sfnz_get bs)))) srcs in
  ~ races (snd (crun sched (m0, ths))) /\
  (forall i d x r, nth_error encs i = Some (d, x) ->
     nth_error (snd (crun sched (m0, ths))) i = Some (Ret r) ->
     r = [sfnz_length x] /\
     forall j, (j < length (sfnz_put x))%nat ->
       fst (crun sched (m0, ths)) (d + N.of_nat j) = nth j (sfnz_put x) 0) /\
  (forall k s r, nth_error srcs k = Some s ->
     nth_error (snd (crun sched (m0, ths))) (length encs + k) = Some (Ret r) ->
     r = ret_opt2 (sfnz_get (peek m0 s 9))).
Proof.
  fixed9 sfnz_put (fun x => [sfnz_length x]) (fun bs => ret_opt2 (sfnz_get bs)).
  intros d x Hin. destruct (XB d x Hin) as [X1 X2].
  pose proof (sfnz_put_length x X1 X2). pose proof (sfnz_length_range x X1 X2). lia.
Qed.
