(* Split.v — Gallina model of the macro families of /repo/src/varintSplit.h and
   /repo/src/varintSplitFull16.h, together with the pieces of
   varintExternal.{h,c} they expand to (little-endian host).  One definition
   per macro, same case structure, explicit truncations.  No proofs here.

   Conventions
   * an encoder returns [Some bytes] (the bytes written, in memory order; the
     C `encodedLen` is their number) or [None] when the expansion reaches
     undefined behaviour (varintExternalPutFixedWidth / varintExternalGet with
     a width outside 1..8: `assert(NULL); __builtin_unreachable()`, or a copy
     past the 8-byte uint64 for widths 9..16);
   * a decoder takes the whole memory [z] and the pointer [p] as an offset
     (a [Z], so that `ptr[-1]`, `ptr - width` of the reversed forms are what
     they are in C); bytes outside [z] read as 0 (non-interference is the
     theorem, the guard page is the C-side observation). *)
Require Import VV.Base.
Local Open Scope N_scope.

(* ------------------------------------------------------------------ *)
(* memory access through a pointer offset                              *)
Definition byte_atz (z : list N) (i : Z) : N :=
  if (i <? 0)%Z then 0 else byte_at z (Z.to_nat i).

(* the k bytes at off, off+1, ... read as a little-endian number *)
Definition rd_le (z : list N) (off : Z) (k : nat) : N :=
  of_le (map (fun i => byte_atz z (off + Z.of_nat i)) (seq 0 k)).

(* ------------------------------------------------------------------ *)
(* varintExternal pieces                                               *)

(* varintExternalUnsignedEncoding(value, encoding) is Base.ext_width. *)

(* varintExternalPutFixedWidth(p, v, encoding), little-endian host:
   varintExternalCopyToEncodingLittleEndian_ copies the low `encoding` bytes
   of the uint64_t.  Widths 9..16 would read past the 8-byte source, any
   other width hits assert(NULL)/__builtin_unreachable: None. *)
Definition split_ext_put_fixed (v w : N) : option (list N) :=
  let v := u64 v in
  match w with
  | 1 => Some (le_bytes 1 v)
  | 2 => Some (le_bytes 2 v)
  | 3 => Some (le_bytes 3 v)
  | 4 => Some (le_bytes 4 v)
  | 5 => Some (le_bytes 5 v)
  | 6 => Some (le_bytes 6 v)
  | 7 => Some (le_bytes 7 v)
  | 8 => Some (le_bytes 8 v)
  | _ => None
  end.

(* varintExternalPutFixedWidthQuickMedium_(dst, val, encoding) *)
Definition ext_put_fixed_quick_medium (v w : N) : option (list N) :=
  match w with
  | 3 => Some [N.land v 255; N.land (shr v 8) 255; N.land (shr v 16) 255]
  | 2 => Some [N.land v 255; N.land (shr v 8) 255]
  | _ => split_ext_put_fixed v w
  end.

(* varintExternalGet(p, encoding), little-endian host: `encoding` bytes are
   copied into a zeroed uint64_t.  Widths 9..16 write past the 8-byte
   result, other widths hit assert(NULL)/__builtin_unreachable: None. *)
Definition split_ext_get (z : list N) (off : Z) (w : N) : option N :=
  match w with
  | 1 => Some (rd_le z off 1)
  | 2 => Some (rd_le z off 2)
  | 3 => Some (rd_le z off 3)
  | 4 => Some (rd_le z off 4)
  | 5 => Some (rd_le z off 5)
  | 6 => Some (rd_le z off 6)
  | 7 => Some (rd_le z off 7)
  | 8 => Some (rd_le z off 8)
  | _ => None
  end.

(* varintExternalGetQuickMedium_(src, width, result) *)
Definition ext_get_quick_medium (z : list N) (off : Z) (w : N) : option N :=
  let b (i : Z) := byte_atz z (off + i) in
  match w with
  | 3 => Some (N.lor (N.lor (shl64 (b 2%Z) 16) (shl64 (b 1%Z) 8)) (b 0%Z))
  | 2 => Some (N.lor (shl64 (b 1%Z) 8) (b 0%Z))
  | _ => split_ext_get z off w
  end.

(* ------------------------------------------------------------------ *)
(* varintSplit.h                                                       *)

(* VARINT_SPLIT_MASK 0xc0, VARINT_SPLIT_6_MASK 0x3f, VARINT_SPLIT_MAX_6 0x3f,
   VARINT_SPLIT_MAX_14 (0x3f + 0x3fff), tags 0x00 / 0x40 / 0x80 *)
Definition SPLIT_MASK : N := 192.
Definition SPLIT_6_MASK : N := 63.
Definition SPLIT_MAX_6 : N := 63.
Definition SPLIT_MAX_14 : N := 63 + 16383.
Definition SPLIT_6 : N := 0.
Definition SPLIT_14 : N := 64.
Definition SPLIT_VAR : N := 128.

(* varintSplitEncoding2_(p) *)
Definition split_encoding2 (b0 : N) : N := N.land b0 SPLIT_MASK.
(* varintSplitEncodingWidthBytesExternal_(p) *)
Definition split_width_ext (b0 : N) : N := b0 - split_encoding2 b0.

(* varintSplitLengthVAR_(encodedLen, _val) *)
Definition split_length_var (v : N) : N := u8 (1 + N.of_nat (ext_width v)).

(* varintSplitLength_(encodedLen, _val); _val is a uint64_t *)
Definition split_length (x : N) : N :=
  if x <=? SPLIT_MAX_6 then 1 + 0
  else if x <=? SPLIT_MAX_14 then 1 + 1
  else split_length_var (x - SPLIT_MAX_14).

(* varintSplitPut_(dst, encodedLen, _val) *)
Definition split_put (x : N) : option (list N) :=
  let v := u64 x in
  if v <=? SPLIT_MAX_6 then Some [u8 (N.lor SPLIT_6 v)]
  else if v <=? SPLIT_MAX_14 then
    let v := v - SPLIT_MAX_6 in
    Some [u8 (N.lor SPLIT_14 (N.land (shr v 8) SPLIT_6_MASK)); u8 (N.land v 255)]
  else
    let v := v - SPLIT_MAX_14 in
    let len := split_length_var v in
    let w := len - 1 in
    match ext_put_fixed_quick_medium v w with
    | Some pl => Some (u8 (N.lor SPLIT_VAR w) :: pl)
    | None => None
    end.

(* varintSplitGetLenQuick_(ptr) *)
Definition split_getlen_quick_at (z : list N) (p : Z) : N :=
  let b0 := byte_atz z p in
  1 + (if split_encoding2 b0 =? SPLIT_VAR then split_width_ext b0 else shr b0 6).

(* varintSplitGetLen_(ptr, valsize) *)
Definition split_getlen_at (z : list N) (p : Z) : N :=
  let b0 := byte_atz z p in
  let e := split_encoding2 b0 in
  if e =? SPLIT_6 then 1 + 0
  else if e =? SPLIT_14 then 1 + 1
  else if e =? SPLIT_VAR then 1 + split_width_ext b0
  else 0.

(* varintSplitGet_(ptr, valsize, val): (valsize, val); val is a uint64_t *)
Definition split_get_at (z : list N) (p : Z) : option (N * N) :=
  let b0 := byte_atz z p in
  let e := split_encoding2 b0 in
  if e =? SPLIT_6 then Some (1 + 0, N.land b0 SPLIT_6_MASK)
  else if e =? SPLIT_14 then
    Some (1 + 1,
          add64 (N.lor (shl64 (N.land b0 SPLIT_6_MASK) 8) (byte_atz z (p + 1))) SPLIT_MAX_6)
  else if e =? SPLIT_VAR then
    let vs := 1 + split_width_ext b0 in
    match ext_get_quick_medium z (p + 1) (vs - 1) with
    | Some v => Some (vs, add64 v SPLIT_MAX_14)
    | None => None
    end
  else Some (0, 0).

Definition split_get (z : list N) : option (N * N) := split_get_at z 0.
Definition split_getlen (z : list N) : N := split_getlen_at z 0.
Definition split_getlen_quick (z : list N) : N := split_getlen_quick_at z 0.

(* varintSplitReversedPutReversed_(dst, encodedLen, _val): writes dst[0],
   dst[-1], ...; result = (bytes in memory order, index of dst among them) *)
Definition split_rev_put_reversed (x : N) : option (list N * nat) :=
  let v := u64 x in
  if v <=? SPLIT_MAX_6 then Some ([u8 (N.lor SPLIT_6 v)], 0%nat)
  else if v <=? SPLIT_MAX_14 then
    let v := v - SPLIT_MAX_6 in
    Some ([u8 (N.land v 255); u8 (N.lor SPLIT_14 (N.land (shr v 8) SPLIT_6_MASK))], 1%nat)
  else
    let v := v - SPLIT_MAX_14 in
    let len := split_length_var v in
    let w := len - 1 in
    match ext_put_fixed_quick_medium v w with
    | Some pl => Some (pl ++ [u8 (N.lor SPLIT_VAR w)], N.to_nat w)
    | None => None
    end.

(* varintSplitReversedPutForward_(dst, encodedLen, _val): same bytes, dst is
   the lowest address *)
Definition split_rev_put_forward (x : N) : option (list N) :=
  let v := u64 x in
  if v <=? SPLIT_MAX_6 then Some [u8 (N.lor SPLIT_6 v)]
  else if v <=? SPLIT_MAX_14 then
    let v := v - SPLIT_MAX_6 in
    Some [u8 (N.land v 255); u8 (N.lor SPLIT_14 (N.land (shr v 8) SPLIT_6_MASK))]
  else
    let v := v - SPLIT_MAX_14 in
    let len := split_length_var v in
    let w := len - 1 in
    match ext_put_fixed_quick_medium v w with
    | Some pl => Some (pl ++ [u8 (N.lor SPLIT_VAR w)])
    | None => None
    end.

(* varintSplitReversedGet_(ptr, valsize, val): ptr is the type (last) byte *)
Definition split_rev_get_at (z : list N) (p : Z) : option (N * N) :=
  let b0 := byte_atz z p in
  let e := split_encoding2 b0 in
  if e =? SPLIT_6 then Some (1 + 0, N.land b0 SPLIT_6_MASK)
  else if e =? SPLIT_14 then
    Some (1 + 1,
          add64 (N.lor (shl64 (N.land b0 SPLIT_6_MASK) 8) (byte_atz z (p - 1))) SPLIT_MAX_6)
  else if e =? SPLIT_VAR then
    let w := split_width_ext b0 in
    match ext_get_quick_medium z (p - Z.of_N w) w with
    | Some v => Some (1 + w, add64 v SPLIT_MAX_14)
    | None => None
    end
  else Some (0, 0).

(* ------------------------------------------------------------------ *)
(* varintSplitFull16.h                                                 *)

Definition SPLIT16_MASK : N := 192.
Definition SPLIT16_6_MASK : N := 63.
Definition SPLIT16_MAX_14 : N := 16383.
Definition SPLIT16_MAX_22 : N := 16383 + 4194303.
Definition SPLIT16_MAX_30 : N := 16383 + 4194303 + 1073741823.
Definition SPLIT16_14 : N := 0.
Definition SPLIT16_22 : N := 64.
Definition SPLIT16_30 : N := 128.
Definition SPLIT16_VAR : N := 192.

(* varintSplitFull16Encoding2_(p) *)
Definition split16_encoding2 (b0 : N) : N := N.land b0 SPLIT16_MASK.
(* varintSplitFull16EncodingWidthBytesExternal_(p) *)
Definition split16_width_ext (b0 : N) : N := N.land b0 15.

(* varintSplitFull16LengthVAR_(encodedLen, _val) *)
Definition split16_length_var (v : N) : N :=
  let vl := N.of_nat (ext_width v) in
  if vl <=? 4 then u8 (1 + 4) else u8 (1 + vl).

(* varintSplitFull16Length_(encodedLen, _val) *)
Definition split16_length (x : N) : N :=
  if x <=? SPLIT16_MAX_14 then 1 + 1
  else if x <=? SPLIT16_MAX_22 then 1 + 2
  else if x <=? SPLIT16_MAX_30 then 1 + 3
  else split16_length_var (x - SPLIT16_MAX_30).

(* varintSplitFull16Put_(dst, encodedLen, _val) *)
Definition split16_put (x : N) : option (list N) :=
  let v := u64 x in
  if v <=? SPLIT16_MAX_14 then
    Some [u8 (N.lor SPLIT16_14 (N.land (shr v 8) SPLIT16_6_MASK)); u8 (N.land v 255)]
  else if v <=? SPLIT16_MAX_22 then
    let v := v - SPLIT16_MAX_14 in
    Some [u8 (N.lor SPLIT16_22 (N.land (shr v 16) SPLIT16_6_MASK));
          u8 (N.land (shr v 8) 255); u8 (N.land v 255)]
  else if v <=? SPLIT16_MAX_30 then
    let v := v - SPLIT16_MAX_22 in
    Some [u8 (N.lor SPLIT16_30 (N.land (shr v 24) SPLIT16_6_MASK));
          u8 (N.land (shr v 16) 255); u8 (N.land (shr v 8) 255); u8 (N.land v 255)]
  else
    let v := v - SPLIT16_MAX_30 in
    let len := split16_length_var v in
    let w := len - 1 in
    match ext_put_fixed_quick_medium v w with
    | Some pl => Some (u8 (N.lor SPLIT16_VAR w) :: pl)
    | None => None
    end.

(* varintSplitFull16GetLenQuick_(ptr) *)
Definition split16_getlen_quick_at (z : list N) (p : Z) : N :=
  let b0 := byte_atz z p in
  if split16_encoding2 b0 =? SPLIT16_VAR then 1 + split16_width_ext b0
  else 2 + shr b0 6.

(* varintSplitFull16GetLen_(ptr, valsize) *)
Definition split16_getlen_at (z : list N) (p : Z) : N :=
  let b0 := byte_atz z p in
  let e := split16_encoding2 b0 in
  if e =? SPLIT16_14 then 1 + 1
  else if e =? SPLIT16_22 then 1 + 2
  else if e =? SPLIT16_30 then 1 + 3
  else if e =? SPLIT16_VAR then 1 + split16_width_ext b0
  else 0.

(* varintSplitFull16Get_(ptr, valsize, val) *)
Definition split16_get_at (z : list N) (p : Z) : option (N * N) :=
  let b (i : Z) := byte_atz z (p + i) in
  let b0 := b 0%Z in
  let e := split16_encoding2 b0 in
  if e =? SPLIT16_14 then
    Some (1 + 1, N.lor (shl64 (N.land b0 SPLIT16_6_MASK) 8) (b 1%Z))
  else if e =? SPLIT16_22 then
    Some (1 + 2,
          add64 (N.lor (N.lor (shl64 (N.land b0 SPLIT16_6_MASK) 16) (shl64 (b 1%Z) 8)) (b 2%Z))
                SPLIT16_MAX_14)
  else if e =? SPLIT16_30 then
    Some (1 + 3,
          add64 (N.lor (N.lor (N.lor (shl64 (N.land b0 SPLIT16_6_MASK) 24) (shl64 (b 1%Z) 16))
                              (shl64 (b 2%Z) 8)) (b 3%Z))
                SPLIT16_MAX_22)
  else if e =? SPLIT16_VAR then
    let vs := 1 + split16_width_ext b0 in
    match ext_get_quick_medium z (p + 1) (vs - 1) with
    | Some v => Some (vs, add64 v SPLIT16_MAX_30)
    | None => None
    end
  else Some (0, 0).

Definition split16_get (z : list N) : option (N * N) := split16_get_at z 0.
Definition split16_getlen (z : list N) : N := split16_getlen_at z 0.
Definition split16_getlen_quick (z : list N) : N := split16_getlen_quick_at z 0.

(* EXTRACT: split_length_var split_length split_put split_getlen_quick_at split_getlen_at
   split_get_at split_get split_getlen split_getlen_quick split_rev_put_reversed
   split_rev_put_forward split_rev_get_at
   split16_length_var split16_length split16_put split16_getlen_quick_at split16_getlen_at
   split16_get_at split16_get split16_getlen split16_getlen_quick *)
