(* ConcArrayRleDict.v — C17 instances for the run-length and dictionary codecs
   (RLE.v, Dict.v).  Footprints: C13_rle_decode_cap_any_input and
   C13_dict_into_cap_any_input (at most maxCount / maxValues stores, whatever
   the bytes), C03_dict_with_bound (the encoder with a caller's dictionary
   stays inside varintDictEncodedSizeWithDict), and one store per index for a
   caller that translates an index array with varintDictLookup.  The
   dictionary of the last two is a SHARED read-only region. *)
Require Import VV.Conc VV.ConcProofs VV.ConcCodec VV.ConcCodec2 VV.ConcArray.
Require Import VV.Base VV.BaseProofs VV.Tagged VV.TaggedProofs VV.TaggedSpecProofs.
Require Import VV.RLE VV.RLESpec VV.RLELemmas VV.RLEProofs VV.Dict VV.DictProofs VV.DictSafety.
From Coq Require Import List NArith Arith Lia Bool.
Import ListNotations.
Local Open Scope N_scope.

(* ---------------- varintRLEDecode(src, values, maxCount) ----------------
   the encoding: n byte cells at src (shared); output: at most maxCount
   uint64_t cells at dst; result [number of stores] *)
Definition rle_dec_fn (cap : N) (bs : list N) : list N * list N :=
  (rle_stores (rle_decode bs cap), [N.of_nat (length (rle_stores (rle_decode bs cap)))]).

Theorem rle_decode_threads_safe (ps : list (io * N)) (m0 : mem) :
  (forall i j pi pj, i <> j -> nth_error ps i = Some pi -> nth_error ps j = Some pj ->
     forall l, in_range (io_dst (fst pj)) (N.to_nat (snd pj)) l ->
       ~ in_range (io_dst (fst pi)) (N.to_nat (snd pi)) l /\
       ~ in_range (io_src (fst pi)) (io_n (fst pi)) l) ->
  forall sched,
  let ths := map (fun p => prog1 (io_src (fst p)) (io_n (fst p)) (io_dst (fst p)) (rle_dec_fn (snd p))) ps in
  ~ races (snd (crun sched (m0, ths))) /\
  forall i p r, nth_error ps i = Some p ->
    nth_error (snd (crun sched (m0, ths))) i = Some (Ret r) ->
    let res := rle_dec_fn (snd p) (peek m0 (io_src (fst p)) (io_n (fst p))) in
    r = snd res /\
    forall j, (j < length (fst res))%nat ->
      fst (crun sched (m0, ths)) (io_dst (fst p) + N.of_nat j) = nth j (fst res) 0.
Proof.
  intros AP sched.
  refine (family1_safe (io * N) (fun p => io_src (fst p)) (fun p => io_n (fst p))
            (fun p => io_dst (fst p)) (fun p => N.to_nat (snd p))
            (fun p => rle_dec_fn (snd p)) ps m0 _ AP sched).
  intros p _ bs _. unfold rle_dec_fn. cbn [fst]. pose proof (rle_decode_cap bs (snd p)). lia.
Qed.

(* ---------------- varintRLEEncode(dst, values, count, NULL) ----------------
   values: n uint64_t cells at src (shared); the bytes written stay inside
   varintRLEMaxSize(count) (C03_rle_bound); result [bytes written] *)
Definition rle_enc_fn (vs : list N) : list N * list N :=
  (fst (rle_encode (map u64 vs)), [N.of_nat (length (fst (rle_encode (map u64 vs))))]).

Theorem rle_encode_threads_safe (ps : list io) (m0 : mem) :
  (forall p, In p ps -> 10 * N.of_nat (io_n p) + 9 < 18446744073709551616) ->
  (forall i j pi pj, i <> j -> nth_error ps i = Some pi -> nth_error ps j = Some pj ->
     forall l, in_range (io_dst pj) (N.to_nat (rle_max_size (N.of_nat (io_n pj)))) l ->
       ~ in_range (io_dst pi) (N.to_nat (rle_max_size (N.of_nat (io_n pi)))) l /\
       ~ in_range (io_src pi) (io_n pi) l) ->
  forall sched,
  let ths := map (fun p => prog1 (io_src p) (io_n p) (io_dst p) rle_enc_fn) ps in
  ~ races (snd (crun sched (m0, ths))) /\
  forall i p r, nth_error ps i = Some p ->
    nth_error (snd (crun sched (m0, ths))) i = Some (Ret r) ->
    let res := rle_enc_fn (peek m0 (io_src p) (io_n p)) in
    r = snd res /\
    forall j, (j < length (fst res))%nat ->
      fst (crun sched (m0, ths)) (io_dst p + N.of_nat j) = nth j (fst res) 0.
Proof.
  intros V AP sched.
  refine (family1_safe io io_src io_n io_dst
            (fun p => N.to_nat (rle_max_size (N.of_nat (io_n p))))
            (fun _ => rle_enc_fn) ps m0 _ AP sched).
  intros p Hp bs Hl. unfold rle_enc_fn. cbn [fst].
  pose proof (rle_bound (map u64 bs)) as H. rewrite map_length, Hl in H.
  destruct (H (V p Hp)) as [H1 _]. lia.
Qed.

(* ---------------- varintDictDecodeInto(buffer, bufferLen, output, maxValues) ----------------
   the encoding (dictionary and indices): n byte cells at src (shared),
   bufferLen = n; output: at most maxValues uint64_t cells at dst;
   result [outcome; number of stores] with outcome 0 = returned 0 without a
   store, 1 = model out of fuel, 2 = returned 0 after some stores, 3 = success *)
Definition dict_dec_fn (cap : N) (bs : list N) : list N * list N :=
  let r := dict_decode_into bs (N.of_nat (length bs)) cap in
  (dict_dec_stores r,
   [match r with DictNull _ => 0 | DictFuel => 1 | DictPartial _ _ => 2 | DictOk _ _ => 3 end;
    N.of_nat (length (dict_dec_stores r))]).

Theorem dict_decode_threads_safe (ps : list (io * N)) (m0 : mem) :
  (forall i j pi pj, i <> j -> nth_error ps i = Some pi -> nth_error ps j = Some pj ->
     forall l, in_range (io_dst (fst pj)) (N.to_nat (snd pj)) l ->
       ~ in_range (io_dst (fst pi)) (N.to_nat (snd pi)) l /\
       ~ in_range (io_src (fst pi)) (io_n (fst pi)) l) ->
  forall sched,
  let ths := map (fun p => prog1 (io_src (fst p)) (io_n (fst p)) (io_dst (fst p)) (dict_dec_fn (snd p))) ps in
  ~ races (snd (crun sched (m0, ths))) /\
  forall i p r, nth_error ps i = Some p ->
    nth_error (snd (crun sched (m0, ths))) i = Some (Ret r) ->
    let res := dict_dec_fn (snd p) (peek m0 (io_src (fst p)) (io_n (fst p))) in
    r = snd res /\
    forall j, (j < length (fst res))%nat ->
      fst (crun sched (m0, ths)) (io_dst (fst p) + N.of_nat j) = nth j (fst res) 0.
Proof.
  intros AP sched.
  refine (family1_safe (io * N) (fun p => io_src (fst p)) (fun p => io_n (fst p))
            (fun p => io_dst (fst p)) (fun p => N.to_nat (snd p))
            (fun p => dict_dec_fn (snd p)) ps m0 _ AP sched).
  intros p _ bs _. unfold dict_dec_fn. cbv zeta. cbn [fst].
  pose proof (dict_decode_into_cap bs (N.of_nat (length bs)) (snd p)). lia.
Qed.

(* ---------------- a shared read-only dictionary ----------------
   dict->values[0 .. size): dn uint64_t cells at dio_dict, read by every call
   and written by none; dict->size = dn *)
Record dio := mk_dio { dio_dict : loc; dio_dn : nat; dio_src : loc; dio_n : nat; dio_dst : loc }.

Definition shared_dict (dv : list N) : dict :=
  mk_dict (map u64 dv) (N.of_nat (length dv)) (dict_index_width (N.of_nat (length dv))).

(* decoding an index array with the shared dictionary:
     for (i = 0; i < n; i++) out[i] = varintDictLookup(dict, idx[i]);
   idx: n uint32_t cells at dio_src; output: n uint64_t cells; result [n] *)
Definition dict_lookup_fn (dv idx : list N) : list N * list N :=
  (map (fun i => dict_lookup (shared_dict dv) (u32 i)) idx, [N.of_nat (length idx)]).

Theorem dict_lookup_threads_safe (ps : list dio) (m0 : mem) :
  (forall i j pi pj, i <> j -> nth_error ps i = Some pi -> nth_error ps j = Some pj ->
     forall l, in_range (dio_dst pj) (dio_n pj) l ->
       ~ in_range (dio_dst pi) (dio_n pi) l /\
       ~ in_range (dio_dict pi) (dio_dn pi) l /\ ~ in_range (dio_src pi) (dio_n pi) l) ->
  forall sched,
  let ths := map (fun p => prog2 (dio_dict p) (dio_dn p) (dio_src p) (dio_n p) (dio_dst p) dict_lookup_fn) ps in
  ~ races (snd (crun sched (m0, ths))) /\
  forall i p r, nth_error ps i = Some p ->
    nth_error (snd (crun sched (m0, ths))) i = Some (Ret r) ->
    let res := dict_lookup_fn (peek m0 (dio_dict p) (dio_dn p)) (peek m0 (dio_src p) (dio_n p)) in
    r = snd res /\
    forall j, (j < length (fst res))%nat ->
      fst (crun sched (m0, ths)) (dio_dst p + N.of_nat j) = nth j (fst res) 0.
Proof.
  intros AP sched.
  refine (family2_safe dio dio_dict dio_dn dio_src dio_n dio_dst dio_n
            (fun _ => dict_lookup_fn) ps m0 _ AP sched).
  intros p _ a b _ Hb. unfold dict_lookup_fn. cbn [fst]. rewrite map_length. lia.
Qed.

(* varintDictEncodeWithDict(buffer, dict, values, count) with the shared
   dictionary: values are n uint64_t cells at dio_src; the bytes written stay
   inside varintDictEncodedSizeWithDict(dict, count), itself at most
   18 + 9 * size + count * indexWidth whatever the dictionary holds (a tagged
   varint takes at most 9 bytes); result [return value] *)
Definition dict_encwd_fn (dv vs : list N) : list N * list N :=
  let r := dict_encode_with_dict (shared_dict dv) (map u64 vs) in
  (fst r, [dict_ret r]).

Definition dict_encwd_bound (dn n : nat) : nat :=
  (18 + 9 * dn + n * dict_index_width (N.of_nat dn))%nat.

Lemma fold_tagged_len_le l : forall a,
  fold_left (fun s v => s + tagged_len v) l a <= a + 9 * N.of_nat (length l).
Proof.
  induction l as [|x t IH]; intro a; cbn [fold_left length]; [lia|].
  pose proof (IH (a + tagged_len x)). pose proof (tagged_len_range x). lia.
Qed.

Lemma dict_index_width_le8 size : size < 18446744073709551616 -> (dict_index_width size <= 8)%nat.
Proof.
  intro H. unfold dict_index_width. destruct (size =? 0); [lia|].
  assert (X : size - 1 < 18446744073709551616) by lia.
  destruct (ext_width_bounds (size - 1) X) as (R & _). lia.
Qed.

Lemma dict_encwd_fn_bound dv vs :
  N.of_nat (length dv) < 18446744073709551616 -> N.of_nat (length vs) * 8 < 18446744073709551616 ->
  (length (fst (dict_encwd_fn dv vs)) <= dict_encwd_bound (length dv) (length vs))%nat.
Proof.
  intros Hd Hv. unfold dict_encwd_fn. cbv zeta. cbn [fst].
  destruct (dict_with_bound (shared_dict dv) (map u64 vs)) as [B _].
  - rewrite map_length. exact Hv.
  - unfold shared_dict. cbn [dct_index_width]. apply dict_index_width_le8. exact Hd.
  - rewrite map_length in B.
    assert (S : dict_encoded_size_with_dict (shared_dict dv) (N.of_nat (length vs))
                <= N.of_nat (dict_encwd_bound (length dv) (length vs))).
    { unfold dict_encoded_size_with_dict, dict_encwd_bound.
      destruct (N.of_nat (length vs) =? 0); [lia|].
      unfold shared_dict. cbn [dct_size dct_values dct_index_width].
      pose proof (fold_tagged_len_le (map u64 dv) 0) as F. rewrite map_length in F.
      pose proof (tagged_len_range (N.of_nat (length dv))).
      pose proof (tagged_len_range (N.of_nat (length vs))).
      assert (M : mul64 (N.of_nat (length vs)) (N.of_nat (dict_index_width (N.of_nat (length dv))))
                  <= N.of_nat (length vs) * N.of_nat (dict_index_width (N.of_nat (length dv)))).
      { unfold mul64. apply N.mod_le. lia. }
      lia. }
    lia.
Qed.

Theorem dict_encode_with_dict_threads_safe (ps : list dio) (m0 : mem) :
  (forall p, In p ps -> N.of_nat (dio_dn p) < 18446744073709551616 /\
                        N.of_nat (dio_n p) * 8 < 18446744073709551616) ->
  (forall i j pi pj, i <> j -> nth_error ps i = Some pi -> nth_error ps j = Some pj ->
     forall l, in_range (dio_dst pj) (dict_encwd_bound (dio_dn pj) (dio_n pj)) l ->
       ~ in_range (dio_dst pi) (dict_encwd_bound (dio_dn pi) (dio_n pi)) l /\
       ~ in_range (dio_dict pi) (dio_dn pi) l /\ ~ in_range (dio_src pi) (dio_n pi) l) ->
  forall sched,
  let ths := map (fun p => prog2 (dio_dict p) (dio_dn p) (dio_src p) (dio_n p) (dio_dst p) dict_encwd_fn) ps in
  ~ races (snd (crun sched (m0, ths))) /\
  forall i p r, nth_error ps i = Some p ->
    nth_error (snd (crun sched (m0, ths))) i = Some (Ret r) ->
    let res := dict_encwd_fn (peek m0 (dio_dict p) (dio_dn p)) (peek m0 (dio_src p) (dio_n p)) in
    r = snd res /\
    forall j, (j < length (fst res))%nat ->
      fst (crun sched (m0, ths)) (dio_dst p + N.of_nat j) = nth j (fst res) 0.
Proof.
  intros V AP sched.
  refine (family2_safe dio dio_dict dio_dn dio_src dio_n dio_dst
            (fun p => dict_encwd_bound (dio_dn p) (dio_n p))
            (fun _ => dict_encwd_fn) ps m0 _ AP sched).
  intros p Hp a b Ha Hb. destruct (V p Hp) as [V1 V2]. rewrite <- Ha, <- Hb.
  apply dict_encwd_fn_bound; rewrite ?Ha, ?Hb; assumption.
Qed.
