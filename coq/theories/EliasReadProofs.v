(* EliasReadProofs.v — the bit reader over a byte buffer returns the bits
   bits_of buf 0 totalBits, one after the other (br_rep): every concrete read
   below a passed HasMore test is a read of the abstract bit list. *)
Require Import VV.Base VV.BaseProofs VV.EliasBits VV.EliasSpec VV.EliasBitsProofs.
From Coq Require Import Lia ZifyBool ZifyN ZifyNat Arith.
Local Open Scope N_scope.
Ltac Zify.zify_post_hook ::= Z.div_mod_to_equations.

(* bit p of a buffer, MSB first: (buffer[p / 8] >> (7 - p % 8)) & 1 *)
Definition bit_of (buf : list N) (p : N) : bool :=
  N.testbit (nth (N.to_nat (p / 8)) buf 0) (7 - p mod 8).

Fixpoint bits_of (buf : list N) (p : N) (k : nat) : list bool :=
  match k with
  | O => []
  | S k' => bit_of buf p :: bits_of buf (p + 1) k'
  end.

Lemma length_bits_of buf p k : length (bits_of buf p k) = k.
Proof. revert p. induction k; intros p; cbn [bits_of length]; [reflexivity|]. rewrite IHk. reflexivity. Qed.

Lemma nth_bits_of buf p k i : (i < k)%nat -> nth i (bits_of buf p k) false = bit_of buf (p + N.of_nat i).
Proof.
  revert p i. induction k; intros p i Hi; [lia|].
  destruct i; cbn [bits_of nth].
  - f_equal. lia.
  - rewrite IHk by lia. f_equal. lia.
Qed.

Lemma bits_of_app buf p a b : bits_of buf p (a + b) = bits_of buf p a ++ bits_of buf (p + N.of_nat a) b.
Proof.
  revert p. induction a; intros p.
  - cbn [Nat.add bits_of app]. f_equal. lia.
  - cbn [Nat.add bits_of app]. f_equal. rewrite IHa. f_equal. f_equal. lia.
Qed.

(* bits below 8*m only depend on the first m bytes *)
Lemma nth_firstn_eq (z z' : list N) m j : firstn m z = firstn m z' -> (j < m)%nat -> nth j z 0 = nth j z' 0.
Proof.
  revert z z' j. induction m; intros z z' j H Hj; [lia|].
  destruct z as [|a z], z' as [|a' z']; cbn [firstn] in H; try discriminate.
  - reflexivity.
  - injection H as -> H. destruct j; cbn [nth]; [reflexivity|]. apply IHm; [assumption|lia].
Qed.

Lemma bits_of_firstn z z' m p k :
  firstn m z = firstn m z' -> p + N.of_nat k <= 8 * N.of_nat m ->
  bits_of z p k = bits_of z' p k.
Proof.
  revert p. induction k; intros p H Hb; cbn [bits_of]; [reflexivity|].
  f_equal.
  - unfold bit_of. f_equal. apply nth_firstn_eq with (m := m); [assumption|lia].
  - apply IHk; [assumption|lia].
Qed.

(* the bits of a packed image are the bits that were packed (false beyond) *)
Lemma bit_of_pack_msb bs tail (i : nat) : (i < 8 * length (pack_msb bs))%nat ->
  bit_of (pack_msb bs ++ tail) (N.of_nat i) = bit_at bs i.
Proof.
  intros Hi. unfold bit_of.
  pose proof (Nat.div_mod i 8 ltac:(lia)) as HL.
  pose proof (Nat.mod_upper_bound i 8 ltac:(lia)) as Hj.
  set (q := (i / 8)%nat) in *. set (j := (i mod 8)%nat) in *.
  replace (N.to_nat (N.of_nat i / 8)) with q by lia.
  replace (N.of_nat i mod 8) with (N.of_nat j) by lia.
  rewrite app_nth1 by lia.
  rewrite nth_pack_msb by (rewrite length_pack_msb in Hi; lia).
  rewrite byte_msb_testbit by assumption. f_equal. lia.
Qed.

Lemma bits_of_pack_msb bs tail (k : nat) : (length bs <= k <= 8 * length (pack_msb bs))%nat ->
  bits_of (pack_msb bs ++ tail) 0 k = bs ++ repeat false (k - length bs).
Proof.
  intros Hk. apply nth_ext with (d := false) (d' := false).
  - rewrite length_bits_of, app_length, repeat_length. lia.
  - intros i Hi. rewrite length_bits_of in Hi. rewrite nth_bits_of by assumption.
    rewrite N.add_0_l, bit_of_pack_msb by lia. unfold bit_at.
    destruct (Nat.lt_ge_cases i (length bs)).
    + rewrite app_nth1 by assumption. reflexivity.
    + rewrite app_nth2 by assumption. rewrite nth_overflow by assumption.
      symmetry. apply nth_repeat.
Qed.

(* ------------------------------------------------------------------ value of a bit list *)

Fixpoint val_msb (l : list bool) : N :=
  match l with
  | [] => 0
  | b :: t => N.b2n b * 2 ^ N.of_nat (length t) + val_msb t
  end.

Lemma val_msb_lt l : val_msb l < 2 ^ N.of_nat (length l).
Proof.
  induction l as [|b t IH]; cbn [val_msb length]; [reflexivity|].
  rewrite Nat2N.inj_succ, N.pow_succ_r'. destruct b; cbn [N.b2n]; lia.
Qed.

Lemma val_msb_repeat_false k : val_msb (repeat false k) = 0.
Proof. induction k; cbn [repeat val_msb N.b2n]; [reflexivity|]. rewrite IHk. lia. Qed.

(* ------------------------------------------------------------------ the reader *)

(* r is positioned in buf with exactly the bits l left before totalBits *)
Definition br_rep (r : bitr) (buf : list N) (l : list bool) : Prop :=
  br_cur r = skipn (N.to_nat (br_pos r / 8)) buf /\
  br_pos r + N.of_nat (length l) = br_total r /\
  br_total r + 64 < 18446744073709551616 /\
  l = bits_of buf (br_pos r) (length l).

Lemma br_rep_init buf bits : bits + 64 < 18446744073709551616 ->
  br_rep (br_init buf bits) buf (bits_of buf 0 (N.to_nat bits)).
Proof.
  intros H. unfold br_rep, br_init. cbn [br_cur br_pos br_total].
  rewrite length_bits_of. repeat split; try lia.
Qed.

Lemma br_has_more_spec r buf l n : br_rep r buf l -> n <= 64 ->
  br_has_more r n = (n <=? N.of_nat (length l)).
Proof.
  intros (_ & Hp & Ht & _) Hn. unfold br_has_more, add64.
  rewrite N.mod_small by lia. lia.
Qed.

Lemma hd_skipn (buf : list N) k : hd 0 (skipn k buf) = nth k buf 0.
Proof. revert buf. induction k; intros [|a buf]; cbn [skipn hd nth]; auto. Qed.

Lemma tl_skipn (buf : list N) k : tl (skipn k buf) = skipn (S k) buf.
Proof. revert buf. induction k; intros [|a buf]; try reflexivity. cbn [skipn]. apply IHk. Qed.

Lemma br_rep_get r buf b l : br_rep r buf (b :: l) ->
  fst (br_get r) = b /\ br_rep (snd (br_get r)) buf l.
Proof.
  intros (Hc & Hp & Ht & Hl). cbn [length bits_of] in Hl. injection Hl as Hb Hl.
  unfold br_get. cbn [fst snd]. split.
  - rewrite Hc, hd_skipn, mod8_spec. symmetry. exact Hb.
  - unfold br_rep. cbn [br_cur br_pos br_total]. cbn [length] in Hp.
    repeat split; try lia; try assumption.
    rewrite mod8_spec, Hc.
    destruct ((br_pos r + 1) mod 8 =? 0) eqn:E.
    + rewrite tl_skipn. f_equal. lia.
    + f_equal. lia.
Qed.

Lemma pow2_mod_half a k : a mod 2 ^ N.succ k = 0 -> a mod 2 ^ k = 0.
Proof.
  intros H. apply N.mod_divide in H; [|apply N.pow_nonzero; lia].
  apply N.mod_divide; [apply N.pow_nonzero; lia|].
  destruct H as [c Hc]. exists (c * 2). rewrite Hc, N.pow_succ_r'. lia.
Qed.

Lemma br_rep_read_loop k : forall r buf l acc, br_rep r buf l ->
  (k <= length l)%nat -> (k <= 64)%nat -> acc mod 2 ^ N.of_nat k = 0 ->
  fst (br_read_loop r k acc) = acc + val_msb (firstn k l) /\
  br_rep (snd (br_read_loop r k acc)) buf (skipn k l).
Proof.
  induction k; intros r buf l acc Hr Hk H64 Hacc; cbn [br_read_loop firstn skipn val_msb fst snd].
  - split; [lia|assumption].
  - destruct l as [|b l]; [cbn [length] in Hk; lia|]. cbn [length] in Hk.
    destruct (br_rep_get _ _ _ _ Hr) as [Hb Hr'].
    destruct (br_get r) as [b' r'] eqn:E. cbn [fst snd] in Hb, Hr'. subst b'.
    rewrite Nat2N.inj_succ in Hacc.
    rewrite shl64_1 by lia.
    assert (Hacc' : (if b then N.lor acc (2 ^ N.of_nat k) else acc) mod 2 ^ N.of_nat k = 0).
    { apply pow2_mod_half in Hacc as Hh. destruct b; [|assumption].
      rewrite (lor_add_mod0 acc (2 ^ N.of_nat k) (N.succ (N.of_nat k))); try assumption.
      - rewrite N.add_mod by (apply N.pow_nonzero; lia).
        rewrite Hh, N.mod_same by (apply N.pow_nonzero; lia). reflexivity.
      - apply N.pow_lt_mono_r; lia. }
    destruct (IHk r' buf l _ Hr' ltac:(lia) ltac:(lia) Hacc') as [Hv Hrr].
    split; [|exact Hrr].
    rewrite Hv. cbn [firstn val_msb]. rewrite firstn_length, Nat.min_l by lia.
    destruct b; cbn [N.b2n].
    + rewrite (lor_add_mod0 acc (2 ^ N.of_nat k) (N.succ (N.of_nat k))); try assumption; [lia|].
      apply N.pow_lt_mono_r; lia.
    + lia.
Qed.

Lemma br_rep_read r buf l k : br_rep r buf l -> (k <= length l)%nat -> (k <= 64)%nat ->
  fst (br_read r k) = val_msb (firstn k l) /\ br_rep (snd (br_read r k)) buf (skipn k l).
Proof.
  intros Hr Hk H64. unfold br_read.
  destruct (br_rep_read_loop k r buf l 0 Hr Hk H64) as [Hv Hrr].
  - apply N.mod_0_l. apply N.pow_nonzero. lia.
  - split; [rewrite Hv; lia|exact Hrr].
Qed.
