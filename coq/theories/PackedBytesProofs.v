(* PackedBytesProofs.v — the ...Bytes forms of varintPacked.h:
   CountFromStorageBytes, which byte sizes give back an element count, each
   ...Bytes function as its element-count counterpart, and histories mixing
   both forms. *)
Require Import VV.Base VV.BaseProofs VV.Packed VV.PackedLemmas VV.PackedProofs VV.PackedLoopProofs
  VV.PackedSpec VV.PackedSpecProofs VV.PackedRun VV.PackedSortedProofs VV.PackedBytesRun.
From Coq Require Import Lia ZifyBool ZifyN ZifyNat Sorted Arith.
Local Open Scope N_scope.
Ltac Zify.zify_post_hook ::= Z.div_mod_to_equations.

(* ---- CountFromStorageBytes ---- *)

(* no size_t wrap of bytes * 8 *)
Lemma count_exact c bytes : bytes * 8 < 2 ^ 64 ->
  packed_count_from_storage_bytes c bytes = bytes * 8 / p_w c.
Proof.
  intro H. unfold packed_count_from_storage_bytes, u64.
  change 18446744073709551616 with (2 ^ 64). rewrite N.mod_small by exact H. reflexivity.
Qed.

(* the byte sizes that give back the count len: they hold the len * w bits and
   less than one element more *)
Lemma count_iff c bytes len : 1 <= p_w c -> bytes * 8 < 2 ^ 64 ->
  (packed_count_from_storage_bytes c bytes = len <->
   len * p_w c <= bytes * 8 < (len + 1) * p_w c).
Proof.
  intros W H. rewrite (count_exact c bytes H).
  set (w := p_w c) in *. set (x := bytes * 8) in *. clearbody w x.
  pose proof (N.div_mod' x w) as D. pose proof (N.mod_lt x w ltac:(lia)) as R.
  split.
  - intros <-. lia.
  - intros [A B]. symmetry. apply (N.div_unique x w len (x - len * w)); lia.
Qed.

(* the smallest byte size that holds len elements: (len * w + 7) / 8 *)
Lemma min_bytes_iff c len : 1 <= p_w c -> (len * p_w c + 7) / 8 * 8 < 2 ^ 64 ->
  (packed_count_from_storage_bytes c ((len * p_w c + 7) / 8) = len <->
   (len * p_w c + 7) / 8 * 8 - len * p_w c < p_w c).
Proof.
  intros W H. rewrite (count_iff c _ len W H).
  set (x := len * p_w c) in *. replace ((len + 1) * p_w c) with (x + p_w c) by lia.
  set (w := p_w c) in *. clearbody w x.
  assert (x <= (x + 7) / 8 * 8) by lia. lia.
Qed.

(* it always round-trips when elements are at least a byte wide or the len
   elements end on a byte boundary *)
Lemma min_bytes_ok c len : 1 <= p_w c -> (len * p_w c + 7) / 8 * 8 < 2 ^ 64 ->
  8 <= p_w c \/ (len * p_w c) mod 8 = 0 ->
  packed_count_from_storage_bytes c ((len * p_w c + 7) / 8) = len.
Proof.
  intros W H C. apply (min_bytes_iff c len W H).
  set (x := len * p_w c) in *. set (w := p_w c) in *. clearbody w x.
  destruct C as [C|C]; lia.
Qed.

(* the count as the length type receives it *)
Lemma bytes_len_ok c bytes len : 1 <= p_w c -> bytes * 8 < 2 ^ 64 ->
  len * p_w c <= bytes * 8 < (len + 1) * p_w c -> len < 2 ^ p_L c ->
  bytes_len c bytes = len.
Proof.
  intros W H R L. unfold bytes_len, len_cast, trunc.
  rewrite (proj2 (count_iff c bytes len W H) R). apply N.mod_small. exact L.
Qed.

(* ---- each ...Bytes function is its counterpart at the recomputed count ---- *)

(* unconditionally: at the count truncated to the length type *)
Theorem bytes_forms_trunc c a bytes :
  let n := packed_count_from_storage_bytes c bytes mod 2 ^ p_L c in
  (forall v, packed_member_bytes c a bytes v = packed_member c a n v) /\
  (forall v, packed_insert_sorted_bytes c a bytes v = packed_insert_sorted c a n v) /\
  (forall v, packed_delete_member_bytes c a bytes v = packed_delete_member c a n v) /\
  (forall off v, packed_insert_bytes c a bytes off v = packed_insert c a n off v) /\
  (forall off, packed_delete_bytes c a bytes off = packed_delete c a n off).
Proof. cbv zeta. repeat split. Qed.

(* when the count fits the length type: at CountFromStorageBytes(bytes) itself *)
Theorem bytes_forms_count c a bytes :
  packed_count_from_storage_bytes c bytes < 2 ^ p_L c ->
  let n := packed_count_from_storage_bytes c bytes in
  (forall v, packed_member_bytes c a bytes v = packed_member c a n v) /\
  (forall v, packed_insert_sorted_bytes c a bytes v = packed_insert_sorted c a n v) /\
  (forall v, packed_delete_member_bytes c a bytes v = packed_delete_member c a n v) /\
  (forall off v, packed_insert_bytes c a bytes off v = packed_insert c a n off v) /\
  (forall off, packed_delete_bytes c a bytes off = packed_delete c a n off).
Proof.
  intros H n.
  assert (E : bytes_len c bytes = n) by (unfold bytes_len, len_cast, trunc; apply N.mod_small; exact H).
  unfold packed_member_bytes, packed_insert_sorted_bytes, packed_delete_member_bytes,
    packed_insert_bytes, packed_delete_bytes. rewrite E. repeat split.
Qed.

(* for an admissible byte size of len elements: at len *)
Theorem bytes_forms_len c a bytes len : 1 <= p_w c -> bytes * 8 < 2 ^ 64 ->
  len * p_w c <= bytes * 8 < (len + 1) * p_w c -> len < 2 ^ p_L c ->
  packed_count_from_storage_bytes c bytes = len /\
  (forall v, packed_member_bytes c a bytes v = packed_member c a len v) /\
  (forall v, packed_insert_sorted_bytes c a bytes v = packed_insert_sorted c a len v) /\
  (forall v, packed_delete_member_bytes c a bytes v = packed_delete_member c a len v) /\
  (forall off v, packed_insert_bytes c a bytes off v = packed_insert c a len off v) /\
  (forall off, packed_delete_bytes c a bytes off = packed_delete c a len off).
Proof.
  intros W H R L. pose proof (proj2 (count_iff c bytes len W H) R) as E.
  split; [exact E|]. rewrite <- E. apply bytes_forms_count. rewrite E. exact L.
Qed.

(* ---- mixed histories ---- *)

Lemma mstep_eq c a len o :
  (match mop_bytes o with Some b => bytes_len c b = len | None => True end) ->
  packed_mstep c (a, len) o = packed_step c (a, len) (mop_sop o).
Proof.
  destruct o as [o|b v|b v|b v]; cbn [mop_bytes mop_sop packed_mstep packed_step]; intro H;
    [reflexivity| | |];
    unfold packed_insert_sorted_bytes, packed_delete_member_bytes, packed_member_bytes;
    rewrite H; reflexivity.
Qed.

(* a mixed history runs exactly as the history of its element-count forms:
   same array, same count, same results, same touched slots *)
Theorem mrun_eq c cap ops : admitted c -> len_ok c cap ->
  forall a len xs, refines c cap a len xs ->
  Forall (fun o => match mop_sop o with SInsertSorted v => v < 2 ^ p_w c | _ => True end) ops ->
  spec_fits (N.to_nat cap) xs (map mop_sop ops) ->
  mspec_bytes_ok (p_w c) xs ops ->
  packed_mrun c (a, len) ops = packed_run c (a, len) (map mop_sop ops).
Proof.
  intros A Hcap. induction ops as [|o rest IH]; intros a len xs R Hv Hf Hb.
  - reflexivity.
  - inversion Hv as [|? ? Hv1 Hv2]; subst. cbn [map spec_fits] in Hf. destruct Hf as [Hroom Hf].
    cbn [mspec_bytes_ok] in Hb. destruct Hb as [Hb1 Hb].
    assert (HLx : length xs = N.to_nat len).
    { destruct R as (_ & _ & _ & He & _). rewrite <- He. apply length_elems. }
    assert (Hlc : len <= cap) by apply R.
    pose proof A as (W1 & W32 & _).
    assert (E0 : packed_mstep c (a, len) o = packed_step c (a, len) (mop_sop o)).
    { apply mstep_eq. destruct (mop_bytes o) as [b|]; [|exact I].
      replace (N.of_nat (length xs)) with len in Hb1 by lia.
      destruct Hcap as [C31 CL].
      apply bytes_len_ok; [lia | | exact Hb1 | lia].
      change (2 ^ 64) with 18446744073709551616. nia. }
    destruct (step_refines c cap a len xs (mop_sop o) A Hcap R Hv1) as (a1 & len1 & t1 & E1 & R1 & _).
    { destruct (mop_sop o); auto. lia. }
    cbn [packed_mrun packed_run map]. rewrite E0, E1.
    rewrite (IH a1 len1 (fst (spec_step xs (mop_sop o))) R1 Hv2 Hf Hb). reflexivity.
Qed.

Lemma Forall_map_sop (P : sop -> Prop) ops :
  Forall (fun o => P (mop_sop o)) ops -> Forall P (map mop_sop ops).
Proof. induction 1; cbn [map]; constructor; assumption. Qed.

(* hence every mixed history refines the reference sorted list *)
Theorem mrun_refines c cap ops : admitted c -> len_ok c cap ->
  forall a len xs, refines c cap a len xs ->
  Forall (fun o => match mop_sop o with SInsertSorted v => v < 2 ^ p_w c | _ => True end) ops ->
  spec_fits (N.to_nat cap) xs (map mop_sop ops) ->
  mspec_bytes_ok (p_w c) xs ops ->
  exists a' len' t,
    packed_mrun c (a, len) ops = Some (a', len', snd (spec_run xs (map mop_sop ops)), t) /\
    packed_run c (a, len) (map mop_sop ops) = Some (a', len', snd (spec_run xs (map mop_sop ops)), t) /\
    refines c cap a' len' (fst (spec_run xs (map mop_sop ops))) /\
    length a' = length a /\
    (forall n, cap * p_w c <= n -> abit c a' n = abit c a n) /\
    Forall (within c cap) t.
Proof.
  intros A Hcap a len xs R Hv Hf Hb.
  destruct (run_refines c cap (map mop_sop ops) A Hcap a len xs R
              (Forall_map_sop (fun o => match o with SInsertSorted v => v < 2 ^ p_w c | _ => True end) ops Hv) Hf)
    as (a' & len' & t & E & R' & L' & Fr & Tc).
  exists a', len', t. rewrite (mrun_eq c cap ops A Hcap a len xs R Hv Hf Hb).
  repeat split; try assumption; apply R'.
Qed.
