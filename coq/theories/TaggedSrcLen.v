(* TaggedSrcLen.v — the regenerated renderings (coq/gen/Src_tagged.v, produced
   by gen/c2coq.py from the current src/varintTagged.c) of varintTaggedLen and
   varintTaggedGetLen compute what the hand-written model computes. *)
Require Import VV.Base VV.BaseProofs VV.Tagged VV.TaggedProofs VV.CSem VV.CSemProofs.
Require Import VVgen.Src_tagged.
From Coq Require Import Lia ZifyBool ZifyN ZifyNat.
Local Open Scope Z_scope.
Ltac Zify.zify_post_hook ::= Z.div_mod_to_equations.

(* the length classes of the hand model: the case analysis of every proof
   below follows the MODEL (which does not change with the C source), never
   the shape of the generated term *)
Lemma tagged_classes x : (x < 18446744073709551616)%N ->
  ((x <= 240 /\ tagged_len x = 1) \/ (240 < x <= 2287 /\ tagged_len x = 2) \/
   (2287 < x <= 67823 /\ tagged_len x = 3) \/ (67823 < x <= 16777215 /\ tagged_len x = 4) \/
   (16777215 < x <= 4294967295 /\ tagged_len x = 5) \/ (4294967295 < x <= 1099511627775 /\ tagged_len x = 6) \/
   (1099511627775 < x <= 281474976710655 /\ tagged_len x = 7) \/
   (281474976710655 < x <= 72057594037927935 /\ tagged_len x = 8) \/
   (72057594037927935 < x /\ tagged_len x = 9))%N.
Proof. intro H. unfold tagged_len, u32, shr. cbv zeta. kill_ifs; lia. Qed.

Ltac split_classes x :=
  let H := fresh "H" in
  pose proof (tagged_classes (Z.to_N x)) as H;
  let T := type of H in
  match T with ?P -> _ => let P' := fresh in assert (P' : P) by lia; specialize (H P'); clear P' end;
  repeat match goal with H : _ \/ _ |- _ => destruct H as [H|H] end;
  match goal with
  | H : _ /\ tagged_len _ = _ |- _ => let R := fresh "R" in let L := fresh "L" in destruct H as [R L]
  end.

(* all 2^64 arguments; no position-dependent script: every `if` of the
   unfolded term is split wherever it stands *)
Lemma src_varintTaggedLen_is_model : forall x, 0 <= x < 18446744073709551616 ->
  src_varintTaggedLen x = COk (Z.of_N (tagged_len (Z.to_N x))).
Proof.
  intros x Hx. split_classes x. all: rewrite L; clear L.
  all: unfold src_varintTaggedLen; c_run; f_equal; lia.
Qed.

(* varintTaggedGetLen depends on one byte: all 256 values of it are swept by
   computation, the rest of the list being arbitrary *)
Lemma getlen_sweep tl :
  forallb (fun b => cres_eqb Z.eqb (src_varintTaggedGetLen (b :: tl)) (COk (Z.of_N (tagged_getlen (b :: tl)))))
          bytes256 = true.
Proof. vm_compute. reflexivity. Qed.

Lemma src_varintTaggedGetLen_is_model : forall z, z <> [] -> (byte_at z 0 < 256)%N ->
  src_varintTaggedGetLen z = COk (Z.of_N (tagged_getlen z)).
Proof.
  intros [|b tl] Hz Hb; [contradiction|]. cbn [byte_at nth] in Hb.
  apply (cres_eqb_ok Z.eqb); [intros u v; apply Z.eqb_eq|].
  exact (byte_sweep _ (getlen_sweep tl) b Hb).
Qed.
