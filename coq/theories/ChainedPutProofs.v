(* ChainedPutProofs.v — encoders and length functions of the chained and
   chained-simple models against the base-128 specification. *)
Require Import VV.Base VV.BaseProofs VV.Chained VV.ChainedSpec VV.ChainedWiring VV.ChainedLemmas.
From Coq Require Import Lia ZifyBool ZifyN ZifyNat Arith.
Local Open Scope N_scope.
Ltac Zify.zify_post_hook ::= Z.div_mod_to_equations.

Lemma nd_pos f x : (1 <= ndigits128 f x)%nat.
Proof. destruct f; cbn [ndigits128]; [lia|]. destruct (x <? 128); lia. Qed.

(* ---- the loops of putVarint64 ---- *)
Lemma ch_fill_be128 k v acc : ch_fill k v acc = be128 k v ++ acc.
Proof.
  revert v acc. induction k as [|k IH]; intros v acc; cbn [ch_fill be128]; [reflexivity|].
  rewrite IH, ch_cont_eq. unfold shr. change (2 ^ 7) with 128.
  rewrite <- app_assoc. reflexivity.
Qed.

Lemma ch_digits_le128 f v : ch_digits (S f) v = le128 (ndigits128 f v) v.
Proof.
  revert v. induction f as [|f IH]; intro v.
  - cbn [ch_digits ndigits128 le128]. rewrite ch_cont_eq. destruct (shr v 7 =? 0); reflexivity.
  - change (ch_digits (S (S f)) v)
      with (ch_cont v :: (if shr v 7 =? 0 then [] else ch_digits (S f) (shr v 7))).
    cbn [ndigits128]. rewrite ch_cont_eq. unfold shr. change (2 ^ 7) with 128.
    destruct (v <? 128) eqn:E.
    + destruct (v / 128 =? 0) eqn:E2; [reflexivity|lia].
    + destruct (v / 128 =? 0) eqn:E2; [lia|].
      cbn [le128]. rewrite <- IH. reflexivity.
Qed.

Lemma le128_pos_cons n x : (1 <= n)%nat ->
  le128 n x = (128 + x mod 128) :: le128 (n - 1) (x / 128).
Proof. intro H. destruct n as [|n]; [lia|]. cbn [le128]. replace (S n - 1)%nat with n by lia. reflexivity. Qed.

Lemma top_lt_spec_len x : x < 72057594037927936 ->
  (ndigits128 9 x <= 8)%nat /\ ndigits128 9 x = ndigits128 7 x /\ ndigits128 8 x = ndigits128 7 x.
Proof.
  intro H.
  assert (H8 : x < 128 ^ N.of_nat 8) by (norm_pow128; exact H).
  assert (H9 : x < 128 ^ N.of_nat 9) by (norm_pow128; lia).
  pose proof (nd_fuel_S 7 x H8) as F8. pose proof (nd_fuel_S 8 x H9) as F9.
  destruct (nd_bounds 7 x H8) as (A & _). lia.
Qed.

(* ---- C04: chained put = spec ---- *)
Theorem chained_put_is_spec x : x < 18446744073709551616 -> chained_put x = chained_spec x.
Proof.
  intro Hx. unfold chained_put, chained_spec, chained_spec_len.
  destruct (x <=? 127) eqn:E1.
  { destruct (x <? 72057594037927936) eqn:T; [|lia].
    cbn [ndigits128]. destruct (x <? 128) eqn:E; [|lia].
    cbn [Nat.sub be128 app]. rewrite land127. unfold u8. f_equal. lia. }
  destruct (x <=? 16383) eqn:E2.
  { destruct (x <? 72057594037927936) eqn:T; [|lia].
    cbn [ndigits128]. destruct (x <? 128) eqn:E; [lia|].
    destruct (x / 128 <? 128) eqn:E'; [|lia].
    cbn [Nat.sub be128 app]. fold (ch_cont (shr x 7)). rewrite ch_cont_eq, land127.
    unfold shr, u8. change (2 ^ 7) with 128. repeat (f_equal; try lia). }
  unfold ch_put64. rewrite top_byte_test by exact Hx.
  destruct (x <? 72057594037927936) eqn:T; cbn [negb].
  - change 10%nat with (S 9). rewrite ch_digits_le128.
    rewrite le128_pos_cons by apply nd_pos. cbn [ch_clear0 rev].
    rewrite <- be128_rev_le128, land127. f_equal. f_equal.
    assert (x mod 128 < 128) by (apply N.mod_lt; lia). lia.
  - rewrite ch_fill_be128. unfold shr, u8. change (2 ^ 8) with 256. reflexivity.
Qed.

(* ---- lengths ---- *)
Lemma len7_loop_nd f v i : len7_loop f v i = i + N.of_nat (ndigits128 f v) - 1.
Proof.
  revert v i. induction f as [|f IH]; intros v i; cbn [len7_loop ndigits128]; [lia|].
  unfold shr. change (2 ^ 7) with 128.
  destruct (v <? 128) eqn:E.
  - destruct (v / 128 =? 0) eqn:E2; lia.
  - destruct (v / 128 =? 0) eqn:E2; [lia|]. rewrite IH. pose proof (nd_pos f (v / 128)). lia.
Qed.

Theorem chained_len_is_spec x : x < 18446744073709551616 ->
  chained_len x = N.of_nat (chained_spec_len x).
Proof.
  intro Hx. unfold chained_len, chained_spec_len. cbv zeta. rewrite len7_loop_nd.
  replace (1 + N.of_nat (ndigits128 10 x) - 1) with (N.of_nat (ndigits128 10 x)) by lia.
  destruct (x <? 72057594037927936) eqn:T.
  - destruct (top_lt_spec_len x ltac:(lia)) as (A & B & C).
    assert (ndigits128 10 x = ndigits128 9 x) as ->.
    { apply nd_fuel_S. norm_pow128. lia. }
    destruct (9 <? N.of_nat (ndigits128 9 x)) eqn:E; lia.
  - assert (H11 : x < 128 ^ N.of_nat 11) by (norm_pow128; lia).
    destruct (nd_bounds 10 x H11) as (A & B & C).
    set (n := ndigits128 10 x) in *.
    assert (9 <= n)%nat.
    { destruct (le_lt_dec 9 n) as [L|G]; [exact L|exfalso].
      pose proof (pow128_mono n 8 ltac:(lia)) as M. norm_pow128. lia. }
    destruct (9 <? N.of_nat n) eqn:E; lia.
Qed.

Lemma csimple_length_eq x : csimple_length x = chained_len x.
Proof. reflexivity. Qed.

Theorem chained_spec_length x : length (chained_spec x) = chained_spec_len x.
Proof.
  unfold chained_spec, chained_spec_len.
  destruct (x <? 72057594037927936).
  - rewrite app_length, length_be128. cbn [length]. pose proof (nd_pos 9 x). lia.
  - rewrite app_length, length_be128. reflexivity.
Qed.

Theorem csimple_spec_length x : length (csimple_spec x) = chained_spec_len x.
Proof.
  unfold csimple_spec, chained_spec_len.
  destruct (x <? 72057594037927936).
  - rewrite app_length, length_le128. cbn [length]. pose proof (nd_pos 9 x). lia.
  - rewrite app_length, length_le128. reflexivity.
Qed.

Theorem chained_put_length x : x < 18446744073709551616 ->
  N.of_nat (length (chained_put x)) = chained_len x.
Proof. intro H. rewrite chained_put_is_spec, chained_spec_length, chained_len_is_spec by exact H. reflexivity. Qed.

(* the length as a threshold table *)
Ltac nd_case x k :=
  rewrite (nd_unique 9 x k) by (norm_pow128; lia); reflexivity.

Theorem chained_spec_len_table x : x < 18446744073709551616 ->
  chained_spec_len x =
    if x <=? 127 then 1%nat else if x <=? 16383 then 2%nat else if x <=? 2097151 then 3%nat
    else if x <=? 268435455 then 4%nat else if x <=? 34359738367 then 5%nat
    else if x <=? 4398046511103 then 6%nat else if x <=? 562949953421311 then 7%nat
    else if x <=? 72057594037927935 then 8%nat else 9%nat.
Proof.
  intro Hx. unfold chained_spec_len.
  destruct (x <=? 127) eqn:E1. { destruct (x <? 72057594037927936) eqn:T; [|lia]. nd_case x 1%nat. }
  destruct (x <=? 16383) eqn:E2. { destruct (x <? 72057594037927936) eqn:T; [|lia]. nd_case x 2%nat. }
  destruct (x <=? 2097151) eqn:E3. { destruct (x <? 72057594037927936) eqn:T; [|lia]. nd_case x 3%nat. }
  destruct (x <=? 268435455) eqn:E4. { destruct (x <? 72057594037927936) eqn:T; [|lia]. nd_case x 4%nat. }
  destruct (x <=? 34359738367) eqn:E5. { destruct (x <? 72057594037927936) eqn:T; [|lia]. nd_case x 5%nat. }
  destruct (x <=? 4398046511103) eqn:E6. { destruct (x <? 72057594037927936) eqn:T; [|lia]. nd_case x 6%nat. }
  destruct (x <=? 562949953421311) eqn:E7. { destruct (x <? 72057594037927936) eqn:T; [|lia]. nd_case x 7%nat. }
  destruct (x <=? 72057594037927935) eqn:E8. { destruct (x <? 72057594037927936) eqn:T; [|lia]. nd_case x 8%nat. }
  destruct (x <? 72057594037927936) eqn:T; [lia|reflexivity].
Qed.

Theorem chained_len_table x : x < 18446744073709551616 ->
  chained_len x =
    if x <=? 127 then 1 else if x <=? 16383 then 2 else if x <=? 2097151 then 3
    else if x <=? 268435455 then 4 else if x <=? 34359738367 then 5
    else if x <=? 4398046511103 then 6 else if x <=? 562949953421311 then 7
    else if x <=? 72057594037927935 then 8 else 9.
Proof.
  intro Hx. rewrite chained_len_is_spec, chained_spec_len_table by exact Hx.
  kill_ifs; reflexivity.
Qed.

Theorem chained_len_range x : x < 18446744073709551616 -> 1 <= chained_len x <= 9.
Proof. intro Hx. rewrite chained_len_table by exact Hx. kill_ifs; lia. Qed.

(* length class: len x = k  <->  2^(7(k-1)) <= x < 2^(7k)   (k <= 8; k = 9: 2^56 <= x) *)
Theorem chained_len_class x k : x < 18446744073709551616 -> 1 <= k <= 9 ->
  (chained_len x = k <->
   (k = 1 \/ 2 ^ (7 * (k - 1)) <= x) /\ (k = 9 \/ x < 2 ^ (7 * k))).
Proof.
  intros Hx Hk. rewrite chained_len_table by exact Hx.
  assert (K : k = 1 \/ k = 2 \/ k = 3 \/ k = 4 \/ k = 5 \/ k = 6 \/ k = 7 \/ k = 8 \/ k = 9) by lia.
  destruct K as [->|[->|[->|[->|[->|[->|[->|[->| ->]]]]]]]];
    cbn [N.mul N.sub Pos.mul Pos.sub Pos.pred_double Pos.sub_mask Pos.double_mask
         Pos.double_pred_mask Pos.succ_double_mask Pos.pred Pos.add Pos.succ];
    repeat match goal with
    | |- context [2 ^ ?e] =>
        let v := eval vm_compute in (2 ^ e) in change (2 ^ e) with v
    end;
    kill_ifs; lia.
Qed.

Theorem chained_len_mono x y : x < 18446744073709551616 -> y < 18446744073709551616 ->
  x <= y -> chained_len x <= chained_len y.
Proof.
  intros Hx Hy Hxy. rewrite !chained_len_table by assumption.
  destruct (x <=? 127) eqn:X1; [kill_ifs; lia|].
  destruct (x <=? 16383) eqn:X2; [kill_ifs; lia|].
  destruct (x <=? 2097151) eqn:X3; [kill_ifs; lia|].
  destruct (x <=? 268435455) eqn:X4; [kill_ifs; lia|].
  destruct (x <=? 34359738367) eqn:X5; [kill_ifs; lia|].
  destruct (x <=? 4398046511103) eqn:X6; [kill_ifs; lia|].
  destruct (x <=? 562949953421311) eqn:X7; [kill_ifs; lia|].
  destruct (x <=? 72057594037927935) eqn:X8; kill_ifs; lia.
Qed.

Theorem chained_len_max x k : x < 18446744073709551616 -> 1 <= k <= 9 ->
  (chained_len x <= k <-> x <= chained_max k).
Proof.
  intros Hx Hk. rewrite chained_len_table by exact Hx.
  assert (K : k = 1 \/ k = 2 \/ k = 3 \/ k = 4 \/ k = 5 \/ k = 6 \/ k = 7 \/ k = 8 \/ k = 9) by lia.
  destruct K as [->|[->|[->|[->|[->|[->|[->|[->| ->]]]]]]]]; cbn [chained_max]; kill_ifs; lia.
Qed.

(* ---- C04: chained-simple encode = spec ---- *)
Lemma cs_enc_spec room v :
  cs_enc room v = le128 (ndigits128 room v - 1) v
                  ++ [u8 (v / 128 ^ N.of_nat (ndigits128 room v - 1))].
Proof.
  revert v. induction room as [|r IH]; intro v; cbn [cs_enc ndigits128].
  - cbn [Nat.sub le128 app]. change (128 ^ N.of_nat 0) with 1. rewrite N.div_1_r. reflexivity.
  - destruct (v <? 128) eqn:E.
    + destruct (128 <=? v) eqn:E2; [lia|]. cbn [Nat.sub le128 app].
      change (128 ^ N.of_nat 0) with 1. rewrite N.div_1_r. reflexivity.
    + destruct (128 <=? v) eqn:E2; [|lia].
      pose proof (nd_pos r (v / 128)) as P. set (n := ndigits128 r (v / 128)) in *.
      replace (S n - 1)%nat with (S (n - 1)) by lia.
      cbn [le128 app]. rewrite div_pow128_S, IH. fold n.
      fold (ch_cont v). rewrite ch_cont_eq. unfold shr. change (2 ^ 7) with 128. reflexivity.
Qed.

Theorem csimple_put_is_spec x : x < 18446744073709551616 -> csimple_encode64 x = csimple_spec x.
Proof.
  intro Hx. unfold csimple_encode64, csimple_spec, chained_spec_len. rewrite cs_enc_spec.
  destruct (x <? 72057594037927936) eqn:T.
  - destruct (top_lt_spec_len x ltac:(lia)) as (A & B & C). rewrite B, C.
    f_equal. f_equal. unfold u8. apply N.mod_small.
    assert (H8 : x < 128 ^ N.of_nat 8) by (norm_pow128; lia).
    destruct (nd_bounds 7 x H8) as (R1 & R2 & R3).
    set (n := ndigits128 7 x) in *.
    replace n with (S (n - 1)) in R2 by lia. rewrite pow128_S in R2.
    pose proof (pow128_pos (n - 1)). set (P := 128 ^ N.of_nat (n - 1)) in *.
    assert (x / P < 128) by (apply N.div_lt_upper_bound; lia). lia.
  - rewrite (nd_sat 8 x) by (norm_pow128; lia).
    replace (9 - 1)%nat with 8%nat by reflexivity. norm_pow128.
    f_equal. f_equal. unfold u8. apply N.mod_small.
    apply N.div_lt_upper_bound; lia.
Qed.

Theorem csimple_put_length x : x < 18446744073709551616 ->
  N.of_nat (length (csimple_encode64 x)) = csimple_length x.
Proof.
  intro H. rewrite csimple_put_is_spec, csimple_spec_length, csimple_length_eq, chained_len_is_spec by exact H.
  reflexivity.
Qed.

(* ---- Encode32 = Encode64 on 32-bit values ---- *)
Theorem csimple_encode32_eq x : x < 4294967296 -> csimple_encode32 x = csimple_encode64 x.
Proof.
  intro Hx. unfold csimple_encode32, csimple_encode64.
  assert (S7 : forall v, shr v 7 = v / 128) by (intro; reflexivity).
  assert (D14 : shr x 14 = x / 128 / 128) by (unfold shr; change (2 ^ 14) with 16384; lia).
  assert (D21 : shr x 21 = x / 128 / 128 / 128) by (unfold shr; change (2 ^ 21) with 2097152; lia).
  assert (D28 : shr x 28 = x / 128 / 128 / 128 / 128) by (unfold shr; change (2 ^ 28) with 268435456; lia).
  rewrite !u8_lor128, D14, D21, D28, ?S7.
  cbn [cs_enc]. rewrite ?S7.
  repeat match goal with
  | |- context [u8 (N.lor (N.land ?v 127) 128)] =>
      change (u8 (N.lor (N.land v 127) 128)) with (ch_cont v)
  end.
  rewrite !ch_cont_eq.
  destruct (x <? 128) eqn:E1.
  { destruct (128 <=? x) eqn:F1; [lia|reflexivity]. }
  destruct (128 <=? x) eqn:F1; [|lia]. f_equal.
  destruct (x <? 16384) eqn:E2.
  { destruct (128 <=? x / 128) eqn:F2; [lia|reflexivity]. }
  destruct (128 <=? x / 128) eqn:F2; [|lia]. f_equal.
  destruct (x <? 2097152) eqn:E3.
  { destruct (128 <=? x / 128 / 128) eqn:F3; [lia|reflexivity]. }
  destruct (128 <=? x / 128 / 128) eqn:F3; [|lia]. f_equal.
  destruct (x <? 268435456) eqn:E4.
  { destruct (128 <=? x / 128 / 128 / 128) eqn:F4; [lia|reflexivity]. }
  destruct (128 <=? x / 128 / 128 / 128) eqn:F4; [|lia]. f_equal.
  destruct (128 <=? x / 128 / 128 / 128 / 128) eqn:F5; [lia|reflexivity].
Qed.
