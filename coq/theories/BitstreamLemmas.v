(* BitstreamLemmas.v — generic lemmas used by the bitdim proofs: testbit
   characterisations of the w-bit operators of Bitstream.v, list update,
   div/mod placement.  Nothing here is specific to the C code. *)
Require Import VV.Base VV.BaseProofs VV.Bitstream.
From Coq Require Import Lia ZifyBool ZifyN ZifyNat.
Local Open Scope N_scope.
Ltac Zify.zify_post_hook ::= Z.div_mod_to_equations.

(* ---------------------------------------------------------------- testbit *)

Lemma tb_shiftl a n m : N.testbit (N.shiftl a n) m = (n <=? m) && N.testbit a (m - n).
Proof.
  destruct (N.leb_spec n m).
  - rewrite N.shiftl_spec_high' by assumption. reflexivity.
  - rewrite N.shiftl_spec_low by assumption. reflexivity.
Qed.

Lemma tb_shiftr a n m : N.testbit (N.shiftr a n) m = N.testbit a (m + n).
Proof. apply N.shiftr_spec'. Qed.

Lemma tb_ones n m : N.testbit (N.ones n) m = (m <? n).
Proof.
  destruct (N.ltb_spec m n).
  - apply N.ones_spec_low; assumption.
  - apply N.ones_spec_high; assumption.
Qed.

Lemma tb_truncv w x m : N.testbit (truncv w x) m = N.testbit x m && (m <? w).
Proof. unfold truncv. rewrite N.land_spec, tb_ones. reflexivity. Qed.

Lemma tb_notv w x m : N.testbit (notv w x) m = (m <? w) && negb (N.testbit x m).
Proof. unfold notv. rewrite N.ldiff_spec, tb_ones. reflexivity. Qed.

Lemma tb_shlv w x k m :
  N.testbit (shlv w x k) m = ((k <=? m) && N.testbit x (m - k)) && (m <? w).
Proof. unfold shlv. rewrite tb_truncv, tb_shiftl. reflexivity. Qed.

Lemma tb_small v n a : v < 2 ^ n -> n <= a -> N.testbit v a = false.
Proof.
  intros Hv Ha. destruct (N.eq_dec v 0) as [->|Hz]; [apply N.bits_0|].
  apply N.bits_above_log2. apply N.lt_le_trans with n; [|exact Ha].
  apply N.log2_lt_pow2; lia.
Qed.

Lemma lt_pow2_of_bits x n : (forall k, n <= k -> N.testbit x k = false) -> x < 2 ^ n.
Proof.
  intro H. destruct (N.eq_dec x 0) as [->|Hz].
  - apply N.neq_0_lt_0. apply N.pow_nonzero. lia.
  - apply N.log2_lt_pow2; [lia|].
    destruct (N.lt_ge_cases (N.log2 x) n) as [L|G]; [exact L|].
    pose proof (N.bit_log2 x Hz) as B. rewrite H in B by exact G. discriminate.
Qed.

Lemma truncv_lt w x : truncv w x < 2 ^ w.
Proof.
  apply lt_pow2_of_bits. intros k Hk. rewrite tb_truncv.
  destruct (N.ltb_spec k w); [lia|]. apply andb_false_r.
Qed.

Lemma ones64 : 18446744073709551615 = N.ones 64.
Proof. reflexivity. Qed.

Lemma bs_mask_ones V n : n <= V -> V <= 64 -> bs_mask V n = N.ones n.
Proof.
  intros H1 H2. unfold bs_mask. rewrite ones64. apply N.bits_inj. intro m.
  rewrite tb_truncv, tb_shiftr, !tb_ones.
  destruct (N.ltb_spec (m + (64 - n)) 64), (N.ltb_spec m V), (N.ltb_spec m n);
    cbn [andb]; try reflexivity; exfalso; lia.
Qed.

(* rewrite every testbit through the operators *)
Ltac tb :=
  repeat (rewrite ?N.lor_spec, ?N.land_spec, ?N.ldiff_spec, ?N.lxor_spec,
                  ?tb_shiftr, ?tb_ones, ?tb_truncv, ?tb_notv, ?tb_shlv, ?tb_shiftl).

(* decide every N comparison appearing in the goal *)
Ltac cmps :=
  repeat match goal with
         | |- context [?a <=? ?b] => destruct (N.leb_spec a b)
         | |- context [?a <? ?b] => destruct (N.ltb_spec a b)
         end.

(* ---------------------------------------------------------------- lists *)

Lemma nth_error_Some_nth {A} (l : list A) i x d : nth_error l i = Some x -> (i < length l)%nat /\ nth i l d = x.
Proof.
  intro H. split.
  - apply nth_error_Some. rewrite H. discriminate.
  - apply nth_error_nth. exact H.
Qed.

Lemma nth_error_None_len {A} (l : list A) i : nth_error l i = None <-> (length l <= i)%nat.
Proof. apply nth_error_None. Qed.

Lemma length_upd s i x : (i < length s)%nat -> length (upd s i x) = length s.
Proof.
  intro H. unfold upd. rewrite app_length, firstn_length. cbn [length].
  rewrite skipn_length. lia.
Qed.

Lemma nth_upd_same s i x d : (i < length s)%nat -> nth i (upd s i x) d = x.
Proof.
  intro H. unfold upd. rewrite app_nth2; rewrite firstn_length; [|lia].
  replace (i - Nat.min i (length s))%nat with 0%nat by lia. reflexivity.
Qed.

Lemma nth_upd_other s i j x d : (i < length s)%nat -> i <> j -> nth j (upd s i x) d = nth j s d.
Proof.
  unfold upd. revert i j. induction s as [|a s IH]; intros i j L H.
  - cbn [length] in L. lia.
  - destruct i as [|i].
    + destruct j as [|j]; [lia|]. reflexivity.
    + destruct j as [|j]; [reflexivity|].
      cbn [firstn skipn app nth]. apply IH; [cbn [length] in L; lia|lia].
Qed.

Lemma Forall_upd (P : N -> Prop) s i x : Forall P s -> P x -> Forall P (upd s i x).
Proof.
  intros Hs Hx. unfold upd. revert i. induction Hs as [|a s Ha Hs IH]; intro i.
  - rewrite firstn_nil, skipn_nil. cbn [app]. constructor; [exact Hx|constructor].
  - destruct i as [|i].
    + cbn [firstn skipn app]. constructor; assumption.
    + cbn [firstn skipn app]. constructor; [exact Ha|apply IH].
Qed.

(* ---------------------------------------------------------------- div / mod *)

Lemma divmod_place W a b : b < W -> (W * a + b) / W = a /\ (W * a + b) mod W = b.
Proof.
  intro H. split.
  - symmetry. apply N.div_unique with b; [exact H|reflexivity].
  - symmetry. apply N.mod_unique with a; [exact H|reflexivity].
Qed.

Lemma divmod_eq W i : W <> 0 -> i = W * (i / W) + i mod W /\ i mod W < W.
Proof. intro H. split; [apply N.div_mod; exact H|apply N.mod_lt; exact H]. Qed.

(* an index whose word differs from word q lies outside [W*q, W*q + W) *)
Lemma other_word_outside W q a b : b < W -> a <> q -> W * a + b < W * q \/ W * q + W <= W * a + b.
Proof.
  intros Hb Ha. destruct (N.lt_ge_cases a q) as [L|G].
  - left. assert (W * (a + 1) <= W * q) by (apply N.mul_le_mono_l; lia). lia.
  - right. assert (W * (q + 1) <= W * a) by (apply N.mul_le_mono_l; lia). lia.
Qed.
