(* SplitSpecProofs.v — facts about the level-table specification itself:
   the encoding of a value denotes that value, and no byte string denoting
   a value is shorter than the encoder's (canonical = shortest). *)
Require Import VV.Base VV.BaseProofs VV.Split VV.SplitSpec VV.SplitLemmas VV.SplitSpecLemmas VV.SplitProofs.
From Coq Require Import Lia ZifyBool ZifyN ZifyNat.
Local Open Scope N_scope.
Ltac Zify.zify_post_hook ::= Z.div_mod_to_equations.

Lemma lv_match_split b0 : find (fun l => lv_match l b0) split_table =
  if b0 / 64 =? 0 then Some (mk_level 0 Embed 0 0)
  else if b0 / 64 =? 1 then Some (mk_level 64 Embed 1 63)
  else if b0 =? 129 then Some (mk_level 129 Ext 1 16446)
  else if b0 =? 130 then Some (mk_level 130 Ext 2 16446)
  else if b0 =? 131 then Some (mk_level 131 Ext 3 16446)
  else if b0 =? 132 then Some (mk_level 132 Ext 4 16446)
  else if b0 =? 133 then Some (mk_level 133 Ext 5 16446)
  else if b0 =? 134 then Some (mk_level 134 Ext 6 16446)
  else if b0 =? 135 then Some (mk_level 135 Ext 7 16446)
  else if b0 =? 136 then Some (mk_level 136 Ext 8 16446)
  else None.
Proof. reflexivity. Qed.

(* ---------------- shortest ---------------- *)
Theorem split_shortest b x : bytes_ok b -> split_denote b = Some x ->
  split_length x <= N.of_nat (length b).
Proof.
  intro Hb. destruct b as [|b0 rest]; [discriminate|].
  assert (Hrest : bytes_ok rest) by (inversion Hb; assumption). clear Hb.
  unfold split_denote, lv_denote. rewrite lv_match_split.
  do 10 (step; [finish_short split_length_chain split_len_chain|]).
  discriminate.
Qed.

(* ---------------- the encoding denotes the value ---------------- *)
Theorem split_denote_spec x : x < 18446744073709551616 -> split_denote (split_spec x) = Some x.
Proof.
  intro Hx. destruct (split_classify x Hx) as [H|H|k Hk H Hw Hlt Hge].
  - rewrite split_spec_embed0 by exact H. unfold split_denote, lv_denote. rewrite lv_match_split.
    destruct (x / 64 =? 0) eqn:E; [|lia]. finish_den. kill_ifs. f_equal. lia.
  - rewrite split_spec_embed1 by exact H. unfold split_denote, lv_denote. rewrite lv_match_split.
    destruct ((64 + (x - 63) / 256) / 64 =? 0) eqn:E; [lia|].
    destruct ((64 + (x - 63) / 256) / 64 =? 1) eqn:E1; [|lia]. finish_den. kill_ifs. f_equal. lia.
  - rewrite (split_spec_var x k) by (assumption || lia).
    pose proof (of_le_le_bytes_small k (x - 16446) Hlt) as V.
    unfold split_denote, lv_denote. rewrite lv_match_split. clear Hw Hge.
    cases8 k; match goal with |- context [128 + N.of_nat ?n] =>
                let r := eval vm_compute in (128 + N.of_nat n) in change (128 + N.of_nat n) with r end;
      cbv beta iota; cbn [N.div N.eqb Pos.eqb]; 
      repeat (step; [try discriminate|try discriminate]).
    all: try (finish_den; rewrite V; kill_ifs; f_equal; lia).
Qed.

(* one encoding per value: the encoder is injective *)
Theorem split_spec_injective x y : x < 18446744073709551616 -> y < 18446744073709551616 ->
  split_spec x = split_spec y -> x = y.
Proof.
  intros Hx Hy E. pose proof (split_denote_spec x Hx) as A. rewrite E, (split_denote_spec y Hy) in A.
  congruence.
Qed.
(* ---------------- the decoders compute the specification's meaning on
   EVERY well-formed stream (canonical or not), at any address ---------------- *)
Theorem split_get_denote pre b tl x : bytes_ok b -> split_denote b = Some x ->
  split_get_at (pre ++ b ++ tl) (Z.of_nat (length pre)) = Some (N.of_nat (length b), x).
Proof.
  intro Hb. destruct b as [|b0 rest]; [discriminate|].
  assert (Hrest : bytes_ok rest) by (inversion Hb; assumption). clear Hb.
  unfold split_denote, lv_denote. rewrite lv_match_split.
  step.
  { open_level. destruct rest; [|discriminate]. subst x. cbn [of_be of_le rev]. norm256.
    destruct (split_get_embed0 pre tl b0) as (A & _); [lia|]. cbn [app] in A |- *. rewrite A.
    f_equal. f_equal. lia. }
  step.
  { open_level. destruct rest as [|r [|]]; try discriminate. subst x.
    unfold of_be. cbn [of_le rev app]. norm256.
    assert (Hr : r < 256) by (inversion Hrest; assumption).
    replace b0 with (64 + b0 mod 64) at 1 by lia.
    destruct (split_get_embed1 pre tl (b0 mod 64) r) as (A & _); [lia|lia|]. cbn [app] in A |- *. rewrite A.
    f_equal. f_equal. lia. }
  do 8 (step; [fin_ext split_get_var|]).
  discriminate.
Qed.

