(* SplitSpecProofs.v — facts about the level-table specification itself:
   the encoding of a value denotes that value, and no byte string denoting
   a value is shorter than the encoder's (canonical = shortest). *)
Require Import VV.Base VV.BaseProofs VV.Split VV.SplitSpec VV.SplitLemmas VV.SplitProofs VV.Split16Proofs.
From Coq Require Import Lia ZifyBool ZifyN ZifyNat.
Local Open Scope N_scope.
Ltac Zify.zify_post_hook ::= Z.div_mod_to_equations.

Lemma payload_ext rest n : bytes_ok rest -> length rest = n -> of_le rest < 256 ^ N.of_nat n.
Proof. intros H <-. apply of_le_lt. exact H. Qed.
Lemma payload_emb rest n : bytes_ok rest -> length rest = n -> of_be rest < 256 ^ N.of_nat n.
Proof.
  intros H <-. unfold of_be. rewrite <- (rev_length rest). apply of_le_lt. apply bytes_ok_rev. exact H.
Qed.

Lemma lv_match_split b0 : find (fun l => lv_match l b0) split_table =
  if b0 / 64 =? 0 then Some (mk_level 0 Embed 0 0)
  else if b0 / 64 =? 1 then Some (mk_level 64 Embed 1 63)
  else if b0 =? 129 then Some (mk_level 129 Ext 1 16446)
  else if b0 =? 130 then Some (mk_level 130 Ext 2 16446)
  else if b0 =? 131 then Some (mk_level 131 Ext 3 16446)
  else if b0 =? 132 then Some (mk_level 132 Ext 4 16446)
  else if b0 =? 133 then Some (mk_level 133 Ext 5 16446)
  else if b0 =? 134 then Some (mk_level 134 Ext 6 16446)
  else if b0 =? 135 then Some (mk_level 135 Ext 7 16446)
  else if b0 =? 136 then Some (mk_level 136 Ext 8 16446)
  else None.
Proof. reflexivity. Qed.

Lemma lv_match_split16 b0 : find (fun l => lv_match l b0) split16_table =
  if b0 / 64 =? 0 then Some (mk_level 0 Embed 1 0)
  else if b0 / 64 =? 1 then Some (mk_level 64 Embed 2 16383)
  else if b0 / 64 =? 2 then Some (mk_level 128 Embed 3 4210686)
  else if b0 =? 196 then Some (mk_level 196 Ext 4 1077952509)
  else if b0 =? 197 then Some (mk_level 197 Ext 5 1077952509)
  else if b0 =? 198 then Some (mk_level 198 Ext 6 1077952509)
  else if b0 =? 199 then Some (mk_level 199 Ext 7 1077952509)
  else if b0 =? 200 then Some (mk_level 200 Ext 8 1077952509)
  else None.
Proof. reflexivity. Qed.

Ltac step :=
  match goal with
  | |- context [if ?c then Some (mk_level ?a ?b ?n ?d) else _] => destruct c eqn:?E
  end.

(* ---------------- shortest ---------------- *)
Ltac finish_short chain_lemma chain :=
  let EL := fresh "EL" in let EV := fresh "EV" in let HX := fresh "HX" in
  cbv beta iota; cbn [lv_nbytes lv_kind_of lv_base];
  match goal with |- context [(length ?r =? ?n)%nat] => destruct (length r =? n)%nat eqn:EL end;
  [|discriminate]; apply Nat.eqb_eq in EL;
  match goal with |- context [if ?v <=? U64MAX then _ else _] => destruct (v <=? U64MAX) eqn:EV end;
  [|discriminate];
  intro HX; apply some_inj in HX; subst;
  match goal with Hr : bytes_ok ?r |- _ =>
    pose proof (payload_ext r _ Hr EL); pose proof (payload_emb r _ Hr EL) end;
  unfold U64MAX in EV; norm256; rewrite chain_lemma by lia; unfold chain;
  cbn [length]; rewrite EL; kill_ifs; lia.

Theorem split_shortest b x : bytes_ok b -> split_denote b = Some x ->
  split_length x <= N.of_nat (length b).
Proof.
  intro Hb. destruct b as [|b0 rest]; [discriminate|].
  assert (Hrest : bytes_ok rest) by (inversion Hb; assumption). clear Hb.
  unfold split_denote, lv_denote. rewrite lv_match_split.
  do 10 (step; [finish_short split_length_chain split_len_chain|]).
  discriminate.
Qed.

Theorem split16_shortest b x : bytes_ok b -> split16_denote b = Some x ->
  split16_length x <= N.of_nat (length b).
Proof.
  intro Hb. destruct b as [|b0 rest]; [discriminate|].
  assert (Hrest : bytes_ok rest) by (inversion Hb; assumption). clear Hb.
  unfold split16_denote, lv_denote. rewrite lv_match_split16.
  do 8 (step; [finish_short split16_length_chain split16_len_chain|]).
  discriminate.
Qed.

(* ---------------- the encoding denotes the value ---------------- *)
Ltac finish_den :=
  cbv beta iota; cbn [lv_nbytes lv_kind_of lv_base length];
  rewrite ?length_le_bytes; rewrite ?Nat.eqb_refl; cbn [Nat.eqb]; cbv iota;
  unfold U64MAX, of_be; cbn [rev app of_le]; norm256.

Theorem split_denote_spec x : x < 18446744073709551616 -> split_denote (split_spec x) = Some x.
Proof.
  intro Hx. destruct (split_classify x Hx) as [H|H|k Hk H Hw Hlt Hge].
  - rewrite split_spec_embed0 by exact H. unfold split_denote, lv_denote. rewrite lv_match_split.
    destruct (x / 64 =? 0) eqn:E; [|lia]. finish_den. kill_ifs. f_equal. lia.
  - rewrite split_spec_embed1 by exact H. unfold split_denote, lv_denote. rewrite lv_match_split.
    destruct ((64 + (x - 63) / 256) / 64 =? 0) eqn:E; [lia|].
    destruct ((64 + (x - 63) / 256) / 64 =? 1) eqn:E1; [|lia]. finish_den. kill_ifs. f_equal. lia.
  - rewrite (split_spec_var x k) by (assumption || lia).
    pose proof (of_le_le_bytes_small k (x - 16446) Hlt) as V.
    unfold split_denote, lv_denote. rewrite lv_match_split. clear Hw Hge.
    cases8 k; match goal with |- context [128 + N.of_nat ?n] =>
                let r := eval vm_compute in (128 + N.of_nat n) in change (128 + N.of_nat n) with r end;
      cbv beta iota; cbn [N.div N.eqb Pos.eqb]; 
      repeat (step; [try discriminate|try discriminate]).
    all: try (finish_den; rewrite V; kill_ifs; f_equal; lia).
Qed.

Theorem split16_denote_spec x : x < 18446744073709551616 -> split16_denote (split16_spec x) = Some x.
Proof.
  intro Hx. destruct (split16_classify x Hx) as [H|H|H|k Hk H Hw Hlt Hge].
  - rewrite split16_spec_0 by exact H. unfold split16_denote, lv_denote. rewrite lv_match_split16.
    destruct (x / 256 / 64 =? 0) eqn:E; [|lia]. finish_den. kill_ifs. f_equal. lia.
  - rewrite split16_spec_1 by exact H. unfold split16_denote, lv_denote. rewrite lv_match_split16.
    destruct ((64 + (x - 16383) / 65536) / 64 =? 0) eqn:E; [lia|].
    destruct ((64 + (x - 16383) / 65536) / 64 =? 1) eqn:E1; [|lia]. finish_den. kill_ifs. f_equal. lia.
  - rewrite split16_spec_2 by exact H. unfold split16_denote, lv_denote. rewrite lv_match_split16.
    destruct ((128 + (x - 4210686) / 16777216) / 64 =? 0) eqn:E; [lia|].
    destruct ((128 + (x - 4210686) / 16777216) / 64 =? 1) eqn:E1; [lia|].
    destruct ((128 + (x - 4210686) / 16777216) / 64 =? 2) eqn:E2; [|lia].
    finish_den. kill_ifs. f_equal. lia.
  - rewrite (split16_spec_var x k) by (assumption || lia).
    pose proof (of_le_le_bytes_small k (x - 1077952509) Hlt) as V.
    unfold split16_denote, lv_denote. rewrite lv_match_split16. clear Hw Hge.
    assert (C : (k = 4 \/ k = 5 \/ k = 6 \/ k = 7 \/ k = 8)%nat) by lia.
    destruct C as [C|[C|[C|[C|C]]]]; subst k;
      match goal with |- context [192 + N.of_nat ?n] =>
        let r := eval vm_compute in (192 + N.of_nat n) in change (192 + N.of_nat n) with r end;
      cbv beta iota; cbn [N.div N.eqb Pos.eqb];
      repeat (step; [try discriminate|try discriminate]).
    all: try (finish_den; rewrite V; kill_ifs; f_equal; lia).
Qed.

(* one encoding per value: the encoder is injective *)
Theorem split_spec_injective x y : x < 18446744073709551616 -> y < 18446744073709551616 ->
  split_spec x = split_spec y -> x = y.
Proof.
  intros Hx Hy E. pose proof (split_denote_spec x Hx) as A. rewrite E, (split_denote_spec y Hy) in A.
  congruence.
Qed.
Theorem split16_spec_injective x y : x < 18446744073709551616 -> y < 18446744073709551616 ->
  split16_spec x = split16_spec y -> x = y.
Proof.
  intros Hx Hy E. pose proof (split16_denote_spec x Hx) as A. rewrite E, (split16_denote_spec y Hy) in A.
  congruence.
Qed.

(* ---------------- the decoders compute the specification's meaning on
   EVERY well-formed stream (canonical or not), at any address ---------------- *)
Ltac open_level :=
  let EL := fresh "EL" in let EV := fresh "EV" in let HX := fresh "HX" in
  cbv beta iota; cbn [lv_nbytes lv_kind_of lv_base];
  match goal with |- context [(length ?r =? ?n)%nat] => destruct (length r =? n)%nat eqn:EL end;
  [|discriminate]; apply Nat.eqb_eq in EL;
  match goal with |- context [if ?v <=? U64MAX then _ else _] => destruct (v <=? U64MAX) eqn:EV end;
  [|discriminate];
  intro HX; apply some_inj in HX; unfold U64MAX in EV.

Ltac fin_ext lemma :=
  open_level;
  match goal with H : (?b0 =? _) = true |- _ => apply N.eqb_eq in H; subst b0 end;
  match goal with
  | EL : length ?rest = ?k, Hr : bytes_ok ?rest |- context [split_get_at (?pre ++ _ ++ ?tl) _] =>
      let A := fresh "A" in
      destruct (lemma pre tl k rest) as (A & _); [lia | exact EL | exact Hr | lia |];
      cbn [N.of_nat Pos.of_succ_nat Pos.succ N.add Pos.add] in A; rewrite A;
      cbn [length]; rewrite EL; subst; f_equal; f_equal; lia
  | EL : length ?rest = ?k, Hr : bytes_ok ?rest |- context [split16_get_at (?pre ++ _ ++ ?tl) _] =>
      let A := fresh "A" in
      destruct (lemma pre tl k rest) as (A & _); [lia | exact EL | exact Hr | lia |];
      cbn [N.of_nat Pos.of_succ_nat Pos.succ N.add Pos.add] in A; rewrite A;
      cbn [length]; rewrite EL; subst; f_equal; f_equal; lia
  end.

Theorem split_get_denote pre b tl x : bytes_ok b -> split_denote b = Some x ->
  split_get_at (pre ++ b ++ tl) (Z.of_nat (length pre)) = Some (N.of_nat (length b), x).
Proof.
  intro Hb. destruct b as [|b0 rest]; [discriminate|].
  assert (Hrest : bytes_ok rest) by (inversion Hb; assumption). clear Hb.
  unfold split_denote, lv_denote. rewrite lv_match_split.
  step.
  { open_level. destruct rest; [|discriminate]. subst x. cbn [of_be of_le rev]. norm256.
    destruct (split_get_embed0 pre tl b0) as (A & _); [lia|]. cbn [app] in A |- *. rewrite A.
    f_equal. f_equal. lia. }
  step.
  { open_level. destruct rest as [|r [|]]; try discriminate. subst x.
    unfold of_be. cbn [of_le rev app]. norm256.
    assert (Hr : r < 256) by (inversion Hrest; assumption).
    replace b0 with (64 + b0 mod 64) at 1 by lia.
    destruct (split_get_embed1 pre tl (b0 mod 64) r) as (A & _); [lia|lia|]. cbn [app] in A |- *. rewrite A.
    f_equal. f_equal. lia. }
  do 8 (step; [fin_ext split_get_var|]).
  discriminate.
Qed.

Theorem split16_get_denote pre b tl x : bytes_ok b -> split16_denote b = Some x ->
  split16_get_at (pre ++ b ++ tl) (Z.of_nat (length pre)) = Some (N.of_nat (length b), x).
Proof.
  intro Hb. destruct b as [|b0 rest]; [discriminate|].
  assert (Hrest : bytes_ok rest) by (inversion Hb; assumption). clear Hb.
  unfold split16_denote, lv_denote. rewrite lv_match_split16.
  step.
  { open_level. destruct rest as [|r [|]]; try discriminate. subst x.
    unfold of_be. cbn [of_le rev app]. norm256.
    assert (Hr : r < 256) by (inversion Hrest; assumption).
    destruct (split16_get_0 pre tl b0 r) as (A & _); [lia|lia|]. cbn [app] in A |- *. rewrite A.
    f_equal. f_equal. lia. }
  step.
  { open_level. destruct rest as [|r [|s [|]]]; try discriminate. subst x.
    unfold of_be. cbn [of_le rev app]. norm256.
    assert (Hr : r < 256) by (inversion Hrest; assumption).
    assert (Hs : s < 256) by (inversion Hrest as [|? ? ? H2]; inversion H2; assumption).
    replace b0 with (64 + b0 mod 64) at 1 by lia.
    destruct (split16_get_1 pre tl (b0 mod 64) r s) as (A & _); [lia|lia|lia|]. cbn [app] in A |- *. rewrite A.
    f_equal. f_equal. lia. }
  step.
  { open_level. destruct rest as [|r [|s [|t [|]]]]; try discriminate. subst x.
    unfold of_be. cbn [of_le rev app]. norm256.
    assert (Hr : r < 256) by (inversion Hrest; assumption).
    assert (Hs : s < 256) by (inversion Hrest as [|? ? ? H2]; inversion H2; assumption).
    assert (Ht : t < 256) by (inversion Hrest as [|? ? ? H2]; inversion H2 as [|? ? ? H3]; inversion H3; assumption).
    replace b0 with (128 + b0 mod 64) at 1 by lia.
    destruct (split16_get_2 pre tl (b0 mod 64) r s t) as (A & _); [lia|lia|lia|lia|]. cbn [app] in A |- *. rewrite A.
    f_equal. f_equal. lia. }
  do 5 (step; [fin_ext split16_get_var|]).
  discriminate.
Qed.
