(* AdaptiveLemmas.v — basic facts about the Adaptive.v model and the round
   trips of the DELTA, FOR, PFOR and TAGGED containers (the inner codecs'
   own theorems are used, nothing about them is re-proved). *)
Require Import VV.Base VV.BaseProofs VV.Tagged VV.TaggedProofs VV.TaggedSpecProofs.
Require Import VV.Delta VV.DfgLemmas VV.DeltaProofs VV.FOR VV.FORProofs.
Require Import VV.PFOR VV.PFORSpec VV.PFORLemmas VV.PFORProofs VV.PFORProofsDec VV.PFORProofsSize VV.PFORTheorems.
Require Import VV.Adaptive.
From Coq Require Import Lia ZifyBool ZifyN ZifyNat.
Local Open Scope N_scope.
Ltac Zify.zify_post_hook ::= Z.div_mod_to_equations.

Definition adp_u64s (xs : list N) : Prop := Forall (fun x => x < 18446744073709551616) xs.

(* ---------- lengths ---------- *)
Lemma adp_len_acc_spec {A} (l : list A) : forall acc, adp_len_acc l acc = acc + N.of_nat (length l).
Proof. induction l as [|x t IH]; intro acc; cbn [adp_len_acc length]; [lia|rewrite IH; lia]. Qed.

Lemma adp_len_spec {A} (l : list A) : adp_len l = N.of_nat (length l).
Proof. unfold adp_len. rewrite adp_len_acc_spec. lia. Qed.

Lemma u8_small e : e < 256 -> u8 e = e.
Proof. intro H. unfold u8. apply N.mod_small. exact H. Qed.

Lemma u64_small x : x < 18446744073709551616 -> u64 x = x.
Proof. intro H. unfold u64. apply N.mod_small. exact H. Qed.

Lemma u32_small x : x < 4294967296 -> u32 x = x.
Proof. intro H. unfold u32. apply N.mod_small. exact H. Qed.

(* ---------- DELTA ---------- *)
Lemma adp_encode_with_delta xs :
  adp_encode_with xs 0
  = AEOk (0 :: delta_encode_u xs)
         (mk_adp_meta 0 (N.of_nat (length xs)) (u64 (N.of_nat (length (delta_encode_u xs)) + 1)) None None).
Proof. unfold adp_encode_with. cbv zeta. rewrite !adp_len_spec. reflexivity. Qed.

Lemma adp_decode_delta xs tl : adp_u64s xs ->
  adp_decode ((0 :: delta_encode_u xs) ++ tl) (N.of_nat (length xs))
  = ADOk (N.of_nat (length xs)) xs None.
Proof.
  intro H. unfold adp_decode. cbn [app]. rewrite Nat2N.id.
  rewrite delta_u_roundtrip by exact H. reflexivity.
Qed.

(* a capacity below the count: the first cap values *)
Lemma delta_u_loop_prefix vs : forall prev post k,
  prev < 18446744073709551616 -> adp_u64s vs -> (k <= length vs)%nat ->
  exists u, delta_decode_u_loop (delta_encode_u_loop prev vs ++ post) k prev = Some (u, firstn k vs).
Proof.
  induction vs as [|v t IH]; intros prev post k Hp HF Hk.
  - destruct k; [|cbn [length] in Hk; lia]. eexists. reflexivity.
  - destruct k as [|k]; [eexists; reflexivity|].
    assert (Hv : v < 18446744073709551616) by (inversion HF; assumption).
    assert (Ht : adp_u64s t) by (inversion HF; assumption).
    cbn [delta_encode_u_loop delta_decode_u_loop firstn]. rewrite <- app_assoc.
    rewrite delta_get_put by (apply to_s64_range, sub64_lt). cbv zeta.
    rewrite add64_sub64 by assumption.
    rewrite Nat2N.id, skipn_app_exact by reflexivity.
    destruct (IH v post k Hv Ht ltac:(cbn [length] in Hk; lia)) as (u & E). rewrite E.
    eexists. reflexivity.
Qed.

Lemma delta_u_prefix xs post k : adp_u64s xs -> (k <= length xs)%nat ->
  exists u, delta_decode_u (delta_encode_u xs ++ post) k = Some (u, firstn k xs).
Proof.
  intros HF Hk. destruct k as [|k]; [eexists; reflexivity|].
  destruct xs as [|base rest]; [cbn [length] in Hk; lia|].
  assert (L : base < 18446744073709551616) by (inversion HF; assumption).
  assert (Ht : adp_u64s rest) by (inversion HF; assumption).
  unfold delta_encode_u. cbv zeta. unfold delta_decode_u.
  rewrite <- app_comm_cons. cbn [List.tl]. rewrite byte_at_cons_0.
  rewrite u8_width by exact L. rewrite <- app_assoc.
  rewrite frame_get by exact L.
  replace (N.to_nat (1 + N.of_nat (ext_width base))) with (S (ext_width base)) by lia.
  cbn [skipn]. rewrite skipn_app_exact by apply length_le_bytes.
  destruct (delta_u_loop_prefix rest base post k L Ht ltac:(cbn [length] in Hk; lia)) as (u & E).
  rewrite E. cbn [firstn]. eexists. reflexivity.
Qed.

(* ---------- FOR ---------- *)
Lemma adp_for_accepts xs : xs <> [] ->
  exists m0, Some adp_for_meta_zero = Some m0 /\
    (fm_count m0 <> N.of_nat (length xs) \/ for_analyze xs = Some m0).
Proof.
  intro Hne. exists adp_for_meta_zero. split; [reflexivity|]. left.
  destruct xs; [congruence|]. cbn [fm_count adp_for_meta_zero length]. lia.
Qed.

Lemma adp_encode_with_for xs : xs <> [] -> adp_u64s xs ->
  exists m, for_analyze xs = Some m /\
    adp_encode_with xs 1
    = AEOk (1 :: for_bytes m xs)
           (mk_adp_meta 1 (N.of_nat (length xs)) (u64 (N.of_nat (length (for_bytes m xs)) + 1)) (Some m) None).
Proof.
  intros Hne HF.
  destruct (for_encode_accepted xs (Some adp_for_meta_zero) Hne HF (or_intror (adp_for_accepts xs Hne)))
    as (m & Ha & He).
  exists m. split; [exact Ha|].
  unfold adp_encode_with. cbv zeta. rewrite He. rewrite !adp_len_spec. reflexivity.
Qed.

(* ---------- PFOR ---------- *)
Lemma adp_encode_with_pfor xs : N.of_nat (length xs) < 4294967296 -> (1 <= length xs)%nat ->
  adp_u64s xs ->
  adp_encode_with xs 2
  = AEOk (2 :: pfor_encode_bytes xs 95)
         (mk_adp_meta 2 (N.of_nat (length xs)) (u64 (N.of_nat (length (pfor_encode_bytes xs 95)) + 1))
                      None (Some (pfor_encode_meta xs 95))).
Proof.
  intros H32 H1 HF. unfold adp_encode_with. cbv zeta. rewrite !adp_len_spec.
  rewrite u32_small by exact H32. rewrite takeNp_all.
  fold (pfor_encode_bytes xs 95). fold (pfor_encode_meta xs 95).
  destruct (N.of_nat (length (pfor_encode_bytes xs 95)) =? 0) eqn:E; [|reflexivity].
  exfalso.
  destruct (pfor_meta_truth xs 95 H1 HF) as (_ & _ & _ & _ & _ & _ & _ & _ & L).
  rewrite L in E. rewrite layout_split, !app_length in E.
  pose proof (tagged_put_length (pm_min (pfor_encode_meta xs 95))) as T.
  pose proof (tagged_len_range (pm_min (pfor_encode_meta xs 95))). lia.
Qed.

Lemma adp_decode_pfor xs tl : N.of_nat (length xs) < 4294967296 -> (1 <= length xs)%nat ->
  adp_u64s xs ->
  exists pm, adp_decode ((2 :: pfor_encode_bytes xs 95) ++ tl) (N.of_nat (length xs))
             = ADOk (N.of_nat (length xs)) xs (Some pm).
Proof.
  intros H32 H1 HF. unfold adp_decode. cbn [app].
  pose proof (pfor_read_meta_truth xs 95 tl pfor_meta_zero H1 H32 HF) as R. cbv zeta in R.
  rewrite R. clear R.
  pose proof (nonempty_of_len xs H1) as Hne.
  destruct (compute_threshold_ok xs 95 Hne HF) as (w & MO).
  destruct (pfor_encode_layout xs 95 Hne HF) as (L & _).
  change (pfor_encode_meta xs 95) with (pfor_compute_threshold xs 95).
  set (m := pfor_compute_threshold xs 95) in *.
  cbn [pm_count]. rewrite (mo_count _ _ _ MO).
  replace (N.of_nat (length xs) <? N.of_nat (length xs)) with false by lia.
  rewrite L.
  rewrite (decode_layout_meta m xs w MO HF H32 tl) by (try reflexivity; cbn [pm_count]; apply (mo_count _ _ _ MO)).
  eexists. reflexivity.
Qed.

(* a capacity below the count: nothing is stored, 0 is returned *)
Lemma adp_decode_pfor_short xs tl cap : N.of_nat (length xs) < 4294967296 -> (1 <= length xs)%nat ->
  adp_u64s xs -> cap < N.of_nat (length xs) ->
  adp_decode ((2 :: pfor_encode_bytes xs 95) ++ tl) cap = ADOk 0 [] None.
Proof.
  intros H32 H1 HF Hc. unfold adp_decode. cbn [app].
  pose proof (pfor_read_meta_truth xs 95 tl pfor_meta_zero H1 H32 HF) as R. cbv zeta in R.
  rewrite R. clear R.
  destruct (pfor_meta_truth xs 95 H1 HF) as (_ & C & _). cbn [pm_count]. rewrite C.
  replace (cap <? N.of_nat (length xs)) with true by lia. reflexivity.
Qed.

(* ---------- TAGGED ---------- *)
Lemma adp_tagged_loop_ok xs : forall fuel tl offset count maxCount,
  adp_u64s xs -> (length xs <= fuel)%nat ->
  count + N.of_nat (length xs) = maxCount -> maxCount * 9 < 18446744073709551616 ->
  offset <= count * 9 ->
  adp_tagged_loop fuel (flat_map tagged_put64 xs ++ tl) offset count maxCount = POk xs.
Proof.
  induction xs as [|x t IH]; intros fuel tl offset count maxCount HF Hf Hc H9 Ho.
  - cbn [length] in Hc. destruct fuel; cbn [adp_tagged_loop];
      replace (count <? maxCount) with false by lia; reflexivity.
  - assert (Hx : x < 18446744073709551616) by (inversion HF; assumption).
    assert (Ht : adp_u64s t) by (inversion HF; assumption).
    destruct fuel as [|f]; [cbn [length] in Hf; lia|].
    cbn [length] in Hc, Hf. cbn [adp_tagged_loop flat_map]. rewrite <- app_assoc.
    unfold mul64. rewrite (N.mod_small (maxCount * 9)) by exact H9.
    replace (count <? maxCount) with true by lia.
    replace (offset <? maxCount * 9) with true by lia. cbn [andb].
    rewrite rd_tagged_put by exact Hx.
    pose proof (tagged_len_range x) as R.
    replace (tagged_len x =? 0) with false by lia.
    rewrite (IH f tl (u64 (offset + tagged_len x)) (count + 1) maxCount Ht); try lia.
    + reflexivity.
    + rewrite u64_small by lia. lia.
Qed.

(* fewer values asked for than present: the first maxCount of them *)
Lemma adp_tagged_loop_prefix xs : forall fuel tl offset count maxCount,
  adp_u64s xs -> (N.to_nat (maxCount - count) <= fuel)%nat ->
  count <= maxCount -> maxCount - count <= N.of_nat (length xs) -> maxCount * 9 < 18446744073709551616 ->
  offset <= count * 9 ->
  adp_tagged_loop fuel (flat_map tagged_put64 xs ++ tl) offset count maxCount
  = POk (firstn (N.to_nat (maxCount - count)) xs).
Proof.
  induction xs as [|x t IH]; intros fuel tl offset count maxCount HF Hf Hc Hl H9 Ho.
  - cbn [length] in Hl. replace (maxCount - count) with 0 by lia.
    destruct fuel; cbn [adp_tagged_loop]; replace (count <? maxCount) with false by lia; reflexivity.
  - assert (Hx : x < 18446744073709551616) by (inversion HF; assumption).
    assert (Ht : adp_u64s t) by (inversion HF; assumption).
    destruct (N.eq_dec count maxCount) as [E|E].
    { replace (maxCount - count) with 0 by lia.
      destruct fuel; cbn [adp_tagged_loop]; replace (count <? maxCount) with false by lia; reflexivity. }
    destruct fuel as [|f]; [lia|].
    cbn [length] in Hl. cbn [adp_tagged_loop flat_map]. rewrite <- app_assoc.
    unfold mul64. rewrite (N.mod_small (maxCount * 9)) by exact H9.
    replace (count <? maxCount) with true by lia.
    replace (offset <? maxCount * 9) with true by lia. cbn [andb].
    rewrite rd_tagged_put by exact Hx.
    pose proof (tagged_len_range x) as R.
    replace (tagged_len x =? 0) with false by lia.
    rewrite (IH f tl (u64 (offset + tagged_len x)) (count + 1) maxCount Ht); try lia.
    + replace (N.to_nat (maxCount - count)) with (S (N.to_nat (maxCount - (count + 1)))) by lia.
      reflexivity.
    + rewrite u64_small by lia. lia.
Qed.

Definition adp_is_tagged_code (e : N) : Prop := 5 <= e.

Lemma adp_encode_with_tagged xs e : 5 <= e ->
  adp_encode_with xs e
  = AEOk (u8 e :: flat_map tagged_put64 xs)
         (mk_adp_meta e (N.of_nat (length xs)) (u64 (N.of_nat (length (flat_map tagged_put64 xs)) + 1)) None None).
Proof.
  intro He. unfold adp_encode_with. cbv zeta. rewrite !adp_len_spec.
  destruct e as [|p]; [lia|].
  do 3 (try destruct p as [p|p|]; try lia; try reflexivity).
Qed.

Lemma adp_decode_tagged_code e data maxCount : 5 <= e ->
  adp_decode (e :: data) maxCount
  = match adp_tagged_loop (N.to_nat maxCount) data 0 0 maxCount with
    | POk vs => ADOk (adp_len vs) vs None
    | POob => ADOob | PUB => ADUB | PFuel => ADFuel
    end.
Proof.
  intro He. unfold adp_decode.
  destruct e as [|p]; [lia|].
  do 3 (try destruct p as [p|p|]; try lia; try reflexivity).
Qed.

Lemma adp_decode_tagged xs tl e : 5 <= e -> adp_u64s xs ->
  N.of_nat (length xs) * 9 < 18446744073709551616 ->
  adp_decode ((e :: flat_map tagged_put64 xs) ++ tl) (N.of_nat (length xs))
  = ADOk (N.of_nat (length xs)) xs None.
Proof.
  intros He HF H9. cbn [app]. rewrite adp_decode_tagged_code by exact He.
  rewrite adp_tagged_loop_ok; try assumption; try lia.
  rewrite adp_len_spec. reflexivity.
Qed.
