(* Properties_C01_splitfull.v — property C01 for the SplitFull and
   SplitFullNoZero macro families (varintSplitFull.h, varintSplitFullNoZero.h):
   every 64-bit value (every non-zero value for NoZero) round-trips, the four
   ways of obtaining the length agree and lie in 1..9, forward and reversed.
   Nothing but statements closed by `exact`, each followed by Print Assumptions. *)
Require Import VV.Base VV.SplitFull VV.SplitFullLemmas VV.SplitFullProofs VV.SplitFullNZProofs.
Local Open Scope N_scope.

(* ---- SplitFull ---- *)

(* Put_ then Get_ (whatever follows the encoding in memory) returns the
   encoder's length and the value; Some = the external read is defined *)
Theorem C01_splitfull_roundtrip : forall x tl,
  x < 18446744073709551616 ->
  sf_get (sf_put x ++ tl) = Some (sf_length x, x).
Proof. exact sf_roundtrip. Qed.
Print Assumptions C01_splitfull_roundtrip.

(* bytes written = Length_ = GetLen_ = GetLenQuick_ *)
Theorem C01_splitfull_len_agree : forall x tl,
  x < 18446744073709551616 ->
  N.of_nat (length (sf_put x)) = sf_length x /\
  sf_getlen (sf_put x ++ tl) = sf_length x /\
  sf_getlen_quick (sf_put x ++ tl) = sf_length x.
Proof.
  exact (fun x tl H => conj (sf_put_length x H)
                            (conj (sf_getlen_put x tl H) (sf_getlen_quick_put x tl H))).
Qed.
Print Assumptions C01_splitfull_len_agree.

Theorem C01_splitfull_len_range : forall x,
  x < 18446744073709551616 -> 1 <= sf_length x <= 9.
Proof. exact sf_length_range. Qed.
Print Assumptions C01_splitfull_len_range.

(* the width handed to the external put is always one it is defined for *)
Theorem C01_splitfull_length_var_range : forall v,
  v < 18446744073709551616 -> 3 <= sf_length_var v <= 9.
Proof. exact sf_length_var_range. Qed.
Print Assumptions C01_splitfull_length_var_range.

Theorem C01_splitfull_bytes : forall x,
  x < 18446744073709551616 -> bytes_ok (sf_put x).
Proof. exact sf_put_bytes_ok. Qed.
Print Assumptions C01_splitfull_bytes.

(* reversed forms: PutReversed and PutForward leave the same bytes, dst[0] is
   the last of them, their number is Length_, and ReversedGet_ at that byte
   (anything before / after) returns length and value *)
Theorem C01_splitfull_rev_same_bytes : forall x,
  fst (sf_rev_put_reversed x) = sf_rev_put_forward x.
Proof. exact sf_rev_reversed_forward. Qed.
Print Assumptions C01_splitfull_rev_same_bytes.

Theorem C01_splitfull_rev_offset : forall x,
  x < 18446744073709551616 ->
  S (snd (sf_rev_put_reversed x)) = length (fst (sf_rev_put_reversed x)).
Proof. exact sf_rev_reversed_offset. Qed.
Print Assumptions C01_splitfull_rev_offset.

Theorem C01_splitfull_rev_length : forall x,
  x < 18446744073709551616 ->
  N.of_nat (length (sf_rev_put_forward x)) = sf_length x.
Proof. exact sf_rev_put_length. Qed.
Print Assumptions C01_splitfull_rev_length.

Theorem C01_splitfull_rev_roundtrip : forall x pre post,
  x < 18446744073709551616 ->
  sf_rev_get (pre ++ sf_rev_put_forward x ++ post)
             (length pre + (length (sf_rev_put_forward x) - 1))
  = Some (sf_length x, x).
Proof. exact sf_rev_roundtrip. Qed.
Print Assumptions C01_splitfull_rev_roundtrip.

(* ---- SplitFullNoZero (domain: 1 <= x) ---- *)

Theorem C01_splitfullnz_roundtrip : forall x tl,
  1 <= x -> x < 18446744073709551616 ->
  sfnz_get (sfnz_put x ++ tl) = Some (sfnz_length x, x).
Proof. exact sfnz_roundtrip. Qed.
Print Assumptions C01_splitfullnz_roundtrip.

Theorem C01_splitfullnz_len_agree : forall x tl,
  1 <= x -> x < 18446744073709551616 ->
  N.of_nat (length (sfnz_put x)) = sfnz_length x /\
  sfnz_getlen (sfnz_put x ++ tl) = sfnz_length x /\
  sfnz_getlen_quick (sfnz_put x ++ tl) = sfnz_length x.
Proof.
  exact (fun x tl H1 H => conj (sfnz_put_length x H1 H)
                            (conj (sfnz_getlen_put x tl H1 H) (sfnz_getlen_quick_put x tl H1 H))).
Qed.
Print Assumptions C01_splitfullnz_len_agree.

Theorem C01_splitfullnz_len_range : forall x,
  1 <= x -> x < 18446744073709551616 -> 1 <= sfnz_length x <= 9.
Proof. exact sfnz_length_range. Qed.
Print Assumptions C01_splitfullnz_len_range.

Theorem C01_splitfullnz_bytes : forall x,
  1 <= x -> x < 18446744073709551616 -> bytes_ok (sfnz_put x).
Proof. exact sfnz_put_bytes_ok. Qed.
Print Assumptions C01_splitfullnz_bytes.

Theorem C01_splitfullnz_rev_same_bytes : forall x,
  fst (sfnz_rev_put_reversed x) = sfnz_rev_put_forward x.
Proof. exact sfnz_rev_reversed_forward. Qed.
Print Assumptions C01_splitfullnz_rev_same_bytes.

Theorem C01_splitfullnz_rev_offset : forall x,
  1 <= x -> x < 18446744073709551616 ->
  S (snd (sfnz_rev_put_reversed x)) = length (fst (sfnz_rev_put_reversed x)).
Proof. exact sfnz_rev_reversed_offset. Qed.
Print Assumptions C01_splitfullnz_rev_offset.

Theorem C01_splitfullnz_rev_length : forall x,
  1 <= x -> x < 18446744073709551616 ->
  N.of_nat (length (sfnz_rev_put_forward x)) = sfnz_length x.
Proof. exact sfnz_rev_put_length. Qed.
Print Assumptions C01_splitfullnz_rev_length.

Theorem C01_splitfullnz_rev_roundtrip : forall x pre post,
  1 <= x -> x < 18446744073709551616 ->
  sfnz_rev_get (pre ++ sfnz_rev_put_forward x ++ post)
               (length pre + (length (sfnz_rev_put_forward x) - 1))
  = Some (sfnz_length x, x).
Proof. exact sfnz_rev_roundtrip. Qed.
Print Assumptions C01_splitfullnz_rev_roundtrip.

(* the encoder touches only its own bytes: storing the returned bytes at any
   offset of any buffer leaves everything before and after unchanged *)
Theorem C01_splitfull_frame : forall (buf : list N) off bs,
  (off + length bs <= length buf)%nat ->
  length (store buf off bs) = length buf /\
  firstn off (store buf off bs) = firstn off buf /\
  skipn (off + length bs) (store buf off bs) = skipn (off + length bs) buf /\
  firstn (length bs) (skipn off (store buf off bs)) = bs.
Proof. exact sfl_store_frame. Qed.
Print Assumptions C01_splitfull_frame.

(* 0 really is outside NoZero's domain: its "encoding" is the type byte 0xff,
   whose width field 15 makes the decoder's external read undefined *)
Example C01_splitfullnz_zero_not_representable :
  sfnz_put 0 = [255] /\ sfnz_get [255] = None.
Proof. vm_compute. split; reflexivity. Qed.

(* non-vacuity: values on both sides of level boundaries *)
Example C01_splitfull_examples :
  sf_put 63 = [63] /\ sf_put 64 = [64; 1] /\ sf_put 16447 = [128; 0; 1] /\
  sf_put 4210750 = [194; 1; 0] /\ sf_put 4276285 = [195; 0; 0; 1] /\
  sf_get [200; 255; 255; 255; 255; 255; 255; 255; 255] = Some (9, 4210748) /\
  sfnz_put 1 = [0] /\ sfnz_put 64 = [63] /\ sfnz_put 65 = [64; 1] /\
  sfnz_put 18446744073709551615 = [200; 193; 191; 191; 255; 255; 255; 255; 255] /\
  sf_rev_put_reversed 4276285 = ([0; 0; 1; 195], 3%nat).
Proof. vm_compute. repeat split; reflexivity. Qed.
