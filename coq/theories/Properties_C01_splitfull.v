(* Properties_C01_splitfull.v — placeholder, filled in below *)
Require Import VV.Base VV.SplitFull.
