(* TaggedSrcPut.v — the regenerated renderings of varintTaggedPut64,
   varintTaggedPut64FixedWidth and varintTaggedPutVarint32 (coq/gen/Src_tagged.v)
   write exactly the bytes of the hand-written model, for every 64-bit value and
   every destination buffer that is long enough, and write nothing else. *)
Require Import VV.Base VV.BaseProofs VV.Tagged VV.TaggedProofs VV.CSem VV.CSemProofs VV.TaggedSrcLen.
Require Import VVgen.Src_tagged.
From Coq Require Import Lia ZifyBool ZifyN ZifyNat.
Local Open Scope Z_scope.
Ltac Zify.zify_post_hook ::= Z.div_mod_to_equations.

(* after c_run: (ret, upd (upd buf 0 a) 1 b …) = (len, store buf 0 [a'; b'; …]) *)
Ltac finish_put :=
  try land_to_mod; cbn [app]; rewrite <- upds_store by (cbn [length]; lia); cbn [upds];
  apply cok_pair_eq; [cbn [length]; lia|];
  repeat (apply upd_eq3; [|lia|lia]); reflexivity.

Lemma src_varintTaggedPut64_is_model : forall buf x, 0 <= x < 18446744073709551616 ->
  (N.to_nat (tagged_len (Z.to_N x)) <= length buf)%nat ->
  src_varintTaggedPut64 buf x =
  COk (Z.of_N (tagged_len (Z.to_N x)), store buf 0 (tagged_put64 (Z.to_N x))).
Proof.
  intros buf x Hx Hlen. split_classes x.
  all: rewrite L in *; clear L.
  all: unfold src_varintTaggedPut64, tagged_put64, write32, u32, u8, shr; cbv zeta.
  all: c_run; finish_put.
Qed.

Lemma tagged_put64_fixed_none x w : (w = 0 \/ 9 < w)%N -> tagged_put64_fixed x w = None.
Proof.
  intro H. destruct w as [|p]; [reflexivity|].
  do 4 (try match goal with q : positive |- _ => destruct q end); try reflexivity; exfalso; lia.
Qed.

Lemma src_varintTaggedPut64FixedWidth_is_model : forall buf x w,
  0 <= x < 18446744073709551616 -> 0 <= w <= 4294967295 ->
  (1 <= w <= 9 -> (Z.to_nat w <= length buf)%nat) ->
  src_varintTaggedPut64FixedWidth buf x w =
  COk (match tagged_put64_fixed (Z.to_N x) (Z.to_N w) with
       | Some bs => (Z.of_nat (length bs), store buf 0 bs)
       | None => (0, buf)
       end).
Proof.
  intros buf x w Hx Hw Hlen.
  assert (C : w = 1 \/ w = 2 \/ w = 3 \/ w = 4 \/ w = 5 \/ w = 6 \/ w = 7 \/ w = 8 \/ w = 9 \/ ~ (1 <= w <= 9))
    by lia.
  repeat (destruct C as [C|C]).
  10:{ rewrite tagged_put64_fixed_none by lia.
       unfold src_varintTaggedPut64FixedWidth. c_run. apply cok_pair_eq; [lia|reflexivity]. }
  all: subst w; cbn [Z.to_N]; specialize (Hlen ltac:(lia)).
  all: unfold src_varintTaggedPut64FixedWidth, tagged_put64_fixed, write32, sub64, u32, u8, shr; cbv beta iota zeta.
  all: c_run; finish_put.
Qed.

Lemma src_varintTaggedPutVarint32_is_model : forall buf v, 0 <= v <= 4294967295 ->
  (N.to_nat (tagged_len (Z.to_N v)) <= length buf)%nat ->
  src_varintTaggedPutVarint32 buf v =
  COk (Z.of_N (tagged_len (Z.to_N v)), store buf 0 (tagged_put32 (Z.to_N v))).
Proof.
  intros buf v Hv Hlen. unfold src_varintTaggedPutVarint32, tagged_put32. c_run.
  rewrite src_varintTaggedPut64_is_model by (try assumption; lia). reflexivity.
Qed.
