(* DfgLemmas.v — lemmas shared by the delta / FOR / group proofs: list
   surgery with exact lengths, the external-varint pieces of Delta.v. *)
Require Import VV.Base VV.BaseProofs VV.Tagged VV.TaggedProofs VV.Delta.
From Coq Require Import Lia ZifyBool ZifyN ZifyNat.
Local Open Scope N_scope.
Ltac Zify.zify_post_hook ::= Z.div_mod_to_equations.

(* ---------- lists ---------- *)
Lemma skipn_app_exact {A} (a b : list A) n : length a = n -> skipn n (a ++ b) = b.
Proof.
  intros <-. rewrite skipn_app, skipn_all, Nat.sub_diag. reflexivity.
Qed.

Lemma firstn_app_exact {A} (a b : list A) n : length a = n -> firstn n (a ++ b) = a.
Proof.
  intros <-. rewrite firstn_app, firstn_all, Nat.sub_diag. cbn [firstn]. apply app_nil_r.
Qed.

Lemma byte_at_app_l z tl i : (i < length z)%nat -> byte_at (z ++ tl) i = byte_at z i.
Proof. intro H. unfold byte_at. apply app_nth1. exact H. Qed.

Lemma byte_at_cons_S b z i : byte_at (b :: z) (S i) = byte_at z i.
Proof. reflexivity. Qed.

Lemma byte_at_cons_0 b z : byte_at (b :: z) 0 = b.
Proof. reflexivity. Qed.

(* ---------- widths ---------- *)
Lemma dfg_width_ok_iff w : dfg_width_ok w = true <-> 1 <= w <= 8.
Proof. unfold dfg_width_ok. lia. Qed.

Lemma ext_width_ok v : v < 18446744073709551616 -> dfg_width_ok (N.of_nat (ext_width v)) = true.
Proof.
  intro H. destruct (ext_width_bounds v H) as (A & _ & _). apply dfg_width_ok_iff. lia.
Qed.

Lemma ext_width_lt v : v < 18446744073709551616 -> v < 256 ^ N.of_nat (ext_width v).
Proof. intro H. destruct (ext_width_bounds v H) as (_ & B & _). exact B. Qed.

Lemma ext_width_range v : v < 18446744073709551616 -> (1 <= ext_width v <= 8)%nat.
Proof. intro H. destruct (ext_width_bounds v H) as (A & _ & _). exact A. Qed.

(* ---------- external put / get ---------- *)
Lemma of_le_firstn_le_bytes k v tl : of_le (firstn k (le_bytes k v ++ tl)) = v mod 256 ^ N.of_nat k.
Proof.
  rewrite firstn_app_exact by apply length_le_bytes. apply of_le_le_bytes.
Qed.

Lemma dfg_ext_get_le_bytes v w tl : dfg_width_ok w = true ->
  dfg_ext_get (le_bytes (N.to_nat w) v ++ tl) w = Some (v mod 256 ^ w).
Proof.
  intro H. unfold dfg_ext_get. rewrite H, of_le_firstn_le_bytes, N2Nat.id. reflexivity.
Qed.

Lemma dfg_ext_get_put v w tl : dfg_width_ok w = true -> v < 256 ^ w ->
  dfg_ext_get (le_bytes (N.to_nat w) v ++ tl) w = Some v.
Proof.
  intros H Hv. rewrite dfg_ext_get_le_bytes by exact H. rewrite N.mod_small by exact Hv. reflexivity.
Qed.

Lemma land255 x : N.land x 255 = x mod 256.
Proof. change 255 with (N.ones 8). rewrite N.land_ones. reflexivity. Qed.

(* the Quick_ macro writes the same bytes as the function *)
Lemma dfg_ext_put_quick_eq v w : dfg_width_ok w = true ->
  dfg_ext_put_quick v w = Some (le_bytes (N.to_nat w) v).
Proof.
  intro H. apply dfg_width_ok_iff in H.
  assert (C : w = 1 \/ w = 2 \/ w = 3 \/ (4 <= w <= 8)) by lia.
  destruct C as [->|[->|[->|C]]].
  - reflexivity.
  - unfold dfg_ext_put_quick. rewrite !land255. unfold shr. reflexivity.
  - unfold dfg_ext_put_quick. rewrite !land255. unfold shr.
    change (N.to_nat 3) with 3%nat. cbn [le_bytes]. do 3 f_equal.
    f_equal. rewrite N.div_div by lia. reflexivity.
  - unfold dfg_ext_put_quick, dfg_ext_put.
    destruct w as [|p]; [lia|].
    destruct p as [[[|q|]|[|q|]|]|[[|q|]|[|q|]|]|]; try lia;
      (replace (dfg_width_ok _) with true by (symmetry; apply dfg_width_ok_iff; lia)); reflexivity.
Qed.

Lemma lor_shl8 a b : b < 256 -> N.lor (a * 256) b = a * 256 + b.
Proof. intro H. change 256 with (2 ^ 8). apply lor_add_disjoint. exact H. Qed.

(* the Quick_ read macro returns what the function returns, on bytes *)
Lemma dfg_ext_get_quick_le_bytes v w tl : dfg_width_ok w = true ->
  dfg_ext_get_quick (le_bytes (N.to_nat w) v ++ tl) w = Some (v mod 256 ^ w).
Proof.
  intro H. pose proof H as H'. apply dfg_width_ok_iff in H'.
  assert (C : w = 1 \/ w = 2 \/ w = 3 \/ (4 <= w <= 8)) by lia.
  destruct C as [->|[->|[->|C]]].
  - unfold dfg_ext_get_quick. change (N.to_nat 1) with 1%nat. cbn [le_bytes app byte_at nth].
    f_equal.
  - unfold dfg_ext_get_quick. change (N.to_nat 2) with 2%nat. cbn [le_bytes app byte_at nth].
    f_equal. unfold shl64. change (2 ^ 8) with 256. change (256 ^ 2) with 65536.
    rewrite (N.mod_small (_ * 256)) by lia. rewrite lor_shl8 by lia. lia.
  - unfold dfg_ext_get_quick. change (N.to_nat 3) with 3%nat. cbn [le_bytes app byte_at nth].
    f_equal. change (256 ^ 3) with 16777216.
    pose proof (be3 ((v / 256 / 256) mod 256) ((v / 256) mod 256) (v mod 256)) as B.
    unfold bor in B. rewrite B by (apply N.mod_lt; lia). lia.
  - replace (dfg_ext_get_quick (le_bytes (N.to_nat w) v ++ tl) w)
      with (dfg_ext_get (le_bytes (N.to_nat w) v ++ tl) w).
    + apply dfg_ext_get_le_bytes. exact H.
    + unfold dfg_ext_get_quick.
      destruct w as [|p]; [lia|].
      destruct p as [[[|q|]|[|q|]|]|[[|q|]|[|q|]|]|]; try lia; reflexivity.
Qed.

Lemma dfg_ext_get_quick_put v w tl : dfg_width_ok w = true -> v < 256 ^ w ->
  dfg_ext_get_quick (le_bytes (N.to_nat w) v ++ tl) w = Some v.
Proof.
  intros H Hv. rewrite dfg_ext_get_quick_le_bytes by exact H.
  rewrite N.mod_small by exact Hv. reflexivity.
Qed.

(* whenever the quick reader is defined the width is a supported one *)
Lemma dfg_ext_get_quick_some p w v : dfg_ext_get_quick p w = Some v -> dfg_width_ok w = true.
Proof.
  destruct (dfg_width_ok w) eqn:E; [reflexivity|].
  intro H. exfalso. unfold dfg_ext_get_quick in H.
  assert (G : dfg_ext_get p w = None) by (unfold dfg_ext_get; rewrite E; reflexivity).
  assert (W : w <> 1 /\ w <> 2 /\ w <> 3) by (unfold dfg_width_ok in E; lia).
  destruct w as [|q]; [congruence|].
  destruct q as [[[|q|]|[|q|]|]|[[|q|]|[|q|]|]|]; try lia; congruence.
Qed.

Lemma dfg_ext_get_some p w v : dfg_ext_get p w = Some v -> dfg_width_ok w = true.
Proof. unfold dfg_ext_get. destruct (dfg_width_ok w); [reflexivity|discriminate]. Qed.
