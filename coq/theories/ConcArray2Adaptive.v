(* ConcArray2Adaptive.v — C17 instances for the adaptive container
   (Adaptive.v): varintAdaptiveEncode / varintAdaptiveEncodeWith /
   varintAdaptiveDecode as concurrent calls on shared read-only inputs with
   caller-supplied outputs.

   Footprints.  Encode: whatever the analysis selects, the bytes written stay
   inside varintAdaptiveMaxSize(count) (C03_adaptive_encode_bound,
   C03_adaptive_encode_with_bound), also when the call reports failure.
   Decode: at most maxCount values are stored, whatever the bytes
   (C13_adaptive_decode_cap_any_input). *)
Require Import VV.Conc VV.ConcProofs VV.ConcCodec VV.ConcCodec2 VV.ConcArray.
Require Import VV.Base VV.BaseProofs VV.PFOR VV.Adaptive VV.AdaptiveLemmas VV.AdaptiveCapProofs VV.AdaptiveTheorems.
From Coq Require Import List NArith Arith Lia Bool ZifyBool ZifyN ZifyNat.
Import ListNotations.
Local Open Scope N_scope.

(* what a finished encoder call left and returned: the bytes written, and
   [1; return value; meta.encodingType] / [0] (returned 0, *meta untouched) /
   [2] (undefined in C: FOR forced on an empty array) *)
Definition adp_eres_out (r : adp_eres) : list N * list N :=
  match r with
  | AEOk b m => (b, [1; am_size m; am_type m])
  | AEFail b => (b, [0])
  | AEUB => ([], [2])
  end.

(* ---------------- varintAdaptiveEncode(dst, values, count, &meta) ----------------
   values: n uint64_t cells at src (shared) *)
Definition adaptive_enc_fn (vs : list N) : list N * list N := adp_eres_out (adp_encode (map u64 vs)).

(* varintAdaptiveEncodeWith(dst, values, count, encodingType, &meta) *)
Definition adaptive_enc_with_fn (e : N) (vs : list N) : list N * list N :=
  adp_eres_out (adp_encode_with (map u64 vs) e).

Lemma adp_eres_out_written r :
  fst (adp_eres_out r) = adp_written r.
Proof. destruct r; reflexivity. Qed.

Theorem adaptive_encode_threads_safe (ps : list io) (m0 : mem) :
  (forall p, In p ps -> N.of_nat (io_n p) < 4294967296) ->
  (forall i j pi pj, i <> j -> nth_error ps i = Some pi -> nth_error ps j = Some pj ->
     forall l, in_range (io_dst pj) (N.to_nat (adp_max_size (N.of_nat (io_n pj)))) l ->
       ~ in_range (io_dst pi) (N.to_nat (adp_max_size (N.of_nat (io_n pi)))) l /\
       ~ in_range (io_src pi) (io_n pi) l) ->
  forall sched,
  let ths := map (fun p => prog1 (io_src p) (io_n p) (io_dst p) adaptive_enc_fn) ps in
  ~ races (snd (crun sched (m0, ths))) /\
  forall i p r, nth_error ps i = Some p ->
    nth_error (snd (crun sched (m0, ths))) i = Some (Ret r) ->
    let res := adaptive_enc_fn (peek m0 (io_src p) (io_n p)) in
    r = snd res /\
    forall j, (j < length (fst res))%nat ->
      fst (crun sched (m0, ths)) (io_dst p + N.of_nat j) = nth j (fst res) 0.
Proof.
  intros V AP sched.
  refine (family1_safe io io_src io_n io_dst
            (fun p => N.to_nat (adp_max_size (N.of_nat (io_n p))))
            (fun _ => adaptive_enc_fn) ps m0 _ AP sched).
  intros p Hp bs Hl. unfold adaptive_enc_fn. rewrite adp_eres_out_written.
  pose proof (adp_encode_bound (map u64 bs) (map_u64_ok bs)) as H.
  rewrite map_length, Hl in H. specialize (H (V p Hp)). lia.
Qed.

Theorem adaptive_encode_with_threads_safe (ps : list (io * N)) (m0 : mem) :
  (forall p, In p ps -> N.of_nat (io_n (fst p)) < 4294967296) ->
  (forall i j pi pj, i <> j -> nth_error ps i = Some pi -> nth_error ps j = Some pj ->
     forall l, in_range (io_dst (fst pj)) (N.to_nat (adp_max_size (N.of_nat (io_n (fst pj))))) l ->
       ~ in_range (io_dst (fst pi)) (N.to_nat (adp_max_size (N.of_nat (io_n (fst pi))))) l /\
       ~ in_range (io_src (fst pi)) (io_n (fst pi)) l) ->
  forall sched,
  let ths := map (fun p => prog1 (io_src (fst p)) (io_n (fst p)) (io_dst (fst p)) (adaptive_enc_with_fn (snd p))) ps in
  ~ races (snd (crun sched (m0, ths))) /\
  forall i p r, nth_error ps i = Some p ->
    nth_error (snd (crun sched (m0, ths))) i = Some (Ret r) ->
    let res := adaptive_enc_with_fn (snd p) (peek m0 (io_src (fst p)) (io_n (fst p))) in
    r = snd res /\
    forall j, (j < length (fst res))%nat ->
      fst (crun sched (m0, ths)) (io_dst (fst p) + N.of_nat j) = nth j (fst res) 0.
Proof.
  intros V AP sched.
  refine (family1_safe (io * N) (fun p => io_src (fst p)) (fun p => io_n (fst p))
            (fun p => io_dst (fst p)) (fun p => N.to_nat (adp_max_size (N.of_nat (io_n (fst p)))))
            (fun p => adaptive_enc_with_fn (snd p)) ps m0 _ AP sched).
  intros p Hp bs Hl. unfold adaptive_enc_with_fn. rewrite adp_eres_out_written.
  pose proof (adp_encode_with_bound (map u64 bs) (snd p) (map_u64_ok bs)) as H.
  rewrite map_length, Hl in H. specialize (H (V p Hp)). lia.
Qed.

(* ---------------- varintAdaptiveDecode(src, values, maxCount, &meta) ----------------
   the encoding: n byte cells at src (shared); output: at most maxCount
   uint64_t cells at dst; result [1; return value], or [2] (a read at or past
   the end of the n bytes), [0] (undefined in an inner decoder), [3] (model out
   of fuel) — then nothing is modelled as written *)
Definition adaptive_dec_fn (cap : N) (bs : list N) : list N * list N :=
  match adp_decode (map u8 bs) cap with
  | ADOk r stores _ => (stores, [1; r])
  | ADOob => ([], [2])
  | ADUB => ([], [0])
  | ADFuel => ([], [3])
  end.

Theorem adaptive_decode_threads_safe (ps : list (io * N)) (m0 : mem) :
  (forall i j pi pj, i <> j -> nth_error ps i = Some pi -> nth_error ps j = Some pj ->
     forall l, in_range (io_dst (fst pj)) (N.to_nat (snd pj)) l ->
       ~ in_range (io_dst (fst pi)) (N.to_nat (snd pi)) l /\
       ~ in_range (io_src (fst pi)) (io_n (fst pi)) l) ->
  forall sched,
  let ths := map (fun p => prog1 (io_src (fst p)) (io_n (fst p)) (io_dst (fst p)) (adaptive_dec_fn (snd p))) ps in
  ~ races (snd (crun sched (m0, ths))) /\
  forall i p r, nth_error ps i = Some p ->
    nth_error (snd (crun sched (m0, ths))) i = Some (Ret r) ->
    let res := adaptive_dec_fn (snd p) (peek m0 (io_src (fst p)) (io_n (fst p))) in
    r = snd res /\
    forall j, (j < length (fst res))%nat ->
      fst (crun sched (m0, ths)) (io_dst (fst p) + N.of_nat j) = nth j (fst res) 0.
Proof.
  intros AP sched.
  refine (family1_safe (io * N) (fun p => io_src (fst p)) (fun p => io_n (fst p))
            (fun p => io_dst (fst p)) (fun p => N.to_nat (snd p))
            (fun p => adaptive_dec_fn (snd p)) ps m0 _ AP sched).
  intros p _ bs _. unfold adaptive_dec_fn.
  destruct (adp_decode (map u8 bs) (snd p)) as [r stores pm| | |] eqn:E; cbn [fst length]; try lia.
  destruct (adp_decode_cap_any _ _ _ _ _ E) as [C _]. lia.
Qed.
