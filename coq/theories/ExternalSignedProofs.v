(* ExternalSignedProofs.v — varintPrepareSigned_/varintRestoreSigned_ for the
   24/40/48/56-bit fields: sign-magnitude in the field, restored exactly for
   every value representable there. *)
Require Import VV.Base VV.BaseProofs VV.External VV.ExternalLemmas.
From Coq Require Import Lia ZifyBool ZifyN ZifyNat Arith.
Local Open Scope N_scope.
Ltac Zify.zify_post_hook ::= Z.div_mod_to_equations.

Lemma of_s64_small z : (0 <= z < 18446744073709551616)%Z -> of_s64 z = Z.to_N z.
Proof. intro H. unfold of_s64. rewrite Z.mod_small by lia. reflexivity. Qed.

Lemma shl64_1 k : k <= 63 -> shl64 1 k = 2 ^ k.
Proof.
  intro H. unfold shl64. rewrite N.mul_1_l. apply N.mod_small.
  change 18446744073709551616 with (2 ^ 64). apply N.pow_lt_mono_r; lia.
Qed.

Lemma to_sbits_small bits x : 1 <= bits -> x < 2 ^ (bits - 1) -> to_sbits bits x = Z.of_N x.
Proof.
  intros Hb Hx. unfold to_sbits. cbv zeta.
  assert (2 ^ (bits - 1) <= 2 ^ bits) by (apply N.pow_le_mono_r; lia).
  rewrite N.mod_small by lia.
  destruct (x <? 2 ^ (bits - 1)) eqn:E; [reflexivity|lia].
Qed.

Lemma land_shiftr_1 r k : (0 <= k)%Z -> Z.land (Z.shiftr r k) 1 = ((r / 2 ^ k) mod 2)%Z.
Proof.
  intro Hk. rewrite Z.shiftr_div_pow2 by exact Hk.
  change 1%Z with (Z.ones 1). rewrite Z.land_ones by lia. reflexivity.
Qed.

(* the xor with the sign bit, on a non-negative word below 2^k: sets bit k *)
Lemma xor_set bits k a : 1 <= bits <= 64 -> k + 2 <= bits -> (0 <= a < Z.of_N (2 ^ k))%Z ->
  xor_assign_ull bits a k = (a + Z.of_N (2 ^ k))%Z.
Proof.
  intros Hb Hk Ha. unfold xor_assign_ull.
  assert (P : 2 ^ k < 2 ^ (bits - 1)) by (apply N.pow_lt_mono_r; lia).
  assert (Q : 2 ^ (bits - 1) <= 2 ^ 63) by (apply N.pow_le_mono_r; lia).
  change (2 ^ 63) with 9223372036854775808 in Q.
  rewrite of_s64_small by lia. rewrite shl64_1 by lia.
  rewrite lxor_pow2_small by lia.
  rewrite to_sbits_small; [lia|lia|].
  assert (2 * 2 ^ k <= 2 ^ (bits - 1)).
  { replace (bits - 1) with (N.succ k + (bits - 2 - k)) by lia.
    rewrite N.pow_add_r, N.pow_succ_r'.
    assert (1 <= 2 ^ (bits - 2 - k)) by (pose proof (N.pow_nonzero 2 (bits - 2 - k)); lia).
    nia. }
  lia.
Qed.

(* ... and clears it again *)
Lemma xor_clear bits k a : 1 <= bits <= 64 -> k + 2 <= bits -> (0 <= a < Z.of_N (2 ^ k))%Z ->
  xor_assign_ull bits (a + Z.of_N (2 ^ k))%Z k = a.
Proof.
  intros Hb Hk Ha. unfold xor_assign_ull.
  assert (P : 2 ^ k < 2 ^ (bits - 1)) by (apply N.pow_lt_mono_r; lia).
  assert (Q : 2 ^ (bits - 1) <= 2 ^ 63) by (apply N.pow_le_mono_r; lia).
  change (2 ^ 63) with 9223372036854775808 in Q.
  assert (2 * 2 ^ k <= 2 ^ (bits - 1)).
  { replace (bits - 1) with (N.succ k + (bits - 2 - k)) by lia.
    rewrite N.pow_add_r, N.pow_succ_r'.
    assert (1 <= 2 ^ (bits - 2 - k)) by (pose proof (N.pow_nonzero 2 (bits - 2 - k)); lia).
    nia. }
  rewrite of_s64_small by lia. rewrite shl64_1 by lia.
  replace (Z.to_N (a + Z.of_N (2 ^ k))) with (Z.to_N a + 2 ^ k) by lia.
  rewrite lxor_pow2_cancel by lia.
  rewrite to_sbits_small; lia.
Qed.

(* generic statement for a field of w bytes inside a `bits`-bit signed word *)
Lemma signed_restore_gen bits w v :
  1 <= bits <= 64 -> 1 <= w -> 8 * w + 1 <= bits ->
  (- Z.of_N (2 ^ (8 * w - 1)) < v < Z.of_N (2 ^ (8 * w - 1)))%Z ->
  exists p, prepare_signed bits w v = Some p /\
            (0 <= p < Z.of_N (2 ^ (8 * w)))%Z /\
            restore_signed bits w p = Some v.
Proof.
  intros Hb Hw Hfit Hv.
  set (k := 8 * w - 1) in *.
  assert (Ek : sign_bit_offset w = k) by (unfold sign_bit_offset, k; lia).
  assert (E2 : 2 ^ (8 * w) = 2 * 2 ^ k).
  { replace (8 * w) with (N.succ k) by (unfold k; lia). apply N.pow_succ_r'. }
  assert (P : 2 ^ k < 2 ^ (bits - 1)) by (apply N.pow_lt_mono_r; unfold k; lia).
  assert (Kpos : 0 < 2 ^ k) by (apply N.neq_0_lt_0, N.pow_nonzero; lia).
  assert (Hk2 : k + 2 <= bits) by (unfold k; lia).
  clearbody k.
  unfold prepare_signed, restore_signed. cbv zeta. rewrite !Ek.
  destruct (v <? 0)%Z eqn:Eneg.
  - (* negative: stored as 2^k + |v| *)
    destruct (v =? min_sbits bits)%Z eqn:Emin; [unfold min_sbits in Emin; lia|].
    rewrite xor_set by lia.
    eexists. split; [reflexivity|]. split; [lia|].
    rewrite land_shiftr_1 by lia.
    replace ((- v + Z.of_N (2 ^ k)) / 2 ^ Z.of_N k)%Z with 1%Z.
    2:{ change 2%Z with (Z.of_N 2). rewrite <- N2Z.inj_pow.
        apply Z.div_unique with (r := (- v)%Z); lia. }
    change (negb ((1 mod 2 =? 0)%Z)) with true. cbv iota.
    rewrite xor_clear by lia.
    destruct (- v =? min_sbits bits)%Z eqn:E2m; [unfold min_sbits in E2m; lia|].
    f_equal. lia.
  - (* non-negative: stored as is, sign bit clear *)
    eexists. split; [reflexivity|]. split; [lia|].
    rewrite land_shiftr_1 by lia.
    replace (v / 2 ^ Z.of_N k)%Z with 0%Z.
    2:{ symmetry. apply Z.div_small. change 2%Z with (Z.of_N 2). rewrite <- N2Z.inj_pow. lia. }
    reflexivity.
Qed.

(* the four instances of the header: 32->24, 64->40, 64->48, 64->56 *)
Lemma signed_restore w v : (w = 3 \/ w = 5 \/ w = 6 \/ w = 7)%nat ->
  (- Z.of_N (2 ^ (8 * N.of_nat w - 1)) < v < Z.of_N (2 ^ (8 * N.of_nat w - 1)))%Z ->
  exists p, prepare_w w v = Some p /\
            (0 <= p < Z.of_N (2 ^ (8 * N.of_nat w)))%Z /\
            restore_w w p = Some v.
Proof.
  intros [ -> | [ -> | [ -> | -> ] ] ] Hv; unfold prepare_w, restore_w,
    prepare_signed_32to24, restore_signed_24to32, prepare_signed_64to40, restore_signed_40to64,
    prepare_signed_64to48, restore_signed_48to64, prepare_signed_64to56, restore_signed_56to64.
  - apply (signed_restore_gen 32 3 v); [lia|lia|lia|exact Hv].
  - apply (signed_restore_gen 64 5 v); [lia|lia|lia|exact Hv].
  - apply (signed_restore_gen 64 6 v); [lia|lia|lia|exact Hv].
  - apply (signed_restore_gen 64 7 v); [lia|lia|lia|exact Hv].
Qed.

(* the bound is tight: -(2^(8w-1)) itself is mapped to 0 and comes back as 0 *)
Lemma signed_restore_tight :
  prepare_w 3 (-8388608) = Some 0%Z /\ restore_w 3 0 = Some 0%Z /\
  prepare_w 7 (-36028797018963968) = Some 0%Z /\ restore_w 7 0 = Some 0%Z.
Proof. vm_compute. repeat split; reflexivity. Qed.
