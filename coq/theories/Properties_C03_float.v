(* Properties_C03_float.v — property C03 for the float encoder: it never writes
   more than varintFloatMaxEncodedSize(count, precision). *)
Require Import VV.Base VV.Float VV.FloatSizeProofs.
Local Open Scope N_scope.

(* fl_encode returns the bytes written (so its length is both the extent of the
   writes and the C return value, see C16_float_return_is_length);
   fl_max_encoded_size is the header's sizing function in size_t arithmetic.
   Every array of fewer than 2^58 doubles (no size_t wrap in the bound), every
   precision and mode argument. *)
Theorem C03_float_bound : forall ds prec mode,
  Forall (fun d => d < 18446744073709551616) ds ->
  N.of_nat (length ds) < 288230376151711744 ->
  N.of_nat (length (fl_encode ds prec mode)) <= fl_max_encoded_size (N.of_nat (length ds)) prec.
Proof. exact fl_encode_bound. Qed.
Print Assumptions C03_float_bound.

(* the automatic variant is sized by the caller for FULL, the largest mode; it
   also fits the bound of the mode it selects *)
Theorem C03_float_auto_bound : forall ds err mode,
  Forall (fun d => d < 18446744073709551616) ds ->
  N.of_nat (length ds) < 288230376151711744 ->
  N.of_nat (length (snd (fl_encode_auto ds err mode)))
    <= fl_max_encoded_size (N.of_nat (length ds)) (fst (fl_encode_auto ds err mode)).
Proof. exact (fun ds err mode => fl_encode_bound ds (fl_auto_precision err) mode). Qed.
Print Assumptions C03_float_auto_bound.

Example C03_float_example :
  length (fl_encode [9218868437227405317; 1; 4611686018426937544] 0 2) = 31%nat /\
  fl_max_encoded_size 3 0 = 77.
Proof. vm_compute. split; reflexivity. Qed.
