(* Properties_C09_packed.v — property C09 (packed bit arrays), module packed.
   Nothing but statements closed by `exact`, each followed by Print Assumptions. *)
Require Import VV.Base VV.Packed.
Local Open Scope N_scope.

(* the example of the header's comment: 3048 as a 12-bit value across two uint8_t slots *)
Example C09_example_3048 :
  packed_set (mk_pcfg 12 8 (Some 16) 16 16 false) [0; 0; 0] 0 3048 = ([232; 11; 0], [0; 1]).
Proof. vm_compute. reflexivity. Qed.
