(* Properties_C09_packed.v — property C09 (packed bit arrays), module packed
   (src/varintPacked.h as repaired by the F25 commit).  Nothing but statements
   closed by `exact`, each followed by Print Assumptions.
   Parameters of an instantiation: w = PACK_STORAGE_BITS, S = bits of the slot
   type, P = bits of the micro-promotion type (None = not defined), V = bits of
   the value type, L = bits of the length type, compact = PACK_STORAGE_COMPACT.
   An array is the list a of its slots; storage bit n is bit n mod S of slot
   n / S; every function also returns the slot indices it reads or writes. *)
Require Import VV.Base VV.Packed VV.PackedSpec VV.PackedRun VV.PackedTheorems.
From Coq Require Import Sorted Permutation.
Local Open Scope N_scope.

(* writing element i makes a read of element i return exactly the written value *)
Theorem C09_packed_get_set_same : forall w S P V L compact,
  1 <= w -> w <= 32 -> (S = 8 \/ S = 16 \/ S = 32 \/ S = 64) -> w <= S + N.gcd w S -> w <= V ->
  (forall p, P = Some p -> S <= p /\ w <= p) ->
  forall a i v, let c := (mk_pcfg w S P V L compact) in
  Forall (fun s => s < 2 ^ S) a -> (i * w + w - 1) / S < N.of_nat (length a) -> i < 4294967296 -> v < 2 ^ w ->
  fst (packed_get c (fst (packed_set c a i v)) i) = v.
Proof. exact packed_get_set_same. Qed.
Print Assumptions C09_packed_get_set_same.

(* ... and leaves every other element unchanged *)
Theorem C09_packed_get_set_other : forall w S P V L compact,
  1 <= w -> w <= 32 -> (S = 8 \/ S = 16 \/ S = 32 \/ S = 64) -> w <= S + N.gcd w S -> w <= V ->
  (forall p, P = Some p -> S <= p /\ w <= p) ->
  forall a i j v, let c := (mk_pcfg w S P V L compact) in
  Forall (fun s => s < 2 ^ S) a -> (i * w + w - 1) / S < N.of_nat (length a) -> i < 4294967296 -> j < 4294967296 -> v < 2 ^ w -> j <> i ->
  fst (packed_get c (fst (packed_set c a i v)) j) = fst (packed_get c a j).
Proof. exact packed_get_set_other. Qed.
Print Assumptions C09_packed_get_set_other.

(* bit by bit: the bits of element i become the value, every other storage bit (of the array or beyond it) is unchanged, the array keeps its length and its slots stay slot-sized *)
Theorem C09_packed_set_bits : forall w S P V L compact,
  1 <= w -> w <= 32 -> (S = 8 \/ S = 16 \/ S = 32 \/ S = 64) -> w <= S + N.gcd w S -> w <= V ->
  (forall p, P = Some p -> S <= p /\ w <= p) ->
  forall a i v, let c := (mk_pcfg w S P V L compact) in
  Forall (fun s => s < 2 ^ S) a -> (i * w + w - 1) / S < N.of_nat (length a) -> i < 4294967296 -> v < 2 ^ w ->
  let a' := fst (packed_set c a i v) in
  (forall j, j < w -> N.testbit (slot_at a' ((i * w + j) / S)) ((i * w + j) mod S) = N.testbit v j) /\
  (forall n, ~ (i * w <= n < i * w + w) -> N.testbit (slot_at a' (n / S)) (n mod S) = N.testbit (slot_at a (n / S)) (n mod S)) /\
  length a' = length a /\ Forall (fun s => s < 2 ^ S) a'.
Proof. exact packed_set_bits. Qed.
Print Assumptions C09_packed_set_bits.

(* a read returns exactly the w storage bits of the element *)
Theorem C09_packed_get_bits : forall w S P V L compact,
  1 <= w -> w <= 32 -> (S = 8 \/ S = 16 \/ S = 32 \/ S = 64) -> w <= S + N.gcd w S -> w <= V ->
  (forall p, P = Some p -> S <= p /\ w <= p) ->
  forall a i j, let c := (mk_pcfg w S P V L compact) in
  Forall (fun s => s < 2 ^ S) a -> i < 4294967296 ->
  N.testbit (fst (packed_get c a i)) j = (j <? w) && N.testbit (slot_at a ((i * w + j) / S)) ((i * w + j) mod S).
Proof. exact packed_get_bits. Qed.
Print Assumptions C09_packed_get_bits.

(* Set accesses only the storage slots element i occupies *)
Theorem C09_packed_set_touched : forall w S P V L compact,
  1 <= w -> w <= 32 -> (S = 8 \/ S = 16 \/ S = 32 \/ S = 64) -> w <= S + N.gcd w S -> w <= V ->
  (forall p, P = Some p -> S <= p /\ w <= p) ->
  forall a i v k, let c := (mk_pcfg w S P V L compact) in
  i < 4294967296 -> In k (snd (packed_set c a i v)) ->
  (i * w) / S <= k <= (i * w + w - 1) / S.
Proof. exact packed_set_touched. Qed.
Print Assumptions C09_packed_set_touched.

(* Get accesses only the storage slots element i occupies *)
Theorem C09_packed_get_touched : forall w S P V L compact,
  1 <= w -> w <= 32 -> (S = 8 \/ S = 16 \/ S = 32 \/ S = 64) -> w <= S + N.gcd w S -> w <= V ->
  (forall p, P = Some p -> S <= p /\ w <= p) ->
  forall a i k, let c := (mk_pcfg w S P V L compact) in
  i < 4294967296 -> In k (snd (packed_get c a i)) ->
  (i * w) / S <= k <= (i * w + w - 1) / S.
Proof. exact packed_get_touched. Qed.
Print Assumptions C09_packed_get_touched.

(* no call evaluates a shift by the width of the shifted type *)
Theorem C09_packed_no_shift_ub : forall w S P V L compact,
  1 <= w -> w <= 32 -> (S = 8 \/ S = 16 \/ S = 32 \/ S = 64) -> w <= S + N.gcd w S -> w <= V ->
  (forall p, P = Some p -> S <= p /\ w <= p) ->
  forall i, i < 4294967296 -> packed_shift_ub (mk_pcfg w S P V L compact) i = false.
Proof. exact packed_no_shift_ub. Qed.
Print Assumptions C09_packed_no_shift_ub.

(* increment (non-negative, result in range) sets element i to the sum and modifies nothing else; only the element's slots are accessed *)
Theorem C09_packed_incr : forall w S P V L compact,
  1 <= w -> w <= 32 -> (S = 8 \/ S = 16 \/ S = 32 \/ S = 64) -> w <= S + N.gcd w S -> w <= V ->
  (forall p, P = Some p -> S <= p /\ w <= p) ->
  forall a i d, let c := (mk_pcfg w S P V L compact) in
  Forall (fun s => s < 2 ^ S) a -> (i * w + w - 1) / S < N.of_nat (length a) -> i < 4294967296 -> (0 <= d)%Z -> (Z.of_N (fst (packed_get c a i)) + d < Z.of_N (2 ^ w))%Z ->
  let a' := fst (packed_set_incr c a i d) in
  fst (packed_get c a' i) = Z.to_N (Z.of_N (fst (packed_get c a i)) + d) /\
  (forall j, j < 4294967296 -> j <> i -> fst (packed_get c a' j) = fst (packed_get c a j)) /\
  (forall n, ~ (i * w <= n < i * w + w) -> N.testbit (slot_at a' (n / S)) (n mod S) = N.testbit (slot_at a (n / S)) (n mod S)) /\
  length a' = length a /\
  (forall k, In k (snd (packed_set_incr c a i d)) -> (i * w) / S <= k <= (i * w + w - 1) / S).
Proof. exact packed_incr. Qed.
Print Assumptions C09_packed_incr.

(* halve sets element i to half its value and modifies nothing else; only the element's slots are accessed *)
Theorem C09_packed_half : forall w S P V L compact,
  1 <= w -> w <= 32 -> (S = 8 \/ S = 16 \/ S = 32 \/ S = 64) -> w <= S + N.gcd w S -> w <= V ->
  (forall p, P = Some p -> S <= p /\ w <= p) ->
  forall a i, let c := (mk_pcfg w S P V L compact) in
  Forall (fun s => s < 2 ^ S) a -> (i * w + w - 1) / S < N.of_nat (length a) -> i < 4294967296 ->
  let a' := fst (packed_set_half c a i) in
  fst (packed_get c a' i) = fst (packed_get c a i) / 2 /\
  (forall j, j < 4294967296 -> j <> i -> fst (packed_get c a' j) = fst (packed_get c a j)) /\
  (forall n, ~ (i * w <= n < i * w + w) -> N.testbit (slot_at a' (n / S)) (n mod S) = N.testbit (slot_at a (n / S)) (n mod S)) /\
  length a' = length a /\
  (forall k, In k (snd (packed_set_half c a i)) -> (i * w) / S <= k <= (i * w + w - 1) / S).
Proof. exact packed_half. Qed.
Print Assumptions C09_packed_half.

(* positional insert is list insertion; storage beyond the len+1 elements is unchanged and only slots of those elements (all inside the array) are accessed *)
Theorem C09_packed_insert_at : forall w S P V L compact,
  1 <= w -> w <= 32 -> (S = 8 \/ S = 16 \/ S = 32 \/ S = 64) -> w <= S + N.gcd w S -> w <= V ->
  (forall p, P = Some p -> S <= p /\ w <= p) ->
  forall a len off v, let c := (mk_pcfg w S P V L compact) in
  Forall (fun s => s < 2 ^ S) a -> (len + 1) * w <= S * N.of_nat (length a) -> len < 2147483648 -> off <= len -> v < 2 ^ w ->
  let r := packed_insert c a len off v in
  elems c (fst r) (len + 1) = insert_at (elems c a len) (N.to_nat off) v /\
  length (fst r) = length a /\
  (forall n, (len + 1) * w <= n -> N.testbit (slot_at (fst r) (n / S)) (n mod S) = N.testbit (slot_at a (n / S)) (n mod S)) /\
  Forall (fun k => k * S < (len + 1) * w /\ k < N.of_nat (length a)) (snd r).
Proof. exact packed_insert_at. Qed.
Print Assumptions C09_packed_insert_at.

(* positional delete is list deletion; storage beyond the len elements is unchanged and only slots of those elements are accessed *)
Theorem C09_packed_delete_at : forall w S P V L compact,
  1 <= w -> w <= 32 -> (S = 8 \/ S = 16 \/ S = 32 \/ S = 64) -> w <= S + N.gcd w S -> w <= V ->
  (forall p, P = Some p -> S <= p /\ w <= p) ->
  forall a len off, let c := (mk_pcfg w S P V L compact) in
  Forall (fun s => s < 2 ^ S) a -> len * w <= S * N.of_nat (length a) -> len < 2147483648 -> len < 2 ^ L -> off < len ->
  let r := packed_delete c a len off in
  elems c (fst r) (len - 1) = delete_at (elems c a len) (N.to_nat off) /\
  length (fst r) = length a /\
  (forall n, len * w <= n -> N.testbit (slot_at (fst r) (n / S)) (n mod S) = N.testbit (slot_at a (n / S)) (n mod S)) /\
  Forall (fun k => k * S < len * w /\ k < N.of_nat (length a)) (snd r).
Proof. exact packed_delete_at. Qed.
Print Assumptions C09_packed_delete_at.

(* on a sorted array the binary search returns the lower bound and Member the index of the first equal element or -1 *)
Theorem C09_packed_search_member : forall w S P V L compact,
  1 <= w -> w <= 32 -> (S = 8 \/ S = 16 \/ S = 32 \/ S = 64) -> w <= S + N.gcd w S -> w <= V ->
  (forall p, P = Some p -> S <= p /\ w <= p) ->
  forall a len v, let c := (mk_pcfg w S P V L compact) in
  Forall (fun s => s < 2 ^ S) a -> len * w <= S * N.of_nat (length a) -> len < 2147483648 -> len < 2 ^ L ->
  StronglySorted N.le (elems c a len) ->
  (exists t, packed_binary_search c a len v = Some (N.of_nat (lower_bound (elems c a len) v), t)) /\
  (exists t, packed_member c a len v = Some (find_first (elems c a len) v, t)).
Proof. exact packed_search_member. Qed.
Print Assumptions C09_packed_search_member.

(* every history of sorted insert / delete-member / member / lower-bound operations keeps the array equal to the reference sorted list and returns the reference results; storage beyond the cap elements is never modified and only slots of those elements (all inside the array) are accessed *)
Theorem C09_packed_sorted_history : forall w S P V L compact,
  1 <= w -> w <= 32 -> (S = 8 \/ S = 16 \/ S = 32 \/ S = 64) -> w <= S + N.gcd w S -> w <= V ->
  (forall p, P = Some p -> S <= p /\ w <= p) ->
  forall cap a len xs ops, let c := (mk_pcfg w S P V L compact) in
  cap < 2147483648 -> cap < 2 ^ L -> Forall (fun s => s < 2 ^ S) a -> cap * w <= S * N.of_nat (length a) -> len <= cap ->
  elems c a len = xs -> StronglySorted N.le xs ->
  Forall (fun o => match o with SInsertSorted v => v < 2 ^ w | _ => True end) ops -> spec_fits (N.to_nat cap) xs ops ->
  exists a' len' t,
    packed_run c (a, len) ops = Some (a', len', snd (spec_run xs ops), t) /\
    elems c a' len' = fst (spec_run xs ops) /\ StronglySorted N.le (fst (spec_run xs ops)) /\
    length a' = length a /\ Forall (fun s => s < 2 ^ S) a' /\
    (forall n, cap * w <= n -> N.testbit (slot_at a' (n / S)) (n mod S) = N.testbit (slot_at a (n / S)) (n mod S)) /\
    Forall (fun k => k * S < cap * w /\ k < N.of_nat (length a)) t.
Proof. exact packed_sorted_history. Qed.
Print Assumptions C09_packed_sorted_history.

(* the reference operations keep a sorted multiset: sorted insert adds one occurrence, delete-member removes one occurrence if present, both keep the list sorted *)
Theorem C09_packed_spec_sorted_multiset : forall v xs, StronglySorted N.le xs ->
  StronglySorted N.le (ins v xs) /\ Permutation (ins v xs) (v :: xs) /\
  StronglySorted N.le (remove_first v xs) /\
  (mem v xs = true -> Permutation (v :: remove_first v xs) xs) /\ (mem v xs = false -> remove_first v xs = xs).
Proof. exact packed_spec_sorted_multiset. Qed.
Print Assumptions C09_packed_spec_sorted_multiset.

(* non-vacuity: the header's own example (3048 as 12 bits across two uint8_t
   slots), the in-tree instantiations satisfy the hypotheses, and a history on a
   compact 3-bit array filled to its exact capacity (the F25 situation) *)
Example C09_example_3048 :
  packed_set (mk_pcfg 12 8 (Some 16) 16 16 false) [0; 0; 0] 0 3048 = ([232; 11; 0], [0; 1]).
Proof. vm_compute. reflexivity. Qed.

Example C09_example_admitted :
  (12 <= 8 + N.gcd 12 8) /\ (12 <= 32 + N.gcd 12 32) /\ (13 <= 32 + N.gcd 13 32) /\ (3 <= 8 + N.gcd 3 8) /\
  ~ (11 <= 8 + N.gcd 11 8).
Proof. vm_compute. repeat split; try discriminate. intro H. apply H. reflexivity. Qed.

Example C09_example_history :
  let c := mk_pcfg 3 8 None 8 32 true in
  let ops := [SInsertSorted 5; SInsertSorted 3; SInsertSorted 7; SInsertSorted 3; SInsertSorted 0;
              SInsertSorted 6; SInsertSorted 1; SInsertSorted 2; SMember 3; SDeleteMember 3; SSearch 4] in
  spec_fits 8 [] ops /\
  spec_run [] ops = ([0; 1; 2; 3; 5; 6; 7], [0; 0; 0; 0; 0; 0; 0; 0; 3; 1; 4]%Z) /\
  match packed_run c ([255; 255; 255], 0) ops with
  | Some (a', len', rs, t) => elems c a' len' = [0; 1; 2; 3; 5; 6; 7] /\ rs = [0; 0; 0; 0; 0; 0; 0; 0; 3; 1; 4]%Z /\
                              forallb (fun k => k <? 3) t = true
  | None => False
  end.
Proof. split; [cbn; repeat split; repeat constructor | vm_compute; repeat split; reflexivity]. Qed.
