(* Bitmap.v — executable model of src/varintBitmap.{c,h} (Roaring-style set of
   uint16_t), function by function, as the code stands after the `fix:` commits
   for F24 (AddRange) and F14 (Decode).  No proofs here (BitmapLemmas.v,
   BitmapProofs*.v).

   State.  `bm_card` is the C field `cardinality` and is maintained exactly where
   the C maintains it.  The bm_container is
     BmArray rvals cap : rvals = values[cardinality-1], ..., values[1], values[0]: the
                       live slots of bm_container.array.values, LAST slot first (the C
                       never reads a slot at or beyond `cardinality`; those slots are
                       not modelled).  Held in this order so that the cost profile of
                       the model matches memmove: appending at the end is O(1),
                       inserting at index i rebuilds cardinality - i cells.
                       cap = bm_container.array.capacity;
     BmBits bits      : the 8192 bytes of bm_container.bitmap.bits, as a finite map
                       from byte index to byte (absent = 0, as calloc leaves it);
     BmRuns runs cap  : runs = the numRuns (start,length) pairs, cap = runs.capacity.
   Allocation failure is outside C08/C14 (C18); every malloc/calloc/realloc is
   taken to succeed, the sites are listed in the report.  The decoder records the
   sizes it asks for. *)
Require Import VV.Base.
From Coq Require Import FMapPositive.
Local Open Scope N_scope.

(* ------------------------------------------------------------------ *)
(* N-indexed list helpers: indices are C uint32_t values, never nat    *)

(* The primitives below are the memory model of a C array held as a list: read
   a[i], write a[i], memmove up/down by one slot.  They recurse on the binary
   digits of the index (no arithmetic per element); BitmapLemmas.v relates them
   to nth / firstn / skipn at N.to_nat i. *)

(* drop p elements *)
Fixpoint bm_dropP {A : Type} (p : positive) (l : list A) : list A :=
  match p with
  | xH => tl l
  | xO q => bm_dropP q (bm_dropP q l)
  | xI q => tl (bm_dropP q (bm_dropP q l))
  end.
Definition bm_skipnN {A : Type} (n : N) (l : list A) : list A :=
  match n with N0 => l | Npos p => bm_dropP p l end.

(* first p elements of l, followed by k applied to the rest *)
Definition bm_take1 {A : Type} (l : list A) (k : list A -> list A) : list A :=
  match l with x :: t => x :: k t | [] => k [] end.
Fixpoint bm_takeP {A : Type} (p : positive) (l : list A) (k : list A -> list A) : list A :=
  match p with
  | xH => bm_take1 l k
  | xO q => bm_takeP q l (fun r => bm_takeP q r k)
  | xI q => bm_takeP q l (fun r => bm_takeP q r (fun r2 => bm_take1 r2 k))
  end.
Definition bm_takeN {A : Type} (n : N) (l : list A) (k : list A -> list A) : list A :=
  match n with N0 => k l | Npos p => bm_takeP p l k end.

Definition bm_nthN (l : list N) (i : N) : N := hd 0 (bm_skipnN i l).

Definition bm_firstnN {A : Type} (n : N) (l : list A) : list A := bm_takeN n l (fun _ => []).

(* insert v after the first i cells *)
Definition bm_insertN (l : list N) (i v : N) : list N := bm_takeN i l (fun r => v :: r).

(* delete the cell after the first i cells *)
Definition bm_removeN (l : list N) (i : N) : list N := bm_takeN i l (fun r => tl r).

Definition bm_lenN {A : Type} (l : list A) : N := N.of_nat (length l).

(* for (i = lo; i < lo + n; i++) s = body i s *)
Definition bm_for_loop {S : Type} (lo n : N) (body : N -> S -> S) (s : S) : S :=
  snd (N.iter n (fun p => (fst p + 1, body (fst p) (snd p))) (lo, s)).

Definition bm_nseqN (lo n : N) : list N := rev_append (bm_for_loop lo n (fun i acc => i :: acc) []) [].

(* byte-addressed memory block: finite map index -> byte, absent = 0 *)
Definition bm_mem8 := PositiveMap.t N.
Definition bm_mzero : bm_mem8 := PositiveMap.empty N.
Definition bm_mget (m : bm_mem8) (i : N) : N :=
  match PositiveMap.find (N.succ_pos i) m with Some b => b | None => 0 end.
Definition bm_mset (m : bm_mem8) (i b : N) : bm_mem8 := PositiveMap.add (N.succ_pos i) b m.
(* memcpy(m, bytes, length bytes) *)
Definition bm_mem_of_bytes (bytes : list N) : bm_mem8 :=
  snd (fold_left (fun st b => (fst st + 1, bm_mset (snd st) (fst st) b)) bytes (0, bm_mzero)).
(* the byte indices 0 .. 8191 of a bm_state bm_container *)
Definition bm_byte_idx : list N := bm_nseqN 0 8192.

Definition bm_replN {A : Type} (n : N) (x : A) : list A := N.iter n (cons x) [].

(* ------------------------------------------------------------------ *)
(* constants of varintBitmap.h (checked against the header in BitmapLemmas.v) *)

Definition BM_ARRAY : N := 0.
Definition BM_BITMAP : N := 1.
Definition BM_RUNS : N := 2.

Definition bm_to_s32 (x : N) : Z :=
  if x <? 2147483648 then Z.of_N x else (Z.of_N x - 4294967296)%Z.
(* uint32_t wrap-around, with the no-wrap case decided by one comparison
   (bm_u32 x = u32 x, bm_u16 x = u16 x, bm_sub32 x y = (x - y) mod 2^32 in uint32_t) *)
Definition bm_u32 (x : N) : N := if x <? 4294967296 then x else x mod 4294967296.
Definition bm_u16 (x : N) : N := if x <? 65536 then x else x mod 65536.
Definition bm_sub32 (x y : N) : N :=
  if (y <=? x) && (x <? 4294967296) then x - y
  else (x + 4294967296 - y mod 4294967296) mod 4294967296.

Inductive bm_container :=
| BmArray (rvals : list N) (cap : N)
| BmBits (bits : bm_mem8)
| BmRuns (runs : list (N * N)) (cap : N).

Record bm_state := mkBM { bm_card : N; bm_c : bm_container }.

(* ------------------------------------------------------------------ *)
(* internal helpers                                                     *)

(* binarySearch_: index if found, else -(insertion point + 1).  int32_t
   arithmetic; the loop halves high-low, 40 rounds exceed any 32-bit span
   (out of fuel is a value no caller can mistake for a result).
   The array is handed over last-slot-first: `ah` is values[high], values[high-1],
   ..., values[0] and `am` the same from values[mid] on, so that array[mid] is the
   head of `am`. *)
Fixpoint bm_bsearch_loop (fuel : nat) (ah : list N) (low high : Z) (v : N) : Z :=
  match fuel with
  | O => (-1099511627776)%Z
  | S f =>
      if (low <=? high)%Z then
        let mid := Z.quot2 (low + high) in
        let am := bm_skipnN (Z.to_N (high - mid)) ah in
        let midVal := hd 0 am in
        if midVal <? v then bm_bsearch_loop f ah (mid + 1)%Z high v
        else if v <? midVal then bm_bsearch_loop f (tl am) low (mid - 1)%Z v
        else mid
      else (- (low + 1))%Z
  end.

(* binarySearch_(values, length, value) with rvals = values[length-1], ..., values[0] *)
Definition bm_binary_search (rvals : list N) (length v : N) : Z :=
  if length =? 0 then (-1)%Z
  else bm_bsearch_loop 40 rvals 0%Z (bm_to_s32 (bm_sub32 length 1)) v.

(* values[0], values[1], ... in index order *)
Definition bm_arr_values (rvals : list N) : list N := rev_append rvals [].
Definition bm_arr_of_values (vals : list N) : list N := rev_append vals [].

(* __builtin_popcount of one byte *)
Fixpoint bm_popc (k : nat) (b : N) : N :=
  match k with
  | O => 0
  | S k' => N.b2n (N.odd b) + bm_popc k' (N.div2 b)
  end.
Definition bm_popcount8 (b : N) : N := bm_popc 8 b.

(* bitmapCardinality_ *)
Definition bm_bitmap_cardinality (bits : bm_mem8) : N :=
  bm_u32 (fold_left (fun c i => c + bm_popcount8 (bm_mget bits i)) bm_byte_idx 0).

(* bitmapContains_ *)
Definition bm_bits_contains (bits : bm_mem8) (v : N) : bool :=
  let byteIdx := v / 8 in
  let bitIdx := v mod 8 in
  negb (N.land (bm_mget bits byteIdx) (2 ^ bitIdx) =? 0).

(* bitmapSet_ : (bits, changed) *)
Definition bm_bits_set (bits : bm_mem8) (v : N) : bm_mem8 * bool :=
  let byteIdx := v / 8 in
  let mask := 2 ^ (v mod 8) in
  let b := bm_mget bits byteIdx in
  let wasSet := negb (N.land b mask =? 0) in
  (bm_mset bits byteIdx (N.lor b mask), negb wasSet).

(* bitmapClear_ : (bits, changed) *)
Definition bm_bits_clear (bits : bm_mem8) (v : N) : bm_mem8 * bool :=
  let byteIdx := v / 8 in
  let mask := 2 ^ (v mod 8) in
  let b := bm_mget bits byteIdx in
  let wasSet := negb (N.land b mask =? 0) in
  (bm_mset bits byteIdx (N.ldiff b mask), wasSet).

Definition bm_zero_bits : bm_mem8 := bm_mzero.

(* the scan `for (i = 0; i < 65536; i++) if (bitmapContains_(bits, i)) emit i`,
   byte by byte: bit k of byte j is value 8 j + k *)
Fixpoint bm_byte_vals (k : nat) (base b : N) : list N :=
  match k with
  | O => []
  | S k' => (if N.odd b then [base] else []) ++ bm_byte_vals k' (N.succ base) (N.div2 b)
  end.
Definition bm_bits_values (bits : bm_mem8) : list N :=
  flat_map (fun j => match bm_mget bits j with N0 => [] | b => bm_byte_vals 8 (j * 8) b end) bm_byte_idx.

(* arrayToBitmap_: calloc + bitmapSet_ of values[0..cardinality) *)
Definition bm_set_all (bits : bm_mem8) (vs : list N) : bm_mem8 :=
  fold_left (fun b v => fst (bm_bits_set b v)) vs bits.
Definition bm_array_to_bits (rvals : list N) : bm_mem8 :=
  bm_set_all bm_zero_bits (bm_arr_values rvals).

(* the values of one run: (uint16_t)(start + j), j = 0 .. length-1 *)
Definition bm_run_vals (r : N * N) : list N :=
  map (fun j => bm_u16 (fst r + j)) (bm_nseqN 0 (snd r)).
(* runs -> array: values[pos++] = start + j *)
Definition bm_runs_values (runs : list (N * N)) : list N := flat_map bm_run_vals runs.
(* runs -> bm_state: calloc + bitmapSet_(bits, start + j) *)
Definition bm_runs_to_bits (runs : list (N * N)) : bm_mem8 :=
  fold_left (fun b r => bm_set_all b (bm_run_vals r)) runs bm_zero_bits.

(* arrayEnsureCapacity_: the new capacity *)
Definition bm_ensure_capacity (cap needed : N) : N :=
  if needed <=? cap then cap
  else
    let newCapacity := bm_u32 (cap * 2) in
    if newCapacity <? needed then needed else newCapacity.

(* ------------------------------------------------------------------ *)
(* core API                                                             *)

(* varintBitmapCreate *)
Definition bm_create : bm_state := mkBM 0 (BmArray [] 16).

(* varintBitmapClone: same type, cardinality, capacity and live data *)
Definition bm_clone (s : bm_state) : bm_state :=
  match bm_c s with
  | BmArray rvals cap => mkBM (bm_card s) (BmArray rvals cap)
  | BmBits bits => mkBM (bm_card s) (BmBits bits)
  | BmRuns runs cap => mkBM (bm_card s) (BmRuns runs cap)
  end.

(* varintBitmapAdd, ARRAY case *)
Definition bm_add_array (card : N) (rvals : list N) (cap v : N) : bm_state * bool :=
  let idx := bm_binary_search rvals card v in
  if (0 <=? idx)%Z then (mkBM card (BmArray rvals cap), false)
  else if 4096 <=? card then
    let bits := bm_array_to_bits rvals in
    (mkBM (bm_u32 (card + 1)) (BmBits (fst (bm_bits_set bits v))), true)
  else
    let insertPos := Z.to_N (- (idx + 1)) in
    let cap' := bm_ensure_capacity cap (bm_u32 (card + 1)) in
    (* slot insertPos counted from the front = card - insertPos cells from the back *)
    (mkBM (bm_u32 (card + 1)) (BmArray (bm_insertN rvals (card - insertPos) v) cap'), true).

(* varintBitmapAdd, BITMAP case *)
Definition bm_add_bits (card : N) (bits : bm_mem8) (v : N) : bm_state * bool :=
  let r := bm_bits_set bits v in
  if snd r then (mkBM (bm_u32 (card + 1)) (BmBits (fst r)), true)
  else (mkBM card (BmBits (fst r)), false).

(* varintBitmapAdd *)
Definition bm_add (s : bm_state) (v : N) : bm_state * bool :=
  match bm_c s with
  | BmArray rvals cap => bm_add_array (bm_card s) rvals cap v
  | BmBits bits => bm_add_bits (bm_card s) bits v
  | BmRuns runs _ =>
      if 4096 <=? bm_card s then bm_add_bits (bm_card s) (bm_runs_to_bits runs) v
      else bm_add_array (bm_card s) (bm_arr_of_values (bm_runs_values runs)) (bm_u32 (bm_card s + 1)) v
  end.

(* varintBitmapRemove, ARRAY case *)
Definition bm_remove_array (card : N) (rvals : list N) (cap v : N) : bm_state * bool :=
  let idx := bm_binary_search rvals card v in
  if (idx <? 0)%Z then (mkBM card (BmArray rvals cap), false)
  else (mkBM (bm_sub32 card 1) (BmArray (bm_removeN rvals (card - 1 - Z.to_N idx)) cap), true).

(* varintBitmapRemove, BITMAP case (bitmapToArray_ below 4096) *)
Definition bm_remove_bits (card : N) (bits : bm_mem8) (v : N) : bm_state * bool :=
  let r := bm_bits_clear bits v in
  if snd r then
    let card' := bm_sub32 card 1 in
    if card' <? 4096 then (mkBM card' (BmArray (bm_arr_of_values (bm_bits_values (fst r))) card'), true)
    else (mkBM card' (BmBits (fst r)), true)
  else (mkBM card (BmBits (fst r)), false).

(* varintBitmapRemove *)
Definition bm_remove (s : bm_state) (v : N) : bm_state * bool :=
  match bm_c s with
  | BmArray rvals cap => bm_remove_array (bm_card s) rvals cap v
  | BmBits bits => bm_remove_bits (bm_card s) bits v
  | BmRuns runs _ =>
      if 4096 <=? bm_card s then bm_remove_bits (bm_card s) (bm_runs_to_bits runs) v
      else bm_remove_array (bm_card s) (bm_arr_of_values (bm_runs_values runs)) (bm_card s) v
  end.

(* varintBitmapContains, RUNS case *)
Fixpoint bm_runs_contains (runs : list (N * N)) (v : N) : bool :=
  match runs with
  | [] => false
  | (start, len) :: t =>
      if (start <=? v) && (v <? start + len) then true
      else if v <? start then false
      else bm_runs_contains t v
  end.

(* varintBitmapContains *)
Definition bm_contains (s : bm_state) (v : N) : bool :=
  match bm_c s with
  | BmArray rvals _ => (0 <=? bm_binary_search rvals (bm_card s) v)%Z
  | BmBits bits => bm_bits_contains bits v
  | BmRuns runs _ => bm_runs_contains runs v
  end.

Definition bm_cardinality (s : bm_state) : N := bm_card s.
Definition bm_is_empty (s : bm_state) : bool := bm_card s =? 0.
Definition bm_optimize (s : bm_state) : bm_state := s.

(* varintBitmapClear *)
Definition bm_clear (s : bm_state) : bm_state :=
  match bm_c s with
  | BmArray _ cap => mkBM 0 (BmArray [] cap)
  | BmBits _ => mkBM 0 (BmBits bm_zero_bits)
  | BmRuns _ cap => mkBM 0 (BmRuns [] cap)
  end.

(* varintBitmapSizeBytes (sizeof(varintBitmap) = 24) *)
Definition bm_size_bytes (s : bm_state) : N :=
  match bm_c s with
  | BmArray _ cap => 24 + cap * 2
  | BmBits _ => 24 + 8192
  | BmRuns _ cap => 24 + cap * 2 * 2
  end.

Definition bm_type (s : bm_state) : N :=
  match bm_c s with BmArray _ _ => BM_ARRAY | BmBits _ => BM_BITMAP | BmRuns _ _ => BM_RUNS end.

(* varintBitmapGetStats: (sizeBytes, type, cardinality, containerCapacity) *)
Definition bm_get_stats (s : bm_state) : N * N * N * N :=
  (bm_size_bytes s, bm_type s, bm_card s,
   match bm_c s with BmArray _ cap => cap | BmBits _ => 8192 * 8 | BmRuns _ cap => cap end).

(* ------------------------------------------------------------------ *)
(* iteration                                                            *)

(* the sequence of currentValue produced by
     it = CreateIterator(vb); while (IteratorNext(&it)) ...
   (proved equal to repeated bm_iter_next in BitmapProofsIter.v) *)
Definition bm_iter_all (s : bm_state) : list N :=
  match bm_c s with
  | BmArray rvals _ => bm_arr_values rvals
  | BmBits bits => bm_bits_values bits
  | BmRuns runs _ => bm_runs_values runs
  end.

(* varintBitmapIterator: position, currentValue, hasValue *)
Record bm_iter := mkBmIt { bm_it_pos : N; bm_it_cur : N; bm_it_has : bool }.
Definition bm_iter_init : bm_iter := mkBmIt 0 0 false.

(* the BITMAP loop of IteratorNext: first position >= 8*j0 + from whose bit is
   set, scanning the bytes with indices `idxs` (= j0, j0+1, .. 8191); 65536 when
   there is none *)
Fixpoint bm_first_bit (k : nat) (b from i : N) : option N :=
  match k with
  | O => None
  | S k' => if (from <=? i) && N.odd b then Some i else bm_first_bit k' (N.div2 b) from (N.succ i)
  end.
Fixpoint bm_scan_bits (bits : bm_mem8) (idxs : list N) (from : N) : N :=
  match idxs with
  | [] => 65536
  | j :: t => match bm_first_bit 8 (bm_mget bits j) from 0 with
              | Some k => j * 8 + k
              | None => bm_scan_bits bits t 0
              end
  end.

(* RUNS case of IteratorNext on the runs from runIdx on *)
Fixpoint bm_runs_next (rest : list (N * N)) (runIdx off : N) : option (N * N) :=
  match rest with
  | [] => None
  | (start, len) :: t =>
      if off <? len then Some (bm_u32 (runIdx * 65536 + off + 1), bm_u16 (start + off))
      else bm_runs_next t (runIdx + 1) 0
  end.

(* varintBitmapIteratorNext : (iterator, returned flag) *)
Definition bm_iter_next (s : bm_state) (it : bm_iter) : bm_iter * bool :=
  match bm_c s with
  | BmArray rvals _ =>
      if bm_it_pos it <? bm_card s
      then (mkBmIt (bm_it_pos it + 1) (bm_nthN rvals (bm_card s - 1 - bm_it_pos it)) true, true)
      else (mkBmIt (bm_it_pos it) (bm_it_cur it) false, false)
  | BmBits bits =>
      let p := bm_it_pos it in
      let q := if p <? 65536 then bm_scan_bits bits (bm_skipnN (p / 8) bm_byte_idx) (p mod 8) else p in
      if q <? 65536 then (mkBmIt (q + 1) q true, true)
      else (mkBmIt q (bm_it_cur it) false, false)
  | BmRuns runs _ =>
      (* position / 65536 and position % 65536, by shift and mask *)
      let runIdx := N.shiftr (bm_it_pos it) 16 in
      let off := N.land (bm_it_pos it) 65535 in
      match bm_runs_next (bm_skipnN runIdx runs) runIdx off with
      | Some (p, v) => (mkBmIt p v true, true)
      | None =>
          (* the position reached when the runs are exhausted *)
          let p := if runIdx <? bm_lenN runs then bm_u32 (bm_lenN runs * 65536) else bm_it_pos it in
          (mkBmIt p (bm_it_cur it) false, false)
      end
  end.

(* ToArray-style loop run with explicit fuel (used to state the iterator theorem) *)
Fixpoint bm_iter_run (fuel : nat) (s : bm_state) (it : bm_iter) : list N :=
  match fuel with
  | O => []
  | S f => let r := bm_iter_next s it in
           if snd r then bm_it_cur (fst r) :: bm_iter_run f s (fst r) else []
  end.

(* varintBitmapToArray: the values written to output[0..count) *)
Definition bm_to_array (s : bm_state) : list N := bm_iter_all s.

(* varintBitmapAddMany *)
Definition bm_add_many (s : bm_state) (vs : list N) : bm_state :=
  fold_left (fun r v => fst (bm_add r v)) vs s.

(* ------------------------------------------------------------------ *)
(* set operations (operands are const; results are fresh)               *)

(* the two-pointer loop of varintBitmapAnd on two arrays *)
Fixpoint bm_and_arrays (l1 : list N) : list N -> bm_state -> bm_state :=
  fix go (l2 : list N) (r : bm_state) : bm_state :=
    match l1, l2 with
    | v1 :: t1, v2 :: t2 =>
        if v1 =? v2 then bm_and_arrays t1 t2 (fst (bm_add r v1))
        else if v1 <? v2 then bm_and_arrays t1 l2 r
        else go t2 r
    | _, _ => r
    end.

Definition bm_is_array (s : bm_state) : bool :=
  match bm_c s with BmArray _ _ => true | _ => false end.

Definition bm_and (a b : bm_state) : bm_state :=
  if bm_is_array a && bm_is_array b then bm_and_arrays (bm_iter_all a) (bm_iter_all b) bm_create
  else
    let smaller := if bm_card a <? bm_card b then a else b in
    let other := if bm_card a <? bm_card b then b else a in
    fold_left (fun r v => if bm_contains other v then fst (bm_add r v) else r)
              (bm_iter_all smaller) bm_create.

Definition bm_or (a b : bm_state) : bm_state :=
  fold_left (fun r v => fst (bm_add r v)) (bm_iter_all b) (bm_clone a).

Definition bm_andnot (a b : bm_state) : bm_state :=
  fold_left (fun r v => if bm_contains b v then r else fst (bm_add r v)) (bm_iter_all a) bm_create.

Definition bm_xor (a b : bm_state) : bm_state :=
  let r1 := fold_left (fun r v => if bm_contains b v then r else fst (bm_add r v)) (bm_iter_all a) bm_create in
  fold_left (fun r v => if bm_contains a v then r else fst (bm_add r v)) (bm_iter_all b) r1.

(* ------------------------------------------------------------------ *)
(* range operations                                                     *)

(* varintBitmapAddRange (after the F24 fix: the single-run shortcut only on an
   empty set) *)
Definition bm_add_range (s : bm_state) (min max : N) : bm_state :=
  if max <=? min then s
  else
    let rangeSize := max - min in
    if (4096 <? rangeSize) && (bm_card s =? 0) then
      mkBM rangeSize (BmRuns [(min, bm_u16 rangeSize)] 1)
    else bm_for_loop min rangeSize (fun i r => fst (bm_add r i)) s.

(* varintBitmapRemoveRange *)
Definition bm_remove_range (s : bm_state) (min max : N) : bm_state :=
  bm_for_loop min (max - min) (fun i r => fst (bm_remove r i)) s.

(* ------------------------------------------------------------------ *)
(* serialisation (little-endian host: memcpy of uint32_t / uint16_t)    *)

Definition bm_enc_u16s (l : list N) : list N := flat_map (le_bytes 2) l.
Definition bm_enc_runs (l : list (N * N)) : list N :=
  flat_map (fun r => le_bytes 2 (fst r) ++ le_bytes 2 (snd r)) l.

(* varintBitmapEncode: the bytes written (return value = their number) *)
Definition bm_encode (s : bm_state) : list N :=
  [bm_type s] ++ le_bytes 4 (bm_card s) ++
  match bm_c s with
  | BmArray rvals _ => bm_enc_u16s (bm_arr_values rvals)
  | BmBits bits => map (bm_mget bits) bm_byte_idx
  | BmRuns runs _ => le_bytes 4 (bm_lenN runs) ++ bm_enc_runs runs
  end.

(* reading: `cnt` bytes at offset `off` (positions beyond the list read as 0;
   the decoder is proved never to ask for a position at or beyond `len`) *)
Definition bm_rd (z : list N) (off cnt : N) : list N :=
  let s := bm_firstnN cnt (bm_skipnN off z) in
  s ++ bm_replN (cnt - bm_lenN s) 0.

Fixpoint bm_dec_u16s (l : list N) : list N :=
  match l with
  | a :: b :: t => (a + 256 * b) :: bm_dec_u16s t
  | _ => []
  end.
Fixpoint bm_dec_runs (l : list N) : list (N * N) :=
  match l with
  | a :: b :: c :: d :: t => (a + 256 * b, c + 256 * d) :: bm_dec_runs t
  | _ => []
  end.

(* values[i-1] < values[i] for all i *)
Fixpoint bm_ascending (l : list N) : bool :=
  match l with
  | a :: ((b :: _) as t) => (a <? b) && bm_ascending t
  | _ => true
  end.

(* the run validation loop: Some total, or None as soon as a run is rejected *)
Fixpoint bm_check_runs (runs : list (N * N)) (nextFree total : N) : option N :=
  match runs with
  | [] => Some total
  | (start, len) :: t =>
      if (len =? 0) || (start <? nextFree) || (65536 <? start + len) then None
      else bm_check_runs t (start + len) (bm_u32 (total + len))
  end.

(* varintBitmapDecode(buffer, len): (result or NULL, bytes requested from malloc) *)
Definition bm_decode (z : list N) (len : N) : option bm_state * N :=
  if len <? 5 then (None, 0)
  else
    let type := bm_nthN z 0 in
    let cardinality := of_le (bm_rd z 1 4) in
    let len1 := len - 5 in
    if (2 <? type) || (65536 <? cardinality) then (None, 0)
    else if type =? 0 then
      if len1 / 2 <? cardinality then (None, 24)
      else
        let vals := bm_dec_u16s (bm_rd z 5 (cardinality * 2)) in
        if bm_ascending vals then (Some (mkBM cardinality (BmArray (bm_arr_of_values vals) cardinality)), 24 + cardinality * 2)
        else (None, 24 + cardinality * 2)
    else if type =? 1 then
      if len1 <? 8192 then (None, 24)
      else
        let bits := bm_mem_of_bytes (bm_rd z 5 8192) in
        if bm_bitmap_cardinality bits =? cardinality then (Some (mkBM cardinality (BmBits bits)), 24 + 8192)
        else (None, 24 + 8192)
    else
      if len1 <? 4 then (None, 24)
      else
        let numRuns := of_le (bm_rd z 5 4) in
        let len2 := len1 - 4 in
        if (cardinality <? numRuns) || (len2 / 4 <? numRuns) then (None, 24)
        else
          let runs := bm_dec_runs (bm_rd z 9 (numRuns * 4)) in
          match bm_check_runs runs 0 0 with
          | Some total =>
              if total =? cardinality then (Some (mkBM cardinality (BmRuns runs numRuns)), 24 + numRuns * 4)
              else (None, 24 + numRuns * 4)
          | None => (None, 24 + numRuns * 4)
          end.

(* EXTRACT: bm_create bm_clone bm_add bm_remove bm_contains bm_cardinality bm_is_empty
   bm_optimize bm_clear bm_size_bytes bm_get_stats bm_type bm_iter_all bm_iter_init bm_iter_next bm_it_pos bm_it_cur bm_it_has
   bm_to_array bm_add_many bm_and bm_or bm_xor bm_andnot bm_add_range bm_remove_range
   bm_encode bm_decode bm_card bm_lenN *)
